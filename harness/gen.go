package main

import (
	"fmt"
	"hash/fnv"
	"math"
	"strconv"
	"strings"
)

// Grammar-directed generator of (template AST, data) pairs.

type Profile struct {
	Name       string
	W          map[string]int // construct weights
	MaxDepth   int
	MaxItems   int
	Letters    bool // escape letters on prints
	Mods       bool // modifier chains on prints
	PfxSfx     bool
	Regions    bool
	RegionKind string // restrict regions to one kind
	Effects    bool   // prints through vdefer / vacquire (C18)
	NoMaps     bool   // no map-typed data (the generated map inspectors allocate by themselves)
	KeepFmt    bool   // also generate keepFmt=true cases with newlines in text
	OKFlags    bool   // ctx assignments mostly carry an ok-flag, sources are often absent
	Comments   bool
	BreakN     bool
	Includes   bool
	Faults     bool // enumerate fault positions
	CondHist   bool // conditions preceded by other conditions (also on missing fields)
	LongVals   int  // per cent of cases in which one text variable is long (tens to thousands of bytes)
}

type scopeVar struct {
	Name string
	Kind string // int uint float bool string bytes hist(struct) key
	Idx  bool   // variable of a counting loop that stays within the history's indices: usable as History[i]
	// (outside them the generated inspector hands out the slice itself or panics: external)
}

type Gen struct {
	r                    *RNG
	p                    *Profile
	data                 *DataEnv
	flits                map[string]float64
	scope                []scopeVar
	loopD                int
	nextVar              int
	tags                 map[string]bool
	incs                 []string // registered include keys available
	budget               int
	noBreak              bool
	past                 []string // variables of counter loops that have ended (still readable afterwards)
	lastCtx, lastCtxKind string   // the most recent {% ctx %} variable and the kind of its source
	longPath             string   // path of the long text value of this case's data, if there is one
	longLen              int
	inRegion             int
}

var niceFloats = []float64{0, 1, -1, 0.5, -0.5, 2.25, 10, 12.5, 100, 1e6, 123456.75, -7.125, 3, 0.25, 1e15, 9000.015, 14.345241, 2.5e-7, 1e21, math.MaxInt32}

func (g *Gen) tag(t string) { g.tags[t] = true }

func (g *Gen) genData() {
	r := g.r
	d := &DataEnv{}
	u := &d.User
	u.Present = r.Chance(92)
	strs := []string{"", "a", "abc", "John", "x y", "115", "0", "zz top", "Abc", "b"}
	u.Id = strs[r.Intn(len(strs))]
	u.Name = []byte(strs[r.Intn(len(strs))])
	ints := []int64{0, 1, -1, 5, 7, 10, 78, 100, math.MaxInt32, math.MinInt32, 2, 3}
	u.Status = int32(ints[r.Intn(len(ints))])
	uints := []uint64{0, 1, 2, 5, 42, math.MaxUint32, math.MaxInt64, 10}
	u.Ustate = uints[r.Intn(len(uints))]
	u.Cost = niceFloats[r.Intn(len(niceFloats))]
	u.HasFinance = r.Chance(85)
	u.Balance = niceFloats[r.Intn(len(niceFloats))]
	u.AllowBuy = r.Bool()
	nh := r.Intn(4)
	if r.Chance(15) {
		nh = 0
	}
	for i := 0; i < nh; i++ {
		u.History = append(u.History, HistRow{DateUnix: ints[r.Intn(len(ints))] + 1500000000, Cost: niceFloats[r.Intn(len(niceFloats))], Comment: []byte(strs[r.Intn(len(strs))])})
	}
	switch r.Intn(4) {
	case 0:
	case 1, 2:
		u.Flags = [][2]string{{"export", fmt.Sprint(ints[r.Intn(6)])}}
	default:
		u.Flags = [][2]string{{"export", "17"}, {"ro", "4"}, {"rw", "7"}}
	}
	if g.p.NoMaps {
		u.Flags = nil
	}
	// statics
	kinds := []string{"int", "int64", "int8", "uint", "uint32", "float", "bool", "string", "bytes", "nil", "setbytes", "setstring", "counter"}
	n := 3 + r.Intn(5)
	for i := 0; i < n; i++ {
		// (some names contain the words the parser knows as constants: true, false, nil)
		name := fmt.Sprintf("s%d", i)
		switch i {
		case 1:
			name = "trueName1"
		case 3:
			name = "nilScore3"
		case 5:
			name = "falsePos5"
		}
		v := StaticVar{Name: name, Kind: kinds[r.Intn(len(kinds))], Ptr: r.Chance(70)}
		switch v.Kind {
		case "int", "int64":
			v.I = ints[r.Intn(len(ints))]
			if v.Kind == "int64" && r.Chance(20) {
				v.I = []int64{math.MaxInt64, math.MinInt64}[r.Intn(2)]
			}
		case "int8":
			v.I = []int64{0, 1, -1, 127, -128, 5}[r.Intn(6)]
		case "uint":
			v.U = uints[r.Intn(len(uints))]
			if r.Chance(10) {
				v.U = math.MaxUint64
			}
		case "uint32":
			v.U = []uint64{0, 1, 7, math.MaxUint32}[r.Intn(4)]
		case "float":
			v.F = niceFloats[r.Intn(len(niceFloats))]
		case "bool":
			v.B = r.Bool()
		case "string", "bytes", "setbytes", "setstring":
			v.S = []byte(strs[r.Intn(len(strs))])
		case "counter":
			v.I = int64(r.Intn(5))
		}
		d.Statics = append(d.Statics, v)
	}
	if g.p.LongVals > 0 && r.Chance(g.p.LongVals) {
		n := []int{12, 40, 70, 130, 300, 1100, 4097, 5000}[r.Intn(8)]
		if g.p.Regions && r.Bool() {
			n = []int{4097, 5000, 4200}[r.Intn(3)] // beyond the scratch sizes the bound tags work with
		}
		lt := longText(n)
		g.tag(fmt.Sprintf("data:long-text=%d", n))
		g.longLen = n
		switch r.Intn(4) {
		case 0:
			u.Id, g.longPath = string(lt), "user.Id"
		case 1:
			u.Name, g.longPath = lt, "user.Name"
		case 2:
			if len(u.History) > 0 && u.HasFinance {
				k := r.Intn(len(u.History))
				u.History[k].Comment, g.longPath = lt, fmt.Sprintf("user.Finance.History.%d.Comment", k)
			} else {
				u.Name, g.longPath = lt, "user.Name"
			}
		default:
			for i := range d.Statics {
				switch d.Statics[i].Kind {
				case "string", "bytes", "setbytes", "setstring":
					if g.longPath == "" {
						d.Statics[i].S, g.longPath = lt, d.Statics[i].Name
					}
				}
			}
			if g.longPath == "" {
				u.Id, g.longPath = string(lt), "user.Id"
			}
		}
		if !u.Present {
			u.Present = true
		}
	}
	if g.p.W["rloop"] > 0 && u.HasFinance && r.Chance(2) {
		// a collection beyond 256 elements
		rows := []int{256, 257, 300}[r.Intn(3)]
		for len(u.History) < rows {
			k := len(u.History)
			u.History = append(u.History, HistRow{DateUnix: 1500000000 + int64(k), Cost: niceFloats[k%len(niceFloats)], Comment: []byte(strs[k%len(strs)])})
		}
		g.tag(fmt.Sprintf("data:history-rows=%d", rows))
	}
	g.data = d
	// float literal table: every float value of the data by its text
	add := func(f float64) { g.flits[floatText(f)] = f }
	add(u.Cost)
	add(u.Balance)
	for _, h := range u.History {
		add(h.Cost)
	}
	for _, s := range d.Statics {
		if s.Kind == "float" {
			add(s.F)
		}
	}
	// integer texts may be compared against float variables too
	for _, i := range ints {
		g.flits[fmt.Sprint(i)] = float64(i)
	}
}

// ---- operands

type operand struct {
	Path string
	Kind string // int uint float bool string bytes missing nilptr
	W32  bool   // int32 field of a generated inspector: literals must stay within int32
	I    int64
	U    uint64
	F    float64
	B    bool
	S    []byte
}

// scalarOperands lists the addressable scalars of the data (and loop variables in scope).
func (g *Gen) scalarOperands() []operand {
	d := g.data
	var ops []operand
	u := &d.User
	if u.Present {
		ops = append(ops,
			operand{Path: "user.Id", Kind: "string", S: []byte(u.Id)},
			operand{Path: "user.Name", Kind: "bytes", S: u.Name},
			operand{Path: "user.Status", Kind: "int", I: int64(u.Status), W32: true},
			operand{Path: "user.Ustate", Kind: "uint", U: u.Ustate},
			operand{Path: "user.Cost", Kind: "float", F: u.Cost},
			operand{Path: "user.Nope", Kind: "missing"},
		)
		if u.HasFinance {
			ops = append(ops,
				operand{Path: "user.Finance.Balance", Kind: "float", F: u.Balance},
				operand{Path: "user.Finance.AllowBuy", Kind: "bool", B: u.AllowBuy})
			for i, h := range u.History {
				ops = append(ops,
					operand{Path: fmt.Sprintf("user.Finance.History.%d.Cost", i), Kind: "float", F: h.Cost},
					operand{Path: fmt.Sprintf("user.Finance.History.%d.DateUnix", i), Kind: "int", I: h.DateUnix},
					operand{Path: fmt.Sprintf("user.Finance.History.%d.Comment", i), Kind: "bytes", S: h.Comment})
			}
			// inside a counting loop the elements may be addressed through the loop variable:
			// History[i].Cost (the value depends on the iteration; literals near element 0)
			if iv := g.innerCounter(); iv != "" && len(u.History) > 0 {
				h := u.History[0]
				ops = append(ops,
					operand{Path: fmt.Sprintf("user.Finance.History[%s].Cost", iv), Kind: "float", F: h.Cost},
					operand{Path: fmt.Sprintf("user.Finance.History[%s].DateUnix", iv), Kind: "int", I: h.DateUnix},
					operand{Path: fmt.Sprintf("user.Finance.History[%s].Comment", iv), Kind: "bytes", S: h.Comment})
			}
		} else {
			ops = append(ops, operand{Path: "user.Finance.Balance", Kind: "nilptr"})
		}
		for _, kv := range u.Flags {
			n, _ := strconv.ParseInt(kv[1], 10, 32)
			ops = append(ops, operand{Path: "user.Flags." + kv[0], Kind: "int", I: n, W32: true})
		}
	} else {
		ops = append(ops, operand{Path: "user.Id", Kind: "missing"})
	}
	ops = append(ops, operand{Path: "nosuch.Field", Kind: "missing"})
	for _, s := range d.Statics {
		o := operand{Path: s.Name}
		switch s.Kind {
		case "int", "int64", "int8":
			o.Kind, o.I = "int", s.I
		case "counter":
			o.Kind, o.I = "int", s.I
		case "uint", "uint32":
			o.Kind, o.U = "uint", s.U
		case "float":
			o.Kind, o.F = "float", s.F
		case "bool":
			o.Kind, o.B = "bool", s.B
		case "string":
			o.Kind, o.S = "string", s.S
		case "bytes":
			o.Kind, o.S = "bytes", s.S
		case "setbytes", "setstring":
			if len(s.S) == 0 {
				o.Kind = "missing"
			} else {
				o.Kind, o.S = "bytes", s.S
			}
		case "nil":
			o.Kind = "missing"
		}
		ops = append(ops, o)
	}
	return ops
}

// innerCounter names the variable of the innermost enclosing counting loop, if any.
func (g *Gen) innerCounter() string {
	for i := len(g.scope) - 1; i >= 0; i-- {
		if g.scope[i].Idx {
			return g.scope[i].Name
		}
	}
	return ""
}

func (g *Gen) pickOperand(kinds ...string) (operand, bool) {
	ops := g.scalarOperands()
	var cand []operand
	for _, o := range ops {
		for _, k := range kinds {
			if o.Kind == k {
				cand = append(cand, o)
			}
		}
	}
	if len(cand) == 0 {
		return operand{}, false
	}
	return cand[g.r.Intn(len(cand))], true
}

func (o operand) text() string {
	switch o.Kind {
	case "int":
		return fmt.Sprint(o.I)
	case "uint":
		return fmt.Sprint(o.U)
	case "float":
		return floatText(o.F)
	case "bool":
		return fmt.Sprint(o.B)
	case "string", "bytes":
		return string(o.S)
	}
	return ""
}

// ---- text

func (g *Gen) genText(multi bool) []byte {
	r := g.r
	words := []string{"a", "Hello", " ", ", ", "x=", "<b>", "</b>", "\"q\"", "'", "&", ".", ";", "#", "100%", "{", "}", "[", "]", "|", "?", ":", "=", "A B", "é", "~", "\\"}
	if g.p.Regions && r.Chance(20) {
		words = append(words, "\x01", "\x1b[1m", "\x0b", "\x1f", "\x7f", "\x00")
	}
	n := 1 + r.Intn(3)
	var b []byte
	for i := 0; i < n; i++ {
		b = append(b, words[r.Intn(len(words))]...)
		if multi && r.Chance(25) {
			b = append(b, []string{"\n", "\n\t", "\n  ", "\n\n\t  ", "\t", " \n "}[r.Intn(6)]...)
		}
	}
	// never form a tag or comment opener, never end in '{' (the next item may start with '%' or '#')
	out := b[:0]
	for i, c := range b {
		if c == '{' && (i+1 == len(b) || b[i+1] == '%' || b[i+1] == '#') {
			continue
		}
		out = append(out, c)
	}
	// texts never start with white space (so that a removed newline run never spans two items)
	for len(out) > 0 && (out[0] == ' ' || out[0] == '\t' || out[0] == '\n') {
		out = out[1:]
	}
	if len(out) == 0 {
		out = []byte("t")
	}
	return out
}

// cutFmtDoc is the documented removal of formatting: every line break together with the
// indentation (white space) that follows it.
// (white space as the clean-up expression reads it: RE2 \s is [\t\n\f\r ], a vertical tab is kept)
// litText is the value as it may be written between quotes in a tag: long values and values with
// operator or quote characters are replaced (the tag grammar cannot carry them).
func litText(b []byte) string {
	if len(b) > 16 || strings.ContainsAny(string(b), "<>=!\"'{}%|") {
		return "abc"
	}
	return string(b)
}

// longText builds a value of n bytes that every escaper has to work on: markup, an ampersand,
// multi-byte characters, spaces and URL punctuation (no quotes: see litText).
func longText(n int) []byte {
	unit := "Lorem <b>ipsum</b> & dolor \u00e9/sit?amet=1 \u0416;"
	var b []byte
	for len(b) < n {
		b = append(b, unit...)
	}
	b = b[:n]
	// never cut a multi-byte character
	for len(b) > 0 && b[len(b)-1] >= 0x80 {
		b = b[:len(b)-1]
	}
	return b
}

func cutFmtDoc(t []byte) []byte {
	var out []byte
	for i := 0; i < len(t); i++ {
		if t[i] == '\n' {
			j := i
			for j < len(t) && (t[j] == '\n' || t[j] == '\t' || t[j] == ' ' || t[j] == '\r' || t[j] == '\f') {
				j++
			}
			i = j - 1
			continue
		}
		out = append(out, t[i])
	}
	return out
}

// specView returns the items as the reference semantics sees them: with formatting removed
// from static text unless it is kept.
func specView(ns []*Ast, keepFmt bool) []*Ast {
	if keepFmt {
		return ns
	}
	var out []*Ast
	for _, n := range ns {
		c := *n
		if c.K == "text" {
			c.Text = cutFmtDoc(c.Text)
		}
		c.Then, c.Else, c.Body, c.Default = specView(n.Then, false), specView(n.Else, false), specView(n.Body, false), specView(n.Default, false)
		if len(n.Cases) > 0 {
			c.Cases = nil
			for _, cs := range n.Cases {
				c.Cases = append(c.Cases, ACase{Cond: cs.Cond, Body: specView(cs.Body, false)})
			}
		}
		out = append(out, &c)
	}
	return out
}

// trimTail removes blanks at the very end of a template (the parser trims the whole source).
func trimTail(ns []*Ast) {
	if len(ns) == 0 {
		return
	}
	k := len(ns) - 1
	for k > 0 && ns[k].K == "comment" {
		k--
	}
	last := ns[k]
	if last.K == "text" {
		t := last.Text
		for len(t) > 0 && (t[len(t)-1] == ' ' || t[len(t)-1] == '\t' || t[len(t)-1] == '\n') {
			t = t[:len(t)-1]
		}
		if len(t) == 0 {
			t = []byte("e")
		}
		last.Text = t
	}
}

// marker text: short, distinct, never altered by pre-processing
func (g *Gen) marker() []byte {
	g.nextVar++
	return []byte(fmt.Sprintf("<%c%d>", 'A'+g.nextVar%26, g.nextVar))
}

// ---- prints

var escLetters = []string{"h", "a", "j", "q", "J", "u", "l", "c"}

func (g *Gen) genPrint() *Ast {
	r := g.r
	a := &Ast{K: "print"}
	ops := g.scalarOperands()
	o := ops[r.Intn(len(ops))]
	// loop variables in scope are preferred inside loops
	if len(g.scope) > 0 && r.Chance(60) {
		sv := g.scope[r.Intn(len(g.scope))]
		switch sv.Kind {
		case "hist":
			o = operand{Path: sv.Name + "." + []string{"Cost", "DateUnix", "Comment"}[r.Intn(3)]}
		default:
			o = operand{Path: sv.Name}
		}
	}
	a.Path = o.Path
	g.tag("print:" + o.Kind)
	if g.p.Letters && r.Chance(50) {
		n := 1 + r.Intn(3)
		for i := 0; i < n; i++ {
			l := escLetters[r.Intn(len(escLetters))]
			if r.Chance(30) && a.Letters != "" {
				l = string(a.Letters[len(a.Letters)-1])
			}
			a.Letters += l
		}
		g.tag("letters")
	}
	if g.p.Mods && r.Chance(45) {
		n := 1 + r.Intn(3)
		for i := 0; i < n; i++ {
			a.Mods = append(a.Mods, g.genMod())
		}
		g.tag("mods")
	}
	if g.p.Mods && !g.p.Effects && r.Chance(12) {
		// an escaper feeding default: on an empty (or absent) value the escaper's empty result must
		// still count as empty
		esc := []string{"attrEscape", "cssEscape", "jsEscape", "htmlEscape", "urlEncode", "jsonEscape", "linkEscape", "ae", "ce", "jse"}[r.Intn(10)]
		a.Mods = []AMod{{Name: esc}, {Name: []string{"default", "def"}[r.Intn(2)], Args: []AArg{{Lit: true, Text: []string{"none", "N/A", "0"}[r.Intn(3)], Quote: `"`}}}}
		if o, ok := g.pickOperand("string", "bytes", "missing"); ok && r.Chance(70) {
			a.Path = o.Path
		}
		g.tag("mods:escaper-then-default")
	}
	if g.p.PfxSfx && r.Chance(40) {
		if r.Chance(70) {
			a.Pfx = []string{"<li>", "[", "p:", "«"}[r.Intn(4)]
			a.PfxKw = []string{"prefix", "pfx"}[r.Intn(2)]
		}
		if r.Chance(70) {
			a.Sfx = []string{"</li>", "]", ";", "»"}[r.Intn(4)]
			a.SfxKw = []string{"suffix", "sfx"}[r.Intn(2)]
		}
		g.tag("pfxsfx")
	}
	if g.p.Regions && r.Chance(15) {
		a.RawMod = true
	}
	return a
}

func (g *Gen) genMod() AMod {
	r := g.r
	if g.p.Effects && r.Chance(55) {
		if r.Chance(65) {
			return AMod{Name: "vdefer", Args: []AArg{{Lit: true, Text: g.newVar("t"), Quote: `"`}}}
		}
		return AMod{Name: "vacquire", Args: []AArg{{Lit: true, Text: []string{"pa", "pb"}[r.Intn(2)], Quote: `"`}}}
	}
	lit := func() AArg {
		if r.Chance(50) {
			return AArg{Lit: true, Text: []string{"dflt", "N/A", "x", "zero"}[r.Intn(4)], Quote: `"`}
		}
		return AArg{Lit: true, Text: fmt.Sprint(r.Intn(20)), Quote: ""}
	}
	arg := func() AArg {
		if r.Chance(45) {
			ops := g.scalarOperands()
			return AArg{Text: ops[r.Intn(len(ops))].Path}
		}
		return lit()
	}
	if r.Chance(6) {
		// a modifier that fails for this value: the print renders nothing (letters and later
		// modifiers included), and the render goes on
		g.tag("mods:failing")
		if r.Bool() {
			return AMod{Name: "vfail"}
		}
		return AMod{Name: []string{"default", "ifThen", "ifThenElse"}[r.Intn(3)]}
	}
	switch r.Intn(9) {
	case 0, 1, 2:
		return AMod{Name: []string{"default", "def"}[r.Intn(2)], Args: []AArg{arg()}}
	case 3:
		return AMod{Name: "vup"}
	case 4:
		n := r.Intn(3)
		m := AMod{Name: "vcat"}
		for i := 0; i < n; i++ {
			m.Args = append(m.Args, arg())
		}
		if r.Chance(30) {
			kv1, kv2 := arg(), arg()
			kv1.KVName, kv2.KVName = "k1", "k2"
			m.Args = append(m.Args, kv1, kv2)
		} else if r.Chance(30) {
			// a group of one pair, and arguments behind a group
			kv1 := arg()
			kv1.KVName = "k1"
			m.Args = append(m.Args, kv1, arg())
			if r.Bool() {
				m.Args = append(m.Args, arg())
			}
			g.tag("mods:kv-group-then-args")
		}
		return m
	case 5:
		return AMod{Name: []string{"jsonEscape", "htmlEscape", "urlEncode", "attrEscape", "jsEscape", "cssEscape", "linkEscape", "jsonQuote", "je", "he", "ue", "ae", "jse", "ce", "le", "jq"}[r.Intn(16)]}
	case 6:
		return AMod{Name: []string{"ifThenElse", "ifel"}[r.Intn(2)], Args: []AArg{arg(), arg()}}
	case 7:
		return AMod{Name: []string{"ifThen", "if"}[r.Intn(2)], Args: []AArg{arg()}}
	default:
		return AMod{Name: "default", Args: []AArg{lit()}}
	}
}

// ---- conditions

var cmpOps = []string{"==", "!=", ">", ">=", "<", "<="}

// genCond builds a condition whose operands have known kinds and values near each other.
func (g *Gen) genCond() *ACond {
	r := g.r
	if r.Chance(10) {
		// len()/cap() or helper
		if r.Chance(50) {
			o, ok := g.pickOperand("string", "bytes")
			if ok {
				g.tag("cond:helper")
				return &ACond{Helper: []string{"lenEq0", "lenGt0", "lenGtq0"}[r.Intn(3)], HArg: o.Path}
			}
		}
		if g.data.User.Present && g.data.User.HasFinance {
			g.tag("cond:len")
			return &ACond{Helper: "len", HArg: []string{"user.Finance.History", "user.Name", "user.Id"}[r.Intn(3)], Op: cmpOps[r.Intn(6)], R: fmt.Sprint(r.Intn(4))}
		}
	}
	if r.Chance(8) {
		o, _ := g.pickOperand("missing", "nilptr")
		g.tag("cond:missing")
		return &ACond{L: o.Path, Op: cmpOps[r.Intn(6)], R: fmt.Sprint(r.Intn(9)), RLit: true}
	}
	o, ok := g.pickOperand("int", "uint", "float", "string", "bytes", "bool")
	if !ok {
		return &ACond{L: "nosuch.X", Op: "==", R: "1", RLit: true}
	}
	c := &ACond{L: o.Path}
	var lit string
	quote := ""
	switch o.Kind {
	case "int":
		c.Op = cmpOps[r.Intn(6)]
		v := o.I + int64(r.Intn(3)-1)
		if (o.I == math.MaxInt64 && v < 0) || (o.I == math.MinInt64 && v > 0) {
			v = o.I
		}
		if o.W32 && v > math.MaxInt32 {
			v = math.MaxInt32
		}
		if o.W32 && v < math.MinInt32 {
			v = math.MinInt32
		}
		if v < 0 {
			g.tag("cond:negative-literal")
		}
		lit = fmt.Sprint(v)
	case "uint":
		c.Op = cmpOps[r.Intn(6)]
		v := o.U
		switch r.Intn(3) {
		case 0:
			if v > 0 {
				v--
			}
		case 1:
			if v < math.MaxUint64 {
				v++
			}
		}
		lit = fmt.Sprint(v)
	case "float":
		c.Op = cmpOps[r.Intn(6)]
		c.FloatL = true
		v := o.F
		switch r.Intn(3) {
		case 0:
			v = o.F - 0.5
		case 1:
			v = o.F + 0.25
		}
		if math.Abs(v) >= 1e15 {
			v = 12.5
		}
		if v < 0 {
			g.tag("cond:negative-literal")
		}
		lit = floatText(v)
		g.flits[lit] = v
	case "string":
		c.Op = cmpOps[r.Intn(6)]
		cands := []string{litText(o.S), "abc", "b", "a", "John", "zz top", "Abd"}
		lit = cands[r.Intn(len(cands))]
		if r.Chance(50) {
			lit = litText(o.S)
		}
		quote = []string{`"`, `'`}[r.Intn(2)]
		if lit == "" {
			lit, quote = "a", `"`
		}
	case "bytes":
		c.Op = cmpOps[r.Intn(2)]
		lit = litText(o.S)
		if r.Chance(40) || lit == "" {
			lit = "abc"
		}
		quote = `"`
	case "bool":
		c.Op = cmpOps[r.Intn(2)]
		lit = fmt.Sprint(r.Bool())
	}
	g.tag("cond:" + o.Kind)
	switch r.Intn(10) {
	case 0, 1: // literal on the left
		c.R, c.L = c.L, lit
		c.LLit, c.LQuote = true, quote
		g.tag("cond:lit-var")
	case 2, 3: // var op var
		o2, ok := g.pickOperand(o.Kind)
		if iv := g.innerCounter(); iv != "" && r.Chance(50) {
			// the right-hand side addressed through the loop variable
			for _, cand := range g.scalarOperands() {
				if cand.Kind == o.Kind && strings.Contains(cand.Path, "["+iv+"]") {
					o2, ok = cand, true
					g.tag("cond:right-bracket-index")
				}
			}
		}
		if ok && (o.Kind != "bytes") && (o.Kind != "bool") && len(o2.text()) > 0 && !(o.W32 && (o2.I > math.MaxInt32 || o2.I < math.MinInt32)) {
			c.R = o2.Path
			g.tag("cond:var-var")
		} else {
			c.R, c.RLit, c.RQuote = lit, true, quote
		}
	default:
		c.R, c.RLit, c.RQuote = lit, true, quote
		g.tag("cond:var-lit")
	}
	return c
}

// ---- blocks

func (g *Gen) pick() string {
	total := 0
	for k, w := range g.p.W {
		if !g.allowed(k) {
			continue
		}
		total += w
	}
	x := g.r.Intn(total)
	for _, k := range sortedKeys(g.p.W) {
		if !g.allowed(k) {
			continue
		}
		x -= g.p.W[k]
		if x < 0 {
			return k
		}
	}
	return "text"
}

func (g *Gen) allowed(k string) bool {
	switch k {
	case "break", "lazybreak", "continue":
		return g.loopD > 0 && !g.noBreak
	case "include":
		return len(g.incs) > 0
	}
	return true
}

func (g *Gen) genItems(depth int, n int) []*Ast {
	var out []*Ast
	for i := 0; i < n; i++ {
		it := g.genItem(depth)
		g.spell(it)
		if it.K == "seq" {
			out = append(out, it.Body...)
		} else {
			out = append(out, it)
		}
	}
	return out
}

// spell gives every node that has none yet one of the accepted spellings of its construct: mostly the
// common one, otherwise one or two of the rarer ones (":=" or "=", "k, v" or "k,v", "a, b" or "a,b",
// ctx/context, counter/cntr, blanks around operators and inside the delimiters, ".(T)" or "as T").
// The choice is a function of the node's own text, so the main random stream is left as it was.
func (g *Gen) spell(a *Ast) {
	walkAst([]*Ast{a}, func(n *Ast) {
		if n.SpSet || n.K == "seq" {
			return
		}
		n.SpSet = true
		h := fnv.New64a()
		func() {
			defer func() { _ = recover() }()
			h.Write([]byte(n.Print()))
		}()
		sr := NewRNG(h.Sum64())
		if n.HasElse && len(n.Else) == 1 && n.Else[0].K == "text" && (n.K == "if" || n.K == "cloop" || n.K == "rloop" || n.K == "ifok") && sr.Chance(15) {
			// an else tag with nothing behind it: an empty else branch
			n.Else = nil
			g.tag("else:empty")
		}
		if !sr.Chance(40) {
			return
		}
		n.Sp = 1 << uint(sr.Intn(7))
		if sr.Chance(35) {
			n.Sp |= 1 << uint(sr.Intn(7))
		}
		g.tag("spelling:variant")
	})
}

func (g *Gen) small() int { return 1 + g.r.Intn(3) }

func (g *Gen) genItem(depth int) *Ast {
	r := g.r
	k := g.pick()
	if depth >= g.p.MaxDepth {
		switch k {
		case "if", "switch", "cloop", "rloop", "region", "ternary":
			k = []string{"text", "print"}[r.Intn(2)]
		}
	}
	g.tag("k:" + k)
	switch k {
	case "text":
		return &Ast{K: "text", Text: g.genText(g.p.KeepFmt)}
	case "marker":
		return &Ast{K: "text", Text: g.marker()}
	case "comment":
		return &Ast{K: "comment", Text: []byte([]string{"note", " a b ", "", "x\ny", "TODO: {%= z %}"}[r.Intn(5)])}
	case "print":
		return g.genPrint()
	case "if":
		a := &Ast{K: "if", Cond: g.genCond()}
		a.Then = append([]*Ast{{K: "text", Text: g.marker()}}, g.genItems(depth+1, r.Intn(2))...)
		if r.Chance(60) {
			a.HasElse = true
			a.Else = append([]*Ast{{K: "text", Text: g.marker()}}, g.genItems(depth+1, r.Intn(2))...)
			if r.Chance(12) {
				a.Then = nil // nothing to render when the condition holds, the else branch otherwise
				g.tag("if:empty-then")
			}
		}
		return a
	case "ifok":
		a := &Ast{K: "ifok", CtxVar: fmt.Sprintf("c%d", r.Intn(3)), CtxOK: fmt.Sprintf("ok%d", r.Intn(2)), Neg: r.Chance(35)}
		switch {
		case r.Chance(20):
			a.CtxLit, a.CtxQuote = true, `"`
			a.CtxSrc = []string{"lit", "xy", "7"}[r.Intn(3)]
		case len(g.scope) > 0 && r.Chance(30) && g.scope[len(g.scope)-1].Kind != "hist":
			a.CtxSrc = g.scope[len(g.scope)-1].Name
		default:
			o, _ := g.pickOperand("int", "uint", "float", "string", "bytes", "bool", "missing")
			a.CtxSrc = o.Path
		}
		g.tag("ifok")
		a.Then = append([]*Ast{{K: "text", Text: g.marker()}}, g.genItems(depth+1, r.Intn(2))...)
		if r.Chance(30) {
			a.Then = append(a.Then, &Ast{K: "print", Path: a.CtxVar})
		}
		if r.Chance(60) {
			a.HasElse = true
			a.Else = append([]*Ast{{K: "text", Text: g.marker()}}, g.genItems(depth+1, r.Intn(2))...)
		}
		return a
	case "ternary":
		a := &Ast{K: "ternary", Cond: g.genCond()}
		if a.Cond.Helper != "" {
			a.Cond = &ACond{L: "nosuch.X", Op: "==", R: "1", RLit: true}
		}
		o1, _ := g.pickOperand("int", "uint", "string", "bytes", "float")
		o2, _ := g.pickOperand("int", "uint", "string", "bytes", "float")
		a.Then = []*Ast{{K: "print", Path: o1.Path}}
		a.Else = []*Ast{{K: "print", Path: o2.Path}}
		return a
	case "switch":
		a := &Ast{K: "switch"}
		n := 1 + r.Intn(3)
		if r.Chance(50) {
			o, ok := g.pickOperand("int", "string", "uint")
			if ok {
				a.SwArg = o.Path
				for i := 0; i < n; i++ {
					c := ACase{}
					c.Cond.LLit = true
					switch o.Kind {
					case "int", "uint":
						v := o.I
						if o.Kind == "uint" {
							v = int64(o.U % (1 << 62))
						}
						v += int64(r.Intn(3) - 1)
						if v < 0 && (o.Kind == "uint" || o.I == math.MaxInt64) {
							v = 0
						}
						if o.W32 && v > math.MaxInt32 {
							v = math.MaxInt32
						}
						if o.W32 && v < math.MinInt32 {
							v = math.MinInt32
						}
						if v < 0 {
							g.tag("switch:negative-case")
						}
						c.Cond.L = fmt.Sprint(v)
						if i+1 < n && r.Chance(18) {
							// a case that cannot be compared with a number at all: it does not match,
							// and the cases behind it are still tried
							c.Cond.L, c.Cond.LQuote = []string{"abc", "n/a", "x1"}[r.Intn(3)], `"`
							g.tag("switch:incomparable-case")
						}
					default:
						c.Cond.L = []string{litText(o.S), "abc", "a"}[r.Intn(3)]
						if c.Cond.L == "" {
							c.Cond.L = "a"
						}
						c.Cond.LQuote = `"`
					}
					c.Body = append([]*Ast{{K: "text", Text: g.marker()}}, g.genItems(depth+1, r.Intn(2))...)
					if r.Chance(15) {
						c.Body = nil
						g.tag("switch:empty-case")
					}
					a.Cases = append(a.Cases, c)
				}
				g.tag("switch:classic")
			}
		}
		if a.SwArg == "" {
			helpers := r.Chance(30) // every case a condition helper, each on its own argument
			for i := 0; i < n; i++ {
				c := ACase{Cond: *g.genCond()}
				if helpers {
					if o, ok := g.pickOperand("string", "bytes"); ok {
						c.Cond = ACond{Helper: []string{"lenEq0", "lenGt0", "lenGtq0"}[r.Intn(3)], HArg: o.Path}
						if i > 0 && r.Chance(50) {
							c.Cond.Helper = a.Cases[0].Cond.Helper // the same helper, another argument
						}
						g.tag("switch:free-helpers")
					}
				}
				if c.Cond.Helper == "len" || c.Cond.Helper == "cap" {
					c.Cond = ACond{L: "nosuch.X", Op: "==", R: "1", RLit: true}
				}
				c.Body = append([]*Ast{{K: "text", Text: g.marker()}}, g.genItems(depth+1, r.Intn(2))...)
				if r.Chance(15) {
					c.Body = nil // a case that renders nothing, yet wins over later cases and the default
					g.tag("switch:empty-case")
				}
				a.Cases = append(a.Cases, c)
			}
			g.tag("switch:free")
		}
		if r.Chance(65) {
			a.HasDefault = true
			a.Default = []*Ast{{K: "text", Text: g.marker()}}
		}
		return a
	case "cloop":
		return g.genCLoop(depth)
	case "rloop":
		return g.genRLoop(depth)
	case "break", "lazybreak":
		a := &Ast{K: k}
		if g.p.BreakN && r.Chance(55) {
			a.N = 1 + r.Intn(g.loopD+1)
			if r.Chance(12) {
				a.N = []int{10, 12, 25, 100}[r.Intn(4)] // far beyond the nesting depth, two and three digits
			}
			g.tag(fmt.Sprintf("%s:N", k))
		}
		if r.Chance(60) {
			a.Cond = g.genLoopCond()
			g.tag(k + ":if-form")
		}
		return a
	case "continue":
		a := &Ast{K: "continue"}
		if r.Chance(70) {
			a.Cond = g.genLoopCond()
		}
		return a
	case "ctx":
		a := g.genCtx()
		if len(a.CtxMods) > 0 {
			// the result of a modifier chain on the right-hand side is read back at once
			return &Ast{K: "seq", Body: []*Ast{a, {K: "print", Path: a.CtxVar}, {K: "text", Text: g.marker()}}}
		}
		return a
	case "dynprint":
		return &Ast{K: "print", Path: g.dynVar()}
	case "pastprint":
		// the variable of a counter loop that has ended is still set
		if len(g.past) == 0 {
			return g.genPrint()
		}
		g.tag("print:past-loop-var")
		return &Ast{K: "print", Path: g.past[r.Intn(len(g.past))]}
	case "lettersrun":
		// the same escape letter two or three times on a text with blanks (and little else): every
		// pass works on the output of the pass before
		ev := fmt.Sprintf("w%d", len(g.data.Statics))
		txt := []string{"a b", "x y z", " lead", "tail ", "a  b", "two words+more", "q=a b&c"}[r.Intn(7)]
		g.data.Statics = append(g.data.Statics, StaticVar{Name: ev, Kind: []string{"string", "bytes", "setstring"}[r.Intn(3)], Ptr: r.Bool(), S: []byte(txt)})
		a := &Ast{K: "print", Path: ev}
		l := []string{"u", "h", "j", "J", "c", "a", "l", "q"}[r.Intn(8)]
		a.Letters = strings.Repeat(l, 2+r.Intn(2))
		g.tag("lettersrun:" + l)
		return a
	case "okself":
		// a ctx tag whose source expression reads the very name it uses as its flag: the value
		// the flag had before the tag
		okn := fmt.Sprintf("ok%d", r.Intn(2))
		o, ok := g.pickOperand("string", "int", "bytes", "float")
		if !ok {
			return &Ast{K: "text", Text: g.marker()}
		}
		first := &Ast{K: "ctx", CtxVar: fmt.Sprintf("c%d", r.Intn(3)), CtxSrc: o.Path, CtxOK: okn}
		second := &Ast{K: "ctx", CtxVar: fmt.Sprintf("c%d", r.Intn(3)), CtxSrc: okn, CtxOK: okn}
		if g.p.Mods && r.Bool() {
			second.CtxMods = []AMod{{Name: "ifThenElse", Args: []AArg{{Lit: true, Text: "yes", Quote: `"`}, {Lit: true, Text: "no", Quote: `"`}}}}
		}
		g.tag("okself")
		return &Ast{K: "seq", Body: []*Ast{first, second, {K: "print", Path: second.CtxVar}, {K: "text", Text: g.marker()}, {K: "print", Path: okn}}}
	case "qempty":
		// a quoting letter or modifier on a value that is present but empty, right after a
		// directive that left text in the engine's modifier buffer
		ev := fmt.Sprintf("e%d", len(g.data.Statics))
		g.data.Statics = append(g.data.Statics, StaticVar{Name: ev, Kind: "string", Ptr: r.Bool(), S: []byte{}})
		first := g.genPrint()
		if o, ok := g.pickOperand("string", "bytes"); ok {
			first.Path = o.Path
		}
		first.Letters = []string{"h", "u", "j", "q", "a", "l"}[r.Intn(6)]
		second := &Ast{K: "print", Path: ev}
		switch r.Intn(4) {
		case 0:
			second.Letters = "q"
		case 1:
			second.Letters = []string{"qq", "jq", "hq"}[r.Intn(3)]
		case 2:
			second.Mods = []AMod{{Name: []string{"jsonQuote", "jq"}[r.Intn(2)]}}
		default:
			second.Letters = "q"
			second.Mods = []AMod{{Name: "default", Args: []AArg{{Lit: true, Text: "", Quote: `"`}}}}
		}
		g.tag("qempty")
		return &Ast{K: "seq", Body: []*Ast{first, {K: "text", Text: g.marker()}, second, {K: "text", Text: g.marker()}}}
	case "ctxcmp":
		// a copy of a text or number variable compares exactly like its source, in every operator
		o, ok := g.pickOperand([]string{"string", "string", "bytes", "int", "uint"}[r.Intn(5)])
		if !ok {
			return &Ast{K: "text", Text: g.marker()}
		}
		name := fmt.Sprintf("c%d", r.Intn(3))
		g.tag("ctxcmp:" + o.Kind)
		mk := func(path string) *Ast {
			op := cmpOps[r.Intn(6)]
			c := &ACond{L: path, Op: op, RLit: true}
			switch o.Kind {
			case "string", "bytes":
				cands := []string{litText(o.S), "2", "abc", "A", "b", "zz", litText(o.S) + "0"}
				c.R, c.RQuote = cands[r.Intn(len(cands))], `"`
				if c.R == "" {
					c.R = "a"
				}
			case "int":
				c.R = fmt.Sprint(o.I)
			default:
				c.R = fmt.Sprint(o.U)
			}
			a := &Ast{K: "if", Cond: c, Then: []*Ast{{K: "text", Text: g.marker()}}, HasElse: true, Else: []*Ast{{K: "text", Text: g.marker()}}}
			return a
		}
		seq := &Ast{K: "seq", Body: []*Ast{{K: "ctx", CtxVar: name, CtxSrc: o.Path}}}
		for i := 0; i < 1+r.Intn(3); i++ {
			seq.Body = append(seq.Body, mk(name))
		}
		return seq
	case "dyncond":
		v := g.dynVar()
		textVar := false
		if g.lastCtx != "" && r.Chance(50) {
			v = g.lastCtx
			textVar = g.lastCtxKind == "string" || g.lastCtxKind == "bytes"
			g.tag("cond:on-ctx-copy-of-" + g.lastCtxKind)
		}
		c := &ACond{L: v, Op: cmpOps[r.Intn(6)], R: fmt.Sprint(r.Intn(12)), RLit: true}
		if v[0] == 'c' && (textVar || r.Chance(50)) {
			c = &ACond{L: v, Op: cmpOps[r.Intn(6)], R: []string{"lit", "xy", "abc", "John", "2", "A"}[r.Intn(6)], RLit: true, RQuote: `"`}
		}
		if v[0] == 'o' {
			c = &ACond{L: v, Op: cmpOps[r.Intn(2)], R: fmt.Sprint(r.Bool()), RLit: true}
		}
		if v[0] != 'o' && r.Chance(25) {
			// variable against variable with a counter on the right
			c = &ACond{L: v, Op: cmpOps[r.Intn(6)], R: fmt.Sprintf("n%d", r.Intn(2))}
			g.tag("cond:right-counter")
		}
		a := &Ast{K: "if", Cond: c, Then: []*Ast{{K: "text", Text: g.marker()}}}
		if r.Chance(60) {
			a.HasElse, a.Else = true, []*Ast{{K: "text", Text: g.marker()}}
		}
		return a
	case "counter":
		return g.genCounter()
	case "include":
		n := 1 + r.Intn(2)
		a := &Ast{K: "include", IncKw: []string{"include", "."}[r.Intn(2)]}
		if r.Chance(20) {
			// a longer list whose first two or three names are not registered
			a.Names = append(a.Names, "missing7", "missing8")
			if r.Bool() {
				a.Names = append(a.Names, "missing9")
			}
			g.tag("include:long-name-list")
		}
		for i := 0; i < n; i++ {
			if r.Chance(25) {
				a.Names = append(a.Names, fmt.Sprintf("missing%d", r.Intn(3)))
			} else {
				a.Names = append(a.Names, g.incs[r.Intn(len(g.incs))])
			}
		}
		return a
	case "openregion":
		// a bound tag that is never closed: the render stops inside an escape region
		return &Ast{K: "openregion", Region: []string{"jsonquote", "htmlescape", "urlencode"}[r.Intn(3)]}
	case "failing":
		// a print that makes the render fail: a structure cannot be converted to text
		return &Ast{K: "print", Path: []string{"user.Flags", "user"}[r.Intn(2)]}
	case "exit":
		if r.Chance(60) {
			return &Ast{K: "if", Cond: g.genLoopCond(), Then: []*Ast{{K: "text", Text: g.marker()}, {K: "exit"}}}
		}
		return &Ast{K: "exit"}
	case "region":
		kinds := []string{"jsonquote", "htmlescape", "urlencode"}
		if g.p.RegionKind != "" && !(g.inRegion > 0 && r.Chance(35)) {
			kinds = []string{g.p.RegionKind}
		}
		a := &Ast{K: "region", Region: kinds[r.Intn(len(kinds))]}
		if g.inRegion > 0 {
			g.tag("region:nested:" + a.Region)
		}
		g.inRegion++
		a.Body = g.genItems(depth+1, g.small())
		g.inRegion--
		return a
	}
	return &Ast{K: "text", Text: g.marker()}
}

// genTailLoop: a counter loop whose iteration ends with a lazybreak and a print inside one if
// block; placed last in a template, a write fault at that print is the last event of the render.
func (g *Gen) genTailLoop() *Ast {
	r := g.r
	a := &Ast{K: "cloop", Var: g.newVar("i"), Init: "0", InitLit: true, Op: "<", Lim: fmt.Sprint(2 + r.Intn(3)), LimLit: true, Step: "++"}
	fire := fmt.Sprint(r.Intn(2))
	blk := &Ast{K: "if", Cond: &ACond{L: a.Var, Op: "==", R: fire, RLit: true}, Then: []*Ast{{K: "lazybreak"}, {K: "text", Text: g.marker()}}}
	if r.Chance(30) {
		blk.Then = append(blk.Then, &Ast{K: "print", Path: a.Var})
	}
	a.Body = []*Ast{{K: "text", Text: g.marker()}, {K: "print", Path: a.Var}, blk}
	if g.budget < 8 {
		g.budget = 8
	}
	g.tag("tail:lazy-print-in-if")
	return a
}

// genLoopCond prefers a condition on a loop variable in scope (so that it fires at some iteration).
func (g *Gen) genLoopCond() *ACond {
	r := g.r
	var ints []scopeVar
	for _, s := range g.scope {
		if s.Kind == "int" {
			ints = append(ints, s)
		}
	}
	if len(ints) > 0 && r.Chance(80) {
		v := ints[r.Intn(len(ints))]
		g.tag("cond:loopvar")
		return &ACond{L: v.Name, Op: []string{"==", ">=", ">", "!=", "<"}[r.Intn(5)], R: fmt.Sprint(r.Intn(3)), RLit: true}
	}
	return g.genCond()
}

func (g *Gen) newVar(prefix string) string {
	g.nextVar++
	return fmt.Sprintf("%s%d", prefix, g.nextVar)
}

// loopCombos appends interacting control instructions to a loop body: the properties quantify over
// every placement, and some interactions need two instructions in one iteration.
func (g *Gen) loopCombos(body []*Ast, depth int) []*Ast {
	r := g.r
	if g.noBreak || !g.p.BreakN || !r.Chance(50) {
		return body
	}
	mk := func(k string, n int) *Ast {
		a := &Ast{K: k, N: n}
		if r.Chance(55) {
			a.Cond = g.genLoopCond()
		}
		return a
	}
	switch r.Intn(8) {
	case 7:
		// a sibling counting loop that does not iterate, whose else branch names the enclosing
		// loops: a control instruction in a for-else branch belongs to the loops around the loop
		if g.loopD < 1 || depth >= g.p.MaxDepth {
			return body
		}
		g.tag("combo:control-in-for-else")
		var ctl *Ast
		switch r.Intn(4) {
		case 0:
			ctl = &Ast{K: "break", N: 1 + r.Intn(g.loopD+1)}
		case 1:
			ctl = &Ast{K: "lazybreak", N: r.Intn(g.loopD + 1)}
		case 2:
			ctl = &Ast{K: "continue"}
		default:
			ctl = &Ast{K: "if", Cond: g.genLoopCond(), Then: []*Ast{{K: "break", N: 2}}}
		}
		empty := &Ast{K: "cloop", Var: g.newVar("i"), Init: "2", InitLit: true, Op: "<", Lim: "2", LimLit: true, Step: "++",
			Body: []*Ast{{K: "text", Text: g.marker()}}, HasElse: true, Else: []*Ast{{K: "text", Text: g.marker()}, ctl, {K: "text", Text: g.marker()}}}
		if r.Chance(35) {
			empty = &Ast{K: "rloop", Var: g.newVar("v"), Src: "nosuch.List", Body: []*Ast{{K: "text", Text: g.marker()}}, HasElse: true, Else: empty.Else}
		}
		return append(body, empty, &Ast{K: "text", Text: g.marker()})
	case 6:
		// a small depth pending (lazybreak 1), then a sibling loop that leaves with a larger one
		if g.loopD < 2 || depth >= g.p.MaxDepth {
			return body
		}
		g.tag("combo:lazy1-sibling-break-deeper")
		inner := &Ast{K: "cloop", Var: g.newVar("i"), Init: "0", InitLit: true, Op: "<", Lim: "3", LimLit: true, Step: "++"}
		inner.Body = []*Ast{{K: "text", Text: g.marker()}, {K: "print", Path: inner.Var}, {K: []string{"break", "lazybreak"}[r.Intn(2)], N: 3 + r.Intn(2), Cond: &ACond{L: inner.Var, Op: "==", R: fmt.Sprint(r.Intn(2)), RLit: true}}, {K: "text", Text: g.marker()}}
		if r.Chance(40) {
			inner = &Ast{K: "rloop", Var: g.newVar("v"), Src: "user.Finance.History", Body: []*Ast{{K: "text", Text: g.marker()}, {K: []string{"break", "lazybreak"}[r.Intn(2)], N: 3}, {K: "text", Text: g.marker()}}}
		}
		if g.budget < 6 {
			g.budget = 6
		}
		return append(body, &Ast{K: "lazybreak", N: 1}, &Ast{K: "text", Text: g.marker()}, inner, &Ast{K: "text", Text: g.marker()})
	case 5:
		// lazybreak N, then a sibling range loop that has nothing to iterate over (absent variable,
		// absent field), with or without an else branch
		if g.loopD < 2 {
			return body
		}
		g.tag("combo:lazyN-then-empty-range")
		rl := &Ast{K: "rloop", Var: g.newVar("v"), Src: []string{"nosuch.Items", "absent", "user.Nope"}[r.Intn(3)], Body: []*Ast{{K: "text", Text: g.marker()}}}
		if r.Bool() {
			rl.HasElse, rl.Else = true, []*Ast{{K: "text", Text: g.marker()}}
		}
		return append(body, mk("lazybreak", 2+r.Intn(2)), &Ast{K: "text", Text: g.marker()}, rl, &Ast{K: "text", Text: g.marker()})
	case 4:
		// a nested loop leaves with break / lazybreak 2, then the enclosing iteration ends in a continue
		if depth >= g.p.MaxDepth {
			return body
		}
		g.tag("combo:inner-breakN-then-continue")
		inner := &Ast{K: "cloop", Var: g.newVar("i"), Init: "0", InitLit: true, Op: "<", Lim: "3", LimLit: true, Step: "++"}
		inner.Body = []*Ast{{K: "text", Text: g.marker()}, {K: "print", Path: inner.Var}, {K: []string{"break", "lazybreak"}[r.Intn(2)], N: 2, Cond: &ACond{L: inner.Var, Op: "==", R: "1", RLit: true}}}
		if g.budget < 6 {
			g.budget = 6
		}
		co := &Ast{K: "continue"}
		if r.Chance(50) {
			co.Cond = g.genLoopCond()
		}
		return append(body, inner, &Ast{K: "text", Text: g.marker()}, co, &Ast{K: "text", Text: g.marker()})
	case 0:
		// lazybreak, then a continue later in the same iteration
		g.tag("combo:lazy-continue")
		lb := mk("lazybreak", 0)
		if r.Chance(40) {
			lb = &Ast{K: "if", Cond: g.genLoopCond(), Then: []*Ast{{K: "lazybreak"}}}
		}
		co := &Ast{K: "continue", Cond: g.genLoopCond()}
		if r.Chance(30) {
			co.Cond = nil
		}
		return append(body, lb, &Ast{K: "text", Text: g.marker()}, co, &Ast{K: "text", Text: g.marker()})
	case 1:
		// lazybreak N, then a sibling loop that leaves with a smaller depth
		if g.loopD < 2 || depth >= g.p.MaxDepth {
			return body
		}
		g.tag("combo:lazyN-sibling-break")
		inner := &Ast{K: "cloop", Var: g.newVar("i"), Init: "0", InitLit: true, Op: "<", Lim: "3", LimLit: true, Step: "++"}
		inner.Body = []*Ast{{K: "text", Text: g.marker()}, {K: "print", Path: inner.Var}, {K: []string{"break", "lazybreak"}[r.Intn(2)], N: 2, Cond: &ACond{L: inner.Var, Op: "==", R: fmt.Sprint(r.Intn(2)), RLit: true}}, {K: "text", Text: g.marker()}}
		if g.budget < 6 {
			g.budget = 6
		}
		return append(body, mk("lazybreak", 2+r.Intn(2)), &Ast{K: "text", Text: g.marker()}, inner, &Ast{K: "text", Text: g.marker()})
	case 2:
		// lazybreak and a print inside one if block, last in the iteration
		g.tag("combo:lazy-print-in-if")
		return append(body, &Ast{K: "if", Cond: g.genLoopCond(), Then: []*Ast{{K: "lazybreak"}, {K: "text", Text: g.marker()}}})
	default:
		// lazybreak N, then a plain break before the iteration ends
		g.tag("combo:lazyN-break")
		return append(body, mk("lazybreak", 1+r.Intn(3)), &Ast{K: "text", Text: g.marker()}, mk("break", 0), &Ast{K: "text", Text: g.marker()})
	}
}

func (g *Gen) genCLoop(depth int) *Ast {
	r := g.r
	a := &Ast{K: "cloop", Var: g.newVar("i")}
	n := r.Intn(4)
	if r.Chance(10) {
		n = 0
	}
	up := r.Chance(65)
	start := int64(r.Intn(5) - 2)
	if start < 0 {
		g.tag("cloop:negative-literal")
	}
	lo := start            // the smallest value the variable takes inside the body
	hi := start + int64(n) // and an upper bound of the largest
	if up {
		a.Step = "++"
		a.Init = fmt.Sprint(start)
		switch r.Intn(3) {
		case 0:
			a.Op, a.Lim = "<", fmt.Sprint(start+int64(n))
		case 1:
			a.Op, a.Lim = "<=", fmt.Sprint(start+int64(n)-1)
		default:
			a.Op, a.Lim = "!=", fmt.Sprint(start+int64(n))
		}
	} else {
		a.Step = "--"
		start += int64(n)
		a.Init = fmt.Sprint(start)
		switch r.Intn(3) {
		case 0:
			a.Op, a.Lim = ">", fmt.Sprint(start-int64(n))
		case 1:
			a.Op, a.Lim = ">=", fmt.Sprint(start-int64(n)+1)
		default:
			a.Op, a.Lim = "!=", fmt.Sprint(start-int64(n))
		}
	}
	a.InitLit, a.LimLit = true, true
	g.tag("cloop:" + a.Op + a.Step)
	g.tag(fmt.Sprintf("cloop:trips=%d", n))
	// a bound or initial value through a dedicated variable: integers of several widths and
	// numbers held as text; with both as variables the whole loop may lie below zero (negative
	// numbers cannot be written in the loop header at all)
	if r.Chance(25) {
		mkVar := func(val string, shift int64) string {
			var z int64
			fmt.Sscan(val, &z)
			z += shift
			kinds := []string{"int", "int64", "int8", "string", "setstring", "bytes", "setbytes"}
			if z >= 0 {
				kinds = append(kinds, "uint", "uint32")
			}
			if r.Chance(8) {
				kinds = []string{"float"} // not an integer kind: the loop reports a wrong bound
			}
			k := kinds[r.Intn(len(kinds))]
			name := fmt.Sprintf("b%d", len(g.data.Statics))
			g.data.Statics = append(g.data.Statics, StaticVar{Name: name, Kind: k, Ptr: r.Chance(70), I: z, U: uint64(z), F: float64(z), S: []byte(fmt.Sprint(z))})
			if k == "float" {
				g.flits[floatText(float64(z))] = float64(z)
			}
			g.tag("cloop:bound-var:" + k)
			return name
		}
		switch r.Intn(4) {
		case 0:
			a.Init, a.InitLit = mkVar(a.Init, 0), false
		case 1:
			a.Init, a.InitLit = mkVar(a.Init, -4), false
			a.Lim, a.LimLit = mkVar(a.Lim, -4), false
			lo -= 4
			hi -= 4
			g.tag("cloop:below-zero")
		default:
			a.Lim, a.LimLit = mkVar(a.Lim, 0), false
		}
	} else if r.Chance(30) {
		for i := range g.data.Statics {
			s := &g.data.Statics[i]
			if (s.Kind == "int" || s.Kind == "int64") && fmt.Sprint(s.I) == a.Lim {
				a.Lim, a.LimLit = s.Name, false
				g.tag("cloop:var-bound")
				break
			}
		}
	}
	if r.Chance(45) {
		a.Sep = []string{",", ";", "|", "-", ", .", "&", "<br>", `","`, `"`, "/ ?"}[r.Intn(10)]
		a.SepKw = []string{"separator", "sep"}[r.Intn(2)]
	}
	g.scope = append(g.scope, scopeVar{Name: a.Var, Kind: "int", Idx: lo >= 0 && hi < int64(len(g.data.User.History))})
	g.loopD++
	a.Body = append([]*Ast{{K: "text", Text: g.marker()}}, g.genItems(depth+1, g.small())...)
	if r.Chance(50) {
		a.Body = append(a.Body, &Ast{K: "print", Path: a.Var})
	}
	if g.scope[len(g.scope)-1].Idx && r.Chance(60) {
		// elements addressed through the loop variable: printed, and on either side of a condition
		fld := []struct {
			name, kind string
		}{{"Cost", "float"}, {"DateUnix", "int"}, {"Comment", "bytes"}}[r.Intn(3)]
		path := fmt.Sprintf("user.Finance.History[%s].%s", a.Var, fld.name)
		g.tag("cloop:bracket-index")
		if r.Chance(35) {
			a.Body = append(a.Body, &Ast{K: "print", Path: path})
		} else {
			c := &ACond{L: path, Op: cmpOps[r.Intn(2)], FloatL: fld.kind == "float"}
			if fld.kind != "bytes" {
				c.Op = cmpOps[r.Intn(6)]
			}
			other, ok := g.pickOperand(fld.kind)
			switch {
			case ok && r.Chance(70) && other.Path != path:
				c.R = other.Path
				if fld.kind != "bytes" && r.Bool() {
					c.L, c.R = c.R, c.L // the index on the right-hand side
				}
				g.tag("cond:right-bracket-index")
			case fld.kind == "float":
				c.R, c.RLit = floatText(g.data.User.History[0].Cost), true
			case fld.kind == "int":
				c.R, c.RLit = fmt.Sprint(g.data.User.History[0].DateUnix), true
			default:
				c.R, c.RLit, c.RQuote = "abc", true, `"`
			}
			a.Body = append(a.Body, &Ast{K: "if", Cond: c, Then: []*Ast{{K: "text", Text: g.marker()}}, HasElse: true, Else: []*Ast{{K: "text", Text: g.marker()}}})
		}
	}
	a.Body = g.loopCombos(a.Body, depth+1)
	g.loopD--
	g.scope = g.scope[:len(g.scope)-1]
	g.past = append(g.past, a.Var)
	if r.Chance(40) {
		a.HasElse = true
		a.Else = []*Ast{{K: "text", Text: g.marker()}}
		g.tag("loop:else")
	}
	if n+3 > g.budget {
		g.budget = n + 3
	}
	return a
}

func (g *Gen) genRLoop(depth int) *Ast {
	r := g.r
	a := &Ast{K: "rloop"}
	u := &g.data.User
	kind := "hist"
	switch {
	case u.Present && len(u.Flags) <= 1 && r.Chance(25) && !g.p.NoMaps:
		a.Src = "user.Flags"
		kind = "int"
		g.tag("rloop:map")
	case r.Chance(8):
		a.Src = "nosuch.List"
		kind = "none"
		g.tag("rloop:missing")
	case r.Chance(8):
		// a variable that exists but holds nothing to iterate over: text, a counter, nil
		var cand []string
		for _, sv := range g.data.Statics {
			switch sv.Kind {
			case "setstring", "setbytes", "counter", "nil", "string", "int":
				cand = append(cand, sv.Name)
			}
		}
		if len(cand) > 0 {
			a.Src = cand[r.Intn(len(cand))]
			kind = "none"
			g.tag("rloop:not-a-collection")
		} else {
			a.Src = "user.Finance.History"
		}
	default:
		a.Src = "user.Finance.History"
		g.tag("rloop:slice")
	}
	switch r.Intn(3) {
	case 0:
		a.Key = g.newVar("k")
	case 1:
		a.Var = g.newVar("v")
	default:
		a.Key, a.Var = g.newVar("k"), g.newVar("v")
	}
	if a.Key != "" && len(g.past) > 0 && g.loopD == 0 && r.Chance(20) {
		// the key takes over the name of a counter loop that has ended (a name changes its kind)
		a.Key = g.past[r.Intn(len(g.past))]
		g.tag("rloop:key-reuses-counter-name")
	}
	if r.Chance(45) {
		a.Sep = []string{",", ";", "|", "-", ", .", "&", "<br>", `","`, `"`, "/ ?"}[r.Intn(10)]
		a.SepKw = []string{"separator", "sep"}[r.Intn(2)]
	}
	n := 0
	if a.Key != "" {
		g.scope = append(g.scope, scopeVar{Name: a.Key, Kind: "key"})
		n++
	}
	if a.Var != "" && kind != "none" {
		g.scope = append(g.scope, scopeVar{Name: a.Var, Kind: kind})
		n++
	}
	g.loopD++
	a.Body = append([]*Ast{{K: "text", Text: g.marker()}}, g.genItems(depth+1, g.small())...)
	a.Body = g.loopCombos(a.Body, depth+1)
	g.loopD--
	g.scope = g.scope[:len(g.scope)-n]
	if r.Chance(40) {
		a.HasElse = true
		a.Else = []*Ast{{K: "text", Text: g.marker()}}
		g.tag("loop:else")
	}
	return a
}

func (g *Gen) genCtx() *Ast {
	r := g.r
	a := &Ast{K: "ctx", CtxVar: fmt.Sprintf("c%d", r.Intn(3))}
	if r.Chance(45) {
		a.CtxLit = true
		if r.Chance(50) {
			a.CtxSrc, a.CtxQuote = []string{"lit", "xy", "A b"}[r.Intn(3)], []string{`"`, `'`}[r.Intn(2)]
		} else {
			a.CtxSrc = fmt.Sprint(r.Intn(30))
		}
		g.tag("ctx:lit")
	} else {
		o, _ := g.pickOperand("int", "uint", "float", "string", "bytes", "bool", "missing")
		if r.Chance(30) {
			// text sources: the new variable must compare like its source in every operator
			if so, ok := g.pickOperand([]string{"string", "string", "bytes"}[r.Intn(3)]); ok {
				o = so
			}
		}
		g.lastCtx, g.lastCtxKind = a.CtxVar, o.Kind
		a.CtxSrc = o.Path
		g.tag("ctx:var:" + o.Kind)
		// sources whose storage belongs to the engine: loop variables and template-made counters
		if len(g.scope) > 0 && r.Chance(35) {
			if sv := g.scope[r.Intn(len(g.scope))]; sv.Kind != "hist" {
				a.CtxSrc = sv.Name
				g.tag("ctx:var:loopvar")
			}
		} else if r.Chance(12) {
			a.CtxSrc = fmt.Sprintf("n%d", r.Intn(2))
			g.tag("ctx:var:counter")
		}
		if g.p.Mods && r.Chance(45) {
			m := g.genMod()
			if r.Chance(40) {
				// arguments that are variables, with values other than the piped one
				ops := g.scalarOperands()
				va := func() AArg { return AArg{Text: ops[r.Intn(len(ops))].Path} }
				switch r.Intn(3) {
				case 0:
					m = AMod{Name: []string{"default", "def"}[r.Intn(2)], Args: []AArg{va()}}
				case 1:
					m = AMod{Name: "ifThenElse", Args: []AArg{va(), va()}}
				default:
					m = AMod{Name: "vcat", Args: []AArg{va()}}
				}
				g.tag("ctx:mods:variable-argument")
			}
			var plain []AArg
			for _, a := range m.Args {
				if a.KVName == "" {
					plain = append(plain, a) // the ctx tag's grammar has no braces: no key-value groups
				}
			}
			m.Args = plain
			for i := range m.Args {
				// the ctx tag's grammar admits word characters only inside literals
				if m.Args[i].Lit && m.Args[i].Text == "N/A" {
					m.Args[i].Text = "NA"
				}
			}
			a.CtxMods = []AMod{m}
		}
	}
	if r.Chance(30) || (g.p.OKFlags && r.Chance(50)) {
		a.CtxOK = fmt.Sprintf("ok%d", r.Intn(2))
		if g.p.OKFlags && !a.CtxLit && r.Chance(12) {
			// the source expression reads the very name the tag uses as its flag: the old value
			a.CtxSrc, a.CtxMods = a.CtxOK, nil
			g.tag("ctx:ok:source-is-flag")
		}
		if g.p.OKFlags && !a.CtxLit && r.Chance(35) {
			// an absent or empty source: the flag must be written as false
			a.CtxSrc = []string{"nosuch.Field", "user.Nope", "absent"}[r.Intn(3)]
			a.CtxMods = nil
			g.tag("ctx:ok:empty-source")
		}
	}
	return a
}

func (g *Gen) dynVar() string {
	r := g.r
	if g.p.OKFlags && r.Chance(30) {
		return fmt.Sprintf("ok%d", r.Intn(2))
	}
	switch r.Intn(5) {
	case 0, 1:
		return fmt.Sprintf("c%d", r.Intn(3))
	case 2, 3:
		return fmt.Sprintf("n%d", r.Intn(2))
	}
	return fmt.Sprintf("ok%d", r.Intn(2))
}

func (g *Gen) genCounter() *Ast {
	r := g.r
	a := &Ast{K: "counter", Var: fmt.Sprintf("n%d", r.Intn(2))}
	if r.Chance(25) {
		// a step on a name whose number did not come from a counter tag: an integer variable of
		// the data (any width, by value or by pointer) or the variable of an enclosing counting loop
		var names []string
		for _, sv := range g.data.Statics {
			switch sv.Kind {
			case "int", "int64", "int8":
				if sv.I > -1000000 && sv.I < 1000000 {
					names = append(names, sv.Name)
				}
			}
		}
		for _, sc := range g.scope {
			// (not the variable of a loop whose body may address elements through it: a stepped
			// index can leave the bounds of the collection, and what the generated inspector
			// answers there is the inspector's business, not dyntpl's)
			if sc.Kind == "int" && !sc.Idx {
				names = append(names, sc.Name)
			}
		}
		if len(names) > 0 {
			a.Var = names[r.Intn(len(names))]
			a.CntOp = []string{"++", "--", "+", "-"}[r.Intn(4)]
			a.CntArg = 1 + r.Intn(5)
			g.tag("counter:step-on-plain-integer")
			return a
		}
	}
	switch r.Intn(5) {
	case 0, 1:
		a.CntOp, a.CntArg = "=", r.Intn(10)
	case 2:
		a.CntOp = "++"
	case 3:
		a.CntOp = "--"
	default:
		a.CntOp, a.CntArg = []string{"+", "-"}[r.Intn(2)], 1+r.Intn(5)
	}
	return a
}
