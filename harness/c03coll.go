package main

import (
	"fmt"
	"strconv"
	"strings"

	"github.com/koykov/dyntpl"
	"github.com/koykov/inspector"
	"github.com/koykov/inspector/testobj"
	"github.com/koykov/inspector/testobj_ins"
)

// C03, collections of other kinds than the history of structs: slices of plain numbers (also a
// named slice type), of pointers, of structs and of strings, behind the generated and the library
// inspectors.  One body per element in slice order, key and value bound, separator between
// iterations, else if and only if the slice is empty.  The expected text is computed here.
func runCollections(res *Result, rng *RNG, n int) {
	type coll struct {
		path string
		key  bool // the key is the decimal index
		elem func(o *testobj.TestObject1, strs []string, i int) string
		size func(o *testobj.TestObject1, strs []string) int
		fld  string // printed field of a struct element ("" = the element itself)
	}
	f32 := func(f float32) string { return strconv.FormatFloat(float64(f), 'f', -1, 64) }
	colls := []coll{
		{"obj.IntSlice", true, func(o *testobj.TestObject1, _ []string, i int) string { return fmt.Sprint(o.IntSlice[i]) }, func(o *testobj.TestObject1, _ []string) int { return len(o.IntSlice) }, ""},
		{"obj.FloatSlice", true, func(o *testobj.TestObject1, _ []string, i int) string { return f32(o.FloatSlice[i]) }, func(o *testobj.TestObject1, _ []string) int { return len(o.FloatSlice) }, ""},
		{"obj.StructSlice", true, func(o *testobj.TestObject1, _ []string, i int) string { return o.StructSlice[i].S }, func(o *testobj.TestObject1, _ []string) int { return len(o.StructSlice) }, "S"},
		{"obj.StructPtrSlice", true, func(o *testobj.TestObject1, _ []string, i int) string { return fmt.Sprint(o.StructPtrSlice[i].I32) }, func(o *testobj.TestObject1, _ []string) int { return len(o.StructPtrSlice) }, "I32"},
		{"strs", true, func(_ *testobj.TestObject1, s []string, i int) string { return s[i] }, func(_ *testobj.TestObject1, s []string) int { return len(s) }, ""},
	}
	for c := 0; c < n; c++ {
		cl := colls[rng.Intn(len(colls))]
		sz := []int{0, 0, 1, 2, 3, 5}[rng.Intn(6)]
		o := &testobj.TestObject1{}
		var strs []string
		for i := 0; i < sz; i++ {
			o.IntSlice = append(o.IntSlice, int32(rng.Intn(2000)-1000))
			o.FloatSlice = append(o.FloatSlice, float32(rng.Intn(64))/4)
			o.StructSlice = append(o.StructSlice, testobj.TestStruct{S: fmt.Sprintf("s%d", rng.Intn(50))})
			o.StructPtrSlice = append(o.StructPtrSlice, &testobj.TestStruct{I32: int32(rng.Intn(100))})
			strs = append(strs, fmt.Sprintf("w%d", rng.Intn(50)))
		}
		sep := []string{"", ",", ";", " | "}[rng.Intn(4)]
		withKey, withElse := rng.Bool(), rng.Chance(70)
		var sb, want strings.Builder
		sb.WriteString("[{% for ")
		if withKey {
			sb.WriteString("k, v")
		} else {
			sb.WriteString("_, v")
		}
		sb.WriteString(" := range " + cl.path)
		if sep != "" {
			sb.WriteString(" " + []string{"sep", "separator"}[rng.Intn(2)] + " " + strings.TrimSpace(sep))
			sep = strings.TrimSpace(sep)
		}
		sb.WriteString(" %}")
		if withKey {
			sb.WriteString("{%= k %}=")
		}
		if cl.fld != "" {
			sb.WriteString("{%= v." + cl.fld + " %}")
		} else {
			sb.WriteString("{%= v %}")
		}
		if withElse {
			sb.WriteString("{% else %}none")
		}
		sb.WriteString("{% endfor %}]")
		want.WriteString("[")
		for i := 0; i < cl.size(o, strs); i++ {
			if i > 0 {
				want.WriteString(sep)
			}
			if withKey {
				want.WriteString(fmt.Sprint(i) + "=")
			}
			want.WriteString(cl.elem(o, strs, i))
		}
		if cl.size(o, strs) == 0 && withElse {
			want.WriteString("none")
		}
		want.WriteString("]")
		src := sb.String()
		key, po := tplKey(src, false)
		res.Evaluations++
		res.Hist("collections:" + cl.path)
		if po.ErrClass() != "OK" {
			res.Hist("collections:parse-" + po.ErrClass())
			continue
		}
		// a new context and a reset one in turn
		ctx := dyntpl.NewCtx()
		for round := 0; round < 2; round++ {
			ctx.Set("obj", o, testobj_ins.TestObject1Inspector{})
			ctx.Set("strs", strs, inspector.StringsInspector{})
			obs := Render(key, ctx)
			ctx.Reset()
			if obs.ErrClass() == "OK" && string(obs.Out) == want.String() {
				continue
			}
			res.OracleFails++
			res.AddViolation(&Violation{Kind: "failing-input", Class: "collections:" + cl.path,
				What:   fmt.Sprintf("template %q over %d elements renders %q (%s %s) but one body per element in order, separators between and else only when empty is %q", src, cl.size(o, strs), obs.Out, obs.ErrClass(), obs.Err, want.String()),
				Replay: map[string]any{"template": src, "elements": cl.size(o, strs), "observed": string(obs.Out), "expected": want.String()}})
			break
		}
		res.Distinct("coll:" + src + fmt.Sprint(sz))
	}
}
