package main

import (
	"encoding/hex"
	"encoding/json"
	"os"
	"path/filepath"
	"sort"
)

// Corpus files: /verif/corpus/<prop>/*.json, or the single --replay file.
func corpusFiles(o *Options, prop string) []string {
	if o.Replay != "" {
		return []string{o.Replay}
	}
	fs, _ := filepath.Glob(o.Verif + "/corpus/" + prop + "/*.json")
	sort.Strings(fs)
	return fs
}

func loadJSON(path string) map[string]any {
	b, err := os.ReadFile(path)
	if err != nil {
		return nil
	}
	var m map[string]any
	if json.Unmarshal(b, &m) != nil {
		return nil
	}
	return m
}

func loadEscCorpus(o *Options, prop string, forms []EscForm) []*escCase {
	var out []*escCase
	for _, f := range corpusFiles(o, prop) {
		m := loadJSON(f)
		if m == nil {
			continue
		}
		fn, _ := m["form"].(string)
		form, ok := formByName(forms, fn)
		if !ok {
			continue
		}
		in, _ := hex.DecodeString(asString(m["input_hex"]))
		car := asString(m["carrier"])
		if car == "" || car == "template-text" {
			car = "SetBytes"
		}
		out = append(out, &escCase{Form: form, Carrier: car, In: in})
	}
	return out
}

func asString(x any) string {
	s, _ := x.(string)
	return s
}
