package main

// splitmix64: every random choice of a run derives from one state.
type RNG struct{ s uint64 }

func NewRNG(seed uint64) *RNG {
	// mix the seed so that neighbouring seeds give unrelated streams
	z := seed + 0x1234567
	z = (z ^ (z >> 30)) * 0xBF58476D1CE4E5B9
	z = (z ^ (z >> 27)) * 0x94D049BB133111EB
	return &RNG{s: z ^ (z >> 31)}
}

func (r *RNG) U64() uint64 {
	r.s += 0x9E3779B97F4A7C15
	z := r.s
	z = (z ^ (z >> 30)) * 0xBF58476D1CE4E5B9
	z = (z ^ (z >> 27)) * 0x94D049BB133111EB
	return z ^ (z >> 31)
}
func (r *RNG) Intn(n int) int {
	if n <= 0 {
		return 0
	}
	return int(r.U64() % uint64(n))
}
func (r *RNG) Bool() bool        { return r.U64()&1 == 1 }
func (r *RNG) Chance(p int) bool { return r.Intn(100) < p }
func (r *RNG) Pick(xs []string) string {
	return xs[r.Intn(len(xs))]
}
func (r *RNG) Fork() *RNG { return NewRNG(r.U64()) }
