package main

import (
	"fmt"
	"os"
	"regexp"
	"strings"
	"sync"

	"github.com/koykov/dyntpl"
)

// Source clean-up (C01): the parser's cutComments / cutFmt against Model/Preproc.v, byte for byte,
// on generated sources built from the pieces that matter to the two regular expressions.

func genPreprocSource(r *RNG) []byte {
	pieces := []string{"{#", "#}", "#", "{", "}", "\n", "\n\n", "\t", " ", "  ", "\r", "\f", "\v", "a", "bc", "x y", "{%= v %}", "{% if a == 1 %}", "{#c#}", "{# a b #}", "{##}", "{#\n#}", "\n\t ", "\n \n\t", "é", "<li>", "</li>"}
	n := r.Intn(14)
	var sb strings.Builder
	for i := 0; i < n; i++ {
		sb.WriteString(pieces[r.Intn(len(pieces))])
	}
	return []byte(sb.String())
}

func runPreproc(o *Options, res *Result, rng *RNG, n int) error {
	type pc struct {
		keep bool
		src  []byte
		out  []byte
	}
	var cs []pc
	fixed := []string{"", "\n", " \n ", "{#", "{##", "{#a#", "{#a#}b", "a{#b{#c#}d", "x\n\t y", "x \n y", " x\ny ", "\n\nx", "x\n", "{#\n#}x", "a\n{# c #}\n b", "a\r\nb", "a\n\vb", "a\n\fb", "#}{#", "{#}#}"}
	for _, f := range fixed {
		for _, k := range []bool{false, true} {
			cs = append(cs, pc{keep: k, src: []byte(f)})
		}
	}
	for i := 0; i < n; i++ {
		cs = append(cs, pc{keep: rng.Bool(), src: genPreprocSource(rng)})
	}
	for i := range cs {
		c := &cs[i]
		c.out = dyntpl.VerifPreprocess(c.src, c.keep)
		res.Evaluations++
		res.ModelEvals++
		switch {
		case len(c.src) != len(c.out):
			res.Hist("preproc:changed")
			res.Distinct("pp:" + string(c.src) + fmt.Sprint(c.keep))
		default:
			res.Hist("preproc:unchanged")
		}
	}
	dir := o.WorkDir + "/preproc"
	_ = os.MkdirAll(dir, 0o755)
	// the same cases through the clean-up of the parser model (Model/Parser.v preprocess_re over the
	// two expressions regenerated from the source)
	gennow, gerr := prepareGenNow(o)
	usePM := gerr == nil
	// one coqc per shard of 1000 cases (a single list of all thorough-tier cases overflows
	// coqc's stack), eight at a time
	const shard = 1000
	type shardRes struct {
		bad []int
		err error
	}
	nsh := (len(cs) + shard - 1) / shard
	out := make([]shardRes, nsh)
	sem := make(chan struct{}, 8)
	var wg sync.WaitGroup
	for sh := 0; sh < nsh; sh++ {
		sh := sh
		wg.Add(1)
		sem <- struct{}{}
		go func() {
			defer wg.Done()
			defer func() { <-sem }()
			lo, hi := sh*shard, (sh+1)*shard
			if hi > len(cs) {
				hi = len(cs)
			}
			var items []string
			for i := lo; i < hi; i++ {
				items = append(items, fmt.Sprintf("(%s, %s, %s)", gBool(cs[i].keep), gBytes(cs[i].src), gBytes(cs[i].out)))
			}
			var sb strings.Builder
			sb.WriteString("From DT Require Import Model.Bytes Model.Preproc Model.VCase.\nFrom Coq Require Import List.\nImport ListNotations.\nLocal Open Scope hb_scope.\n")
			fmt.Fprintf(&sb, "Definition cases : list (bool * bytes * bytes) := %s.\n", gList(items))
			sb.WriteString("Fixpoint mism (i : nat) (l : list (bool * bytes * bytes)) : list nat :=\n  match l with\n  | [] => []\n  | (k, s, out) :: r => if bytes_eqb (preprocess k s) out then mism (S i) r else i :: mism (S i) r\n  end.\n")
			if usePM {
				sb.WriteString("From DT Require Import Model.Regex Model.ParserRe Model.Parser.\nFrom GenNow Require Import RegexTable.\n")
				sb.WriteString("Fixpoint mism2 (i : nat) (l : list (bool * bytes * bytes)) : list nat :=\n  match l with\n  | [] => []\n  | (k, s, out) :: r => if bytes_eqb (preprocess_re now k s) out then mism2 (S i) r else i :: mism2 (S i) r\n  end.\n")
				sb.WriteString("Definition bad := Eval vm_compute in (mism 0 cases ++ mism2 0 cases)%list.\nPrint bad.\n")
			} else {
				sb.WriteString("Definition bad := Eval vm_compute in mism 0 cases.\nPrint bad.\n")
			}
			sdir := fmt.Sprintf("%s/s%d", dir, sh)
			_ = os.MkdirAll(sdir, 0o755)
			file := sdir + "/cases.v"
			if err := os.WriteFile(file, []byte(sb.String()), 0o644); err != nil {
				out[sh].err = err
				return
			}
			args := []string{"-Q", o.CoqDir, "DT"}
			if usePM {
				args = append(args, "-Q", gennow, "GenNow")
			}
			co, err := coqcCmd("900", append(args, "-Q", sdir, fmt.Sprintf("PP%d", sh), file)...).CombinedOutput()
			if err != nil {
				out[sh].err = fmt.Errorf("coqc on %s: %v\n%s", file, err, tail(string(co), 1200))
				return
			}
			k := strings.Index(string(co), "bad =")
			if k < 0 {
				out[sh].err = fmt.Errorf("preprocess model: no result in coqc output")
				return
			}
			for _, m := range regexp.MustCompile(`\d+`).FindAllString(string(co[k:]), -1) {
				var i int
				fmt.Sscan(m, &i)
				if i >= 0 && lo+i < hi {
					out[sh].bad = append(out[sh].bad, lo+i)
				}
			}
		}()
	}
	wg.Wait()
	for sh := range out {
		if out[sh].err != nil {
			return out[sh].err
		}
		for _, i := range out[sh].bad {
			c := cs[i]
			res.Mismatches++
			res.AddViolation(&Violation{Kind: "no-failing-input-found", Class: "correspondence:preprocess", Lemma: "correspondence preprocess (Model/Preproc.v) and preprocess_re (Model/Parser.v over the regenerated expressions) vs cutComments/cutFmt (parser.go)",
				What:   fmt.Sprintf("a model of the source clean-up and the parser differ on %q (keepFmt=%v): the parser goes on with %q", c.src, c.keep, c.out),
				Replay: map[string]any{"source": string(c.src), "source_hex": hx(c.src), "keep_fmt": c.keep, "parser_output": string(c.out)}})
		}
	}
	_ = os.RemoveAll(dir)
	return nil
}
