package main

import (
	"fmt"
	"os"
	"os/exec"
	"regexp"
	"strings"

	"github.com/koykov/dyntpl"
)

// Source clean-up (C01): the parser's cutComments / cutFmt against Model/Preproc.v, byte for byte,
// on generated sources built from the pieces that matter to the two regular expressions.

func genPreprocSource(r *RNG) []byte {
	pieces := []string{"{#", "#}", "#", "{", "}", "\n", "\n\n", "\t", " ", "  ", "\r", "\f", "\v", "a", "bc", "x y", "{%= v %}", "{% if a == 1 %}", "{#c#}", "{# a b #}", "{##}", "{#\n#}", "\n\t ", "\n \n\t", "é", "<li>", "</li>"}
	n := r.Intn(14)
	var sb strings.Builder
	for i := 0; i < n; i++ {
		sb.WriteString(pieces[r.Intn(len(pieces))])
	}
	return []byte(sb.String())
}

func runPreproc(o *Options, res *Result, rng *RNG, n int) error {
	type pc struct {
		keep bool
		src  []byte
		out  []byte
	}
	var cs []pc
	fixed := []string{"", "\n", " \n ", "{#", "{##", "{#a#", "{#a#}b", "a{#b{#c#}d", "x\n\t y", "x \n y", " x\ny ", "\n\nx", "x\n", "{#\n#}x", "a\n{# c #}\n b", "a\r\nb", "a\n\vb", "a\n\fb", "#}{#", "{#}#}"}
	for _, f := range fixed {
		for _, k := range []bool{false, true} {
			cs = append(cs, pc{keep: k, src: []byte(f)})
		}
	}
	for i := 0; i < n; i++ {
		cs = append(cs, pc{keep: rng.Bool(), src: genPreprocSource(rng)})
	}
	var items []string
	for i := range cs {
		c := &cs[i]
		c.out = dyntpl.VerifPreprocess(c.src, c.keep)
		items = append(items, fmt.Sprintf("(%s, %s, %s)", gBool(c.keep), gBytes(c.src), gBytes(c.out)))
		res.Evaluations++
		res.ModelEvals++
		switch {
		case len(c.src) != len(c.out):
			res.Hist("preproc:changed")
			res.Distinct("pp:" + string(c.src) + fmt.Sprint(c.keep))
		default:
			res.Hist("preproc:unchanged")
		}
	}
	var sb strings.Builder
	sb.WriteString("From DT Require Import Model.Bytes Model.Preproc Model.VCase.\nFrom Coq Require Import List.\nImport ListNotations.\nLocal Open Scope hb_scope.\n")
	fmt.Fprintf(&sb, "Definition cases : list (bool * bytes * bytes) := %s.\n", gList(items))
	sb.WriteString("Fixpoint mism (i : nat) (l : list (bool * bytes * bytes)) : list nat :=\n  match l with\n  | [] => []\n  | (k, s, out) :: r => if bytes_eqb (preprocess k s) out then mism (S i) r else i :: mism (S i) r\n  end.\n")
	sb.WriteString("Definition bad := Eval vm_compute in mism 0 cases.\nPrint bad.\n")
	dir := o.WorkDir + "/preproc"
	_ = os.MkdirAll(dir, 0o755)
	file := dir + "/cases.v"
	if err := os.WriteFile(file, []byte(sb.String()), 0o644); err != nil {
		return err
	}
	out, err := exec.Command("timeout", "900", "coqc", "-Q", o.CoqDir, "DT", "-Q", dir, "PP", file).CombinedOutput()
	if err != nil {
		return fmt.Errorf("coqc on %s: %v\n%s", file, err, tail(string(out), 1200))
	}
	k := strings.Index(string(out), "bad =")
	if k < 0 {
		return fmt.Errorf("preprocess model: no result in coqc output")
	}
	for _, m := range regexp.MustCompile(`\d+`).FindAllString(string(out[k:]), -1) {
		var i int
		fmt.Sscan(m, &i)
		if i < 0 || i >= len(cs) {
			continue
		}
		c := cs[i]
		res.Mismatches++
		res.AddViolation(&Violation{Kind: "no-failing-input-found", Class: "correspondence:preprocess", Lemma: "correspondence preprocess (Model/Preproc.v) vs cutComments/cutFmt (parser.go)",
			What:   fmt.Sprintf("the model of the source clean-up and the parser differ on %q (keepFmt=%v): the parser goes on with %q", c.src, c.keep, c.out),
			Replay: map[string]any{"source": string(c.src), "source_hex": hx(c.src), "keep_fmt": c.keep, "parser_output": string(c.out)}})
	}
	_ = os.RemoveAll(dir)
	return nil
}
