package main

import (
	"fmt"
	"os"
	"regexp"
	"strings"
	"sync"

	"github.com/koykov/dyntpl"
)

// The parser model (coq/Model/Parser.v) of this run: the regular expressions regenerated from
// /repo's source (regexgen.go) and the names the real registries know (modifiers, globals,
// variables with inspectors), compiled once per run into <work>/gennow as library GenNow.

var (
	genNowOnce sync.Once
	genNowErr  error
	genNowDir  string
)

func gBytesList(names []string) string {
	var items []string
	for _, n := range names {
		items = append(items, gBytes([]byte(n)))
	}
	return gList(items)
}

// prepareGenNow writes and compiles GenNow.RegexTable (definition [now]) and GenNow.ParseEnv ([now_env]).
func prepareGenNow(o *Options) (string, error) {
	genNowOnce.Do(func() {
		dir := o.WorkDir + "/gennow"
		genNowDir = dir
		if genNowErr = os.MkdirAll(dir, 0o755); genNowErr != nil {
			return
		}
		rs, err := collectRegexes(repoDirOf())
		if err != nil {
			genNowErr = fmt.Errorf("regex table: %v", err)
			return
		}
		txt, err := regexTableV(rs, "now")
		if err != nil {
			genNowErr = fmt.Errorf("regex table: %v", err)
			return
		}
		if genNowErr = os.WriteFile(dir+"/RegexTable.v", []byte(txt), 0o644); genNowErr != nil {
			return
		}
		mods, globals, insVars := dyntpl.VerifRegistryNames()
		env := "From Coq Require Import String.\nFrom DT Require Import Model.Bytes Model.VCase Model.Parser.\nLocal Open Scope string_scope.\n" +
			fmt.Sprintf("Definition now_env : penv := mkPenv\n  %s\n  %s\n  %s.\n", gBytesList(mods), gBytesList(globals), gBytesList(insVars))
		if genNowErr = os.WriteFile(dir+"/ParseEnv.v", []byte(env), 0o644); genNowErr != nil {
			return
		}
		check := "From DT Require Import Model.Bytes Model.Regex Model.ParserRe.\nFrom GenNow Require Import RegexTable.\n" +
			"(* every repeated sub-expression of the expressions compiled by the source consumes at least one byte *)\n" +
			"Theorem now_table_ok : retab_ok now = true.\nProof. vm_compute. reflexivity. Qed.\n"
		if genNowErr = os.WriteFile(dir+"/TableOk.v", []byte(check), 0o644); genNowErr != nil {
			return
		}
		for _, f := range []string{"RegexTable.v", "ParseEnv.v", "TableOk.v"} {
			cmd := coqcCmd("600", "-Q", o.CoqDir, "DT", "-Q", dir, "GenNow", dir+"/"+f)
			if out, err := cmd.CombinedOutput(); err != nil {
				genNowErr = fmt.Errorf("the parser model of this run does not compile (%s): %v\n%s", f, err, tail(string(out), 1500))
				return
			}
		}
	})
	return genNowDir, genNowErr
}

var rePMVerdict = regexp.MustCompile(`PMOk|PMBadTree|PMBadErr|PMFuel`)

// parserModelTerms lists the parser-model checks of one case: its own source and every included
// template whose source is known.
func (vc *VCase) parserModelTerms() []string {
	var out []string
	if vc.Src != "" && vc.Tree != nil && !vc.NoParserModel {
		out = append(out, fmt.Sprintf("parsem_check now now_env %s %s (vc_tree c%d)", gBool(vc.KeepFmt), gBytes([]byte(vc.Src)), vc.ID))
	}
	for _, k := range vc.RegKeys {
		if src, ok := vc.Meta["inc:"+k].(string); ok && !vc.NoParserModel {
			out = append(out, fmt.Sprintf("parsem_check now now_env false %s %s", gBytes([]byte(src)), gNodes(vc.Reg[k])))
		}
	}
	return out
}

func pmSummary(vs []string) string {
	for _, v := range vs {
		if v != "PMOk" {
			return v
		}
	}
	if len(vs) == 0 {
		return ""
	}
	return "PMOk"
}

var _ = strings.TrimSpace

// ---------------------------------------------------------------- parser model on observed Parse calls

type pmObs struct {
	Src      []byte
	Keep     bool
	Accepted bool
	Dump     []dyntpl.VerifNode
	How      string
}

var (
	pmRecord bool   // record the Parse calls made through ParseReg / parseDump
	pmHow    string // label of the stream that is running
	pmLimit  = map[string]int{}
	pmCount  = map[string]int{}
	pmSeen   = map[string]bool{}
	pmList   []pmObs
	pmMu     sync.Mutex
)

func pmObserve(src []byte, keep bool, o Obs, dump []dyntpl.VerifNode) {
	if !pmRecord || o.Panic != "" || o.Hang {
		return
	}
	pmMu.Lock()
	defer pmMu.Unlock()
	if lim, ok := pmLimit[pmHow]; ok && pmCount[pmHow] >= lim {
		return
	}
	k := fmt.Sprintf("%v|%s", keep, src)
	if pmSeen[k] {
		return
	}
	pmSeen[k] = true
	pmCount[pmHow]++
	pmList = append(pmList, pmObs{Src: append([]byte(nil), src...), Keep: keep, Accepted: o.Err == "", Dump: dump, How: pmHow})
}

// runParserModel evaluates Model/Parser.v (over the expressions regenerated from the source) on every
// recorded source: an accepted source must give the dumped tree, a refused one must be refused.
func runParserModel(o *Options, res *Result, prop string) error {
	pmMu.Lock()
	list := pmList
	pmList = nil
	pmMu.Unlock()
	if len(list) == 0 {
		return nil
	}
	gennow, err := prepareGenNow(o)
	if err != nil {
		return err
	}
	const per = 500
	nsh := (len(list) + per - 1) / per
	verdicts := make([][]string, nsh)
	errs := make([]error, nsh)
	sem := make(chan struct{}, 14)
	var wg sync.WaitGroup
	for sh := 0; sh < nsh; sh++ {
		lo, hi := sh*per, (sh+1)*per
		if hi > len(list) {
			hi = len(list)
		}
		wg.Add(1)
		go func(sh, lo, hi int) {
			defer wg.Done()
			sem <- struct{}{}
			defer func() { <-sem }()
			var sb strings.Builder
			sb.WriteString("From Coq Require Import String.\nFrom DT Require Import Model.Bytes Model.Tree Model.VCase Model.Parser Model.PCase.\nFrom GenNow Require Import RegexTable ParseEnv.\nLocal Open Scope string_scope.\n")
			var names []string
			for i := lo; i < hi; i++ {
				c := list[i]
				if c.Accepted {
					fmt.Fprintf(&sb, "Definition p%d := parsem_check now now_env %s %s %s.\n", i, gBool(c.Keep), gBytes(c.Src), gNodes(c.Dump))
				} else {
					fmt.Fprintf(&sb, "Definition p%d := parsem_refused now now_env %s %s.\n", i, gBool(c.Keep), gBytes(c.Src))
				}
				names = append(names, fmt.Sprintf("p%d", i))
			}
			fmt.Fprintf(&sb, "Definition pmv := Eval vm_compute in %s.\nPrint pmv.\n", gList(names))
			dir := fmt.Sprintf("%s/pm%d", o.WorkDir, sh)
			_ = os.MkdirAll(dir, 0o755)
			file := dir + "/cases.v"
			if err := os.WriteFile(file, []byte(sb.String()), 0o644); err != nil {
				errs[sh] = err
				return
			}
			out, err := coqcCmd("1500", "-Q", o.CoqDir, "DT", "-Q", gennow, "GenNow", "-Q", dir, "PM", file).CombinedOutput()
			if err != nil {
				errs[sh] = fmt.Errorf("coqc on %s: %v\n%s", file, err, tail(string(out), 1200))
				return
			}
			k := strings.Index(string(out), "pmv =")
			if k < 0 {
				errs[sh] = fmt.Errorf("parser model: no result in coqc output for %s", file)
				return
			}
			verdicts[sh] = rePMVerdict.FindAllString(string(out[k:]), -1)
			if len(verdicts[sh]) != hi-lo {
				errs[sh] = fmt.Errorf("parser model: %d verdicts for %d sources", len(verdicts[sh]), hi-lo)
				return
			}
			_ = os.RemoveAll(dir)
		}(sh, lo, hi)
	}
	wg.Wait()
	for _, e := range errs {
		if e != nil {
			return e
		}
	}
	for i, c := range list {
		res.ModelEvals++
		v := verdicts[i/per][i%per]
		res.Hist(fmt.Sprintf("parser-model:%s:accepted=%v:%s", c.How, c.Accepted, v))
		if v != "PMOk" {
			res.Mismatches++
			res.AddViolation(&Violation{Kind: "no-failing-input-found", Class: "parser-model", Lemma: "parser correspondence: Model/Parser.v over the regenerated expressions vs Parse + VerifTree",
				What:   fmt.Sprintf("the parser model (%s) and the real parser (accepted=%v) disagree on the source %q (keepFmt=%v, stream %s)", v, c.Accepted, c.Src, c.Keep, c.How),
				Replay: map[string]any{"template": string(c.Src), "template_hex": hx(c.Src), "keep_fmt": c.Keep, "accepted": c.Accepted, "verdict": v, "stream": c.How, "seed": o.Seed, "tier": o.Tier}})
		}
	}
	return nil
}

// ---------------------------------------------------------------- the matcher itself

var reTagBody = regexp.MustCompile(`(?s)\{%(.*?)%\}`)

// runRegexModel puts Model/Regex.v next to Go's regexp: every expression of the table on subjects cut
// from the tags of the given sources (and mutations of them), FindSubmatchIndex against find_index.
func runRegexModel(o *Options, res *Result, rng *RNG, sources [][]byte, perExpr int) error {
	gennow, err := prepareGenNow(o)
	if err != nil {
		return err
	}
	rs, err := collectRegexes(repoDirOf())
	if err != nil {
		return err
	}
	var subjects [][]byte
	seen := map[string]bool{}
	for _, s := range sources {
		for _, m := range reTagBody.FindAllSubmatch(s, -1) {
			b := []byte(strings.Trim(string(m[1]), "{}% "))
			if len(b) > 0 && len(b) < 120 && !seen[string(b)] {
				seen[string(b)] = true
				subjects = append(subjects, b)
			}
		}
	}
	if len(subjects) == 0 {
		return nil
	}
	type rc struct {
		name string
		subj []byte
		want []int
	}
	var cases []rc
	for _, r := range rs {
		known := false
		for _, n := range modelRegexes {
			known = known || n == r.Name
		}
		if !known {
			continue
		}
		re, err := regexp.Compile(r.Expr)
		if err != nil {
			return err
		}
		// half of the subjects are ones the expression matches (as far as the pool has them)
		nm, nn := 0, 0
		for try := 0; try < 40*perExpr && nm+nn < perExpr; try++ {
			s := subjects[rng.Intn(len(subjects))]
			if try%3 == 2 {
				s = mutate(rng, s)
			}
			if len(s) > 160 {
				s = s[:160]
			}
			want := re.FindSubmatchIndex(s)
			if want != nil && nm >= (perExpr+1)/2 || want == nil && nn >= perExpr/2 {
				continue
			}
			if want != nil {
				nm++
			} else {
				nn++
			}
			cases = append(cases, rc{r.Name, append([]byte(nil), s...), want})
		}
	}
	var sb strings.Builder
	sb.WriteString("From Coq Require Import String ZArith.\nFrom DT Require Import Model.Bytes Model.VCase Model.Regex Model.ParserRe Model.PCase.\nFrom GenNow Require Import RegexTable.\nLocal Open Scope string_scope.\n")
	var names []string
	for i, c := range cases {
		want := "None"
		if c.want != nil {
			var zs []string
			for _, z := range c.want {
				zs = append(zs, gZ(int64(z)))
			}
			want = "(Some " + gList(zs) + ")"
		}
		fmt.Fprintf(&sb, "Definition r%d := re_check now_%s %s %s.\n", i, c.name, gBytes(c.subj), want)
		names = append(names, fmt.Sprintf("r%d", i))
	}
	fmt.Fprintf(&sb, "Definition rev := Eval vm_compute in %s.\nPrint rev.\n", gList(names))
	dir := o.WorkDir + "/remodel"
	_ = os.MkdirAll(dir, 0o755)
	file := dir + "/cases.v"
	if err := os.WriteFile(file, []byte(sb.String()), 0o644); err != nil {
		return err
	}
	out, err := coqcCmd("1500", "-Q", o.CoqDir, "DT", "-Q", gennow, "GenNow", "-Q", dir, "RM", file).CombinedOutput()
	if err != nil {
		return fmt.Errorf("coqc on %s: %v\n%s", file, err, tail(string(out), 1200))
	}
	k := strings.Index(string(out), "rev =")
	if k < 0 {
		return fmt.Errorf("regex model: no result in coqc output")
	}
	vs := regexp.MustCompile(`true|false`).FindAllString(string(out[k:]), -1)
	if len(vs) != len(cases) {
		return fmt.Errorf("regex model: %d verdicts for %d cases", len(vs), len(cases))
	}
	for i, c := range cases {
		res.ModelEvals++
		res.Hist(fmt.Sprintf("regex-model:match=%v:%s", c.want != nil, vs[i]))
		if vs[i] != "true" {
			res.Mismatches++
			res.AddViolation(&Violation{Kind: "no-failing-input-found", Class: "regex-model", Lemma: "matcher correspondence: Model/Regex.v find_index vs regexp.FindSubmatchIndex on the expressions of the source",
				What:   fmt.Sprintf("the matcher model and Go's regexp disagree on expression %s and subject %q (Go: %v)", c.name, c.subj, c.want),
				Replay: map[string]any{"expression": c.name, "subject": string(c.subj), "subject_hex": hx(c.subj), "go_index": c.want}})
		}
	}
	return nil
}

// parserModelBroken reports, as a violation without a failing input, that the parser model could not
// be regenerated from the source (an expression the model reads is gone or has no counterpart in
// Model/Regex.v, a repeated sub-expression may match the empty string, ...).
func parserModelBroken(res *Result) bool {
	if genNowErr == nil {
		if genNowDir != "" {
			res.Notes = appendCap(res.Notes, fmt.Sprintf("parser model of this run: the %d expressions Model/Parser.v reads were regenerated from /repo's regexp.MustCompile literals (harness/regexgen.go) and GenNow.TableOk.now_table_ok (retab_ok now = true) was proved by vm_compute", len(modelRegexes)), 12)
		}
		return false
	}
	res.Mismatches++
	res.AddViolation(&Violation{Kind: "no-failing-input-found", Class: "parser-model-regen", Lemma: "regeneration of the parser model's expressions from the source (harness/regexgen.go, GenNow.TableOk.now_table_ok)",
		What:   "the parser model can no longer be regenerated from the library's source: " + genNowErr.Error(),
		Replay: map[string]any{"detail": genNowErr.Error()}})
	return true
}
