package main

import (
	"fmt"
	"os"
	"regexp"
	"strings"
	"sync"

	"github.com/koykov/dyntpl"
)

// The parser model (coq/Model/Parser.v) of this run: the regular expressions regenerated from
// /repo's source (regexgen.go) and the names the real registries know (modifiers, globals,
// variables with inspectors), compiled once per run into <work>/gennow as library GenNow.

var (
	genNowOnce sync.Once
	genNowErr  error
	genNowDir  string
)

func gBytesList(names []string) string {
	var items []string
	for _, n := range names {
		items = append(items, gBytes([]byte(n)))
	}
	return gList(items)
}

// prepareGenNow writes and compiles GenNow.RegexTable (definition [now]) and GenNow.ParseEnv ([now_env]).
func prepareGenNow(o *Options) (string, error) {
	genNowOnce.Do(func() {
		dir := o.WorkDir + "/gennow"
		genNowDir = dir
		if genNowErr = os.MkdirAll(dir, 0o755); genNowErr != nil {
			return
		}
		rs, err := collectRegexes(repoDirOf())
		if err != nil {
			genNowErr = fmt.Errorf("regex table: %v", err)
			return
		}
		txt, err := regexTableV(rs, "now")
		if err != nil {
			genNowErr = fmt.Errorf("regex table: %v", err)
			return
		}
		if genNowErr = os.WriteFile(dir+"/RegexTable.v", []byte(txt), 0o644); genNowErr != nil {
			return
		}
		mods, globals, insVars := dyntpl.VerifRegistryNames()
		env := "From Coq Require Import String.\nFrom DT Require Import Model.Bytes Model.VCase Model.Parser.\nLocal Open Scope string_scope.\n" +
			fmt.Sprintf("Definition now_env : penv := mkPenv\n  %s\n  %s\n  %s.\n", gBytesList(mods), gBytesList(globals), gBytesList(insVars))
		if genNowErr = os.WriteFile(dir+"/ParseEnv.v", []byte(env), 0o644); genNowErr != nil {
			return
		}
		check := "From DT Require Import Model.Bytes Model.Regex Model.ParserRe.\nFrom GenNow Require Import RegexTable.\n" +
			"(* every repeated sub-expression of the expressions compiled by the source consumes at least one byte *)\n" +
			"Theorem now_table_ok : retab_ok now = true.\nProof. vm_compute. reflexivity. Qed.\n"
		if genNowErr = os.WriteFile(dir+"/TableOk.v", []byte(check), 0o644); genNowErr != nil {
			return
		}
		for _, f := range []string{"RegexTable.v", "ParseEnv.v", "TableOk.v"} {
			cmd := coqcCmd("600", "-Q", o.CoqDir, "DT", "-Q", dir, "GenNow", dir+"/"+f)
			if out, err := cmd.CombinedOutput(); err != nil {
				genNowErr = fmt.Errorf("the parser model of this run does not compile (%s): %v\n%s", f, err, tail(string(out), 1500))
				return
			}
		}
	})
	return genNowDir, genNowErr
}

var rePMVerdict = regexp.MustCompile(`PMOk|PMBadTree|PMBadErr|PMFuel`)

// parserModelTerms lists the parser-model checks of one case: its own source and every included
// template whose source is known.
func (vc *VCase) parserModelTerms() []string {
	var out []string
	if vc.Src != "" && vc.Tree != nil && !vc.NoParserModel {
		out = append(out, fmt.Sprintf("parsem_check now now_env %s %s (vc_tree c%d)", gBool(vc.KeepFmt), gBytes([]byte(vc.Src)), vc.ID))
	}
	for _, k := range vc.RegKeys {
		if src, ok := vc.Meta["inc:"+k].(string); ok && !vc.NoParserModel {
			out = append(out, fmt.Sprintf("parsem_check now now_env false %s %s", gBytes([]byte(src)), gNodes(vc.Reg[k])))
		}
	}
	return out
}

func pmSummary(vs []string) string {
	for _, v := range vs {
		if v != "PMOk" {
			return v
		}
	}
	if len(vs) == 0 {
		return ""
	}
	return "PMOk"
}

var _ = strings.TrimSpace
