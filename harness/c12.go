package main

import (
	"fmt"
	"os"
	"regexp"
	"strings"
	"sync"
)

// C12: Parse is total and accepts exactly the properly nested templates.

type skTag struct {
	Kind string // if else endif for endfor switch case default endswitch leaf
}

var skText = map[string]string{
	"if": "{% if x == 1 %}", "else": "{% else %}", "endif": "{% endif %}", "for": "{% for i := 0; i < 2; i++ %}", "forr": "{% for _, v := range user.Finance.History %}",
	"endfor": "{% endfor %}", "switch": "{% switch x %}", "case": "{% case 1 %}", "default": "{% default %}", "endswitch": "{% endswitch %}", "leaf": "{%= x %}", "text": "t",
}

// every accepted way of writing a block tag closes and nests like the common one: the tag at position
// i of a skeleton is written in one of these spellings (a function of the position, so that replays agree)
var skSpell = map[string][]string{
	"if":        {"{% if x == 1 %}", "{% if len(x) > 0 %}", "{% if lenEq0(x) %}", "{%if x!=1%}", "{% if v, ok := f(x).(T); ok %}", "{% if cap(a.b) >= 2 %}", "{% if v, ok := f(x) as T; !ok %}", `{% if "a b" != s %}`},
	"for":       {"{% for i := 0; i < 2; i++ %}", "{% for i = 0; i < 2; i++ %}", "{% for i:=0;i<2;i++ %}", "{%for i := 3; i >= -1; i-- sep ,%}", "{% for i = a; i != b.c; i++ separator | %}"},
	"forr":      {"{% for _, v := range user.Finance.History %}", "{% for k,v = range a.b %}", "{% for k := range m %}", "{% for _,v:=range x sep ; %}", "{% for k , v := range a.b.c separator , %}"},
	"switch":    {"{% switch x %}", "{% switch %}", "{%switch a.b%}"},
	"case":      {"{% case 1 %}", "{% case x == 1 %}", "{% case 'q' %}", "{% case lenEq0(x) %}", "{%case -1%}"},
	"else":      {"{% else %}", "{%else%}"},
	"endif":     {"{% endif %}", "{%endif%}", "{% endif%}"},
	"endfor":    {"{% endfor %}", "{%endfor%}"},
	"endswitch": {"{% endswitch %}", "{%endswitch%}"},
	"default":   {"{% default %}", "{%default%}"},
	"leaf":      {"{%= x %}", "{%j= x|default(1) %}", "{% ctx a = b %}", "{% cntr c++ %}", "{%= a == 1 ? x : y %}", "{% . sub other %}", "{% endl %}", "{%= x pfx [ sfx ] %}", "{% context a, ok = b.c|default(\"x\") as static %}"},
}

func skTagText(t string, i, n int) string {
	if v, ok := skSpell[t]; ok {
		return v[(i*5+n)%len(v)]
	}
	return skText[t]
}

func genSkeleton(r *RNG, depth int) []string {
	var out []string
	n := 1 + r.Intn(3)
	for i := 0; i < n; i++ {
		k := r.Intn(7)
		if depth <= 0 && k < 3 {
			k = 5
		}
		switch k {
		case 0:
			out = append(out, "if")
			out = append(out, genSkeleton(r, depth-1)...)
			if r.Bool() {
				out = append(out, "else")
				out = append(out, genSkeleton(r, depth-1)...)
			}
			out = append(out, "endif")
		case 1:
			out = append(out, []string{"for", "forr"}[r.Intn(2)])
			out = append(out, genSkeleton(r, depth-1)...)
			out = append(out, "endfor")
		case 2:
			out = append(out, "switch", "case")
			out = append(out, genSkeleton(r, depth-1)...)
			if r.Bool() {
				out = append(out, "default", "leaf")
			}
			out = append(out, "endswitch")
		case 3, 4:
			out = append(out, "leaf")
		default:
			out = append(out, "text")
		}
	}
	return out
}

// balancedSkel: the specification — a Dyck word over three bracket kinds with neutral leaves.
func balancedSkel(tags []string) bool {
	var st []string
	for _, t := range tags {
		switch t {
		case "if", "switch":
			st = append(st, t)
		case "for", "forr":
			st = append(st, "for")
		case "endif", "endfor", "endswitch":
			if len(st) == 0 || "end"+st[len(st)-1] != t {
				return false
			}
			st = st[:len(st)-1]
		}
	}
	return len(st) == 0
}

func skSource(tags []string) string {
	var sb strings.Builder
	for i, t := range tags {
		// comments on the same line as the tags (they are removed before parsing and must take
		// nothing else with them); deterministic in the position so that replays agree
		if (i*7+len(tags))%5 == 0 {
			// (also comments that contain tags: what is commented out is not there)
			sb.WriteString([]string{"{# c #}", "{#x#}", "{# a b #}", "{# {% endif %} #}", "{# {% for i := 0; i < 2; i++ %} #}", "{#{% endswitch %}{% endfor %}#}", "{# {% if a == 1 %} #}"}[(i+len(tags))%7])
		}
		sb.WriteString(skTagText(t, i, len(tags)))
	}
	if len(tags)%3 == 0 {
		sb.WriteString("{# tail #}")
	}
	return sb.String()
}

func runC12(o *Options) *Result {
	res := NewResult()
	rng := NewRNG(o.Seed)
	n := 250
	if o.Tier == "thorough" {
		n = 5000
	}
	// every Parse call of this run is also put to the parser model (Model/Parser.v): same tree, or refused alike
	pmRecord, pmHow = true, "skeleton"
	pmLimit = map[string]int{"skeleton": 1500, "args": 1500, "fuzz": 600}
	if o.Tier == "thorough" {
		pmLimit = map[string]int{"skeleton": 20000, "args": 40000, "fuzz": 20000}
	}
	closers := []string{"endif", "endfor", "endswitch"}
	openers := []string{"if", "for", "forr", "switch"}
	check := func(tags []string, how string) {
		src := skSource(tags)
		// under either keep-format setting (deterministic in the source): comments go in both
		keep := len(src)%2 == 1
		_, po := ParseReg([]byte(src), keep)
		res.Evaluations++
		res.Hist(fmt.Sprintf("skeleton:keepFmt=%v", keep))
		want := balancedSkel(tags)
		res.Hist("skeleton:" + how)
		res.Hist(fmt.Sprintf("skeleton:balanced=%v", want))
		res.Distinct(src)
		if po.ErrClass() == "PANIC" || po.ErrClass() == "HANG" {
			res.OracleFails++
			res.AddViolation(&Violation{Kind: "failing-input", Class: "parse:" + po.ErrClass(), What: fmt.Sprintf("Parse of %q: %s %s", src, po.ErrClass(), po.Panic), Replay: map[string]any{"template": src, "tags": tags}})
			return
		}
		accepted := po.ErrClass() == "OK"
		skObserved = append(skObserved, skObs{Tags: tags, Accepted: accepted})
		if accepted != want {
			res.OracleFails++
			class := "nesting:accepted-unbalanced"
			if want {
				class = "nesting:rejected-balanced"
			}
			res.AddViolation(&Violation{Kind: "failing-input", Class: class,
				What: fmt.Sprintf("skeleton %v (%s): Parse accepted=%v (err=%q) but properly nested=%v", tags, how, accepted, po.Err, want), Replay: map[string]any{"template": src, "tags": tags, "mutation": how}})
		}
		if res.Evaluations%211 == 0 {
			res.Sample(map[string]any{"tags": strings.Join(tags, " "), "mutation": how, "accepted": accepted, "parse_err": po.Err}, 8)
		}
	}
	// straight nests of every depth up to 24 in three rotations of the block kinds (a bound on the
	// nesting depth somewhere in the parser shows only beyond it), each also with its last and its
	// middle closer removed
	kinds := [][2]string{{"if", "endif"}, {"for", "endfor"}, {"switch", "endswitch"}, {"forr", "endfor"}}
	for rot := 0; rot < 3; rot++ {
		for depth := 1; depth <= 24; depth++ {
			var open, closeT []string
			for d := 0; d < depth; d++ {
				k := kinds[(d+rot)%len(kinds)]
				open = append(open, k[0])
				if k[0] == "switch" {
					open = append(open, "case")
				}
				closeT = append([]string{k[1]}, closeT...)
			}
			sk := append(append(append([]string(nil), open...), "leaf"), closeT...)
			check(sk, "deep-nest")
			check(sk[:len(sk)-1], "deep-nest-deletion")
			mid := len(open) + 1 + depth/2
			if mid < len(sk) {
				check(append(append([]string(nil), sk[:mid]...), sk[mid+1:]...), "deep-nest-deletion")
			}
		}
	}
	// spellings of block tags that must be accepted (properly nested and closed), and their versions
	// with the closer removed that must not: signs, spaces, quotes and operators inside the tags
	spell := []struct{ open, closeT string }{
		{"{% for i := 3; i > -1; i-- %}", "{% endfor %}"}, {"{% for i := -2; i < 1; i++ %}", "{% endfor %}"}, {"{% for i:=0;i<3;i++ %}", "{% endfor %}"},
		{"{% for i := 0; i <= n; i++ separator , %}", "{% endfor %}"}, {"{% for i := a; i != c.d; i-- sep | %}", "{% endfor %}"}, {"{% for k, v := range a.b.c %}", "{% endfor %}"},
		{"{% for _, v := range x separator ; %}", "{% endfor %}"}, {"{% for k := range m %}", "{% endfor %}"}, {"{% if a.b >= -1.5 %}", "{% endif %}"}, {"{% if \"x y\" != s %}", "{% endif %}"},
		{"{% if len(a.b) > 0 %}", "{% endif %}"}, {"{% if lenEq0(x) %}", "{% endif %}"}, {"{% if v, ok := f(x).(T); !ok %}", "{% endif %}"}, {"{% if v, ok := f(x) as T; ok %}", "{% endif %}"},
		{"{% for i = 0; i < 3; i++ %}", "{% endfor %}"}, {"{% for i=0;i<3;i++ %}", "{% endfor %}"}, {"{% for k,v = range a.b %}", "{% endfor %}"}, {"{%for _,v:=range x%}", "{%endfor%}"},
		{"{% if cap(a.b) == 0 %}", "{% endif %}"}, {"{% if x<=-1 %}", "{% endif %}"}, {"{%if a.b!='q'%}", "{%endif%}"}, {"{% switch a.b %}{% case -1 %}", "{% endswitch %}"}, {"{% switch %}{% case a < -2 %}", "{% endswitch %}"}, {"{% switch x %}{% case 'q' %}", "{% endswitch %}"},
	}
	pmHow = "spelling"
	for _, sp := range spell {
		for _, wrap := range []string{"%s", "{%% if z == 1 %%}%s{%% endif %%}", "{%% for j := 0; j < 2; j++ %%}%s{%% endfor %%}"} {
			for _, closed := range []bool{true, false} {
				body := sp.open + "x"
				if closed {
					body += sp.closeT
				}
				src := fmt.Sprintf(wrap, body)
				_, po := ParseReg([]byte(src), false)
				res.Evaluations++
				res.Hist(fmt.Sprintf("spelling:closed=%v", closed))
				res.Distinct(src)
				if po.ErrClass() == "PANIC" || po.ErrClass() == "HANG" {
					res.OracleFails++
					res.AddViolation(&Violation{Kind: "failing-input", Class: "parse:" + po.ErrClass(), What: fmt.Sprintf("Parse of %q: %s %s", src, po.ErrClass(), po.Panic), Replay: map[string]any{"template": src}})
					continue
				}
				if accepted := po.ErrClass() == "OK"; accepted != closed {
					class := "nesting:accepted-unbalanced"
					if closed {
						class = "nesting:rejected-balanced"
					}
					res.OracleFails++
					res.AddViolation(&Violation{Kind: "failing-input", Class: class, What: fmt.Sprintf("template %q: Parse accepted=%v (err=%q) but properly nested=%v", src, accepted, po.Err, closed), Replay: map[string]any{"template": src}})
				}
			}
		}
	}
	pmHow = "skeleton"
	for i := 0; i < n; i++ {
		sk := genSkeleton(rng, 1+rng.Intn(4))
		check(sk, "well-nested")
		// every single-tag deletion of a block tag, plus sampled insertions and swaps
		for d := 0; d < len(sk); d++ {
			if sk[d] == "leaf" || sk[d] == "text" || sk[d] == "else" || sk[d] == "case" || sk[d] == "default" {
				continue
			}
			m := append(append([]string(nil), sk[:d]...), sk[d+1:]...)
			check(m, "deletion")
		}
		for k := 0; k < 4; k++ {
			p := rng.Intn(len(sk) + 1)
			ins := closers[rng.Intn(3)]
			if rng.Bool() {
				ins = openers[rng.Intn(4)]
			}
			m := append(append(append([]string(nil), sk[:p]...), ins), sk[p:]...)
			check(m, "insertion")
		}
		for k := 0; k < 4 && len(sk) > 1; k++ {
			a, b := rng.Intn(len(sk)), rng.Intn(len(sk))
			m := append([]string(nil), sk...)
			m[a], m[b] = m[b], m[a]
			check(m, "swap")
		}
	}
	// unterminated tags
	pmHow = "unterminated"
	for _, s := range []string{"a{% if x == 1 ", "{%", "{% endif", "x{%= y ", "{% for i:=0; i<2; i++ %}a{% endfor", "{#c#}{% "} {
		_, po := ParseReg([]byte(s), false)
		res.Evaluations++
		res.Hist("unterminated")
		if po.ErrClass() != "ERR" {
			res.OracleFails++
			res.AddViolation(&Violation{Kind: "failing-input", Class: "parse:unterminated-accepted", What: fmt.Sprintf("the unterminated template %q is not rejected with an error (%s %s)", s, po.ErrClass(), po.Panic), Replay: map[string]any{"template": s}})
		}
	}
	// argument lists over a small alphabet, exhaustively up to length 4 (thorough: 5)
	alpha := []string{"{", "}", "(", ")", ",", ":", "\"", "'", " ", "a", "1"}
	maxLen := 4
	if o.Tier == "thorough" {
		maxLen = 5
	}
	pmHow = "args"
	var rec func(cur string, d int)
	rec = func(cur string, d int) {
		src := "{%= x|default(" + cur + ") %}"
		_, po := ParseReg([]byte(src), false)
		res.Evaluations++
		res.Hist("args:" + po.ErrClass())
		if po.ErrClass() == "PANIC" || po.ErrClass() == "HANG" {
			res.OracleFails++
			res.AddViolation(&Violation{Kind: "failing-input", Class: "parse:" + po.ErrClass() + ":args", What: fmt.Sprintf("Parse of %q: %s %s", src, po.ErrClass(), po.Panic), Replay: map[string]any{"template": src}})
		}
		if d == maxLen {
			return
		}
		for _, a := range alpha {
			rec(cur+a, d+1)
		}
	}
	rec("", 0)
	nf := 2500
	if o.Tier == "thorough" {
		nf = 100000
	}
	pmHow = "fuzz"
	if v := os.Getenv("VH_PM_FUZZ"); v != "" { // development: a longer fuzz stream through the parser model
		fmt.Sscan(v, &nf)
		pmLimit["fuzz"] = nf
	}
	runFuzz(o, res, NewRNG(o.Seed+12), nf, "C12")
	pmRecord = false
	if err := runSkelModel(o, res); err != nil {
		res.InfraError = err.Error()
		return res
	}
	if _, err := prepareGenNow(o); err != nil {
		pmList = nil
	}
	parserModelBroken(res)
	var pmSources [][]byte
	for _, c := range pmList {
		pmSources = append(pmSources, c.Src)
	}
	nre := 40
	if o.Tier == "thorough" {
		nre = 600
	}
	if err := runRegexModel(o, res, NewRNG(o.Seed+77), pmSources, nre); err != nil {
		res.InfraError = err.Error()
		return res
	}
	if err := runParserModel(o, res, "C12"); err != nil {
		res.InfraError = err.Error()
		return res
	}
	res.Exhaustive = true
	res.ExhaustNote = fmt.Sprintf("argument lists over the alphabet {}(),:\"' a1 up to length %d (all of them); single-tag deletions of every block tag of every generated skeleton", maxLen)
	res.Rule = "well-nested block skeletons to depth 5 with canonical tag texts, every single block-tag deletion, sampled insertions and swaps: Parse's acceptance vs the Dyck-word predicate; unterminated tags; exhaustive argument lists; mutated repository templates and generated templates (panic/hang oracle); distinct by source text"
	res.WriteReplays(o.Verif+"/evidence/replays", "C12")
	return res
}

type skObs struct {
	Tags     []string
	Accepted bool
}

var skObserved []skObs

var skTagCoq = map[string]string{"if": "OpenIf", "else": "ElseT", "endif": "EndIf", "for": "OpenFor", "forr": "OpenFor", "endfor": "EndFor", "switch": "OpenSwitch", "case": "CaseT",
	"default": "DefaultT", "endswitch": "EndSwitch", "leaf": "Leaf"}

// runSkelModel: correspondence of the real parser's acceptance with parse_skel (Model/ParserSkel.v), V-mode.
func runSkelModel(o *Options, res *Result) error {
	if len(skObserved) == 0 {
		return nil
	}
	// shards of 2000 skeletons, evaluated in parallel (one big list overflows coqc's stack)
	const per = 2000
	nsh := (len(skObserved) + per - 1) / per
	verdicts := make([][]string, nsh)
	errs := make([]error, nsh)
	sem := make(chan struct{}, 12)
	var wg sync.WaitGroup
	for sh := 0; sh < nsh; sh++ {
		lo, hi := sh*per, (sh+1)*per
		if hi > len(skObserved) {
			hi = len(skObserved)
		}
		wg.Add(1)
		go func(sh, lo, hi int) {
			defer wg.Done()
			sem <- struct{}{}
			defer func() { <-sem }()
			var sb strings.Builder
			sb.WriteString("From DT Require Import Model.Bytes Model.ParserSkel.\nFrom Coq Require Import List Bool.\nImport ListNotations.\n")
			sb.WriteString("Definition sv := Eval vm_compute in [\n")
			for i := lo; i < hi; i++ {
				s := skObserved[i]
				var ts []string
				for _, t := range s.Tags {
					if c, ok := skTagCoq[t]; ok {
						ts = append(ts, c)
					}
				}
				sep := ";"
				if i == hi-1 {
					sep = ""
				}
				fmt.Fprintf(&sb, "  Bool.eqb (parse_skel %s) %v%s\n", gList(ts), s.Accepted, sep)
			}
			sb.WriteString("].\nPrint sv.\n")
			dir := fmt.Sprintf("%s/skel%d", o.WorkDir, sh)
			_ = os.MkdirAll(dir, 0o755)
			file := dir + "/cases.v"
			if err := os.WriteFile(file, []byte(sb.String()), 0o644); err != nil {
				errs[sh] = err
				return
			}
			out, err := coqcCmd("1200", "-Q", o.CoqDir, "DT", "-Q", dir, "SK", file).CombinedOutput()
			if err != nil {
				errs[sh] = fmt.Errorf("coqc on %s: %v\n%s", file, err, tail(string(out), 1200))
				return
			}
			k := strings.Index(string(out), "sv =")
			if k < 0 {
				errs[sh] = fmt.Errorf("skeleton model: no result in coqc output for %s", file)
				return
			}
			verdicts[sh] = regexp.MustCompile(`true|false`).FindAllString(string(out[k:]), -1)
			if len(verdicts[sh]) != hi-lo {
				errs[sh] = fmt.Errorf("skeleton model: %d verdicts for %d skeletons", len(verdicts[sh]), hi-lo)
			}
			_ = os.RemoveAll(dir)
		}(sh, lo, hi)
	}
	wg.Wait()
	for _, e := range errs {
		if e != nil {
			return e
		}
	}
	for i, s := range skObserved {
		res.ModelEvals++
		if verdicts[i/per][i%per] != "true" {
			res.Mismatches++
			res.AddViolation(&Violation{Kind: "no-failing-input-found", Class: "correspondence", Lemma: "correspondence parse_skel (Model/ParserSkel.v) vs parseTpl/processCtl (parser.go)",
				What: fmt.Sprintf("the nesting model and the real parser disagree on skeleton %v (parser accepted=%v)", s.Tags, s.Accepted), Replay: map[string]any{"tags": s.Tags, "template": skSource(s.Tags)}})
		}
	}
	return nil
}
