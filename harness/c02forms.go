package main

import (
	"fmt"
	"strings"

	"github.com/koykov/dyntpl"
)

// C02, forms of the switch the generated syntax trees do not write: the default branch anywhere
// among the cases (first, in the middle, last) and more than one matching case.  The branch
// rendered is the first case, in template order, whose value equals the argument, and the default
// only if there is none — wherever the default is written.  Expected text computed here.
func runSwitchForms(res *Result, rng *RNG, n int) {
	for c := 0; c < n; c++ {
		arg := int64(rng.Intn(6))
		nc := 2 + rng.Intn(4)
		defAt := rng.Intn(nc + 1) // position of the default among the cases; nc = last
		hasDef := rng.Chance(85)
		strArg := rng.Chance(30)
		var sb strings.Builder
		if strArg {
			sb.WriteString("[{% switch s %}")
		} else {
			sb.WriteString("[{% switch n %}")
		}
		want := ""
		matched := false
		for i := 0; i <= nc; i++ {
			if i == defAt && hasDef {
				sb.WriteString("{% default %}D")
			}
			if i == nc {
				break
			}
			v := int64(rng.Intn(6))
			if strArg {
				fmt.Fprintf(&sb, `{%% case "v%d" %%}<%d:%d>`, v, i, v)
			} else {
				fmt.Fprintf(&sb, "{%% case %d %%}<%d:%d>", v, i, v)
			}
			if v == arg && !matched {
				matched = true
				want = fmt.Sprintf("<%d:%d>", i, v)
			}
		}
		sb.WriteString("{% endswitch %}]")
		if !matched && hasDef {
			want = "D"
		}
		want = "[" + want + "]"
		src := sb.String()
		key, po := tplKey(src, false)
		res.Evaluations++
		res.Hist(fmt.Sprintf("switch-forms:default-at=%v", map[bool]any{true: defAt, false: "none"}[hasDef]))
		if po.ErrClass() != "OK" {
			res.Hist("switch-forms:parse-" + po.ErrClass())
			continue
		}
		ctx := dyntpl.NewCtx()
		for round := 0; round < 2; round++ {
			num := int(arg)
			ctx.SetStatic("n", &num)
			ctx.SetString("s", fmt.Sprintf("v%d", arg))
			obs := Render(key, ctx)
			ctx.Reset()
			if obs.ErrClass() == "OK" && string(obs.Out) == want {
				continue
			}
			res.OracleFails++
			res.AddViolation(&Violation{Kind: "failing-input", Class: "switch-forms",
				What:   fmt.Sprintf("template %q with argument %d renders %q (%s %s) but the first case equal to the argument (the default only when there is none) is %q", src, arg, obs.Out, obs.ErrClass(), obs.Err, want),
				Replay: map[string]any{"template": src, "argument": arg, "observed": string(obs.Out), "expected": want}})
			break
		}
		res.Distinct("swf:" + src + fmt.Sprint(arg))
	}
}

// A condition helper written without an argument judges nothing: whatever it answers, it answers
// the same after helpers and modifiers that were given arguments as on its own (the engine keeps
// one argument buffer for all of them).
func runHelperIndependence(res *Result) {
	for _, h := range []string{"lenEq0", "lenGt0", "lenGtq0"} {
		frag := fmt.Sprintf("{%% if %s() %%}B{%% else %%}C{%% endif %%}", h)
		swfrag := fmt.Sprintf("{%% switch %%}{%% case %s() %%}B{%% default %%}C{%% endswitch %%}", h)
		for _, fr := range []string{frag, swfrag} {
			heads := []string{"", "{% if lenGt0(name) %}A{% else %}a{% endif %}", "{% if lenEq0(empty) %}A{% else %}a{% endif %}", `{%= name|default("x") %}`, `{%= empty|default(name) %}`,
				"{% switch %}{% case lenEq0(name) %}A{% case lenGt0(name) %}a{% endswitch %}"}
			var alone string
			for i, head := range heads {
				src := head + "|" + fr
				key, po := tplKey(src, false)
				res.Evaluations++
				res.Hist("helper-independence")
				if po.ErrClass() != "OK" {
					continue
				}
				ctx := dyntpl.NewCtx()
				ctx.SetString("name", "John")
				ctx.SetStatic("empty", "")
				obs := Render(key, ctx)
				tail := string(obs.Out)
				if k := strings.LastIndex(tail, "|"); k >= 0 {
					tail = tail[k+1:]
				}
				if i == 0 {
					alone = tail + "/" + obs.Err
					continue
				}
				if tail+"/"+obs.Err != alone {
					res.OracleFails++
					res.AddViolation(&Violation{Kind: "failing-input", Class: "helper:depends-on-earlier-arguments",
						What:   fmt.Sprintf("template %q renders %q (err=%q): the helper without argument answers %q here but %q on its own", src, obs.Out, obs.Err, tail+"/"+obs.Err, alone),
						Replay: map[string]any{"template": src, "observed": string(obs.Out), "alone": alone}})
				}
			}
		}
	}
}
