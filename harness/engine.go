package main

import (
	"bytes"
	"fmt"
	"runtime/debug"
	"strings"
	"sync"
	"sync/atomic"
	"time"

	"github.com/koykov/dyntpl"
)

var tplSeq int64

// Obs is what one call into the engine showed.
type Obs struct {
	Out   []byte
	Err   string // "" = nil error
	Panic string // non-empty: recovered panic
	Frame string // innermost non-runtime function of the panic
	Hang  bool
}

func (o Obs) ErrClass() string {
	switch {
	case o.Hang:
		return "HANG"
	case o.Panic != "":
		return "PANIC"
	case o.Err != "":
		return "ERR"
	}
	return "OK"
}

// guarded runs f with panic recovery and a watchdog.
// hangCount: calls that did not come back.  Each leaves a goroutine spinning or blocked inside the
// engine, so after a few of them the watchdog gets shorter, and after many the remaining calls are
// not made at all (the first ones are the report; a check must end in minutes on any tree).
var hangCount int64

func guarded(timeout time.Duration, f func() ([]byte, error)) Obs {
	switch n := atomic.LoadInt64(&hangCount); {
	case n >= 30:
		return Obs{Hang: true}
	case n >= 4 && timeout > time.Second:
		timeout = time.Second
	}
	ch := make(chan Obs, 1)
	go func() {
		var o Obs
		defer func() {
			if p := recover(); p != nil {
				st := string(debug.Stack())
				o.Panic = fmt.Sprintf("%v\n%s", p, trimStack(st))
				o.Frame = panicFrame(st)
			}
			ch <- o
		}()
		out, err := f()
		o.Out = append([]byte(nil), out...)
		if err != nil {
			o.Err = err.Error()
		}
	}()
	select {
	case o := <-ch:
		return o
	case <-time.After(timeout):
		atomic.AddInt64(&hangCount, 1)
		return Obs{Hang: true}
	}
}

// panicFrame: the innermost frame below the panic that is not in the Go runtime.
func panicFrame(st string) string {
	lines := strings.Split(st, "\n")
	seenPanic := false
	for _, l := range lines {
		if strings.HasPrefix(l, "panic(") {
			seenPanic = true
			continue
		}
		if !seenPanic || strings.HasPrefix(l, "\t") || l == "" {
			continue
		}
		fn := l
		if i := strings.LastIndex(fn, "("); i > 0 {
			fn = fn[:i]
		}
		if strings.HasPrefix(fn, "runtime.") || strings.HasPrefix(fn, "runtime/") {
			continue
		}
		return fn
	}
	return ""
}

// InRepo: the panic was raised by dyntpl's own code (not by a library it calls).
func (o Obs) InRepo() bool {
	return strings.HasPrefix(o.Frame, "github.com/koykov/dyntpl.") || strings.HasPrefix(o.Frame, "github.com/koykov/dyntpl/")
}

func trimStack(s string) string {
	lines := strings.Split(s, "\n")
	var keep []string
	for _, l := range lines {
		if strings.Contains(l, "koykov/") || strings.Contains(l, "/repo/") {
			keep = append(keep, strings.TrimSpace(l))
		}
		if len(keep) > 8 {
			break
		}
	}
	return strings.Join(keep, " | ")
}

func tplSeqNext() int64 { return atomic.AddInt64(&tplSeq, 1) }

// ParseReg parses src and registers it under a fresh key.
func ParseReg(src []byte, keepFmt bool) (key string, o Obs) {
	key = fmt.Sprintf("vh%d", atomic.AddInt64(&tplSeq, 1))
	var dump []dyntpl.VerifNode
	o = guarded(5*time.Second, func() ([]byte, error) {
		tree, err := dyntpl.Parse(src, keepFmt)
		if err != nil {
			return nil, err
		}
		if pmRecord {
			dump = dyntpl.VerifTree(tree)
		}
		dyntpl.RegisterTplKey(key, tree)
		return nil, nil
	})
	pmObserve(src, keepFmt, o, dump)
	keySrc.Store(key, string(src))
	return
}

// keySrc: template key -> source, and the templates whose render did not return (what memoryGuard
// reports when such renders take the process down)
var (
	keySrc  sync.Map
	hangMu  sync.Mutex
	hangSrc []string
)

func noteHang(key string) {
	src, _ := keySrc.Load(key)
	s, _ := src.(string)
	hangMu.Lock()
	if len(hangSrc) < 5 {
		hangSrc = append(hangSrc, s)
	}
	hangMu.Unlock()
}

// Render renders key with ctx into a fresh buffer.
func Render(key string, ctx *dyntpl.Ctx) Obs {
	return guarded(5*time.Second, func() ([]byte, error) {
		var buf bytes.Buffer
		err := dyntpl.Write(&buf, key, ctx)
		return buf.Bytes(), err
	})
}
