package main

import (
	"bytes"
	"fmt"
	"os"
	"os/exec"
	"regexp"
	"strings"
	"time"

	"github.com/koykov/dyntpl"
)

// Histories on one context (C05, C18): set variables, render, reset / release+acquire.

type hStep struct {
	Kind   string // "render" | "reset" | "release"
	IC     *interpCase
	Key    string
	Obs    Obs
	Events []string // converted events of this step
	Writes int      // Write calls of the outermost writer during this step
	Fresh  Obs      // render: the same segment replayed on a new context
}

type history struct {
	Steps   []*hStep
	Reg     map[string][]dyntpl.VerifNode
	RegKeys []string
	Flits   map[string]float64
	Budget  int
	Verdict []string
}

// logWriter marks every Write call of the outermost writer in the harness log.
type logWriter struct {
	buf bytes.Buffer
	n   int
}

func (l *logWriter) Write(p []byte) (int, error) {
	harnessLog.add("w")
	l.n++
	return l.buf.Write(p)
}

func convertEvents(raw []string) []string {
	n := 0
	var out []string
	for _, e := range raw {
		switch {
		case e == "w":
			n++
		case strings.HasPrefix(e, "defer:"):
			out = append(out, "EvDefer "+gBytes([]byte(e[6:])))
		case strings.HasPrefix(e, "run:"):
			out = append(out, fmt.Sprintf("EvRun %s %s", gBytes([]byte(e[4:])), gNat(n)))
		case strings.HasPrefix(e, "acquire:"):
			out = append(out, fmt.Sprintf("EvAcquire %s %s", gBytes([]byte(e[8:])), gNat(n)))
		case strings.HasPrefix(e, "put:"):
			out = append(out, "EvRelease "+gBytes([]byte(e[4:])))
		case strings.HasPrefix(e, "reset:"):
			// Reset then Put: one release
		}
	}
	return out
}

func renderOn(ctx *dyntpl.Ctx, key string, data *DataEnv) (Obs, []string) {
	o, e, _ := renderOnW(ctx, key, data)
	return o, e
}

func renderOnW(ctx *dyntpl.Ctx, key string, data *DataEnv) (Obs, []string, int) {
	harnessLog.take()
	lw := &logWriter{}
	obs := guarded(5*time.Second, func() ([]byte, error) {
		data.Apply(ctx)
		err := dyntpl.Write(lw, key, ctx)
		return nil, err
	})
	obs.Out = append([]byte(nil), lw.buf.Bytes()...)
	return obs, convertEvents(harnessLog.take()), lw.n
}

func genHistoryCase(id int, rng *RNG, prof *Profile, steps int) *history {
	h := &history{Reg: map[string][]dyntpl.VerifNode{}, Flits: map[string]float64{}, Budget: 8}
	// a pool of templates for this history
	var pool []*interpCase
	for len(pool) < 4 {
		ic := genInterpCase(id*100+len(pool), rng.Fork(), prof)
		key, dump, po := parseDump([]byte(ic.vc.Src), false)
		if po.ErrClass() != "OK" {
			continue
		}
		ic.vc.Tree = dump
		ic.vc.Meta["key"] = key
		for _, k := range ic.vc.RegKeys {
			h.Reg[k] = ic.vc.Reg[k]
			h.RegKeys = append(h.RegKeys, k)
		}
		for k, f := range ic.vc.Flits {
			h.Flits[k] = f
		}
		if ic.vc.Budget > h.Budget {
			h.Budget = ic.vc.Budget
		}
		pool = append(pool, ic)
	}
	for i := 0; i < steps; i++ {
		if i > 0 && rng.Chance(35) {
			h.Steps = append(h.Steps, &hStep{Kind: []string{"reset", "release"}[rng.Intn(2)]})
		}
		ic := pool[rng.Intn(len(pool))]
		h.Steps = append(h.Steps, &hStep{Kind: "render", IC: ic, Key: ic.vc.Meta["key"].(string)})
	}
	h.Steps = append(h.Steps, &hStep{Kind: "reset"})
	return h
}

// run executes the history on one context, and every reset-delimited segment again on a new context.
func (h *history) run() {
	ctx := dyntpl.AcquireCtx()
	ctx.Reset()
	segStart := 0
	replay := func(upto int) {
		fresh := dyntpl.NewCtx()
		for j := segStart; j <= upto; j++ {
			if h.Steps[j].Kind == "render" {
				h.Steps[j].Fresh, _ = renderOn(fresh, h.Steps[j].Key, h.Steps[j].IC.vc.Data)
			}
		}
		harnessLog.take()
		fresh.Reset()
		harnessLog.take()
	}
	last := -1
	for i, s := range h.Steps {
		switch s.Kind {
		case "render":
			s.Obs, s.Events, s.Writes = renderOnW(ctx, s.Key, s.IC.vc.Data)
			last = i
		case "reset", "release":
			if last >= segStart {
				replay(last)
			}
			harnessLog.take()
			if s.Kind == "release" {
				dyntpl.ReleaseCtx(ctx)
				ctx = dyntpl.AcquireCtx()
			} else {
				ctx.Reset()
			}
			s.Events = convertEvents(harnessLog.take())
			segStart = i + 1
		}
	}
	dyntpl.ReleaseCtx(ctx)
	harnessLog.take()
}

func (h *history) gallina(id int) string {
	var sb strings.Builder
	fmt.Fprintf(&sb, "Definition h%d : hcase := mkHCase\n", id)
	var regs []string
	for _, k := range h.RegKeys {
		regs = append(regs, fmt.Sprintf("(%s, %s)", gBytes([]byte(k)), gNodes(h.Reg[k])))
	}
	var fl []string
	for k, f := range h.Flits {
		fl = append(fl, fmt.Sprintf("(%s, %d%%Z)", gBytes([]byte(k)), float64bits(f)))
	}
	fmt.Fprintf(&sb, "  %s\n  %s %s\n", gList(regs), gList(fl), gNat(h.Budget))
	var steps []string
	for _, s := range h.Steps {
		switch s.Kind {
		case "render":
			steps = append(steps, s.IC.vc.Data.HSteps()...)
			steps = append(steps, fmt.Sprintf("HRender %s %s %d%%N %s", gNodes(s.IC.vc.Tree), gBytes(s.Obs.Out), errCode(s.Obs), gList(s.Events)))
		default:
			steps = append(steps, "HReset "+gList(s.Events))
		}
	}
	fmt.Fprintf(&sb, "  %s.\n", gList(steps))
	return sb.String()
}

var reHVerdict = regexp.MustCompile(`HOk|HSkip|HBad\s+"([0-9a-f]*)"\s+(\d+)\s+(\d+)`)

// runHistories evaluates the histories in the model (V-mode).
func runHistories(o *Options, hs []*history) error {
	const shard = 25
	for lo := 0; lo < len(hs); lo += shard {
		hi := lo + shard
		if hi > len(hs) {
			hi = len(hs)
		}
		var sb strings.Builder
		sb.WriteString("From Coq Require Import String.\nFrom DT Require Import Model.Bytes Model.Value Model.Tree Model.Interp Model.VCase.\nLocal Open Scope string_scope.\n")
		var names []string
		for i := lo; i < hi; i++ {
			sb.WriteString(hs[i].gallina(i))
			names = append(names, fmt.Sprintf("run_history h%d", i))
		}
		fmt.Fprintf(&sb, "Definition hverdicts := Eval vm_compute in %s.\nPrint hverdicts.\n", gList(names))
		dir := fmt.Sprintf("%s/hist%d", o.WorkDir, lo)
		_ = os.MkdirAll(dir, 0o755)
		file := dir + "/cases.v"
		if err := os.WriteFile(file, []byte(sb.String()), 0o644); err != nil {
			return err
		}
		out, err := exec.Command("timeout", "1200", "coqc", "-Q", o.CoqDir, "DT", "-Q", dir, "HCases", file).CombinedOutput()
		if err != nil {
			return fmt.Errorf("coqc on %s: %v\n%s", file, err, tail(string(out), 1500))
		}
		// the printed value is a list of lists; split per history on "];" boundaries by counting expected verdicts
		ms := reHVerdict.FindAllStringSubmatch(string(out), -1)
		k := 0
		for i := lo; i < hi; i++ {
			// expected number of verdicts: one per render/reset step, unless a skip cut the history short
			want := 0
			for _, s := range hs[i].Steps {
				_ = s
				want++
			}
			hs[i].Verdict = nil
			for j := 0; j < want && k < len(ms); j++ {
				m := ms[k]
				k++
				switch {
				case m[0] == "HOk":
					hs[i].Verdict = append(hs[i].Verdict, "ok")
				case m[0] == "HSkip":
					hs[i].Verdict = append(hs[i].Verdict, "skip")
					j = want // the model stops judging this history
				default:
					hs[i].Verdict = append(hs[i].Verdict, fmt.Sprintf("bad -%s %s %s", m[1], m[2], m[3]))
				}
			}
		}
		if k != len(ms) {
			return fmt.Errorf("coqc on %s: %d verdicts parsed, %d consumed", file, len(ms), k)
		}
	}
	return nil
}
