package main

import (
	"bytes"
	"fmt"
	"os"
	"regexp"
	"strings"
	"time"

	"github.com/koykov/dyntpl"
)

// Histories on one context (C05, C18): set variables, render, reset / release+acquire.

type hStep struct {
	Kind   string // "render" | "reset" | "release"
	IC     *interpCase
	Key    string
	Obs    Obs
	Events []string // converted events of this step
	Writes int      // Write calls of the outermost writer during this step
	Fresh  Obs      // render: the same segment replayed on a new context
	Fail   int      // render: the outermost writer refuses its Fail-th write (0 = never) ...
	Short  int      // ... after taking Short bytes of it

	retained []byte // the slice Render returned, kept without copying
	Altered  string // non-empty: what the retained slice had become by the end of the history
}

type history struct {
	Steps   []*hStep
	Reg     map[string][]dyntpl.VerifNode
	RegKeys []string
	Flits   map[string]float64
	Budget  int
	Verdict []string
	// UseRender: every other render goes through Render (not Write) and keeps the returned slice
	UseRender bool
}

// logWriter marks every Write call of the outermost writer in the harness log.
type logWriter struct {
	buf         bytes.Buffer
	n           int
	fail, short int // refuse the fail-th write after short bytes (0 = accept everything)
}

func (l *logWriter) Write(p []byte) (int, error) {
	harnessLog.add("w")
	l.n++
	if l.fail == 0 || l.n < l.fail {
		return l.buf.Write(p)
	}
	if l.n == l.fail {
		k := l.short
		if k > len(p) {
			k = len(p)
		}
		l.buf.Write(p[:k])
		return k, errInjected
	}
	return 0, errInjected
}

func convertEvents(raw []string) []string {
	n := 0
	var out []string
	for _, e := range raw {
		switch {
		case e == "w":
			n++
		case strings.HasPrefix(e, "defer:"):
			out = append(out, "EvDefer "+gBytes([]byte(e[6:])))
		case strings.HasPrefix(e, "run:"):
			out = append(out, fmt.Sprintf("EvRun %s %s", gBytes([]byte(e[4:])), gNat(n)))
		case strings.HasPrefix(e, "acquire:"):
			out = append(out, fmt.Sprintf("EvAcquire %s %s", gBytes([]byte(e[8:])), gNat(n)))
		case strings.HasPrefix(e, "put:"):
			out = append(out, "EvRelease "+gBytes([]byte(e[4:])))
		case strings.HasPrefix(e, "reset:"):
			// Reset then Put: one release
		}
	}
	return out
}

func renderOn(ctx *dyntpl.Ctx, key string, data *DataEnv) (Obs, []string) {
	o, e, _ := renderOnW(ctx, key, data, 0, 0)
	return o, e
}

func renderOnW(ctx *dyntpl.Ctx, key string, data *DataEnv, fail, short int) (Obs, []string, int) {
	harnessLog.take()
	lw := &logWriter{fail: fail, short: short}
	obs := guarded(5*time.Second, func() ([]byte, error) {
		data.Apply(ctx)
		err := dyntpl.Write(lw, key, ctx)
		return nil, err
	})
	obs.Out = append([]byte(nil), lw.buf.Bytes()...)
	return obs, convertEvents(harnessLog.take()), lw.n
}

func genHistoryCase(id int, rng *RNG, prof *Profile, steps int) *history {
	h := &history{Reg: map[string][]dyntpl.VerifNode{}, Flits: map[string]float64{}, Budget: 8}
	// a pool of templates for this history
	var pool []*interpCase
	for len(pool) < 4 {
		ic := genInterpCase(id*100+len(pool), rng.Fork(), prof)
		key, dump, po := parseDump([]byte(ic.vc.Src), false)
		if po.ErrClass() != "OK" {
			continue
		}
		ic.vc.Tree = dump
		ic.vc.Meta["key"] = key
		for _, k := range ic.vc.RegKeys {
			h.Reg[k] = ic.vc.Reg[k]
			h.RegKeys = append(h.RegKeys, k)
		}
		for k, f := range ic.vc.Flits {
			h.Flits[k] = f
		}
		if ic.vc.Budget > h.Budget {
			h.Budget = ic.vc.Budget
		}
		pool = append(pool, ic)
	}
	for i := 0; i < steps; i++ {
		if i > 0 && rng.Chance(35) {
			h.Steps = append(h.Steps, &hStep{Kind: []string{"reset", "release"}[rng.Intn(2)]})
		}
		ic := pool[rng.Intn(len(pool))]
		st := &hStep{Kind: "render", IC: ic, Key: ic.vc.Meta["key"].(string)}
		if rng.Chance(18) {
			// the writer refuses one of the first writes of this render; the context is used further
			st.Fail, st.Short = 1+rng.Intn(6), rng.Intn(3)
		}
		h.Steps = append(h.Steps, st)
	}
	h.Steps = append(h.Steps, &hStep{Kind: "reset"})
	return h
}

// run executes the history on one context, and every reset-delimited segment again on a new context.
func (h *history) run() {
	ctx := dyntpl.AcquireCtx()
	ctx.Reset()
	segStart := 0
	replay := func(upto int) {
		fresh := dyntpl.NewCtx()
		for j := segStart; j <= upto; j++ {
			if h.Steps[j].Kind == "render" {
				h.Steps[j].Fresh, _, _ = renderOnW(fresh, h.Steps[j].Key, h.Steps[j].IC.vc.Data, h.Steps[j].Fail, h.Steps[j].Short)
			}
		}
		harnessLog.take()
		fresh.Reset()
		harnessLog.take()
	}
	last := -1
	for i, s := range h.Steps {
		switch s.Kind {
		case "render":
			if h.UseRender && i%2 == 1 && s.Fail == 0 {
				harnessLog.take()
				key, data := s.Key, s.IC.vc.Data
				var ret []byte
				s.Obs = guarded(5*time.Second, func() ([]byte, error) {
					data.Apply(ctx)
					// the entry points that hand out bytes, in turn
					var out []byte
					var err error
					switch (i / 2) % 3 {
					case 0:
						out, err = dyntpl.Render(key, ctx)
					case 1:
						out, err = dyntpl.RenderFallback(key, "no-such-fallback-template", ctx)
					default:
						out, err = dyntpl.RenderFallback("no-such-primary-template", key, ctx)
					}
					ret = out
					return out, err
				})
				s.retained = ret
				s.Events = convertEvents(harnessLog.take())
			} else {
				s.Obs, s.Events, s.Writes = renderOnW(ctx, s.Key, s.IC.vc.Data, s.Fail, s.Short)
			}
			last = i
		case "reset", "release":
			if last >= segStart {
				replay(last)
			}
			harnessLog.take()
			if s.Kind == "release" {
				dyntpl.ReleaseCtx(ctx)
				ctx = dyntpl.AcquireCtx()
			} else {
				ctx.Reset()
			}
			s.Events = convertEvents(harnessLog.take())
			segStart = i + 1
		}
	}
	dyntpl.ReleaseCtx(ctx)
	harnessLog.take()
	// bytes handed out by earlier renders must still read the same
	for _, s := range h.Steps {
		if s.retained != nil && !bytes.Equal(s.retained, s.Obs.Out) {
			s.Altered = string(s.retained)
		}
	}
}

func (h *history) gallina(id int) string {
	var sb strings.Builder
	fmt.Fprintf(&sb, "Definition h%d : hcase := mkHCase\n", id)
	var regs []string
	for _, k := range h.RegKeys {
		regs = append(regs, fmt.Sprintf("(%s, %s)", gBytes([]byte(k)), gNodes(h.Reg[k])))
	}
	var fl []string
	for k, f := range h.Flits {
		fl = append(fl, fmt.Sprintf("(%s, %d%%Z)", gBytes([]byte(k)), float64bits(f)))
	}
	fmt.Fprintf(&sb, "  %s\n  %s %s\n", gList(regs), gList(fl), gNat(h.Budget))
	var steps []string
	for _, s := range h.Steps {
		switch s.Kind {
		case "render":
			steps = append(steps, s.IC.vc.Data.HSteps()...)
			if s.Fail > 0 {
				steps = append(steps, fmt.Sprintf("HRenderF %s %s %s %s %d%%N %s", gNodes(s.IC.vc.Tree), gNat(s.Fail), gNat(s.Short), gBytes(s.Obs.Out), errCode(s.Obs), gList(s.Events)))
			} else {
				steps = append(steps, fmt.Sprintf("HRender %s %s %d%%N %s", gNodes(s.IC.vc.Tree), gBytes(s.Obs.Out), errCode(s.Obs), gList(s.Events)))
			}
		default:
			steps = append(steps, "HReset "+gList(s.Events))
		}
	}
	fmt.Fprintf(&sb, "  %s.\n", gList(steps))
	return sb.String()
}

var reHVerdict = regexp.MustCompile(`HOk|HSkip|HBad\s+"([0-9a-f]*)"\s+(\d+)\s+(\d+)`)

// runHistories evaluates the histories in the model (V-mode).
func runHistories(o *Options, hs []*history) error {
	const shard = 25
	for lo := 0; lo < len(hs); lo += shard {
		hi := lo + shard
		if hi > len(hs) {
			hi = len(hs)
		}
		var sb strings.Builder
		sb.WriteString("From Coq Require Import String.\nFrom DT Require Import Model.Bytes Model.Value Model.Tree Model.Interp Model.VCase.\nLocal Open Scope string_scope.\n")
		var names []string
		for i := lo; i < hi; i++ {
			sb.WriteString(hs[i].gallina(i))
			names = append(names, fmt.Sprintf("run_history h%d", i))
		}
		fmt.Fprintf(&sb, "Definition hverdicts := Eval vm_compute in %s.\nPrint hverdicts.\n", gList(names))
		dir := fmt.Sprintf("%s/hist%d", o.WorkDir, lo)
		_ = os.MkdirAll(dir, 0o755)
		file := dir + "/cases.v"
		if err := os.WriteFile(file, []byte(sb.String()), 0o644); err != nil {
			return err
		}
		out, err := coqcCmd("1200", "-Q", o.CoqDir, "DT", "-Q", dir, "HCases", file).CombinedOutput()
		if err != nil {
			return fmt.Errorf("coqc on %s: %v\n%s", file, err, tail(string(out), 1500))
		}
		// the printed value is a list of lists; split per history on "];" boundaries by counting expected verdicts
		ms := reHVerdict.FindAllStringSubmatch(string(out), -1)
		k := 0
		for i := lo; i < hi; i++ {
			// expected number of verdicts: one per render/reset step, unless a skip cut the history short
			want := 0
			for _, s := range hs[i].Steps {
				_ = s
				want++
			}
			hs[i].Verdict = nil
			for j := 0; j < want && k < len(ms); j++ {
				m := ms[k]
				k++
				switch {
				case m[0] == "HOk":
					hs[i].Verdict = append(hs[i].Verdict, "ok")
				case m[0] == "HSkip":
					hs[i].Verdict = append(hs[i].Verdict, "skip")
					j = want // the model stops judging this history
				default:
					hs[i].Verdict = append(hs[i].Verdict, fmt.Sprintf("bad -%s %s %s", m[1], m[2], m[3]))
				}
			}
		}
		if k != len(ms) {
			return fmt.Errorf("coqc on %s: %d verdicts parsed, %d consumed", file, len(ms), k)
		}
	}
	return nil
}

// ---- slot transitions: every ordered pair of variable kinds meets in one slot across a reset

var slotKinds = []string{"int", "int64", "int8", "uint", "uint32", "float", "bool", "string", "bytes", "nil", "setbytes", "setstring", "counter"}

func slotVar(name, kind string, r *RNG, emptyish bool) StaticVar {
	v := StaticVar{Name: name, Kind: kind, Ptr: r.Chance(70)}
	switch kind {
	case "int", "int64", "int8":
		v.I = []int64{5, 7, -1, 100}[r.Intn(4)]
		if emptyish {
			v.I = 0
		}
	case "uint", "uint32":
		v.U = []uint64{5, 42, 1}[r.Intn(3)]
		if emptyish {
			v.U = 0
		}
	case "float":
		v.F = []float64{2.25, 12.5, -0.5}[r.Intn(3)]
		if emptyish {
			v.F = 0
		}
	case "bool":
		v.B = !emptyish
	case "string", "bytes", "setbytes", "setstring":
		v.S = []byte([]string{"abc", "John", "x y"}[r.Intn(3)])
		if emptyish {
			v.S = []byte{}
		}
	case "counter":
		v.I = int64(3 + r.Intn(5))
		if emptyish {
			v.I = 0
		}
	}
	return v
}

func manualCase(id int, src string, data *DataEnv, h *history) *interpCase {
	key, dump, po := parseDump([]byte(src), false)
	if po.ErrClass() != "OK" {
		panic("slot template does not parse: " + src + ": " + po.Err + po.Panic)
	}
	vc := &VCase{ID: id, Src: src, Data: data, Flits: map[string]float64{}, Reg: map[string][]dyntpl.VerifNode{}, Meta: map[string]any{"key": key}, Tree: dump, Budget: 8}
	return &interpCase{vc: vc, tags: map[string]bool{}}
}

// genSlotHistory: first segment leaves kind a (and template-made counters / ctx variables) in the
// low slots; after a reset or a pool round trip the same slots take kind b, mostly with empty values.
func genSlotHistory(id int, rng *RNG, a, b string) *history {
	h := &history{Reg: map[string][]dyntpl.VerifNode{}, Flits: map[string]float64{}, Budget: 8}
	d1 := &DataEnv{Statics: []StaticVar{slotVar("s0", a, rng, false), slotVar("s1", a, rng, false)}}
	t1 := []string{
		`<{%= s0 %}|{%= s1 %}>{% counter k1 = 7 %}{% counter k1++ %}{%= k1 %}`,
		`<{%= s1 %}>{% ctx x1 = s0 %}{%= x1 %}{% counter k1 = 3 %}{%= k1 %}`,
		`{% counter k1 = 4 %}{% counter k2 = 9 %}{% counter k2++ %}<{%= s0 %}{%= k1 %}{%= k2 %}>`,
	}[rng.Intn(3)]
	others := []string{"nil", "setstring", "string", "setbytes", "bytes", "counter", "int"}
	d2 := &DataEnv{Statics: []StaticVar{
		slotVar("s0", b, rng, rng.Chance(60)), slotVar("s1", b, rng, rng.Chance(60)),
		slotVar("s2", others[rng.Intn(len(others))], rng, rng.Chance(80)),
		slotVar("s3", others[rng.Intn(len(others))], rng, rng.Chance(80)),
		slotVar("s4", b, rng, rng.Chance(60))}}
	if rng.Bool() { // other names in the same slots
		for i := range d2.Statics {
			d2.Statics[i].Name = fmt.Sprintf("t%d", i)
		}
	}
	n := func(i int) string { return d2.Statics[i].Name }
	t2 := fmt.Sprintf(`[{%%= %s %%}|{%%= %s %%}|{%%= %s pfx p= sfx ; %%}|{%%= %s %%}|{%%= %s %%}]`, n(0), n(1), n(2), n(3), n(4))
	ic1 := manualCase(id*10, t1, d1, h)
	ic2 := manualCase(id*10+1, t2, d2, h)
	sep := []string{"reset", "release"}[rng.Intn(2)]
	h.Steps = []*hStep{
		{Kind: "render", IC: ic1, Key: ic1.vc.Meta["key"].(string)},
		{Kind: sep},
		{Kind: "render", IC: ic2, Key: ic2.vc.Meta["key"].(string)},
		{Kind: "reset"},
	}
	return h
}
