package main

import (
	"encoding/json"
	"fmt"
	"go/ast"
	"go/parser"
	"go/token"
	"os"
	"path/filepath"
	"regexp/syntax"
	"sort"
	"strconv"
	"strings"
	"unicode"
)

// The regular expressions of /repo's parser, regenerated on every run: every package-level
// `name = regexp.MustCompile(<string literals>)` of the non-test sources is parsed with Go's own
// regexp/syntax (the parser regexp.MustCompile uses, same flags) and printed as a term of
// Model/Regex.v's [re].  The matcher is Gallina; which expression is matched is what the source says now.

// the expressions Model/ParserRe.v's record has a field for (what the parser model reads)
var modelRegexes = []string{"reCutComments", "reCutFmt", "reTplPS", "reTplP", "reTplS", "reTpl", "reTplCB", "reTplTernary", "reTplTernaryHelper", "reTplTernaryCondExpr", "reModPfxF", "reModNoVar", "reMod", "reCtxAs", "reCtxDot", "reCtx", "reCtxS0", "reCtxS1", "reCntr", "reCntrInit", "reCntrOp0", "reCntrOp1", "reCond", "reCondExpr", "reCondHelper", "reCondComplex", "reCondOK", "reCondAsOK", "reCondDotOK", "reCondExprOK", "reLoop", "reLoopRange", "reLoopCount", "reLoopBrkN", "reLoopLBrkN", "reLoopBrkIf", "reLoopBrkNIf", "reLoopLBrkIf", "reLoopLBrkNIf", "reLoopContIf", "reSwitch", "reSwitchCase", "reSwitchCaseHelper", "reInc", "isStaticRE"}

type srcRegex struct {
	Name string
	File string
	Expr string
}

func repoDirOf() string {
	if d := os.Getenv("VH_REPO_DEV"); d != "" {
		return d // development only: the registered checks always read /repo
	}
	return "/repo"
}

// stringOf evaluates a constant string expression made of literals and "+".
func stringOf(e ast.Expr) (string, bool) {
	switch x := e.(type) {
	case *ast.BasicLit:
		if x.Kind != token.STRING {
			return "", false
		}
		s, err := strconv.Unquote(x.Value)
		return s, err == nil
	case *ast.BinaryExpr:
		if x.Op != token.ADD {
			return "", false
		}
		a, ok1 := stringOf(x.X)
		b, ok2 := stringOf(x.Y)
		return a + b, ok1 && ok2
	case *ast.ParenExpr:
		return stringOf(x.X)
	}
	return "", false
}

func collectRegexes(dir string) ([]srcRegex, error) {
	matches, _ := filepath.Glob(dir + "/*.go")
	sort.Strings(matches)
	fset := token.NewFileSet()
	var out []srcRegex
	for _, fn := range matches {
		if strings.HasSuffix(fn, "_test.go") || strings.HasSuffix(fn, "verif_hooks.go") {
			continue
		}
		f, err := parser.ParseFile(fset, fn, nil, 0)
		if err != nil {
			return nil, err
		}
		for _, d := range f.Decls {
			gd, ok := d.(*ast.GenDecl)
			if !ok || gd.Tok != token.VAR {
				continue
			}
			for _, sp := range gd.Specs {
				vs, ok := sp.(*ast.ValueSpec)
				if !ok {
					continue
				}
				for i, v := range vs.Values {
					call, ok := v.(*ast.CallExpr)
					if !ok || len(call.Args) != 1 || i >= len(vs.Names) {
						continue
					}
					sel, ok := call.Fun.(*ast.SelectorExpr)
					if !ok || sel.Sel.Name != "MustCompile" {
						continue
					}
					if id, ok := sel.X.(*ast.Ident); !ok || id.Name != "regexp" {
						continue
					}
					s, ok := stringOf(call.Args[0])
					if !ok {
						return nil, fmt.Errorf("%s: %s is not compiled from string literals", filepath.Base(fn), vs.Names[i].Name)
					}
					out = append(out, srcRegex{Name: vs.Names[i].Name, File: filepath.Base(fn), Expr: s})
				}
			}
		}
	}
	return out, nil
}

// byte image of a rune class: ASCII ranges as they are; a range reaching beyond ASCII must cover
// all of it (then every byte >= 0x80 belongs to the class).
func classBytes(rs []rune) (string, error) {
	var items []string
	high := false
	for i := 0; i+1 < len(rs); i += 2 {
		lo, hi := rs[i], rs[i+1]
		if lo > 0x7f {
			high = true
			continue
		}
		if hi > 0x7f {
			if lo <= 0x7f {
				items = append(items, fmt.Sprintf("(%d, 127)", lo))
			}
			high = true
			continue
		}
		items = append(items, fmt.Sprintf("(%d, %d)", lo, hi))
	}
	if high {
		// the non-ASCII part must be everything from 0x80 to MaxRune (surrogates excluded by the syntax package or not)
		cover := rune(0x80)
		for i := 0; i+1 < len(rs); i += 2 {
			lo, hi := rs[i], rs[i+1]
			if hi < 0x80 {
				continue
			}
			if lo < 0x80 {
				lo = 0x80
			}
			if lo > cover {
				return "", fmt.Errorf("class covers only part of the non-ASCII range (gap at U+%04X)", cover)
			}
			if hi+1 > cover {
				cover = hi + 1
			}
		}
		if cover <= unicode.MaxRune {
			return "", fmt.Errorf("class covers only part of the non-ASCII range (ends at U+%04X)", cover-1)
		}
		items = append(items, "(128, 255)")
	}
	return "[" + strings.Join(items, "; ") + "]%N", nil
}

func gRegex(r *syntax.Regexp) (string, error) {
	greedy := func() string {
		if r.Flags&syntax.NonGreedy != 0 {
			return "false"
		}
		return "true"
	}
	sub := func(i int) (string, error) { return gRegex(r.Sub[i]) }
	switch r.Op {
	case syntax.OpNoMatch:
		return "RFail", nil
	case syntax.OpEmptyMatch:
		return "REmpty", nil
	case syntax.OpLiteral:
		var parts []string
		for _, c := range r.Rune {
			if c > 0x7f {
				return "", fmt.Errorf("non-ASCII literal")
			}
			if r.Flags&syntax.FoldCase != 0 {
				// the letter in either case (how the syntax package writes [fF]); the whole orbit must be ASCII
				var orbit []string
				for f := unicode.SimpleFold(c); ; f = unicode.SimpleFold(f) {
					if f > 0x7f {
						return "", fmt.Errorf("case-folding literal with a non-ASCII variant")
					}
					orbit = append(orbit, fmt.Sprintf("(%d, %d)", f, f))
					if f == c {
						break
					}
				}
				sort.Strings(orbit)
				parts = append(parts, fmt.Sprintf("RCls [%s]%%N", strings.Join(orbit, "; ")))
				continue
			}
			parts = append(parts, fmt.Sprintf("RCls [(%d, %d)]%%N", c, c))
		}
		return foldR("RCat", parts, "REmpty"), nil
	case syntax.OpCharClass:
		c, err := classBytes(r.Rune)
		if err != nil {
			return "", err
		}
		return "RCls " + c, nil
	case syntax.OpAnyCharNotNL:
		return "RCls [(0, 9); (11, 255)]%N", nil
	case syntax.OpAnyChar:
		return "RCls [(0, 255)]%N", nil
	case syntax.OpBeginText:
		return "RBol", nil
	case syntax.OpEndText:
		return "REol", nil
	case syntax.OpCapture:
		s, err := sub(0)
		if err != nil {
			return "", err
		}
		return fmt.Sprintf("RGroup %d (%s)", r.Cap, s), nil
	case syntax.OpStar, syntax.OpPlus, syntax.OpQuest:
		s, err := sub(0)
		if err != nil {
			return "", err
		}
		name := map[syntax.Op]string{syntax.OpStar: "RStar", syntax.OpPlus: "RPlus", syntax.OpQuest: "RQuest"}[r.Op]
		return fmt.Sprintf("%s (%s) %s", name, s, greedy()), nil
	case syntax.OpRepeat:
		s, err := sub(0)
		if err != nil {
			return "", err
		}
		var parts []string
		for i := 0; i < r.Min; i++ {
			parts = append(parts, "("+s+")")
		}
		if r.Max < 0 {
			parts = append(parts, fmt.Sprintf("RStar (%s) %s", s, greedy()))
		} else {
			// x{n,m}: n copies, then (x(x(x)?)?)? nested m-n deep
			opt := ""
			for i := r.Min; i < r.Max; i++ {
				if opt == "" {
					opt = fmt.Sprintf("RQuest (%s) %s", s, greedy())
				} else {
					opt = fmt.Sprintf("RQuest (RCat (%s) (%s)) %s", s, opt, greedy())
				}
			}
			if opt != "" {
				parts = append(parts, opt)
			}
		}
		return foldR("RCat", parts, "REmpty"), nil
	case syntax.OpConcat, syntax.OpAlternate:
		var parts []string
		for i := range r.Sub {
			s, err := sub(i)
			if err != nil {
				return "", err
			}
			parts = append(parts, s)
		}
		if r.Op == syntax.OpConcat {
			return foldR("RCat", parts, "REmpty"), nil
		}
		return foldR("RAlt", parts, "RFail"), nil
	}
	return "", fmt.Errorf("operator %v has no counterpart in Model/Regex.v", r.Op)
}

func foldR(ctor string, parts []string, unit string) string {
	if len(parts) == 0 {
		return unit
	}
	s := parts[len(parts)-1]
	for i := len(parts) - 2; i >= 0; i-- {
		s = fmt.Sprintf("%s (%s) (%s)", ctor, parts[i], s)
	}
	return s
}

// regexTableV prints the table: one definition per expression and the record the parser model reads.
func regexTableV(rs []srcRegex, defName string) (string, error) {
	var sb strings.Builder
	sb.WriteString("(* GENERATED by harness/regexgen.go from the regexp.MustCompile literals of the library's source\n   (go/ast for the literal, Go's regexp/syntax with the Perl flags for its structure). *)\n")
	sb.WriteString("From DT Require Import Model.Bytes Model.Regex Model.ParserRe.\n\n")
	var fields []string
	have := map[string]bool{}
	san := strings.NewReplacer("(*", "( *", "*)", "* )", "\"", "<dq>")
	for _, r := range rs {
		t, err := syntax.Parse(r.Expr, syntax.Perl)
		if err != nil {
			return "", fmt.Errorf("%s: %v", r.Name, err)
		}
		g, err := gRegex(t)
		if err != nil {
			return "", fmt.Errorf("%s (%s): %v", r.Name, r.File, err)
		}
		fmt.Fprintf(&sb, "(* %s: %s  %s *)\nDefinition %s_%s : re :=\n  %s.\n\n", r.File, r.Name, san.Replace(r.Expr), defName, r.Name, g)
		have[r.Name] = true
	}
	for _, n := range modelRegexes {
		src := n
		if !have[n] {
			// renamed? an expression under a name the model does not know whose text is the one this
			// name had on the pinned tree takes its place
			src = ""
			if want, ok := pinnedRegexText()[n]; ok {
				for _, r := range rs {
					known := false
					for _, m := range modelRegexes {
						known = known || m == r.Name
					}
					if !known && r.Expr == want {
						src = r.Name
						break
					}
				}
			}
			if src == "" {
				return "", fmt.Errorf("the source no longer compiles an expression named %s, nor the same expression under another name (the parser model reads it)", n)
			}
		}
		fields = append(fields, fmt.Sprintf("t_%s := %s_%s", n, defName, src))
	}
	fmt.Fprintf(&sb, "Definition %s : retab := {|\n  %s |}.\n", defName, strings.Join(fields, ";\n  "))
	return sb.String(), nil
}

// pinnedRegexText: name -> expression text on the pinned tree (lib/pinned_regexes.json, written once by
// the REGEXGEN runner with VH_REGEX_PIN=1); only used to recognise a renamed expression.
func pinnedRegexText() map[string]string {
	m := map[string]string{}
	if b, err := os.ReadFile(verifRoot + "/lib/pinned_regexes.json"); err == nil {
		_ = json.Unmarshal(b, &m)
	}
	return m
}

func runRegexGen(o *Options) *Result {
	res := NewResult()
	rs, err := collectRegexes(repoDirOf())
	if err == nil && os.Getenv("VH_REGEX_PIN") != "" {
		m := map[string]string{}
		for _, r := range rs {
			m[r.Name] = r.Expr
		}
		b, _ := json.MarshalIndent(m, "", " ")
		err = os.WriteFile(o.Verif+"/lib/pinned_regexes.json", b, 0o644)
	}
	if err == nil {
		var txt string
		name := os.Getenv("VH_REGEX_DEF")
		if name == "" {
			name = "now"
		}
		txt, err = regexTableV(rs, name)
		if err == nil {
			err = os.WriteFile(o.WorkDir+"/RegexTable.v", []byte(txt), 0o644)
		}
	}
	if err != nil {
		res.InfraError = "regex table: " + err.Error()
	}
	res.Evaluations = len(rs)
	return res
}

func init() { runners["REGEXGEN"] = runRegexGen }
