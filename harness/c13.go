package main

import (
	"bytes"
	"fmt"
	"math"
	"os"
	"path/filepath"
	"regexp"
	"strings"
	"time"

	"github.com/koykov/dyntpl"
	"github.com/koykov/inspector/testobj"
)

func init() {
	runners["C13"] = runC13
	runners["C12"] = runC12
}

var builtinMods = []string{"default", "def", "ifThen", "if", "ifThenElse", "ifel", "jsonEscape", "je", "jsonQuote", "jq", "htmlEscape", "he", "linkEscape", "le",
	"urlEncode", "ue", "attrEscape", "ae", "cssEscape", "ce", "jsEscape", "jse", "round", "roundPrec", "roundp", "ceil", "ceilPrec", "ceilp", "floor", "floorPrec", "floorp",
	"time::now", "time::format", "time::date", "time::add", "time::date_modify",
	"math::abs", "math::inc", "math::dec", "math::add", "math::sub", "math::mul", "math::div", "math::mod", "math::sqrt", "math::cbrt", "math::radical", "math::rad",
	"math::exp", "math::log", "math::factorial", "math::fact", "math::max", "math::min", "math::pow",
	"testNameOf", "testns::pack", "testns::extract", "testns::marshal", "testns::modCB"}

var builtinConds = []string{"lenEq0", "lenGt0", "lenGtq0"}

// sweepCtx sets one variable of every kind the engine may meet.
func sweepCtx() *dyntpl.Ctx {
	ctx := dyntpl.NewCtx()
	i0, im1, i16 := 0, -1, 16
	u0 := uint(0)
	f05, fnan, finf, fninf, fbig, fneg := 0.5, math.NaN(), math.Inf(1), math.Inf(-1), 1e308, -16.0
	sE, sA, s12, s1e3 := "", "abc", "12", "1e3"
	bE, bA := []byte{}, []byte("xyz")
	bt, bf := true, false
	tm := time.Unix(1700000000, 5)
	i64 := int64(1700000000)
	u32 := uint32(1700000000)
	ss := []string{"a", "b"}
	ctx.SetStatic("vnil", nil).SetStatic("i0", &i0).SetStatic("im1", &im1).SetStatic("i16", &i16).SetStatic("u0", &u0).
		SetStatic("f05", &f05).SetStatic("fnan", &fnan).SetStatic("finf", &finf).SetStatic("fninf", &fninf).SetStatic("fbig", &fbig).SetStatic("fneg", &fneg).
		SetStatic("sE", &sE).SetStatic("sA", &sA).SetStatic("s12", &s12).SetStatic("s1e3", &s1e3).SetStatic("bE", &bE).SetStatic("bA", &bA).
		SetStatic("bt", &bt).SetStatic("bf", &bf).SetStatic("tm", &tm).SetStatic("tmv", tm).SetStatic("i64", &i64).SetStatic("u32", &u32).SetStatic("ss", &ss).
		SetStatic("ival", 7).SetStatic("fval", 2.5).SetStatic("sval", "plain")
	ctx.Set("user", &testobj.TestObject{Id: "1", Finance: &testobj.TestFinance{History: []testobj.TestHistory{{Cost: 1}}}}, tobjIns)
	ctx.SetBytes("sb", []byte("bytesvar")).SetCounter("cn", 3)
	return ctx
}

var sweepVars = []string{"vnil", "i0", "im1", "i16", "u0", "f05", "fnan", "finf", "fninf", "fbig", "fneg", "sE", "sA", "s12", "s1e3", "bE", "bA", "bt", "bf", "tm", "tmv", "i64", "u32", "ss",
	"ival", "fval", "sval", "user", "user.Finance", "user.Finance.History", "sb", "cn", "nosuch"}

var sweepArgs = []string{"", "0", "1", "2", "3", "0.5", `"abc"`, `""`, `"%Y-%m-%d"`, `"+1 day"`, `"-2 h"`, "time::RFC3339", "i0", "im1", "f05", "fnan", "finf", "fbig", "sA", "s12", "vnil", "tm", "user",
	"0, 0", "2, 3", "fnan, 1", "1, fnan", "i16, f05", "sA, s12", `"a", "b"`, "vnil, vnil", "fbig, fbig", "0, 1, 2", "{k:1}", "tm, 1"}

type sweepCase struct {
	Src string
	Obs Obs
}

func runSweep(res *Result, prop string, full bool) {
	var srcs []string
	for _, m := range builtinMods {
		for vi, v := range sweepVars {
			for ai, a := range sweepArgs {
				if !full && (vi*7+ai*3+len(m))%5 != 0 {
					continue
				}
				call := m
				if a != "" {
					call += "(" + a + ")"
				}
				srcs = append(srcs, fmt.Sprintf("{%%= %s|%s %%}", v, call))
			}
		}
		if strings.HasPrefix(m, "math::fact") {
			// a large exponent: the repeated multiplication must stay bounded
			srcs = append(srcs, fmt.Sprintf("{%%= fval|%s(4000000000) %%}", m), fmt.Sprintf("{%%= %s(2, 4000000000) %%}", m))
		}
		// function-call form without a piped value
		for _, a := range sweepArgs {
			if a != "" {
				srcs = append(srcs, fmt.Sprintf("{%%= %s(%s) %%}", m, a))
			}
		}
	}
	for _, c := range builtinConds {
		for _, v := range sweepVars {
			srcs = append(srcs, fmt.Sprintf("{%% if %s(%s) %%}y{%% else %%}n{%% endif %%}", c, v))
		}
		srcs = append(srcs, fmt.Sprintf("{%% if %s() %%}y{%% endif %%}", c))
	}
	hangs := map[string]int{}
	totalHangs := 0
	for _, src := range srcs {
		if totalHangs >= 6 {
			res.Notes = append(res.Notes, "sweep cut short after 6 hanging renders (each leaves a spinning goroutine behind)")
			break
		}
		name := strings.TrimPrefix(src, "{%= ")
		if i := strings.IndexAny(name, "|"); i >= 0 && !strings.HasPrefix(src, "{% if") {
			name = name[i+1:]
		}
		name = strings.TrimPrefix(name, "{% if ")
		name = strings.SplitN(name, "(", 2)[0]
		name = strings.TrimSuffix(strings.TrimSpace(name), " %}")
		if hangs[name] >= 1 {
			continue // a hanging goroutine never ends: do not start more of the same kind
		}
		key, po := tplKey(src, false)
		res.Evaluations++
		res.Hist("sweep:parse-" + po.ErrClass())
		if po.ErrClass() == "PANIC" || po.ErrClass() == "HANG" {
			res.OracleFails++
			res.AddViolation(&Violation{Kind: "failing-input", Class: "parse:" + po.ErrClass() + ":" + name, What: fmt.Sprintf("Parse of %q: %s %s", src, po.ErrClass(), po.Panic), Replay: map[string]any{"template": src}})
			continue
		}
		if po.ErrClass() != "OK" {
			continue
		}
		ctx := sweepCtx()
		o := guarded(1500*time.Millisecond, func() ([]byte, error) { return dyntpl.Render(key, ctx) })
		res.Hist("sweep:render-" + o.ErrClass())
		if o.ErrClass() == "OK" && len(o.Out) > 0 {
			res.Distinct(src)
		}
		if o.ErrClass() == "PANIC" && !o.InRepo() {
			// a panic raised inside a library dyntpl calls (innermost non-runtime frame outside the repository)
			res.Hist("sweep:external-panic:" + o.Frame)
			continue
		}
		if o.ErrClass() == "PANIC" || o.ErrClass() == "HANG" {
			if o.Hang {
				hangs[name]++
				totalHangs++
			}
			res.OracleFails++
			res.AddViolation(&Violation{Kind: "failing-input", Class: "builtin:" + o.ErrClass() + ":" + name,
				What: fmt.Sprintf("rendering %q: %s %s", src, o.ErrClass(), o.Panic), Replay: map[string]any{"template": src, "data": "sweepCtx (harness/c13.go)", "panic": o.Panic, "hang": o.Hang}})
		}
		if len(res.Samples) < 6 && o.ErrClass() == "OK" && len(o.Out) > 0 && res.Evaluations%97 == 0 {
			res.Sample(map[string]any{"template": src, "output": string(o.Out)}, 6)
		}
	}
}

// ---- fuzzed sources: parse (C12: total) and, when accepted, render against several contexts (C13: no panic, no hang)

func seedSources() [][]byte {
	var out [][]byte
	_ = filepath.Walk("/repo/testdata", func(path string, info os.FileInfo, err error) error {
		if err == nil && !info.IsDir() && strings.HasSuffix(path, ".tpl") {
			if b, e := os.ReadFile(path); e == nil && len(b) < 4000 {
				out = append(out, b)
			}
		}
		return nil
	})
	return out
}

var fuzzTokens = []string{"{%", "%}", "{#", "#}", "{% endif %}", "{% endfor %}", "{% endswitch %}", "{% else %}", "{% if x == 1 %}", "{% for i:=0; i<2; i++ %}", "{% for _, v := range user.Finance.History %}",
	"{% switch x %}", "{% case 1 %}", "{% default %}", "{% break %}", "{% break 2 if i > 1 %}", "{% lazybreak %}", "{% continue %}", "{% exit %}", "{% ctx a = b %}", "{% counter c++ %}", "{% include x %}",
	"(", ")", "{", "}", ",", ":", "|", "\"", "'", "=", " ", "\n", "?", "!", "[", "]", ".", "%", "default(", "|default({)", "|raw", "prefix", "suffix", "len(", "jsonquote", "{% jsonquote %}", "{% endjsonquote %}", "== ", "<= "}

func mutate(r *RNG, src []byte) []byte {
	b := append([]byte(nil), src...)
	n := 1 + r.Intn(3)
	for k := 0; k < n; k++ {
		switch r.Intn(6) {
		case 0: // insert a token
			t := fuzzTokens[r.Intn(len(fuzzTokens))]
			i := r.Intn(len(b) + 1)
			b = append(b[:i], append([]byte(t), b[i:]...)...)
		case 1: // delete a range
			if len(b) > 2 {
				i := r.Intn(len(b) - 1)
				j := i + 1 + r.Intn(minInt(12, len(b)-i-1)+1)
				if j > len(b) {
					j = len(b)
				}
				b = append(b[:i], b[j:]...)
			}
		case 2: // flip a byte
			if len(b) > 0 {
				b[r.Intn(len(b))] = byte(r.Intn(256))
			}
		case 3: // duplicate a range
			if len(b) > 4 {
				i := r.Intn(len(b) - 2)
				j := i + 1 + r.Intn(minInt(20, len(b)-i-1)+1)
				if j > len(b) {
					j = len(b)
				}
				b = append(b[:j], append(append([]byte(nil), b[i:j]...), b[j:]...)...)
			}
		case 4: // truncate
			if len(b) > 3 {
				b = b[:r.Intn(len(b))]
			}
		default: // swap two tags
			s := string(b)
			i := strings.Index(s, "{%")
			j := strings.LastIndex(s, "{%")
			if i >= 0 && j > i {
				ie := strings.Index(s[i:], "%}")
				je := strings.Index(s[j:], "%}")
				if ie > 0 && je > 0 && i+ie+2 <= j {
					b = []byte(s[:i] + s[j:j+je+2] + s[i+ie+2:j] + s[i:i+ie+2] + s[j+je+2:])
				}
			}
		}
	}
	return b
}

func minInt(a, b int) int {
	if a < b {
		return a
	}
	return b
}

var reCounterLoop = regexp.MustCompile(`for\s+\w+\s*:?=`)

// clampData keeps every number a mutated template may use as a loop bound small.
func clampData(d *DataEnv) {
	u := &d.User
	u.Ustate %= 40
	if u.Status > 1000 || u.Status < -1000 {
		u.Status = 7
	}
	for i := range d.Statics {
		v := &d.Statics[i]
		if v.I > 1000 || v.I < -1000 {
			v.I = 9
		}
		if v.U > 1000 {
			v.U = 11
		}
	}
}

func runFuzz(o *Options, res *Result, rng *RNG, n int, prop string) {
	seeds := seedSources()
	prof := profiles["ALL"]
	parseHang, renderHang, longLoops := 0, 0, 0
	for i := 0; i < n && parseHang < 3 && renderHang < 3; i++ {
		var src []byte
		var data *DataEnv
		if len(seeds) > 0 && rng.Chance(40) {
			src = mutate(rng, seeds[rng.Intn(len(seeds))])
			g := &Gen{r: rng.Fork(), p: prof, flits: map[string]float64{}, tags: map[string]bool{}}
			g.genData()
			data = g.data
		} else {
			ic := genInterpCase(i, rng.Fork(), prof)
			src = mutate(rng, []byte(ic.vc.Src))
			data = ic.vc.Data
		}
		clampData(data)
		res.Evaluations++
		key, _, po := parseDump(src, rng.Bool())
		res.Hist("fuzz:parse-" + po.ErrClass())
		if po.ErrClass() == "PANIC" || po.ErrClass() == "HANG" {
			if po.Hang {
				parseHang++
			}
			if prop == "C12" {
				res.OracleFails++
				res.AddViolation(&Violation{Kind: "failing-input", Class: "parse:" + po.ErrClass(), What: fmt.Sprintf("Parse of %q: %s %s", src, po.ErrClass(), po.Panic),
					Replay: map[string]any{"template": string(src), "template_hex": hx(src), "panic": po.Panic}})
			}
			continue
		}
		if po.ErrClass() != "OK" {
			continue
		}
		res.Distinct(string(src))
		if prop != "C13" {
			continue
		}
		r := renderRun(key, data, 0, 0)
		res.Hist("fuzz:render-" + r.Obs.ErrClass())
		if r.Obs.Panic == "" && !r.Obs.Hang {
			// and once more on a context that was used and reset (contexts are pooled in production)
			if w := warmRun(key, data, i%4); w.Panic != "" || w.Hang {
				r.Obs = w
				res.Hist("fuzz:warm-" + w.ErrClass())
			}
		}
		if r.Obs.Panic != "" && !r.Obs.InRepo() {
			res.Hist("fuzz:external-panic:" + r.Obs.Frame)
			continue
		}
		if r.Obs.Hang && reCounterLoop.Match(src) {
			// a counter loop runs as long as its bounds say (a mutated literal can ask for 10^10
			// iterations): long, not unbounded, and not a defect of the engine
			res.Hist("fuzz:long-counter-loop")
			longLoops++
			if longLoops >= 4 {
				break
			}
			continue
		}
		if r.Obs.Panic != "" || r.Obs.Hang {
			if r.Obs.Hang {
				renderHang++
			}
			res.OracleFails++
			res.AddViolation(&Violation{Kind: "failing-input", Class: "render:" + r.Obs.ErrClass(), What: fmt.Sprintf("rendering the accepted template %q: %s %s", src, r.Obs.ErrClass(), r.Obs.Panic),
				Replay: map[string]any{"template": string(src), "template_hex": hx(src), "data_slots": data.Slots(), "panic": r.Obs.Panic, "hang": r.Obs.Hang}})
		}
	}
}

// runBracketPaths: index syntax is rewritten inside counter loops (a[i] -> a.<i>); every way of
// writing brackets in a path, well formed or not, in and out of loops, must render without a crash.
func runBracketPaths(res *Result) {
	paths := []string{"v]x[", "v][", "v]i[i]", "v[", "v]", "v[[i]]", "v[i", "v[i]]", "[i]", "[]", "a[]b", "v[i][i]", "][", "]", "[", "v[]", "v.[i]", "v[i].", "v[i]x",
		"user.Finance.History[i].Cost", "user.Finance.History[9].Cost", "user.Finance.History[i", "user.Finance.History]i[.Cost", "user.Finance.History[i][i].Cost", "user.Finance.History[j].Cost", "user.Flags[i]", "user.Name[i]"}
	shapes := []string{
		"{% for i := 0; i < 2; i++ %}<{%= PATH %}>{% endfor %}",
		"{% for i := 0; i < 2; i++ %}{% if PATH == 1 %}a{% else %}b{% endif %}{% endfor %}",
		"{% for i := 0; i < 2; i++ %}{% ctx c = PATH %}{%= c %}{% endfor %}",
		"{% for i := 0; i < 2; i++ %}{% for j := 0; j < 2; j++ %}{%= PATH %}{% endfor %}{% endfor %}",
		"{% for i := 0; i < 2; i++ %}{% if len(PATH) > 0 %}a{% endif %}{%= x|default(PATH) %}{% endfor %}",
		"{% for i := 0; i < 2; i++ %}{% for _, h := range PATH %}x{% endfor %}{% endfor %}",
		"{% for i := 0; i < 2; i++ %}{% switch PATH %}{% case 1 %}a{% default %}b{% endswitch %}{% endfor %}",
		"<{%= PATH %}>{% if PATH == 1 %}a{% endif %}",
		"{% for _, h := range user.Finance.History %}{%= PATH %}{% endfor %}",
	}
	g := &Gen{r: NewRNG(7), p: profiles["ALL"], flits: map[string]float64{}, tags: map[string]bool{}}
	g.genData()
	g.data.User.Present, g.data.User.HasFinance = true, true
	v := "abc"
	for _, p := range paths {
		for _, sh := range shapes {
			src := strings.ReplaceAll(sh, "PATH", p)
			res.Evaluations++
			key, _, po := parseDump([]byte(src), false)
			res.Hist("brackets:parse-" + po.ErrClass())
			if po.ErrClass() == "PANIC" || po.ErrClass() == "HANG" {
				res.OracleFails++
				res.AddViolation(&Violation{Kind: "failing-input", Class: "parse:" + po.ErrClass(), What: fmt.Sprintf("Parse of %q: %s %s", src, po.ErrClass(), po.Panic), Replay: map[string]any{"template": src}})
				continue
			}
			if po.ErrClass() != "OK" {
				continue
			}
			obs := guarded(3*time.Second, func() ([]byte, error) {
				ctx := dyntpl.NewCtx()
				g.data.Apply(ctx)
				ctx.SetStatic("v", &v)
				return dyntpl.Render(key, ctx)
			})
			res.Hist("brackets:render-" + obs.ErrClass())
			res.Distinct("br:" + src)
			if (obs.Panic != "" && obs.InRepo()) || obs.Hang {
				res.OracleFails++
				res.AddViolation(&Violation{Kind: "failing-input", Class: "render:" + obs.ErrClass(), What: fmt.Sprintf("rendering %q: %s %s", src, obs.ErrClass(), obs.Panic),
					Replay: map[string]any{"template": src, "data_slots": g.data.Slots(), "panic": obs.Panic}})
			}
		}
	}
}

// runEdgeTemplates: the error branches of the interpreter that no generated template reaches
// (found by measuring statement coverage of the engine under the checks): each must end in a
// returned error or empty output, on a new context and on a reused one.
func runEdgeTemplates(res *Result) {
	edges := []string{
		`{% if len() > 0 %}a{% endif %}`, `{% if cap() == 1 %}a{% endif %}`, `{% if lenEq0("abc") %}a{% else %}b{% endif %}`, `{% if lenGt0() %}a{% endif %}`,
		`{% if nohelper(user.Id) %}a{% endif %}`, `{% switch %}{% case nohelper(user.Id) %}a{% default %}d{% endswitch %}`, `{% switch %}{% case lenGt0("x") %}a{% endswitch %}`,
		`{% switch %}{% case 1 == 1 %}a{% default %}d{% endswitch %}`, `{% switch %}{% case "a" != "b" %}a{% endswitch %}`, `{% if 1 == 2 %}a{% endif %}`,
		`{%= len(user.Name) > 0 ? user.Id : user.Name %}`, `{%= lenEq0(user.Name) ? user.Id : user.Name %}`, `{%= cap(user.Name) >= 0 ? user.Id : user.Name %}`,
		`{% for i := 0; i == 0; i++ %}x{% endfor %}`, `{% for i := 0; i < 3; i %}x{% endfor %}`, `{% for i := 0; i < user; i++ %}x{% endfor %}`, `{% for i := user.Name; i < 3; i++ %}x{% endfor %}`,
		`{% counter c = 1 %}{% ctx c = user %}{% counter c++ %}{%= c %}`, `{% counter user++ %}{%= user.Id %}`, `{% counter q-- %}{%= q %}`,
		`{% if user == 1 %}a{% else %}b{% endif %}`, `{% if user.Finance > 1 %}a{% endif %}`, `{% if user.Flags == user.Flags %}a{% endif %}`, `{% if user.Id == user %}a{% endif %}`,
		`{% if cap(user.Finance.History) > 1 %}a{% endif %}`, `{% if len(user.Flags) > 0 %}a{% endif %}`, `{% if len(user) > 0 %}a{% endif %}`, `{% if len(nosuch) == 0 %}a{% endif %}`,
		`{%= x|default() %}`, `{%= x|ifThen() %}`, `{%= x|ifThenElse("a") %}`, `{%= user|default("d") %}`, `{%= user.Finance %}`, `{%= user.Flags|jsonQuote %}`,
		`{% ctx z = user.Finance.History %}{%= z %}`, `{% ctx z = user|default(1) %}{%= z %}`, `{% ctx z, ok = nosuch|default(user) %}{%= ok %}`,
		`{% for _, h := range user %}x{% endfor %}`, `{% for _, h := range user.Id %}x{% endfor %}`, `{% for k, v := range user.Flags %}{%= k %}={%= v %};{% endfor %}`, `{% for k := range user.Name %}{%= k %}{% endfor %}`,
		`{% include %}`, `{% include a b c d e %}`, `{% . %}`, `{% if v, ok := vok().(static); ok %}a{% endif %}`, `{% if v, ok := vok(user).(static); !ok %}a{% endif %}`, `{% if v, ok := nohelper(user.Id).(static); ok %}a{% endif %}`,
		`{% if v, ok := vok(user.Id).(nosuchins); ok %}a{% endif %}`, `{% if v, ok := vok(user.Id); ok %}a{% endif %}`, `<{% if h, ok := __testUserNextHistory999(user.Finance); ok %}{%= h.Cost %}{% else %}none:{%= h %}{% endif %}>`,
		`{% if v, ok := vok(user.Id); ok %}{%= v %}{% else %}{%= v %}{% endif %}{% if v == "x" %}a{% endif %}`,
		`{% jsonquote %}{% htmlescape %}{% urlencode %}<"&{%= user.Id %}{% endjsonquote %}x{% endurlencode %}y{% endhtmlescape %}z`, `{% endjsonquote %}{% endhtmlescape %}a"<`,
		`{% break %}`, `{% lazybreak 3 %}`, `{% continue %}`, `{% exit %}a`, `a{% break 2 if user.Id == "x" %}b`,
		// collections whose elements are slices, maps or of mixed kinds: the loop variable is set
		// again on every iteration
		`<{% for k, v := range mslices %}[{%= k %}]{% endfor %}>|<{% for k, v := range mmaps %}({%= k %}){% endfor %}>`, `{% for k, v := range mmixed %}{%= k %}={%= v %};{% endfor %}`,
		`{% for _, v := range mslices %}{% for _, w := range v %}{%= w %}{% endfor %}{% endfor %}`, `{% for i, s := range strs sep , %}{%= i %}:{%= s %}{% endfor %}`, `{% for k, v := range mmaps %}{%= v.q %}{%= v.s %}{% endfor %}`,
		`{% ctx x = mslices %}{% ctx x = mmaps %}{% ctx x = mslices.a %}{% ctx x = mslices.b %}{%= x %}`, `{% if mslices == mslices %}a{% endif %}{% if mmaps.p == mmaps.r %}b{% endif %}`,
	}
	// rarely written forms: helpers with empty parentheses in every place a helper may stand, chains of
	// modifiers whose argument counts differ from the number of modifiers (prints and ctx assignments,
	// every spelling of the tag), ternary prints over helpers
	edges = append(edges,
		`{%= len() ? "yes" : "no" %}`, `{%h= cap() ? user.Name : "N/D" %}`, `{%= lenEq0() ? user.Id : user.Name %}`, `{%= nosuch() ? user.Id : user.Name %}`, `{%= len(user.Name) ? user.Id : user.Name %}`,
		`{% if len() > 0 %}x{% endif %}`, `{% if lenEq0() %}x{% else %}y{% endif %}`, `{% for i := 0; i < 2; i++ %}{% break if lenEq0() %}{% continue if len() == 0 %}{%= i %}{% endfor %}`,
		`{% switch %}{% case lenEq0() %}a{% case len() %}b{% default %}c{% endswitch %}`, `{% if v, ok := vok(); ok %}a{% else %}b{% endif %}`,
		`{% ctx price = user.Cost|default(5)|round %}[{%= price %}]`, `{% context p = user.Cost|default(5)|math::add(0.4)|floor %}[{%= p %}]`, `{% ctx price = nosuch|default(7)|math::mul(2)|round as static %}[{%= price %}]`,
		`{% ctx a = user.Name|vup|default("x", "y", "z") %}[{%= a %}]`, `{% ctx a, ok = user.Name|default("x")|vup|vup|default(1,2) %}[{%= a %}{%= ok %}]`, `{% ctx b = user.Cost|round|ceil|floor|default(1, 2, 3) %}[{%= b %}]`,
		`{%= user.Cost|round|default(1, 2, 3) %}`, `{%= user.Cost|default(1, 2, 3)|round|ceil %}`, `{%j= user.Name|default("a")|vup|ifThenElse("a", "b", "c")|default() %}`, `{%= user.Name|ifThen()|ifThenElse("x")|default %}`,
		`{% ctx c = 'single quoted' %}[{%= c %}]{% ctx d = "double" %}[{%= d %}]{% ctx e = 15 %}[{%= e %}]`, `{% cntr n = 10 %}{% cntr n-3 %}{% counter n+2 %}{% cntr n-- %}[{%= n %}]`,
	)
	g := &Gen{r: NewRNG(11), p: profiles["ALL"], flits: map[string]float64{}, tags: map[string]bool{}}
	g.genData()
	g.data.User.Present, g.data.User.HasFinance = true, true
	g.data.Extras = true
	for _, src := range edges {
		res.Evaluations++
		key, _, po := parseDump([]byte(src), false)
		res.Hist("edges:parse-" + po.ErrClass())
		if po.ErrClass() == "PANIC" || po.ErrClass() == "HANG" {
			res.OracleFails++
			res.AddViolation(&Violation{Kind: "failing-input", Class: "parse:" + po.ErrClass(), What: fmt.Sprintf("Parse of %q: %s %s", src, po.ErrClass(), po.Panic), Replay: map[string]any{"template": src}})
			continue
		}
		if po.ErrClass() != "OK" {
			continue
		}
		for _, obs := range []Obs{renderRun(key, g.data, 0, 0).Obs, warmRun(key, g.data, 0), warmRun(key, g.data, 2), thenRead(key, g.data)} {
			res.Hist("edges:render-" + obs.ErrClass())
			if (obs.Panic != "" && obs.InRepo()) || obs.Hang {
				res.OracleFails++
				res.AddViolation(&Violation{Kind: "failing-input", Class: "render:" + obs.ErrClass(), What: fmt.Sprintf("rendering %q: %s %s", src, obs.ErrClass(), obs.Panic),
					Replay: map[string]any{"template": src, "data_slots": g.data.Slots(), "panic": obs.Panic}})
				break
			}
		}
		res.Distinct("edge:" + src)
	}
}

func runC13(o *Options) *Result {
	res := runInterp(o, "C13", profiles["ALL"], 120, 3000, corrInterp)
	if res.InfraError != "" {
		return res
	}
	runSweep(res, "C13", o.Tier == "thorough")
	runBracketPaths(res)
	runEdgeTemplates(res)
	n := 1500
	if o.Tier == "thorough" {
		n = 60000
	}
	runFuzz(o, res, NewRNG(o.Seed+13), n, "C13")
	res.Rule += " || sweep: every registered built-in modifier (and alias) x 33 carrier values of every kind (nil, ints, NaN/Inf/huge floats, numeric and non-numeric strings, bytes, bools, time, structs, slices) x 37 argument tuples (quick: a fifth of the product; thorough: all), pipe and call form, every built-in condition helper x every value; fuzz: mutated repository templates and generated templates that still parse, rendered against generated data; oracle: recovered panic or 1.5 s watchdog; distinct by template text"
	res.WriteReplays(o.Verif+"/evidence/replays", "C13")
	return res
}

// thenRead renders the template and then, on the same context and without a Reset, a template that
// reads, compares and ranges over every variable name the edge templates assign: whatever an
// (aborted) render left in the context, the next render does not panic on it.
var thenReadKey string

func thenRead(key string, data *DataEnv) Obs {
	if thenReadKey == "" {
		src := ""
		for _, v := range []string{"v", "h", "x", "z", "c", "q", "ok", "i", "k"} {
			src += fmt.Sprintf(`{%%= %s %%}{%%= %s.Cost %%}{%% if %s == "x" %%}a{%% endif %%}{%% if %s.Cost > 1 %%}b{%% endif %%}{%% for _, e := range %s %%}c{%% endfor %%}{%%= %s|default("d") %%}`, v, v, v, v, v, v)
		}
		thenReadKey, _, _ = parseDump([]byte(src), false)
	}
	return guarded(10*time.Second, func() ([]byte, error) {
		ctx := dyntpl.NewCtx()
		data.Apply(ctx)
		var first, second bytes.Buffer
		_ = dyntpl.Write(&first, key, ctx)
		err := dyntpl.Write(&second, thenReadKey, ctx)
		return second.Bytes(), err
	})
}
