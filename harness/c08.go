package main

import (
	"bytes"
	"html"
	"os"
	"regexp"
	"unicode/utf8"
)

func init() { runners["C08"] = runC08 }

var c08Forms = []EscForm{
	{Name: "h", Tpl: "{%h= $V %}", Fn: 5, Itr: 1},
	{Name: "hh", Tpl: "{%hh= $V %}", Fn: 5, Itr: 2},
	{Name: "hhh", Tpl: "{%hhh= $V %}", Fn: 5, Itr: 3},
	{Name: "|htmlEscape", Tpl: "{%= $V|htmlEscape %}", Fn: 5, Itr: 1},
	{Name: "a", Tpl: "{%a= $V %}", Fn: 6, Itr: 1},
	{Name: "aa", Tpl: "{%aa= $V %}", Fn: 6, Itr: 2},
	{Name: "|attrEscape", Tpl: "{%= $V|attrEscape %}", Fn: 6, Itr: 1},
	{Name: "region-raw", Fn: 5, Itr: 1, Region: "htmlescape"},
	{Name: "|he", Tpl: "{%= $V|he %}", Fn: 5, Itr: 1},
	{Name: "|ae", Tpl: "{%= $V|ae %}", Fn: 6, Itr: 1},
	{Name: "h-tight", Tpl: "{%h=$V%}", Fn: 5, Itr: 1},
	{Name: "h<-default", Tpl: "{%h= nosuchvar|default($V) %}", Fn: 5, Itr: 1, MinIn: 1},
	{Name: "a<-def", Tpl: "{%a= nosuchvar|def($V) %}", Fn: 6, Itr: 1, MinIn: 1},
}

var reHTMLAlphabet = regexp.MustCompile(`^([^<>"'&]|&lt;|&gt;|&quot;|&#39;|&amp;)*$`)
var reAttrAlphabet = regexp.MustCompile(`^([A-Za-z0-9,.\-_]|&amp;|&lt;|&gt;|&quot;|&#x[0-9a-fA-F]+;)*$`)

func attrNorm(s []byte) []byte {
	var b []byte
	for _, r := range string(s) {
		if (r < 0x20 && r != '\t' && r != '\n' && r != '\r') || (r >= 0x7f && r <= 0x9f) {
			// deliberate replacement of control characters is allowed by the property
			b = append(b, 0xff) // marker: either the character itself or U+FFFD is acceptable
			continue
		}
		b = utf8.AppendRune(b, r)
	}
	return b
}

// attrDecodedOK: decoded text equals the input except that control characters may have become U+FFFD.
func attrDecodedOK(in, dec []byte) bool {
	ri, rd := []rune(string(in)), []rune(string(dec))
	if len(ri) != len(rd) {
		return false
	}
	for i := range ri {
		if ri[i] == rd[i] {
			continue
		}
		r := ri[i]
		ctl := r < 0x20 || (r >= 0x7f && r <= 0x9f)
		if !(ctl && rd[i] == 0xFFFD) {
			return false
		}
	}
	return true
}

func oracleC08(f EscForm, in, out []byte) string {
	if !utf8.Valid(in) {
		return ""
	}
	cur := out
	if f.Fn == 5 {
		for i := 0; i < f.Itr; i++ {
			if !reHTMLAlphabet.Match(cur) {
				return "HTML-escape output contains one of < > \" ' or an & that does not start one of the five references"
			}
			cur = []byte(html.UnescapeString(string(cur)))
		}
		if !bytes.Equal(cur, in) {
			return "html.UnescapeString of the output is not the original text"
		}
		return ""
	}
	for i := 0; i < f.Itr; i++ {
		if !reAttrAlphabet.Match(cur) {
			return "attribute-escape output leaves the alphabet [A-Za-z0-9,.-_] + character references"
		}
		cur = []byte(html.UnescapeString(string(cur)))
	}
	if !attrDecodedOK(in, cur) {
		return "html.UnescapeString of the output is not the original text (beyond control characters turned into U+FFFD)"
	}
	return ""
}

func runC08(o *Options) *Result {
	reps := []rune{'a', 'f', 'F', '0', '9', ' ', '\t', '\n', '\r', '\\', '/', '"', '\'', '<', '>', '&', ',', '.', '_', '-', ';', '#', 'x', 'X', 0, 1, 0x1e, 0x1f, 0x7f, 0x80, 0x85, 0x9f, 0xa0, 0xe9, 0x7ff, 0x800, 0x2028, 0xfffd, 0xffff, 0x10000, 0x1f600, 0x10ffff, 'l', 't', 'g', 'q', 'u', 'o', 'm', 'p', '3', '=', '%', '@', '!', '?', '*', '|', '~', '^', '`', '[', ']', ':'}
	res := runEscaperProperty(o, "C08", c08Forms, oracleC08, escPlan{
		Singles: true, RandomQuick: 3000, RandomThorough: 300000, MaxLen: 32, Scalars: true,
		ScalarForms: []string{"h", "a"},
		Gen: func(r *RNG, maxLen int) []byte {
			if r.Chance(25) {
				// text that already looks like entities
				al := []string{"&amp;", "&lt;", "&gt", "&quot;", "&#39;", "&#x41;", "&#65", "&", "#", "x", ";", "amp", "lt;", "&&", "&#", "&#x", "&#xFFFD;", "a", "<", "\"", "'", " "}
				n := r.Intn(8)
				var b []byte
				for i := 0; i < n; i++ {
					b = append(b, al[r.Intn(len(al))]...)
				}
				return b
			}
			return randUTF8(r, maxLen)
		},
		CorrName: "correspondence html_escape/attr_escape (Model/EscHTML.v) vs mod_html.go, mod_attr.go",
		Extra: func(add func(f EscForm, carrier string, in []byte)) {
			for _, a := range reps {
				for _, b := range reps {
					for _, fn := range []string{"h", "a", "hh", "aa"} {
						f, _ := formByName(c08Forms, fn)
						add(f, "SetString", []byte(string([]rune{a, b})))
					}
				}
			}
		},
		DecFn: 103, DecRef: func(in []byte) ([]byte, bool) { return []byte(html.UnescapeString(string(in))), true },
		DecSkip: func(in []byte) bool {
			if !utf8.Valid(in) {
				return true
			}
			// the Gallina decoder knows the names amp lt gt quot only: skip inputs with another named reference
			for i := 0; i+1 < len(in); i++ {
				if in[i] == '&' && (in[i+1] >= 'a' && in[i+1] <= 'z' || in[i+1] >= 'A' && in[i+1] <= 'Z') {
					rest := in[i+1:]
					if !(bytes.HasPrefix(rest, []byte("amp")) || bytes.HasPrefix(rest, []byte("lt")) || bytes.HasPrefix(rest, []byte("gt")) || bytes.HasPrefix(rest, []byte("quot"))) {
						return true
					}
				}
			}
			return false
		},
		DecGen: func(r *RNG, maxLen int) []byte {
			n := r.Intn(maxLen + 1)
			var b []byte
			al := []string{"&", "#", "x", "X", ";", "amp", "lt", "gt", "quot", "&amp;", "&lt;", "0", "9", "41", "a", "f", "F", "fffd", "d800", "110000", "80", "9f", "0000", " ", "&#", "&#x", "z", "é", "1f600", "39"}
			for i := 0; i < n; i++ {
				b = append(b, al[r.Intn(len(al))]...)
			}
			return b
		},
	})
	if res.InfraError != "" {
		return res
	}
	// everything rendered inside a htmlescape region: interpreter-level correspondence and reference semantics
	sub := *o
	sub.WorkDir = o.WorkDir + "/region"
	_ = os.MkdirAll(sub.WorkDir, 0o755)
	return mergeResults(res, runInterp(&sub, "C08", regionProfile("htmlescape"), 200, 4000, corrInterp))
}
