package main

import (
	"bytes"
	"fmt"
	"strings"

	"github.com/koykov/dyntpl"
)

// multiCase: several escape directives in one template, each on its own variable,
// separated by static text. The rendered output must be the concatenation of what the
// model gives for each part: no directive may depend on what was rendered before it.
type multiCase struct {
	Forms []EscForm
	Ins   [][]byte
	Src   string
	Obs   Obs
}

func genMulti(r *RNG, forms []EscForm, gen func(*RNG, int) []byte, maxLen int) *multiCase {
	n := 2 + r.Intn(3)
	mc := &multiCase{}
	var sb strings.Builder
	sb.WriteString("[")
	for i := 0; i < n; i++ {
		var f EscForm
		for {
			f = forms[r.Intn(len(forms))]
			if f.Region == "" {
				break
			}
		}
		var in []byte
		if !r.Chance(30) {
			in = gen(r, maxLen)
		}
		mc.Forms = append(mc.Forms, f)
		mc.Ins = append(mc.Ins, in)
		if i > 0 {
			sb.WriteString("|")
		}
		sb.WriteString(strings.ReplaceAll(f.Tpl, "$V", fmt.Sprintf("v%d", i)))
	}
	sb.WriteString("]")
	mc.Src = sb.String()
	return mc
}

func (mc *multiCase) render() {
	ctx := dyntpl.NewCtx()
	for i, in := range mc.Ins {
		s := string(in)
		ctx.SetStatic(fmt.Sprintf("v%d", i), &s)
	}
	key, po := tplKey(mc.Src, false)
	if po.ErrClass() != "OK" {
		mc.Obs = po
		return
	}
	mc.Obs = Render(key, ctx)
}

// runMulti generates, renders and compares the sequence cases.
func runMulti(o *Options, res *Result, rng *RNG, forms []EscForm, gen func(*RNG, int) []byte, maxLen int, corr string) error {
	n := 400
	if o.Tier == "thorough" {
		n = 20000
	}
	var mcs []*multiCase
	var reqs []EReq
	for i := 0; i < n; i++ {
		mc := genMulti(rng, forms, gen, maxLen/2)
		mc.render()
		mcs = append(mcs, mc)
		for j, f := range mc.Forms {
			reqs = append(reqs, EReq{Fn: f.Fn, Itr: f.Itr, In: mc.Ins[j]})
		}
	}
	mout, mok, err := RunDriver(o.Driver, reqs)
	if err == nil {
		err = CrossCheck(o, res, "multi", reqs, mout, mok)
	}
	if err != nil {
		return err
	}
	k := 0
	for _, mc := range mcs {
		var exp bytes.Buffer
		exp.WriteString("[")
		ok := true
		for j := range mc.Forms {
			if j > 0 {
				exp.WriteString("|")
			}
			if !mok[k] {
				ok = false
			}
			exp.Write(mout[k])
			k++
		}
		exp.WriteString("]")
		res.Evaluations++
		res.ModelEvals += len(mc.Forms)
		res.Hist("stream:sequence")
		res.Distinct("seq|" + mc.Src + "|" + fmt.Sprint(mc.Ins))
		if mc.Obs.ErrClass() != "OK" || !ok || !bytes.Equal(exp.Bytes(), mc.Obs.Out) {
			res.Mismatches++
			res.OracleFails++
			var ins []string
			for _, in := range mc.Ins {
				ins = append(ins, hx(in))
			}
			res.AddViolation(&Violation{Kind: "failing-input", Class: "escaper:sequence",
				What: fmt.Sprintf("template %q with inputs %q renders %q (%s) but the concatenation of the directives' own texts is %q: a directive's output depends on what was rendered before it", mc.Src, mc.Ins, mc.Obs.Out, mc.Obs.ErrClass(), exp.Bytes()),
				Replay: map[string]any{"template": mc.Src, "inputs_hex": ins, "observed_hex": hx(mc.Obs.Out), "observed_err": mc.Obs.Err, "observed_panic": mc.Obs.Panic,
					"expected_hex": hx(exp.Bytes()), "seed": o.Seed, "tier": o.Tier}})
		}
	}
	return nil
}
