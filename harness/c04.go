package main

import (
	"bytes"
	"fmt"
	"hash/crc64"
	"strings"
	"time"

	"github.com/koykov/dyntpl"
)

func init() { runners["C04"] = runC04 }

// One operation of a registry history.
type regOp struct {
	Kind  string   // parse register renderKey renderID renderFallback include
	ID    int      // -1 = none
	Key   string   // "" = none
	FB    string   // fallback key
	Names []string // include name list
	Src   string   // what a tree parsed from the source renders (the source's identity for the specification)
	Text  string   // the source handed to Parse when it differs from Src (line breaks and indentation)
	Keep  bool     // keepFmt argument of Parse
	Obs   string   // observed: "src:<text>" | "notfound" | "unit" | "err:<msg>" | "panic"
}

var c04Sources = []string{"source-A", "source-B", "source-C", "source-D"}
var c04Keys = []string{"k0", "k1", "k2"}

// real: the arguments of the Parse call of this operation.
func (op regOp) real() ([]byte, bool) {
	if op.Text != "" {
		return []byte(op.Text), op.Keep
	}
	return []byte(op.Src), op.Keep
}

// sources the parser rejects (missing, surplus and crossed closers, unterminated tags)
var c04Malformed = []string{"{% if a == 1 %}x", "x{% endif %}", "{% for i := 0; i < 2; i++ %}y", "{% switch a %}{% case 1 %}z", "{% if a == 1 %}{% for i := 0; i < 2; i++ %}w{% endif %}{% endfor %}", "{% if a == 1 %}v{% endfor %}", "u{% if", "{% for _, v := range a %}{% if v == 1 %}q{% endfor %}"}

// two sources of 4349 bytes with a common head of 4340
var c04Long = func() []string {
	head := strings.Repeat("0123456789abcdef-long-source-head;", 200)[:4340]
	return []string{head + "variant-A", head + "variant-B"}
}()

// multi-line sources: with keepFmt they render verbatim, without it line breaks and indentation go
var c04Multi = []string{"source-E\n\tmore", "source-F\n  tail\nend"}

func (op regOp) String() string {
	if op.Text != "" {
		op.Src = fmt.Sprintf("%s (keepFmt=%v)", op.Text, op.Keep)
	}
	switch op.Kind {
	case "parsebad":
		return fmt.Sprintf("Parse(%q) [malformed]", op.Src)
	case "parse":
		return fmt.Sprintf("Parse(%q)", op.Src)
	case "register":
		switch {
		case op.ID >= 0 && op.Key != "":
			return fmt.Sprintf("RegisterTpl(%d,%q,Parse(%q))", op.ID, op.Key, op.Src)
		case op.ID >= 0:
			return fmt.Sprintf("RegisterTplID(%d,Parse(%q))", op.ID, op.Src)
		}
		return fmt.Sprintf("RegisterTplKey(%q,Parse(%q))", op.Key, op.Src)
	case "renderKey":
		return fmt.Sprintf("Render(%q)", op.Key)
	case "renderID":
		return fmt.Sprintf("RenderByID(%d)", op.ID)
	case "renderFallback":
		return fmt.Sprintf("RenderFallback(%q,%q)", op.Key, op.FB)
	}
	return fmt.Sprintf("include(%s)", strings.Join(op.Names, " "))
}

func genHistory(r *RNG, maxLen int) []regOp {
	n := 3 + r.Intn(maxLen-2)
	var ops []regOp
	// pairing discipline: key k_i is only ever registered together with id i (or alone)
	for i := 0; i < n; i++ {
		x := r.Intn(3)
		src := c04Sources[r.Intn(len(c04Sources))]
		if r.Chance(35) && len(ops) > 0 {
			// bias to replace-and-restore: reuse a source registered earlier
			src = c04Sources[r.Intn(2)]
		}
		if r.Chance(12) {
			// long sources that differ only behind a long common head (and have the same length)
			src = c04Long[r.Intn(len(c04Long))]
		}
		text, keep := "", r.Bool()
		if r.Chance(30) {
			text = c04Multi[r.Intn(len(c04Multi))]
			src = text
			if !keep {
				src = string(cutFmtDoc([]byte(text)))
			}
		}
		if r.Chance(8) {
			// a source the parser rejects: it must leave nothing behind for later calls
			ops = append(ops, regOp{Kind: "parsebad", ID: -1, Src: c04Malformed[r.Intn(len(c04Malformed))]})
			continue
		}
		switch r.Intn(11) {
		case 0:
			ops = append(ops, regOp{Kind: "parse", ID: -1, Src: src, Text: text, Keep: keep})
		case 1, 2:
			ops = append(ops, regOp{Kind: "register", ID: x, Key: c04Keys[x], Src: src, Text: text, Keep: keep})
		case 3:
			ops = append(ops, regOp{Kind: "register", ID: x, Src: src, Text: text, Keep: keep})
		case 4, 5:
			ops = append(ops, regOp{Kind: "register", ID: -1, Key: c04Keys[x], Src: src, Text: text, Keep: keep})
		case 6, 7:
			ops = append(ops, regOp{Kind: "renderKey", ID: -1, Key: c04Keys[x]})
		case 8:
			ops = append(ops, regOp{Kind: "renderID", ID: x})
		case 9:
			ops = append(ops, regOp{Kind: "renderFallback", ID: -1, Key: c04Keys[x], FB: c04Keys[r.Intn(3)]})
		default:
			a, b := r.Intn(3), r.Intn(3)
			ops = append(ops, regOp{Kind: "include", ID: -1, Names: []string{c04Keys[a], c04Keys[b]}})
		}
	}
	return ops
}

// runHistory executes the history on the real engine (fresh registry) and fills Obs.
func runHistory(ops []regOp) {
	dyntpl.VerifResetRegistry()
	// includers, outside the universe of names of the history
	for a := 0; a < 3; a++ {
		for b := 0; b < 3; b++ {
			// (every other includer names two templates that are never registered first, in the
			// shorter spelling of the tag: the lookup goes down the whole list)
			src := fmt.Sprintf("{%% include %s %s %%}", c04Keys[a], c04Keys[b])
			if (a+b)%2 == 1 {
				src = fmt.Sprintf("{%% . zz-never-1 zz-never-2 %s %s %%}", c04Keys[a], c04Keys[b])
			}
			t, err := dyntpl.Parse([]byte(src), false)
			if err == nil {
				dyntpl.RegisterTplKey(fmt.Sprintf("inc-%d-%d", a, b), t)
			}
		}
	}
	for i := range ops {
		op := &ops[i]
		o := guarded(5*time.Second, func() ([]byte, error) {
			ctx := dyntpl.NewCtx()
			switch op.Kind {
			case "parsebad":
				if _, err := dyntpl.Parse([]byte(op.Src), false); err != nil {
					return []byte("\x00rejected"), nil
				}
				return []byte("\x00accepted"), nil
			case "parse":
				t, err := dyntpl.Parse(op.real())
				if err != nil {
					return nil, err
				}
				d := dyntpl.VerifTree(t)
				var b bytes.Buffer
				for _, n := range d {
					b.Write(n.Raw)
				}
				return b.Bytes(), nil
			case "register":
				t, err := dyntpl.Parse(op.real())
				if err != nil {
					return nil, err
				}
				switch {
				case op.ID >= 0 && op.Key != "":
					dyntpl.RegisterTpl(op.ID, op.Key, t)
				case op.ID >= 0:
					dyntpl.RegisterTplID(op.ID, t)
				default:
					dyntpl.RegisterTplKey(op.Key, t)
				}
				return []byte("\x00unit"), nil
			case "renderKey":
				return dyntpl.Render(op.Key, ctx)
			case "renderID":
				return dyntpl.RenderByID(op.ID, ctx)
			case "renderFallback":
				return dyntpl.RenderFallback(op.Key, op.FB, ctx)
			default:
				var a, b int
				fmt.Sscanf(op.Names[0], "k%d", &a)
				fmt.Sscanf(op.Names[1], "k%d", &b)
				return dyntpl.Render(fmt.Sprintf("inc-%d-%d", a, b), ctx)
			}
		})
		switch {
		case o.Panic != "" || o.Hang:
			op.Obs = "panic:" + o.Panic
		case o.Err == dyntpl.ErrTplNotFound.Error():
			if len(o.Out) > 0 {
				op.Obs = "notfound-after-write:" + string(o.Out)
			} else {
				op.Obs = "notfound"
			}
		case o.Err != "":
			op.Obs = "err:" + o.Err
		case string(o.Out) == "\x00unit":
			op.Obs = "unit"
		case string(o.Out) == "\x00rejected":
			op.Obs = "rejected"
		case string(o.Out) == "\x00accepted":
			op.Obs = "accepted-malformed"
		default:
			op.Obs = "src:" + string(o.Out)
		}
	}
}

// specHistory: the two-map reference of the property (paired names share one registration).
func specHistory(ops []regOp) []string {
	type group struct{ src string }
	byKey := map[string]*group{}
	byID := map[int]*group{}
	var out []string
	for _, op := range ops {
		switch op.Kind {
		case "parsebad":
			out = append(out, "rejected")
		case "parse":
			out = append(out, "src:"+op.Src)
		case "register":
			var g *group
			if op.Key != "" && byKey[op.Key] != nil {
				g = byKey[op.Key]
			} else if op.ID >= 0 && byID[op.ID] != nil {
				g = byID[op.ID]
			} else {
				g = &group{}
			}
			g.src = op.Src
			if op.Key != "" {
				byKey[op.Key] = g
			}
			if op.ID >= 0 {
				byID[op.ID] = g
			}
			out = append(out, "unit")
		case "renderKey":
			if g := byKey[op.Key]; g != nil {
				out = append(out, "src:"+g.src)
			} else {
				out = append(out, "notfound")
			}
		case "renderID":
			if g := byID[op.ID]; g != nil {
				out = append(out, "src:"+g.src)
			} else {
				out = append(out, "notfound")
			}
		case "renderFallback":
			if g := byKey[op.Key]; g != nil {
				out = append(out, "src:"+g.src)
			} else if g := byKey[op.FB]; g != nil {
				out = append(out, "src:"+g.src)
			} else {
				out = append(out, "notfound")
			}
		default:
			res := "notfound"
			for _, n := range op.Names {
				if g := byKey[n]; g != nil {
					res = "src:" + g.src
					break
				}
			}
			out = append(out, res)
		}
	}
	return out
}

var crcTab = crc64.MakeTable(crc64.ISO)

func gRop(op regOp) string {
	switch op.Kind {
	case "parse":
		return "OParse " + gBytes([]byte(op.Src))
	case "register":
		key := op.Key
		if key == "" {
			key = "-1"
		}
		return fmt.Sprintf("ORegister %s %s %s", gZ(int64(op.ID)), gBytes([]byte(key)), gBytes([]byte(op.Src)))
	case "renderKey":
		return "ORenderKey " + gBytes([]byte(op.Key))
	case "renderID":
		return "ORenderID " + gZ(int64(op.ID))
	case "renderFallback":
		return fmt.Sprintf("ORenderFallback %s %s", gBytes([]byte(op.Key)), gBytes([]byte(op.FB)))
	}
	var ns []string
	for _, n := range op.Names {
		ns = append(ns, gBytes([]byte(n)))
	}
	return "OInclude " + gList(ns)
}

func gRobs(obs string) string {
	switch {
	case strings.HasPrefix(obs, "src:"):
		return "ObsSrc " + gBytes([]byte(obs[4:]))
	case obs == "notfound":
		return "ObsNotFound"
	case obs == "unit":
		return "ObsUnit"
	}
	return "ObsSrc " + gBytes([]byte("\x00"+obs)) // anything else never equals a model observation
}

func runC04(o *Options) *Result {
	res := NewResult()
	rng := NewRNG(o.Seed)
	n, maxLen := 300, 20
	if o.Tier == "thorough" {
		n, maxLen = 10000, 60
	}
	var hists [][]regOp
	// corpus: the A -> B -> A history of the property text
	hists = append(hists, []regOp{
		{Kind: "register", ID: -1, Key: "k0", Src: "source-A"}, {Kind: "register", ID: -1, Key: "k0", Src: "source-B"},
		{Kind: "parse", ID: -1, Src: "source-A"}, {Kind: "register", ID: -1, Key: "k0", Src: "source-A"}, {Kind: "renderKey", ID: -1, Key: "k0"}})
	hists = append(hists, []regOp{
		{Kind: "register", ID: -1, Key: "k1", Src: "source-A"}, {Kind: "register", ID: 1, Key: "k1", Src: "source-B"}, {Kind: "renderID", ID: 1}, {Kind: "renderKey", ID: -1, Key: "k1"}})
	for i := 0; i < n; i++ {
		hists = append(hists, genHistory(rng, maxLen))
	}
	for hi, ops := range hists {
		runHistory(ops)
		want := specHistory(ops)
		res.Evaluations++
		bad := -1
		for i := range ops {
			res.Hist("op:" + ops[i].Kind)
			res.Hist("obs:" + strings.SplitN(ops[i].Obs, ":", 2)[0])
			if ops[i].Obs != want[i] && bad < 0 {
				bad = i
			}
		}
		var sig []string
		for _, op := range ops {
			sig = append(sig, op.String())
		}
		res.Distinct(strings.Join(sig, ";"))
		if hi%40 == 1 {
			res.Sample(map[string]any{"history": sig, "observed": obsList(ops)}, 8)
		}
		if bad >= 0 {
			res.OracleFails++
			// shrink: drop steps before `bad` while the failure persists
			min := shrinkHistory(ops[:bad+1])
			var ms []string
			for _, op := range min {
				ms = append(ms, op.String())
			}
			w := specHistory(min)
			class := "registry:" + min[len(min)-1].Kind
			res.AddViolation(&Violation{Kind: "failing-input", Class: class,
				What:   fmt.Sprintf("after %s the step %s observes %q but the latest registration demands %q", strings.Join(ms[:len(ms)-1], "; "), ms[len(ms)-1], min[len(min)-1].Obs, w[len(w)-1]),
				Replay: map[string]any{"history": ms, "observed": obsList(min), "expected": w, "seed": o.Seed, "tier": o.Tier}})
		}
	}
	// correspondence with the Gallina registry model (V-mode), when it is part of the development
	if err := runRegistryModel(o, res, hists); err != nil {
		res.InfraError = err.Error()
		return res
	}
	res.pruneNoFailing()
	res.Rule = "histories over 3 keys x 3 ids x 4 sources (key k_i only ever paired with id i), biased to replace-and-restore, each on a fresh registry (VerifResetRegistry); every step's observation (source rendered / not found) is compared with the paired two-map reference and with the Gallina model; distinct by operation sequence; every generated history is non-trivial (>= 3 steps)"
	res.WriteReplays(o.Verif+"/evidence/replays", "C04")
	return res
}

func obsList(ops []regOp) []string {
	var l []string
	for _, op := range ops {
		l = append(l, op.Obs)
	}
	return l
}

// shrinkHistory removes steps (keeping the last) while the last step still disagrees with the reference.
func shrinkHistory(ops []regOp) []regOp {
	cur := append([]regOp(nil), ops...)
	fails := func(h []regOp) bool {
		runHistory(h)
		w := specHistory(h)
		return h[len(h)-1].Obs != w[len(w)-1]
	}
	for changed := true; changed; {
		changed = false
		for i := 0; i < len(cur)-1; i++ {
			cand := append(append([]regOp(nil), cur[:i]...), cur[i+1:]...)
			if fails(cand) {
				cur = cand
				changed = true
				break
			}
		}
	}
	runHistory(cur)
	return cur
}
