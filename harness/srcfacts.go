package main

import (
	"fmt"
	"go/ast"
	"go/parser"
	"go/printer"
	"go/token"
	"go/types"
	"os"
	"path/filepath"
	"sort"
	"strings"
)

// Source facts regenerated from /repo on every run (DESIGN.md 3.2): written as Gen/SrcFacts.v,
// over which Gen/SrcFactsCheck.v re-checks three small theorems.

type stubImporter struct{ pkgs map[string]*types.Package }

func (s *stubImporter) Import(path string) (*types.Package, error) {
	if p, ok := s.pkgs[path]; ok {
		return p, nil
	}
	name := path
	if i := strings.LastIndex(path, "/"); i >= 0 {
		name = path[i+1:]
	}
	p := types.NewPackage(path, name)
	p.MarkComplete()
	s.pkgs[path] = p
	return p, nil
}

var treeTypes = map[string]bool{"node": true, "Tree": true, "Tpl": true, "mod": true, "arg": true}

// files whose functions build trees (parsing, registration of built-ins, docs): not on the render path
func buildsTrees(file string) bool {
	b := filepath.Base(file)
	return strings.HasPrefix(b, "parser") || strings.HasPrefix(b, "tree") || b == "init.go" || strings.HasPrefix(b, "docgen") || b == "verif_hooks.go"
}

func namedOf(t types.Type) string {
	for {
		switch x := t.(type) {
		case *types.Pointer:
			t = x.Elem()
			continue
		case *types.Named:
			return x.Obj().Name()
		}
		return ""
	}
}

// mutatesTree: does assigning to lhs write through a value of a tree type?
func mutatesTree(info *types.Info, lhs ast.Expr) bool {
	switch x := lhs.(type) {
	case *ast.SelectorExpr:
		if t := info.TypeOf(x.X); t != nil && treeTypes[namedOf(t)] {
			return true
		}
		return mutatesTree(info, x.X)
	case *ast.IndexExpr:
		if t := info.TypeOf(x.X); t != nil {
			switch u := t.Underlying().(type) {
			case *types.Slice:
				if _, isPtr := u.Elem().(*types.Pointer); !isPtr && treeTypes[namedOf(u.Elem())] {
					// writing an element of a []node / []mod that belongs to a tree; a local slice is caught through its selector root
					if _, isSel := x.X.(*ast.SelectorExpr); isSel {
						return true
					}
				}
			}
		}
		return mutatesTree(info, x.X)
	case *ast.StarExpr:
		if t := info.TypeOf(x.X); t != nil && treeTypes[namedOf(t)] {
			return true
		}
		return mutatesTree(info, x.X)
	case *ast.ParenExpr:
		return mutatesTree(info, x.X)
	}
	return false
}

func runSrcFacts(o *Options) *Result {
	res := NewResult()
	fset := token.NewFileSet()
	repoDir := "/repo"
	if d := os.Getenv("VH_REPO_DEV"); d != "" {
		repoDir = d // development only: the registered checks always read /repo
	}
	matches, _ := filepath.Glob(repoDir + "/*.go")
	var files []*ast.File
	var names []string
	for _, f := range matches {
		if strings.HasSuffix(f, "_test.go") {
			continue
		}
		af, err := parser.ParseFile(fset, f, nil, 0)
		if err != nil {
			res.InfraError = "srcfacts: " + err.Error()
			return res
		}
		if af.Name.Name != "dyntpl" {
			continue
		}
		// honour build tags crudely: the hook file is part of the verif build only and is not library code
		files = append(files, af)
		names = append(names, f)
	}
	info := &types.Info{Types: map[ast.Expr]types.TypeAndValue{}, Uses: map[*ast.Ident]types.Object{}, Defs: map[*ast.Ident]types.Object{}, Selections: map[*ast.SelectorExpr]*types.Selection{}}
	conf := types.Config{Importer: &stubImporter{pkgs: map[string]*types.Package{}}, Error: func(error) {}}
	_, _ = conf.Check("dyntpl", fset, files, info)

	var sb strings.Builder
	sb.WriteString("(* GENERATED from /repo's current source by harness/srcfacts.go on every run. *)\nFrom Coq Require Import List String Bool ZArith.\nImport ListNotations.\nOpen Scope string_scope.\n")
	sb.WriteString("Inductive lockk := NoLock | RLock | WLock.\nRecord dbm := mkDbm { dm_name : string; dm_lock : lockk; dm_reads : bool; dm_writes : bool; dm_callees : list string }.\n")

	// (a) methods of *db
	type dbm struct {
		name, lock    string
		reads, writes bool
		callees       []string
	}
	var ms []dbm
	dbFields := map[string]bool{"idxID": true, "idxKey": true, "idxHash": true, "tpl": true}
	for _, af := range files {
		for _, d := range af.Decls {
			fd, ok := d.(*ast.FuncDecl)
			if !ok || fd.Recv == nil || len(fd.Recv.List) == 0 || fd.Body == nil {
				continue
			}
			if namedOf(info.TypeOf(fd.Recv.List[0].Type)) != "db" {
				continue
			}
			m := dbm{name: fd.Name.Name, lock: "NoLock"}
			recv := ""
			if len(fd.Recv.List[0].Names) > 0 {
				recv = fd.Recv.List[0].Names[0].Name
			}
			isDBField := func(e ast.Expr) bool {
				s, ok := e.(*ast.SelectorExpr)
				if !ok {
					return false
				}
				id, ok := s.X.(*ast.Ident)
				return ok && id.Name == recv && dbFields[s.Sel.Name]
			}
			var rootField func(e ast.Expr) bool
			rootField = func(e ast.Expr) bool {
				switch x := e.(type) {
				case *ast.IndexExpr:
					return rootField(x.X)
				case *ast.SelectorExpr:
					return isDBField(x) || rootField(x.X)
				}
				return false
			}
			ast.Inspect(fd.Body, func(n ast.Node) bool {
				switch x := n.(type) {
				case *ast.CallExpr:
					if s, ok := x.Fun.(*ast.SelectorExpr); ok {
						if inner, ok := s.X.(*ast.SelectorExpr); ok && inner.Sel.Name == "mux" {
							switch s.Sel.Name {
							case "Lock":
								m.lock = "WLock"
							case "RLock":
								if m.lock == "NoLock" {
									m.lock = "RLock"
								}
							}
						}
						if id, ok := s.X.(*ast.Ident); ok && id.Name == recv {
							m.callees = append(m.callees, s.Sel.Name)
						}
					}
				case *ast.AssignStmt:
					for _, l := range x.Lhs {
						if rootField(l) {
							m.writes = true
						}
					}
				case *ast.SelectorExpr:
					if isDBField(x) {
						m.reads = true
					}
				}
				return true
			})
			ms = append(ms, m)
		}
	}
	sort.Slice(ms, func(i, j int) bool { return ms[i].name < ms[j].name })
	var items []string
	for _, m := range ms {
		var cs []string
		for _, c := range m.callees {
			cs = append(cs, fmt.Sprintf("%q", c))
		}
		items = append(items, fmt.Sprintf("mkDbm %q %s %v %v %s", m.name, m.lock, m.reads, m.writes, gList(cs)))
	}
	fmt.Fprintf(&sb, "Definition db_methods : list dbm := %s.\n", gList(items))

	// (b) assignments through tree types outside the tree-building files
	var tw []string
	for i, af := range files {
		if buildsTrees(names[i]) {
			continue
		}
		for _, d := range af.Decls {
			fd, ok := d.(*ast.FuncDecl)
			if !ok || fd.Body == nil {
				continue
			}
			ast.Inspect(fd.Body, func(n ast.Node) bool {
				var lhs []ast.Expr
				switch x := n.(type) {
				case *ast.AssignStmt:
					if x.Tok != token.DEFINE {
						lhs = x.Lhs
					}
				case *ast.IncDecStmt:
					lhs = []ast.Expr{x.X}
				}
				for _, l := range lhs {
					if mutatesTree(info, l) {
						p := fset.Position(l.Pos())
						tw = append(tw, fmt.Sprintf("(%q, %q)", fd.Name.Name, fmt.Sprintf("%s:%d", filepath.Base(p.Filename), p.Line)))
					}
				}
				return true
			})
		}
	}
	fmt.Fprintf(&sb, "Definition tree_writes : list (string * string) := %s.\n", gList(tw))

	// (c) field inventory of Ctx
	var cf []string
	for _, af := range files {
		for _, d := range af.Decls {
			gd, ok := d.(*ast.GenDecl)
			if !ok {
				continue
			}
			for _, sp := range gd.Specs {
				ts, ok := sp.(*ast.TypeSpec)
				if !ok || ts.Name.Name != "Ctx" {
					continue
				}
				st, ok := ts.Type.(*ast.StructType)
				if !ok {
					continue
				}
				for _, f := range st.Fields.List {
					for _, n := range f.Names {
						cf = append(cf, fmt.Sprintf("%q", n.Name))
					}
				}
			}
		}
	}
	fmt.Fprintf(&sb, "Definition ctx_fields : list string := %s.\n", gList(cf))
	// (d) fields of ctxVar (one variable slot of the context)
	var vf []string
	for _, af := range files {
		for _, d := range af.Decls {
			gd, ok := d.(*ast.GenDecl)
			if !ok {
				continue
			}
			for _, sp := range gd.Specs {
				ts, ok := sp.(*ast.TypeSpec)
				if !ok || ts.Name.Name != "ctxVar" {
					continue
				}
				if st, ok := ts.Type.(*ast.StructType); ok {
					for _, f := range st.Fields.List {
						for _, n := range f.Names {
							vf = append(vf, fmt.Sprintf("%q", n.Name))
						}
					}
				}
			}
		}
	}
	fmt.Fprintf(&sb, "Definition ctxvar_fields : list string := %s.\n", gList(vf))

	// (e) what Ctx.Reset touches (through the helpers it calls and through local pointers into the
	// stores), which length field governs which store, and which slot fields every block of a
	// setter assigns.  Paths: ctx.F, ctx.F[i], ctx.F[i].G are "F", "F[]", "F[].G" (any receiver name).
	type aliasInfo struct{ path, idx string }
	ctxMethods := map[string]*ast.FuncDecl{}
	for _, af := range files {
		for _, d := range af.Decls {
			fd, ok := d.(*ast.FuncDecl)
			if !ok || fd.Recv == nil || len(fd.Recv.List) == 0 || fd.Body == nil || len(fd.Recv.List[0].Names) == 0 {
				continue
			}
			if namedOf(info.TypeOf(fd.Recv.List[0].Type)) == "Ctx" {
				ctxMethods[fd.Name.Name] = fd
			}
		}
	}
	// element type of every slice field of Ctx (for pointers handed out by helper methods)
	elemStore := map[string]string{}
	for _, af := range files {
		for _, d := range af.Decls {
			gd, ok := d.(*ast.GenDecl)
			if !ok {
				continue
			}
			for _, sp := range gd.Specs {
				ts, ok := sp.(*ast.TypeSpec)
				if !ok || ts.Name.Name != "Ctx" {
					continue
				}
				if st, ok := ts.Type.(*ast.StructType); ok {
					for _, f := range st.Fields.List {
						if at, ok := f.Type.(*ast.ArrayType); ok && at.Len == nil {
							if en := namedOf(info.TypeOf(at.Elt)); en != "" {
								for _, n := range f.Names {
									elemStore[en] = n.Name
								}
							}
						}
					}
				}
			}
		}
	}
	exprText := func(e ast.Expr) string {
		var ib strings.Builder
		_ = printer.Fprint(&ib, fset, e)
		return ib.String()
	}
	var resolve func(e ast.Expr, recv string, al map[types.Object]aliasInfo) (string, string, bool)
	resolve = func(e ast.Expr, recv string, al map[types.Object]aliasInfo) (path string, idx string, ok bool) {
		switch x := e.(type) {
		case *ast.Ident:
			if a, has := al[info.ObjectOf(x)]; has {
				return a.path, a.idx, true
			}
		case *ast.SelectorExpr:
			if id, isID := x.X.(*ast.Ident); isID && id.Name == recv {
				if _, shadow := al[info.ObjectOf(id)]; !shadow {
					return x.Sel.Name, "", true
				}
			}
			if p, i, ok := resolve(x.X, recv, al); ok {
				return p + "." + x.Sel.Name, i, true
			}
		case *ast.IndexExpr:
			if p, _, ok := resolve(x.X, recv, al); ok {
				return p + "[]", exprText(x.Index), true
			}
		case *ast.SliceExpr:
			return resolve(x.X, recv, al)
		case *ast.ParenExpr:
			return resolve(x.X, recv, al)
		case *ast.StarExpr:
			return resolve(x.X, recv, al)
		case *ast.UnaryExpr:
			if x.Op == token.AND {
				return resolve(x.X, recv, al)
			}
		}
		return "", "", false
	}
	// noteAlias records v := &ctx.F[i] (or v := ctx.helper(..) returning a pointer to an element type)
	noteAlias := func(as *ast.AssignStmt, recv string, al map[types.Object]aliasInfo) {
		if len(as.Lhs) != len(as.Rhs) {
			return
		}
		for k, l := range as.Lhs {
			id, ok := l.(*ast.Ident)
			if !ok || id.Name == "_" {
				continue
			}
			obj := info.ObjectOf(id)
			if obj == nil {
				continue
			}
			switch r := as.Rhs[k].(type) {
			case *ast.UnaryExpr:
				if r.Op == token.AND {
					if p, i, ok := resolve(r.X, recv, al); ok {
						al[obj] = aliasInfo{p, i}
					}
				}
			case *ast.CallExpr:
				if se, ok := r.Fun.(*ast.SelectorExpr); ok {
					if rid, ok := se.X.(*ast.Ident); ok && rid.Name == recv {
						if pt, ok := info.TypeOf(r).(*types.Pointer); ok {
							if st, has := elemStore[namedOf(pt.Elem())]; has {
								al[obj] = aliasInfo{st + "[]", "i"} // a pointer to an existing element
							}
						}
					}
				}
			}
		}
	}
	var resetTouched []string
	seenTouched := map[string]bool{}
	addTouched := func(p string) {
		if !seenTouched[p] {
			seenTouched[p] = true
			resetTouched = append(resetTouched, fmt.Sprintf("%q", p))
		}
	}
	visited := map[string]bool{}
	var walkReset func(fd *ast.FuncDecl)
	walkReset = func(fd *ast.FuncDecl) {
		if visited[fd.Name.Name] {
			return
		}
		visited[fd.Name.Name] = true
		recv := fd.Recv.List[0].Names[0].Name
		al := map[types.Object]aliasInfo{}
		ast.Inspect(fd.Body, func(n ast.Node) bool {
			switch x := n.(type) {
			case *ast.AssignStmt:
				noteAlias(x, recv, al)
				for _, l := range x.Lhs {
					if p, _, ok := resolve(l, recv, al); ok {
						addTouched(p)
					}
				}
			case *ast.IncDecStmt:
				if p, _, ok := resolve(x.X, recv, al); ok {
					addTouched(p)
				}
			case *ast.CallExpr:
				if se, ok := x.Fun.(*ast.SelectorExpr); ok {
					if se.Sel.Name == "Reset" {
						if p, _, ok := resolve(se.X, recv, al); ok {
							addTouched(p + ".Reset()")
						}
					}
					if rid, ok := se.X.(*ast.Ident); ok && rid.Name == recv {
						if callee, has := ctxMethods[se.Sel.Name]; has {
							walkReset(callee)
						}
					}
				}
			}
			return true
		})
	}
	if fd, ok := ctxMethods["Reset"]; ok {
		walkReset(fd)
	}
	// which integer field is the logical length of which store: ctx.S[ctx.L], ctx.S[:ctx.L], or a
	// loop bounded by ctx.L whose body indexes ctx.S by the loop variable
	var storeLen []string
	seenSL := map[string]bool{}
	addSL := func(st, ln string) {
		k := st + "/" + ln
		if !seenSL[k] && st != "" && ln != "" {
			seenSL[k] = true
			storeLen = append(storeLen, fmt.Sprintf("(%q, %q)", st, ln))
		}
	}
	mnames := make([]string, 0, len(ctxMethods))
	for n := range ctxMethods {
		mnames = append(mnames, n)
	}
	sort.Strings(mnames)
	for _, mn := range mnames {
		fd := ctxMethods[mn]
		recv := fd.Recv.List[0].Names[0].Name
		field := func(e ast.Expr) string {
			if se, ok := e.(*ast.SelectorExpr); ok {
				if id, ok := se.X.(*ast.Ident); ok && id.Name == recv {
					return se.Sel.Name
				}
			}
			return ""
		}
		ast.Inspect(fd.Body, func(n ast.Node) bool {
			switch x := n.(type) {
			case *ast.IndexExpr:
				addSL(field(x.X), field(x.Index))
			case *ast.SliceExpr:
				if x.High != nil {
					addSL(field(x.X), field(x.High))
				}
			case *ast.ForStmt:
				be, ok := x.Cond.(*ast.BinaryExpr)
				if !ok || x.Body == nil {
					return true
				}
				iv, ok := be.X.(*ast.Ident)
				ln := field(be.Y)
				if !ok || ln == "" {
					return true
				}
				ast.Inspect(x.Body, func(m ast.Node) bool {
					if ie, ok := m.(*ast.IndexExpr); ok {
						if id, ok := ie.Index.(*ast.Ident); ok && id.Name == iv.Name {
							addSL(field(ie.X), ln)
						}
					}
					return true
				})
			}
			return true
		})
	}
	fmt.Fprintf(&sb, "Definition store_len : list (string * string) := %s.\n", gList(storeLen))
	type slotBlock struct {
		fn, idx string
		fields  map[string]bool
	}
	var blocks []*slotBlock
	for _, sn := range []string{"Set", "SetBytes", "SetCounter"} {
		fd, ok := ctxMethods[sn]
		if !ok {
			continue
		}
		recv := fd.Recv.List[0].Names[0].Name
		al := map[types.Object]aliasInfo{}
		// aliases first (they may be declared in the header of an if or for statement)
		ast.Inspect(fd.Body, func(n ast.Node) bool {
			if as, ok := n.(*ast.AssignStmt); ok {
				noteAlias(as, recv, al)
			}
			return true
		})
		// every statement list that assigns slot fields directly is one block
		ast.Inspect(fd.Body, func(n ast.Node) bool {
			bs, ok := n.(*ast.BlockStmt)
			if !ok {
				return true
			}
			byIdx := map[string]*slotBlock{}
			for _, st := range bs.List {
				as, ok := st.(*ast.AssignStmt)
				if !ok {
					continue
				}
				for _, l := range as.Lhs {
					if p, idx, ok := resolve(l, recv, al); ok && strings.HasPrefix(p, "vars[].") {
						// normal forms: the logical length of the variable store is "ctx.ln" (whatever
						// receiver and field are called), any plain loop variable is "i"
						if strings.HasPrefix(idx, recv+".") && seenSL["vars/"+strings.TrimPrefix(idx, recv+".")] {
							idx = "ctx.ln"
						} else if token.IsIdentifier(idx) {
							idx = "i"
						}
						b := byIdx[idx]
						if b == nil {
							b = &slotBlock{fn: sn, idx: idx, fields: map[string]bool{}}
							byIdx[idx] = b
							blocks = append(blocks, b)
						}
						b.fields[strings.TrimPrefix(p, "vars[].")] = true
					}
				}
			}
			return true
		})
	}
	fmt.Fprintf(&sb, "Definition reset_touched : list string := %s.\n", gList(resetTouched))
	var bl []string
	for _, b := range blocks {
		var fs []string
		for f := range b.fields {
			fs = append(fs, fmt.Sprintf("%q", f))
		}
		sort.Strings(fs)
		bl = append(bl, fmt.Sprintf("(%q, %q, %s)", b.fn, b.idx, gList(fs)))
	}
	fmt.Fprintf(&sb, "Definition slot_blocks : list (string * string * list string) := %s.\n", gList(bl))
	// (f) inventories: node type constants (in order), error values with their messages,
	// modifiers registered by the library's init (name, alias, namespace)
	var nodeTypes, errVals, mods []string
	for _, af := range files {
		for _, d := range af.Decls {
			if gd, ok := d.(*ast.GenDecl); ok {
				for _, sp := range gd.Specs {
					vs, ok := sp.(*ast.ValueSpec)
					if !ok {
						continue
					}
					for i, n := range vs.Names {
						if gd.Tok == token.CONST && strings.HasPrefix(n.Name, "type") {
							if obj, ok := info.Defs[n].(*types.Const); ok && namedOf(obj.Type()) == "rtype" {
								nodeTypes = append(nodeTypes, fmt.Sprintf("(%q, %s%%Z)", n.Name, obj.Val().ExactString()))
							}
						}
						if gd.Tok == token.VAR && strings.HasPrefix(n.Name, "Err") && i < len(vs.Values) {
							if call, ok := vs.Values[i].(*ast.CallExpr); ok && len(call.Args) == 1 {
								if lit, ok := call.Args[0].(*ast.BasicLit); ok && lit.Kind == token.STRING {
									errVals = append(errVals, fmt.Sprintf("(%q, %s)", n.Name, lit.Value))
								}
							}
						}
					}
				}
			}
			fd, ok := d.(*ast.FuncDecl)
			if !ok || fd.Body == nil || fd.Name.Name != "init" {
				continue
			}
			ast.Inspect(fd.Body, func(n ast.Node) bool {
				call, ok := n.(*ast.CallExpr)
				if !ok {
					return true
				}
				id, ok := call.Fun.(*ast.Ident)
				if !ok {
					return true
				}
				str := func(e ast.Expr) string {
					if l, ok := e.(*ast.BasicLit); ok && l.Kind == token.STRING {
						return strings.Trim(l.Value, "\"")
					}
					return "?"
				}
				switch {
				case id.Name == "RegisterModFn" && len(call.Args) >= 2:
					mods = append(mods, fmt.Sprintf("(%q, %q, %q)", "", str(call.Args[0]), str(call.Args[1])))
				case id.Name == "RegisterModFnNS" && len(call.Args) >= 3:
					mods = append(mods, fmt.Sprintf("(%q, %q, %q)", str(call.Args[0]), str(call.Args[1]), str(call.Args[2])))
				}
				return true
			})
		}
	}
	fmt.Fprintf(&sb, "Definition node_types : list (string * Z) := %s.\n", gList(nodeTypes))
	fmt.Fprintf(&sb, "Definition error_values : list (string * string) := %s.\n", gList(errVals))
	fmt.Fprintf(&sb, "Definition registered_mods : list (string * string * string) := %s.\n", gList(mods))
	if err := os.WriteFile(o.WorkDir+"/SrcFacts.v", []byte(sb.String()), 0o644); err != nil {
		res.InfraError = err.Error()
	}
	res.Evaluations = len(ms) + len(cf)
	return res
}

func init() { runners["SRCFACTS"] = runSrcFacts }
