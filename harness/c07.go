package main

import (
	"bytes"
	"encoding/json"
	"os"
	"unicode/utf8"
)

func init() { runners["C07"] = runC07 }

var c07Forms = []EscForm{
	{Name: "j", Tpl: "{%j= $V %}", Fn: 3, Itr: 1},
	{Name: "jj", Tpl: "{%jj= $V %}", Fn: 3, Itr: 2},
	{Name: "jjj", Tpl: "{%jjj= $V %}", Fn: 3, Itr: 3},
	{Name: "|jsonEscape", Tpl: "{%= $V|jsonEscape %}", Fn: 3, Itr: 1},
	{Name: "q", Tpl: "{%q= $V %}", Fn: 4, Itr: 1},
	{Name: "|jsonQuote", Tpl: "{%= $V|jsonQuote %}", Fn: 4, Itr: 1},
	{Name: "region-raw", Fn: 3, Itr: 1, Region: "jsonquote"},
	{Name: "|je", Tpl: "{%= $V|je %}", Fn: 3, Itr: 1},
	{Name: "|jq", Tpl: "{%= $V|jq %}", Fn: 4, Itr: 1},
	{Name: "j-tight", Tpl: "{%j=$V%}", Fn: 3, Itr: 1},
	{Name: "j<-default", Tpl: "{%j= nosuchvar|default($V) %}", Fn: 3, Itr: 1, MinIn: 1},
	{Name: "q<-def", Tpl: "{%q= nosuchvar|def($V) %}", Fn: 4, Itr: 1, MinIn: 1},
}

// jsonBodySafe: RFC 8259 alphabet of a string body — no raw quote, no raw control, every backslash starts a valid escape.
func jsonBodySafe(b []byte) string {
	for i := 0; i < len(b); i++ {
		c := b[i]
		switch {
		case c == '"':
			return "raw double quote in the escaped text"
		case c < 0x20:
			return "raw control character in the escaped text"
		case c == '\\':
			if i+1 >= len(b) {
				return "dangling backslash"
			}
			e := b[i+1]
			if e == 'u' {
				if i+5 >= len(b) {
					return "truncated \\u escape"
				}
				for _, h := range b[i+2 : i+6] {
					if !(h >= '0' && h <= '9' || h >= 'a' && h <= 'f' || h >= 'A' && h <= 'F') {
						return "malformed \\u escape"
					}
				}
				i += 5
			} else if bytes.IndexByte([]byte(`"\/bfnrt`), e) >= 0 {
				i++
			} else {
				return "invalid escape"
			}
		}
	}
	return ""
}

func oracleC07(f EscForm, in, out []byte) string {
	if !utf8.Valid(in) {
		// outside the property's quantifier (valid UTF-8): only the alphabet is checked
		return ""
	}
	cur := out
	if f.Fn == 4 {
		if len(cur) < 2 || cur[0] != '"' || cur[len(cur)-1] != '"' {
			return "json-quote output is not wrapped in double quotes"
		}
		var s string
		if err := json.Unmarshal(cur, &s); err != nil {
			return "encoding/json rejects the quoted literal: " + err.Error()
		}
		if s != string(in) {
			return "the quoted literal does not decode to the input"
		}
		return jsonBodySafe(cur[1 : len(cur)-1])
	}
	if len(in) == 0 {
		if len(out) != 0 {
			return "non-empty output for empty input"
		}
		return ""
	}
	for i := 0; i < f.Itr; i++ {
		if m := jsonBodySafe(cur); m != "" {
			return m
		}
		var s string
		lit := append(append([]byte{'"'}, cur...), '"')
		if err := json.Unmarshal(lit, &s); err != nil {
			return "encoding/json rejects the escaped text between quotes: " + err.Error()
		}
		cur = []byte(s)
	}
	if !bytes.Equal(cur, in) {
		return "the escaped text between quotes does not decode to the input"
	}
	return ""
}

// randUTF8 draws valid UTF-8 strings biased to JSON/HTML/JS-relevant characters.
func randUTF8(r *RNG, maxLen int) []byte {
	n := r.Intn(maxLen + 1)
	var b []byte
	special := []rune{'"', '\'', '\\', '/', '<', '>', '&', '\n', '\r', '\t', '\b', '\f', 0, 1, 0x0b, 0x1f, 0x7f, 0x80, 0x85, 0x9f, 0xa0, 0xe9, 0x2028, 0x2029, 0xfeff, 0xfffd, 0x1f600, 0x20000, 0x10ffff, ';', '#', 'x', '-', '_', '.', ',', '~', '%', ' ', 'u', '0', '2', '7'}
	for i := 0; i < n; i++ {
		var c rune
		switch r.Intn(8) {
		case 0, 1, 2:
			c = special[r.Intn(len(special))]
		case 3:
			c = rune(r.Intn(0x80))
		case 4:
			c = rune('a' + r.Intn(26))
		case 5:
			c = rune(r.Intn(0x800))
		case 6:
			c = rune(r.Intn(0x110000))
		default:
			c = rune(0x20 + r.Intn(0x5f))
		}
		if c >= 0xD800 && c <= 0xDFFF {
			c = 0xFFFD
		}
		b = utf8.AppendRune(b, c)
	}
	return b
}

func runC07(o *Options) *Result {
	res := runEscaperProperty(o, "C07", c07Forms, oracleC07, escPlan{
		Singles: true, Pairs: true, PairForms: []string{"j", "q"},
		RandomQuick: 3000, RandomThorough: 300000, MaxLen: 40, ByteLevel: true, Scalars: true,
		ScalarForms: []string{"j", "q"},
		Gen:         randUTF8,
		CorrName:    "correspondence json_escape/json_quote (Model/EscJSON.v) vs mod_json.go",
		DecFn:       102, DecRef: func(in []byte) ([]byte, bool) {
			if !utf8.Valid(in) {
				return nil, false
			}
			// a string literal, not a JSON text: encoding/json would also accept white space around it
			if len(in) < 2 || in[0] != '"' || in[len(in)-1] != '"' {
				return nil, false
			}
			var s string
			if err := json.Unmarshal(in, &s); err != nil {
				return nil, false
			}
			return []byte(s), true
		},
		DecSkip: func(in []byte) bool { return !utf8.Valid(in) },
		DecGen: func(r *RNG, maxLen int) []byte {
			n := r.Intn(maxLen + 1)
			b := []byte{'"'}
			al := []string{"\\", "\"", "u", "d83d", "de00", "D800", "dc00", "0041", "00e9", "n", "t", "/", "b", "x", "a", " ", "\\u", "\\\\", "\\\"", "é", "\x01", "20ac", "fffd", "FFFF"}
			for i := 0; i < n; i++ {
				b = append(b, al[r.Intn(len(al))]...)
			}
			if r.Chance(85) {
				b = append(b, '"')
			}
			return b
		},
	})
	if res.InfraError != "" {
		return res
	}
	// everything rendered inside a jsonquote region: interpreter-level correspondence and reference semantics
	sub := *o
	sub.WorkDir = o.WorkDir + "/region"
	_ = os.MkdirAll(sub.WorkDir, 0o755)
	return mergeResults(res, runInterp(&sub, "C07", regionProfile("jsonquote"), 200, 4000, corrInterp))
}
