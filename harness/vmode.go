package main

import (
	"bytes"
	"errors"
	"fmt"
	"io"
	"os"
	"os/exec"
	"regexp"
	"strings"
	"sync"

	"github.com/koykov/dyntpl"
)

var errInjected = errors.New("verif: injected writer fault")
var errVFail = errors.New("verif: vfail")

// faultWriter accepts the first k-1 Write calls, fails the k-th (accepting `short` bytes of it) and all later ones.
type faultWriter struct {
	buf    bytes.Buffer
	n      int
	k      int // 0 = never fail
	short  int
	failed bool
}

func (f *faultWriter) Write(p []byte) (int, error) {
	f.n++
	if f.k == 0 || f.n < f.k {
		f.buf.Write(p)
		return len(p), nil
	}
	f.failed = true
	if f.n == f.k {
		s := f.short
		if s > len(p) {
			s = len(p)
		}
		f.buf.Write(p[:s])
		return s, errInjected
	}
	return 0, errInjected
}

var _ io.Writer = (*faultWriter)(nil)

// VRun is one observed run of a case.
type VRun struct {
	Fail   int
	Short  int
	Obs    Obs
	Writes int
}

// VCase is one V-mode case: a parsed tree, the registry it includes from, the data, the runs.
type VCase struct {
	ID            int
	Src           string
	KeepFmt       bool
	Tree          []dyntpl.VerifNode
	Reg           map[string][]dyntpl.VerifNode
	RegKeys       []string
	Data          *DataEnv
	Flits         map[string]float64
	Budget        int
	Runs          []VRun
	Meta          map[string]any
	Spec          string   // Gallina definition of the specification-side case (optional)
	SpecVerdict   string   // "ok" | "na" | "bad <hex> <err>" | ""
	ParseVerdict  string   // "ok", "bad" or ""
	PMVerdict     string   // parser model on the bytes of the source: "PMOk", "PMBadTree", "PMBadErr", "PMFuel" or ""
	NoParserModel bool     // leave the parser model out for this case
	Verdict       []string // filled by RunCases: "ok" | "skip" | "fuel" | "bad <hex> <err> <writes>"
}

func (vc *VCase) gallina() string {
	var sb strings.Builder
	fmt.Fprintf(&sb, "Definition c%d : vcase := mkVCase\n  %s\n", vc.ID, gNodes(vc.Tree))
	var regs []string
	for _, k := range vc.RegKeys {
		regs = append(regs, fmt.Sprintf("(%s, %s)", gBytes([]byte(k)), gNodes(vc.Reg[k])))
	}
	fmt.Fprintf(&sb, "  %s\n  %s\n", gList(regs), vc.Data.Slots())
	var fl []string
	for k, f := range vc.Flits {
		fl = append(fl, fmt.Sprintf("(%s, %d%%Z)", gBytes([]byte(k)), float64bits(f)))
	}
	fmt.Fprintf(&sb, "  %s %s\n", gList(fl), gNat(vc.Budget))
	var runs []string
	for _, r := range vc.Runs {
		fail := "None"
		if r.Fail > 0 {
			fail = fmt.Sprintf("(Some %s)", gNat(r.Fail))
		}
		runs = append(runs, fmt.Sprintf("mkRun %s %s %s %d%%N %s", fail, gNat(r.Short), gBytes(r.Obs.Out), errCode(r.Obs), gNat(r.Writes)))
	}
	fmt.Fprintf(&sb, "  %s.\n", gList(runs))
	return sb.String()
}

var reVerdict = regexp.MustCompile(`VOk|VSkip|VFuel|VBad\s+"([0-9a-f]*)"\s+(\d+)\s+(\d+)`)
var rePVerdict = regexp.MustCompile(`ParseOk|ParseBad`)
var reSVerdict = regexp.MustCompile(`SpecOk|SpecNA|SpecBad\s+"([0-9a-f]*)"\s+(\d+)`)

// RunCases evaluates the cases in the Gallina model: cases.v shards, one coqc each, in parallel.
func RunCases(o *Options, cases []*VCase) error {
	const shard = 120
	// the parser model of this run; when it cannot be regenerated from the source the cases run
	// without it and the runner reports that (parserModelBroken)
	gennow, gerr := prepareGenNow(o)
	usePM := gerr == nil
	type job struct{ lo, hi int }
	var jobs []job
	for lo := 0; lo < len(cases); lo += shard {
		hi := lo + shard
		if hi > len(cases) {
			hi = len(cases)
		}
		jobs = append(jobs, job{lo, hi})
	}
	var wg sync.WaitGroup
	sem := make(chan struct{}, 14)
	errs := make([]error, len(jobs))
	for ji, j := range jobs {
		wg.Add(1)
		go func(ji int, j job) {
			defer wg.Done()
			sem <- struct{}{}
			defer func() { <-sem }()
			var sb strings.Builder
			sb.WriteString("From Coq Require Import String.\nFrom DT Require Import Model.Bytes Model.Value Model.Tree Model.Interp Model.VCase Spec.Ast Spec.RefEval Spec.SCase Model.Parser Model.PCase.\n")
			if usePM {
				sb.WriteString("From GenNow Require Import RegexTable ParseEnv.\n")
			}
			sb.WriteString("Local Open Scope string_scope.\n")
			var names, snames, pnames, pmnames []string
			pmcount := map[int]int{}
			for _, c := range cases[j.lo:j.hi] {
				sb.WriteString(c.gallina())
				names = append(names, fmt.Sprintf("check_case c%d", c.ID))
				var pt []string
				if usePM {
					pt = c.parserModelTerms()
				}
				pmcount[c.ID] = len(pt)
				pmnames = append(pmnames, pt...)
				if c.Spec != "" {
					sb.WriteString(c.Spec)
					snames = append(snames, fmt.Sprintf("spec_check s%d", c.ID))
					pnames = append(pnames, fmt.Sprintf("parse_check s%d (vc_tree c%d) (vc_reg c%d)", c.ID, c.ID, c.ID))
				}
			}
			fmt.Fprintf(&sb, "Definition verdicts := Eval vm_compute in %s.\nPrint verdicts.\n", gList(names))
			fmt.Fprintf(&sb, "Definition sverdicts := Eval vm_compute in %s.\nPrint sverdicts.\n", gList(snames))
			fmt.Fprintf(&sb, "Definition pverdicts := Eval vm_compute in %s.\nPrint pverdicts.\n", gList(pnames))
			fmt.Fprintf(&sb, "Definition pmverdicts := Eval vm_compute in %s.\nPrint pmverdicts.\n", gList(pmnames))
			dir := fmt.Sprintf("%s/shard%d", o.WorkDir, ji)
			_ = os.MkdirAll(dir, 0o755)
			file := dir + "/cases.v"
			if err := os.WriteFile(file, []byte(sb.String()), 0o644); err != nil {
				errs[ji] = err
				return
			}
			cmd := coqcCmd("1200", "-Q", o.CoqDir, "DT", "-Q", gennow, "GenNow", "-Q", dir, "Cases", file)
			out, err := cmd.CombinedOutput()
			if err != nil {
				errs[ji] = fmt.Errorf("coqc on %s: %v\n%s", file, err, tail(string(out), 1500))
				return
			}
			// verdicts come back as a list of lists, in order
			outs := string(out)
			sm := reSVerdict.FindAllStringSubmatch(outs, -1)
			si := 0
			for _, c := range cases[j.lo:j.hi] {
				if c.Spec == "" {
					continue
				}
				if si >= len(sm) {
					errs[ji] = fmt.Errorf("coqc on %s: fewer spec verdicts than cases", file)
					return
				}
				m := sm[si]
				si++
				switch m[0] {
				case "SpecOk":
					c.SpecVerdict = "ok"
				case "SpecNA":
					c.SpecVerdict = "na"
				default:
					c.SpecVerdict = fmt.Sprintf("bad -%s %s", m[1], m[2])
				}
			}
			pmm := rePMVerdict.FindAllString(outs, -1)
			pmi := 0
			for _, c := range cases[j.lo:j.hi] {
				n := pmcount[c.ID]
				if pmi+n > len(pmm) {
					errs[ji] = fmt.Errorf("coqc on %s: fewer parser-model verdicts than checks", file)
					return
				}
				c.PMVerdict = pmSummary(pmm[pmi : pmi+n])
				pmi += n
			}
			pm := rePVerdict.FindAllString(outs, -1)
			pi := 0
			for _, c := range cases[j.lo:j.hi] {
				if c.Spec == "" {
					continue
				}
				if pi >= len(pm) {
					errs[ji] = fmt.Errorf("coqc on %s: fewer parse verdicts than cases", file)
					return
				}
				if pm[pi] == "ParseOk" {
					c.ParseVerdict = "ok"
				} else {
					c.ParseVerdict = "bad"
				}
				pi++
			}
			ms := reVerdict.FindAllStringSubmatch(outs, -1)
			k := 0
			for _, c := range cases[j.lo:j.hi] {
				c.Verdict = nil
				for range c.Runs {
					if k >= len(ms) {
						errs[ji] = fmt.Errorf("coqc on %s: fewer verdicts than runs", file)
						return
					}
					m := ms[k]
					k++
					switch {
					case m[0] == "VOk":
						c.Verdict = append(c.Verdict, "ok")
					case m[0] == "VSkip":
						c.Verdict = append(c.Verdict, "skip")
					case m[0] == "VFuel":
						c.Verdict = append(c.Verdict, "fuel")
					default:
						c.Verdict = append(c.Verdict, fmt.Sprintf("bad -%s %s %s", m[1], m[2], m[3]))
					}
				}
			}
			if k != len(ms) {
				errs[ji] = fmt.Errorf("coqc on %s: %d verdicts for %d runs", file, len(ms), k)
			}
		}(ji, j)
	}
	wg.Wait()
	for _, e := range errs {
		if e != nil {
			return e
		}
	}
	return nil
}

func tail(s string, n int) string {
	if len(s) > n {
		return s[len(s)-n:]
	}
	return s
}

// coqcCmd runs coqc under a time limit with the stack limit lifted: vm_compute recurses on the C
// stack, and a model output of some hundred kilobytes (or its hex form in a verdict) needs more
// than the default 8 MB.
func coqcCmd(timeoutSec string, args ...string) *exec.Cmd {
	script := `ulimit -s unlimited 2>/dev/null || ulimit -s 4000000 2>/dev/null; exec timeout "$0" coqc "$@"`
	return exec.Command("sh", append([]string{"-c", script, timeoutSec}, args...)...)
}
