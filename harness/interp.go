package main

import (
	"bytes"
	"encoding/json"
	"fmt"
	"os"
	"regexp"
	"sort"
	"strconv"
	"strings"
	"time"

	"github.com/koykov/dyntpl"
	"github.com/koykov/inspector/testobj"
)

// Correspondence runner shared by the interpreter-level properties: generate (template, data),
// run the real engine (all fault positions where asked), dump the real tree, evaluate the same
// runs in the Gallina model (V-mode) and compare.

type interpCase struct {
	vc     *VCase
	ast    []*Ast
	tags   map[string]bool
	incs   [][]*Ast
	expect *corpusExpect     // corpus cases carry their expected result
	incSrc map[string]string // corpus cases: include key -> source
	incIdx []int             // index into incs of each registered include key (vc.RegKeys order)
	spec   string            // verdict of the reference semantics: "ok" | "na" | "bad <hex> <err>"
}

func renderRun(key string, data *DataEnv, fail, short int) VRun {
	fw := &faultWriter{k: fail, short: short}
	obs := guarded(5*time.Second, func() ([]byte, error) {
		ctx := dyntpl.NewCtx()
		data.Apply(ctx)
		err := dyntpl.Write(fw, key, ctx)
		return nil, err
	})
	if !obs.Hang {
		obs.Out = append([]byte(nil), fw.buf.Bytes()...)
	} else {
		noteHang(key)
	}
	return VRun{Fail: fail, Short: short, Obs: obs, Writes: fw.n}
}

// namesCovered: every variable the first data set defines is defined (hence overwritten) by the second.
func namesCovered(prev, cur *DataEnv) bool {
	have := map[string]bool{}
	if cur.User.Present {
		have["user"] = true
	}
	for _, s := range cur.Statics {
		have[s.Name] = true
	}
	if prev.User.Present && !have["user"] {
		return false
	}
	for _, s := range prev.Statics {
		if !have[s.Name] {
			return false
		}
	}
	return true
}

// warmRun renders twice on one context with a Reset in between and returns the second observation.
// With failAt > 0 the first render's writer refuses its failAt-th write (after one byte of it): a
// render that was cut short leaves nothing behind a Reset either.
func warmRun(key string, data *DataEnv, failAt int) Obs {
	var second bytes.Buffer
	obs := guarded(10*time.Second, func() ([]byte, error) {
		ctx := dyntpl.NewCtx()
		data.Apply(ctx)
		first := &faultWriter{k: failAt, short: 1}
		_ = dyntpl.Write(first, key, ctx)
		ctx.Reset()
		data.Apply(ctx)
		err := dyntpl.Write(&second, key, ctx)
		return nil, err
	})
	harnessLog.take()
	if !obs.Hang {
		obs.Out = append([]byte(nil), second.Bytes()...)
	}
	return obs
}

func firstLine(s string) string {
	if i := strings.IndexByte(s, '\n'); i >= 0 {
		return s[:i]
	}
	return s
}

func parseDump(src []byte, keepFmt bool) (string, []dyntpl.VerifNode, Obs) {
	key := fmt.Sprintf("vh%d", tplSeqNext())
	var dump []dyntpl.VerifNode
	o := guarded(5*time.Second, func() ([]byte, error) {
		tree, err := dyntpl.Parse(src, keepFmt)
		if err != nil {
			return nil, err
		}
		dump = dyntpl.VerifTree(tree)
		dyntpl.RegisterTplKey(key, tree)
		return nil, nil
	})
	pmObserve(src, keepFmt, o, dump)
	keySrc.Store(key, string(src))
	return key, dump, o
}

func genInterpCase(id int, rng *RNG, prof *Profile) *interpCase {
	g := &Gen{r: rng, p: prof, flits: map[string]float64{}, tags: map[string]bool{}, budget: 4}
	g.genData()
	if len(g.data.User.History) >= 256 {
		// a large collection: a small flat template around it (nested loops over 300 elements,
		// inside includes, cost minutes of model evaluation and add nothing)
		small := *prof
		small.MaxDepth, small.MaxItems, small.Includes = 1, 2, false
		prof = &small
		g.p = prof
	}
	ic := &interpCase{tags: g.tags}
	vc := &VCase{ID: id, Data: g.data, Flits: g.flits, Reg: map[string][]dyntpl.VerifNode{}, Meta: map[string]any{}}
	if prof.Includes {
		// sub-templates first (they may include earlier ones: acyclic by construction)
		n := 1 + rng.Intn(3)
		for j := 0; j < n; j++ {
			sub := g.genItems(1, g.small())
			trimTail(sub)
			ic.incs = append(ic.incs, sub)
			src := printNodes(sub)
			key, dump, o := parseDump([]byte(src), false)
			if o.ErrClass() != "OK" {
				vc.Meta["include_parse_error"] = src + " :: " + o.Err + o.Panic
				continue
			}
			g.incs = append(g.incs, key)
			ic.incIdx = append(ic.incIdx, len(ic.incs)-1)
			vc.Reg[key] = dump
			vc.RegKeys = append(vc.RegKeys, key)
			vc.Meta["inc:"+key] = src
		}
	}
	ic.ast = g.genItems(0, 1+rng.Intn(prof.MaxItems))
	if prof.Faults && prof.BreakN && rng.Chance(25) {
		ic.ast = append(ic.ast, g.genTailLoop())
	}
	if prof.OKFlags && rng.Chance(12) {
		// successive counter loops; the first loop's variable is read during and after the second
		a, b := g.newVar("i"), g.newVar("i")
		l1 := &Ast{K: "cloop", Var: a, Init: "0", InitLit: true, Op: "<", Lim: fmt.Sprint(2 + rng.Intn(2)), LimLit: true, Step: "++", Body: []*Ast{{K: "print", Path: a}}}
		l2 := &Ast{K: "cloop", Var: b, Init: fmt.Sprint(5 + rng.Intn(3)), InitLit: true, Op: "<", Lim: "9", LimLit: true, Step: "++", Sep: ",", SepKw: "sep",
			Body: []*Ast{{K: "print", Path: a}, {K: "text", Text: []byte(":")}, {K: "print", Path: b}}}
		ic.ast = append(ic.ast, l1, &Ast{K: "text", Text: g.marker()}, l2, &Ast{K: "text", Text: g.marker()}, &Ast{K: "print", Path: a})
		if g.budget < 8 {
			g.budget = 8
		}
		g.tag("scenario:successive-loops-read-first-variable")
	}
	if prof.Includes && len(g.incs) > 0 && rng.Chance(15) {
		// an included template left through exit inside a range loop, then further range loops
		// (without separator) and text in the including template
		sub := []*Ast{{K: "text", Text: g.marker()}, {K: "rloop", Var: g.newVar("v"), Src: "user.Finance.History", Body: []*Ast{{K: "text", Text: g.marker()}, {K: "exit"}}}, {K: "text", Text: g.marker()}}
		src := printNodes(sub)
		if key, dump, o := parseDump([]byte(src), false); o.ErrClass() == "OK" {
			ic.incs = append(ic.incs, sub)
			g.incs = append(g.incs, key)
			ic.incIdx = append(ic.incIdx, len(ic.incs)-1)
			vc.Reg[key] = dump
			vc.RegKeys = append(vc.RegKeys, key)
			vc.Meta["inc:"+key] = src
			v2 := g.newVar("v")
			next := &Ast{K: "rloop", Var: v2, Src: "user.Finance.History", Body: []*Ast{{K: "text", Text: g.marker()}, {K: "print", Path: v2 + ".DateUnix"}}}
			switch rng.Intn(3) {
			case 0:
				// the next loop has a separator: none before its first element
				next.Sep, next.SepKw = []string{",", ";"}[rng.Intn(2)], []string{"separator", "sep"}[rng.Intn(2)]
			case 1:
				// the next loop has nothing to iterate over: its else branch renders
				next.Src, next.HasElse, next.Else = "nosuch.List", true, []*Ast{{K: "text", Text: g.marker()}}
			}
			ic.ast = append(ic.ast, &Ast{K: "include", IncKw: "include", Names: []string{key}}, &Ast{K: "text", Text: g.marker()}, next, &Ast{K: "text", Text: g.marker()})
			if rng.Bool() {
				// and the same included template once more
				ic.ast = append(ic.ast, &Ast{K: "include", IncKw: "include", Names: []string{key}}, &Ast{K: "text", Text: g.marker()})
			}
			g.tag("scenario:exit-in-included-range-loop")
		}
	}
	addSub := func(sub []*Ast) (string, bool) {
		src := printNodes(sub)
		key, dump, o := parseDump([]byte(src), false)
		if o.ErrClass() != "OK" {
			return "", false
		}
		ic.incs = append(ic.incs, sub)
		g.incs = append(g.incs, key)
		ic.incIdx = append(ic.incIdx, len(ic.incs)-1)
		vc.Reg[key] = dump
		vc.RegKeys = append(vc.RegKeys, key)
		vc.Meta["inc:"+key] = src
		return key, true
	}
	if nh := len(g.data.User.History); prof.CondHist && g.data.User.Present && g.data.User.HasFinance && nh >= 2 && rng.Chance(15) {
		// conditions whose right-hand side is an element addressed through the loop variable
		iv := g.newVar("i")
		loop := &Ast{K: "cloop", Var: iv, Init: "0", InitLit: true, Op: "<", Lim: fmt.Sprint(nh), LimLit: true, Step: "++", Body: []*Ast{{K: "print", Path: iv}}}
		for k := 0; k < 2; k++ {
			fld := []string{"DateUnix", "Cost", "Comment"}[rng.Intn(3)]
			left := fmt.Sprintf("user.Finance.History.%d.%s", rng.Intn(nh), fld)
			op := cmpOps[rng.Intn(6)]
			if fld == "Comment" {
				op = cmpOps[rng.Intn(2)]
				if rng.Bool() {
					left = "user.Name"
				}
			}
			c := &ACond{L: left, Op: op, R: fmt.Sprintf("user.Finance.History[%s].%s", iv, fld), FloatL: fld == "Cost"}
			loop.Body = append(loop.Body, &Ast{K: "if", Cond: c, Then: []*Ast{{K: "text", Text: g.marker()}}, HasElse: true, Else: []*Ast{{K: "text", Text: g.marker()}}})
		}
		ic.ast = append(ic.ast, loop, &Ast{K: "text", Text: g.marker()})
		if g.budget < 6 {
			g.budget = 6
		}
		g.tag("scenario:condition-against-indexed-element")
	}
	if prof.Regions && rng.Chance(10) {
		// a bound tag that opens with static text, then a value printed raw; the warm run cuts the
		// first render at the raw value's write: nothing of that may show after the Reset
		kind := prof.RegionKind
		if kind == "" {
			kind = []string{"jsonquote", "htmlescape", "urlencode"}[rng.Intn(3)]
		}
		if o, ok := g.pickOperand("string", "bytes", "int"); ok {
			head := []*Ast{{K: "region", Region: kind, Body: []*Ast{{K: "text", Text: []byte(`a b&"c"<d>/`)}}}, {K: "print", Path: o.Path, RawMod: true}, {K: "text", Text: g.marker()}}
			ic.ast = append(head, ic.ast...)
			vc.Meta["cut_at"] = 2
			g.tag("scenario:raw-print-after-bound-tag")
		}
	}
	if g.longPath != "" && rng.Chance(75) {
		// the long value printed: plainly, through an escape letter or modifier, and inside a bound
		// tag with prefix and suffix (first thing in the template as often as not)
		var items []*Ast
		pr := func() *Ast {
			a := &Ast{K: "print", Path: g.longPath}
			if prof.PfxSfx && rng.Chance(60) {
				a.Pfx, a.PfxKw = []string{"<p class=x>", "key=", "<b>"}[rng.Intn(3)], []string{"prefix", "pfx"}[rng.Intn(2)]
				if rng.Bool() {
					a.Sfx, a.SfxKw = []string{"</p>", "&end", "</b>"}[rng.Intn(3)], []string{"suffix", "sfx"}[rng.Intn(2)]
				}
			}
			return a
		}
		if prof.Letters && rng.Chance(60) {
			a := pr()
			a.Letters = []string{"u", "h", "j", "q", "l", "a", "uu", "J", "c"}[rng.Intn(9)]
			items = append(items, a, &Ast{K: "text", Text: g.marker()})
		} else if prof.Mods && rng.Chance(60) {
			a := pr()
			a.Mods = []AMod{{Name: []string{"urlEncode", "htmlEscape", "jsonEscape", "jsonQuote", "linkEscape", "attrEscape"}[rng.Intn(6)]}}
			items = append(items, a, &Ast{K: "text", Text: g.marker()})
		}
		if prof.Regions || (prof.Letters && prof.PfxSfx) {
			kind := prof.RegionKind
			if kind == "" || rng.Chance(20) {
				kind = []string{"jsonquote", "htmlescape", "urlencode"}[rng.Intn(3)]
			}
			in := pr()
			if prof.Letters && rng.Chance(50) {
				in.Letters = []string{"u", "h", "l", "j"}[rng.Intn(4)]
			}
			reg := []*Ast{{K: "region", Region: kind, Body: []*Ast{in}}, {K: "text", Text: g.marker()}}
			if rng.Bool() {
				items = append(reg, items...) // the bound tag first: nothing has gone through the scratch yet
			} else {
				items = append(items, reg...)
			}
		}
		if len(items) == 0 {
			items = append(items, pr())
		}
		if rng.Bool() {
			ic.ast = append(items, ic.ast...)
		} else {
			ic.ast = append(ic.ast, items...)
		}
		g.tag("scenario:long-value-printed")
	}
	if len(g.data.User.History) >= 256 && g.data.User.Present && g.data.User.HasFinance {
		// every element of a large collection once, separators between, else only when empty
		kv, vv := g.newVar("k"), g.newVar("v")
		ic.ast = append(ic.ast, &Ast{K: "text", Text: []byte("[")}, &Ast{K: "rloop", Key: kv, Var: vv, Src: "user.Finance.History", Sep: ",", SepKw: "separator",
			Body: []*Ast{{K: "print", Path: kv}}, HasElse: true, Else: []*Ast{{K: "text", Text: []byte("EMPTY")}}}, &Ast{K: "text", Text: []byte("]")})
		g.tag("scenario:large-collection-loop")
	}
	if prof.W["ctx"] > 0 && rng.Chance(10) {
		// one variable assigned a short text and then ever longer ones (beyond any doubling)
		name := fmt.Sprintf("c%d", rng.Intn(3))
		first := &Ast{K: "ctx", CtxVar: name, CtxLit: true, CtxSrc: []string{"ab", "x", "7"}[rng.Intn(3)], CtxQuote: `"`}
		if rng.Chance(30) {
			first = &Ast{K: "counter", Var: name, CntOp: "=", CntArg: 5}
		}
		items := []*Ast{first, {K: "print", Path: name}}
		for _, n := range [][]int{{20, 200}, {70}, {90, 500}, {40, 130, 1200}}[rng.Intn(4)] {
			v := fmt.Sprintf("g%d", len(g.data.Statics))
			g.data.Statics = append(g.data.Statics, StaticVar{Name: v, Kind: []string{"string", "bytes"}[rng.Intn(2)], Ptr: rng.Bool(), S: longText(n)})
			items = append(items, &Ast{K: "ctx", CtxVar: name, CtxSrc: v}, &Ast{K: "text", Text: g.marker()}, &Ast{K: "print", Path: name},
				&Ast{K: "if", Cond: &ACond{L: name, Op: "==", R: v}, Then: []*Ast{{K: "text", Text: g.marker()}}, HasElse: true, Else: []*Ast{{K: "text", Text: g.marker()}}})
		}
		ic.ast = append(ic.ast, items...)
		g.tag("scenario:variable-reassigned-longer")
	}
	if prof.Regions && prof.Includes && rng.Chance(12) {
		// an included template that ends through exit inside a bound tag of the including template:
		// only the include ends, the tag stays open for what follows
		kind := prof.RegionKind
		if kind == "" {
			kind = []string{"jsonquote", "htmlescape", "urlencode"}[rng.Intn(3)]
		}
		sub := []*Ast{{K: "text", Text: []byte("hi ")}, {K: "exit"}, {K: "text", Text: g.marker()}}
		if rng.Bool() {
			sub = []*Ast{{K: "text", Text: []byte("hi ")}, {K: "cloop", Var: g.newVar("i"), Init: "0", InitLit: true, Op: "<", Lim: "2", LimLit: true, Step: "++", Body: []*Ast{{K: "text", Text: g.marker()}, {K: "exit"}}}, {K: "text", Text: g.marker()}}
		}
		if key, ok := addSub(sub); ok {
			reg := &Ast{K: "region", Region: kind, Body: []*Ast{{K: "text", Text: []byte(`"a" `)}, {K: "include", IncKw: []string{"include", "."}[rng.Intn(2)], Names: []string{key}}, {K: "text", Text: []byte(` said "ok" & <b>/c d`)}}}
			ic.ast = append(ic.ast, reg, &Ast{K: "text", Text: g.marker()})
			if g.budget < 6 {
				g.budget = 6
			}
			g.tag("scenario:exit-in-include-inside-bound-tag")
		}
	}
	if prof.Mods && g.data.User.Present && g.data.User.HasFinance && len(g.data.User.History) >= 2 && len(g.data.User.History) <= 8 && rng.Chance(10) {
		// one print tag evaluated again and again with a modifier argument that changes from
		// iteration to iteration
		vv := g.newVar("v")
		pr := &Ast{K: "print", Path: []string{"nosuch.Field", "user.Nope"}[rng.Intn(2)], Mods: []AMod{{Name: []string{"default", "def"}[rng.Intn(2)], Args: []AArg{{Text: vv + ".Comment"}}}}}
		if rng.Bool() {
			pr = &Ast{K: "print", Path: vv + ".DateUnix", Mods: []AMod{{Name: "vcat", Args: []AArg{{Text: vv + ".Comment"}}}}}
		}
		ic.ast = append(ic.ast, &Ast{K: "rloop", Var: vv, Src: "user.Finance.History", Body: []*Ast{{K: "text", Text: []byte("[")}, pr, {K: "text", Text: []byte("]")}}}, &Ast{K: "text", Text: g.marker()})
		g.tag("scenario:same-tag-changing-argument")
	}
	if prof.W["counter"] > 0 && rng.Chance(10) {
		// the body of a counting loop assigns to the loop's own variable: the assignment is read
		// back in that iteration, the next iteration starts from the loop's counter again
		iv := g.newVar("i")
		var assign *Ast
		if rng.Bool() {
			assign = &Ast{K: "counter", Var: iv, CntOp: "+", CntArg: 10}
		} else {
			assign = &Ast{K: "if", Cond: &ACond{L: iv, Op: "==", R: "1", RLit: true}, Then: []*Ast{{K: "ctx", CtxVar: iv, CtxLit: true, CtxSrc: "x", CtxQuote: `"`}}}
		}
		loop := &Ast{K: "cloop", Var: iv, Init: "0", InitLit: true, Op: "<", Lim: "4", LimLit: true, Step: "++",
			Body: []*Ast{{K: "text", Text: []byte("[")}, {K: "print", Path: iv}, assign, {K: "text", Text: []byte(":")}, {K: "print", Path: iv}, {K: "text", Text: []byte("]")}}}
		ic.ast = append(ic.ast, loop, &Ast{K: "text", Text: g.marker()})
		if g.budget < 8 {
			g.budget = 8
		}
		g.tag("scenario:loop-body-assigns-loop-variable")
	}
	if prof.Includes && rng.Chance(8) {
		// an included template that renders nothing (an empty source, a comment): the include is
		// there, the including template goes on
		if key, ok := addSub([]*Ast{}); ok {
			ic.ast = append(ic.ast, &Ast{K: "text", Text: g.marker()}, &Ast{K: "include", IncKw: []string{"include", "."}[rng.Intn(2)], Names: []string{key}}, &Ast{K: "text", Text: g.marker()})
			g.tag("scenario:include-of-empty-template")
		}
	}
	if prof.W["exit"] > 0 && rng.Chance(12) {
		// exit behind a lazybreak (or a continue-less break form) in one block of a loop body:
		// the template stops at the exit, whatever the loop had pending
		iv := g.newVar("i")
		ctl := &Ast{K: "lazybreak"}
		if rng.Chance(30) {
			ctl.N = 1 + rng.Intn(2)
		}
		blk := &Ast{K: "if", Cond: &ACond{L: iv, Op: "==", R: fmt.Sprint(rng.Intn(2)), RLit: true}, Then: []*Ast{ctl, {K: "text", Text: g.marker()}, {K: "exit"}, {K: "text", Text: g.marker()}}}
		if rng.Chance(30) {
			blk = &Ast{K: "if", Cond: &ACond{L: iv, Op: "!=", R: fmt.Sprint(rng.Intn(2)), RLit: true}, Then: []*Ast{{K: "text", Text: g.marker()}}, HasElse: true, Else: blk.Then}
		}
		loop := &Ast{K: "cloop", Var: iv, Init: "0", InitLit: true, Op: "<", Lim: "4", LimLit: true, Step: "++", Body: []*Ast{{K: "print", Path: iv}, blk, {K: "text", Text: g.marker()}}}
		items := []*Ast{loop, {K: "text", Text: g.marker()}}
		if prof.Includes && rng.Bool() {
			if key, ok := addSub(items); ok {
				items = []*Ast{{K: "text", Text: g.marker()}, {K: "include", IncKw: "include", Names: []string{key}}, {K: "text", Text: g.marker()}}
			}
		}
		ic.ast = append(ic.ast, items...)
		if g.budget < 8 {
			g.budget = 8
		}
		g.tag("scenario:exit-behind-lazybreak")
	}
	if prof.BreakN && g.data.User.Present && g.data.User.HasFinance && len(g.data.User.History) >= 2 && len(g.data.User.History) <= 8 && rng.Chance(12) {
		// a range loop whose iteration sees a lazybreak and, later and at body level, a continue:
		// the loop ends with that iteration
		kv, vv := g.newVar("k"), g.newVar("v")
		lb := &Ast{K: "lazybreak", Cond: &ACond{L: kv, Op: "==", R: fmt.Sprint(rng.Intn(2)), RLit: true}}
		if rng.Bool() {
			lb = &Ast{K: "if", Cond: lb.Cond, Then: []*Ast{{K: "lazybreak"}}}
		}
		co := &Ast{K: "continue"}
		if rng.Bool() {
			co.Cond = &ACond{L: kv, Op: ">=", R: "0", RLit: true}
		}
		loop := &Ast{K: "rloop", Key: kv, Var: vv, Src: "user.Finance.History", Body: []*Ast{{K: "text", Text: []byte("<")}, {K: "print", Path: kv}, lb, {K: "text", Text: g.marker()}, co, {K: "text", Text: g.marker()}}}
		if rng.Bool() {
			loop.Sep, loop.SepKw = ",", "sep"
		}
		ic.ast = append(ic.ast, loop, &Ast{K: "text", Text: g.marker()})
		g.tag("scenario:range-loop-lazybreak-then-continue")
	}
	if prof.BreakN && rng.Chance(10) {
		// lazybreak N (N >= 2) in the innermost of three counting loops that all have iterations
		// left, then - later in the same iteration - a range loop over a variable that does not
		// exist (with or without else branch): the depth stays pending for the enclosing loops
		ov, mv, iv := g.newVar("i"), g.newVar("i"), g.newVar("i")
		lb := &Ast{K: "lazybreak", N: 2 + rng.Intn(2)}
		if rng.Bool() {
			lb.Cond = &ACond{L: iv, Op: "==", R: fmt.Sprint(rng.Intn(2)), RLit: true}
		}
		rl := &Ast{K: "rloop", Var: g.newVar("v"), Src: []string{"nosuch.Items", "absent", "user.Nope"}[rng.Intn(3)], Body: []*Ast{{K: "text", Text: g.marker()}}}
		if rng.Bool() {
			rl.HasElse, rl.Else = true, []*Ast{{K: "text", Text: g.marker()}}
		}
		inner := &Ast{K: "cloop", Var: iv, Init: "0", InitLit: true, Op: "<", Lim: "3", LimLit: true, Step: "++", Body: []*Ast{{K: "print", Path: iv}, lb, {K: "text", Text: []byte("-")}, rl, {K: "text", Text: []byte("+")}}}
		mid := &Ast{K: "cloop", Var: mv, Init: "0", InitLit: true, Op: "<", Lim: "3", LimLit: true, Step: "++", Body: []*Ast{{K: "text", Text: []byte("(")}, inner, {K: "text", Text: []byte(")")}}}
		outer := &Ast{K: "cloop", Var: ov, Init: "0", InitLit: true, Op: "<", Lim: "3", LimLit: true, Step: "++", Body: []*Ast{{K: "text", Text: []byte("[")}, mid, {K: "text", Text: []byte("]")}}}
		ic.ast = append(ic.ast, outer, &Ast{K: "text", Text: g.marker()})
		if g.budget < 12 {
			g.budget = 12
		}
		g.tag("scenario:lazybreakN-then-range-over-missing")
	}
	if prof.BreakN && rng.Chance(15) {
		// break N / lazybreak N written in the else branch of a loop that does not iterate, two
		// loops deep: it names the two enclosing loops (the loop it is written in has ended)
		ov, mv, zv := g.newVar("i"), g.newVar("i"), g.newVar("i")
		ctl := &Ast{K: []string{"break", "lazybreak"}[rng.Intn(2)], N: 2 + rng.Intn(2)}
		var inner *Ast
		if rng.Chance(65) {
			inner = &Ast{K: "cloop", Var: zv, Init: "0", InitLit: true, Op: "<", Lim: "0", LimLit: true, Step: "++", Body: []*Ast{{K: "text", Text: g.marker()}}, HasElse: true,
				Else: []*Ast{{K: "text", Text: g.marker()}, ctl}}
		} else {
			inner = &Ast{K: "rloop", Var: g.newVar("v"), Src: []string{"nosuch.List", "absent"}[rng.Intn(2)], Body: []*Ast{{K: "text", Text: g.marker()}}, HasElse: true,
				Else: []*Ast{{K: "text", Text: g.marker()}, ctl}}
		}
		if rng.Chance(30) {
			inner.Else = []*Ast{{K: "text", Text: g.marker()}, {K: "if", Cond: &ACond{L: mv, Op: ">=", R: "0", RLit: true}, Then: []*Ast{ctl}}}
		}
		mid := &Ast{K: "cloop", Var: mv, Init: "0", InitLit: true, Op: "<", Lim: "3", LimLit: true, Step: "++", Body: []*Ast{{K: "print", Path: mv}, inner, {K: "text", Text: []byte(".")}}}
		outer := &Ast{K: "cloop", Var: ov, Init: "0", InitLit: true, Op: "<", Lim: "3", LimLit: true, Step: "++", Body: []*Ast{{K: "text", Text: []byte("[")}, mid, {K: "text", Text: []byte("]")}}}
		wrap := &Ast{K: "cloop", Var: g.newVar("i"), Init: "0", InitLit: true, Op: "<", Lim: "2", LimLit: true, Step: "++", Body: []*Ast{outer, {K: "text", Text: []byte("|")}}}
		ic.ast = append(ic.ast, wrap, &Ast{K: "text", Text: g.marker()})
		if g.budget < 12 {
			g.budget = 12
		}
		g.tag("scenario:break-in-for-else-two-deep")
	}
	if prof.Includes && prof.BreakN && rng.Chance(20) {
		// an include rendered while a break depth is pending for the enclosing loops: after
		// break N in an inner loop (the rest of the outer body is rendered), or after lazybreak N
		// in the same iteration
		if key, ok := addSub([]*Ast{{K: "text", Text: g.marker()}}); ok {
			ov, iv := g.newVar("i"), g.newVar("i")
			kw := []string{"break", "lazybreak"}[rng.Intn(2)]
			fire := fmt.Sprint(rng.Intn(2))
			ctl := &Ast{K: kw, N: 2 + rng.Intn(2)}
			inner := &Ast{K: "cloop", Var: iv, Init: "0", InitLit: true, Op: "<", Lim: "3", LimLit: true, Step: "++",
				Body: []*Ast{{K: "text", Text: g.marker()}, {K: "if", Cond: &ACond{L: iv, Op: "==", R: fire, RLit: true}, Then: []*Ast{ctl}}, {K: "print", Path: iv}}}
			if kw == "lazybreak" && rng.Bool() {
				inner.Body = append(inner.Body, &Ast{K: "include", IncKw: "include", Names: []string{key}})
			}
			outer := &Ast{K: "cloop", Var: ov, Init: "0", InitLit: true, Op: "<", Lim: "3", LimLit: true, Step: "++",
				Body: []*Ast{{K: "print", Path: ov}, inner, {K: "include", IncKw: "include", Names: []string{key}}, {K: "text", Text: g.marker()}}}
			wrap := &Ast{K: "cloop", Var: g.newVar("i"), Init: "0", InitLit: true, Op: "<", Lim: "2", LimLit: true, Step: "++", Body: []*Ast{outer, {K: "text", Text: g.marker()}}}
			ic.ast = append(ic.ast, wrap, &Ast{K: "text", Text: g.marker()})
			if g.budget < 12 {
				g.budget = 12
			}
			g.tag("scenario:include-while-break-depth-pending")
		}
	}
	if nh := len(g.data.User.History); prof.Includes && g.data.User.Present && g.data.User.HasFinance && nh >= 1 && nh <= 8 && rng.Chance(12) {
		// an included template that addresses an element through the including template's loop
		// variable: it renders as if its source stood in the loop body
		iv := g.newVar("i")
		fld := []string{"Comment", "Cost", "DateUnix"}[rng.Intn(3)]
		sub := []*Ast{{K: "print", Path: iv}, {K: "text", Text: []byte("=")}, {K: "print", Path: fmt.Sprintf("user.Finance.History[%s].%s", iv, fld)}}
		if key, ok := addSub(sub); ok {
			host := &Ast{K: "cloop", Var: iv, Init: "0", InitLit: true, Op: "<", Lim: fmt.Sprint(nh), LimLit: true, Step: "++", Sep: "|", SepKw: "sep",
				Body: []*Ast{{K: "include", IncKw: []string{"include", "."}[rng.Intn(2)], Names: []string{key}}}}
			ic.ast = append(ic.ast, &Ast{K: "text", Text: []byte("[")}, host, &Ast{K: "text", Text: []byte("]")})
			if g.budget < nh+3 {
				g.budget = nh + 3
			}
			g.tag("scenario:include-reads-element-by-host-counter")
		}
	}
	if prof.Includes && rng.Chance(12) {
		// a counter loop inside an included template, then a counter loop of the including
		// template that reads the included loop's variable during and after its own run
		iv, jv := g.newVar("i"), g.newVar("i")
		sub := []*Ast{{K: "cloop", Var: iv, Init: "0", InitLit: true, Op: "<", Lim: fmt.Sprint(2 + rng.Intn(2)), LimLit: true, Step: "++", Body: []*Ast{{K: "print", Path: iv}}}}
		if rng.Chance(40) {
			// the included loop is abandoned through exit: its variable keeps the value it had
			sub[0].Body = append(sub[0].Body, &Ast{K: "if", Cond: &ACond{L: iv, Op: "==", R: "1", RLit: true}, Then: []*Ast{{K: "exit"}}})
			g.tag("scenario:included-loop-abandoned-by-exit")
		}
		if key, ok := addSub(sub); ok {
			l2 := &Ast{K: "cloop", Var: jv, Init: "0", InitLit: true, Op: "<", Lim: "2", LimLit: true, Step: "++", Sep: ";", SepKw: "sep",
				Body: []*Ast{{K: "print", Path: iv}, {K: "print", Path: jv}}}
			ic.ast = append(ic.ast, &Ast{K: "include", IncKw: "include", Names: []string{key}}, &Ast{K: "text", Text: g.marker()}, l2, &Ast{K: "text", Text: g.marker()}, &Ast{K: "print", Path: iv})
			if g.budget < 8 {
				g.budget = 8
			}
			g.tag("scenario:included-loop-variable-read-by-later-loop")
		}
	}
	vc.KeepFmt = prof.KeepFmt && rng.Bool()
	if !vc.KeepFmt {
		trimTail(ic.ast)
	}
	vc.Src = printNodes(ic.ast)
	vc.Budget = g.budget + 2
	ic.vc = vc
	// every literal operand that reads as a float goes to the float literal table: a variable
	// assigned by {% ctx %} may carry a float whatever the generator assumed about its kind
	addCondFlits(ic.ast, g.flits)
	for _, sub := range ic.incs {
		addCondFlits(sub, g.flits)
	}
	return ic
}

func addCondFlits(ns []*Ast, flits map[string]float64) {
	one := func(c *ACond) {
		if c == nil {
			return
		}
		for _, t := range []struct {
			lit  bool
			text string
		}{{c.LLit, c.L}, {c.RLit, c.R}} {
			if !t.lit || t.text == "" {
				continue
			}
			if f, err := strconv.ParseFloat(t.text, 64); err == nil {
				if _, ok := flits[t.text]; !ok {
					flits[t.text] = f
				}
			}
		}
	}
	walkAst(ns, func(a *Ast) {
		one(a.Cond)
		for i := range a.Cases {
			one(&a.Cases[i].Cond)
		}
	})
}

func runInterp(o *Options, prop string, prof *Profile, quickN, thoroughN int, corr string) *Result {
	res := NewResult()
	rng := NewRNG(o.Seed)
	n := quickN
	if o.Tier == "thorough" {
		n = thoroughN
	}
	if o.Budget > 0 {
		n *= o.Budget
	}
	var cases []*interpCase
	corpus := loadInterpCorpus(o, prop)
	if o.Replay != "" {
		n = 0
	}
	var queue []*interpCase
	for i := 0; i < n+len(corpus); i++ {
		var ic *interpCase
		if i < len(corpus) {
			ic = corpus[i]
			ic.vc.ID = i
			res.Hist("stream:corpus")
			queue = append(queue, ic)
			continue
		}
		r := rng.Fork()
		ic = genInterpCase(i, r, prof)
		queue = append(queue, ic)
		if prof.KeepFmt && r.Chance(25) {
			// the same source under the other keep-format setting, parsed right after the first
			trimTail(ic.ast)
			ic.vc.Src = printNodes(ic.ast)
			tvc := *ic.vc
			tvc.ID = n + len(corpus) + i
			tvc.KeepFmt = !ic.vc.KeepFmt
			tvc.Runs = nil
			tvc.Meta = map[string]any{}
			for k, v := range ic.vc.Meta {
				tvc.Meta[k] = v
			}
			twin := *ic
			twin.vc = &tvc
			queue = append(queue, &twin)
			res.Hist("stream:keepfmt-twin")
		}
	}
	// every scenario, combination and rarer feature the profile can produce appears in every run, however
	// the main stream falls: further cases are generated from a stream of their own and kept only when
	// they carry a tag the run has seen fewer than three times
	if o.Replay == "" && n > 0 {
		seenTag := map[string]int{}
		for _, ic := range queue {
			for t := range ic.tags {
				seenTag[t]++
			}
		}
		extra := NewRNG(o.Seed ^ 0x5ce9a110)
		id := 2*(n+len(corpus)) + 7
		maxExtra := n/4 + 5
		if prof.Faults {
			maxExtra = n/8 + 3 // every case of this profile is rendered once per write of its output
		}
		kept := 0
		for attempt := 0; attempt < 4*n+200 && kept < maxExtra; attempt++ {
			ic := genInterpCase(id, extra.Fork(), prof)
			want := false
			for t := range ic.tags {
				want = want || seenTag[t] < 3
			}
			if !want {
				continue
			}
			for t := range ic.tags {
				seenTag[t]++
			}
			queue = append(queue, ic)
			id++
			kept++
			res.Hist("stream:coverage-top-up")
		}
	}
	var prevData *DataEnv
	for _, ic := range queue {
		vc := ic.vc
		key, dump, po := parseDump([]byte(vc.Src), vc.KeepFmt)
		if po.ErrClass() != "OK" {
			res.Hist("gen:parse-" + po.ErrClass())
			res.Notes = appendCap(res.Notes, fmt.Sprintf("generated template does not parse: %q: %s%s", vc.Src, po.Err, po.Panic), 5)
			if po.ErrClass() == "PANIC" || po.ErrClass() == "HANG" {
				res.OracleFails++
				res.AddViolation(&Violation{Kind: "failing-input", Class: "parse:" + po.ErrClass(), What: fmt.Sprintf("Parse %s on generated template %q: %s", po.ErrClass(), vc.Src, po.Panic),
					Replay: map[string]any{"template": vc.Src, "keep_fmt": vc.KeepFmt}})
			}
			continue
		}
		vc.Tree = dump
		vc.Runs = append(vc.Runs, renderRun(key, vc.Data, 0, 0))
		// contexts are pooled in production: the same render on a context that already rendered this
		// case and was reset must agree with the render on a new one (judged by the model and the
		// reference semantics below)
		failAt := 0
		if vc.ID%3 != 0 {
			failAt = 1 + (vc.ID/3)%8
		}
		if k, ok := vc.Meta["cut_at"].(int); ok {
			failAt = k
		}
		if w := warmRun(key, vc.Data, failAt); !vc.Runs[0].Obs.Hang && !w.Hang {
			f := vc.Runs[0].Obs
			res.Hist(fmt.Sprintf("warm:run:first-render-cut-at-write=%d", failAt))
			if string(w.Out) != string(f.Out) || w.Err != f.Err || (w.Panic != "") != (f.Panic != "") {
				res.OracleFails++
				res.AddViolation(&Violation{Kind: "failing-input", Class: "warm:differs-from-new",
					What: fmt.Sprintf("template %q on a context that rendered it once before and was Reset gives %q err=%q %s; on a new context %q err=%q", vc.Src, w.Out, w.Err, firstLine(w.Panic), f.Out, f.Err),
					Replay: map[string]any{"template": vc.Src, "keep_fmt": vc.KeepFmt, "data_slots": vc.Data.Slots(), "includes": vc.Meta, "how": fmt.Sprintf("NewCtx; set data; render (writer refusing write %d, 0 = none); ctx.Reset(); set data; render", failAt),
						"observed": string(w.Out), "observed_err": w.Err, "observed_panic": w.Panic, "new_context": string(f.Out), "new_context_err": f.Err}})
			}
		}
		// variables already set by an earlier caller are overwritten by the setters, whatever they
		// held: the data of the previous case first, then this case's data, on one context
		if prevData != nil && !vc.Runs[0].Obs.Hang && namesCovered(prevData, vc.Data) {
			f := vc.Runs[0].Obs
			pd, cd := prevData, vc.Data
			ow := guarded(5*time.Second, func() ([]byte, error) {
				ctx := dyntpl.NewCtx()
				pd.Apply(ctx)
				cd.Apply(ctx)
				return dyntpl.Render(key, ctx)
			})
			harnessLog.take()
			res.Hist("overwrite:run")
			if !ow.Hang && (string(ow.Out) != string(f.Out) || ow.Err != f.Err || (ow.Panic != "") != (f.Panic != "")) {
				res.OracleFails++
				res.AddViolation(&Violation{Kind: "failing-input", Class: "overwrite:differs-from-new",
					What: fmt.Sprintf("template %q renders %q err=%q %s when its variables overwrite the ones of another data set (%s), and %q err=%q on a new context", vc.Src, ow.Out, ow.Err, firstLine(ow.Panic), pd.Slots(), f.Out, f.Err),
					Replay: map[string]any{"template": vc.Src, "keep_fmt": vc.KeepFmt, "data_slots": vc.Data.Slots(), "previous_data_slots": pd.Slots(), "includes": vc.Meta,
						"how": "NewCtx; set the previous data; set this data (same names, other kinds and values); render", "observed": string(ow.Out), "observed_err": ow.Err, "new_context": string(f.Out), "new_context_err": f.Err}})
			}
		}
		// a context whose slots all held one other kind of value (counters, byte buffers, inspected
		// objects) and was reset: the recycled slots must show nothing of it
		if !vc.Runs[0].Obs.Hang {
			f := vc.Runs[0].Obs
			cd := vc.Data
			nslots := len(cd.Statics) + 3
			for _, adv := range []string{"counters", "bytes", "objects"} {
				adv := adv
				rc := guarded(5*time.Second, func() ([]byte, error) {
					ctx := dyntpl.NewCtx()
					for k := 0; k < nslots; k++ {
						name := fmt.Sprintf("zz%d", k)
						switch adv {
						case "counters":
							ctx.SetCounter(name, 7000+k)
						case "bytes":
							ctx.SetBytes(name, []byte(fmt.Sprintf("ZZ%d", k)))
						default:
							ctx.Set(name, &testobj.TestObject{Id: fmt.Sprintf("OBJ%d", k)}, tobjIns)
						}
					}
					ctx.Reset()
					cd.Apply(ctx)
					return dyntpl.Render(key, ctx)
				})
				harnessLog.take()
				res.Hist("recycled:" + adv)
				if !rc.Hang && (string(rc.Out) != string(f.Out) || rc.Err != f.Err || (rc.Panic != "") != (f.Panic != "")) {
					res.OracleFails++
					res.AddViolation(&Violation{Kind: "failing-input", Class: "recycled:differs-from-new",
						What: fmt.Sprintf("template %q renders %q err=%q %s on a context whose slots all held %s before a Reset, and %q err=%q on a new context", vc.Src, rc.Out, rc.Err, firstLine(rc.Panic), adv, f.Out, f.Err),
						Replay: map[string]any{"template": vc.Src, "keep_fmt": vc.KeepFmt, "data_slots": vc.Data.Slots(), "includes": vc.Meta,
							"how": "NewCtx; fill " + fmt.Sprint(nslots) + " variables zz0.. with " + adv + "; Reset; set this data; render", "observed": string(rc.Out), "observed_err": rc.Err, "new_context": string(f.Out), "new_context_err": f.Err}})
					break
				}
			}
		}
		prevData = vc.Data
		if prof.Faults {
			w := vc.Runs[0].Writes
			for k := 1; k <= w && k <= 40; k++ {
				vc.Runs = append(vc.Runs, renderRun(key, vc.Data, k, 0))
				if k%3 == 1 {
					vc.Runs = append(vc.Runs, renderRun(key, vc.Data, k, 1))
				}
			}
		}
		cases = append(cases, ic)
		for t := range ic.tags {
			res.Hist("tag:" + t)
		}
	}
	var vcs []*VCase
	for _, ic := range cases {
		if ic.ast != nil {
			ic.vc.Spec = ic.specGallina()
		}
		vcs = append(vcs, ic.vc)
	}
	if err := RunCases(o, vcs); err != nil {
		res.InfraError = err.Error()
		return res
	}
	parserModelBroken(res)
	for _, ic := range cases {
		vc := ic.vc
		for ri, r := range vc.Runs {
			res.Evaluations++
			res.ModelEvals++
			v := vc.Verdict[ri]
			res.Hist("impl:" + r.Obs.ErrClass())
			res.Hist("verdict:" + strings.Fields(v)[0])
			if r.Obs.ErrClass() == "OK" && len(r.Obs.Out) > 0 && v == "ok" {
				res.Distinct(vc.Src + "|" + vc.Data.Slots() + fmt.Sprint(r.Fail, r.Short))
			}
			replay := map[string]any{"template": vc.Src, "keep_fmt": vc.KeepFmt, "data_slots": vc.Data.Slots(), "fault_k": r.Fail, "short": r.Short,
				"observed_hex": hx(r.Obs.Out), "observed": string(r.Obs.Out), "observed_err": r.Obs.Err, "observed_panic": r.Obs.Panic, "observed_hang": r.Obs.Hang,
				"observed_writes": r.Writes, "model": v, "includes": vc.Meta, "seed": o.Seed, "tier": o.Tier}
			if prof.Faults && r.Fail > 0 && r.Obs.Panic == "" && !r.Obs.Hang {
				// C17 oracle, on the implementation's own observations
				free := vc.Runs[0]
				if r.Fail <= free.Writes && r.Obs.Err == "" {
					res.OracleFails++
					res.AddViolation(&Violation{Kind: "failing-input", Class: "fault:unreported",
						What: fmt.Sprintf("template %q: the writer failed at write %d of %d but the render reported success (accepted %q)", vc.Src, r.Fail, free.Writes, r.Obs.Out), Replay: replay})
				}
				if !strings.HasPrefix(string(free.Obs.Out), string(r.Obs.Out)) && free.Obs.Err == "" {
					res.OracleFails++
					res.AddViolation(&Violation{Kind: "failing-input", Class: "fault:not-a-prefix",
						What: fmt.Sprintf("template %q: with a fault at write %d the accepted bytes %q are not a prefix of the fault-free output %q", vc.Src, r.Fail, r.Obs.Out, free.Obs.Out), Replay: replay})
				}
			}
			if r.Obs.Panic != "" || r.Obs.Hang {
				res.OracleFails++
				res.Mismatches++
				res.AddViolation(&Violation{Kind: "failing-input", Class: "render:" + r.Obs.ErrClass(),
					What: fmt.Sprintf("render %s on template %q: %s", r.Obs.ErrClass(), vc.Src, r.Obs.Panic), Replay: replay})
				continue
			}
			if strings.HasPrefix(v, "bad") {
				res.Mismatches++
				f := strings.Fields(v)
				mout := unhex(f[1][1:])
				replay["model_out"] = string(mout)
				res.AddViolation(&Violation{Kind: "no-failing-input-found", Class: "correspondence", Lemma: corr,
					What: fmt.Sprintf("model and implementation differ on template %q (fault k=%d): implementation %q err=%q writes=%d, model %q err-class=%s writes=%s",
						vc.Src, r.Fail, r.Obs.Out, r.Obs.Err, r.Writes, mout, f[2], f[3]), Replay: replay})
			}
		}
		if ic.expect != nil {
			// corpus case: the expected output recorded with it decides the property
			r := vc.Runs[0]
			if string(r.Obs.Out) != ic.expect.Out || (r.Obs.Err != "") != ic.expect.Err || r.Obs.Panic != "" || r.Obs.Hang {
				res.OracleFails++
				res.AddViolation(&Violation{Kind: "failing-input", Class: ic.expect.Class,
					What: fmt.Sprintf("%s: template %q renders %q (err=%q%s) but must render %q (error expected: %v)", ic.expect.Note, vc.Src, r.Obs.Out, r.Obs.Err, r.Obs.Panic, ic.expect.Out, ic.expect.Err),
					Replay: map[string]any{"template": vc.Src, "keep_fmt": vc.KeepFmt, "data": vc.Data, "includes": ic.incSrc, "expect_out": ic.expect.Out, "expect_err": ic.expect.Err,
						"class": ic.expect.Class, "note": ic.expect.Note, "observed": string(r.Obs.Out), "observed_err": r.Obs.Err, "observed_panic": r.Obs.Panic}})
			}
			continue
		}
		res.Hist("parse:" + vc.ParseVerdict)
		if vc.ParseVerdict == "bad" {
			res.Mismatches++
			res.AddViolation(&Violation{Kind: "no-failing-input-found", Class: "parser-correspondence", Lemma: "parser correspondence: compile (Spec/Compile.v) vs Parse + VerifTree",
				What:   fmt.Sprintf("the tree the real parser builds for %q is not the compiled AST", vc.Src),
				Replay: map[string]any{"template": vc.Src, "keep_fmt": vc.KeepFmt, "includes": vc.Meta, "seed": o.Seed, "tier": o.Tier}})
		}
		if vc.PMVerdict != "" {
			res.Hist("parser-model:" + vc.PMVerdict)
			if vc.PMVerdict != "PMOk" {
				res.Mismatches++
				res.AddViolation(&Violation{Kind: "no-failing-input-found", Class: "parser-model", Lemma: "parser correspondence: Model/Parser.v over the regenerated expressions vs Parse + VerifTree",
					What:   fmt.Sprintf("the parser model (%s) and the real parser disagree on %q or on a template it includes", vc.PMVerdict, vc.Src),
					Replay: map[string]any{"template": vc.Src, "keep_fmt": vc.KeepFmt, "includes": vc.Meta, "verdict": vc.PMVerdict, "seed": o.Seed, "tier": o.Tier}})
			}
		}
		// the reference semantics on the generator's AST decides the property on the real output
		res.Hist("spec:" + strings.Fields(vc.SpecVerdict)[0])
		if strings.HasPrefix(vc.SpecVerdict, "bad") {
			f := strings.Fields(vc.SpecVerdict)
			r := vc.Runs[0]
			res.OracleFails++
			class := classify(prop, ic)
			res.AddViolation(&Violation{Kind: "failing-input", Class: class,
				What: fmt.Sprintf("template %q renders %q (err=%q) but the reference semantics demands %q (err-class %s)", vc.Src, r.Obs.Out, r.Obs.Err, unhex(f[1][1:]), f[2]),
				Replay: map[string]any{"template": vc.Src, "keep_fmt": vc.KeepFmt, "data_env": vc.Data.Env(), "observed": string(r.Obs.Out), "observed_hex": hx(r.Obs.Out), "observed_err": r.Obs.Err,
					"expected": string(unhex(f[1][1:])), "expected_hex": f[1][1:], "expected_err_class": f[2], "includes": vc.Meta, "seed": o.Seed, "tier": o.Tier}})
		}
		if len(res.Samples) < 10 && len(vc.Runs) > 0 {
			res.Sample(map[string]any{"template": vc.Src, "output": string(vc.Runs[0].Obs.Out), "err": vc.Runs[0].Obs.Err, "runs": len(vc.Runs)}, 10)
		}
	}
	res.pruneNoFailing()
	res.Rule = "cases = seeded grammar-directed (template, data) pairs of profile " + prof.Name + "; every run (fault-free and, where enabled, every fault position) is evaluated in the Gallina model on the tree dumped from the real parser; a case is non-trivial when the render succeeds with non-empty output and the model agrees; distinct by (template, data, fault)"
	res.WriteReplays(o.Verif+"/evidence/replays", prop)
	return res
}

func appendCap(l []string, s string, n int) []string {
	if len(l) < n {
		return append(l, s)
	}
	return l
}

func unhex(s string) []byte {
	b := make([]byte, len(s)/2)
	for i := range b {
		fmt.Sscanf(s[2*i:2*i+2], "%02x", &b[i])
	}
	return b
}

// classify names the decidable class of a specification failure (guards of known_findings.txt).
func classify(prop string, ic *interpCase) string {
	return "spec:" + prop
}

type corpusExpect struct {
	Out   string
	Err   bool
	Class string
	Note  string
}

// loadInterpCorpus reads /verif/corpus/<prop>/*.json (or the --replay file): template, data,
// includes and the expected result.
func loadInterpCorpus(o *Options, prop string) []*interpCase {
	var out []*interpCase
	for _, f := range corpusFiles(o, prop) {
		b, err := os.ReadFile(f)
		if err != nil {
			continue
		}
		var c struct {
			Template  string            `json:"template"`
			KeepFmt   bool              `json:"keep_fmt"`
			Data      *DataEnv          `json:"data"`
			Includes  map[string]string `json:"includes"`
			ExpectOut *string           `json:"expect_out"`
			ExpectErr bool              `json:"expect_err"`
			Class     string            `json:"class"`
			Note      string            `json:"note"`
		}
		if json.Unmarshal(b, &c) != nil || c.Data == nil || c.ExpectOut == nil {
			continue
		}
		vc := &VCase{Src: c.Template, KeepFmt: c.KeepFmt, Data: c.Data, Flits: map[string]float64{}, Reg: map[string][]dyntpl.VerifNode{}, Meta: map[string]any{}, Budget: 40}
		ic := &interpCase{vc: vc, tags: map[string]bool{}, expect: &corpusExpect{Out: *c.ExpectOut, Err: c.ExpectErr, Class: c.Class, Note: c.Note}, incSrc: c.Includes}
		// float literal table from the data
		addF := func(f float64) { vc.Flits[floatText(f)] = f }
		addF(c.Data.User.Cost)
		addF(c.Data.User.Balance)
		for _, h := range c.Data.User.History {
			addF(h.Cost)
		}
		for _, s := range c.Data.Statics {
			if s.Kind == "float" {
				addF(s.F)
			}
		}
		for i := int64(-2); i < 40; i++ {
			vc.Flits[fmt.Sprint(i)] = float64(i)
		}
		// and every number written in the template or an included one
		for _, src := range append([]string{c.Template}, sortedStrVals(c.Includes)...) {
			for _, m := range reNumLit.FindAllString(src, -1) {
				if f, err := strconv.ParseFloat(m, 64); err == nil {
					if _, ok := vc.Flits[m]; !ok {
						vc.Flits[m] = f
					}
				}
			}
		}
		for _, k := range sortedStrKeys(c.Includes) {
			tree, err := dyntpl.Parse([]byte(c.Includes[k]), false)
			if err != nil {
				continue
			}
			dyntpl.RegisterTplKey(k, tree)
			vc.Reg[k] = dyntpl.VerifTree(tree)
			vc.RegKeys = append(vc.RegKeys, k)
		}
		out = append(out, ic)
	}
	return out
}

var reNumLit = regexp.MustCompile(`-?\d+(\.\d+)?`)

func sortedStrVals(m map[string]string) []string {
	var vs []string
	for _, k := range sortedStrKeys(m) {
		vs = append(vs, m[k])
	}
	return vs
}

func sortedStrKeys(m map[string]string) []string {
	ks := make([]string, 0, len(m))
	for k := range m {
		ks = append(ks, k)
	}
	sort.Strings(ks)
	return ks
}
