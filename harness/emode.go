package main

import (
	"bufio"
	"bytes"
	"encoding/hex"
	"fmt"
	"os"
	"os/exec"
	"regexp"
	"strings"
)

// EReq is one request to the extracted model: function id, iteration count, input.
type EReq struct {
	Fn  int
	Itr int
	In  []byte
}

func hexOrDash(b []byte) string {
	if len(b) == 0 {
		return "-"
	}
	return hex.EncodeToString(b)
}

// RunDriver evaluates all requests with the extracted model (one process, one line each).
// The result for request i is (bytes, ok); ok=false means the model returned None.
func RunDriver(driver string, reqs []EReq) ([][]byte, []bool, error) {
	var in bytes.Buffer
	for _, r := range reqs {
		fmt.Fprintf(&in, "%d %d %s\n", r.Fn, r.Itr, hexOrDash(r.In))
	}
	cmd := exec.Command(driver)
	cmd.Stdin = &in
	var out bytes.Buffer
	cmd.Stdout = &out
	if err := cmd.Run(); err != nil {
		return nil, nil, fmt.Errorf("driver: %v", err)
	}
	res := make([][]byte, 0, len(reqs))
	oks := make([]bool, 0, len(reqs))
	sc := bufio.NewScanner(&out)
	sc.Buffer(make([]byte, 1<<20), 1<<26)
	for sc.Scan() {
		l := strings.TrimSpace(sc.Text())
		switch l {
		case "NONE":
			res = append(res, nil)
			oks = append(oks, false)
		case "-":
			res = append(res, []byte{})
			oks = append(oks, true)
		case "BADLINE":
			return nil, nil, fmt.Errorf("driver rejected a line")
		default:
			b, err := hex.DecodeString(l)
			if err != nil {
				return nil, nil, fmt.Errorf("driver output: %v", err)
			}
			res = append(res, b)
			oks = append(oks, true)
		}
	}
	if len(res) != len(reqs) {
		return nil, nil, fmt.Errorf("driver answered %d of %d requests", len(res), len(reqs))
	}
	return res, oks, nil
}

// CrossCheck re-evaluates a sample of the driver's answers inside Coq (vm_compute over the same
// Gallina definitions the driver was extracted from): the extraction and the OCaml driver are
// tied to what the kernel computes on every run.
func CrossCheck(o *Options, res *Result, tag string, reqs []EReq, outs [][]byte, oks []bool) error {
	const want = 160
	step := len(reqs)/want + 1
	var items []string
	var picked []int
	for i := 0; i < len(reqs) && len(picked) < want; i += step {
		if len(reqs[i].In) > 48 {
			continue
		}
		out := "None"
		if oks[i] {
			out = "Some " + gBytes(outs[i])
			if len(outs[i]) == 0 {
				out = "Some []"
			}
		}
		items = append(items, fmt.Sprintf("(%d%%N, %s, %s, %s)", reqs[i].Fn, gZ(int64(reqs[i].Itr)), gBytes(reqs[i].In), out))
		picked = append(picked, i)
	}
	if len(items) == 0 {
		return nil
	}
	var sb strings.Builder
	sb.WriteString("From DT Require Import Model.Bytes Model.VCase Extract.Dispatch.\nFrom Coq Require Import List NArith ZArith.\nImport ListNotations.\nLocal Open Scope hb_scope.\n")
	sb.WriteString("Definition ob_eqb (a b : option bytes) : bool := match a, b with Some x, Some y => bytes_eqb x y | None, None => true | _, _ => false end.\n")
	fmt.Fprintf(&sb, "Definition cases : list (N * Z * bytes * option bytes) := %s.\n", gList(items))
	sb.WriteString("Fixpoint mism (i : nat) (l : list (N * Z * bytes * option bytes)) : list nat :=\n  match l with\n  | [] => []\n  | (fn, itr, s, out) :: r => if ob_eqb (run_esc fn itr s) out then mism (S i) r else i :: mism (S i) r\n  end.\n")
	sb.WriteString("Definition bad := Eval vm_compute in mism 0 cases.\nPrint bad.\n")
	dir := fmt.Sprintf("%s/xcheck-%s", o.WorkDir, tag)
	_ = os.MkdirAll(dir, 0o755)
	file := dir + "/cases.v"
	if err := os.WriteFile(file, []byte(sb.String()), 0o644); err != nil {
		return err
	}
	out, err := coqcCmd("900", "-Q", o.CoqDir, "DT", "-Q", dir, "XC", file).CombinedOutput()
	if err != nil {
		return fmt.Errorf("coqc on %s: %v\n%s", file, err, tail(string(out), 1200))
	}
	k := strings.Index(string(out), "bad =")
	if k < 0 {
		return fmt.Errorf("extraction cross-check: no result in coqc output")
	}
	res.Histogram["extraction-cross-check("+tag+"):cases"] += len(items)
	for _, m := range regexp.MustCompile(`\d+`).FindAllString(string(out[k:]), -1) {
		var j int
		fmt.Sscan(m, &j)
		if j < 0 || j >= len(picked) {
			continue
		}
		i := picked[j]
		res.Mismatches++
		res.AddViolation(&Violation{Kind: "no-failing-input-found", Class: "extraction-cross-check", Lemma: "extracted OCaml driver vs vm_compute over the same Gallina definitions (Extract/Dispatch.v)",
			What:   fmt.Sprintf("function %d (%d passes) on %q: the extracted driver answers %q/%v, evaluation inside Coq differs", reqs[i].Fn, reqs[i].Itr, reqs[i].In, outs[i], oks[i]),
			Replay: map[string]any{"fn": reqs[i].Fn, "itr": reqs[i].Itr, "input_hex": hx(reqs[i].In), "driver_output_hex": hx(outs[i]), "driver_ok": oks[i]}})
	}
	_ = os.RemoveAll(dir)
	return nil
}
