package main

import (
	"bufio"
	"bytes"
	"encoding/hex"
	"fmt"
	"os/exec"
	"strings"
)

// EReq is one request to the extracted model: function id, iteration count, input.
type EReq struct {
	Fn  int
	Itr int
	In  []byte
}

func hexOrDash(b []byte) string {
	if len(b) == 0 {
		return "-"
	}
	return hex.EncodeToString(b)
}

// RunDriver evaluates all requests with the extracted model (one process, one line each).
// The result for request i is (bytes, ok); ok=false means the model returned None.
func RunDriver(driver string, reqs []EReq) ([][]byte, []bool, error) {
	var in bytes.Buffer
	for _, r := range reqs {
		fmt.Fprintf(&in, "%d %d %s\n", r.Fn, r.Itr, hexOrDash(r.In))
	}
	cmd := exec.Command(driver)
	cmd.Stdin = &in
	var out bytes.Buffer
	cmd.Stdout = &out
	if err := cmd.Run(); err != nil {
		return nil, nil, fmt.Errorf("driver: %v", err)
	}
	res := make([][]byte, 0, len(reqs))
	oks := make([]bool, 0, len(reqs))
	sc := bufio.NewScanner(&out)
	sc.Buffer(make([]byte, 1<<20), 1<<26)
	for sc.Scan() {
		l := strings.TrimSpace(sc.Text())
		switch l {
		case "NONE":
			res = append(res, nil)
			oks = append(oks, false)
		case "-":
			res = append(res, []byte{})
			oks = append(oks, true)
		case "BADLINE":
			return nil, nil, fmt.Errorf("driver rejected a line")
		default:
			b, err := hex.DecodeString(l)
			if err != nil {
				return nil, nil, fmt.Errorf("driver output: %v", err)
			}
			res = append(res, b)
			oks = append(oks, true)
		}
	}
	if len(res) != len(reqs) {
		return nil, nil, fmt.Errorf("driver answered %d of %d requests", len(res), len(reqs))
	}
	return res, oks, nil
}
