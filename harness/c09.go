package main

import (
	"bytes"
	"fmt"
	"net/url"
	"os"
	"regexp"
	"strings"
)

func init() { runners["C09"] = runC09 }

var c09Forms = []EscForm{
	{Name: "u", Tpl: "{%u= $V %}", Fn: 1, Itr: 1},
	{Name: "uu", Tpl: "{%uu= $V %}", Fn: 1, Itr: 2},
	{Name: "uuu", Tpl: "{%uuu= $V %}", Fn: 1, Itr: 3},
	{Name: "|urlEncode", Tpl: "{%= $V|urlEncode %}", Fn: 1, Itr: 1},
	{Name: "l", Tpl: "{%l= $V %}", Fn: 2, Itr: 1},
	{Name: "ll", Tpl: "{%ll= $V %}", Fn: 2, Itr: 2},
	{Name: "|linkEscape", Tpl: "{%= $V|linkEscape %}", Fn: 2, Itr: 1},
	{Name: "region-raw", Fn: 1, Itr: 1, Region: "urlencode"},
	// the short names of the modifiers, a tag without blanks, and a value that reaches the letter
	// through another modifier (the letters come last, whatever stands before them)
	{Name: "|ue", Tpl: "{%= $V|ue %}", Fn: 1, Itr: 1},
	{Name: "|le", Tpl: "{%= $V|le %}", Fn: 2, Itr: 1},
	{Name: "u-tight", Tpl: "{%u=$V%}", Fn: 1, Itr: 1},
	{Name: "u<-default", Tpl: "{%u= nosuchvar|default($V) %}", Fn: 1, Itr: 1, MinIn: 1},
	{Name: "l<-def", Tpl: "{%l= nosuchvar|def($V) %}", Fn: 2, Itr: 1, MinIn: 1},
}

var reURLAlphabet = regexp.MustCompile(`^([A-Za-z0-9\-._+]|%[0-9A-F]{2})*$`)

// oracleC09 decides the property on the implementation's own output, independently of the model.
func oracleC09(f EscForm, in, out []byte) string {
	if f.Fn == 1 {
		if !reURLAlphabet.Match(out) {
			return "output leaves the alphabet [A-Za-z0-9-._+] / %XX (upper-case hex)"
		}
		cur := string(out)
		for i := 0; i < f.Itr; i++ {
			d, err := url.QueryUnescape(cur)
			if err != nil {
				return "net/url.QueryUnescape rejects the output: " + err.Error()
			}
			cur = d
		}
		if cur != string(in) {
			return "query-string decoding does not return the original bytes"
		}
		if f.Itr == 1 {
			// agreement with url.QueryEscape modulo '~'
			want := bytes.ReplaceAll([]byte(url.QueryEscape(string(in))), []byte("~"), []byte("%7E"))
			if !bytes.Equal(want, out) {
				return "differs from url.QueryEscape elsewhere than at '~'"
			}
		}
		return ""
	}
	// link escape: no space; every double quote preceded by a backslash
	for i, c := range out {
		if c == ' ' {
			return "link-escape output contains a space"
		}
		if c == '"' && (i == 0 || out[i-1] != '\\') {
			return "link-escape output contains a double quote not preceded by a backslash"
		}
	}
	return ""
}

type escCase struct {
	Form    EscForm
	Carrier string
	In      []byte
	Obs     Obs
	Src     string
}

func runC09(o *Options) *Result {
	res := runEscaperProperty(o, "C09", c09Forms, oracleC09, escPlan{
		Singles: true, Pairs: true, PairForms: []string{"u", "l"},
		RandomQuick: 3000, RandomThorough: 300000, MaxLen: 48, ByteLevel: true,
		CorrName: "correspondence url_encode/link_escape (Model/EscURL.v) vs mod_uri.go",
		DecFn:    101, DecRef: func(in []byte) ([]byte, bool) {
			d, err := url.QueryUnescape(string(in))
			return []byte(d), err == nil
		},
		DecGen: func(r *RNG, maxLen int) []byte {
			n := r.Intn(maxLen + 1)
			b := make([]byte, n)
			al := []byte("%%%++aZ09-._~ 2FfGg\x00\xff")
			for i := range b {
				b[i] = al[r.Intn(len(al))]
			}
			return b
		},
	})
	if res.InfraError != "" {
		return res
	}
	// everything rendered inside a urlencode region: interpreter-level correspondence and reference semantics
	sub := *o
	sub.WorkDir = o.WorkDir + "/region"
	_ = os.MkdirAll(sub.WorkDir, 0o755)
	return mergeResults(res, runInterp(&sub, "C09", regionProfile("urlencode"), 200, 4000, corrInterp))
}

// escPlan describes the input streams of an escaper property.
type escPlan struct {
	Singles        bool
	Pairs          bool
	PairForms      []string
	RandomQuick    int
	RandomThorough int
	MaxLen         int
	ByteLevel      bool // inputs are arbitrary bytes (else valid UTF-8)
	Scalars        bool // thorough: every Unicode scalar value
	CorrName       string
	DecFn          int                             // model function id of the Gallina decoder (0 = none)
	DecRef         func(in []byte) ([]byte, bool)  // the reference decoder it is validated against
	DecGen         func(r *RNG, maxLen int) []byte // extra inputs for the decoder validation
	DecSkip        func(in []byte) bool            // inputs outside the domain both decoders define
	Dec2Fn         int                             // a second decoder to validate (CSS)
	Dec2Ref        func(in []byte) ([]byte, bool)
	Dec2Gen        func(r *RNG, maxLen int) []byte
	ScalarForms    []string // forms run on every Unicode scalar value
	Gen            func(r *RNG, maxLen int) []byte
	Extra          func(add func(f EscForm, carrier string, in []byte))
}

func formByName(forms []EscForm, n string) (EscForm, bool) {
	for _, f := range forms {
		if f.Name == n {
			return f, true
		}
	}
	return EscForm{}, false
}

func runEscaperProperty(o *Options, prop string, forms []EscForm, oracle func(EscForm, []byte, []byte) string, plan escPlan) *Result {
	res := NewResult()
	rng := NewRNG(o.Seed)
	forms = longRuns(forms)
	var cases []*escCase
	add := func(f EscForm, carrier string, in []byte) {
		if f.MaxIn > 0 && len(in) > f.MaxIn {
			return
		}
		if len(in) < f.MinIn {
			return
		}
		if f.Region != "" {
			in = sanitizeRaw(in)
			if len(in) == 0 {
				return
			}
			carrier = "template-text"
		} else if len(in) == 0 && (carrier == "SetBytes" || carrier == "SetString") {
			// an empty bytes variable reads back as nil (no value), not as an empty string;
			// the escaper properties are about values, so the empty string travels by pointer
			carrier = "Static*string"
		}
		cases = append(cases, &escCase{Form: f, Carrier: carrier, In: in})
	}
	gen := plan.Gen
	if gen == nil {
		gen = randBytes
	}
	// replayed corpus first
	for _, c := range loadEscCorpus(o, prop, forms) {
		add(c.Form, c.Carrier, c.In)
		res.Hist("stream:corpus")
	}
	if o.Replay == "" {
		if plan.Singles {
			for b := 0; b < 256; b++ {
				if !plan.ByteLevel && b >= 0x80 {
					break
				}
				if plan.Scalars && b >= 0x80 {
					break // single bytes >= 0x80 are not valid UTF-8; they are covered by the scalar stream
				}
				for _, f := range forms {
					add(f, carriers[(b+len(f.Name))%len(carriers)], []byte{byte(b)})
					res.Hist("stream:single-byte")
				}
			}
		}
		if plan.Pairs {
			for a := 0; a < 256; a++ {
				for b := 0; b < 256; b++ {
					for _, fn := range plan.PairForms {
						if f, ok := formByName(forms, fn); ok {
							add(f, "SetBytes", []byte{byte(a), byte(b)})
							res.Hist("stream:byte-pair")
						}
					}
				}
			}
		}
		if plan.Extra != nil {
			plan.Extra(add)
		}
		// numbers of every kind through every (non-region) form
		for i := range numCarriersEsc {
			if txt, ok := numText(i); ok {
				for _, f := range forms {
					if f.Region == "" && f.MaxIn == 0 {
						add(f, fmt.Sprintf("num#%d", i), txt)
						res.Hist("stream:numeric-carrier")
					}
				}
			}
		}
		if plan.Scalars {
			step := 97 // quick: a stride through the scalar values plus every boundary; thorough: all of them
			if o.Tier == "thorough" {
				step = 1
			}
			for c := 0; c < 0x110000; c++ {
				if c >= 0xD800 && c <= 0xDFFF {
					continue
				}
				near := c < 0x400 || c%0x1000 < 2 || c%0x1000 > 0xffd || (c >= 0x7f0 && c < 0x810) || (c >= 0xfff0 && c < 0x10010) || (c >= 0x2020 && c < 0x2030) || c >= 0x10fff0
				if step != 1 && !near && c%step != 0 {
					continue
				}
				for _, fn := range plan.ScalarForms {
					if f, ok := formByName(forms, fn); ok {
						add(f, carriers[c%len(carriers)], []byte(string(rune(c))))
						res.Hist("stream:scalar")
					}
				}
			}
		}
		n := plan.RandomQuick
		if o.Tier == "thorough" {
			n = plan.RandomThorough
		}
		if o.Budget > 0 {
			n *= o.Budget
		}
		for i := 0; i < n; i++ {
			f := forms[rng.Intn(len(forms))]
			in := gen(rng, plan.MaxLen)
			add(f, carriers[rng.Intn(len(carriers))], in)
			res.Hist("stream:random")
		}
	}
	// run the implementation
	for _, c := range cases {
		c.Obs, c.Src = renderForm(c.Form, c.Carrier, c.In)
		res.Hist("form:" + c.Form.Name)
		res.Hist("impl:" + c.Obs.ErrClass())
		res.Hist(fmt.Sprintf("len:%s", lenBucket(len(c.In))))
	}
	// run the model
	reqs := make([]EReq, len(cases))
	for i, c := range cases {
		reqs[i] = EReq{Fn: c.Form.Fn, Itr: c.Form.Itr, In: c.In}
	}
	mout, mok, err := RunDriver(o.Driver, reqs)
	if err == nil {
		err = CrossCheck(o, res, "esc", reqs, mout, mok)
	}
	if err != nil {
		res.InfraError = err.Error()
		return res
	}
	res.ModelEvals = len(reqs)
	res.Evaluations = len(cases)
	for i, c := range cases {
		replay := map[string]any{
			"form": c.Form.Name, "carrier": c.Carrier, "input_hex": hx(c.In), "template": c.Src,
			"seed": o.Seed, "tier": o.Tier,
			"observed_hex": hx(c.Obs.Out), "observed_err": c.Obs.Err, "observed_panic": c.Obs.Panic, "observed_hang": c.Obs.Hang,
		}
		if mok[i] {
			replay["model_hex"] = hx(mout[i])
		}
		implOK := c.Obs.ErrClass() == "OK"
		var ofail string
		if !implOK {
			ofail = "render did not succeed: " + c.Obs.ErrClass() + " " + c.Obs.Err + c.Obs.Panic
		} else {
			ofail = oracle(c.Form, c.In, c.Obs.Out)
		}
		mismatch := !implOK || !mok[i] || !bytes.Equal(mout[i], c.Obs.Out)
		if len(c.Obs.Out) > 0 && !bytes.Equal(c.Obs.Out, c.In) {
			res.Distinct(c.Form.Name + "|" + hx(c.In))
		}
		if i%97 == 0 {
			res.Sample(map[string]any{"form": c.Form.Name, "carrier": c.Carrier, "input_hex": hx(c.In), "output": string(c.Obs.Out)}, 12)
		}
		if ofail != "" {
			res.OracleFails++
			replay["expected"] = "property oracle: " + ofail
			res.AddViolation(&Violation{Kind: "failing-input", Class: escClass(prop, c, ofail), What: fmt.Sprintf("%s on input %q via %s: %s", c.Form.Name, c.In, c.Carrier, ofail), Replay: replay})
		}
		if mismatch {
			res.Mismatches++
			if ofail == "" {
				res.AddViolation(&Violation{Kind: "no-failing-input-found", Class: "correspondence", Lemma: plan.CorrName,
					What: fmt.Sprintf("model and implementation differ for %s on input %q (model %q, implementation %q) while the property oracle holds", c.Form.Name, c.In, mout[i], c.Obs.Out), Replay: replay})
			}
		}
	}
	if o.Replay == "" {
		if err := runMulti(o, res, rng, forms, gen, plan.MaxLen, plan.CorrName); err != nil {
			res.InfraError = err.Error()
			return res
		}
	}
	// validation of the specification-side decoders against the reference decoders
	if o.Replay == "" {
		if err := validateDecoder(o, res, rng, plan.DecFn, plan.DecRef, plan.DecGen, plan.DecSkip, gen, plan.CorrName, cases, true); err != nil {
			res.InfraError = err.Error()
			return res
		}
		if err := validateDecoder(o, res, rng, plan.Dec2Fn, plan.Dec2Ref, plan.Dec2Gen, plan.DecSkip, gen, plan.CorrName, cases, false); err != nil {
			res.InfraError = err.Error()
			return res
		}
	}
	// a mismatch whose own case satisfies the oracle is only reported as
	// no-failing-input-found when no failing input exists anywhere in the run
	res.pruneNoFailing()
	res.Rule = "cases = corpus + exhaustive single bytes x all forms + exhaustive byte pairs (u,l) + seeded random strings x forms x carriers; a case is non-trivial when its output is non-empty and differs from its input; distinct by (form,input)"
	res.Exhaustive = plan.Singles && o.Replay == ""
	if res.Exhaustive {
		res.ExhaustNote = "all single byte values x all forms"
		if plan.Pairs {
			res.ExhaustNote += "; all 65536 byte pairs for forms " + fmt.Sprint(plan.PairForms)
		}
	}
	res.WriteReplays(o.Verif+"/evidence/replays", prop)
	return res
}

// pruneNoFailing drops no-failing-input-found entries when the same run has a failing input
// (the failing input is the better replay for the same broken correspondence).
func (r *Result) pruneNoFailing() {
	// failing inputs that are recorded findings do not explain a broken proof or correspondence:
	// only an unrecorded failing input lets the no-failing-input-found entries go
	known := knownFindingClasses()
	has := false
	for _, v := range r.Violations {
		if v.Kind == "failing-input" && !known[v.Class] {
			has = true
		}
	}
	if !has {
		return
	}
	out := r.Violations[:0]
	for _, v := range r.Violations {
		if v.Kind == "failing-input" {
			out = append(out, v)
		}
	}
	r.Violations = out
}

var verifRoot = "/verif"

// knownFindingClasses reads the class guards of the committed known-findings file.
func knownFindingClasses() map[string]bool {
	m := map[string]bool{}
	b, err := os.ReadFile(verifRoot + "/known_findings.txt")
	if err != nil {
		return m
	}
	for _, l := range strings.Split(string(b), "\n") {
		if !strings.HasPrefix(l, "finding:") {
			continue
		}
		for _, f := range strings.Fields(l) {
			if strings.HasPrefix(f, "class=") {
				m[strings.TrimPrefix(f, "class=")] = true
			}
		}
	}
	return m
}

func lenBucket(n int) string {
	switch {
	case n == 0:
		return "0"
	case n == 1:
		return "1"
	case n == 2:
		return "2"
	case n <= 8:
		return "3-8"
	case n <= 32:
		return "9-32"
	}
	return "33+"
}

// escClass names the decidable class of an oracle failure (used by known_findings.txt guards).
func escClass(prop string, c *escCase, ofail string) string {
	return "escaper:" + c.Form.Name
}

// validateDecoder differential-tests a Gallina decoder (through the driver) against its reference.
func validateDecoder(o *Options, res *Result, rng *RNG, fn int, ref func([]byte) ([]byte, bool), dgen func(*RNG, int) []byte,
	skip func([]byte) bool, gen func(*RNG, int) []byte, corr string, cases []*escCase, useImage bool) error {
	if fn == 0 {
		return nil
	}
	var dins [][]byte
	for i, c := range cases {
		if i%7 == 0 && c.Obs.ErrClass() == "OK" {
			dins = append(dins, c.Obs.Out)
		}
	}
	n := 2000
	if o.Tier == "thorough" {
		n = 50000
	}
	for i := 0; i < n; i++ {
		if dgen != nil {
			dins = append(dins, dgen(rng, 24))
		} else {
			dins = append(dins, gen(rng, 24))
		}
	}
	dreqs := make([]EReq, len(dins))
	for i, in := range dins {
		dreqs[i] = EReq{Fn: fn, Itr: 0, In: in}
	}
	dout, dok, err := RunDriver(o.Driver, dreqs)
	if err == nil {
		err = CrossCheck(o, res, fmt.Sprintf("dec%d", fn), dreqs, dout, dok)
	}
	if err != nil {
		return err
	}
	bad := 0
	for i, in := range dins {
		if skip != nil && skip(in) {
			continue
		}
		want, wok := ref(in)
		if wok != dok[i] || (wok && !bytes.Equal(want, dout[i])) {
			bad++
			if bad <= 3 {
				res.Notes = append(res.Notes, fmt.Sprintf("DECODER-SPEC-MISMATCH fn %d on %q: Gallina %q/%v reference %q/%v", fn, in, dout[i], dok[i], want, wok))
			}
		}
	}
	res.Histogram[fmt.Sprintf("decoder-spec-validation(fn%d):cases", fn)] = len(dins)
	res.Histogram[fmt.Sprintf("decoder-spec-validation(fn%d):mismatches", fn)] = bad
	if bad > 0 {
		res.AddViolation(&Violation{Kind: "no-failing-input-found", Class: "decoder-spec", Lemma: "Spec decoder vs reference decoder (" + corr + ")",
			What: "the Gallina decoder that states the property disagrees with the reference decoder: " + res.Notes[len(res.Notes)-1], Replay: map[string]any{"notes": res.Notes}})
	}
	return nil
}
