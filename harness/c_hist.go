package main

import (
	"fmt"
	"regexp"
	"strings"

	"github.com/koykov/dyntpl"
)

func init() {
	runners["C05"] = runC05
	runners["C18"] = runC18
}

var profC05 = &Profile{Name: "context-reuse", MaxDepth: 3, MaxItems: 4, Includes: true, Regions: true, PfxSfx: true, Letters: true, Mods: true, BreakN: true,
	W: map[string]int{"text": 1, "marker": 2, "print": 4, "if": 2, "switch": 1, "cloop": 3, "rloop": 3, "include": 2, "region": 2, "openregion": 1, "exit": 2, "ifok": 1,
		"break": 1, "lazybreak": 1, "continue": 1, "ctx": 3, "counter": 2, "dynprint": 3, "dyncond": 1, "failing": 2}}

var profC18 = &Profile{Name: "defer-and-pools", MaxDepth: 3, MaxItems: 4, Includes: true, Mods: true, Effects: true,
	W: map[string]int{"marker": 2, "print": 6, "if": 2, "cloop": 2, "rloop": 2, "include": 3, "exit": 2}}

// normDigest drops what is scratch by classification (Gen/SrcFactsCheck.v, scratch_overwritten):
// bufI is written by Length/Capacity immediately before it is read and never otherwise.
var reDigestScratch = regexp.MustCompile(`bufI=-?\d+;|noesc=(true|false);`)

func normDigest(d string) string {
	d = strings.ReplaceAll(d, "rl(0,0,0,false,false,false);", "")
	return reDigestScratch.ReplaceAllString(d, "")
}

func histSig(h *history) string {
	var sb strings.Builder
	for _, s := range h.Steps {
		if s.Kind == "render" {
			sb.WriteString("R[" + s.IC.vc.Src + "]" + s.IC.vc.Data.Slots())
		} else {
			sb.WriteString("|" + s.Kind + "|")
		}
	}
	return sb.String()
}

func histReplay(h *history, o *Options) map[string]any {
	var steps []map[string]any
	for _, s := range h.Steps {
		if s.Kind == "render" {
			steps = append(steps, map[string]any{"step": "render", "template": s.IC.vc.Src, "data_slots": s.IC.vc.Data.Slots(), "includes": s.IC.vc.Meta,
				"observed": string(s.Obs.Out), "observed_err": s.Obs.Err, "observed_panic": s.Obs.Panic, "fresh": string(s.Fresh.Out), "fresh_err": s.Fresh.Err, "events": s.Events})
		} else {
			steps = append(steps, map[string]any{"step": s.Kind, "events": s.Events})
		}
	}
	return map[string]any{"steps": steps, "seed": o.Seed, "tier": o.Tier}
}

func runHistProp(o *Options, prop string, prof *Profile, quickN, thoroughN int, oracle func(h *history, res *Result, o *Options)) *Result {
	res := NewResult()
	rng := NewRNG(o.Seed)
	n := quickN
	if o.Tier == "thorough" {
		n = thoroughN
	}
	var hs []*history
	for i := 0; i < n; i++ {
		h := genHistoryCase(i, rng.Fork(), prof, 2+rng.Intn(5))
		h.UseRender = prop == "C05"
		h.run()
		hs = append(hs, h)
	}
	if prop == "C05" {
		// contexts that never hold a variable: a render stops inside a bound tag / a loop / an include,
		// the context goes through Reset or the pool, plain text with quotes and markup follows
		id0 := n + 1000
		firsts := []string{`{% jsonquote %}say "a"{% exit %} and "b"{% endjsonquote %}`, `{% htmlescape %}<b>{% for i := 0; i < 3; i++ %}{% exit %}{% endfor %}`,
			`{% urlencode %}a b{% include nosuchtpl %}`, `{% for i := 0; i < 2; i++ %}{% jsonquote %}"{% break %}{% endfor %}`, `{% counter c = 3 %}{% jsonquote %}{% exit %}`}
		second := `he said "hi" <b>&</b> a b`
		for k, f := range firsts {
			for _, sep := range []string{"reset", "release"} {
				h := &history{Reg: map[string][]dyntpl.VerifNode{}, Flits: map[string]float64{}, Budget: 8}
				ic1 := manualCase((id0+k)*10, f, &DataEnv{}, h)
				ic2 := manualCase((id0+k)*10+1, second, &DataEnv{}, h)
				h.Steps = []*hStep{{Kind: "render", IC: ic1, Key: ic1.vc.Meta["key"].(string)}, {Kind: sep}, {Kind: "render", IC: ic2, Key: ic2.vc.Meta["key"].(string)}, {Kind: "reset"}}
				h.run()
				hs = append(hs, h)
			}
		}
		// more include buffers than a context keeps at hand: an include inside a counting loop of
		// 9 to 12 iterations, on a context that went through the same before a Reset / the pool
		for k, sep := range []string{"reset", "release"} {
			h := &history{Reg: map[string][]dyntpl.VerifNode{}, Flits: map[string]float64{}, Budget: 20}
			d := &DataEnv{Statics: []StaticVar{{Name: "t0", Kind: "string", S: []byte("Ann")}}}
			item := manualCase((id0+20+k)*10, `<c{%= i %}:{%= t0 %}>`, d, h)
			ikey := item.vc.Meta["key"].(string)
			h.Reg[ikey] = item.vc.Tree
			h.RegKeys = append(h.RegKeys, ikey)
			for j, lim := range []int{10, 3, 12, 9} {
				host := manualCase((id0+20+k)*10+1+j, fmt.Sprintf(`[{%% for i := 0; i < %d; i++ %%}{%% include %s %%}{%% endfor %%}]`, lim, ikey), d, h)
				host.vc.Budget = 20
				h.Steps = append(h.Steps, &hStep{Kind: "render", IC: host, Key: host.vc.Meta["key"].(string)}, &hStep{Kind: sep})
			}
			h.run()
			hs = append(hs, h)
		}
		// a counting loop cut by the writer at each of its writes (body, separator, text around it),
		// then a Reset, then paths written with brackets outside any counting loop (there the
		// brackets are part of the name: no such variable, nothing is printed)
		for cut := 1; cut <= 7; cut++ {
			for k, sep := range []string{"reset", "release"} {
				h := &history{Reg: map[string][]dyntpl.VerifNode{}, Flits: map[string]float64{}, Budget: 8}
				d := &DataEnv{User: UserData{Present: true, Id: "u", Name: []byte("n"), HasFinance: true, History: []HistRow{{DateUnix: 1, Cost: 1, Comment: []byte("zero")}, {DateUnix: 2, Cost: 2, Comment: []byte("one")}}},
					Statics: []StaticVar{{Name: "one", Kind: "int", I: 1}, {Name: "v", Kind: "string", S: []byte("V")}}}
				loop := manualCase((id0+40+cut)*10+k, `[{% for i := 0; i < 3; i++ sep , %}a{%= user.Finance.History[i].Comment %}{% endfor %}]`, d, h)
				after := manualCase((id0+60+cut)*10+k, `<{%= v[one] %}|{% for _, h := range user.Finance.History %}{%= v[one] %}{%= h.Comment %};{% endfor %}>`, d, h)
				h.Steps = []*hStep{{Kind: "render", IC: loop, Key: loop.vc.Meta["key"].(string), Fail: cut, Short: cut % 2}, {Kind: sep}, {Kind: "render", IC: after, Key: after.vc.Meta["key"].(string)}, {Kind: "reset"}}
				h.run()
				hs = append(hs, h)
			}
		}
		// a print of every spelling (plain, raw / noesc, letters, prefix and suffix, ternary) cut by the
		// writer at each of its writes, then a Reset or the pool, then static text inside each bound
		// tag before any print: nothing of the cut render may show
		prints := []string{`id:{%= v|raw %};`, `id:{%= v|noesc pfx a= %}`, `{%= v %}`, `{%j= v sfx ; %}`, `{%= v pfx < sfx > %}`, `{%= one == 1 ? v : one %}`, `{% jsonquote %}{%= v|raw %}{% endjsonquote %}`}
		regions := []string{`{% jsonquote %}he said "hi" to <all>{% endjsonquote %}{%= v %}`, `{% htmlescape %}he said "hi" to <all> & co{% endhtmlescape %}{%= v %}`, `{% urlencode %}a b&c=d/e{% endurlencode %}{%= v %}`}
		for pi, ps := range prints {
			for cut := 1; cut <= 3; cut++ {
				h := &history{Reg: map[string][]dyntpl.VerifNode{}, Flits: map[string]float64{}, Budget: 8}
				d := &DataEnv{Statics: []StaticVar{{Name: "one", Kind: "int", I: 1}, {Name: "v", Kind: "string", S: []byte(`V"<&>`)}}}
				first := manualCase((id0+80+pi)*10+cut, ps, d, h)
				second := manualCase((id0+90+pi)*10+cut, regions[(pi+cut)%3], d, h)
				h.Steps = []*hStep{{Kind: "render", IC: first, Key: first.vc.Meta["key"].(string), Fail: cut, Short: (pi + cut) % 2}, {Kind: []string{"reset", "release"}[(pi+cut)%2]},
					{Kind: "render", IC: second, Key: second.vc.Meta["key"].(string)}, {Kind: "reset"}}
				h.run()
				hs = append(hs, h)
			}
		}
		// slot transitions: every ordered pair of variable kinds (13 x 13) in the same slots across a reset
		id := n
		for _, a := range slotKinds {
			for _, b := range slotKinds {
				h := genSlotHistory(id, rng.Fork(), a, b)
				h.run()
				hs = append(hs, h)
				id++
			}
		}
	}
	if prop == "C18" || prop == "C16" {
		// a render that fails inside an included template (which includes a template nobody
		// registered), then further renders on the same context without Reset: what they defer runs
		for k := 0; k < 2; k++ {
			h := &history{Reg: map[string][]dyntpl.VerifNode{}, Flits: map[string]float64{}, Budget: 8}
			d := &DataEnv{Statics: []StaticVar{{Name: "t0", Kind: "string", S: []byte("x")}}}
			sub := manualCase((n+3000+k)*10, `abc{% include nobody-registered-this %}def`, d, h)
			skey := sub.vc.Meta["key"].(string)
			h.Reg[skey] = sub.vc.Tree
			h.RegKeys = append(h.RegKeys, skey)
			good := manualCase((n+3000+k)*10+1, `<{%= t0 %}>`, d, h)
			gkey := good.vc.Meta["key"].(string)
			h.Reg[gkey] = good.vc.Tree
			h.RegKeys = append(h.RegKeys, gkey)
			bad := manualCase((n+3000+k)*10+2, fmt.Sprintf(`1{%%= t0|vdefer("b%d") %%}[{%% include %s %%}]`, k, skey), d, h)
			ok := manualCase((n+3000+k)*10+3, fmt.Sprintf(`1{%%= t0|vdefer("g%d") %%}[{%% include %s %%}]{%%= t0|vdefer("h%d")|vacquire("pa") %%}.`, k, gkey, k), d, h)
			step := func(ic *interpCase) *hStep { return &hStep{Kind: "render", IC: ic, Key: ic.vc.Meta["key"].(string)} }
			h.Steps = []*hStep{step(bad), step(ok), step(ok), {Kind: []string{"reset", "release"}[k]}, step(ok), {Kind: "reset"}}
			h.run()
			hs = append(hs, h)
		}
	}
	if prop == "C18" {
		// renders of very different sizes on pooled contexts: whatever a render made the context
		// grow to, giving it back settles what the render acquired and deferred
		id0 := n + 2000
		for k, size := range []int{5, 4096, 80 * 1024, 3} {
			h := &history{Reg: map[string][]dyntpl.VerifNode{}, Flits: map[string]float64{}, Budget: 8}
			d := &DataEnv{Statics: []StaticVar{{Name: "big", Kind: "string", Ptr: true, S: longText(size)}, {Name: "t0", Kind: "string", S: []byte("x")}}}
			ic := manualCase((id0+k)*10, fmt.Sprintf(`{%%= big %%}|{%%= t0|vacquire("pa")|vdefer("d%d") %%}|{%%= t0|vacquire("pb") %%}`, k), d, h)
			small := manualCase((id0+k)*10+1, `{%= t0|vacquire("pa") %}.`, d, h)
			h.Steps = []*hStep{{Kind: "render", IC: small, Key: small.vc.Meta["key"].(string)}, {Kind: "release"}, {Kind: "render", IC: ic, Key: ic.vc.Meta["key"].(string)}, {Kind: "release"},
				{Kind: "render", IC: small, Key: small.vc.Meta["key"].(string)}, {Kind: "reset"}}
			h.run()
			hs = append(hs, h)
		}
	}
	if err := runHistories(o, hs); err != nil {
		res.InfraError = err.Error()
		return res
	}
	for hi, h := range hs {
		res.Evaluations++
		res.Distinct(histSig(h))
		oracle(h, res, o)
		vi := 0
		for _, s := range h.Steps {
			if vi >= len(h.Verdict) {
				break
			}
			v := h.Verdict[vi]
			vi++
			res.ModelEvals++
			res.Hist("step:" + s.Kind)
			res.Hist("model:" + strings.Fields(v)[0])
			if s.Kind == "render" {
				res.Hist("impl:" + s.Obs.ErrClass())
			}
			if strings.HasPrefix(v, "bad") {
				res.Mismatches++
				rp := histReplay(h, o)
				rp["model"] = v
				what := fmt.Sprintf("history step %q: model and implementation differ (model says %s)", s.Kind, v)
				if s.Kind == "render" {
					f := strings.Fields(v)
					what = fmt.Sprintf("history: render of %q on a reused context gives %q err=%q events=%v; the model gives %q err-class=%s with %s events", s.IC.vc.Src, s.Obs.Out, s.Obs.Err, s.Events, unhex(f[1][1:]), f[2], f[3])
				}
				res.AddViolation(&Violation{Kind: "no-failing-input-found", Class: "correspondence", Lemma: "correspondence run_history (Model/VCase.v, ctx_reset/render of Model/Interp.v) vs Ctx.Reset / AcquireCtx / ReleaseCtx / write",
					What: what, Replay: rp})
				break
			}
			if v == "skip" {
				break
			}
		}
		if hi%10 == 0 {
			var tpls []string
			for _, s := range h.Steps {
				if s.Kind == "render" {
					tpls = append(tpls, s.IC.vc.Src+" => "+string(s.Obs.Out)+" "+s.Obs.Err)
				} else {
					tpls = append(tpls, "<"+s.Kind+">")
				}
			}
			res.Sample(map[string]any{"history": tpls}, 6)
		}
	}
	res.pruneNoFailing()
	res.WriteReplays(o.Verif+"/evidence/replays", prop)
	return res
}

func runC05(o *Options) *Result {
	res := runHistProp(o, "C05", profC05, 60, 1500, func(h *history, res *Result, o *Options) {
		for _, s := range h.Steps {
			if s.Kind != "render" {
				continue
			}
			if s.Altered != "" {
				res.OracleFails++
				res.AddViolation(&Violation{Kind: "failing-input", Class: "reuse:returned-bytes-altered",
					What:   fmt.Sprintf("the bytes Render returned for %q read %q right after the render and %q after the context was used further", s.IC.vc.Src, s.Obs.Out, s.Altered),
					Replay: histReplay(h, o)})
				return
			}
			if string(s.Obs.Out) != string(s.Fresh.Out) || s.Obs.Err != s.Fresh.Err || s.Obs.Panic != "" {
				res.OracleFails++
				res.AddViolation(&Violation{Kind: "failing-input", Class: "reuse:differs-from-fresh",
					What:   fmt.Sprintf("render of %q on a reset/pooled context gives %q err=%q%s, on a new context %q err=%q", s.IC.vc.Src, s.Obs.Out, s.Obs.Err, s.Obs.Panic, s.Fresh.Out, s.Fresh.Err),
					Replay: histReplay(h, o)})
				return
			}
		}
	})
	// a reset context has the logical contents of a new one (reflective digest: every field, also ones added later)
	ctx := dyntpl.NewCtx()
	rng := NewRNG(o.Seed + 77)
	for i := 0; i < 20; i++ {
		ic := genInterpCase(100000+i, rng.Fork(), profC05)
		key, _, po := parseDump([]byte(ic.vc.Src), false)
		if po.ErrClass() != "OK" {
			continue
		}
		renderOn(ctx, key, ic.vc.Data)
		ctx.Reset()
		if d, f := normDigest(dyntpl.VerifCtxDigest(ctx)), normDigest(dyntpl.VerifCtxDigest(dyntpl.NewCtx())); d != f {
			res.OracleFails++
			res.AddViolation(&Violation{Kind: "failing-input", Class: "reuse:digest",
				What:   fmt.Sprintf("after rendering %q and Reset the context's logical contents differ from a new context: %s vs %s", ic.vc.Src, d, f),
				Replay: map[string]any{"template": ic.vc.Src, "data_slots": ic.vc.Data.Slots(), "digest_reset": d, "digest_new": f}})
			break
		}
		res.Hist("digest:equal")
	}
	res.Rule = "histories of 2-6 renders (templates of every construct incl. failing renders, exit, unterminated bound tags, aborted loops) on one context with Reset or Release+Acquire between some of them; every reset-delimited segment is replayed on a new context and compared step by step; the whole history is evaluated in the Gallina model; reflective digest of a reset context vs a new one; distinct by history"
	return res
}

func runC18(o *Options) *Result {
	res := runHistProp(o, "C18", profC18, 60, 1500, func(h *history, res *Result, o *Options) {
		var acquired []string
		var pending []string // registered during earlier failed renders on this context (not yet run, not reset)
		for _, s := range h.Steps {
			fail := func(class, what string) {
				res.OracleFails++
				res.AddViolation(&Violation{Kind: "failing-input", Class: class, What: what, Replay: histReplay(h, o)})
			}
			if s.Kind == "render" {
				var deferred, ran []string
				writes := 0
				for _, e := range harnessCount(s) {
					_ = e
				}
				for _, e := range s.Events {
					switch {
					case strings.HasPrefix(e, "EvDefer "):
						deferred = append(deferred, strings.TrimPrefix(e, "EvDefer "))
					case strings.HasPrefix(e, "EvRun "):
						f := strings.Fields(e)
						ran = append(ran, f[1])
						var n int
						fmt.Sscanf(f[2], "%d%%nat", &n)
						if n > writes {
							writes = n
						}
						if len(ran) > len(pending)+len(deferred) {
							fail("defer:before-registration", fmt.Sprintf("render of %q: a deferred function ran before it was registered (events %v)", s.IC.vc.Src, s.Events))
							return
						}
					case strings.HasPrefix(e, "EvAcquire "):
						acquired = append(acquired, strings.Fields(e)[1])
					case strings.HasPrefix(e, "EvRelease "):
						fail("pool:released-during-render", fmt.Sprintf("render of %q: a pooled object was released while the render was running (events %v)", s.IC.vc.Src, s.Events))
						return
					}
				}
				if s.Obs.Err != "" {
					// a failed render runs nothing; what it registered stays registered until the context is reset
					if len(ran) > 0 {
						fail("defer:ran-in-failed-render", fmt.Sprintf("render of %q failed (%s) but deferred functions ran: %v", s.IC.vc.Src, s.Obs.Err, ran))
						return
					}
					pending = append(pending, deferred...)
				}
				if s.Obs.Err == "" && s.Obs.Panic == "" {
					deferred = append(append([]string(nil), pending...), deferred...)
					pending = nil
					if strings.Join(deferred, ",") != strings.Join(ran, ",") {
						fail("defer:not-once-in-order", fmt.Sprintf("render of %q succeeded: deferred %v but ran %v (every deferred function must run exactly once, in registration order)", s.IC.vc.Src, deferred, ran))
						return
					}
					// all runs after the last output: the run events carry the number of writes made before them
					total := s.IC.writesOf(s)
					for _, e := range s.Events {
						if strings.HasPrefix(e, "EvRun ") {
							var n int
							fmt.Sscanf(strings.Fields(e)[2], "%d%%nat", &n)
							if n != total {
								fail("defer:before-output-finished", fmt.Sprintf("render of %q: a deferred function ran after %d of %d writes", s.IC.vc.Src, n, total))
								return
							}
						}
					}
				}
			} else {
				var released []string
				for _, e := range s.Events {
					if strings.HasPrefix(e, "EvRelease ") {
						released = append(released, strings.Fields(e)[1])
					}
				}
				if strings.Join(released, ",") != strings.Join(acquired, ",") {
					fail("pool:not-once-at-reset", fmt.Sprintf("reset: acquired %v since the last reset but released %v", acquired, released))
					return
				}
				acquired = nil
				pending = nil
			}
		}
	})
	res.Rule = "histories of 2-6 renders on one context with resets; templates print through harness modifiers that defer functions (unique tags) and acquire pooled objects at top level, in loops, includes (depth <= 3), before/after exit; the event log (writes of the outermost writer, defer registrations, runs, acquisitions, releases) is checked against the property and against the Gallina model's log; distinct by history"
	return res
}

func harnessCount(s *hStep) []string { return nil }

// writesOf: number of Write calls the outermost writer saw in this step (from the run events' positions or the output).
func (ic *interpCase) writesOf(s *hStep) int {
	return s.Writes
}
