package main

import (
	"bytes"
	"regexp"
	"unicode/utf8"
)

func init() { runners["C10"] = runC10 }

var c10Forms = []EscForm{
	{Name: "J", Tpl: "{%J= $V %}", Fn: 7, Itr: 1},
	{Name: "JJ", Tpl: "{%JJ= $V %}", Fn: 7, Itr: 2},
	{Name: "|jsEscape", Tpl: "{%= $V|jsEscape %}", Fn: 7, Itr: 1},
	{Name: "c", Tpl: "{%c= $V %}", Fn: 8, Itr: 1},
	{Name: "cc", Tpl: "{%cc= $V %}", Fn: 8, Itr: 2},
	{Name: "|cssEscape", Tpl: "{%= $V|cssEscape %}", Fn: 8, Itr: 1},
	{Name: "|jse", Tpl: "{%= $V|jse %}", Fn: 7, Itr: 1},
	{Name: "|ce", Tpl: "{%= $V|ce %}", Fn: 8, Itr: 1},
	{Name: "J-tight", Tpl: "{%J=$V%}", Fn: 7, Itr: 1},
	{Name: "J<-default", Tpl: "{%J= nosuchvar|default($V) %}", Fn: 7, Itr: 1, MinIn: 1},
	{Name: "c<-def", Tpl: "{%c= nosuchvar|def($V) %}", Fn: 8, Itr: 1, MinIn: 1},
}

var reJSAlphabet = regexp.MustCompile(`^([A-Za-z0-9,._]|\\[\\/bfnrt]|\\u[0-9a-fA-F]{4})*$`)
var reCSSAlphabet = regexp.MustCompile(`^([A-Za-z0-9]|\\[0-9a-fA-F]{1,6} )*$`)

func hexv(c rune) int {
	switch {
	case c >= '0' && c <= '9':
		return int(c - '0')
	case c >= 'a' && c <= 'f':
		return int(c-'a') + 10
	case c >= 'A' && c <= 'F':
		return int(c-'A') + 10
	}
	return -1
}

// encodeWTF8 encodes code points, letting lone surrogates through as 3-byte sequences
// (the Gallina utf8_encode does the same), so that decoders can be compared on them.
func encodeWTF8(rs []rune) []byte {
	var b []byte
	for _, r := range rs {
		if r >= 0xD800 && r <= 0xDFFF {
			b = append(b, byte(0xE0|r>>12), byte(0x80|(r>>6)&0x3f), byte(0x80|r&0x3f))
		} else {
			b = utf8.AppendRune(b, r)
		}
	}
	return b
}

// jsStringValue: independent reader of the body of an ECMAScript string literal (strict mode,
// no line continuations). Returns the code points after pairing surrogates; ok=false if the
// text is not a valid string-literal body.
func jsStringValue(s []byte) ([]rune, bool) {
	in := []rune(string(s))
	var units []rune
	for i := 0; i < len(in); i++ {
		c := in[i]
		switch {
		case c == '"' || c == '\'' || c == '\n' || c == '\r':
			return nil, false
		case c != '\\':
			units = append(units, c)
		default:
			i++
			if i >= len(in) {
				return nil, false
			}
			e := in[i]
			switch e {
			case 'b':
				units = append(units, 8)
			case 'f':
				units = append(units, 12)
			case 'n':
				units = append(units, 10)
			case 'r':
				units = append(units, 13)
			case 't':
				units = append(units, 9)
			case 'v':
				units = append(units, 11)
			case '0':
				if i+1 < len(in) && in[i+1] >= '0' && in[i+1] <= '9' {
					return nil, false
				}
				units = append(units, 0)
			case '1', '2', '3', '4', '5', '6', '7', '8', '9':
				return nil, false
			case '\n', '\r', 0x2028, 0x2029:
				return nil, false
			case 'x':
				if i+2 >= len(in) || hexv(in[i+1]) < 0 || hexv(in[i+2]) < 0 {
					return nil, false
				}
				units = append(units, rune(hexv(in[i+1])*16+hexv(in[i+2])))
				i += 2
			case 'u':
				if i+4 >= len(in) {
					return nil, false
				}
				v := 0
				for k := 1; k <= 4; k++ {
					h := hexv(in[i+k])
					if h < 0 {
						return nil, false
					}
					v = v*16 + h
				}
				units = append(units, rune(v)|1<<30) // mark: came from an escape (may be a surrogate unit)
				i += 4
			default:
				units = append(units, e)
			}
		}
	}
	// pair surrogates that came from \u escapes
	var out []rune
	for i := 0; i < len(units); i++ {
		u := units[i]
		esc := u&(1<<30) != 0
		u &^= 1 << 30
		if esc && u >= 0xD800 && u <= 0xDBFF && i+1 < len(units) {
			l := units[i+1]
			if l&(1<<30) != 0 {
				l &^= 1 << 30
				if l >= 0xDC00 && l <= 0xDFFF {
					out = append(out, 0x10000+(u-0xD800)<<10+(l-0xDC00))
					i++
					continue
				}
			}
		}
		out = append(out, u)
	}
	return out, true
}

// cssUnescape: independent implementation of CSS Syntax 3 "consume an escaped code point".
func cssUnescape(s []byte) []rune {
	in := []rune(string(s))
	var out []rune
	for i := 0; i < len(in); i++ {
		c := in[i]
		if c != '\\' {
			out = append(out, c)
			continue
		}
		if i+1 >= len(in) {
			out = append(out, 0xFFFD)
			continue
		}
		if hexv(in[i+1]) >= 0 {
			v, k := 0, 0
			for k < 6 && i+1+k < len(in) && hexv(in[i+1+k]) >= 0 {
				v = v*16 + hexv(in[i+1+k])
				k++
			}
			i += k
			if i+1 < len(in) && (in[i+1] == ' ' || in[i+1] == '\t' || in[i+1] == '\n') {
				i++
			}
			if v == 0 || (v >= 0xD800 && v <= 0xDFFF) || v > 0x10FFFF {
				v = 0xFFFD
			}
			out = append(out, rune(v))
			continue
		}
		if in[i+1] == '\n' {
			out = append(out, c)
			continue
		}
		out = append(out, in[i+1])
		i++
	}
	return out
}

func oracleC10(f EscForm, in, out []byte) string {
	if !utf8.Valid(in) {
		return ""
	}
	cur := out
	if f.Fn == 7 {
		for i := 0; i < f.Itr; i++ {
			if !reJSAlphabet.Match(cur) {
				return "JS-escape output leaves the alphabet [A-Za-z0-9,._] + backslash escapes (raw quote, angle bracket, ampersand, slash, line terminator or control character)"
			}
			rs, ok := jsStringValue(cur)
			if !ok {
				return "the output is not a valid JavaScript string-literal body"
			}
			cur = []byte(string(rs))
		}
		if !bytes.Equal(cur, in) {
			return "read as a JavaScript string literal the output does not evaluate to the original text"
		}
		return ""
	}
	for i := 0; i < f.Itr; i++ {
		if !reCSSAlphabet.Match(cur) {
			return "CSS-escape output leaves the alphabet [A-Za-z0-9] + backslash-hex escapes terminated by a space"
		}
		cur = []byte(string(cssUnescape(cur)))
	}
	if bytes.IndexByte(in, 0) >= 0 {
		return "" // NUL excepted: CSS cannot represent it
	}
	if !bytes.Equal(cur, in) {
		return "decoded under the CSS escape rules the output is not the original text"
	}
	return ""
}

func runC10(o *Options) *Result {
	// class representatives for the ordered-pair stream (escapes that swallow a following character)
	reps := []rune{'a', 'f', 'F', '0', '9', ' ', '\t', '\n', '\r', '\\', '/', '"', '\'', '<', '>', '&', ',', '.', '_', '-', 0, 1, 0x1f, 0x7f, 0x80, 0xe9, 0x7ff, 0x800, 0x2028, 0xfffd, 0xffff, 0x10000, 0x1f600, 0x10ffff, 'g', 'A', '5', 'u', 'x', ';', '{', '}', '(', ')', '+', '=', '%', '#', '@', '!', '?', '*', '|', '~', '^', '`', '[', ']', ':', '$', 0xa0, 0x100, 0x141, 0x20000}
	return runEscaperProperty(o, "C10", c10Forms, oracleC10, escPlan{
		Singles: true, RandomQuick: 3000, RandomThorough: 300000, MaxLen: 32, ByteLevel: false, Scalars: true,
		ScalarForms: []string{"J", "c"},
		Gen:         randUTF8,
		CorrName:    "correspondence js_escape/css_escape (Model/EscJS.v) vs mod_js1.go, mod_css.go",
		Extra: func(add func(f EscForm, carrier string, in []byte)) {
			for _, a := range reps {
				for _, b := range reps {
					for _, fn := range []string{"J", "c", "cc"} {
						f, _ := formByName(c10Forms, fn)
						add(f, "SetString", []byte(string([]rune{a, b})))
					}
				}
			}
		},
		DecFn: 104, DecRef: func(in []byte) ([]byte, bool) {
			rs, ok := jsStringValue(in)
			if !ok {
				return nil, false
			}
			return encodeWTF8(rs), true
		},
		DecSkip: func(in []byte) bool { return !utf8.Valid(in) },
		DecGen: func(r *RNG, maxLen int) []byte {
			n := r.Intn(maxLen + 1)
			var b []byte
			al := []string{"\\", "u", "d83d", "de00", "D800", "dc00", "0041", "00e9", "n", "t", "/", "b", "x", "41", "a", " ", "\\u", "\\\\", "\\/", "é", "0", "7", "v", "'", "\"", "\n", " ", "<", "\\x", "\\0", "\\v", "fffd", "g"}
			for i := 0; i < n; i++ {
				b = append(b, al[r.Intn(len(al))]...)
			}
			return b
		},
		Dec2Fn: 105, Dec2Ref: func(in []byte) ([]byte, bool) { return encodeWTF8(cssUnescape(in)), true },
		Dec2Gen: func(r *RNG, maxLen int) []byte {
			n := r.Intn(maxLen + 1)
			var b []byte
			al := []string{"\\", "a", "f", "F", "0", "9", "g", " ", "  ", "\t", "\n", "41", "1f600", "110000", "d800", "000000", "1234567", "\\\\", "\\ ", "é", "z", "Z"}
			for i := 0; i < n; i++ {
				b = append(b, al[r.Intn(len(al))]...)
			}
			return b
		},
	})
}
