package main

import (
	"fmt"
	"math"
	"math/big"
	"os"
	"regexp"
	"strconv"
	"strings"
	"time"

	"github.com/koykov/clock"
	"github.com/koykov/dyntpl"
)

func init() { runners["C20"] = runC20 }

type roundCase struct {
	Mode  string // Round Ceil Floor RoundPrec CeilPrec FloorPrec
	Prec  int
	X     float64
	Form  string // template
	Obs   Obs
	Got   float64
	GotOK bool
}

var roundForms = map[string][]string{
	"Round":     {"{%= x|round %}"},
	"Ceil":      {"{%= x|ceil %}"},
	"Floor":     {"{%= x|floor %}"},
	"RoundPrec": {"{%= x|roundPrec($P) %}", "{%= x|roundp($P) %}"},
	"CeilPrec":  {"{%= x|ceilPrec($P) %}", "{%= x|ceilp($P) %}", "{%F.$P= x %}"},
	"FloorPrec": {"{%= x|floorPrec($P) %}", "{%= x|floorp($P) %}", "{%f.$P= x %}"},
}

// exactRound: the mathematically right value m(x*10^p)/10^p, correctly rounded to float64.
// contexts are pooled in production: every other case runs on one held context that is reset
// between cases (what was computed before must not influence the next result)
var heldCtx = dyntpl.NewCtx()

func heldOrNew(r *RNG) *dyntpl.Ctx {
	if r.Bool() {
		return dyntpl.NewCtx()
	}
	heldCtx.Reset()
	return heldCtx
}

func exactRound(mode string, p int, x float64) float64 {
	r := new(big.Rat).SetFloat64(x)
	if r == nil {
		return x
	}
	scale := new(big.Rat).SetInt(new(big.Int).Exp(big.NewInt(10), big.NewInt(int64(p)), nil))
	if mode == "Round" || mode == "Ceil" || mode == "Floor" {
		scale = big.NewRat(1, 1)
	}
	v := new(big.Rat).Mul(r, scale)
	// integer part by floor
	fl := new(big.Int).Div(v.Num(), v.Denom()) // Euclidean division: floor for positive denominators
	isInt := new(big.Rat).SetInt(fl).Cmp(v) == 0
	var n *big.Int
	switch mode {
	case "Floor", "FloorPrec":
		n = fl
	case "Ceil", "CeilPrec":
		n = new(big.Int).Set(fl)
		if !isInt {
			n.Add(n, big.NewInt(1))
		}
	case "RoundPrec": // toward zero
		n = new(big.Int).Set(fl)
		if v.Sign() < 0 && !isInt {
			n.Add(n, big.NewInt(1))
		}
	default: // Round: half away from zero
		twice := new(big.Rat).Mul(v, big.NewRat(2, 1))
		a := new(big.Rat).Abs(twice)
		h := new(big.Int).Div(new(big.Int).Add(a.Num(), a.Denom()), new(big.Int).Mul(a.Denom(), big.NewInt(2))) // floor(|v| + 1/2)
		n = h
		if v.Sign() < 0 {
			n = new(big.Int).Neg(h)
		}
	}
	q := new(big.Rat).Quo(new(big.Rat).SetInt(n), scale)
	f, _ := q.Float64()
	if f == 0 && (x < 0 || math.Signbit(x)) && mode != "RoundPrec" {
		f = math.Copysign(0, -1)
	}
	return f
}

func productExact(mode string, p int, x float64) bool {
	if mode == "Round" || mode == "Ceil" || mode == "Floor" {
		return true
	}
	pf := math.Pow10(p)
	prod := x * pf
	exact := new(big.Rat).Mul(new(big.Rat).SetFloat64(x), new(big.Rat).SetFloat64(pf))
	got := new(big.Rat).SetFloat64(prod)
	return got != nil && exact.Cmp(got) == 0
}

func boundaryFloats(r *RNG, n int) []float64 {
	out := []float64{0, math.Copysign(0, -1), 0.5, -0.5, 1.5, -1.5, 2.5, -2.5, 3.1415, -3.1415, 0.125, 1e15 + 0.25, 1000000000000000.25, 1e-7, 123456.789, -123456.789, 9000.015, 14.345241, 2325242534.35324523, 0.1, 0.2, 0.3, 1.005, 2.675, 1e21, 4503599627370496.5, 0.49999999999999994, -0.49999999999999994}
	for i := 0; i < n; i++ {
		p := r.Intn(9)
		k := float64(r.Intn(2000000)-1000000) / math.Pow10(p)
		switch r.Intn(4) {
		case 0:
			out = append(out, k)
		case 1:
			out = append(out, math.Nextafter(k, math.Inf(1)))
		case 2:
			out = append(out, math.Nextafter(k, math.Inf(-1)))
		default:
			out = append(out, k+0.5/math.Pow10(p))
		}
	}
	return out
}

var reRBits = regexp.MustCompile(`(\d+)%Z|\b(\d+)\b`)

func runC20(o *Options) *Result {
	res := NewResult()
	rng := NewRNG(o.Seed)
	n := 400
	if o.Tier == "thorough" {
		n = 8000
	}
	var cases []*roundCase
	for _, x := range boundaryFloats(rng, n) {
		for _, mode := range []string{"Round", "Ceil", "Floor", "RoundPrec", "CeilPrec", "FloorPrec"} {
			if rng.Intn(3) != 0 && len(cases) > 600 {
				continue
			}
			p := 0
			if strings.HasSuffix(mode, "Prec") {
				p = 1 + rng.Intn(15)
				if rng.Chance(50) {
					p = 1 + rng.Intn(4)
				}
			}
			forms := roundForms[mode]
			cases = append(cases, &roundCase{Mode: mode, Prec: p, X: x, Form: strings.ReplaceAll(forms[rng.Intn(len(forms))], "$P", strconv.Itoa(p))})
		}
	}
	for _, c := range cases {
		key, po := tplKey(c.Form, false)
		if po.ErrClass() != "OK" {
			c.Obs = po
			continue
		}
		ctx := heldOrNew(rng)
		x := c.X
		ctx.SetStatic("x", &x)
		c.Obs = Render(key, ctx)
		if c.Obs.ErrClass() == "OK" {
			if f, err := strconv.ParseFloat(string(c.Obs.Out), 64); err == nil {
				c.Got, c.GotOK = f, true
			}
		}
	}
	// the Gallina model on IEEE bit patterns (V-mode)
	var sb strings.Builder
	sb.WriteString("From DT Require Import Model.Round.\nFrom Coq Require Import ZArith List.\nImport ListNotations.\nOpen Scope Z_scope.\n")
	sb.WriteString("Definition rv := Eval vm_compute in [\n")
	for i, c := range cases {
		sep := ";"
		if i == len(cases)-1 {
			sep = ""
		}
		fmt.Fprintf(&sb, "  (round_bits %s %d %d, if round_prec_guard_bits %d %d then 1 else 0)%s\n", c.Mode, c.Prec, math.Float64bits(c.X), c.Prec, math.Float64bits(c.X), sep)
	}
	sb.WriteString("].\nPrint rv.\n")
	dir := o.WorkDir + "/round"
	_ = os.MkdirAll(dir, 0o755)
	file := dir + "/cases.v"
	_ = os.WriteFile(file, []byte(sb.String()), 0o644)
	out, err := coqcCmd("1200", "-Q", o.CoqDir, "DT", "-Q", dir, "RC", file).CombinedOutput()
	if err != nil {
		res.InfraError = fmt.Sprintf("coqc on %s: %v\n%s", file, err, tail(string(out), 1200))
		return res
	}
	nums := regexp.MustCompile(`\(\s*(\d+),\s*(\d+)\)`).FindAllStringSubmatch(string(out), -1)
	if len(nums) != len(cases) {
		res.InfraError = fmt.Sprintf("round model: %d results for %d cases", len(nums), len(cases))
		return res
	}
	for i, c := range cases {
		res.Evaluations++
		res.ModelEvals++
		res.Hist("round:" + c.Mode)
		if !c.GotOK {
			res.Hist("round:unparsed-" + c.Obs.ErrClass())
			if c.Obs.ErrClass() == "PANIC" || c.Obs.ErrClass() == "HANG" {
				res.OracleFails++
				res.AddViolation(&Violation{Kind: "failing-input", Class: "round:" + c.Obs.ErrClass(), What: fmt.Sprintf("%s with x=%v: %s", c.Form, c.X, c.Obs.Panic), Replay: map[string]any{"template": c.Form, "x_bits": math.Float64bits(c.X)}})
			}
			continue
		}
		mbits, _ := strconv.ParseUint(nums[i][1], 10, 64)
		inGuard := nums[i][2] == "1" || c.Mode != "RoundPrec"
		mval := math.Float64frombits(mbits)
		want := exactRound(c.Mode, c.Prec, c.X)
		replay := map[string]any{"template": c.Form, "mode": c.Mode, "prec": c.Prec, "x": strconv.FormatFloat(c.X, 'g', -1, 64), "x_bits": fmt.Sprintf("0x%016x", math.Float64bits(c.X)),
			"observed": string(c.Obs.Out), "model_bits": fmt.Sprintf("0x%016x", mbits), "exact": strconv.FormatFloat(want, 'g', -1, 64), "seed": o.Seed, "tier": o.Tier}
		same := func(a, b float64) bool { return a == b || (math.IsNaN(a) && math.IsNaN(b)) }
		if c.Got != c.X {
			res.Distinct(fmt.Sprintf("%s|%d|%x", c.Mode, c.Prec, math.Float64bits(c.X)))
		}
		if inGuard && !same(c.Got, mval) {
			res.Mismatches++
			res.AddViolation(&Violation{Kind: "no-failing-input-found", Class: "correspondence", Lemma: "correspondence round_bits (Model/Round.v) vs roundHelper (mod_builtin.go)",
				What: fmt.Sprintf("%s with x=%v: implementation prints %s, the model gives %v", c.Form, c.X, c.Obs.Out, mval), Replay: replay})
		}
		if !same(c.Got, want) {
			class := "round:wrong"
			switch {
			case !inGuard:
				class = "round:int64-overflow"
			case !productExact(c.Mode, c.Prec, c.X) && same(c.Got, mval):
				// the recorded finding is "the code computes what the model says, and that is not the
				// exact value"; an output the model does not predict is a different failure
				class = "round:inexact-product"
			}
			res.OracleFails++
			res.Hist("oracle:" + class)
			res.AddViolation(&Violation{Kind: "failing-input", Class: class,
				What:   fmt.Sprintf("%s with x=%v prints %s but the value rounded %s at %d decimals is %v", c.Form, strconv.FormatFloat(c.X, 'g', -1, 64), c.Obs.Out, strings.ToLower(strings.TrimSuffix(c.Mode, "Prec")), c.Prec, strconv.FormatFloat(want, 'g', -1, 64)),
				Replay: replay})
		}
		if i%53 == 0 {
			res.Sample(map[string]any{"template": c.Form, "x": strconv.FormatFloat(c.X, 'g', -1, 64), "output": string(c.Obs.Out)}, 8)
		}
	}
	runRoundInts(res, rng)
	runArith(o, res, rng)
	runTime(o, res, rng)
	res.pruneNoFailing()
	res.Rule = "rounding: floats at decimal boundaries (k/10^p, one ulp below and above, halves), negatives, signed zeros, large values x all six modes x precisions 1..15 x pipe, alias and f./F. letter forms, compared on IEEE bits with the Gallina model (Flocq binary64) and with exact rational rounding (math/big); arithmetic: every math modifier x every carrier kind x pipe and call form vs Go's float64 operation; time: 16 layout globals and literal strftime layouts x instants x carrier types vs clock.AppendFormat, time::add unit spellings vs time.Add; distinct by (mode, precision, bits) / template+data; non-trivial when the output differs from the input"
	res.WriteReplays(o.Verif+"/evidence/replays", "C20")
	return res
}

// ---- arithmetic modifiers: operand selection and carrier kinds

type arithOp struct {
	Name string
	Ar   int
	F    func(a, b float64) float64
}

var arithOps = []arithOp{
	{"math::abs", 1, func(a, _ float64) float64 { return math.Abs(a) }},
	{"math::inc", 1, func(a, _ float64) float64 { return a + 1 }},
	{"math::dec", 1, func(a, _ float64) float64 { return a - 1 }},
	{"math::sqrt", 1, func(a, _ float64) float64 { return math.Sqrt(a) }},
	{"math::cbrt", 1, func(a, _ float64) float64 { return math.Cbrt(a) }},
	{"math::exp", 1, func(a, _ float64) float64 { return math.Exp(a) }},
	{"math::log", 1, func(a, _ float64) float64 { return math.Log(a) }},
	{"math::add", 2, func(a, b float64) float64 { return a + b }},
	{"math::sub", 2, func(a, b float64) float64 { return a - b }},
	{"math::mul", 2, func(a, b float64) float64 { return a * b }},
	{"math::div", 2, func(a, b float64) float64 { return a / b }},
	{"math::mod", 2, math.Mod},
	{"math::pow", 2, math.Pow},
	{"math::max", 2, math.Max},
	{"math::min", 2, math.Min},
}

type carrier struct {
	Kind string
	Set  func(ctx *dyntpl.Ctx, name string, v float64) float64 // returns the float64 the engine must see
}

var numCarriers = []carrier{
	{"float64", func(c *dyntpl.Ctx, n string, v float64) float64 { x := v; c.SetStatic(n, &x); return v }},
	{"float32", func(c *dyntpl.Ctx, n string, v float64) float64 {
		x := float32(v)
		c.SetStatic(n, &x)
		return float64(x)
	}},
	{"int", func(c *dyntpl.Ctx, n string, v float64) float64 { x := int(v); c.SetStatic(n, &x); return float64(x) }},
	{"int8", func(c *dyntpl.Ctx, n string, v float64) float64 {
		x := int8(int64(v) % 100)
		c.SetStatic(n, x)
		return float64(x)
	}},
	{"int64", func(c *dyntpl.Ctx, n string, v float64) float64 { x := int64(v); c.SetStatic(n, &x); return float64(x) }},
	{"uint", func(c *dyntpl.Ctx, n string, v float64) float64 {
		x := uint(math.Abs(v))
		c.SetStatic(n, &x)
		return float64(x)
	}},
	{"uint16", func(c *dyntpl.Ctx, n string, v float64) float64 {
		x := uint16(int64(math.Abs(v)) % 60000)
		c.SetStatic(n, x)
		return float64(x)
	}},
	{"string", func(c *dyntpl.Ctx, n string, v float64) float64 {
		s := strconv.FormatFloat(v, 'g', -1, 64)
		c.SetStatic(n, &s)
		return v
	}},
	{"bytes", func(c *dyntpl.Ctx, n string, v float64) float64 {
		b := []byte(strconv.FormatFloat(v, 'f', -1, 64))
		c.SetStatic(n, &b)
		return v
	}},
	// zero-padded decimal text is still decimal ("0100" is one hundred, not sixty-four)
	{"string-padded", func(c *dyntpl.Ctx, n string, v float64) float64 {
		t := strconv.FormatFloat(math.Abs(math.Trunc(v)), 'f', -1, 64)
		s := "0" + t
		if v < 0 {
			s = "-0" + t
		}
		c.SetStatic(n, &s)
		f, _ := strconv.ParseFloat(s, 64)
		return f
	}},
	{"bytes-padded", func(c *dyntpl.Ctx, n string, v float64) float64 {
		b := []byte("00" + strconv.FormatFloat(math.Abs(math.Trunc(v)), 'f', -1, 64))
		c.SetStatic(n, &b)
		f, _ := strconv.ParseFloat(string(b), 64)
		return f
	}},
}

// arithModelOp: the operations Model/Arith.v covers, by the number arith_bits knows them under.
var arithModelOp = map[string]int{"math::add": 1, "math::sub": 2, "math::mul": 3, "math::div": 4, "math::abs": 5, "math::inc": 6, "math::dec": 7, "math::sqrt": 8, "math::max": 9, "math::min": 10}

type arithObs struct {
	op      int
	a, b    uint64
	got     uint64
	src     string
	va, vb  float64
	printed string
}

// runRoundInts: an integer of any width is already rounded; every rounding modifier and directive
// prints it digit for digit, also beyond 2^53 where a detour through float64 would change it.
func runRoundInts(res *Result, rng *RNG) {
	type carrier struct {
		kind string
		text string
		set  func(c *dyntpl.Ctx)
	}
	big := int64(9007199254740993)
	var cs []carrier
	for _, v := range []int64{5, -7, 65535, big, -big, math.MaxInt64, math.MinInt64 + 1} {
		v := v
		cs = append(cs, carrier{"int64", fmt.Sprint(v), func(c *dyntpl.Ctx) { c.SetStatic("x", v) }}, carrier{"*int64", fmt.Sprint(v), func(c *dyntpl.Ctx) { x := v; c.SetStatic("x", &x) }})
	}
	for _, v := range []uint64{0, 42, 1<<63 + 1, math.MaxUint64} {
		v := v
		cs = append(cs, carrier{"uint64", fmt.Sprint(v), func(c *dyntpl.Ctx) { c.SetStatic("x", v) }}, carrier{"*uint", fmt.Sprint(v), func(c *dyntpl.Ctx) { x := uint(v); c.SetStatic("x", &x) }})
	}
	cs = append(cs, carrier{"int8", "-128", func(c *dyntpl.Ctx) { c.SetStatic("x", int8(-128)) }}, carrier{"int32", "2147483647", func(c *dyntpl.Ctx) { x := int32(math.MaxInt32); c.SetStatic("x", &x) }})
	forms := []string{"{%= x|round %}", "{%= x|ceil %}", "{%= x|floor %}", "{%= x|roundPrec(2) %}", "{%= x|ceilPrec(3) %}", "{%= x|floorPrec(3) %}", "{%f.2= x %}", "{%F.12= x %}"}
	for _, c := range cs {
		for _, f := range forms {
			key, po := tplKey(f, false)
			res.Evaluations++
			if po.ErrClass() != "OK" {
				continue
			}
			ctx := heldOrNew(rng)
			c.set(ctx)
			obs := Render(key, ctx)
			res.Hist("round-int:" + c.kind)
			if obs.ErrClass() == "OK" && string(obs.Out) == c.text {
				res.Distinct(f + c.kind + c.text)
				continue
			}
			res.OracleFails++
			res.AddViolation(&Violation{Kind: "failing-input", Class: "round:integer-changed",
				What:   fmt.Sprintf("%s with the %s value %s prints %q (%s %s): an integer must come through a rounding modifier unchanged", f, c.kind, c.text, obs.Out, obs.ErrClass(), obs.Err),
				Replay: map[string]any{"template": f, "kind": c.kind, "value": c.text, "observed": string(obs.Out)}})
		}
	}
}

func runArith(o *Options, res *Result, rng *RNG) {
	vals := []float64{0, 1, -1, 2, 16, 0.5, -7.25, 10, 100, 3, 1e6, 27, 255,
		// values at which float64 arithmetic rounds, overflows or loses a digit
		0.1, 0.2, 0.3, 1.0 / 3, 1e15 + 0.3, 9007199254740992, 9007199254740993, 4503599627370497.5, 1e308, -1e308, 5e-324, 2.2250738585072014e-308, 1e-320, 123456789.123456789, 77, 100, 64}
	var mobs []arithObs
	n := 600
	if o.Tier == "thorough" {
		n = 12000
	}
	for i := 0; i < n; i++ {
		op := arithOps[rng.Intn(len(arithOps))]
		ca, cb := numCarriers[rng.Intn(len(numCarriers))], numCarriers[rng.Intn(len(numCarriers))]
		va, vb := vals[rng.Intn(len(vals))], vals[rng.Intn(len(vals))]
		ctx := heldOrNew(rng)
		fa := ca.Set(ctx, "a", va)
		fb := cb.Set(ctx, "b", vb)
		var src string
		call := rng.Chance(40)
		litB := rng.Chance(30) && vb >= 0
		bText := "b"
		if litB {
			bText = strconv.FormatFloat(vb, 'f', -1, 64)
			fb = vb
			if vb == math.Trunc(vb) && vb < 1e6 && rng.Chance(30) {
				// zero-padded decimal literal: still decimal
				bText = "0" + strconv.FormatFloat(vb, 'f', -1, 64)
			}
		}
		isMinMax := op.Name == "math::max" || op.Name == "math::min"
		switch {
		case op.Ar == 1 && call:
			src = fmt.Sprintf("{%%= %s(a) %%}", op.Name)
		case op.Ar == 1:
			src = fmt.Sprintf("{%%= a|%s %%}", op.Name)
		case call || isMinMax:
			src = fmt.Sprintf("{%%= %s(a, %s) %%}", op.Name, bText)
			switch i % 5 {
			case 1: // no blank after the comma
				src = fmt.Sprintf("{%%= %s(a,%s) %%}", op.Name, bText)
			case 3: // blanks everywhere
				src = fmt.Sprintf("{%%= %s( a , %s ) %%}", op.Name, bText)
			}
		default:
			src = fmt.Sprintf("{%%= a|%s(%s) %%}", op.Name, bText)
			if i%5 == 2 {
				src = fmt.Sprintf("{%%= a|%s( %s ) %%}", op.Name, bText)
			}
		}
		want := op.F(fa, fb)
		if isMinMax {
			want = op.F(fb, fa) // symmetric; kept explicit: max/min of the two arguments
		}
		key, po := tplKey(src, false)
		res.Evaluations++
		res.Hist("arith:" + op.Name)
		res.Hist("carrier:" + ca.Kind)
		if po.ErrClass() != "OK" {
			continue
		}
		obs := Render(key, ctx)
		got, perr := strconv.ParseFloat(string(obs.Out), 64)
		ok := obs.ErrClass() == "OK" && perr == nil && (got == want || (math.IsNaN(got) && math.IsNaN(want)))
		if mo, has := arithModelOp[op.Name]; has && obs.ErrClass() == "OK" && perr == nil {
			ma, mb := fa, fb
			if isMinMax {
				ma, mb = fb, fa
			}
			mobs = append(mobs, arithObs{op: mo, a: math.Float64bits(ma), b: math.Float64bits(mb), got: math.Float64bits(got), src: src, va: va, vb: vb, printed: string(obs.Out)})
		}
		if ok {
			res.Distinct(src + ca.Kind + cb.Kind + fmt.Sprint(va, vb))
			continue
		}
		form := "pipe"
		if strings.HasPrefix(src, "{%= math::") {
			form = "call"
		}
		res.OracleFails++
		res.AddViolation(&Violation{Kind: "failing-input", Class: "arith:" + op.Name + ":" + form,
			What:   fmt.Sprintf("%s with a=%v (%s) b=%v (%s): prints %q (%s %s) but %s on the float64 values is %v", src, va, ca.Kind, vb, cb.Kind, obs.Out, obs.ErrClass(), obs.Err, op.Name, strconv.FormatFloat(want, 'g', -1, 64)),
			Replay: map[string]any{"template": src, "a": va, "a_kind": ca.Kind, "b": vb, "b_kind": cb.Kind, "observed": string(obs.Out), "expected": strconv.FormatFloat(want, 'g', -1, 64)}})
	}
	// chains: an arithmetic modifier with a variable argument, then a rounding modifier written
	// without arguments (in the same print or in the next one): each modifier sees its own arguments
	cvals := []float64{0.5, -7.25, 10, 3, 27, 0.1, 0.3, 1.0 / 3, 2, 16, 1.75, -0.5, 4.5}
	rmods := []struct {
		name string
		f    func(float64) float64
	}{{"round", math.Round}, {"ceil", math.Ceil}, {"floor", math.Floor}}
	for i := 0; i < n/4; i++ {
		op := arithOps[7+rng.Intn(4)] // add sub mul div
		rm := rmods[rng.Intn(3)]
		ca, cb, cc := numCarriers[rng.Intn(len(numCarriers))], numCarriers[rng.Intn(len(numCarriers))], numCarriers[rng.Intn(len(numCarriers))]
		for !strings.Contains(cc.Kind, "float") {
			cc = numCarriers[rng.Intn(len(numCarriers))] // the rounding family works on floats (an integer is its own rounding)
		}
		va, vb, vc := cvals[rng.Intn(len(cvals))], cvals[rng.Intn(len(cvals))], cvals[rng.Intn(len(cvals))]
		ctx := heldOrNew(rng)
		fa, fb, fc := ca.Set(ctx, "a", va), cb.Set(ctx, "b", vb), cc.Set(ctx, "c", vc)
		paren := []string{"", "()"}[rng.Intn(2)]
		var src string
		var want []float64
		if rng.Bool() {
			src = fmt.Sprintf("{%%= a|%s(b)|%s%s %%}", op.Name, rm.name, paren)
			want = []float64{rm.f(op.F(fa, fb))}
		} else {
			src = fmt.Sprintf("{%%= a|%s(b) %%};{%%= c|%s%s %%}", op.Name, rm.name, paren)
			want = []float64{op.F(fa, fb), rm.f(fc)}
		}
		key, po := tplKey(src, false)
		res.Evaluations++
		res.Hist("arith:chain:" + rm.name)
		if po.ErrClass() != "OK" {
			continue
		}
		obs := Render(key, ctx)
		parts := strings.Split(string(obs.Out), ";")
		ok := obs.ErrClass() == "OK" && len(parts) == len(want)
		for k := 0; ok && k < len(want); k++ {
			got, perr := strconv.ParseFloat(parts[k], 64)
			ok = perr == nil && (got == want[k] || (math.IsNaN(got) && math.IsNaN(want[k])))
		}
		if ok {
			res.Distinct(src + ca.Kind + cb.Kind + fmt.Sprint(va, vb, vc))
			continue
		}
		res.OracleFails++
		res.AddViolation(&Violation{Kind: "failing-input", Class: "arith:chain:" + rm.name,
			What:   fmt.Sprintf("%s with a=%v (%s) b=%v (%s) c=%v (%s): prints %q (%s %s) but the modifiers applied one after the other give %v", src, va, ca.Kind, vb, cb.Kind, vc, cc.Kind, obs.Out, obs.ErrClass(), obs.Err, want),
			Replay: map[string]any{"template": src, "a": va, "a_kind": ca.Kind, "b": vb, "b_kind": cb.Kind, "c": vc, "c_kind": cc.Kind, "observed": string(obs.Out), "expected": fmt.Sprint(want)}})
	}
	if err := runArithModel(o, res, mobs); err != nil {
		res.InfraError = err.Error()
	}
}

// runArithModel: Model/Arith.v (Flocq binary64) against what the engine printed, bit for bit
// (NaN against NaN), plus the integer-to-float conversion on boundary integers.
func runArithModel(o *Options, res *Result, mobs []arithObs) error {
	if _, err := os.Stat(o.CoqDir + "/Model/Arith.vo"); err != nil {
		res.Notes = appendCap(res.Notes, "Model/Arith.vo not built: arithmetic model correspondence skipped", 5)
		return nil
	}
	if len(mobs) == 0 {
		return nil
	}
	var items []string
	for _, m := range mobs {
		items = append(items, fmt.Sprintf("(%d%%N, %d%%Z, %d%%Z, %d%%Z)", m.op, m.a, m.b, m.got))
	}
	ints := []int64{0, 1, -1, 1 << 53, 1<<53 + 1, 1<<53 + 3, -(1<<53 + 1), math.MaxInt64, math.MinInt64, math.MaxInt64 - 1023, 1 << 62, 123456789012345678, 999999999999999999, math.MaxInt32, math.MinInt32}
	var convs []string
	for _, z := range ints {
		convs = append(convs, fmt.Sprintf("((%d)%%Z, %d%%Z)", z, math.Float64bits(float64(z))))
	}
	for _, u := range []uint64{math.MaxUint64, 1 << 63, 1<<63 + 1025, 1<<64 - 1025} {
		convs = append(convs, fmt.Sprintf("(%d%%Z, %d%%Z)", u, math.Float64bits(float64(u))))
	}
	var sb strings.Builder
	sb.WriteString("From Coq Require Import ZArith List Bool.\nImport ListNotations.\nFrom DT Require Import Model.Round Model.Arith.\nLocal Open Scope Z_scope.\n")
	sb.WriteString("Definition is_nan_bits (z : Z) : bool := (Z.land z 0x7FF0000000000000 =? 0x7FF0000000000000) && negb (Z.land z 0xFFFFFFFFFFFFF =? 0).\n")
	sb.WriteString("Definition same (r : option Z) (g : Z) : bool := match r with Some x => (x =? g) || (is_nan_bits x && is_nan_bits g) | None => false end.\n")
	fmt.Fprintf(&sb, "Definition cases : list (N * Z * Z * Z) := %s.\n", gList(items))
	fmt.Fprintf(&sb, "Definition convs : list (Z * Z) := %s.\n", gList(convs))
	sb.WriteString("Fixpoint mism (i : nat) (l : list (N * Z * Z * Z)) : list nat :=\n  match l with\n  | [] => []\n  | (o, a, b, g) :: r => if same (arith_bits o a b) g then mism (S i) r else i :: mism (S i) r\n  end.\n")
	sb.WriteString("Fixpoint cmism (i : nat) (l : list (Z * Z)) : list nat :=\n  match l with\n  | [] => []\n  | (z, g) :: r => if to_bits (conv_int z) =? g then cmism (S i) r else i :: cmism (S i) r\n  end.\n")
	sb.WriteString("Definition bad := Eval vm_compute in mism 0 cases.\nPrint bad.\nDefinition cbad := Eval vm_compute in cmism 0 convs.\nPrint cbad.\n")
	dir := o.WorkDir + "/arith"
	_ = os.MkdirAll(dir, 0o755)
	file := dir + "/cases.v"
	if err := os.WriteFile(file, []byte(sb.String()), 0o644); err != nil {
		return err
	}
	out, err := coqcCmd("1200", "-Q", o.CoqDir, "DT", "-Q", dir, "AR", file).CombinedOutput()
	if err != nil {
		return fmt.Errorf("coqc on %s: %v\n%s", file, err, tail(string(out), 1200))
	}
	text := string(out)
	k, kc := strings.Index(text, "bad ="), strings.Index(text, "cbad =")
	if k < 0 || kc < 0 {
		return fmt.Errorf("arithmetic model: no result in coqc output")
	}
	res.ModelEvals += len(mobs) + len(convs)
	res.Histogram["arith-model:cases"] += len(mobs)
	for _, m := range regexp.MustCompile(`\d+`).FindAllString(text[k:kc], -1) {
		var i int
		fmt.Sscan(m, &i)
		if i < 0 || i >= len(mobs) {
			continue
		}
		c := mobs[i]
		res.Mismatches++
		res.AddViolation(&Violation{Kind: "no-failing-input-found", Class: "correspondence:arith", Lemma: "correspondence math_op (Model/Arith.v, Flocq binary64) vs mod_math.go",
			What:   fmt.Sprintf("%s with a=%v b=%v prints %q; the binary64 model of the operation on the converted operands gives different bits", c.src, c.va, c.vb, c.printed),
			Replay: map[string]any{"template": c.src, "a": c.va, "b": c.vb, "a_bits": c.a, "b_bits": c.b, "observed": c.printed, "observed_bits": c.got}})
	}
	for _, m := range regexp.MustCompile(`\d+`).FindAllString(text[kc+6:], -1) {
		res.Mismatches++
		res.AddViolation(&Violation{Kind: "no-failing-input-found", Class: "correspondence:conv", Lemma: "correspondence conv_int (Model/Arith.v) vs Go's float64(int)",
			What: "integer to float64 conversion differs between the model and Go at boundary case #" + m, Replay: map[string]any{"case": m}})
	}
	_ = os.RemoveAll(dir)
	return nil
}

// ---- time formatting and adding

var layoutGlobals = []string{"time::Layout", "time::ANSIC", "time::UnixDate", "time::RubyDate", "time::RFC822", "time::RFC822Z", "time::RFC850", "time::RFC1123", "time::RFC1123Z", "time::RFC3339",
	"time::RFC3339Nano", "time::Kitchen", "time::Stamp", "time::StampMilli", "time::StampMicro", "time::StampNano"}

func runTime(o *Options, res *Result, rng *RNG) {
	secs := []int64{0, 1, 951782400, 1582416000, 1709164800 /* 2024-02-29 */, 1735689599, 253402300799, 86399, 1700000000}
	lits := []string{"%Y-%m-%d", "%H:%M:%S", "%d/%m/%y %I:%M %p", "%A %B %e", "%j %U %W %u %w", "%a %b %C %y", "%%-%Y", "%F %T", "%s"}
	units := []struct {
		Text string
		D    time.Duration
	}{{"1 second", time.Second}, {"5 sec", 5 * time.Second}, {"2 minutes", 2 * time.Minute}, {"1 min", time.Minute}, {"3 hours", 3 * time.Hour}, {"1 hour", time.Hour}, {"1 day", 24 * time.Hour},
		{"2 days", 48 * time.Hour}, {"1 week", 7 * 24 * time.Hour}, {"+1 day", 24 * time.Hour}, {"-1 day", -24 * time.Hour}, {"-2 hours", -2 * time.Hour}, {"+2 weeks", 14 * 24 * time.Hour}, {"+90 s", 90 * time.Second}, {"3 hr", 3 * time.Hour}, {"4 d", 96 * time.Hour}, {"2 w", 14 * 24 * time.Hour}, {"5 usec", 5 * time.Microsecond}, {"9 msec", 9 * time.Millisecond}, {"11 nsec", 11},
		{"10 ms", 10 * time.Millisecond}, {"100 us", 100 * time.Microsecond}, {"7 ns", 7}, {"1 h 30 min", 90 * time.Minute}}
	n := 300
	if o.Tier == "thorough" {
		n = 6000
	}
	for i := 0; i < n; i++ {
		sec := secs[rng.Intn(len(secs))] + int64(rng.Intn(3))
		inst := time.Unix(sec, 0)
		ctx := heldOrNew(rng)
		kind := rng.Intn(6)
		switch kind {
		case 0:
			t := inst.Add(time.Duration(rng.Intn(1000)) * time.Millisecond).UTC()
			inst = t
			ctx.SetStatic("t", &t)
		case 1:
			t := inst.In(time.FixedZone("X", 3*3600+1800))
			inst = t
			ctx.SetStatic("t", t)
		case 2:
			x := sec
			ctx.SetStatic("t", &x)
		case 3:
			x := int(sec)
			ctx.SetStatic("t", x)
		case 4:
			x := uint64(sec)
			ctx.SetStatic("t", &x)
		default:
			x := uint32(sec % (1 << 31))
			inst = time.Unix(int64(x), 0)
			ctx.SetStatic("t", x)
		}
		var src, want string
		if rng.Chance(60) {
			var layoutText, layout string
			if rng.Chance(50) {
				g := layoutGlobals[rng.Intn(len(layoutGlobals))]
				layoutText = g
				layout, _ = dyntpl.GetGlobal(g).(string)
			} else {
				layout = lits[rng.Intn(len(lits))]
				layoutText = `"` + layout + `"`
			}
			src = fmt.Sprintf("{%%= t|time::%s(%s) %%}", []string{"format", "date"}[rng.Intn(2)], layoutText)
			b, _ := clock.AppendFormat(nil, layout, inst)
			want = string(b)
			res.Hist("time:format")
		} else {
			u := units[rng.Intn(len(units))]
			src = fmt.Sprintf("{%%= t|time::%s(\"%s\")|time::format(\"%%Y-%%m-%%d %%H:%%M:%%S.%%N\") %%}", []string{"add", "date_modify"}[rng.Intn(2)], u.Text)
			b, _ := clock.AppendFormat(nil, "%Y-%m-%d %H:%M:%S.%N", inst.Add(u.D))
			want = string(b)
			res.Hist("time:add")
		}
		key, po := tplKey(src, false)
		res.Evaluations++
		if po.ErrClass() != "OK" {
			continue
		}
		obs := Render(key, ctx)
		if kind == 0 && obs.ErrClass() == "OK" {
			// the caller's time value was handed over by pointer: a second render must agree
			if again := Render(key, ctx); string(again.Out) != string(obs.Out) {
				res.OracleFails++
				res.AddViolation(&Violation{Kind: "failing-input", Class: "time:caller-value-modified",
					What:   fmt.Sprintf("%s with t handed over as *time.Time: the first render prints %q, a second render with the same variable prints %q", src, obs.Out, again.Out),
					Replay: map[string]any{"template": src, "instant": inst.String(), "first": string(obs.Out), "second": string(again.Out)}})
			}
		}
		if obs.ErrClass() == "OK" && string(obs.Out) == want {
			res.Distinct(src + fmt.Sprint(sec, kind))
			continue
		}
		if obs.Panic != "" && !obs.InRepo() {
			res.Hist("time:external-panic")
			continue
		}
		res.OracleFails++
		class := "time:format"
		if strings.Contains(src, "add") || strings.Contains(src, "date_modify") {
			class = "time:add"
		}
		res.AddViolation(&Violation{Kind: "failing-input", Class: class,
			What:   fmt.Sprintf("%s with t=%v (carrier kind %d) prints %q (%s %s) but the clock formatter gives %q", src, inst, kind, obs.Out, obs.ErrClass(), obs.Err, want),
			Replay: map[string]any{"template": src, "unix": sec, "carrier": kind, "observed": string(obs.Out), "expected": want}})
	}
}
