package main

import (
	"bytes"
	"fmt"
	"os"
	"path/filepath"
	"sort"
	"strings"
	"testing"

	"github.com/koykov/dyntpl"
	"github.com/koykov/inspector/testobj"
)

func init() { runners["C19"] = runC19 }

// the repository's benchmark user object (common_test.go)
var benchUser = &testobj.TestObject{
	Id: "115", Name: []byte("John"), Status: 78,
	Flags: testobj.TestFlag{"export": 17, "ro": 4, "rw": 7, "Valid": 1},
	Finance: &testobj.TestFinance{Balance: 9000.015, AllowBuy: false, History: []testobj.TestHistory{
		{DateUnix: 152354345634, Cost: 14.345241, Comment: []byte("pay for domain")},
		{DateUnix: 153465345246, Cost: -3.0000342543, Comment: []byte("got refund")},
		{DateUnix: 156436535640, Cost: 2325242534.35324523, Comment: []byte("maintenance")},
	}},
}

// the same object with a name of 300 bytes (lengths beyond the runtime's small-integer cache)
var benchUserLong = &testobj.TestObject{Id: "long", Name: bytes.Repeat([]byte("0123456789"), 30), Status: 1}

// unsigned values handed over by pointer (no boxing in the harness itself)
var (
	scaledBigU   uint64 = 1700000000
	scaledSmallU uint32 = 7
)

type allocCase struct {
	NoReset bool // rendered again and again on the held context without Reset in between
	Name    string
	Key     string
	Setup   func(ctx *dyntpl.Ctx)
	Src     string
	Ast     []*Ast
}

// measure renders src (warm-up twice) and returns allocations per render; -1 when it does not parse.
func measureAllocs(src string, setup func(ctx *dyntpl.Ctx)) float64 {
	key, _, po := parseDump([]byte(src), false)
	if po.ErrClass() != "OK" {
		return -1
	}
	ctx := dyntpl.NewCtx()
	var buf bytes.Buffer
	render := func() {
		ctx.Reset()
		setup(ctx)
		buf.Reset()
		_ = dyntpl.Write(&buf, key, ctx)
	}
	render()
	render()
	return testing.AllocsPerRun(10, render)
}

// removeNth returns a deep copy of the item lists with the n-th node (pre-order) removed; ok=false when n is out of range.
func removeNth(ns []*Ast, n *int) ([]*Ast, bool) {
	var out []*Ast
	done := false
	for _, a := range ns {
		if !done && *n == 0 {
			*n = -1
			done = true
			continue
		}
		if !done {
			*n--
		}
		c := *a
		if !done && a.K != "ternary" {
			var ok bool
			if c.Then, ok = removeNth(a.Then, n); ok {
				done = true
			}
			if !done {
				if c.Else, ok = removeNth(a.Else, n); ok {
					done = true
				}
			}
			if !done {
				if c.Body, ok = removeNth(a.Body, n); ok {
					done = true
				}
			}
		}
		out = append(out, &c)
	}
	return out, done
}

func shrinkAllocs(ast []*Ast, setup func(ctx *dyntpl.Ctx)) string {
	cur := ast
	for changed := true; changed; {
		changed = false
		for i := 0; i < 200; i++ {
			k := i
			cand, ok := removeNth(cur, &k)
			if !ok {
				break
			}
			if a := measureAllocs(printNodes(cand), setup); a > 0 {
				cur = cand
				changed = true
				break
			}
		}
	}
	return printNodes(cur)
}

// preallocated values: setting them on a context must not allocate
type prebuilt struct {
	ints   [8]int
	uints  [8]uint
	floats [8]float64
	strs   [8]string
	bs     [8][]byte
	bools  [8]bool
	user   *testobj.TestObject
	sets   []func(ctx *dyntpl.Ctx)
}

func prebuild(d *DataEnv) *prebuilt {
	p := &prebuilt{}
	if d.User.Present {
		p.user = d.User.object()
		p.sets = append(p.sets, func(ctx *dyntpl.Ctx) { ctx.Set("user", p.user, tobjIns) })
	}
	ni, nu, nf, ns, nb, nbo := 0, 0, 0, 0, 0, 0
	for i := range d.Statics {
		v := d.Statics[i]
		name := v.Name
		switch v.Kind {
		case "uint", "uint32":
			if nu < 8 {
				p.uints[nu] = uint(v.U)
				ptr := &p.uints[nu]
				nu++
				p.sets = append(p.sets, func(ctx *dyntpl.Ctx) { ctx.SetStatic(name, ptr) })
			}
		case "int", "int64", "int8", "counter":
			if ni < 8 {
				p.ints[ni] = int(v.I)
				ptr := &p.ints[ni]
				ni++
				if v.Kind == "counter" {
					val := *ptr
					p.sets = append(p.sets, func(ctx *dyntpl.Ctx) { ctx.SetCounter(name, val) })
				} else {
					p.sets = append(p.sets, func(ctx *dyntpl.Ctx) { ctx.SetStatic(name, ptr) })
				}
			}
		case "float":
			if nf < 8 {
				p.floats[nf] = v.F
				ptr := &p.floats[nf]
				nf++
				p.sets = append(p.sets, func(ctx *dyntpl.Ctx) { ctx.SetStatic(name, ptr) })
			}
		case "string":
			if ns < 8 {
				p.strs[ns] = string(v.S)
				ptr := &p.strs[ns]
				ns++
				p.sets = append(p.sets, func(ctx *dyntpl.Ctx) { ctx.SetStatic(name, ptr) })
			}
		case "bytes":
			if nb < 8 {
				p.bs[nb] = append([]byte(nil), v.S...)
				ptr := &p.bs[nb]
				nb++
				p.sets = append(p.sets, func(ctx *dyntpl.Ctx) { ctx.SetStatic(name, ptr) })
			}
		case "setbytes", "setstring":
			if nb < 8 {
				p.bs[nb] = append([]byte(nil), v.S...)
				b := p.bs[nb]
				nb++
				p.sets = append(p.sets, func(ctx *dyntpl.Ctx) { ctx.SetBytes(name, b) })
			}
		case "bool":
			if nbo < 8 {
				p.bools[nbo] = v.B
				ptr := &p.bools[nbo]
				nbo++
				p.sets = append(p.sets, func(ctx *dyntpl.Ctx) { ctx.SetStatic(name, ptr) })
			}
		}
	}
	return p
}

var profC19 = &Profile{Name: "built-in-constructs", MaxDepth: 3, MaxItems: 6, Includes: true, Regions: true, PfxSfx: true, Letters: true, BreakN: true, NoMaps: true,
	W: map[string]int{"text": 2, "marker": 2, "print": 6, "if": 3, "ternary": 1, "switch": 2, "cloop": 3, "rloop": 3, "include": 2, "region": 1, "ctx": 2, "counter": 2, "dynprint": 2, "break": 1, "continue": 1}}

func slotsString(m map[string][2]int) string {
	ks := make([]string, 0, len(m))
	for k := range m {
		ks = append(ks, k)
	}
	sort.Strings(ks)
	var sb strings.Builder
	for _, k := range ks {
		fmt.Fprintf(&sb, "%s=%d/%d ", k, m[k][0], m[k][1])
	}
	return sb.String()
}

func capsOnly(m map[string][2]int) string {
	ks := make([]string, 0, len(m))
	for k := range m {
		ks = append(ks, k)
	}
	sort.Strings(ks)
	var sb strings.Builder
	for _, k := range ks {
		fmt.Fprintf(&sb, "%s:%d ", k, m[k][1])
	}
	return sb.String()
}

func runC19(o *Options) *Result {
	res := NewResult()
	rng := NewRNG(o.Seed)
	var cases []allocCase
	// 1. the repository's benchmark corpus
	files, _ := filepath.Glob("/repo/testdata/tpl/*.tpl")
	sort.Strings(files)
	for _, f := range files {
		name := strings.TrimSuffix(filepath.Base(f), ".tpl")
		if name == "strAnyMap" {
			continue // its inspector (map[string]any) allocates by itself
		}
		src, err := os.ReadFile(f)
		if err != nil {
			continue
		}
		tree, err := dyntpl.Parse(src, false)
		if err != nil {
			continue
		}
		dyntpl.RegisterTplKey(name, tree) // includeHost* include "simple" etc. by their file names
		begin, end := 0, 3
		cases = append(cases, allocCase{Name: "bench/" + name, Key: name, Src: string(src), Setup: func(ctx *dyntpl.Ctx) {
			ctx.Set("user", benchUser, tobjIns)
			ctx.SetStatic("begin", &begin)
			ctx.SetStatic("end", &end)
		}})
	}
	// 2. generated compositions of the built-in constructs
	n := 40
	if o.Tier == "thorough" {
		n = 400
	}
	for i := 0; i < n; i++ {
		ic := genInterpCase(i, rng.Fork(), profC19)
		if ic.tags["switch:incomparable-case"] || ic.tags["mods:failing"] {
			// a comparison against text that is no number, a modifier that reports an error: the
			// error values are built by strconv / the modifier (outside the engine), and allocate
			res.Hist("gen:skipped-error-building-case")
			continue
		}
		key, _, po := parseDump([]byte(ic.vc.Src), false)
		if po.ErrClass() != "OK" {
			continue
		}
		pb := prebuild(ic.vc.Data)
		cases = append(cases, allocCase{Name: fmt.Sprintf("gen/%d", i), Key: key, Src: ic.vc.Src, Ast: ic.ast, Setup: func(ctx *dyntpl.Ctx) {
			for _, s := range pb.sets {
				s(ctx)
			}
		}})
	}
	// 3. the same constructs scaled up: deeper nests, larger counters, longer chains
	scaled := map[string]string{
		"range-nest-3":           `{% for _, a := range user.Finance.History %}[{% for _, b := range user.Finance.History %}({% for _, c := range user.Finance.History sep , %}{%= c.DateUnix %}{% endfor %}){% endfor %}]{% endfor %}`,
		"range-nest-4":           `{% for _, a := range user.Finance.History %}{% for _, b := range user.Finance.History %}{% for _, c := range user.Finance.History %}{% for k, d := range user.Finance.History sep ; %}{%= k %}:{%= d.Cost %}{% endfor %}|{% endfor %}{% endfor %}{% endfor %}`,
		"range-siblings":         `{% for _, a := range user.Finance.History %}{% for _, b := range user.Finance.History %}{%= b.Cost %}{% endfor %}{% for _, c := range user.Finance.History %}{%= c.DateUnix %}{% endfor %}{% endfor %}`,
		"counter-250-260":        `{% for i := 250; i < 260; i++ sep , %}{%= i %}{% endfor %}`,
		"counter-0-300":          `{% for i := 0; i <= 300; i++ %}{% if i == 299 %}{%= i %}{% endif %}{% endfor %}`,
		"counter-negative":       `{% for i := 3; i >= -3; i-- sep , %}{%= i %}{% endfor %}`,
		"counter-nest-ctx":       `{% for i := 254; i < 258; i++ %}{% ctx x = i %}{% for j := 0; j < 3; j++ %}{%= x %}.{%= j %} {% endfor %}{% endfor %}`,
		"counter-compare-large":  `{% counter c = 300 %}{% for i := 0; i < 4; i++ %}{% counter c+100 %}{% if c > 500 %}{%= c %},{% endif %}{% if 600 <= c %}!{% endif %}{% endfor %}{% switch c %}{% case 700 %}seven{% default %}other{% endswitch %}`,
		"counter-tag-large":      `{% counter c = 1000 %}{% for i := 0; i < 5; i++ %}{% counter c+300 %}{%= c %},{% endfor %}`,
		"letters-chain":          `{%hh= user.Name %}{%jj= user.Id %}{%uu= user.Name %}{%aq= user.Id %}{%JJ= user.Name %}{%cc= user.Id %}`,
		"includes-in-loop":       `{% for i := 0; i < 12; i++ %}{% include simple %}{% endfor %}`,
		"include-long-key":       `{% for i := 0; i < 3; i++ %}{% include scaled-include-target-with-a-key-longer-than-thirty-two-bytes nosuch %}{% endfor %}`,
		"range-string-keyed-map": `{% for name, bits := range user.Flags sep , %}{%= name %}={%= bits %}{% endfor %}|{% for k, item := range user.Finance.History sep ; %}{%= k %}:{%= item.Cost %}{% endfor %}`,
		"ctx-copy-unsigned":      `{% ctx st = bigu %}state={%= st %};{% if st >= 256 %}big{% else %}small{% endif %}{% ctx n = user.Status %}{%= n %}{% ctx f = user.Finance.Balance %}{%= f %}{% ctx u8 = smallu %}{%= u8 %}`,
		"len-cap-long-value":     `{% if len(ulong.Name) > 16 %}L{% endif %}|{% if cap(ulong.Name) >= 16 %}C{% endif %}|{% if len(user.Name) == 4 %}s{% endif %}{%= len(ulong.Name) > 299 ? user.Id : user.Name %}`,
		"regions-nested":         `{% htmlescape %}<b>{%= user.Name %}{% urlencode %}a b&{%= user.Id %}{% endurlencode %}</b>{% jsonquote %}"{%= user.Name %}"{% endjsonquote %}{% endhtmlescape %}`,
		"switch-in-loops":        `{% for _, a := range user.Finance.History %}{% switch a.Cost %}{% case 14.345241 %}A{% case 60 %}B{% default %}C{% endswitch %}{% for j := 0; j < 2; j++ %}{% if a.Cost > 20 %}{%= a.Cost|default(0) %}{% else %}-{% endif %}{% endfor %}{% endfor %}`,
	}
	if t, err := dyntpl.Parse([]byte("<{%= user.Id %}>"), false); err == nil {
		dyntpl.RegisterTplKey("scaled-include-target-with-a-key-longer-than-thirty-two-bytes", t)
	}
	var snames []string
	for k := range scaled {
		snames = append(snames, k)
	}
	sort.Strings(snames)
	for _, name := range snames {
		src := scaled[name]
		tree, err := dyntpl.Parse([]byte(src), false)
		if err != nil {
			res.Notes = appendCap(res.Notes, "scaled template does not parse: "+name+": "+err.Error(), 5)
			continue
		}
		key := "scaled-" + name
		dyntpl.RegisterTplKey(key, tree)
		cases = append(cases, allocCase{Name: "scaled/" + name, Key: key, Src: src, Setup: func(ctx *dyntpl.Ctx) {
			ctx.Set("user", benchUser, tobjIns)
			ctx.Set("ulong", benchUserLong, tobjIns)
			ctx.SetStatic("bigu", &scaledBigU)
			ctx.SetStatic("smallu", &scaledSmallU)
		}})
	}
	// the same held context rendered repeatedly without Reset: renders that end inside a range loop
	// (exit) give their loop helpers back too.  (Counting loops are left out: every execution
	// takes a new counter cell until the next Reset, on the unchanged tree as well.)
	noReset := map[string]string{
		"noreset-exit-in-range-loop": `{% for k, h := range user.Finance.History %}{%= k %}:{% if h.Cost < 0 %}{% exit %}{% endif %}{% endfor %}`,
		"noreset-nested-range-exit":  `{% for _, a := range user.Finance.History %}{% for _, b := range user.Finance.History %}{%= b.DateUnix %}{% exit %}{% endfor %}{% endfor %}`,
		"noreset-plain":              `{% for _, a := range user.Finance.History sep , %}{%= a.Cost %}{% endfor %}{%= user.Id %}`,
	}
	var nrNames []string
	for k := range noReset {
		nrNames = append(nrNames, k)
	}
	sort.Strings(nrNames)
	for _, name := range nrNames {
		tree, err := dyntpl.Parse([]byte(noReset[name]), false)
		if err != nil {
			continue
		}
		key := "scaled-" + name
		dyntpl.RegisterTplKey(key, tree)
		cases = append(cases, allocCase{Name: "scaled/" + name, Key: key, Src: noReset[name], NoReset: true, Setup: func(ctx *dyntpl.Ctx) { ctx.Set("user", benchUser, tobjIns) }})
	}
	for _, c := range cases {
		ctx := dyntpl.NewCtx()
		var buf bytes.Buffer
		if c.NoReset {
			c.Setup(ctx)
		}
		render := func() error {
			if !c.NoReset {
				ctx.Reset()
				c.Setup(ctx)
			}
			buf.Reset()
			return dyntpl.Write(&buf, c.Key, ctx)
		}
		// warm-up: the context, the buffer and the template have been used
		err1 := render()
		_ = render()
		caps1 := capsOnly(dyntpl.VerifCtxSlots(ctx))
		out1 := append([]byte(nil), buf.Bytes()...)
		allocs := testing.AllocsPerRun(10, func() { _ = render() })
		caps2 := capsOnly(dyntpl.VerifCtxSlots(ctx))
		res.Evaluations++
		res.ModelEvals++
		res.Hist(fmt.Sprintf("allocs:%v", allocs))
		if err1 != nil {
			res.Hist("render:error")
		}
		if len(out1) > 0 {
			res.Distinct(c.Src)
		}
		if res.Evaluations%9 == 0 {
			res.Sample(map[string]any{"case": c.Name, "template": c.Src, "allocs_per_run": allocs, "slots": slotsString(dyntpl.VerifCtxSlots(ctx))}, 8)
		}
		replay := map[string]any{"case": c.Name, "template": c.Src, "allocs_per_run": allocs, "caps_after_warmup": caps1, "caps_after_measurement": caps2}
		if caps1 != caps2 {
			// the model (Props/C19.v) says: no growth branch after the first run
			res.Mismatches++
			res.OracleFails++
			res.AddViolation(&Violation{Kind: "failing-input", Class: "alloc:store-grows", What: fmt.Sprintf("%s: a grow-only store of the context keeps growing after warm-up: %s -> %s", c.Name, caps1, caps2), Replay: replay})
			continue
		}
		if allocs > 0 {
			if c.Ast != nil {
				min := shrinkAllocs(c.Ast, c.Setup)
				replay["shrunk_template"] = min
				c.Src = min
			}
			res.OracleFails++
			res.AddViolation(&Violation{Kind: "failing-input", Class: "alloc:" + allocClass(c), What: fmt.Sprintf("%s: %v heap allocations per render after warm-up with a held context and buffer (template %q)", c.Name, allocs, c.Src), Replay: replay})
		}
	}
	res.Rule = "the repository's benchmark templates (testdata/tpl, benchmark user object) and generated compositions of prints, escape directives, conditions, switches, loops with separators, ctx/counter tags, includes and bound tags; each rendered twice for warm-up with one held context and buffer, then testing.AllocsPerRun(10) around Reset+set+Write; capacities of the grow-only stores (VerifCtxSlots) before and after the measurement must be equal (the model's no-growth theorem) and the allocation count must be 0; distinct by template; non-trivial when the output is non-empty"
	res.WriteReplays(o.Verif+"/evidence/replays", "C19")
	return res
}

// allocClass names the construct mix of an allocating template (guards of known findings).
func allocClass(c allocCase) string {
	switch {
	case strings.HasPrefix(c.Name, "bench/"), strings.HasPrefix(c.Name, "scaled/"):
		return c.Name
	case strings.Contains(c.Src, "range user.Flags"):
		return "map-range"
	}
	return "generated"
}
