module verifharness

go 1.18

require (
	github.com/koykov/clock v1.1.4
	github.com/koykov/dyntpl v0.0.0
	github.com/koykov/inspector v1.4.6
	github.com/koykov/x2bytes v1.0.2
)

require (
	github.com/koykov/bytealg v1.0.4 // indirect
	github.com/koykov/bytebuf v1.0.7 // indirect
	github.com/koykov/byteconv v1.0.0 // indirect
	github.com/koykov/byteseq v1.0.1 // indirect
	github.com/koykov/entry v1.0.2 // indirect
	golang.org/x/sys v0.10.0 // indirect
	golang.org/x/tools v0.11.1 // indirect
)

replace github.com/koykov/dyntpl => /repo
