package main

import (
	"fmt"
	"strings"

	"github.com/koykov/dyntpl"
	"github.com/koykov/x2bytes"
)

// Serialisation of the real parser's tree (dyntpl.VerifNode) into a Gallina [node] term.

var opNames = []string{"OpUnk", "OpEq", "OpNq", "OpGt", "OpGtq", "OpLt", "OpLtq", "OpInc", "OpDec"}

func gOp(o int) string {
	if o >= 0 && o < len(opNames) {
		return opNames[o]
	}
	return "OpUnk"
}

func gArgs(as []dyntpl.VerifArg) string {
	var items []string
	for _, a := range as {
		items = append(items, fmt.Sprintf("mkArg %s %s %s %s", gBytes(a.Name), gBytes(a.Val), gBool(a.Static), gBool(a.Global)))
	}
	return gList(items)
}

func gMods(ms []dyntpl.VerifMod) string {
	var items []string
	for _, m := range ms {
		items = append(items, fmt.Sprintf("mkMod %s %s", gBytes(m.ID), gArgs(m.Arg)))
	}
	return gList(items)
}

func gLC(lc int) string {
	switch lc {
	case 1:
		return "LcLen"
	case 2:
		return "LcCap"
	}
	return "LcNone"
}

func gNodes(ns []dyntpl.VerifNode) string {
	var items []string
	for i := range ns {
		items = append(items, gNode(&ns[i]))
	}
	return gList(items)
}

func gCase(n *dyntpl.VerifNode) string {
	return fmt.Sprintf("(mkCase %s %s %s %s %s %s %s)", gBytes(n.CaseL), gBytes(n.CaseR), gBool(n.CaseStaticL), gBool(n.CaseStaticR), gOp(n.CaseOp), gBytes(n.CaseHlp), gArgs(n.CaseHlpArg))
}

func gNode(n *dyntpl.VerifNode) string {
	switch n.Typ {
	case 0:
		return "NRaw " + gBytes(n.Raw)
	case 1:
		return fmt.Sprintf("NTpl %s %s %s %s %s", gBytes(n.Raw), gBytes(n.Prefix), gBytes(n.Suffix), gBool(n.Noesc), gMods(n.Mod))
	case 2:
		return fmt.Sprintf("NCond (mkCond %s %s %s %s %s %s %s %s) %s", gBytes(n.CondL), gBytes(n.CondR), gBool(n.CondStaticL), gBool(n.CondStaticR), gOp(n.CondOp), gBytes(n.CondHlp), gArgs(n.CondHlpArg), gLC(n.CondLC), gNodes(n.Child))
	case 3:
		return fmt.Sprintf("NCondOK (mkOk %s %s %s) (mkCond %s %s %s %s %s %s %s %s) %s", gBytes(n.CondOKL), gBytes(n.CondOKR), gBytes(n.CondIns),
			gBytes(n.CondL), gBytes(n.CondR), gBool(n.CondStaticL), gBool(n.CondStaticR), gOp(n.CondOp), gBytes(n.CondHlp), gArgs(n.CondHlpArg), gLC(n.CondLC), gNodes(n.Child))
	case 4:
		return fmt.Sprintf("NBlock BTrue no_case %s", gNodes(n.Child))
	case 5:
		return fmt.Sprintf("NBlock BFalse no_case %s", gNodes(n.Child))
	case 14:
		return fmt.Sprintf("NBlock BCase %s %s", gCase(n), gNodes(n.Child))
	case 15:
		return fmt.Sprintf("NBlock BDefault no_case %s", gNodes(n.Child))
	case 6:
		return fmt.Sprintf("NLoopRange %s %s %s %s %s", gBytes(n.LoopKey), gBytes(n.LoopVal), gBytes(n.LoopSrc), gBytes(n.LoopSep), gNodes(n.Child))
	case 7:
		return fmt.Sprintf("NLoopCount %s %s %s %s %s %s %s %s %s", gBytes(n.LoopCnt), gBytes(n.LoopCntInit), gBytes(n.LoopLim), gBytes(n.LoopSep), gBool(n.LoopCntStatic), gBool(n.LoopLimStatic), gOp(n.LoopCondOp), gOp(n.LoopCntOp), gNodes(n.Child))
	case 8:
		return "NBreak " + gZ(int64(n.LoopBrkD))
	case 9:
		return "NLBreak " + gZ(int64(n.LoopBrkD))
	case 10:
		return "NContinue"
	case 11:
		return fmt.Sprintf("NCtx %s %s %s %s %s %s", gBytes(n.CtxVar), gBytes(n.CtxSrc), gBytes(n.CtxOK), gBytes(n.CtxIns), gBool(n.CtxSrcStatic), gMods(n.Mod))
	case 12:
		return fmt.Sprintf("NCounter %s %s %s %s %s", gBytes(n.CntrVar), gBool(n.CntrInitF), gZ(int64(n.CntrInit)), gOp(n.CntrOp), gZ(int64(n.CntrOpArg)))
	case 13:
		return fmt.Sprintf("NSwitch %s %s", gBytes(n.SwitchArg), gNodes(n.Child))
	case 17:
		return "NFlag FJson true"
	case 18:
		return "NFlag FJson false"
	case 19:
		return "NFlag FHtml true"
	case 20:
		return "NFlag FHtml false"
	case 21:
		return "NFlag FUrl true"
	case 22:
		return "NFlag FUrl false"
	case 23:
		var names []string
		for _, t := range n.Tpl {
			names = append(names, gBytes(t))
		}
		return "NInclude " + gList(names)
	case 24:
		return "NExit"
	}
	return fmt.Sprintf("NOther %d%%Z", n.Typ)
}

// errCode maps an error of the real engine to the class shared with Model/VCase.v.
func errCode(o Obs) int {
	if o.Err == "" {
		return 0
	}
	// by the library's own error values (a reworded message changes nothing here)
	m := map[string]int{
		dyntpl.ErrUnknownCtl.Error(): 1, dyntpl.ErrSenselessCond.Error(): 2, dyntpl.ErrCondHlpNotFound.Error(): 3, dyntpl.ErrTplNotFound.Error(): 4,
		dyntpl.ErrInterrupt.Error(): 5, dyntpl.ErrModNoArgs.Error(): 6, dyntpl.ErrModPoorArgs.Error(): 7, dyntpl.ErrModNoStr.Error(): 8,
		dyntpl.ErrWrongLoopLim.Error(): 9, dyntpl.ErrWrongLoopCond.Error(): 10, dyntpl.ErrWrongLoopOp.Error(): 11,
		dyntpl.ErrBreakLoop.Error(): 12, dyntpl.ErrLBreakLoop.Error(): 13, dyntpl.ErrContLoop.Error(): 14, x2bytes.ErrUnknownType.Error(): 15,
		errInjected.Error(): 16, dyntpl.ErrUnknownPool.Error(): 19, errVFail.Error(): 20,
	}
	if c, ok := m[o.Err]; ok {
		return c
	}
	if strings.Contains(o.Err, "strconv.") {
		return 17
	}
	return 18
}
