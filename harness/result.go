package main

import (
	"crypto/sha1"
	"encoding/hex"
	"encoding/json"
	"fmt"
	"os"
	"sort"
)

// Violation is one confirmed or unconfirmed breach found by a run.
type Violation struct {
	Kind    string         `json:"kind"`  // "failing-input" | "no-failing-input-found"
	Class   string         `json:"class"` // decidable guard name used by known_findings.txt
	What    string         `json:"what"`
	Replay  map[string]any `json:"replay"`
	Path    string         `json:"path,omitempty"`
	Lemma   string         `json:"lemma_or_correspondence,omitempty"`
	hashKey string
}

// Result is what a harness run hands back to ./check.
type Result struct {
	Property     string         `json:"property"`
	Tier         string         `json:"tier"`
	Seed         uint64         `json:"seed"`
	Evaluations  int            `json:"evaluations"`
	Nontrivial   int            `json:"distinct_nontrivial"`
	Rule         string         `json:"rule"`
	Samples      []any          `json:"samples"`
	Histogram    map[string]int `json:"histogram"`
	Exhaustive   bool           `json:"exhaustive"`
	ExhaustNote  string         `json:"exhaustive_note,omitempty"`
	ModelEvals   int            `json:"model_evaluations"`
	Mismatches   int            `json:"correspondence_mismatches"`
	OracleFails  int            `json:"oracle_failures"`
	Violations   []*Violation   `json:"violations"`
	Notes        []string       `json:"notes,omitempty"`
	InfraError   string         `json:"infra_error,omitempty"`
	seen         map[string]bool
	maxViolation int
}

// liveResult: the result under construction (what memoryGuard saves when it has to end the run)
var liveResult *Result

func NewResult() *Result {
	r := &Result{Histogram: map[string]int{}, seen: map[string]bool{}, maxViolation: 8}
	if liveResult == nil {
		liveResult = r
	}
	return r
}

func (r *Result) Hist(k string) { r.Histogram[k]++ }

// Distinct counts a case as distinct-and-non-trivial when its key was not seen before.
func (r *Result) Distinct(key string) {
	if !r.seen[key] {
		r.seen[key] = true
		r.Nontrivial++
	}
}

func (r *Result) Sample(s any, max int) {
	if len(r.Samples) < max {
		r.Samples = append(r.Samples, s)
	}
}

// AddViolation records a violation (deduplicated by class+what, capped).
func (r *Result) AddViolation(v *Violation) {
	k := v.Class + "|" + v.Kind
	n := 0
	for _, x := range r.Violations {
		if x.Class+"|"+x.Kind == k {
			n++
		}
	}
	if n >= 1 || len(r.Violations) >= r.maxViolation {
		return
	}
	r.Violations = append(r.Violations, v)
}

func (r *Result) Save(path string) error {
	if r.Samples == nil {
		r.Samples = []any{}
	}
	if r.Violations == nil {
		r.Violations = []*Violation{}
	}
	b, err := json.MarshalIndent(r, "", " ")
	if err != nil {
		return err
	}
	return os.WriteFile(path, b, 0o644)
}

// WriteReplays writes one replay file per violation under dir and fills Path.
func (r *Result) WriteReplays(dir, prop string) {
	_ = os.MkdirAll(dir, 0o755)
	for _, v := range r.Violations {
		if v.Replay == nil {
			v.Replay = map[string]any{}
		}
		v.Replay["property"] = prop
		v.Replay["kind"] = v.Kind
		v.Replay["class"] = v.Class
		v.Replay["what"] = v.What
		if v.Lemma != "" {
			v.Replay["lemma_or_correspondence"] = v.Lemma
		}
		b, _ := json.MarshalIndent(v.Replay, "", " ")
		h := sha1.Sum(b)
		v.Path = fmt.Sprintf("%s/%s-%s.json", dir, prop, hex.EncodeToString(h[:6]))
		_ = os.WriteFile(v.Path, b, 0o644)
	}
}

func sortedKeys(m map[string]int) []string {
	ks := make([]string, 0, len(m))
	for k := range m {
		ks = append(ks, k)
	}
	sort.Strings(ks)
	return ks
}
