package main

import (
	"fmt"
	"strings"
)

// Surface AST of the generator (mirrors Spec/Ast.v) and its concrete-syntax printer.

type AMod struct {
	Name string
	Args []AArg
}

type AArg struct {
	Lit    bool   // literal (quoted) or variable path
	Text   string // literal text (without quotes) or path
	Quote  string // quote character used for literals: `"` or `'` or "" for bare numbers/bools
	KVName string // non-empty: part of a {k:v} group
}

type ACond struct {
	L, R           string // operand texts as they appear (literals without quotes)
	LLit, RLit     bool
	LQuote, RQuote string
	Op             string
	Helper         string // lenEq0 … or len/cap
	HArg           string
	Not            bool // !flag form (not generated)
	FloatL, FloatR bool
}

type ACase struct {
	Cond ACond // for condition-less switch: full condition; for classic: only L used (value)
	Body []*Ast
}

type Ast struct {
	K string

	Text []byte // text

	// print
	Letters string
	Path    string
	Mods    []AMod
	Pfx     string
	Sfx     string
	PfxKw   string // "prefix" | "pfx"
	SfxKw   string // "suffix" | "sfx"
	RawMod  bool   // |raw

	// if / ternary / break-if
	Cond    *ACond
	Then    []*Ast
	Else    []*Ast
	HasElse bool

	// switch
	SwArg      string
	Cases      []ACase
	Default    []*Ast
	HasDefault bool

	// loops
	Var     string // counter var / range value var
	Key     string // range key var ("" = none, "_" printed when only value)
	Init    string
	InitLit bool
	Op      string
	Lim     string
	LimLit  bool
	Step    string // "++" | "--"
	Sep     string
	SepKw   string
	Src     string
	Body    []*Ast

	// break / lazybreak / continue
	N int // 0 = no depth given

	// ctx
	CtxVar   string
	CtxSrc   string
	CtxLit   bool
	CtxQuote string
	CtxOK    string
	CtxMods  []AMod

	// counter
	CntOp  string // "=", "++", "--", "+", "-"
	CntArg int

	// include
	Names []string
	IncKw string // "include" | "."

	// region
	Region string

	// if-ok ({% if CtxVar, CtxOK := vok(CtxSrc).(static); [!]CtxOK %}): Then / Else / HasElse as for if
	Neg bool

	// Sp selects among the accepted spellings of one construct (bits, see the sp* constants); 0 = the
	// common spelling. The parsed tree does not depend on it.
	Sp    uint
	SpSet bool
}

const (
	spAssign   = 1 << iota // loop headers: "=" instead of ":="
	spNoBlank              // "k,v" in range headers, "a,b" in argument lists
	spCompact              // counting-loop header without blanks: for i:=0;i<3;i++
	spKeyword              // context / cntr instead of ctx / counter
	spTightOp              // no blanks around the comparison operator
	spTightTag             // no blanks inside the tag delimiters
	spAsType               // "as static" instead of ".(static)"
)

func (a *Ast) sp(bit uint) bool { return a.Sp&bit != 0 }

// tight removes the blanks next to the delimiters of every tag of s.
func tight(s string) string {
	s = strings.ReplaceAll(s, "{% ", "{%")
	return strings.ReplaceAll(s, " %}", "%}")
}

func (a AArg) String() string {
	v := a.Text
	if a.Lit {
		v = a.Quote + a.Text + a.Quote
	}
	if a.KVName != "" {
		return a.KVName + ":" + v
	}
	return v
}

func printMods(ms []AMod) string { return printModsSp(ms, ", ") }

func printModsSp(ms []AMod, comma string) string {
	var sb strings.Builder
	for _, m := range ms {
		sb.WriteString("|")
		sb.WriteString(m.Name)
		if len(m.Args) > 0 {
			sb.WriteString("(")
			inKV := false
			for i, a := range m.Args {
				if i > 0 {
					sb.WriteString(comma)
				}
				if a.KVName != "" && !inKV {
					sb.WriteString("{")
					inKV = true
				}
				sb.WriteString(a.String())
				last := i == len(m.Args)-1 || m.Args[i+1].KVName == ""
				if inKV && last {
					sb.WriteString("}")
					inKV = false
				}
			}
			sb.WriteString(")")
		}
	}
	return sb.String()
}

func (c *ACond) String() string { return c.StringSp(" ") }

// StringSp prints the condition with the given text on either side of the operator.
func (c *ACond) StringSp(b string) string {
	if c.Helper != "" {
		if (c.Helper == "len" || c.Helper == "cap") && b == "" {
			return c.Helper + "(" + c.HArg + ")" + c.Op + c.R
		}
		return c.Helper + "(" + c.HArg + ")" + condTail(c)
	}
	l, r := c.L, c.R
	if c.LLit {
		l = c.LQuote + l + c.LQuote
	}
	if c.RLit {
		r = c.RQuote + r + c.RQuote
	}
	return l + b + c.Op + b + r
}

func condTail(c *ACond) string {
	if c.Helper == "len" || c.Helper == "cap" {
		return " " + c.Op + " " + c.R
	}
	return ""
}

func printNodes(ns []*Ast) string {
	var sb strings.Builder
	for _, n := range ns {
		sb.WriteString(n.Print())
	}
	return sb.String()
}

// Print renders the concrete syntax.
func (a *Ast) Print() string {
	s := a.print1()
	return s
}

func (a *Ast) opb() string {
	if a.sp(spTightOp) {
		return ""
	}
	return " "
}

// own applies the tag-delimiter spelling to the tags this node itself writes (not to its children's).
func (a *Ast) own(tag string) string {
	if a.sp(spTightTag) {
		return tight(tag)
	}
	return tag
}

func (a *Ast) print1() string {
	comma := ", "
	if a.sp(spNoBlank) {
		comma = ","
	}
	assign := ":="
	if a.sp(spAssign) {
		assign = "="
	}
	switch a.K {
	case "text":
		return string(a.Text)
	case "comment":
		return "{#" + string(a.Text) + "#}"
	case "print":
		s := "{%" + a.Letters + "= " + a.Path + printModsSp(a.Mods, comma)
		if a.RawMod {
			s += "|raw"
		}
		if a.Pfx != "" {
			s += " " + a.PfxKw + " " + a.Pfx
		}
		if a.Sfx != "" {
			s += " " + a.SfxKw + " " + a.Sfx
		}
		return s + " %}"
	case "ternary":
		return "{%" + a.Letters + "= " + a.Cond.StringSp(a.opb()) + " ? " + a.Then[0].Path + " : " + a.Else[0].Path + " %}"
	case "if":
		s := a.own("{% if "+a.Cond.StringSp(a.opb())+" %}") + printNodes(a.Then)
		if a.HasElse {
			s += a.own("{% else %}") + printNodes(a.Else)
		}
		return s + a.own("{% endif %}")
	case "ifok":
		arg := a.CtxSrc
		if a.CtxLit {
			arg = a.CtxQuote + a.CtxSrc + a.CtxQuote
		}
		neg := ""
		if a.Neg {
			neg = "!"
		}
		typ := ".(static)"
		if a.sp(spAsType) {
			typ = " as static"
		}
		s := fmt.Sprintf("{%% if %s, %s := vok(%s)%s; %s%s %%}", a.CtxVar, a.CtxOK, arg, typ, neg, a.CtxOK) + printNodes(a.Then)
		if a.HasElse {
			s += "{% else %}" + printNodes(a.Else)
		}
		return s + "{% endif %}"
	case "switch":
		s := "{% switch"
		if a.SwArg != "" {
			s += " " + a.SwArg
		}
		s += " %}"
		for _, c := range a.Cases {
			if a.SwArg != "" {
				v := c.Cond.L
				if c.Cond.LLit {
					v = c.Cond.LQuote + v + c.Cond.LQuote
				}
				s += "{% case " + v + " %}"
			} else {
				s += "{% case " + c.Cond.StringSp(a.opb()) + " %}"
			}
			s += printNodes(c.Body)
		}
		if a.HasDefault {
			s += "{% default %}" + printNodes(a.Default)
		}
		return s + "{% endswitch %}"
	case "cloop":
		s := fmt.Sprintf("{%% for %s %s %s; %s %s %s; %s%s", a.Var, assign, a.Init, a.Var, a.Op, a.Lim, a.Var, a.Step)
		if a.sp(spCompact) {
			s = fmt.Sprintf("{%% for %s%s%s;%s%s%s;%s%s", a.Var, assign, a.Init, a.Var, a.Op, a.Lim, a.Var, a.Step)
		}
		if a.Sep != "" {
			s += " " + a.SepKw + " " + a.Sep
		}
		s = a.own(s+" %}") + printNodes(a.Body)
		if a.HasElse {
			s += a.own("{% else %}") + printNodes(a.Else)
		}
		return s + a.own("{% endfor %}")
	case "rloop":
		vars := a.Key
		if a.Var != "" {
			k := a.Key
			if k == "" {
				k = "_"
			}
			vars = k + comma + a.Var
		}
		s := fmt.Sprintf("{%% for %s %s range %s", vars, assign, a.Src)
		if a.Sep != "" {
			s += " " + a.SepKw + " " + a.Sep
		}
		s = a.own(s+" %}") + printNodes(a.Body)
		if a.HasElse {
			s += a.own("{% else %}") + printNodes(a.Else)
		}
		return s + a.own("{% endfor %}")
	case "break", "lazybreak", "continue":
		s := "{% " + a.K
		if a.N > 0 {
			s += fmt.Sprintf(" %d", a.N)
		}
		if a.Cond != nil {
			s += " if " + a.Cond.StringSp(a.opb())
		}
		return a.own(s + " %}")
	case "ctx":
		src := a.CtxSrc
		if a.CtxLit {
			src = a.CtxQuote + src + a.CtxQuote
		}
		v := a.CtxVar
		if a.CtxOK != "" {
			v += ", " + a.CtxOK
		}
		kw := "ctx"
		if a.sp(spKeyword) {
			kw = "context"
		}
		return a.own("{% " + kw + " " + v + " = " + src + printModsSp(a.CtxMods, comma) + " %}")
	case "counter":
		kw := "counter"
		if a.sp(spKeyword) {
			kw = "cntr"
		}
		switch a.CntOp {
		case "=":
			return a.own(fmt.Sprintf("{%% %s %s = %d %%}", kw, a.Var, a.CntArg))
		case "++", "--":
			return a.own(fmt.Sprintf("{%% %s %s%s %%}", kw, a.Var, a.CntOp))
		default:
			return a.own(fmt.Sprintf("{%% %s %s%s%d %%}", kw, a.Var, a.CntOp, a.CntArg))
		}
	case "include":
		return a.own("{% " + a.IncKw + " " + strings.Join(a.Names, " ") + " %}")
	case "exit":
		return "{% exit %}"
	case "region":
		return "{% " + a.Region + " %}" + printNodes(a.Body) + "{% end" + a.Region + " %}"
	case "openregion":
		return "{% " + a.Region + " %}"
	}
	panic("ast kind " + a.K)
}

// Walk visits every node.
func walkAst(ns []*Ast, f func(*Ast)) {
	for _, n := range ns {
		f(n)
		walkAst(n.Then, f)
		walkAst(n.Else, f)
		walkAst(n.Body, f)
		walkAst(n.Default, f)
		for _, c := range n.Cases {
			walkAst(c.Body, f)
		}
	}
}
