package main

import (
	"flag"
	"fmt"
	"os"
	"runtime"
	"sync/atomic"
	"time"
)

// Common options of one harness run.
type Options struct {
	Prop    string
	Tier    string
	Seed    uint64
	WorkDir string // scratch directory of this run (under /verif/work)
	Driver  string // path of the extracted-model driver (E-mode)
	CoqDir  string // /verif/coq (V-mode: -Q path)
	Verif   string // /verif
	Replay  string // replay file (optional)
	Budget  int    // multiplier override
}

var runners = map[string]func(*Options) *Result{}

func main() {
	o := &Options{}
	flag.StringVar(&o.Prop, "prop", "", "property id")
	flag.StringVar(&o.Tier, "tier", "quick", "quick|thorough")
	flag.Uint64Var(&o.Seed, "seed", 1, "PRNG seed")
	flag.StringVar(&o.WorkDir, "work", "", "work dir")
	flag.StringVar(&o.Driver, "driver", "", "E-mode driver binary")
	flag.StringVar(&o.CoqDir, "coq", "", "coq dir")
	flag.StringVar(&o.Verif, "verif", "/verif", "verif root")
	flag.StringVar(&o.Replay, "replay", "", "replay file")
	flag.IntVar(&o.Budget, "budget", 0, "budget multiplier override")
	flag.Parse()
	verifRoot = o.Verif
	fn, ok := runners[o.Prop]
	if !ok {
		fmt.Fprintf(os.Stderr, "unknown property %q\n", o.Prop)
		os.Exit(2)
	}
	if err := os.MkdirAll(o.WorkDir, 0o755); err != nil {
		fmt.Fprintln(os.Stderr, err)
		os.Exit(2)
	}
	go memoryGuard(o)
	res := fn(o)
	// every violation carries a replay file, whichever stream added it and whenever
	res.WriteReplays(o.Verif+"/evidence/replays", o.Prop)
	res.Property = o.Prop
	res.Tier = o.Tier
	res.Seed = o.Seed
	if err := res.Save(o.WorkDir + "/result.json"); err != nil {
		fmt.Fprintln(os.Stderr, err)
		os.Exit(2)
	}
}

// memoryGuard: a render that never ends (the watchdog abandons it, it runs on) can write output
// without bound and take the whole process down, which would leave ./check without a result.  When
// the process has grown beyond 6 GiB after at least one abandoned call, the run ends at once with what
// it has found so far plus a violation that says so.
func memoryGuard(o *Options) {
	var ms runtime.MemStats
	for {
		time.Sleep(150 * time.Millisecond)
		if atomic.LoadInt64(&hangCount) == 0 {
			continue
		}
		runtime.ReadMemStats(&ms)
		if ms.Sys < 6<<30 {
			continue
		}
		res := liveResult
		if res == nil {
			res = NewResult()
		}
		func() {
			defer func() { _ = recover() }()
			hangMu.Lock()
			hs := append([]string(nil), hangSrc...)
			hangMu.Unlock()
			if len(hs) > 0 && hs[0] != "" {
				res.AddViolation(&Violation{Kind: "failing-input", Class: "render:HANG",
					What:   fmt.Sprintf("rendering %q did not return within its time limit and went on allocating (output without bound)", hs[0]),
					Replay: map[string]any{"template": hs[0], "other_hanging_templates": hs[1:]}})
			}
			res.AddViolation(&Violation{Kind: "no-failing-input-found", Class: "engine:runaway",
				What:   fmt.Sprintf("%d calls into the engine did not return within their time limit and the process grew beyond 6 GiB while they ran on (output without bound): the run was ended early", atomic.LoadInt64(&hangCount)),
				Replay: map[string]any{"correspondence": "run of " + o.Prop + " ended early: abandoned engine calls kept allocating", "hangs": atomic.LoadInt64(&hangCount)}})
			res.WriteReplays(o.Verif+"/evidence/replays", o.Prop)
			res.Property, res.Tier, res.Seed = o.Prop, o.Tier, o.Seed
			_ = res.Save(o.WorkDir + "/result.json")
		}()
		os.Exit(0)
	}
}
