package main

import (
	"flag"
	"fmt"
	"os"
)

// Common options of one harness run.
type Options struct {
	Prop    string
	Tier    string
	Seed    uint64
	WorkDir string // scratch directory of this run (under /verif/work)
	Driver  string // path of the extracted-model driver (E-mode)
	CoqDir  string // /verif/coq (V-mode: -Q path)
	Verif   string // /verif
	Replay  string // replay file (optional)
	Budget  int    // multiplier override
}

var runners = map[string]func(*Options) *Result{}

func main() {
	o := &Options{}
	flag.StringVar(&o.Prop, "prop", "", "property id")
	flag.StringVar(&o.Tier, "tier", "quick", "quick|thorough")
	flag.Uint64Var(&o.Seed, "seed", 1, "PRNG seed")
	flag.StringVar(&o.WorkDir, "work", "", "work dir")
	flag.StringVar(&o.Driver, "driver", "", "E-mode driver binary")
	flag.StringVar(&o.CoqDir, "coq", "", "coq dir")
	flag.StringVar(&o.Verif, "verif", "/verif", "verif root")
	flag.StringVar(&o.Replay, "replay", "", "replay file")
	flag.IntVar(&o.Budget, "budget", 0, "budget multiplier override")
	flag.Parse()
	verifRoot = o.Verif
	fn, ok := runners[o.Prop]
	if !ok {
		fmt.Fprintf(os.Stderr, "unknown property %q\n", o.Prop)
		os.Exit(2)
	}
	if err := os.MkdirAll(o.WorkDir, 0o755); err != nil {
		fmt.Fprintln(os.Stderr, err)
		os.Exit(2)
	}
	res := fn(o)
	// every violation carries a replay file, whichever stream added it and whenever
	res.WriteReplays(o.Verif+"/evidence/replays", o.Prop)
	res.Property = o.Prop
	res.Tier = o.Tier
	res.Seed = o.Seed
	if err := res.Save(o.WorkDir + "/result.json"); err != nil {
		fmt.Fprintln(os.Stderr, err)
		os.Exit(2)
	}
}
