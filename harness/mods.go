package main

import (
	"sync"

	"github.com/koykov/dyntpl"
)

// Modifiers registered by the harness; their reference semantics are fixed in Model/Interp.v
// (n_vup, n_vcat, n_vdefer, n_vacquire, n_vfail).

type evLog struct {
	mu  sync.Mutex
	evs []string
}

var harnessLog evLog

func (l *evLog) add(s string) {
	l.mu.Lock()
	l.evs = append(l.evs, s)
	l.mu.Unlock()
}
func (l *evLog) take() []string {
	l.mu.Lock()
	defer l.mu.Unlock()
	r := l.evs
	l.evs = nil
	return r
}

func textOf(ctx *dyntpl.Ctx, v any) ([]byte, bool) {
	if kv, ok := v.(*dyntpl.KV); ok {
		t, _ := textOf(ctx, kv.V)
		return append(append(append([]byte(nil), kv.K...), '='), t...), true
	}
	if v == nil {
		return nil, false
	}
	b := ctx.BufAcc.StakeOut().WriteX(v)
	if b.Error() != nil {
		return nil, false
	}
	return append([]byte(nil), ctx.BufAcc.StakedBytes()...), true
}

type vpool struct{ name string }

type vobj struct{ pool string }

func (p *vpool) Get() any    { return &vobj{pool: p.name} }
func (p *vpool) Put(x any)   { harnessLog.add("put:" + p.name) }
func (p *vpool) Reset(x any) { harnessLog.add("reset:" + p.name) }

func init() {
	// vok(x): if-ok helper; the value is a copy of x's text (nothing when there is none), ok
	// reports whether that text is non-empty
	dyntpl.RegisterCondOKFn("vok", func(ctx *dyntpl.Ctx, v *any, ok *bool, args []any) {
		*v, *ok = nil, false
		if len(args) == 0 {
			return
		}
		if t, _ := textOf(ctx, args[0]); len(t) > 0 {
			cp := append([]byte(nil), t...)
			*v, *ok = &cp, true
		}
	})
	dyntpl.RegisterModFn("vup", "", func(ctx *dyntpl.Ctx, buf *any, val any, _ []any) error {
		t, ok := textOf(ctx, val)
		if !ok {
			return errVFail
		}
		// ASCII letters only, byte by byte (the definition of n_vup in Model/Interp.v)
		up := make([]byte, len(t))
		for i, c := range t {
			if c >= 'a' && c <= 'z' {
				c -= 32
			}
			up[i] = c
		}
		ctx.BufModOut(buf, up)
		return nil
	})
	dyntpl.RegisterModFn("vcat", "", func(ctx *dyntpl.Ctx, buf *any, val any, args []any) error {
		out, _ := textOf(ctx, val)
		for _, a := range args {
			t, _ := textOf(ctx, a)
			out = append(out, t...)
		}
		ctx.BufModOut(buf, out)
		return nil
	})
	dyntpl.RegisterModFn("vfail", "", func(ctx *dyntpl.Ctx, buf *any, val any, args []any) error { return errVFail })
	dyntpl.RegisterModFn("vdefer", "", func(ctx *dyntpl.Ctx, buf *any, val any, args []any) error {
		if len(args) == 0 {
			return dyntpl.ErrModNoArgs
		}
		t, _ := textOf(ctx, args[0])
		tag := string(t)
		harnessLog.add("defer:" + tag)
		ctx.Defer(func() error { harnessLog.add("run:" + tag); return nil })
		return nil
	})
	dyntpl.RegisterModFn("vacquire", "", func(ctx *dyntpl.Ctx, buf *any, val any, args []any) error {
		if len(args) == 0 {
			return dyntpl.ErrModNoArgs
		}
		t, _ := textOf(ctx, args[0])
		harnessLog.add("acquire:" + string(t))
		_, err := ctx.AcquireFrom(string(t))
		return err
	})
	for _, n := range []string{"pa", "pb"} {
		_ = dyntpl.RegisterPool(n, &vpool{name: n})
	}
}
