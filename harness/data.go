package main

import (
	"fmt"
	"math"
	"strconv"
	"strings"

	"github.com/koykov/dyntpl"
	"github.com/koykov/inspector"
	"github.com/koykov/inspector/testobj"
	"github.com/koykov/inspector/testobj_ins"
)

// ---------------------------------------------------------------- data of one case

type HistRow struct {
	DateUnix int64
	Cost     float64
	Comment  []byte
}

type UserData struct {
	Present    bool // user variable set at all
	Id         string
	Name       []byte
	Status     int32
	Ustate     uint64
	Cost       float64
	HasFinance bool
	Balance    float64
	AllowBuy   bool
	History    []HistRow
	Flags      [][2]string // key, decimal int32 value (at most one entry is ranged over)
}

// StaticVar is a variable set with SetStatic / SetBytes / SetString / SetCounter.
type StaticVar struct {
	Name string
	Kind string // int int64 int8 uint uint32 float bool string bytes nil setbytes setstring counter
	I    int64
	U    uint64
	F    float64
	B    bool
	S    []byte
	Ptr  bool // handed over as pointer (as inspectors do) or by value
}

type DataEnv struct {
	User    UserData
	Statics []StaticVar
	// Extras adds variables of kinds only the panic/hang oracle looks at (C13): string-keyed maps
	// of slices, of maps and of mixed values, a slice of strings, all with the library inspectors.
	Extras bool `json:"extras,omitempty"`
}

func (u *UserData) object() *testobj.TestObject {
	o := &testobj.TestObject{Id: u.Id, Name: append([]byte(nil), u.Name...), Status: u.Status, Ustate: u.Ustate, Cost: u.Cost}
	if u.HasFinance {
		f := &testobj.TestFinance{Balance: u.Balance, AllowBuy: u.AllowBuy}
		for _, h := range u.History {
			f.History = append(f.History, testobj.TestHistory{DateUnix: h.DateUnix, Cost: h.Cost, Comment: append([]byte(nil), h.Comment...)})
		}
		o.Finance = f
	}
	if len(u.Flags) > 0 {
		o.Flags = testobj.TestFlag{}
		for _, kv := range u.Flags {
			n, _ := strconv.ParseInt(kv[1], 10, 32)
			o.Flags[kv[0]] = int32(n)
		}
	}
	return o
}

var tobjIns testobj_ins.TestObjectInspector

// Apply sets the variables of the environment on a context.
func (d *DataEnv) Apply(ctx *dyntpl.Ctx) {
	if d.Extras {
		ctx.Set("mslices", map[string]any{"a": []string{"x"}, "b": []string{"y", "z"}, "c": []string{}}, inspector.StringAnyMapInspector{})
		ctx.Set("mmaps", map[string]any{"p": map[string]any{"q": 1}, "r": map[string]any{"s": "t"}}, inspector.StringAnyMapInspector{})
		ctx.Set("mmixed", map[string]any{"i": 1, "s": "t", "f": 1.5, "n": nil, "l": []any{1, "x"}, "b": []byte("bb")}, inspector.StringAnyMapInspector{})
		ctx.Set("strs", []string{"a", "b", "c"}, inspector.StringsInspector{})
	}
	if d.User.Present {
		ctx.Set("user", d.User.object(), tobjIns)
	}
	for i := range d.Statics {
		v := &d.Statics[i]
		switch v.Kind {
		case "int":
			x := int(v.I)
			if v.Ptr {
				ctx.SetStatic(v.Name, &x)
			} else {
				ctx.SetStatic(v.Name, x)
			}
		case "int64":
			x := v.I
			if v.Ptr {
				ctx.SetStatic(v.Name, &x)
			} else {
				ctx.SetStatic(v.Name, x)
			}
		case "int8":
			x := int8(v.I)
			if v.Ptr {
				ctx.SetStatic(v.Name, &x)
			} else {
				ctx.SetStatic(v.Name, x)
			}
		case "uint":
			x := uint(v.U)
			if v.Ptr {
				ctx.SetStatic(v.Name, &x)
			} else {
				ctx.SetStatic(v.Name, x)
			}
		case "uint32":
			x := uint32(v.U)
			if v.Ptr {
				ctx.SetStatic(v.Name, &x)
			} else {
				ctx.SetStatic(v.Name, x)
			}
		case "float":
			x := v.F
			if v.Ptr {
				ctx.SetStatic(v.Name, &x)
			} else {
				ctx.SetStatic(v.Name, x)
			}
		case "bool":
			x := v.B
			if v.Ptr {
				ctx.SetStatic(v.Name, &x)
			} else {
				ctx.SetStatic(v.Name, x)
			}
		case "string":
			x := string(v.S)
			ctx.SetStatic(v.Name, &x)
		case "bytes":
			x := append([]byte(nil), v.S...)
			ctx.SetStatic(v.Name, &x)
		case "nil":
			ctx.SetStatic(v.Name, nil)
		case "setbytes":
			ctx.SetBytes(v.Name, v.S)
		case "setstring":
			ctx.SetString(v.Name, string(v.S))
		case "counter":
			ctx.SetCounter(v.Name, int(v.I))
		}
	}
}

// ---------------------------------------------------------------- Gallina terms

func gBytes(b []byte) string {
	if len(b) == 0 {
		return "[]"
	}
	// long literals in pieces: the string notation is interpreted recursively and overflows
	// coqc's stack beyond some 100 KB
	const piece = 2000
	if len(b) > piece {
		var parts []string
		for i := 0; i < len(b); i += piece {
			j := i + piece
			if j > len(b) {
				j = len(b)
			}
			parts = append(parts, fmt.Sprintf("#\"%x\"", b[i:j]))
		}
		return "(" + strings.Join(parts, " ++ ") + ")%list"
	}
	return fmt.Sprintf("#\"%x\"", b)
}
func gBool(b bool) string {
	if b {
		return "true"
	}
	return "false"
}
func gZ(i int64) string {
	if i < 0 {
		return fmt.Sprintf("(%d)%%Z", i)
	}
	return fmt.Sprintf("%d%%Z", i)
}
func gZu(u uint64) string { return fmt.Sprintf("%d%%Z", u) }
func gNat(n int) string   { return fmt.Sprintf("%d%%nat", n) }

func floatText(f float64) string { return strconv.FormatFloat(f, 'f', -1, 64) }

func gFloat(f float64) string {
	return fmt.Sprintf("(VFloat %d%%Z %s)", math.Float64bits(f), gBytes([]byte(floatText(f))))
}

func gList(items []string) string {
	if len(items) == 0 {
		return "[]"
	}
	return "[" + strings.Join(items, "; ") + "]"
}

func (u *UserData) gallina() string {
	fs := []string{
		fmt.Sprintf("(#\"%x\", VStr %s)", "Id", gBytes([]byte(u.Id))),
		fmt.Sprintf("(#\"%x\", VBytes %s)", "Name", gBytes(u.Name)),
		fmt.Sprintf("(#\"%x\", VInt %s)", "Status", gZ(int64(u.Status))),
		fmt.Sprintf("(#\"%x\", VUint %s)", "Ustate", gZu(u.Ustate)),
		fmt.Sprintf("(#\"%x\", %s)", "Cost", gFloat(u.Cost)),
	}
	if u.HasFinance {
		var hs []string
		for _, h := range u.History {
			hs = append(hs, fmt.Sprintf("VStruct [(#\"%x\", VInt %s); (#\"%x\", %s); (#\"%x\", VBytes %s)]",
				"DateUnix", gZ(h.DateUnix), "Cost", gFloat(h.Cost), "Comment", gBytes(h.Comment)))
		}
		fs = append(fs, fmt.Sprintf("(#\"%x\", VStruct [(#\"%x\", %s); (#\"%x\", VBool %s); (#\"%x\", VSlice %s)])",
			"Finance", "Balance", gFloat(u.Balance), "AllowBuy", gBool(u.AllowBuy), "History", gList(hs)))
	} else {
		fs = append(fs, fmt.Sprintf("(#\"%x\", VNil)", "Finance"))
	}
	var fl []string
	for _, kv := range u.Flags {
		n, _ := strconv.ParseInt(kv[1], 10, 32)
		fl = append(fl, fmt.Sprintf("(%s, VInt %s)", gBytes([]byte(kv[0])), gZ(n)))
	}
	fs = append(fs, fmt.Sprintf("(#\"%x\", VMap %s)", "Flags", gList(fl)))
	return "VStruct " + gList(fs)
}

func (v *StaticVar) slot() string {
	name := gBytes([]byte(v.Name))
	val := "VNil"
	switch v.Kind {
	case "int", "int64", "int8":
		val = "(VInt " + gZ(v.I) + ")"
	case "uint", "uint32":
		val = "(VUint " + gZu(v.U) + ")"
	case "float":
		val = gFloat(v.F)
	case "bool":
		val = "(VBool " + gBool(v.B) + ")"
	case "string":
		val = "(VStr " + gBytes(v.S) + ")"
	case "bytes":
		val = "(VBytes " + gBytes(v.S) + ")"
	case "nil":
		val = "VNil"
	case "setbytes", "setstring":
		return fmt.Sprintf("mkSlot %s VNil %s false 0%%Z true", name, gBytes(v.S))
	case "counter":
		return fmt.Sprintf("mkSlot %s VNil [] true %s true", name, gZ(v.I))
	}
	return fmt.Sprintf("mkSlot %s %s [] false 0%%Z true", name, val)
}

// Slots renders the context variables in the order Apply sets them (later settings of a name
// update the earlier slot, exactly as the setters do — names are unique in generated data).
func (d *DataEnv) Slots() string {
	var ss []string
	if d.User.Present {
		ss = append(ss, fmt.Sprintf("mkSlot #\"%x\" (%s) [] false 0%%Z false", "user", d.User.gallina()))
	}
	for i := range d.Statics {
		ss = append(ss, d.Statics[i].slot())
	}
	return gList(ss)
}

func float64bits(f float64) uint64 { return math.Float64bits(f) }

// HSteps renders the setter calls of Apply as history steps of Model/VCase.v.
func (d *DataEnv) HSteps() []string {
	var ss []string
	if d.User.Present {
		ss = append(ss, fmt.Sprintf("HSet #\"%x\" (%s) false", "user", d.User.gallina()))
	}
	for i := range d.Statics {
		v := &d.Statics[i]
		name := gBytes([]byte(v.Name))
		switch v.Kind {
		case "setbytes", "setstring":
			ss = append(ss, fmt.Sprintf("HSetBytes %s %s", name, gBytes(v.S)))
		case "counter":
			ss = append(ss, fmt.Sprintf("HSetCounter %s %s", name, gZ(v.I)))
		default:
			val := "VNil"
			switch v.Kind {
			case "int", "int64", "int8":
				val = "(VInt " + gZ(v.I) + ")"
			case "uint", "uint32":
				val = "(VUint " + gZu(v.U) + ")"
			case "float":
				val = gFloat(v.F)
			case "bool":
				val = "(VBool " + gBool(v.B) + ")"
			case "string":
				val = "(VStr " + gBytes(v.S) + ")"
			case "bytes":
				val = "(VBytes " + gBytes(v.S) + ")"
			}
			ss = append(ss, fmt.Sprintf("HSet %s %s true", name, val))
		}
	}
	return ss
}
