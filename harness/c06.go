package main

import (
	"bytes"
	"encoding/json"
	"fmt"
	"os"
	"os/exec"
	"strings"
)

func init() { runners["C06"] = runC06 }

// runC06 runs the race-enabled schedule exploration binary (built by ./check) and folds its report in.
func runC06(o *Options) *Result {
	res := NewResult()
	bin := os.Getenv("VH_RACE")
	if bin == "" {
		res.InfraError = "VH_RACE not set (the race-enabled exploration binary is built by ./check)"
		return res
	}
	dur := "5s"
	if o.Tier == "thorough" {
		dur = "180s"
	}
	cmd := exec.Command(bin, "-d", dur, "-seed", fmt.Sprint(o.Seed))
	var stdout, stderr bytes.Buffer
	cmd.Stdout, cmd.Stderr = &stdout, &stderr
	cmd.Env = append(os.Environ(), "GORACE=halt_on_error=0")
	err := cmd.Run()
	var rep struct {
		Renders, Registers int64
		Bad, Stale, Errors []string
		Gomaxprocs         []int
		VersionsSeen       int64   `json:"versions_seen"`
		DurationS          float64 `json:"duration_s"`
		Stuck              string  `json:"stuck"`
	}
	line := strings.TrimSpace(stdout.String())
	if i := strings.LastIndex(line, "\n"); i >= 0 {
		line = line[i+1:]
	}
	if jerr := json.Unmarshal([]byte(line), &rep); jerr != nil {
		res.InfraError = fmt.Sprintf("race exploration produced no report (%v): %s", err, tail(stderr.String(), 1500))
		return res
	}
	res.Evaluations = int(rep.Renders)
	res.Nontrivial = int(rep.VersionsSeen)
	res.Histogram["renders"] = int(rep.Renders)
	res.Histogram["re-registrations"] = int(rep.Registers)
	res.Histogram["distinct (template,version) outputs observed"] = int(rep.VersionsSeen)
	res.Samples = append(res.Samples, map[string]any{"renderers": 12, "writers": 4, "gomaxprocs": rep.Gomaxprocs, "duration_s": rep.DurationS, "renders": rep.Renders, "registers": rep.Registers})
	se := stderr.String()
	if strings.Contains(se, "DATA RACE") {
		res.OracleFails++
		i := strings.Index(se, "WARNING: DATA RACE")
		res.AddViolation(&Violation{Kind: "failing-input", Class: "race:data-race", What: "the Go race detector reports a data race during concurrent renders and re-registrations: " + firstLines(se[i:], 14),
			Replay: map[string]any{"race_report": tail(se[i:], 6000), "duration": dur, "seed": o.Seed}})
	} else if strings.Contains(se, "panic:") || strings.Contains(se, "fatal error:") {
		res.OracleFails++
		res.AddViolation(&Violation{Kind: "failing-input", Class: "race:crash", What: "the engine crashed under concurrent renders and re-registrations: " + firstLines(se, 10), Replay: map[string]any{"stderr": tail(se, 6000)}})
	}
	if rep.Stuck != "" {
		res.OracleFails++
		what := rep.Stuck
		if i := strings.Index(what, "goroutines:"); i > 0 {
			what = what[:i]
		}
		res.AddViolation(&Violation{Kind: "failing-input", Class: "race:stuck", What: "concurrent renders and re-registrations blocked one another for good: " + what,
			Replay: map[string]any{"stuck": tail(rep.Stuck, 20000), "duration": dur, "seed": o.Seed}})
	}
	for _, b := range rep.Bad {
		res.OracleFails++
		res.AddViolation(&Violation{Kind: "failing-input", Class: "race:mixed-output", What: b, Replay: map[string]any{"observations": rep.Bad}})
	}
	for _, b := range rep.Stale {
		res.OracleFails++
		res.AddViolation(&Violation{Kind: "failing-input", Class: "race:stale-version", What: b, Replay: map[string]any{"observations": rep.Stale}})
	}
	for _, b := range rep.Errors {
		res.OracleFails++
		res.AddViolation(&Violation{Kind: "failing-input", Class: "race:render-error", What: "a concurrent render failed: " + b, Replay: map[string]any{"errors": rep.Errors}})
	}
	res.Rule = "12 renderers (pooled contexts, three shared templates with a counter loop, a range loop, a condition, a JSON-escaped print and an include) x 4 writers (one per name) that Parse and re-register ever newer versions of the same names and of the included template, GOMAXPROCS stepped through 1,2,4,16, injected Gosched; every render must parse as the output of one version of its template plus one version of the included one, must carry its own renderer's data, and must not be older than what was published before its lookup began; built with -race; evaluations = renders, distinct_nontrivial = distinct (template, version) outputs observed"
	res.WriteReplays(o.Verif+"/evidence/replays", "C06")
	return res
}

func firstLines(s string, n int) string {
	ls := strings.Split(s, "\n")
	if len(ls) > n {
		ls = ls[:n]
	}
	return strings.Join(ls, " | ")
}
