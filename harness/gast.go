package main

import (
	"fmt"
	"strings"
)

// Gallina terms of the generator's AST (Spec/Ast.v) and of the reference environment.

func gOpStr(op string) string {
	switch op {
	case "==":
		return "OpEq"
	case "!=":
		return "OpNq"
	case ">":
		return "OpGt"
	case ">=":
		return "OpGtq"
	case "<":
		return "OpLt"
	case "<=":
		return "OpLtq"
	case "++":
		return "OpInc"
	case "--":
		return "OpDec"
	}
	return "OpUnk"
}

func gACond(c *ACond) string {
	if c == nil {
		return "no_cond"
	}
	if c.Helper != "" {
		return fmt.Sprintf("(mkACond [] %s false true %s %s %s)", gBytes([]byte(c.R)), gOpStr(c.Op), gBytes([]byte(c.Helper)), gBytes([]byte(c.HArg)))
	}
	return fmt.Sprintf("(mkACond %s %s %s %s %s [] [])", gBytes([]byte(c.L)), gBytes([]byte(c.R)), gBool(c.LLit), gBool(c.RLit), gOpStr(c.Op))
}

func gAMods(ms []AMod) string {
	var items []string
	for _, m := range ms {
		var as []string
		for _, a := range m.Args {
			as = append(as, fmt.Sprintf("mkAArg %s %s %s", gBool(a.Lit), gBytes([]byte(a.Text)), gBytes([]byte(a.KVName))))
		}
		items = append(items, fmt.Sprintf("mkAMod %s %s", gBytes([]byte(m.Name)), gList(as)))
	}
	return gList(items)
}

func gAsts(ns []*Ast) string {
	var items []string
	for _, n := range ns {
		items = append(items, gAst(n))
	}
	return gList(items)
}

func gAst(a *Ast) string {
	switch a.K {
	case "text":
		return "AText " + gBytes(a.Text)
	case "comment":
		return "AComment " + gBytes(a.Text)
	case "print":
		return fmt.Sprintf("APrint %s %s %s %s %s %s", gBytes([]byte(a.Letters)), gBytes([]byte(a.Path)), gAMods(a.Mods), gBytes([]byte(a.Pfx)), gBytes([]byte(a.Sfx)), gBool(a.RawMod))
	case "ternary":
		return fmt.Sprintf("ATernary %s %s %s", gACond(a.Cond), gBytes([]byte(a.Then[0].Path)), gBytes([]byte(a.Else[0].Path)))
	case "if":
		return fmt.Sprintf("AIf %s %s %s %s", gACond(a.Cond), gAsts(a.Then), gAsts(a.Else), gBool(a.HasElse))
	case "ifok":
		return fmt.Sprintf("AIfOK %s %s %s %s %s %s %s %s", gBytes([]byte(a.CtxVar)), gBytes([]byte(a.CtxOK)), gBytes([]byte(a.CtxSrc)), gBool(a.CtxLit), gBool(a.Neg),
			gAsts(a.Then), gAsts(a.Else), gBool(a.HasElse))
	case "switch":
		var cs []string
		for i := range a.Cases {
			c := &a.Cases[i]
			cs = append(cs, fmt.Sprintf("ACase %s %s", gACond(&c.Cond), gAsts(c.Body)))
		}
		return fmt.Sprintf("ASwitch %s %s %s %s", gBytes([]byte(a.SwArg)), gList(cs), gAsts(a.Default), gBool(a.HasDefault))
	case "cloop":
		return fmt.Sprintf("ACLoop %s %s %s %s %s %s %s %s %s %s %s", gBytes([]byte(a.Var)), gBytes([]byte(a.Init)), gBytes([]byte(a.Lim)), gBool(a.InitLit), gBool(a.LimLit),
			gOpStr(a.Op), gOpStr(a.Step), gBytes([]byte(a.Sep)), gAsts(a.Body), gAsts(a.Else), gBool(a.HasElse))
	case "rloop":
		return fmt.Sprintf("ARLoop %s %s %s %s %s %s %s", gBytes([]byte(a.Key)), gBytes([]byte(a.Var)), gBytes([]byte(a.Src)), gBytes([]byte(a.Sep)), gAsts(a.Body), gAsts(a.Else), gBool(a.HasElse))
	case "break", "lazybreak":
		return fmt.Sprintf("ABreak %s %s %s %s", gBool(a.K == "lazybreak"), gZ(int64(a.N)), gBool(a.Cond != nil), gACond(a.Cond))
	case "continue":
		return fmt.Sprintf("AContinue %s %s", gBool(a.Cond != nil), gACond(a.Cond))
	case "ctx":
		return fmt.Sprintf("ACtx %s %s %s %s %s", gBytes([]byte(a.CtxVar)), gBytes([]byte(a.CtxSrc)), gBytes([]byte(a.CtxOK)), gBool(a.CtxLit), gAMods(a.CtxMods))
	case "counter":
		switch a.CntOp {
		case "=":
			return fmt.Sprintf("ACounter %s true OpUnk %s", gBytes([]byte(a.Var)), gZ(int64(a.CntArg)))
		case "++":
			return fmt.Sprintf("ACounter %s false OpInc 1%%Z", gBytes([]byte(a.Var)))
		case "--":
			return fmt.Sprintf("ACounter %s false OpDec 1%%Z", gBytes([]byte(a.Var)))
		case "+":
			return fmt.Sprintf("ACounter %s false OpInc %s", gBytes([]byte(a.Var)), gZ(int64(a.CntArg)))
		default:
			return fmt.Sprintf("ACounter %s false OpDec %s", gBytes([]byte(a.Var)), gZ(int64(a.CntArg)))
		}
	case "include":
		var ns []string
		for _, n := range a.Names {
			ns = append(ns, gBytes([]byte(n)))
		}
		return "AInclude " + gList(ns)
	case "exit":
		return "AExit"
	case "region":
		f := map[string]string{"jsonquote": "FJson", "htmlescape": "FHtml", "urlencode": "FUrl"}[a.Region]
		return fmt.Sprintf("ARegion %s %s", f, gAsts(a.Body))
	}
	panic("gAst " + a.K)
}

// Env renders the reference environment: name -> (value, static?).
func (d *DataEnv) Env() string {
	var es []string
	if d.User.Present {
		es = append(es, fmt.Sprintf("(#\"%x\", mkEntry (%s) false)", "user", d.User.gallina()))
	}
	for i := range d.Statics {
		v := &d.Statics[i]
		val := "VNil"
		switch v.Kind {
		case "int", "int64", "int8", "counter":
			val = "(VInt " + gZ(v.I) + ")"
		case "uint", "uint32":
			val = "(VUint " + gZu(v.U) + ")"
		case "float":
			val = gFloat(v.F)
		case "bool":
			val = "(VBool " + gBool(v.B) + ")"
		case "string":
			val = "(VStr " + gBytes(v.S) + ")"
		case "bytes":
			val = "(VBytes " + gBytes(v.S) + ")"
		case "setbytes", "setstring":
			if len(v.S) > 0 {
				val = "(VBytes " + gBytes(v.S) + ")"
			}
		}
		es = append(es, fmt.Sprintf("(%s, mkEntry %s true)", gBytes([]byte(v.Name)), val))
	}
	return gList(es)
}

func (ic *interpCase) specGallina() string {
	vc := ic.vc
	var sb strings.Builder
	fmt.Fprintf(&sb, "Definition s%d : scase := mkSCase\n  %s\n", vc.ID, gAsts(specView(ic.ast, vc.KeepFmt)))
	var regs []string
	for i, k := range vc.RegKeys {
		regs = append(regs, fmt.Sprintf("(%s, %s)", gBytes([]byte(k)), gAsts(specView(ic.incs[ic.incIdx[i]], false))))
	}
	fmt.Fprintf(&sb, "  %s\n  %s\n", gList(regs), vc.Data.Env())
	var fl []string
	for k, f := range vc.Flits {
		fl = append(fl, fmt.Sprintf("(%s, %d%%Z)", gBytes([]byte(k)), float64bits(f)))
	}
	r := vc.Runs[0]
	fmt.Fprintf(&sb, "  %s %s %s %d%%N.\n", gList(fl), gNat(vc.Budget), gBytes(r.Obs.Out), errCode(r.Obs))
	return sb.String()
}
