package main

// Interpreter-level properties: one correspondence runner, one generator profile per property.

const corrInterp = "correspondence render/write_node (Model/Interp.v) vs dyntpl.go, ctx.go, cloop.go, rloop.go"

var profiles = map[string]*Profile{
	"C01": {Name: "items", MaxDepth: 1, MaxItems: 10, PfxSfx: true, KeepFmt: true, Comments: true, LongVals: 6,
		W: map[string]int{"text": 5, "print": 7, "comment": 2, "marker": 1}},
	"C02": {Name: "conditions", MaxDepth: 3, MaxItems: 5, CondHist: true,
		W: map[string]int{"text": 1, "marker": 1, "print": 1, "if": 8, "ternary": 2, "switch": 4, "ifok": 2, "ctx": 2, "dyncond": 2, "ctxcmp": 2, "cloop": 2}},
	"C03": {Name: "loops", MaxDepth: 3, MaxItems: 4, Includes: true, BreakN: true,
		W: map[string]int{"text": 3, "marker": 2, "print": 4, "cloop": 5, "rloop": 5, "if": 1, "pastprint": 2, "include": 1, "break": 1, "lazybreak": 1, "continue": 1}},
	"C11": {Name: "letters-and-chains", MaxDepth: 1, MaxItems: 5, Letters: true, Mods: true, PfxSfx: true, LongVals: 8,
		W: map[string]int{"text": 1, "print": 9, "ctx": 2, "dynprint": 2, "qempty": 1, "lettersrun": 2}},
	"C14": {Name: "loop-control", MaxDepth: 4, MaxItems: 3, BreakN: true, Includes: true,
		W: map[string]int{"marker": 3, "print": 1, "cloop": 5, "rloop": 4, "if": 2, "break": 3, "lazybreak": 3, "continue": 2, "ifok": 2, "include": 2}},
	"C15": {Name: "variables", MaxDepth: 2, MaxItems: 8, Mods: true, OKFlags: true, LongVals: 8, Includes: true,
		W: map[string]int{"marker": 1, "print": 4, "ctx": 5, "counter": 4, "if": 2, "cloop": 3, "rloop": 1, "dynprint": 6, "dyncond": 4, "ifok": 2, "pastprint": 2, "ctxcmp": 1, "include": 1, "okself": 1}},
	"C16": {Name: "include-exit", MaxDepth: 3, MaxItems: 5, Includes: true, Regions: true,
		W: map[string]int{"marker": 3, "print": 2, "include": 5, "exit": 2, "if": 2, "switch": 1, "cloop": 2, "rloop": 2, "region": 1, "ctx": 1, "ifok": 2}},
	"C17": {Name: "all-constructs-with-faults", MaxDepth: 3, MaxItems: 4, Includes: true, Regions: true, PfxSfx: true, Letters: true, Faults: true, BreakN: true, Mods: true, Effects: true, LongVals: 4,
		W: map[string]int{"text": 2, "marker": 2, "print": 4, "if": 2, "switch": 1, "cloop": 2, "rloop": 2, "include": 2, "region": 1, "exit": 1, "break": 1, "continue": 1, "ctx": 1, "counter": 1, "ifok": 2, "lazybreak": 1}},
	"REGION": {Name: "regions", MaxDepth: 3, MaxItems: 5, Regions: true, Letters: true, PfxSfx: true, Mods: true, Includes: true, LongVals: 10,
		W: map[string]int{"text": 4, "print": 6, "region": 5, "if": 1, "cloop": 1, "include": 1}},
	"ALL": {Name: "everything", MaxDepth: 3, MaxItems: 5, Includes: true, Regions: true, PfxSfx: true, Letters: true, Mods: true, BreakN: true, KeepFmt: true, Comments: true, LongVals: 6,
		W: map[string]int{"text": 2, "marker": 2, "comment": 1, "print": 5, "if": 3, "ternary": 1, "switch": 2, "cloop": 3, "rloop": 3, "include": 2, "region": 2, "exit": 1,
			"break": 2, "lazybreak": 2, "continue": 2, "ctx": 2, "counter": 2, "dynprint": 2, "dyncond": 1, "ifok": 1, "pastprint": 1}},
}

func regionProfile(kind string) *Profile {
	return &Profile{Name: "region-" + kind, MaxDepth: 3, MaxItems: 5, Regions: true, RegionKind: kind, Letters: true, PfxSfx: true, Mods: true, Includes: true, LongVals: 15,
		W: map[string]int{"text": 4, "print": 6, "region": 6, "if": 1, "cloop": 1, "rloop": 1, "include": 1}}
}

// mergeResults adds the counts, histogram and violations of b into a.
func mergeResults(a, b *Result) *Result {
	if b.InfraError != "" && a.InfraError == "" {
		a.InfraError = b.InfraError
	}
	a.Evaluations += b.Evaluations
	a.Nontrivial += b.Nontrivial
	a.ModelEvals += b.ModelEvals
	a.Mismatches += b.Mismatches
	a.OracleFails += b.OracleFails
	for k, v := range b.Histogram {
		a.Histogram["region-stream/"+k] += v
	}
	a.Samples = append(a.Samples, b.Samples...)
	a.Notes = append(a.Notes, b.Notes...)
	for _, v := range b.Violations {
		a.AddViolation(v)
	}
	a.Rule += " || region stream: " + b.Rule
	return a
}

func init() {
	for _, p := range []string{"C14", "ALL", "REGION", "C11", "C15"} {
		p := p
		runners[p] = func(o *Options) *Result {
			return runInterp(o, p, profiles[p], 300, 6000, corrInterp)
		}
	}
	runners["C01"] = func(o *Options) *Result {
		res := runInterp(o, "C01", profiles["C01"], 300, 6000, corrInterp)
		if res.InfraError != "" || o.Replay != "" {
			return res
		}
		n := 1500
		if o.Tier == "thorough" {
			n = 40000
		}
		if err := runPreproc(o, res, NewRNG(o.Seed+101), n); err != nil {
			res.InfraError = err.Error()
		}
		res.Rule += " || source clean-up: generated sources built from comment brackets, '#', braces, line breaks, tabs, blanks, \\r \\f \\v and tags, under both keep-format settings; the parser's cutComments/cutFmt (VerifPreprocess hook) against Model/Preproc.v byte for byte"
		res.WriteReplays(o.Verif+"/evidence/replays", "C01")
		return res
	}
	runners["C02"] = func(o *Options) *Result {
		res := runInterp(o, "C02", profiles["C02"], 300, 6000, corrInterp)
		if res.InfraError != "" || o.Replay != "" {
			return res
		}
		n := 300
		if o.Tier == "thorough" {
			n = 8000
		}
		runSwitchForms(res, NewRNG(o.Seed+202), n)
		runHelperIndependence(res)
		res.Rule += " || forms of the switch: the default branch first, in the middle or last among 2-5 cases, several equal cases, number and text arguments, on a new and a reset context, against the branch computed from the template"
		res.WriteReplays(o.Verif+"/evidence/replays", "C02")
		return res
	}
	runners["C16"] = func(o *Options) *Result {
		res := runInterp(o, "C16", profiles["C16"], 300, 6000, corrInterp)
		if res.InfraError != "" || o.Replay != "" {
			return res
		}
		// the same templates as histories on one context (renders that fail inside an include or
		// end through exit, then further renders with and without Reset), against the model
		hres := runHistProp(o, "C16", profiles["C16"], 40, 400, func(h *history, res *Result, o *Options) {})
		return mergeResults(res, hres)
	}
	runners["C03"] = func(o *Options) *Result {
		res := runInterp(o, "C03", profiles["C03"], 300, 6000, corrInterp)
		if res.InfraError != "" || o.Replay != "" {
			return res
		}
		n := 200
		if o.Tier == "thorough" {
			n = 5000
		}
		runCollections(res, NewRNG(o.Seed+303), n)
		res.Rule += " || collections of other kinds: slices of numbers (also a named slice type), of structs, of pointers to structs and of strings, 0 to 5 elements, with and without key, separator and else, on a new and on a reset context, against the text computed from the data"
		res.WriteReplays(o.Verif+"/evidence/replays", "C03")
		return res
	}
	runners["C17"] = func(o *Options) *Result {
		return runInterp(o, "C17", profiles["C17"], 60, 1200, corrInterp)
	}
}
