// Command racecmd: schedule exploration for C06 on the real engine, built with -race.
// N renderers (pooled contexts, shared templates with loops and includes) run against M writers
// that Parse and re-register new versions of the same names. Every render must equal the
// sequential output of ONE version of its template (and one version of the included one), and
// must not be older than the version published before its lookup started.
package main

import (
	"bytes"
	"encoding/json"
	"flag"
	"fmt"
	"os"
	"regexp"
	"runtime"
	"strconv"
	"sync"
	"sync/atomic"
	"time"

	"github.com/koykov/dyntpl"
	"github.com/koykov/inspector/testobj"
	"github.com/koykov/inspector/testobj_ins"
)

var names = []string{"page0", "page1", "page2"}

var flipN atomic.Int64

func mainSrc(n string, v int) []byte {
	return []byte(fmt.Sprintf("M%d<%s>{%% for i := 0; i < 3; i++ sep , %%}{%%= i %%}:{%%= user.Id %%}{%% endfor %%}|{%% include part missing %%}|{%% . missing part %%}|{%% for _, h := range user.Finance.History %%}{%%= h.Cost %%};{%% endfor %%}|{%% urlencode %%}a b&c=1{%% endurlencode %%}|{%% htmlescape %%}<b>T&J</b>{%% endhtmlescape %%}|{%% jsonquote %%}say \"hi\"{%% endjsonquote %%}|{%% urlencode %%}x y{%% endurlencode %%}E%d", v, n, v))
}
func partSrc(v int) []byte {
	return []byte(fmt.Sprintf("P%d({%%j= user.Name %%}{%% if user.Status == 7 %%}seven{%% else %%}other{%% endif %%})Q%d", v, v))
}

var reOut = regexp.MustCompile(`^M(\d+)<(page\d)>0:(\w+),1:(\w+),2:(\w+)\|P(\d+)\((\w+)(seven|other)\)Q(\d+)\|P\d+\(\w+(?:seven|other)\)Q\d+\|1;2\.5;\|a\+b%26c%3D1\|&lt;b&gt;T&amp;J&lt;/b&gt;\|say \\"hi\\"\|x\+yE(\d+)$`)

type result struct {
	Renders     int64    `json:"renders"`
	Registers   int64    `json:"registers"`
	Bad         []string `json:"bad"`
	Stale       []string `json:"stale"`
	Errors      []string `json:"errors"`
	MaxProcs    []int    `json:"gomaxprocs"`
	Versions    int64    `json:"versions_seen"`
	DurationSec float64  `json:"duration_s"`
	Stuck       string   `json:"stuck"`
}

func main() {
	dur := flag.Duration("d", 4*time.Second, "duration")
	seed := flag.Int64("seed", 1, "seed")
	flag.Parse()
	var ins testobj_ins.TestObjectInspector
	published := make([]atomic.Int64, len(names))
	var partPublished atomic.Int64
	reg := func(i, v int) {
		t, err := dyntpl.Parse(mainSrc(names[i], v), false)
		if err != nil {
			panic(err)
		}
		dyntpl.RegisterTplKey(names[i], t)
		published[i].Store(int64(v))
	}
	regPart := func(v int) {
		t, err := dyntpl.Parse(partSrc(v), false)
		if err != nil {
			panic(err)
		}
		dyntpl.RegisterTplKey("part", t)
		partPublished.Store(int64(v))
	}
	regPart(1)
	for i := range names {
		reg(i, 1)
	}
	res := &result{}
	var mu sync.Mutex
	note := func(l *[]string, s string) {
		mu.Lock()
		if len(*l) < 5 {
			*l = append(*l, s)
		}
		mu.Unlock()
	}
	stop := make(chan struct{})
	var wg sync.WaitGroup
	procs := []int{1, 2, 4, 16}
	res.MaxProcs = procs
	seen := sync.Map{}
	// renderers
	for r := 0; r < 12; r++ {
		wg.Add(1)
		go func(r int) {
			defer wg.Done()
			u := &testobj.TestObject{Id: fmt.Sprintf("u%d", r), Name: []byte(fmt.Sprintf("n%d", r)), Status: int32(7 * (r % 2)),
				Finance: &testobj.TestFinance{History: []testobj.TestHistory{{Cost: 1}, {Cost: 2.5}}}}
			var buf bytes.Buffer
			k := r
			for {
				select {
				case <-stop:
					return
				default:
				}
				k++
				i := k % len(names)
				minV := published[i].Load()
				minP := partPublished.Load()
				if k%5 == 0 {
					runtime.Gosched()
				}
				ctx := dyntpl.AcquireCtx()
				ctx.Set("user", u, ins)
				buf.Reset()
				var err error
				if k%4 == 0 {
					err = dyntpl.WriteFallback(&buf, "no-such-template", names[i], ctx)
				} else {
					err = dyntpl.Write(&buf, names[i], ctx)
				}
				out := buf.String()
				dyntpl.ReleaseCtx(ctx)
				atomic.AddInt64(&res.Renders, 1)
				if err != nil {
					note(&res.Errors, err.Error())
					continue
				}
				m := reOut.FindStringSubmatch(out)
				ok := m != nil && m[1] == m[10] && m[2] == names[i] && m[3] == u.Id && m[4] == u.Id && m[5] == u.Id && m[6] == m[9] && m[7] == string(u.Name) &&
					((u.Status == 7) == (m[8] == "seven"))
				if !ok {
					note(&res.Bad, fmt.Sprintf("render of %s by renderer %d (Id %s): %q is not the output of any single version", names[i], r, u.Id, out))
					continue
				}
				v, _ := strconv.ParseInt(m[1], 10, 64)
				p, _ := strconv.ParseInt(m[6], 10, 64)
				seen.Store(out[:8], true)
				if v < minV || p < minP {
					note(&res.Stale, fmt.Sprintf("render of %s shows version %d/part %d although %d/%d had been published before the lookup started", names[i], v, p, minV, minP))
				}
			}
		}(r)
	}
	// writers
	for w := 0; w < 4; w++ {
		wg.Add(1)
		go func(w int) {
			defer wg.Done()
			v := 1
			for {
				select {
				case <-stop:
					return
				default:
				}
				v++
				// every name has exactly one writer, so its versions only grow
				if w == 0 {
					regPart(v)
				} else {
					reg(w-1, v)
				}
				atomic.AddInt64(&res.Registers, 1)
				if v%4 == 0 {
					runtime.Gosched()
				} else if v%7 == 0 {
					time.Sleep(50 * time.Microsecond)
				}
			}
		}(w)
	}
	// a name that is flipped between two fixed sources, re-parsed every time (restoring an earlier
	// source must give that source's tree): its only writer renders it right after each
	// registration and must see the version just registered; two more renderers must see one of the two
	flipSrc := [2]string{"FA<{% for i := 0; i < 3; i++ sep , %}{%= i %}{% endfor %}>fa", "FB[{%= user.Id %}]fb"}
	flipOut := func(k int, id string) string {
		if k == 0 {
			return "FA<0,1,2>fa"
		}
		return "FB[" + id + "]fb"
	}
	regFlip := func(k int) {
		t, err := dyntpl.Parse([]byte(flipSrc[k]), false)
		if err != nil {
			panic(err)
		}
		// the name is known by key first; every third registration also gives it an ID
		if flipN.Add(1)%3 == 0 {
			dyntpl.RegisterTpl(7077, "flip", t)
		} else {
			dyntpl.RegisterTplKey("flip", t)
		}
	}
	regFlip(0)
	wg.Add(1)
	go func() {
		defer wg.Done()
		u := &testobj.TestObject{Id: "w"}
		var buf bytes.Buffer
		for k := 1; ; k++ {
			select {
			case <-stop:
				return
			default:
			}
			regFlip(k % 2)
			atomic.AddInt64(&res.Registers, 1)
			ctx := dyntpl.AcquireCtx()
			ctx.Set("user", u, ins)
			buf.Reset()
			var err error
			if flipN.Load() >= 3 && k%2 == 0 {
				err = dyntpl.WriteByID(&buf, 7077, ctx) // registered under the ID as well by now
			} else {
				err = dyntpl.Write(&buf, "flip", ctx)
			}
			dyntpl.ReleaseCtx(ctx)
			if err != nil {
				note(&res.Errors, err.Error())
			} else if buf.String() != flipOut(k%2, "w") {
				note(&res.Stale, fmt.Sprintf("after RegisterTplKey(flip, Parse(source %d)) returned, its writer's own render shows %q", k%2, buf.String()))
			}
			if k%3 == 0 {
				runtime.Gosched()
			}
		}
	}()
	for r := 0; r < 2; r++ {
		wg.Add(1)
		go func(r int) {
			defer wg.Done()
			id := fmt.Sprintf("f%d", r)
			u := &testobj.TestObject{Id: id}
			var buf bytes.Buffer
			for {
				select {
				case <-stop:
					return
				default:
				}
				ctx := dyntpl.AcquireCtx()
				ctx.Set("user", u, ins)
				buf.Reset()
				err := dyntpl.Write(&buf, "flip", ctx)
				dyntpl.ReleaseCtx(ctx)
				atomic.AddInt64(&res.Renders, 1)
				if err != nil {
					note(&res.Errors, err.Error())
				} else if out := buf.String(); out != flipOut(0, id) && out != flipOut(1, id) {
					note(&res.Bad, fmt.Sprintf("render of flip (Id %s): %q is not the output of either registered version", id, out))
				}
			}
		}(r)
	}
	// vary GOMAXPROCS while the workers run
	start := time.Now()
	_ = seed
	slice := *dur / time.Duration(len(procs))
	for _, p := range procs {
		runtime.GOMAXPROCS(p)
		time.Sleep(slice)
	}
	close(stop)
	// liveness: every worker finishes its current render or registration and leaves.  Workers that
	// do not come back within ten seconds are blocked inside the engine (a lock order, a lock taken
	// twice): that is reported, with the stacks, instead of waiting for ever.
	done := make(chan struct{})
	go func() { wg.Wait(); close(done) }()
	select {
	case <-done:
	case <-time.After(10 * time.Second):
		stacks := make([]byte, 1<<20)
		stacks = stacks[:runtime.Stack(stacks, true)]
		res.Stuck = fmt.Sprintf("renderers and writers were told to stop after %d renders and %d registrations, and some never returned from the engine; goroutines:\n%s",
			atomic.LoadInt64(&res.Renders), atomic.LoadInt64(&res.Registers), stacks)
		res.DurationSec = time.Since(start).Seconds()
		b, _ := json.Marshal(res)
		fmt.Println(string(b))
		os.Exit(3)
	}
	res.DurationSec = time.Since(start).Seconds()
	seen.Range(func(_, _ any) bool { res.Versions++; return true })
	b, _ := json.Marshal(res)
	fmt.Println(string(b))
	if len(res.Bad)+len(res.Stale) > 0 {
		os.Exit(3)
	}
}
