package main

import (
	"bytes"
	"encoding/hex"
	"fmt"
	"math"
	"strings"
	"sync/atomic"

	"github.com/koykov/dyntpl"
	"github.com/koykov/inspector/testobj"
	"github.com/koykov/inspector/testobj_ins"
)

// An escape form: how the escaper under test is reached from template text.
type EscForm struct {
	Name   string // e.g. "u", "uu", "|urlEncode", "region-raw"
	Tpl    string // template with the variable v (empty for region-raw)
	Fn     int    // model function id
	Itr    int    // model iteration count
	Region string // region keyword for raw-text forms
	MaxIn  int    // > 0: only inputs up to this length (forms whose output grows geometrically)
	MinIn  int    // > 0: only inputs of at least this length
}

// longRuns derives, for every letter that has a doubled form ("hh" beside "h"), the runs of 10 and
// 11 letters (a two-digit repeat count), restricted to very short inputs.
func longRuns(forms []EscForm) []EscForm {
	out := append([]EscForm(nil), forms...)
	for _, f := range forms {
		if len(f.Name) != 2 || f.Name[0] != f.Name[1] || f.Itr != 2 || f.Name[0] == 'c' || f.Name[0] == 'a' {
			continue
		}
		for _, n := range []int{10, 11} {
			rep := strings.Repeat(f.Name[:1], n)
			out = append(out, EscForm{Name: rep, Tpl: "{%" + rep + "= $V %}", Fn: f.Fn, Itr: n, MaxIn: 2})
		}
	}
	return out
}

var tplCache = map[string]string{}

// tplKey registers (once) the template text and returns its key.
func tplKey(src string, keepFmt bool) (string, Obs) {
	ck := fmt.Sprintf("%v|%s", keepFmt, src)
	if k, ok := tplCache[ck]; ok {
		return k, Obs{}
	}
	k, o := ParseReg([]byte(src), keepFmt)
	if o.ErrClass() == "OK" {
		tplCache[ck] = k
	}
	return k, o
}

var carriers = []string{"SetBytes", "SetString", "Static*bytes", "Static*string", "user.Id", "user.Name"}

var userIns testobj_ins.TestObjectInspector

// ctxWith builds a context in which variable v (or user.Id / user.Name) holds s.
// It returns the path to print.
func ctxWith(ctx *dyntpl.Ctx, carrier string, s []byte) string {
	switch carrier {
	case "SetBytes":
		ctx.SetBytes("v", s)
		return "v"
	case "SetString":
		ctx.SetString("v", string(s))
		return "v"
	case "Static*bytes":
		b := append([]byte(nil), s...)
		ctx.SetStatic("v", &b)
		return "v"
	case "Static*string":
		str := string(s)
		ctx.SetStatic("v", &str)
		return "v"
	case "user.Id":
		u := &testobj.TestObject{Id: string(s)}
		ctx.Set("user", u, userIns)
		return "user.Id"
	case "user.Name":
		u := &testobj.TestObject{Name: append([]byte(nil), s...)}
		ctx.Set("user", u, userIns)
		return "user.Name"
	}
	if strings.HasPrefix(carrier, "num#") {
		var i int
		fmt.Sscanf(carrier, "num#%d", &i)
		numCarriersEsc[i].set(ctx)
		return "v"
	}
	panic("carrier")
}

// numeric carriers: values of number kinds reach the escapers too (their text may hold '-', '+',
// '.', letters: -3, +Inf, NaN, 1e+21); the escaper must treat that text like any other
type numCarrierEsc struct {
	name string
	set  func(ctx *dyntpl.Ctx)
}

var numCarriersEsc = func() []numCarrierEsc {
	var out []numCarrierEsc
	add := func(name string, v any) {
		out = append(out, numCarrierEsc{name, func(ctx *dyntpl.Ctx) { ctx.SetStatic("v", v) }})
	}
	i, i8, i32, i64 := int(-3), int8(-128), int32(-15), int64(math.MinInt64)
	u, u16 := uint(7), uint16(65535)
	pinf, ninf, nan, nz, big, frac := math.Inf(1), math.Inf(-1), math.NaN(), math.Copysign(0, -1), 1e21, -2.5
	f32 := float32(-0.5)
	add("int", i)
	add("*int", &i)
	add("int8", i8)
	add("*int32", &i32)
	add("*int64", &i64)
	add("uint", u)
	add("*uint16", &u16)
	add("float64:+Inf", pinf)
	add("*float64:+Inf", &pinf)
	add("*float64:-Inf", &ninf)
	add("*float64:NaN", &nan)
	add("float64:-0", nz)
	add("*float64:1e21", &big)
	add("float64:-2.5", frac)
	add("*float32:-0.5", &f32)
	add("bool", true)
	out = append(out, numCarrierEsc{"counter:-3", func(ctx *dyntpl.Ctx) { ctx.SetCounter("v", -3) }})
	return out
}()

// numText: what a bare print shows for numeric carrier i (the text the escaper receives).
func numText(i int) ([]byte, bool) {
	ctx := dyntpl.NewCtx()
	numCarriersEsc[i].set(ctx)
	key, po := tplKey("{%= v %}", false)
	if po.ErrClass() != "OK" {
		return nil, false
	}
	o := Render(key, ctx)
	return o.Out, o.ErrClass() == "OK"
}

// escCtx hands out a new context, and every eighth time one that has left a bound tag through exit
// (and run escape modifiers) before a Reset: escaping depends on the value alone, not on what the
// context rendered before.
var (
	escCtxN     int64
	escDirtyKey []string
	escDirtyTpl = []string{`{% jsonquote %}"{%= x %}{% exit %}"{% endjsonquote %}`, `{% htmlescape %}<{%= x %}{% exit %}>{% endhtmlescape %}`,
		`{% urlencode %}a b{%= x %}{% exit %}{% endurlencode %}`, `{%h= x %}{%q= x %}{%u= x %}{%J= x %}{%c= x %}{%a= x %}{% jsonquote %}{% for i := 0; i < 2; i++ %}{% exit %}{% endfor %}`}
)

func escCtx() (*dyntpl.Ctx, string) {
	n := atomic.AddInt64(&escCtxN, 1)
	if n%8 != 0 {
		return dyntpl.NewCtx(), ""
	}
	if escDirtyKey == nil {
		for _, t := range escDirtyTpl {
			k, _ := tplKey(t, false)
			escDirtyKey = append(escDirtyKey, k)
		}
	}
	k := int(n/8) % len(escDirtyKey)
	ctx := dyntpl.NewCtx()
	ctx.SetStatic("x", `<"q" &'é>`)
	_ = Render(escDirtyKey[k], ctx)
	ctx.Reset()
	return ctx, " [on a context that rendered " + escDirtyTpl[k] + " and was Reset]"
}

// renderForm renders one escape form on input s.
func renderForm(f EscForm, carrier string, s []byte) (Obs, string) {
	ctx, note := escCtx()
	var src string
	keep := false
	if f.Region != "" {
		src = "{% " + f.Region + " %}" + string(s) + "{% end" + f.Region + " %}"
		keep = true
	} else {
		path := ctxWith(ctx, carrier, s)
		src = strings.ReplaceAll(f.Tpl, "$V", path)
	}
	key, po := tplKey(src, keep)
	if po.ErrClass() != "OK" {
		return po, src
	}
	return Render(key, ctx), src + note
}

// sanitizeRaw makes random bytes usable as static template text: no tag or comment opener.
func sanitizeRaw(s []byte) []byte {
	out := bytes.ReplaceAll(s, []byte("{"), []byte("("))
	return out
}

func hx(b []byte) string { return hex.EncodeToString(b) }

// randBytes draws a byte string biased to the interesting classes of the escapers.
func randBytes(r *RNG, maxLen int) []byte {
	n := r.Intn(maxLen + 1)
	b := make([]byte, n)
	special := []byte(" \"'<>&\\/%+~-._\n\r\t\b\f\x00\x01\x1f\x7f;#=?")
	for i := range b {
		switch r.Intn(6) {
		case 0, 1:
			b[i] = special[r.Intn(len(special))]
		case 2:
			b[i] = byte(r.Intn(256))
		case 3:
			b[i] = byte('a' + r.Intn(26))
		case 4:
			b[i] = byte('0' + r.Intn(10))
		default:
			b[i] = byte(0x20 + r.Intn(0x5f))
		}
	}
	return b
}
