package main

import (
	"bytes"
	"encoding/hex"
	"fmt"
	"strings"

	"github.com/koykov/dyntpl"
	"github.com/koykov/inspector/testobj"
	"github.com/koykov/inspector/testobj_ins"
)

// An escape form: how the escaper under test is reached from template text.
type EscForm struct {
	Name   string // e.g. "u", "uu", "|urlEncode", "region-raw"
	Tpl    string // template with the variable v (empty for region-raw)
	Fn     int    // model function id
	Itr    int    // model iteration count
	Region string // region keyword for raw-text forms
	MaxIn  int    // > 0: only inputs up to this length (forms whose output grows geometrically)
}

// longRuns derives, for every letter that has a doubled form ("hh" beside "h"), the runs of 10 and
// 11 letters (a two-digit repeat count), restricted to very short inputs.
func longRuns(forms []EscForm) []EscForm {
	out := append([]EscForm(nil), forms...)
	for _, f := range forms {
		if len(f.Name) != 2 || f.Name[0] != f.Name[1] || f.Itr != 2 || f.Name[0] == 'c' || f.Name[0] == 'a' {
			continue
		}
		for _, n := range []int{10, 11} {
			rep := strings.Repeat(f.Name[:1], n)
			out = append(out, EscForm{Name: rep, Tpl: "{%" + rep + "= $V %}", Fn: f.Fn, Itr: n, MaxIn: 2})
		}
	}
	return out
}

var tplCache = map[string]string{}

// tplKey registers (once) the template text and returns its key.
func tplKey(src string, keepFmt bool) (string, Obs) {
	ck := fmt.Sprintf("%v|%s", keepFmt, src)
	if k, ok := tplCache[ck]; ok {
		return k, Obs{}
	}
	k, o := ParseReg([]byte(src), keepFmt)
	if o.ErrClass() == "OK" {
		tplCache[ck] = k
	}
	return k, o
}

var carriers = []string{"SetBytes", "SetString", "Static*bytes", "Static*string", "user.Id", "user.Name"}

var userIns testobj_ins.TestObjectInspector

// ctxWith builds a context in which variable v (or user.Id / user.Name) holds s.
// It returns the path to print.
func ctxWith(ctx *dyntpl.Ctx, carrier string, s []byte) string {
	switch carrier {
	case "SetBytes":
		ctx.SetBytes("v", s)
		return "v"
	case "SetString":
		ctx.SetString("v", string(s))
		return "v"
	case "Static*bytes":
		b := append([]byte(nil), s...)
		ctx.SetStatic("v", &b)
		return "v"
	case "Static*string":
		str := string(s)
		ctx.SetStatic("v", &str)
		return "v"
	case "user.Id":
		u := &testobj.TestObject{Id: string(s)}
		ctx.Set("user", u, userIns)
		return "user.Id"
	case "user.Name":
		u := &testobj.TestObject{Name: append([]byte(nil), s...)}
		ctx.Set("user", u, userIns)
		return "user.Name"
	}
	panic("carrier")
}

// renderForm renders one escape form on input s.
func renderForm(f EscForm, carrier string, s []byte) (Obs, string) {
	ctx := dyntpl.NewCtx()
	var src string
	keep := false
	if f.Region != "" {
		src = "{% " + f.Region + " %}" + string(s) + "{% end" + f.Region + " %}"
		keep = true
	} else {
		path := ctxWith(ctx, carrier, s)
		src = strings.ReplaceAll(f.Tpl, "$V", path)
	}
	key, po := tplKey(src, keep)
	if po.ErrClass() != "OK" {
		return po, src
	}
	return Render(key, ctx), src
}

// sanitizeRaw makes random bytes usable as static template text: no tag or comment opener.
func sanitizeRaw(s []byte) []byte {
	out := bytes.ReplaceAll(s, []byte("{"), []byte("("))
	return out
}

func hx(b []byte) string { return hex.EncodeToString(b) }

// randBytes draws a byte string biased to the interesting classes of the escapers.
func randBytes(r *RNG, maxLen int) []byte {
	n := r.Intn(maxLen + 1)
	b := make([]byte, n)
	special := []byte(" \"'<>&\\/%+~-._\n\r\t\b\f\x00\x01\x1f\x7f;#=?")
	for i := range b {
		switch r.Intn(6) {
		case 0, 1:
			b[i] = special[r.Intn(len(special))]
		case 2:
			b[i] = byte(r.Intn(256))
		case 3:
			b[i] = byte('a' + r.Intn(26))
		case 4:
			b[i] = byte('0' + r.Intn(10))
		default:
			b[i] = byte(0x20 + r.Intn(0x5f))
		}
	}
	return b
}
