package main

import (
	"fmt"
	"hash/crc64"
	"os"
	"regexp"
	"strings"
	"sync"
)

// runRegistryModel evaluates the histories in Model/Registry.v and compares observations: shards of
// 1000 histories, one coqc each, eight at a time (one file with all thorough-tier histories takes
// longer than its time limit when other checks run beside it).
func runRegistryModel(o *Options, res *Result, hists [][]regOp) error {
	const per = 1000
	nsh := (len(hists) + per - 1) / per
	if nsh <= 1 {
		return runRegistryShard(o, res, hists, 0)
	}
	errs := make([]error, nsh)
	parts := make([]*Result, nsh)
	sem := make(chan struct{}, 8)
	var wg sync.WaitGroup
	for sh := 0; sh < nsh; sh++ {
		lo, hi := sh*per, (sh+1)*per
		if hi > len(hists) {
			hi = len(hists)
		}
		wg.Add(1)
		go func(sh, lo, hi int) {
			defer wg.Done()
			sem <- struct{}{}
			defer func() { <-sem }()
			parts[sh] = NewResult()
			errs[sh] = runRegistryShard(o, parts[sh], hists[lo:hi], sh)
		}(sh, lo, hi)
	}
	wg.Wait()
	for sh := range parts {
		if errs[sh] != nil {
			return errs[sh]
		}
		res.ModelEvals += parts[sh].ModelEvals
		res.Mismatches += parts[sh].Mismatches
		res.Notes = append(res.Notes, parts[sh].Notes...)
		for _, v := range parts[sh].Violations {
			res.AddViolation(v)
		}
	}
	return nil
}

func runRegistryShard(o *Options, res *Result, hists [][]regOp, shard int) error {
	if _, err := os.Stat(o.CoqDir + "/Model/Registry.vo"); err != nil {
		res.Notes = append(res.Notes, "Model/Registry.vo not built: registry model correspondence skipped")
		return nil
	}
	var sb strings.Builder
	sb.WriteString("From DT Require Import Model.Bytes Model.VCase Model.Registry.\nLocal Open Scope list_scope.\n")
	// the checksum as a finite table over the universe of sources
	var tab []string
	srcs := append([]string(nil), c04Sources...)
	seen := map[string]bool{}
	for _, s := range srcs {
		seen[s] = true
	}
	for _, ops := range hists {
		for _, op := range ops {
			if op.Src != "" && !seen[op.Src] {
				seen[op.Src] = true
				srcs = append(srcs, op.Src)
			}
		}
	}
	for _, s := range srcs {
		tab = append(tab, fmt.Sprintf("(%s, %d%%N)", gBytes([]byte(s)), crc64.Checksum([]byte(s), crcTab)))
	}
	fmt.Fprintf(&sb, "Definition htab : list (bytes * N) := %s.\n", gList(tab))
	sb.WriteString("Definition hash (s : bytes) : N := (fix go l := match l with [] => 0%N | (k, h) :: r => if bytes_eqb k s then h else go r end) htab.\n")
	var names []string
	for i, ops := range hists {
		var os_, obs []string
		for _, op := range ops {
			if op.Kind == "parsebad" {
				continue // rejected sources never reach the registry: not an operation of the model
			}
			os_ = append(os_, gRop(op))
			obs = append(obs, gRobs(op.Obs))
		}
		fmt.Fprintf(&sb, "Definition h%d := (%s, %s).\n", i, gList(os_), gList(obs))
		names = append(names, fmt.Sprintf("h%d", i))
	}
	fmt.Fprintf(&sb, "Definition rverdicts := Eval vm_compute in map (fun h => registry_check hash (fst h) (snd h)) %s.\nPrint rverdicts.\n", gList(names))
	dir := fmt.Sprintf("%s/registry%d", o.WorkDir, shard)
	_ = os.MkdirAll(dir, 0o755)
	file := dir + "/cases.v"
	if err := os.WriteFile(file, []byte(sb.String()), 0o644); err != nil {
		return err
	}
	out, err := coqcCmd("1500", "-Q", o.CoqDir, "DT", "-Q", dir, fmt.Sprintf("RCases%d", shard), file).CombinedOutput()
	if err != nil {
		return fmt.Errorf("coqc on %s: %v\n%s", file, err, tail(string(out), 1500))
	}
	vs := regexp.MustCompile(`true|false`).FindAllString(string(out[strings.Index(string(out), "rverdicts"):]), -1)
	if len(vs) < len(hists) {
		return fmt.Errorf("registry model: %d verdicts for %d histories", len(vs), len(hists))
	}
	for i, ops := range hists {
		res.ModelEvals++
		if vs[i] != "true" {
			res.Mismatches++
			var sig []string
			for _, op := range ops {
				sig = append(sig, op.String())
			}
			res.AddViolation(&Violation{Kind: "no-failing-input-found", Class: "correspondence", Lemma: "correspondence run_ops (Model/Registry.v) vs db.go",
				What:   "the registry model and the implementation observe different results on history " + strings.Join(sig, "; "),
				Replay: map[string]any{"history": sig, "observed": obsList(ops)}})
		}
	}
	return nil
}
