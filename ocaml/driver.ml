(* Line protocol around the extracted model (E-mode).
   in :  <fn:int> <itr:int> <hex>      (hex may be "-" for the empty string)
   out:  <hex>  |  NONE                 ("-" for the empty string) *)
open Model

let rec pos_of_int (i : int) : positive =
  if i = 1 then XH
  else if i land 1 = 0 then XO (pos_of_int (i lsr 1))
  else XI (pos_of_int (i lsr 1))
let n_of_int i : n = if i = 0 then N0 else Npos (pos_of_int i)
let z_of_int i : z = if i = 0 then Z0 else if i > 0 then Zpos (pos_of_int i) else Zneg (pos_of_int (-i))
let rec int_of_pos = function XH -> 1 | XO p -> 2 * int_of_pos p | XI p -> 2 * int_of_pos p + 1
let int_of_n = function N0 -> 0 | Npos p -> int_of_pos p

let byte_tab = Array.init 256 (fun i -> match of_N (n_of_int i) with Some b -> b | None -> assert false)
let hexv c = match c with
  | '0'..'9' -> Char.code c - 48 | 'a'..'f' -> Char.code c - 87 | 'A'..'F' -> Char.code c - 55
  | _ -> failwith "bad hex"
let bytes_of_hex (h : string) =
  if h = "-" then [] else begin
    let n = String.length h / 2 in
    let rec go i acc = if i < 0 then acc else
      go (i - 1) (byte_tab.(hexv h.[2*i] * 16 + hexv h.[2*i+1]) :: acc) in
    go (n - 1) []
  end
let hex_of_bytes l =
  match l with [] -> "-" | _ ->
  let b = Buffer.create 64 in
  List.iter (fun x -> Buffer.add_string b (Printf.sprintf "%02x" (int_of_n (to_N x)))) l;
  Buffer.contents b

let () =
  try while true do
    let line = input_line stdin in
    match String.split_on_char ' ' line with
    | [fn; itr; hex] ->
      (match run_esc (n_of_int (int_of_string fn)) (z_of_int (int_of_string itr)) (bytes_of_hex hex) with
       | Some o -> print_endline (hex_of_bytes o)
       | None -> print_endline "NONE")
    | _ -> print_endline "BADLINE"
  done with End_of_file -> ()
