#!/bin/bash
# Builds the framework from files on disk only (offline): full .vo build of the Coq
# development, extraction + OCaml driver, Go harness warm-up build.
set -e
cd "$(dirname "$0")"
export GOFLAGS=-mod=mod GOPROXY=off GOSUMDB=off GOTOOLCHAIN=local
mkdir -p build work evidence/replays
( cd coq && coq_makefile -f _CoqProject -o Makefile >/dev/null && timeout 3000 make -j16 )
mkdir -p build/ocaml
( cd build/ocaml && timeout 600 coqc -Q ../../coq DT ../../coq/Extract/Extract.v \
  && cp ../../ocaml/driver.ml . && timeout 600 ocamlfind ocamlopt -O2 -w -a -o driver model.mli model.ml driver.ml )
( cd harness && cp /repo/go.sum . && go build -tags verif -o ../build/vh . && go vet -tags verif . ./racecmd )
echo "setup ok"
