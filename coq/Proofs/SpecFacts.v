(* Short facts about the reference semantics (Spec/RefEval.v), with the interpreter's counterpart
   where it is as short: index paths inside counting loops, control handed on by for-else,
   counter steps, a missing right operand, a failing modifier. *)
From Coq Require Import String.
From DT Require Import Model.Bytes Proofs.BytesFacts Model.Value Model.Tree Model.Mods Model.Interp
  Spec.Ast Spec.RefEval Spec.Compile Proofs.FlatProofs.
Local Open Scope Z_scope.

Definition Sb (s : string) : bytes := list_byte_of_string s.

(* ================================================================== 1. index paths *)

Definition b_lbr : byte := "["%byte.
Definition b_rbr : byte := "]"%byte.
Definition no_byte (b : byte) (s : bytes) : bool := forallb (fun x => negb (beqb x b)) s.

Lemma index_of_at b : forall p r i0, no_byte b p = true -> index_of b (p ++ b :: r) i0 = Some (i0 + length p)%nat.
Proof.
  induction p as [|x p IH]; intros r i0 H; cbn [app index_of length].
  - unfold beqb. rewrite (proj2 (byte_eqb_eq b b) eq_refl). f_equal. lia.
  - cbn [no_byte forallb] in H. apply andb_true_iff in H. destruct H as [H1 H2].
    destruct (beqb x b); [discriminate H1|]. rewrite (IH r (S i0) H2). f_equal. lia.
Qed.

Lemma index_of_none b : forall s i0, no_byte b s = true -> index_of b s i0 = None.
Proof.
  induction s as [|x s IH]; intros i0 H; [reflexivity|]. cbn [no_byte forallb] in H. apply andb_true_iff in H.
  destruct H as [H1 H2]. cbn [index_of]. destruct (beqb x b); [discriminate H1|]. apply IH, H2.
Qed.

Lemma no_byte_app b p q : no_byte b (p ++ q) = no_byte b p && no_byte b q.
Proof. unfold no_byte. apply forallb_app. Qed.

Lemma firstn_len {A} (p x : list A) : firstn (length p) (p ++ x) = p.
Proof. induction p as [|a p IH]; [reflexivity|]. cbn. rewrite IH. reflexivity. Qed.
Lemma skipn_len {A} (p x : list A) : skipn (length p) (p ++ x) = x.
Proof. induction p as [|a p IH]; [reflexivity|exact IH]. Qed.

(* where the first brackets of  pre[i]post  are, and what they cut out *)
Lemma bracket_shape pre i post :
  no_byte b_lbr pre = true -> no_byte b_rbr pre = true -> no_byte b_rbr i = true ->
  let path := pre ++ [b_lbr] ++ i ++ [b_rbr] ++ post in
  let l := length pre in let r := (length pre + 1 + length i)%nat in
  index_of b_lbr path 0 = Some l /\ index_of b_rbr path 0 = Some r /\ Nat.ltb l r = true /\
  firstn (r - S l) (skipn (S l) path) = i /\ firstn l path = pre /\ skipn (S r) path = post.
Proof.
  intros H1 H2 H3 path l r. unfold path, l, r. cbn [app].
  split; [rewrite (index_of_at b_lbr pre _ 0 H1); reflexivity|].
  split.
  { replace (pre ++ b_lbr :: i ++ b_rbr :: post) with ((pre ++ b_lbr :: i) ++ b_rbr :: post)
      by (rewrite <- app_assoc; reflexivity).
    rewrite index_of_at.
    - f_equal. rewrite app_length. cbn [length]. lia.
    - rewrite no_byte_app, H2. cbn [no_byte forallb andb]. change (negb (beqb b_lbr b_rbr)) with true. exact H3. }
  split; [apply Nat.ltb_lt; lia|].
  split.
  { replace (S (length pre)) with (length (pre ++ [b_lbr])) by (rewrite app_length; cbn; lia).
    replace (pre ++ b_lbr :: i ++ b_rbr :: post) with ((pre ++ [b_lbr]) ++ i ++ b_rbr :: post)
      by (rewrite <- app_assoc; reflexivity).
    rewrite skipn_len. replace (length pre + 1 + length i - length (pre ++ [b_lbr]))%nat with (length i)
      by (rewrite app_length; cbn; lia).
    apply firstn_len. }
  split; [apply firstn_len|].
  replace (S (length pre + 1 + length i)) with (length (pre ++ b_lbr :: i ++ [b_rbr]))
    by (rewrite app_length; cbn [length]; rewrite app_length; cbn; lia).
  replace (pre ++ b_lbr :: i ++ b_rbr :: post) with ((pre ++ b_lbr :: i ++ [b_rbr]) ++ post)
    by (rewrite <- app_assoc; cbn [app]; rewrite <- app_assoc; reflexivity).
  apply skipn_len.
Qed.

(* inside a counting loop  pre[i]post  reads as  pre.<text of i>post  -- one substitution, of the
   first bracket pair; the rewritten path is looked up as it stands *)
Theorem index_path_ref e pre i post v t :
  e_qb e = true ->
  no_byte b_lbr pre = true -> no_byte b_rbr pre = true -> no_byte b_rbr i = true ->
  env_get_plain e i = v -> v <> VNil -> text_of [] v = Some t ->
  env_get e (pre ++ [b_lbr] ++ i ++ [b_rbr] ++ post) =
  Some (env_get_plain e (pre ++ ["."%byte] ++ t ++ post)).
Proof.
  intros Q H1 H2 H3 Ev Hn Ht.
  destruct (bracket_shape pre i post H1 H2 H3) as (L & R & LT & IN & FI & SK). cbv zeta in *.
  unfold env_get. rewrite Q. fold b_lbr b_rbr. rewrite L, R, LT, IN, FI, SK, Ev.
  destruct v; try congruence; rewrite Ht; reflexivity.
Qed.

(* an integer index (a counter variable, the loop counter ...) *)
Corollary index_path_int e pre i post n :
  e_qb e = true ->
  no_byte b_lbr pre = true -> no_byte b_rbr pre = true -> no_byte b_rbr i = true ->
  env_get_plain e i = VInt n ->
  env_get e (pre ++ [b_lbr] ++ i ++ [b_rbr] ++ post) =
  Some (env_get_plain e (pre ++ ["."%byte] ++ print_Z n ++ post)).
Proof. intros Q H1 H2 H3 Ev. eapply index_path_ref; try eassumption; [discriminate|reflexivity]. Qed.

(* decimal text has no bracket *)
Lemma uint_no_byte b u : (b2n b <? 48)%N || (57 <? b2n b)%N = true -> no_byte b (uint_bytes u) = true.
Proof.
  intros H. induction u; cbn [uint_bytes no_byte forallb]; try reflexivity;
    fold (no_byte b (uint_bytes u)); rewrite IHu, andb_true_r;
    (destruct (beqb _ b) eqn:E; [|reflexivity]); apply byte_eqb_eq in E; subst b; discriminate H.
Qed.

Lemma print_Z_no_bracket n : no_byte b_lbr (print_Z n) = true.
Proof.
  destruct n; cbn [print_Z]; [reflexivity|apply uint_no_byte; reflexivity|].
  cbn [no_byte forallb]. fold (no_byte b_lbr (uint_bytes (Pos.to_uint p))). rewrite uint_no_byte by reflexivity. reflexivity.
Qed.

(* ... so when nothing after the index has an opening bracket, it reads exactly like the dotted path *)
Corollary index_path_int_dotted e pre i post n :
  e_qb e = true ->
  no_byte b_lbr pre = true -> no_byte b_rbr pre = true -> no_byte b_rbr i = true -> no_byte b_lbr post = true ->
  env_get_plain e i = VInt n ->
  env_get e (pre ++ [b_lbr] ++ i ++ [b_rbr] ++ post) = env_get e (pre ++ ["."%byte] ++ print_Z n ++ post).
Proof.
  intros Q H1 H2 H3 H4 Ev. rewrite (index_path_int e pre i post n Q H1 H2 H3 Ev).
  unfold env_get. rewrite Q. fold b_lbr.
  rewrite (index_of_none b_lbr (pre ++ ["."%byte] ++ print_Z n ++ post) 0); [reflexivity|].
  rewrite !no_byte_app, H1, print_Z_no_bracket, H4. reflexivity.
Qed.

(* outside counting loops the brackets are not rewritten: the path is looked up as written *)
Theorem no_index_outside_loops e path : e_qb e = false -> env_get e path = Some (env_get_plain e path).
Proof. intros Q. unfold env_get. rewrite Q. reflexivity. Qed.

(* the interpreter: Ctx.get with the index flag set by the counter loop *)
Theorem index_path_model c pre i post v t :
  chQB c = true ->
  no_byte b_lbr pre = true -> no_byte b_rbr pre = true -> no_byte b_rbr i = true ->
  gp_val c i = v -> v <> VNil -> text_of (bufLC c) v = Some t ->
  ctx_get c (pre ++ [b_lbr] ++ i ++ [b_rbr] ++ post) =
  (set_cerr None c, gp_val c (pre ++ ["."%byte] ++ t ++ post)).
Proof.
  intros Q H1 H2 H3 Ev Hn Ht.
  destruct (bracket_shape pre i post H1 H2 H3) as (L & R & LT & IN & FI & SK). cbv zeta in *.
  unfold ctx_get. rewrite Q. unfold replace_qb. fold b_lbr b_rbr. rewrite L, R, LT, IN, FI, SK.
  rewrite get_plain_eq. change (gp_val (set_cerr None c) i) with (gp_val c i). rewrite Ev.
  change (bufLC (set_cerr None (set_cerr None c))) with (bufLC c).
  destruct v; try congruence; rewrite Ht; cbn [cerr set_cerr]; rewrite get_plain_eq; reflexivity.
Qed.

Theorem no_index_outside_loops_model c path : chQB c = false -> ctx_get c path = (set_cerr None c, gp_val c path).
Proof. intros Q. unfold ctx_get. rewrite Q. apply get_plain_eq. Qed.

(* examples: users is a slice of structs; inside a counting loop with counter i = 1 *)
Definition e_users : env :=
  mkEnv [(Sb "users", mkEntry (VSlice [VStruct [(Sb "name", VStr (Sb "ann"))]; VStruct [(Sb "name", VStr (Sb "bob"))]]) false);
         (Sb "i", mkEntry (VInt 1) true)] false false false true 0.
Example index_path_example :
  env_get e_users (Sb "users[i].name") = Some (VStr (Sb "bob")) /\
  env_get e_users (Sb "users.1.name") = Some (VStr (Sb "bob")) /\
  env_get (set_eqb false e_users) (Sb "users[i].name") = Some VNil.
Proof. vm_compute. repeat split. Qed.

(* only the FIRST bracket pair is substituted: with a second index the bracketed and the dotted
   path differ (the dotted one gets the substitution the bracketed one has already used up) *)
Definition e_grid : env :=
  mkEnv [(Sb "g", mkEntry (VSlice [VSlice [VStr (Sb "a"); VStr (Sb "b")]; VSlice [VStr (Sb "c"); VStr (Sb "d")]]) false);
         (Sb "i", mkEntry (VInt 1) true); (Sb "j", mkEntry (VInt 0) true)] false false false true 0.
Definition index_path_two_brackets_full_statement : Prop :=
  forall e pre i post n, e_qb e = true ->
    no_byte b_lbr pre = true -> no_byte b_rbr pre = true -> no_byte b_rbr i = true -> env_get_plain e i = VInt n ->
    env_get e (pre ++ [b_lbr] ++ i ++ [b_rbr] ++ post) = env_get e (pre ++ ["."%byte] ++ print_Z n ++ post).
Example index_path_second_bracket :
  env_get e_grid (Sb "g[i][j]") = Some VNil /\ env_get e_grid (Sb "g.1[j]") = Some (VStr (Sb "c")).
Proof. vm_compute. split; reflexivity. Qed.
Theorem index_path_two_brackets_refuted : ~ index_path_two_brackets_full_statement.
Proof.
  intros H. specialize (H e_grid (Sb "g") (Sb "i") (Sb "[j]") 1 eq_refl eq_refl eq_refl eq_refl eq_refl).
  vm_compute in H. discriminate H.
Qed.

Definition c_users : ctx :=
  set_chQB true
    (ctx_set_counter (Sb "i") 1
       (ctx_set (Sb "users") (VSlice [VStruct [(Sb "name", VStr (Sb "ann"))]; VStruct [(Sb "name", VStr (Sb "bob"))]]) false ctx_new)).
Example index_path_model_example :
  snd (ctx_get c_users (Sb "users[i].name")) = VStr (Sb "bob") /\
  snd (ctx_get (set_chQB false c_users) (Sb "users[i].name")) = VNil.
Proof. vm_compute. split; reflexivity. Qed.

(* ================================================================== 2. for-else hands control on *)

Lemma set_ebrk_same' e : set_ebrk (e_brk e) e = e.
Proof. destruct e; reflexivity. Qed.

Theorem run_else_hands_on elsef saved e acc o e1 s :
  elsef e = (o, e1, s) -> s <> SNone -> run_else elsef true saved e acc 0 = (acc ++ o, e1, s).
Proof. intros E N. unfold run_else. rewrite E. destruct s; try reflexivity. congruence. Qed.

(* a counter loop whose bound comparison fails at once *)
Theorem cloop_no_trip_hands_on bodyf elsef saved sep var cop step limv fuel e acc cur o e1 s :
  cloop_allows cop cur limv = Some false ->
  elsef (loop_done e 0) = (o, e1, s) -> s <> SNone ->
  cloop_ref bodyf elsef true saved sep var cop step limv fuel e acc 0 cur =
  (acc ++ o, set_ebrk (Z.max (e_brk e1) saved) e1, s).
Proof.
  intros A E N.
  assert (G : (let e1' := loop_done e 0 in
               let e2 := e1' in
               let '(o', e3, s') := run_else elsef true saved (set_ebrk (e_brk e2) e2) acc 0 in
               (o', set_ebrk (Z.max (e_brk e3) saved) e3, s')) = (acc ++ o, set_ebrk (Z.max (e_brk e1) saved) e1, s)).
  { cbv zeta. rewrite set_ebrk_same', (run_else_hands_on elsef saved _ acc o e1 s E N). reflexivity. }
  destruct fuel; cbn [cloop_ref]; rewrite A; exact G.
Qed.

(* a range loop over no elements *)
Theorem rloop_no_element_hands_on bodyf elsef saved sep key val e acc o e1 s :
  elsef (loop_done e 0) = (o, e1, s) -> s <> SNone ->
  rloop_ref bodyf elsef true saved sep key val [] e acc 0 0 = (acc ++ o, set_ebrk (Z.max (e_brk e1) saved) e1, s).
Proof. intros E N. cbn [rloop_ref]. rewrite (run_else_hands_on elsef saved _ acc o e1 s E N). reflexivity. Qed.

Section SpecEval.
  Variable flits : list (bytes * Z).
  Variable rlookup : list bytes -> option (list ast).
  Variable budget : nat.
  Variable rinc : list ast -> env -> option res.
  Notation re := (ref_eval flits rlookup budget rinc).

  (* the loop items: literal or variable bounds, no trip, an else branch that ends in a signal *)
  Theorem counter_loop_else_signal var init lim il ll cop step sep body els e v0 limv o e1 s :
    bound_of (set_ebrk 0 e) il init = inl (Some v0) -> bound_of (set_ebrk 0 e) ll lim = inl (Some limv) ->
    cloop_allows cop v0 limv = Some false ->
    top_with re els (set_ebrk 0 e) [] = (o, e1, s) -> s <> SNone ->
    re (ACLoop var init lim il ll cop step sep body els true) e = (o, set_ebrk (Z.max (e_brk e1) (e_brk e)) e1, s).
  Proof.
    intros B1 B2 A E N. cbn [ref_eval]. rewrite B1, B2.
    rewrite (cloop_no_trip_hands_on _ _ (e_brk e) sep var cop step limv budget (set_ebrk 0 e) [] v0 o e1 s A); [reflexivity| |exact N].
    exact E.
  Qed.

  (* ---- 3. counter steps on any integer ---- *)

  Theorem counter_init var cop arg e :
    re (ACounter var true cop arg) e = ([], env_set var (VInt arg) true e, SNone).
  Proof. reflexivity. Qed.

  Theorem counter_step var cop arg e v n :
    env_get e var = Some v -> conv_int [] v = Some n ->
    re (ACounter var false cop arg) e =
    ([], env_set var (VInt (match cop with OpInc => n + arg | _ => n - arg end)) true e, SNone).
  Proof. intros G C. cbn [ref_eval]. rewrite G, C. reflexivity. Qed.

  (* ---- 4. a right operand that does not exist ---- *)

  (* the reference semantics does not say what happens: the missing variable reads as nil, nil has
     no text to compare with, and the condition is outside the specified domain *)
  Theorem cond_missing_right_partial c e :
    ac_helper c = [] -> ac_llit c = false -> ac_rlit c = false ->
    env_get e (ac_r c) = Some VNil -> ref_cond flits e c = CNA.
  Proof. intros H L R G. unfold ref_cond. rewrite H, L, R, G. reflexivity. Qed.

  Theorem if_missing_right_partial c th el he e :
    ac_helper c = [] -> ac_llit c = false -> ac_rlit c = false ->
    env_get e (ac_r c) = Some VNil -> re (AIf c th el he) e = ([], e, SNA).
  Proof. intros H L R G. cbn [ref_eval]. rewrite (cond_missing_right_partial c e H L R G). reflexivity. Qed.

  (* ---- 5. a failing modifier ---- *)

  Theorem failing_modifier_prints_nothing e letters path mods pfx sfx raw v x :
    env_get e path = Some v -> print_value e letters mods v = ChE x ->
    ref_print e letters path mods pfx sfx raw = ([], e, SNone).
  Proof. intros G P. unfold ref_print. rewrite G, P. reflexivity. Qed.

  Corollary failing_modifier_print_item e letters path mods pfx sfx raw v x :
    env_get e path = Some v -> print_value e letters mods v = ChE x ->
    re (APrint letters path mods pfx sfx raw) e = ([], e, SNone).
  Proof. intros G P. cbn [ref_eval]. eapply failing_modifier_prints_nothing; eassumption. Qed.
End SpecEval.

(* the name reads back what the counter tag left *)
Lemma env_find_env_set k v st e : env_find k (ev (env_set k v st e)) = Some (mkEntry v st).
Proof.
  unfold env_set.
  assert (G : forall l, match env_upd k (mkEntry v st) l with
                        | Some l' => env_find k l' = Some (mkEntry v st)
                        | None => env_find k l = None
                        end).
  { induction l as [|[k' y] l IH]; [reflexivity|]. cbn [env_upd]. destruct (bytes_eqb k' k) eqn:K.
    - cbn [env_find]. rewrite K. reflexivity.
    - destruct (env_upd k (mkEntry v st) l); cbn [env_find]; rewrite K; exact IH. }
  specialize (G (ev e)). destruct (env_upd k (mkEntry v st) (ev e)); cbn [ev set_ev]; [exact G|].
  assert (A : forall l, env_find k l = None -> env_find k (l ++ [(k, mkEntry v st)]) = Some (mkEntry v st)).
  { induction l as [|[k' y] l IH]; cbn [app env_find]; intros H.
    - rewrite (proj2 (bytes_eqb_eq k k) eq_refl). reflexivity.
    - destruct (bytes_eqb k' k); [discriminate|]. apply IH, H. }
  apply A, G.
Qed.

(* the interpreter on a missing right operand: no text to compare with -- ErrUnknownType, which
   survives only when there is no branch to fall into: with an else branch, that one is rendered *)
Theorem node_cmp_missing_right flits c l r o :
  chQB c = false -> gp_val c r = VNil ->
  node_cmp flits c l r false false o = (set_cerr None c, false, Some EUnknownType).
Proof.
  intros Q G. unfold node_cmp. cbn [andb]. rewrite (no_index_outside_loops_model c r Q), G. reflexivity.
Qed.

(* ------------------------------------------------------------------ examples *)

Definition e_loop : env := mkEnv [(Sb "n", mkEntry (VInt 5) true)] false false false false 0.

(* a for-else whose else branch is  break 2 / lazybreak / continue / exit *)
Example for_else_signal_example :
  ref_eval [] (fun _ => None) 10 (fun _ _ => None)
           (ACLoop (Sb "i") (Sb "0") (Sb "0") true true OpLt OpInc [] [] [AText (Sb "x"); ABreak false 2 false no_cond; AText (Sb "y")] true)
           e_loop = (Sb "x", set_ebrk 2 e_loop, SBrk) /\
  ref_eval [] (fun _ => None) 10 (fun _ _ => None)
           (ARLoop [] (Sb "v") (Sb "nothing") [] [] [AExit] true) e_loop = ([], e_loop, SExit) /\
  cloop_allows OpLt 0 0 = Some false.
Proof. vm_compute. repeat split. Qed.

(* counter: init, then +2 on the counter, ++ on an ordinary integer variable *)
Example counter_example :
  let re := ref_eval [] (fun _ => None) 10 (fun _ _ => None) in
  let '(_, e1, _) := re (ACounter (Sb "k") true OpUnk 7) e_loop in
  let '(_, e2, _) := re (ACounter (Sb "k") false OpInc 2) e1 in
  let '(_, e3, _) := re (ACounter (Sb "n") false OpInc 1) e2 in
  let '(_, e4, _) := re (ACounter (Sb "n") false OpDec 3) e3 in
  env_find (Sb "k") (ev e4) = Some (mkEntry (VInt 9) true) /\ env_find (Sb "n") (ev e4) = Some (mkEntry (VInt 3) true).
Proof. vm_compute. split; reflexivity. Qed.

(* a missing right operand: outside the reference's domain for all six operators; the interpreter
   renders the else branch *)
Definition c_n5 : ctx := ctx_set (Sb "n") (VInt 5) false ctx_new.
Example missing_right_example :
  forallb (fun o => match ref_cond [] e_loop (mkACond (Sb "n") (Sb "ghost") false false o [] []) with CNA => true | _ => false end)
          [OpEq; OpNq; OpGt; OpGtq; OpLt; OpLtq] = true /\
  forallb (fun o =>
             match run_nodes [] (fun _ => None) 10 (fun _ _ => None)
                     (compile_tpl [AIf (mkACond (Sb "n") (Sb "ghost") false false o [] []) [AText (Sb "T")] [AText (Sb "E")] true])
                     c_n5 (wr_new None 0) with
             | Out _ w None => bytes_eqb (wr_bytes w) (Sb "E")
             | _ => false
             end) [OpEq; OpNq; OpGt; OpGtq; OpLt; OpLtq] = true.
Proof. vm_compute. split; reflexivity. Qed.

(* a failing modifier: default without argument *)
Example failing_modifier_example :
  print_value e_loop [] [mkAMod (Sb "default") []] (VInt 5) = ChE MENoArgs /\
  ref_eval [] (fun _ => None) 10 (fun _ _ => None)
           (APrint [] (Sb "n") [mkAMod (Sb "default") []] (Sb "<") (Sb ">") false) e_loop = ([], e_loop, SNone) /\
  ref_eval [] (fun _ => None) 10 (fun _ _ => None)
           (APrint [] (Sb "n") [] (Sb "<") (Sb ">") false) e_loop = (Sb "<5>", e_loop, SNone).
Proof. vm_compute. repeat split. Qed.

Theorem range_loop_else_signal flits rlookup budget rinc key val src sep body els e k rest o e1 s :
  split_dot src = k :: rest -> env_find k (ev e) = None ->
  top_with (ref_eval flits rlookup budget rinc) els (set_ebrk 0 e) [] = (o, e1, s) -> s <> SNone ->
  ref_eval flits rlookup budget rinc (ARLoop key val src sep body els true) e =
  (o, set_ebrk (Z.max (e_brk e1) (e_brk e)) e1, s).
Proof.
  intros SD F E N. cbn [ref_eval]. rewrite SD. cbn [ev set_ebrk]. rewrite F.
  rewrite (rloop_no_element_hands_on _ _ (e_brk e) sep key val (set_ebrk 0 e) [] o e1 s); [reflexivity|exact E|exact N].
Qed.
