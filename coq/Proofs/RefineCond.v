(* Conditions (C02): the test of an NCond node built by [c_cond] evaluates, on every context
   whose abstraction is [e], to what [ref_cond] says on [e] -- whatever the scratch fields
   (Ctx.BufB, Ctx.Err) hold. *)
From DT Require Import Model.Bytes Proofs.BytesFacts Model.Value Model.Tree Model.Mods Model.Interp
  Spec.Ast Spec.RefEval Spec.Compile Proofs.InterpFacts Proofs.FlatProofs Proofs.RefineBase.
Local Open Scope Z_scope.

(* ------------------------------------------------------------------ Ctx.cmp *)

Lemma ctx_cmp_ref flits c path o lit b :
  slots_ok c -> cerr c = None ->
  cmp_path flits (abs c) path o lit = CB b ->
  exists c1, ctx_cmp flits c path o lit = (c1, b) /\ ceq c1 c /\ cerr c1 = None.
Proof.
  intros Hs Hc. unfold cmp_path, ctx_cmp.
  destruct (split_dot path) as [|k rest].
  { intros E. inversion E. exists c. repeat split. exact Hc. }
  cbn [ev abs]. rewrite env_find_abs.
  destruct (find_var k (vars c)) as [s|] eqn:F; cbn [option_map].
  2:{ intros E. inversion E. exists c. repeat split. exact Hc. }
  pose proof (slots_ok_find c k s Hs F) as Ok.
  rewrite entry_get_abs, (abs_entry_static _ _ _ Ok), leaf_cmp_deref.
  destruct (leaf_cmp (s_static s) (bufLC c) (var_value s rest) (cmp_of_op o) lit (flit_of flits lit)) as [b0|] eqn:LC.
  { intros E. inversion E. subst b0. eexists. split; [reflexivity|]. split; [|reflexivity].
    eapply ceq_trans; [apply ceq_bufB|apply ceq_cerr]. }
  intros E.
  assert (B : b = false /\
              negb (s_static s) && match var_value s rest with VInt _ | VUint _ | VFloat _ _ => true | _ => false end = false).
  { destruct (var_value s rest); cbn [deref] in E; destruct (s_static s); cbn [negb andb];
      try (inversion E; split; reflexivity); discriminate E. }
  destruct B as [-> B]. rewrite B.
  eexists. split; [reflexivity|]. split; [|reflexivity].
  eapply ceq_trans; [apply ceq_bufB|apply ceq_cerr].
Qed.

Lemma cmp_path_not_err flits e p o l x : cmp_path flits e p o l <> CErr x.
Proof.
  unfold cmp_path. destruct (split_dot p) as [|k rest]; [discriminate|].
  destruct (env_find k (ev e)) as [y|]; [|discriminate].
  destruct (leaf_cmp _ _ _ _ _ _); [discriminate|]. destruct (entry_get y rest), (en_static y); discriminate.
Qed.

(* ------------------------------------------------------------------ len() / cap() *)

Definition lc_ref (e : env) (harg : bytes) (o : op) (r : bytes) : cres :=
  match split_dot harg with
  | [] => CB false
  | k :: rest =>
    match env_find k (ev e) with
    | None => CB false
    | Some x =>
      match leaf_len (entry_get x rest) with
      | Some n => CB (match option_map (cmp_Z (cmp_of_op o) n) (parse_Z r) with Some b => b | None => false end)
      | None => if en_static x then CB (match option_map (cmp_Z (cmp_of_op o) 0) (parse_Z r) with Some b => b | None => false end) else CNA
      end
    end
  end.

Lemma lc_value_abs n lc s rest :
  slot_ok n s ->
  (match leaf_len (entry_get (abs_entry lc s) rest) with
   | Some z => Some z
   | None => if en_static (abs_entry lc s) then Some 0 else None
   end) =
  (match leaf_len (lc_value s rest) with
   | Some z => Some z
   | None => if s_static s then Some 0 else None
   end).
Proof.
  intros [H _]. unfold abs_entry, lc_value, entry_get.
  destruct (is_nil (s_val s)) eqn:N; cbn [andb] in *.
  - destruct (nonempty (s_buf s)); cbn [orb en_static en_val] in *; [reflexivity|].
    destruct (s_cntrF s); cbn [en_static en_val] in *.
    + rewrite H by reflexivity. destruct (s_val s); try discriminate N. reflexivity.
    + destruct (s_static s); [rewrite leaf_len_deref; reflexivity|rewrite ins_get_deref, leaf_len_deref; reflexivity].
  - cbn [en_static en_val]. destruct (s_static s); [rewrite leaf_len_deref; reflexivity|rewrite ins_get_deref, leaf_len_deref; reflexivity].
Qed.

Lemma ctx_cmp_lc_ref c mode path o lit b :
  slots_ok c -> chQB c = false -> mode <> LcNone ->
  lc_ref (abs c) path o lit = CB b ->
  exists c1, ctx_cmp_lc c mode path o lit = (c1, b) /\ ceq c1 c /\ cerr c1 = None.
Proof.
  intros Hs Q Hm. unfold lc_ref, ctx_cmp_lc.
  change (chQB (set_cerr None c)) with (chQB c). rewrite Q.
  change (vars (set_cerr None c)) with (vars c).
  destruct (split_dot path) as [|k rest].
  { intros E. inversion E. eexists. split; [reflexivity|]. split; [apply ceq_cerr|reflexivity]. }
  cbn [ev abs]. rewrite env_find_abs.
  destruct (find_var k (vars c)) as [s|] eqn:F; cbn [option_map].
  2:{ intros E. inversion E. eexists. split; [reflexivity|]. split; [apply ceq_cerr|reflexivity]. }
  pose proof (slots_ok_find c k s Hs F) as Ok.
  pose proof (lc_value_abs _ (bufLC c) s rest Ok) as LV.
  intros E.
  assert (G : exists z, (match leaf_len (lc_value s rest) with
                         | Some z => Some z
                         | None => if s_static s then Some 0 else None
                         end) = Some z /\
                        b = match option_map (cmp_Z (cmp_of_op o) z) (parse_Z lit) with Some b => b | None => false end).
  { rewrite <- LV. destruct (leaf_len (entry_get (abs_entry (bufLC c) s) rest)) as [z|].
    - exists z. split; [reflexivity|]. inversion E. reflexivity.
    - destruct (en_static (abs_entry (bufLC c) s)); [|discriminate E].
      exists 0. split; [reflexivity|]. inversion E. reflexivity. }
  destruct G as (z & -> & ->).
  assert (R : (let '(c1, r) := match option_map (cmp_Z (cmp_of_op o) z) (parse_Z lit) with
                | Some b0 => (set_bufB b0 (set_cerr None c), b0)
                | None => (set_bufB false (set_cerr None c), false)
                end in r = match option_map (cmp_Z (cmp_of_op o) z) (parse_Z lit) with Some b => b | None => false end
                       /\ ceq c1 c /\ cerr c1 = None)).
  { destruct (option_map (cmp_Z (cmp_of_op o) z) (parse_Z lit)); (split; [reflexivity|]); (split; [|reflexivity]);
      (eapply ceq_trans; [apply ceq_bufB|apply ceq_cerr]). }
  destruct mode; [congruence| |];
    (destruct (option_map (cmp_Z (cmp_of_op o) z) (parse_Z lit)); eexists; (split; [reflexivity|]); (split; [|reflexivity]);
      (eapply ceq_trans; [apply ceq_bufB|apply ceq_cerr])).
Qed.

(* ------------------------------------------------------------------ nodeCmp *)

(* Ctx.get on a context with a clean error register, against the reference lookup *)
Lemma ctx_get_ref c path v' :
  env_get (abs c) path = Some v' ->
  exists v, ctx_get c path = (set_cerr None c, v) /\ v' = deref (bufLC c) v.
Proof.
  intros E. destruct (ctx_get_abs c path) as (eo & v & G & R). rewrite E in R. destruct R as [-> ->].
  exists v. split; [exact G|reflexivity].
Qed.

Definition plain_ref (flits : list (bytes * Z)) (e : env) (l r : bytes) (sl sr : bool) (o : op) : cres :=
  if sl && sr then CErr ESenseless
  else if sr then cmp_path flits e l o r
  else if sl then cmp_path flits e r (op_swap o) l
  else match env_get e r with
       | None => CNA
       | Some v => match text_of [] v with
                   | Some t => cmp_path flits e l o t
                   | None => CNA
                   end
       end.

Lemma node_cmp_ref flits c l r sl sr o b :
  slots_ok c -> cerr c = None ->
  plain_ref flits (abs c) l r sl sr o = CB b ->
  exists c1, node_cmp flits c l r sl sr o = (c1, b, None) /\ ceq c1 c /\ cerr c1 = None.
Proof.
  intros Hs Hc. unfold plain_ref, node_cmp.
  destruct (sl && sr); [discriminate|].
  destruct sr.
  { intros E. destruct (ctx_cmp_ref flits c l o r b Hs Hc E) as (c1 & E1 & Q1 & C1).
    rewrite E1. exists c1. split; [reflexivity|split; assumption]. }
  destruct sl.
  { intros E. destruct (ctx_cmp_ref flits c r (op_swap o) l b Hs Hc E) as (c1 & E1 & Q1 & C1).
    rewrite E1. exists c1. split; [reflexivity|split; assumption]. }
  destruct (env_get (abs c) r) as [v'|] eqn:G; [|discriminate].
  destruct (ctx_get_ref c r v' G) as (v & E0 & ->). rewrite E0. cbn [cerr set_cerr bufLC].
  rewrite text_of_deref. destruct (text_of (bufLC c) v) as [t|]; [|discriminate].
  intros E.
  assert (Hs' : slots_ok (set_cerr None c)) by exact Hs.
  destruct (ctx_cmp_ref flits (set_cerr None c) l o t b Hs' eq_refl E) as (c1 & E1 & Q1 & C1).
  rewrite E1. exists c1. split; [reflexivity|]. split; [|exact C1].
  eapply ceq_trans; [exact Q1|apply ceq_cerr].
Qed.

Lemma node_cmp_senseless flits c l r o :
  node_cmp flits c l r true true o = (c, false, Some ESenseless).
Proof. reflexivity. Qed.

(* ------------------------------------------------------------------ ref_cond, unfolded by shape *)

Lemma ref_cond_plain flits e c :
  ac_helper c = [] ->
  ref_cond flits e c = plain_ref flits e (ac_l c) (ac_r c) (ac_llit c) (ac_rlit c) (ac_op c).
Proof. intros H. unfold ref_cond, plain_ref. rewrite H. reflexivity. Qed.

Definition is_lc (h : bytes) : bool := bytes_eqb h b_len || bytes_eqb h b_cap.

Lemma ref_cond_lc flits e c :
  ac_helper c <> [] -> is_lc (ac_helper c) = true ->
  ref_cond flits e c = if e_qb e then CNA else lc_ref e (ac_harg c) (ac_op c) (ac_r c).
Proof.
  intros H L. unfold ref_cond, lc_ref. destruct (ac_helper c) as [|h0 h]; [congruence|].
  unfold is_lc, b_len, b_cap in L. rewrite L. destruct (e_qb e); reflexivity.
Qed.

Lemma ref_cond_helper flits e c :
  ac_helper c <> [] -> is_lc (ac_helper c) = false ->
  ref_cond flits e c =
  if cond_known (ac_helper c) then
    match env_get e (ac_harg c) with
    | None => CNA
    | Some v => CB (match cond_helper (ac_helper c) [AVal v] with Some b => b | None => false end)
    end
  else CErr ECondHlpNotFound.
Proof.
  intros H L. unfold ref_cond. destruct (ac_helper c) as [|h0 h]; [congruence|].
  unfold is_lc, b_len, b_cap in L. rewrite L. reflexivity.
Qed.

Lemma cond_helper_deref lc h v : cond_helper h [AVal (deref lc v)] = cond_helper h [AVal v].
Proof. unfold cond_helper. cbn [arg_value]. rewrite get_len_deref. reflexivity. Qed.

Definition harg_of (c : acond) : list targ := [mkArg [] (ac_harg c) false false].

Lemma c_cond_plain c : ac_helper c = [] ->
  c_cond c = mkCond (ac_l c) (ac_r c) (ac_llit c) (ac_rlit c) (ac_op c) [] [] LcNone.
Proof. intros H. unfold c_cond. rewrite H. reflexivity. Qed.

Lemma c_cond_lc c : ac_helper c <> [] -> is_lc (ac_helper c) = true ->
  c_cond c = mkCond (ac_helper c ++ ["("%byte] ++ ac_harg c ++ [")"%byte]) (ac_r c) false true (ac_op c)
                    (ac_helper c) (harg_of c) (if bytes_eqb (ac_helper c) b_len then LcLen else LcCap).
Proof.
  intros H L. unfold c_cond. destruct (ac_helper c) as [|h0 h] eqn:E; [congruence|].
  unfold is_lc in L. rewrite L. reflexivity.
Qed.

Lemma c_cond_helper c : ac_helper c <> [] -> is_lc (ac_helper c) = false ->
  c_cond c = mkCond [] [] false false OpUnk (ac_helper c) (harg_of c) LcNone.
Proof.
  intros H L. unfold c_cond. destruct (ac_helper c) as [|h0 h] eqn:E; [congruence|].
  unfold is_lc in L. rewrite L. reflexivity.
Qed.

(* ------------------------------------------------------------------ the condition of an NCond node *)

Section Cond.
  Variable flits : list (bytes * Z).
  Variable lookup : list bytes -> option tree.
  Variable budget : nat.
  Variable inc : tree -> ctx -> option (ctx * bytes * option err).
  Notation wn := (write_node flits lookup budget inc).

  Definition pick (b : bool) (child : list node) : option node :=
    if b then match child with ch :: _ => Some ch | [] => None end
    else match child with _ :: ch :: _ => Some ch | _ => None end.

  (* the branch selected by the operands: the true branch iff the reference condition holds *)
  Lemma ncond_ref cnd c b :
    slots_ok c -> ref_cond flits (abs c) cnd = CB b ->
    exists c1, ceq c1 c /\ cerr c1 = None /\
      forall child w, wn (NCond (c_cond cnd) child) c w =
        match pick b child with Some ch => wn ch c1 w | None => Out c1 w None end.
  Proof.
    intros Hs.
    assert (Hs0 : slots_ok (set_cerr None c)) by exact Hs.
    destruct (ac_helper cnd) as [|h0 h] eqn:H.
    - (* plain comparison *)
      rewrite ref_cond_plain by exact H. intros E.
      change (abs c) with (abs (set_cerr None c)) in E.
      destruct (node_cmp_ref flits (set_cerr None c) _ _ _ _ _ b Hs0 eq_refl E) as (c1 & E1 & Q1 & C1).
      exists c1. split; [eapply ceq_trans; [exact Q1|apply ceq_cerr]|]. split; [exact C1|].
      intros child w. rewrite (c_cond_plain cnd H). cbn [write_node cHlp cLC cL cR cSL cSR cOp].
      rewrite E1, C1. unfold pick. destruct b.
      + destruct child; reflexivity.
      + destruct child as [|x [|y r]]; reflexivity.
    - assert (NE : ac_helper cnd <> []) by (rewrite H; discriminate).
      destruct (is_lc (ac_helper cnd)) eqn:L.
      + (* len / cap *)
        rewrite ref_cond_lc by assumption. cbn [e_qb abs].
        destruct (chQB c) eqn:Q; [discriminate|]. intros E.
        set (mode := if bytes_eqb (ac_helper cnd) b_len then LcLen else LcCap).
        assert (Hm : mode <> LcNone) by (unfold mode; destruct (bytes_eqb (ac_helper cnd) b_len); discriminate).
        change (abs c) with (abs (set_cerr None c)) in E.
        destruct (ctx_cmp_lc_ref (set_cerr None c) mode (ac_harg cnd) (ac_op cnd) (ac_r cnd) b Hs0 Q Hm E) as (c1 & E1 & Q1 & C1).
        exists c1. split; [eapply ceq_trans; [exact Q1|apply ceq_cerr]|]. split; [exact C1|].
        intros child w. rewrite (c_cond_lc cnd NE L). fold mode.
        cbn [write_node cHlp cLC cHlpArg cOp cR a_val harg_of]. rewrite H.
        destruct mode eqn:EM; [congruence| |]; rewrite E1, C1; unfold pick; destruct b;
          try (destruct child; reflexivity); destruct child as [|x [|y r]]; reflexivity.
      + (* named helper *)
        rewrite ref_cond_helper by assumption.
        destruct (cond_known (ac_helper cnd)) eqn:K; [|discriminate].
        destruct (env_get (abs c) (ac_harg cnd)) as [v'|] eqn:G; [|discriminate].
        change (abs c) with (abs (set_cerr None c)) in G.
        destruct (ctx_get_ref (set_cerr None c) _ v' G) as (v & E0 & ->).
        rewrite cond_helper_deref. intros E. inversion E as [Eb]. clear E.
        exists (set_cerr None c). split; [apply ceq_cerr|]. split; [reflexivity|].
        intros child w. rewrite (c_cond_helper cnd NE L).
        cbn [write_node cHlp cLC cHlpArg harg_of]. rewrite K. rewrite H at 1.
        unfold harg_of. cbn [collect_args a_static a_val a_name]. rewrite E0. cbn [cerr set_cerr].
        unfold pick. destruct (match cond_helper (ac_helper cnd) [AVal v] with Some b0 => b0 | None => false end).
        * destruct child; reflexivity.
        * destruct child as [|x [|y r]]; reflexivity.
  Qed.

  (* a condition the reference semantics rejects *)
  Lemma ncond_err cnd c x :
    ref_cond flits (abs c) cnd = CErr x ->
    forall child w, (x = ESenseless -> pick false child = None) ->
      wn (NCond (c_cond cnd) child) c w = Out (set_cerr None c) w (Some x).
  Proof.
    destruct (ac_helper cnd) as [|h0 h] eqn:H.
    - rewrite ref_cond_plain by exact H. unfold plain_ref.
      destruct (ac_llit cnd) eqn:SL, (ac_rlit cnd) eqn:SR; cbn [andb].
      + intros E. inversion E. subst x. intros child w P. specialize (P eq_refl).
        rewrite (c_cond_plain cnd H). cbn [write_node cHlp cLC cL cR cSL cSR cOp]. rewrite SL, SR.
        cbn [node_cmp andb cerr set_cerr]. unfold pick in P. destruct child as [|a [|b r]]; try reflexivity. discriminate P.
      + intros E. exfalso. exact (cmp_path_not_err _ _ _ _ _ _ E).
      + intros E. exfalso. exact (cmp_path_not_err _ _ _ _ _ _ E).
      + intros E. exfalso. destruct (env_get _ _); [|discriminate]. destruct (text_of _ _); [|discriminate].
        exact (cmp_path_not_err _ _ _ _ _ _ E).
    - assert (NE : ac_helper cnd <> []) by (rewrite H; discriminate).
      destruct (is_lc (ac_helper cnd)) eqn:L.
      + rewrite ref_cond_lc by assumption. intros E. exfalso. destruct (e_qb _); [discriminate|].
        unfold lc_ref in E. destruct (split_dot _); [discriminate|]. destruct (env_find _ _); [|discriminate].
        destruct (leaf_len _); [discriminate|]. destruct (en_static _); discriminate.
      + rewrite ref_cond_helper by assumption.
        destruct (cond_known (ac_helper cnd)) eqn:K.
        { intros E. destruct (env_get _ _); discriminate. }
        intros E. inversion E. subst x. intros child w _.
        rewrite (c_cond_helper cnd NE L). cbn [write_node cHlp cLC]. rewrite K. rewrite H at 1. reflexivity.
  Qed.
End Cond.

(* ------------------------------------------------------------------ C02: the key lemma *)

(* Whatever the result buffer and the error register hold, the NCond node built from a condition
   evaluates its first child iff the reference condition holds on the abstraction of the
   context, and its second child otherwise; the context handed to the branch is the old one up
   to those scratch fields. *)
Theorem branch_by_operands :
  forall flits lookup budget inc cnd ctx b,
    slots_ok ctx -> ref_cond flits (abs ctx) cnd = CB b ->
    forall b0 e0 ch1 ch2 rest w,
    exists c1, ceq c1 ctx /\
      write_node flits lookup budget inc (NCond (c_cond cnd) (ch1 :: ch2 :: rest)) (set_bufB b0 (set_cerr e0 ctx)) w =
      write_node flits lookup budget inc (if b then ch1 else ch2) c1 w.
Proof.
  intros flits lookup budget inc cnd ctx b Hs E b0 e0 ch1 ch2 rest w.
  assert (Q : ceq (set_bufB b0 (set_cerr e0 ctx)) ctx) by (eapply ceq_trans; [apply ceq_bufB|apply ceq_cerr]).
  assert (Hs' : slots_ok (set_bufB b0 (set_cerr e0 ctx))) by exact Hs.
  change (abs ctx) with (abs (set_bufB b0 (set_cerr e0 ctx))) in E.
  destruct (ncond_ref flits lookup budget inc cnd _ b Hs' E) as (c1 & Q1 & _ & W).
  exists c1. split; [eapply ceq_trans; eassumption|].
  rewrite W. destruct b; reflexivity.
Qed.
