(* Modifier chains (C11): run_mods on the compiled modifiers / escape letters against
   apply_mods / apply_letters, and the shape of what Ctx.get hands out. *)
From DT Require Import Model.Bytes Proofs.BytesFacts Model.Value Model.Tree Model.Mods Model.Interp
  Spec.Ast Spec.RefEval Spec.Compile Proofs.InterpFacts Proofs.FlatProofs Proofs.RefineBase.
Local Open Scope Z_scope.

(* ------------------------------------------------------------------ what Ctx.get hands out *)

(* the path actually looked up: the given one, or the one with an index substituted *)
Definition qpath (path p' : bytes) : Prop :=
  p' = path \/ exists l t, p' = firstn l path ++ ["."%byte] ++ t.

Lemma ctx_get_shape c path :
  exists eo v, ctx_get c path = (set_cerr eo c, v) /\
               (v = VNil \/ exists p', qpath path p' /\ v = gp_val c p').
Proof.
  unfold ctx_get.
  assert (P : exists eo v, get_plain c path = (set_cerr eo c, v) /\ (v = VNil \/ exists p', qpath path p' /\ v = gp_val c p')).
  { rewrite get_plain_eq. exists None, (gp_val c path). split; [reflexivity|]. right. exists path. split; [left; reflexivity|reflexivity]. }
  destruct (chQB c); [|exact P].
  unfold replace_qb.
  assert (P' : exists eo v, (let (c1, p) := (set_cerr None c, path) in
                 match cerr c1, p with
                 | Some _, [] => (c1, VNil)
                 | _, _ => let e := cerr c1 in let (c2, v) := get_plain c1 p in (set_cerr e c2, v)
                 end) = (set_cerr eo c, v) /\ (v = VNil \/ exists p', qpath path p' /\ v = gp_val c p')).
  { cbn [cerr set_cerr]. rewrite get_plain_eq. exists None, (gp_val c path). split; [reflexivity|].
    right. exists path. split; [left; reflexivity|reflexivity]. }
  destruct (index_of "["%byte path 0) as [l|]; [|exact P'].
  destruct (index_of "]"%byte path 0) as [r|]; [|exact P'].
  destruct (Nat.ltb l r); [|exact P'].
  rewrite get_plain_eq.
  set (inner := firstn (r - S l) (skipn (S l) path)).
  assert (G : forall t, exists eo v,
             (let (c1, p) := (set_cerr None (set_cerr None c), firstn l path ++ ["."%byte] ++ t) in
              match cerr c1, p with
              | Some _, [] => (c1, VNil)
              | _, _ => let e := cerr c1 in let (c2, v) := get_plain c1 p in (set_cerr e c2, v)
              end) = (set_cerr eo c, v) /\ (v = VNil \/ exists p', qpath path p' /\ v = gp_val c p')).
  { intros t. cbn [cerr set_cerr]. rewrite get_plain_eq.
    exists None, (gp_val c (firstn l path ++ ["."%byte] ++ t)). split; [reflexivity|].
    right. eexists. split; [right; exists l, t; reflexivity|reflexivity]. }
  destruct (gp_val (set_cerr None c) inner); cbn [text_of];
    try apply G;
    try (exists (Some EUnknownType), VNil; split; [reflexivity|left; reflexivity]).
Qed.

Lemma gp_val_ok c p : slots_ok c -> val_ok (length (bufLC c)) (gp_val c p).
Proof.
  intros Hs. unfold gp_val. destruct (split_dot p) as [|k rest]; [left; apply cell_free_nil|].
  destruct (find_var k (vars c)) as [s|] eqn:F; [|left; apply cell_free_nil].
  apply var_value_ok, (slots_ok_find c k s Hs F).
Qed.

Lemma ctx_get_val_ok c path :
  slots_ok c -> val_ok (length (bufLC c)) (snd (ctx_get c path)).
Proof.
  intros Hs. destruct (ctx_get_shape c path) as (eo & v & E & [->|(p' & _ & ->)]); rewrite E; cbn [snd].
  - left. apply cell_free_nil.
  - apply gp_val_ok, Hs.
Qed.

(* ------------------------------------------------------------------ arguments *)

Definition args_ok (n : nat) (vs : list argval) : Prop := Forall (fun a => val_ok n (arg_value a)) vs.

Lemma collect_args_ref : forall args c vs',
  slots_ok c -> eval_args (abs c) args = Some vs' ->
  exists c1 vs, collect_args c (map c_arg args) = (c1, vs) /\ ceq c1 c /\
                vs' = map (deref_arg (bufLC c)) vs /\ args_ok (length (bufLC c)) vs.
Proof.
  induction args as [|a r IH]; intros c vs' Hs E.
  - inversion E. exists c, []. split; [reflexivity|]. split; [apply ceq_refl|]. split; [reflexivity|constructor].
  - cbn [eval_args] in E. cbn [map collect_args c_arg a_static a_val a_name].
    destruct (aa_lit a) eqn:Lit.
    + destruct (eval_args (abs c) r) as [vs0|] eqn:E0; [|discriminate]. inversion E; subst vs'.
      destruct (IH c vs0 Hs E0) as (c1 & vs & E1 & Q1 & -> & O1). rewrite E1.
      eexists c1, _. split; [reflexivity|]. split; [exact Q1|]. split.
      * cbn [map]. f_equal. destruct (aa_kv a); reflexivity.
      * constructor; [|exact O1]. destruct (aa_kv a); left; apply cell_free_bytes.
    + destruct (env_get (abs c) (aa_text a)) as [v'|] eqn:G; [|discriminate].
      destruct (eval_args (abs c) r) as [vs0|] eqn:E0; [|discriminate]. inversion E; subst vs'.
      destruct (ctx_get_abs c (aa_text a)) as (eo & v & EG & R). rewrite G in R. destruct R as [-> ->].
      pose proof (ctx_get_val_ok c (aa_text a) Hs) as VO. rewrite EG in VO |- *. cbn [snd] in VO.
      change (abs c) with (abs (set_cerr None c)) in E0.
      destruct (IH (set_cerr None c) vs0 Hs E0) as (c1 & vs & E1 & Q1 & -> & O1). rewrite E1.
      eexists c1, _. split; [reflexivity|]. split; [eapply ceq_trans; [exact Q1|apply ceq_cerr]|]. split.
      * cbn [map bufLC set_cerr]. f_equal. destruct (aa_kv a); reflexivity.
      * constructor; [|exact O1]. destruct (aa_kv a); exact VO.
Qed.

Lemma c_arg_not_global args : existsb a_global (map c_arg args) = false.
Proof. induction args as [|a r IH]; [reflexivity|]. cbn [map existsb c_arg a_global orb]. exact IH. Qed.

(* ------------------------------------------------------------------ pure modifiers keep values ok *)

Lemma quote_iter_is_bytes lc : forall n s, exists s', repeat_app (quote_pass lc) n (VBytes s) = VBytes s'.
Proof.
  induction n as [|n IH]; intros s; [exists s; reflexivity|].
  cbn [repeat_app]. rewrite quote_pass_bytes. apply IH.
Qed.

Lemma pure_mod_val_ok n lc id v args v' :
  val_ok n v -> args_ok n args -> pure_mod lc id v args = POk v' -> val_ok n v'.
Proof.
  intros Hv Ha. unfold pure_mod.
  assert (A0 : forall a r, args = a :: r -> val_ok n (arg_value a)).
  { intros a r ->. inversion Ha; assumption. }
  assert (A1 : forall a b r, args = a :: b :: r -> val_ok n (arg_value b)).
  { intros a b r ->. inversion Ha as [|? ? _ Hr]; subst. inversion Hr; assumption. }
  assert (B : forall s, val_ok n (VBytes s)) by (intros s; left; apply cell_free_bytes).
  assert (EB : forall f, esc_bytes f lc v args = POk v' -> val_ok n v').
  { intros f. unfold esc_bytes. destruct (text_of lc v) as [[|b0 b]|]; intros E; inversion E; subst; [exact Hv|apply B]. }
  assert (ER : forall f, esc_runes f lc v args = POk v' -> val_ok n v').
  { intros f. unfold esc_runes. destruct (text_of lc v) as [b|]; intros E; inversion E; subst; apply B. }
  destruct (name_is id n_default).
  { destruct args as [|a r] eqn:EA; [discriminate|]. intros E. inversion E; subst v'.
    destruct (empty_check lc v); [eapply A0; reflexivity|exact Hv]. }
  destruct (name_is id n_ifthen).
  { destruct args as [|a r] eqn:EA; [discriminate|]. intros E. inversion E; subst v'.
    destruct (conv_bool v) as [[|]|]; [eapply A0; reflexivity|exact Hv|exact Hv]. }
  destruct (name_is id n_ifthenelse).
  { destruct args as [|a [|b r]] eqn:EA; try discriminate. intros E. inversion E; subst v'.
    destruct (conv_bool v) as [[|]|]; [eapply A0; reflexivity|eapply A1; reflexivity|exact Hv]. }
  destruct (name_is id n_jsonescape); [apply EB|].
  destruct (name_is id n_jsonquote).
  { intros E. inversion E; subst v'. destruct (Z.to_nat (print_iterations args)) as [|k]; [exact Hv|].
    cbn [repeat_app]. assert (S : exists s, quote_pass lc v = VBytes s) by (unfold quote_pass; destruct (text_of lc v); eexists; reflexivity).
    destruct S as [s ->]. destruct (quote_iter_is_bytes lc k s) as [s' ->]. apply B. }
  destruct (name_is id n_htmlescape); [apply EB|].
  destruct (name_is id n_linkescape); [apply EB|].
  destruct (name_is id n_urlencode); [apply EB|].
  destruct (name_is id n_attrescape); [apply ER|].
  destruct (name_is id n_cssescape); [apply ER|].
  destruct (name_is id n_jsescape); [apply ER|].
  destruct (name_is id n_vup).
  { destruct (text_of lc v); intros E; inversion E; subst; apply B. }
  destruct (name_is id n_vcat).
  { intros E; inversion E; subst; apply B. }
  discriminate.
Qed.

(* ------------------------------------------------------------------ chains *)

Lemma run_mods_ref : forall mods c v n,
  slots_ok c -> cerr c = None -> val_ok (length (bufLC c)) v ->
  match apply_mods (abs c) mods (deref (bufLC c) v) with
  | ChV v' => exists c2 v2, run_mods n c (map c_mod mods) v = ChOk c2 v2 /\ ceq c2 c /\ cerr c2 = None /\
                            v' = deref (bufLC c) v2 /\ val_ok (length (bufLC c)) v2
  | ChE x => exists c2 v2, run_mods n c (map c_mod mods) v = ChOk c2 v2 /\ ceq c2 c /\
                           cerr c2 = Some (err_of_merr x)
  | ChNA => True
  end.
Proof.
  induction mods as [|m r IH]; intros c v n Hs Hc Hv.
  - cbn [apply_mods map run_mods]. exists c, v. split; [reflexivity|]. split; [apply ceq_refl|]. splits; done.
  - cbn [apply_mods map run_mods c_mod m_args m_id].
    destruct (eval_args (abs c) (am_args m)) as [vs'|] eqn:EA; [|exact I].
    destruct (collect_args_ref (am_args m) c vs' Hs EA) as (c1 & vs & E1 & Q1 & -> & O1).
    rewrite E1, c_arg_not_global.
    pose proof Q1 as (QV & QL & _).
    rewrite pure_mod_deref. unfold apply_mod. cbn [m_id c_mod]. rewrite QL.
    destruct (pure_mod (bufLC c) (am_name m) v vs) as [v1|x|] eqn:PM; cbn [map_pm].
    + assert (Hs1 : slots_ok (set_cerr None c1)) by (unfold slots_ok; cbn [vars bufLC set_cerr]; rewrite QV, QL; exact Hs).
      assert (Hv1 : val_ok (length (bufLC (set_cerr None c1))) v1).
      { cbn [bufLC set_cerr]. rewrite QL. eapply pure_mod_val_ok; eassumption. }
      assert (Q : ceq (set_cerr None c1) c) by (eapply ceq_trans; [apply ceq_cerr|exact Q1]).
      specialize (IH (set_cerr None c1) v1 n Hs1 eq_refl Hv1).
      rewrite (ceq_abs _ _ Q) in IH. cbn [bufLC set_cerr] in IH. rewrite QL in IH.
      destruct (apply_mods (abs c) r (deref (bufLC c) v1)) as [v'|x|]; [| |exact I].
      * destruct IH as (c2 & v2 & E2 & Q2 & C2 & -> & V2). exists c2, v2. split; [exact E2|].
        split; [eapply ceq_trans; eassumption|]. splits; done.
      * destruct IH as (c2 & v2 & E2 & Q2 & C2). exists c2, v2. split; [exact E2|].
        split; [eapply ceq_trans; eassumption|exact C2].
    + eexists _, v. split; [reflexivity|]. split; [|reflexivity].
      eapply ceq_trans; [apply ceq_cerr|exact Q1].
    + exact I.
Qed.

(* ------------------------------------------------------------------ escape letters as modifiers *)

Fixpoint letter_amods (runs : list (byte * Z)) : list amod :=
  match runs with
  | [] => []
  | (l, n) :: r =>
    match letter_mod l with
    | Some name => mkAMod name [mkAArg true (print_Z n) []] :: letter_amods r
    | None => letter_amods r
    end
  end.

Lemma c_letters_amods runs : c_letters runs = map c_mod (letter_amods runs).
Proof.
  induction runs as [|[l n] r IH]; [reflexivity|].
  cbn [c_letters letter_amods]. destruct (letter_mod l); [|exact IH].
  cbn [map]. rewrite IH. reflexivity.
Qed.

Lemma apply_letters_amods e : forall runs v,
  apply_letters runs v <> ChNA -> apply_mods e (letter_amods runs) v = apply_letters runs v.
Proof.
  induction runs as [|[l n] r IH]; intros v H; [reflexivity|].
  cbn [apply_letters letter_amods] in *. destruct (letter_mod l) as [name|]; [|congruence].
  cbn [apply_mods am_args am_name eval_args aa_lit aa_text aa_kv].
  destruct (pure_mod [] name v [AVal (VBytes (print_Z n))]); [apply IH, H|reflexivity|reflexivity].
Qed.

Lemma apply_mods_app e : forall m1 m2 v,
  apply_mods e (m1 ++ m2) v = match apply_mods e m1 v with ChV v1 => apply_mods e m2 v1 | r => r end.
Proof.
  induction m1 as [|m r IH]; intros m2 v; [reflexivity|].
  cbn [app apply_mods]. destruct (eval_args e (am_args m)); [|reflexivity].
  destruct (pure_mod [] (am_name m) v l); [apply IH|reflexivity|reflexivity].
Qed.

Lemma print_value_amods e letters mods v :
  print_value e letters mods v <> ChNA ->
  apply_mods e (mods ++ letter_amods (letter_runs letters)) v = print_value e letters mods v.
Proof.
  unfold print_value. rewrite apply_mods_app. destruct (apply_mods e mods v); try reflexivity.
  intros H. apply apply_letters_amods, H.
Qed.

Lemma c_print_amods letters path mods pfx sfx raw :
  c_print letters path mods pfx sfx raw =
  NTpl path pfx sfx raw (map c_mod (mods ++ letter_amods (letter_runs letters))).
Proof. unfold c_print. rewrite map_app, c_letters_amods. reflexivity. Qed.
