(* C17: a failing output writer is always reported -- for every tree, every context state,
   every budget.  Part 1: the fault invariant (unary).  Part 2: simulation of a failing run
   by a healthy run up to the fault (prefix property). *)
From DT Require Import Model.Bytes Proofs.BytesFacts Model.Value Model.Tree Model.Mods Model.Interp
  Proofs.InterpFacts.
Local Open Scope Z_scope.

(* ------------------------------------------------------------------ induction on trees *)

Definition children (n : node) : list node :=
  match n with
  | NCond _ ch | NCondOK _ _ ch | NBlock _ _ ch | NLoopRange _ _ _ _ ch
  | NLoopCount _ _ _ _ _ _ _ _ ch | NSwitch _ ch => ch
  | _ => []
  end.

Section NodeInd.
  Variable P : node -> Prop.
  Hypothesis step : forall n, Forall P (children n) -> P n.

  Fixpoint node_ind' (n : node) : P n :=
    step n
      (match n return Forall P (children n) with
       | NCond _ ch =>
         (fix go (l : list node) : Forall P l :=
            match l with [] => Forall_nil P | x :: r => Forall_cons x (node_ind' x) (go r) end) ch
       | NCondOK _ _ ch =>
         (fix go (l : list node) : Forall P l :=
            match l with [] => Forall_nil P | x :: r => Forall_cons x (node_ind' x) (go r) end) ch
       | NBlock _ _ ch =>
         (fix go (l : list node) : Forall P l :=
            match l with [] => Forall_nil P | x :: r => Forall_cons x (node_ind' x) (go r) end) ch
       | NLoopRange _ _ _ _ ch =>
         (fix go (l : list node) : Forall P l :=
            match l with [] => Forall_nil P | x :: r => Forall_cons x (node_ind' x) (go r) end) ch
       | NLoopCount _ _ _ _ _ _ _ _ ch =>
         (fix go (l : list node) : Forall P l :=
            match l with [] => Forall_nil P | x :: r => Forall_cons x (node_ind' x) (go r) end) ch
       | NSwitch _ ch =>
         (fix go (l : list node) : Forall P l :=
            match l with [] => Forall_nil P | x :: r => Forall_cons x (node_ind' x) (go r) end) ch
       | _ => Forall_nil P
       end).
End NodeInd.

(* the property holds of a node and of everything below it: loops look two levels down
   (child[0].child), so the induction hypothesis has to reach grandchildren *)
Inductive Deep (P : node -> Prop) : node -> Prop :=
| Deep_intro n : P n -> Forall (Deep P) (children n) -> Deep P n.

Lemma Deep_here P n : Deep P n -> P n.
Proof. intros D; destruct D; assumption. Qed.
Lemma Deep_below P n : Deep P n -> Forall (Deep P) (children n).
Proof. intros D; destruct D; assumption. Qed.

Lemma Deep_Forall P l : Forall (Deep P) l -> Forall P l.
Proof. apply Forall_impl. exact (Deep_here P). Qed.

Theorem node_deep_ind (P : node -> Prop) :
  (forall n, Forall (Deep P) (children n) -> P n) -> forall n, P n.
Proof.
  intros H n. apply Deep_here. revert n. apply (node_ind' (Deep P)).
  intros n Hc. constructor; [apply H|]; exact Hc.
Qed.

Lemma deep_loop_body P child : Forall (Deep P) child -> Forall P (loop_body child).
Proof.
  intros H. unfold loop_body.
  destruct child as [|[] r]; try (apply Deep_Forall; exact H).
  destruct k; try (apply Deep_Forall; exact H).
  apply Deep_Forall. inversion H as [|x l Hx Hl]; subst. exact (Deep_below _ _ Hx).
Qed.

Lemma deep_loop_else P child : Forall (Deep P) child -> Forall P (loop_else_nodes child).
Proof.
  intros H. unfold loop_else_nodes.
  destruct child as [|a [|[] r]]; try (apply Deep_Forall; exact H).
  destruct k; try (apply Deep_Forall; exact H).
  apply Deep_Forall. inversion H as [|x l Hx Hl]; subst.
  inversion Hl as [|y l' Hy Hl']; subst. exact (Deep_below _ _ Hy).
Qed.

(* ------------------------------------------------------------------ part 1: the fault invariant *)

Notation okw w := (w_failed w = false).

(* a node / list walker / template: a failed writer comes with the writer error *)
Definition Inv_out (o : outcome) : Prop :=
  match o with Out _ w' e => w_failed w' = true -> e = Some EWriter | _ => True end.
(* one loop iteration: going on is possible only with an intact writer *)
Definition Inv_it (r : iterres) : Prop :=
  match r with
  | ItNext _ w' | ItStop _ w' => w_failed w' = false
  | ItAbort _ w' e => w_failed w' = true -> e = EWriter
  | _ => True
  end.
(* for-else branch: the error is parked in Ctx.Err *)
Definition Inv_else (o : outcome) : Prop :=
  match o with Out c' w' _ => w_failed w' = true -> cerr c' = Some EWriter | _ => True end.

Definition wres_ok (p : wr * option err) : Prop :=
  (snd p = None /\ w_failed (fst p) = false) \/ snd p = Some EWriter.

Lemma wr_write_failed w b :
  w_failed w = false -> w_failed (fst (wr_write w b)) = negb (snd (wr_write w b)).
Proof.
  intros H. unfold wr_write.
  destruct (w_fail w) as [k|]; [destruct (Nat.ltb _ _); [|destruct (Nat.eqb _ _)]|]; cbn;
    try assumption; reflexivity.
Qed.

Lemma wrw_ok w b :
  okw w -> wres_ok (let (w', ok) := wr_write w b in (w', if ok then None else Some EWriter)).
Proof.
  intros H. pose proof (wr_write_failed w b H) as F.
  destruct (wr_write w b) as [w' ok]. cbn in F. unfold wres_ok. destruct ok; cbn in *; auto.
Qed.

Lemma write_raw_ok c w p : okw w -> wres_ok (write_raw c w p).
Proof. intros H. unfold write_raw. apply wrw_ok, H. Qed.

Lemma sep_ok w (trips : nat) (sep out : bytes) :
  okw w ->
  wres_ok (match trips, sep with
           | O, _ | _, [] => (w, None)
           | _, _ => let (w', ok) := wr_write w out in (w', if ok then None else Some EWriter)
           end).
Proof.
  intros H. destruct trips; [left; auto|]. destruct sep; [left; auto|]. apply wrw_ok, H.
Qed.

Lemma write_value_inv c w t pfx sfx noesc : okw w -> Inv_out (write_value c w t pfx sfx noesc).
Proof.
  intros H. unfold write_value.
  assert (A : wres_ok (match pfx with [] => (w, None) | _ => write_raw c w pfx end)).
  { destruct pfx; [left; auto|apply write_raw_ok, H]. }
  destruct (match pfx with [] => (w, None) | _ => write_raw c w pfx end) as [w1 e1].
  destruct A as [[A1 A2]|A]; cbn in *; subst; [|cbn; auto].
  assert (B : wres_ok (if noesc then let (w', ok) := wr_write w1 t in (w', if ok then None else Some EWriter)
                       else write_raw c w1 t)).
  { destruct noesc; [apply wrw_ok, A2|apply write_raw_ok, A2]. }
  destruct (if noesc then _ else _) as [w2 e2].
  destruct B as [[B1 B2]|B]; cbn in *; subst; [|cbn; auto].
  destruct sfx as [|s0 sfx]; [cbn; congruence|].
  pose proof (write_raw_ok c w2 (s0 :: sfx) B2) as C.
  destruct (write_raw c w2 (s0 :: sfx)) as [w3 e3].
  destruct C as [[C1 C2]|C]; cbn in *; subst; [congruence|auto].
Qed.

Ltac okc := cbn [Inv_out Inv_it Inv_else]; intros; try congruence; try reflexivity.

Section Walk1.
  Variable f : node -> ctx -> wr -> outcome.
  Definition NodeInv (n : node) : Prop := forall c w, okw w -> Inv_out (f n c w).

  Lemma walk_inv l : Forall NodeInv l ->
    forall c w lazy, okw w -> Inv_out (walk_with f l c w lazy).
  Proof.
    induction 1 as [|ch r Hch Hr IH]; intros c w lazy Hw; cbn [walk_with]; [okc|].
    specialize (Hch c w Hw). destruct (f ch c w) as [c1 w1 e| |]; [|exact I|exact I].
    cbn [Inv_out] in Hch. destruct (w_failed w1) eqn:Hf.
    - rewrite (Hch eq_refl). okc.
    - destruct e as [[]|]; try (apply IH; exact Hf); okc.
  Qed.

  Lemma body_inv l : Forall NodeInv l ->
    forall c w lazy, okw w -> Inv_it (body_with f l c w lazy).
  Proof.
    induction 1 as [|ch r Hch Hr IH]; intros c w lazy Hw; cbn [body_with].
    - destruct lazy; exact Hw.
    - specialize (Hch c w Hw). destruct (f ch c w) as [c1 w1 e| |]; [|exact I|exact I].
      cbn [Inv_out] in Hch. destruct (w_failed w1) eqn:Hf.
      + rewrite (Hch eq_refl). okc.
      + destruct e as [[]|]; try (apply IH; exact Hf); try (destruct lazy); okc.
  Qed.

  Lemma else_inv l : Forall NodeInv l ->
    forall c w, okw w -> Inv_else (else_with f l c w).
  Proof.
    induction 1 as [|ch r Hch Hr IH]; intros c w Hw; cbn [else_with]; [okc|].
    specialize (Hch c w Hw). destruct (f ch c w) as [c1 w1 e| |]; [|exact I|exact I].
    cbn [Inv_out] in Hch. destruct (w_failed w1) eqn:Hf.
    - rewrite (Hch eq_refl). okc.
    - destruct e as [e|]; [okc|apply IH; exact Hf].
  Qed.

  Lemma default_inv l : Forall NodeInv l ->
    forall c w, okw w -> Inv_out (default_with f l c w).
  Proof.
    induction 1 as [|ch r Hch Hr IH]; intros c w Hw; cbn [default_with]; [okc|].
    destruct ch; try (apply IH; exact Hw).
    destruct k; try (apply IH; exact Hw). apply Hch, Hw.
  Qed.

  Lemma cases_inv hit chk all l : Forall NodeInv all -> Forall NodeInv l ->
    forall c w, okw w -> Inv_out (cases_with f hit chk all l c w).
  Proof.
    intros Hall. induction 1 as [|ch r Hch Hr IH]; intros c w Hw; cbn [cases_with].
    - apply default_inv; assumption.
    - destruct ch; try (apply IH; exact Hw).
      destruct k; try (apply IH; exact Hw).
      destruct (hit ci c) as [[c1 h] e]. destruct e; [okc|].
      destruct (if chk then cerr c1 else None); [okc|].
      destruct h; [apply Hch, Hw|apply IH, Hw].
  Qed.
End Walk1.

Section Loops1.
  Variable bodyf : ctx -> wr -> iterres.
  Variable elsef : ctx -> wr -> outcome.
  Hypothesis Hbody : forall c w, okw w -> Inv_it (bodyf c w).
  Hypothesis Helse : forall c w, okw w -> Inv_else (elsef c w).

  Lemma cloop_finish_inv has_else cnt idx saved c w trips :
    okw w -> Inv_out (cloop_finish elsef has_else cnt idx saved c w trips).
  Proof.
    intros Hw. unfold cloop_finish.
    destruct trips; [destruct has_else|]; try okc.
    match goal with |- context [elsef ?c0 w] => pose proof (Helse c0 w Hw) as E; destruct (elsef c0 w) end; okc.
    apply E; assumption.
  Qed.

  Lemma cloop_iter_inv has_else cnt sep condOp cntOp limv idx saved fuel :
    forall c w trips cur, okw w ->
    Inv_out (cloop_iter bodyf elsef has_else cnt sep condOp cntOp limv idx saved fuel c w trips cur).
  Proof.
    induction fuel as [|fuel IH]; intros c w trips cur Hw; cbn [cloop_iter];
      (destruct (cloop_allows condOp cur limv) as [allow|]; [|apply cloop_finish_inv, Hw]);
      (destruct (allow && (brkD c =? 0)); [|apply cloop_finish_inv, Hw]); [exact I|].
    match goal with |- context [wr_write w ?x] => set (out := x) end.
    pose proof (sep_ok w trips sep out Hw) as S.
    destruct (match trips, sep with
              | O, _ | _, [] => (w, None)
              | _, _ => let (w', ok) := wr_write w out in (w', if ok then None else Some EWriter)
              end) as [w1 sepe].
    destruct S as [[S1 S2]|S]; cbn [fst snd] in *; subst sepe; [|okc].
    match goal with |- context [bodyf ?c0 w1] => pose proof (Hbody c0 w1 S2) as B; destruct (bodyf c0 w1) as [c' w'|c' w'|c' w' e| |] end;
      cbn [Inv_it] in B; try exact I.
    - destruct (cloop_step _ _ _ _) as [[c'' nxt]|]; [apply IH, B|exact I].
    - destruct (cloop_step _ _ _ _) as [[c'' nxt]|]; apply cloop_finish_inv, B.
    - okc. rewrite B; auto.
  Qed.

  Lemma rloop_finish_inv has_else saved c w calls :
    okw w -> Inv_out (rloop_finish elsef has_else saved c w calls).
  Proof.
    intros Hw. unfold rloop_finish.
    destruct calls; [destruct has_else|]; try okc.
    match goal with |- context [elsef ?c0 w] => pose proof (Helse c0 w Hw) as E; destruct (elsef c0 w) end; okc.
    apply E; assumption.
  Qed.

  Lemma rloop_each_inv has_else key val sep saved els :
    forall c w calls trips, okw w ->
    Inv_out (rloop_each bodyf elsef has_else key val sep saved els c w calls trips).
  Proof.
    induction els as [|[kb ev] r IH]; intros c w calls trips Hw; cbn [rloop_each].
    - apply rloop_finish_inv, Hw.
    - match goal with |- context [0 <? brkD ?c0] => set (cc := c0) end.
      destruct (0 <? brkD cc); [apply rloop_finish_inv, Hw|].
      match goal with |- context [wr_write w ?x] => set (out := x) end.
      pose proof (sep_ok w trips sep out Hw) as S.
      destruct (match trips, sep with
                | O, _ | _, [] => (w, None)
                | _, _ => let (w', ok) := wr_write w out in (w', if ok then None else Some EWriter)
                end) as [w1 sepe].
      destruct S as [[S1 S2]|S]; cbn [fst snd] in *; subst sepe; [|okc].
      pose proof (Hbody cc w1 S2) as B. destruct (bodyf cc w1) as [c' w'|c' w'|c' w' e| |];
        cbn [Inv_it] in B; try exact I.
      + apply IH, B.
      + apply rloop_finish_inv, B.
      + okc. rewrite B; auto.
  Qed.
End Loops1.

Ltac brk :=
  match goal with
  | |- Inv_out (match ?x with _ => _ end) => destruct x eqn:?
  end.
Ltac leaf := first [exact I | solve [okc]].

Section Node1.
  Variable flits : list (bytes * Z).
  Variable lookup : list bytes -> option tree.
  Variable budget : nat.
  Variable inc : tree -> ctx -> option (ctx * bytes * option err).
  Notation wn := (write_node flits lookup budget inc).
  Notation rn := (run_nodes flits lookup budget inc).

  Lemma node_inv : forall n, NodeInv wn n.
  Proof.
    apply node_deep_ind. intros n IH c w Hw.
    destruct n; cbn [children] in IH; cbn [write_node]; try leaf.
    - (* NRaw *)
      pose proof (write_raw_ok (set_cerr None c) w raw Hw) as A.
      destruct (write_raw (set_cerr None c) w raw) as [w1 e].
      destruct A as [[A1 A2]|A]; cbn [fst snd] in *; subst; okc.
    - (* NTpl *)
      repeat brk; try leaf; apply write_value_inv, Hw.
    - (* NCond *)
      pose proof (Deep_Forall _ _ IH) as IH'.
      destruct child as [|ch1 [|ch2 rest]];
        repeat match goal with H : Forall _ (_ :: _) |- _ => inversion H; clear H; subst end;
        repeat brk; try leaf;
        match goal with H : NodeInv _ ?ch |- Inv_out (wn ?ch _ _) => apply H, Hw end.
    - (* NCondOK: whatever the chosen branch raises is what the node returns *)
      pose proof (Deep_Forall _ _ IH) as IH'.
      destruct child as [|ch1 [|ch2 rest]];
        repeat match goal with H : Forall _ (_ :: _) |- _ => inversion H; clear H; subst end;
        repeat brk; try leaf;
        match goal with H : NodeInv _ ?ch |- Inv_out (wn ?ch _ _) => apply H, Hw end.
    - (* NBlock *)
      apply walk_inv; [apply Deep_Forall, IH|exact Hw].
    - (* NLoopRange *)
      pose proof (deep_loop_body _ _ IH) as Hb. pose proof (deep_loop_else _ _ IH) as He.
      destruct (split_dot src) as [|k rest]; [leaf|].
      destruct (find_var k _) as [s|].
      + destruct (if s_static s then _ else _) as [els|]; [|exact I].
        apply rloop_each_inv; [intros; apply body_inv; assumption|intros; apply else_inv; assumption|exact Hw].
      + destruct (loop_has_else child); [|leaf].
        match goal with |- context [else_with wn ?l ?c0 w] =>
          pose proof (else_inv wn l He c0 w Hw) as E; destruct (else_with wn l c0 w) end; okc.
        apply E; assumption.
    - (* NLoopCount *)
      pose proof (deep_loop_body _ _ IH) as Hb. pose proof (deep_loop_else _ _ IH) as He.
      repeat brk; try leaf.
      apply cloop_iter_inv; [intros; apply body_inv; assumption|intros; apply else_inv; assumption|exact Hw].
    - (* NCtx *)
      repeat brk; leaf.
    - (* NCounter *)
      repeat brk; leaf.
    - (* NSwitch *)
      pose proof (Deep_Forall _ _ IH) as IH'.
      destruct arg; apply cases_inv; assumption.
    - (* NInclude *)
      destruct (lookup tpls) as [t|]; [|leaf].
      destruct (inc t _) as [[[c1 out] [e|]]|]; try leaf.
      pose proof (wrw_ok w out Hw) as A. destruct (wr_write w out) as [w1 ok].
      destruct A as [[A1 A2]|A]; cbn [fst snd] in *; destruct ok; try discriminate; okc.
  Qed.

  Lemma run_nodes_inv l : forall c w, okw w -> Inv_out (rn l c w).
  Proof.
    induction l as [|n r IH]; intros c w Hw; cbn [run_nodes]; [okc|].
    pose proof (node_inv n c w Hw) as H. destruct (wn n c w) as [c1 w1 e| |]; [|exact I|exact I].
    cbn [Inv_out] in H. destruct (w_failed w1) eqn:Hf.
    - rewrite (H eq_refl). okc.
    - destruct e; [okc|apply IH, Hf].
  Qed.

  Lemma write_tpl_inv t c w : okw w -> Inv_out (write_tpl flits lookup budget inc t c w).
  Proof.
    intros Hw. unfold write_tpl.
    match goal with |- context [rn t ?c0 w] =>
      pose proof (run_nodes_inv t c0 w Hw) as H; destruct (rn t c0 w) as [c1 w1 e| |] end; [|exact I|exact I].
    cbn [Inv_out] in H. destruct (w_failed w1) eqn:Hf.
    - rewrite (H eq_refl). okc.
    - destruct e as [[]|]; cbn [wd set_wd]; try (destruct (Nat.pred (wd c1))); okc.
  Qed.
End Node1.

Lemma render_inv flits lookup budget depth t c w :
  okw w -> Inv_out (render flits lookup budget depth t c w).
Proof. unfold render. apply write_tpl_inv. Qed.

(* the theorems, in the form quoted by Props/C17.v *)
Theorem fault_node flits lookup budget inc n c w c' w' e :
  w_failed w = false -> write_node flits lookup budget inc n c w = Out c' w' e ->
  w_failed w' = true -> e = Some EWriter.
Proof. intros Hw E. pose proof (node_inv flits lookup budget inc n c w Hw) as H. rewrite E in H. exact H. Qed.

(* the instance for if-ok blocks (where the engine used to swallow errors raised inside) *)
Corollary fault_node_condok flits lookup budget inc k ci child c w c' w' e :
  w_failed w = false -> write_node flits lookup budget inc (NCondOK k ci child) c w = Out c' w' e ->
  w_failed w' = true -> e = Some EWriter.
Proof. apply fault_node. Qed.

Theorem fault_nodes flits lookup budget inc l c w c' w' e :
  w_failed w = false -> run_nodes flits lookup budget inc l c w = Out c' w' e ->
  w_failed w' = true -> e = Some EWriter.
Proof. intros Hw E. pose proof (run_nodes_inv flits lookup budget inc l c w Hw) as H. rewrite E in H. exact H. Qed.

Theorem fault_tpl flits lookup budget inc t c w c' w' e :
  w_failed w = false -> write_tpl flits lookup budget inc t c w = Out c' w' e ->
  w_failed w' = true -> e = Some EWriter.
Proof. intros Hw E. pose proof (write_tpl_inv flits lookup budget inc t c w Hw) as H. rewrite E in H. exact H. Qed.

Theorem fault_render flits lookup budget depth t c w c' w' e :
  w_failed w = false -> render flits lookup budget depth t c w = Out c' w' e ->
  w_failed w' = true -> e = Some EWriter.
Proof. intros Hw E. pose proof (render_inv flits lookup budget depth t c w Hw) as H. rewrite E in H. exact H. Qed.

(* ------------------------------------------------------------------ part 2: prefix property *)

(* the two loop drivers, cut after the separator write (so that a run can be followed from
   the middle of an iteration); both equations hold by computation *)
Definition sepw (sep out : bytes) (w : wr) (trips : nat) : wr * option err :=
  match trips, sep with
  | O, _ | _, [] => (w, None)
  | _, _ => let (w', ok) := wr_write w out in (w', if ok then None else Some EWriter)
  end.

Section CLoopAfter.
  Variable bodyf : ctx -> wr -> iterres.
  Variable elsef : ctx -> wr -> outcome.
  Variable has_else : bool.
  Variables (cnt sep : bytes) (condOp cntOp : op) (limv : Z) (idx : nat) (saved : Z).
  Notation citer := (cloop_iter bodyf elsef has_else cnt sep condOp cntOp limv idx saved).
  Notation cfin := (cloop_finish elsef has_else cnt idx saved).

  Definition cloop_after (fuel' : nat) (prevQB : bool) (trips : nat) (cur : Z) (r : iterres) : outcome :=
    match r with
    | ItNext c' w' =>
      let c' := set_cerr None c' in
      match cloop_step cntOp idx (set_chQB prevQB c') cur with
      | Some (c'', nxt) => citer fuel' c'' w' (S trips) nxt
      | None => OutOfFuel
      end
    | ItStop c' w' =>
      let c' := set_cerr None c' in
      match cloop_step cntOp idx (set_chQB prevQB c') cur with
      | Some (c'', _) => cfin c'' w' (S trips)
      | None => cfin (set_cerr (Some EWrongLoopOp) (set_chQB prevQB c')) w' (S trips)
      end
    | ItAbort c' w' e => Out (set_cerr (Some e) (set_chQB prevQB c')) w' (Some e)
    | ItUnsupported => Unsupported
    | ItFuel => OutOfFuel
    end.

  Lemma cloop_iter_S fuel' c w trips cur :
    citer (S fuel') c w trips cur =
    match cloop_allows condOp cur limv with
    | None => cfin (set_cerr (Some EWrongLoopCond) c) w trips
    | Some allow =>
      if allow && (brkD c =? 0) then
        let c := ctx_set_static cnt (VCell idx) c in
        let '(w, sepe) := sepw sep (region_text c sep) w trips in
        match sepe with
        | Some e => Out (set_cerr (Some e) c) w (Some e)
        | None => cloop_after fuel' (chQB c) trips cur (bodyf (set_chQB true c) w)
        end
      else cfin c w trips
    end.
  Proof. reflexivity. Qed.

  Lemma cloop_iter_O c w trips cur :
    citer O c w trips cur =
    match cloop_allows condOp cur limv with
    | None => cfin (set_cerr (Some EWrongLoopCond) c) w trips
    | Some allow => if allow && (brkD c =? 0) then OutOfFuel else cfin c w trips
    end.
  Proof. reflexivity. Qed.
End CLoopAfter.

Section RLoopAfter.
  Variable bodyf : ctx -> wr -> iterres.
  Variable elsef : ctx -> wr -> outcome.
  Variable has_else : bool.
  Variables (key val sep : bytes) (saved : Z).
  Notation reach := (rloop_each bodyf elsef has_else key val sep saved).
  Notation rfin := (rloop_finish elsef has_else saved).

  Definition rloop_after (r0 : list (bytes * value)) (calls trips : nat) (r : iterres) : outcome :=
    match r with
    | ItNext c' w' => reach r0 c' w' (S calls) (S trips)
    | ItStop c' w' => rfin c' w' (S calls)
    | ItAbort c' w' e => Out (set_cerr (Some e) c') w' (Some e)
    | ItUnsupported => Unsupported
    | ItFuel => OutOfFuel
    end.

  Definition rloop_bind (kb : bytes) (ev : value) (c : ctx) : ctx :=
    let c := match key with
             | [] => c
             | _ => match kb with [] => ctx_set key (VBytes []) true c | _ => ctx_set_bytes key kb c end
             end in
    ctx_set val ev (elem_static ev) c.

  Lemma rloop_each_cons kb ev r0 c w calls trips :
    reach ((kb, ev) :: r0) c w calls trips =
    let c := rloop_bind kb ev c in
    if 0 <? brkD c then rfin c w (S calls)
    else
      let '(w, sepe) := sepw sep (region_text c sep) w trips in
      match sepe with
      | Some e => Out (set_cerr (Some e) c) w (Some e)
      | None => rloop_after r0 calls trips (bodyf c w)
      end.
  Proof. reflexivity. Qed.
End RLoopAfter.

(* ---- 2a: a healthy writer stays healthy and only ever grows ---- *)

Definition healthy (w : wr) : Prop := w_fail w = None /\ w_failed w = false.
Definition ext (w w' : wr) : Prop := exists rest, wr_bytes w' = wr_bytes w ++ rest.
Definition wpush (w : wr) (b : bytes) : wr := mkWr (b :: w_out w) (S (w_n w)) None (w_short w) false.

Lemma ext_refl w : ext w w.
Proof. exists []. symmetry. apply app_nil_r. Qed.
Lemma ext_trans w1 w2 w3 : ext w1 w2 -> ext w2 w3 -> ext w1 w3.
Proof. intros [r1 H1] [r2 H2]. exists (r1 ++ r2). rewrite H2, H1, app_assoc. reflexivity. Qed.
Lemma wr_bytes_push w b : wr_bytes (wpush w b) = wr_bytes w ++ b.
Proof. unfold wr_bytes, wpush. cbn. rewrite concat_app. cbn. rewrite app_nil_r. reflexivity. Qed.
Lemma ext_push w b : ext w (wpush w b).
Proof. exists b. apply wr_bytes_push. Qed.
Lemma healthy_push w b : healthy (wpush w b).
Proof. split; reflexivity. Qed.
Lemma wr_write_push w b : healthy w -> wr_write w b = (wpush w b, true).
Proof. intros [H1 H2]. unfold wr_write, wpush. rewrite H1, H2. reflexivity. Qed.
Lemma write_raw_push c w p : healthy w -> write_raw c w p = (wpush w (region_text c p), None).
Proof. intros H. unfold write_raw. rewrite (wr_write_push _ _ H). reflexivity. Qed.

Definition Hfrom (w : wr) (o : outcome) : Prop :=
  match o with Out _ w' _ => healthy w' /\ ext w w' | _ => True end.
Definition Hit (w : wr) (r : iterres) : Prop :=
  match r with
  | ItNext _ w' | ItStop _ w' | ItAbort _ w' _ => healthy w' /\ ext w w'
  | _ => True
  end.

Lemma Hfrom_trans w w1 o : ext w w1 -> Hfrom w1 o -> Hfrom w o.
Proof. intros E. destruct o; cbn; auto. intros [H1 H2]. split; [exact H1|eapply ext_trans; eassumption]. Qed.
Lemma Hit_trans w w1 r : ext w w1 -> Hit w1 r -> Hit w r.
Proof. intros E. destruct r; cbn; auto; intros [H1 H2]; (split; [exact H1|eapply ext_trans; eassumption]). Qed.
Lemma Hfrom_here c w e : healthy w -> Hfrom w (Out c w e).
Proof. intros H. split; [exact H|apply ext_refl]. Qed.
Lemma Hfrom_push c w b e : Hfrom w (Out c (wpush w b) e).
Proof. split; [apply healthy_push|apply ext_push]. Qed.

Lemma sepw_H sep out w trips :
  healthy w -> snd (sepw sep out w trips) = None /\ healthy (fst (sepw sep out w trips)) /\ ext w (fst (sepw sep out w trips)).
Proof.
  intros H. unfold sepw. destruct trips; [cbn; auto using ext_refl|].
  destruct sep; [cbn; auto using ext_refl|]. rewrite (wr_write_push _ _ H). cbn [fst snd].
  auto using healthy_push, ext_push.
Qed.

Lemma write_value_H c w t pfx sfx noesc : healthy w -> Hfrom w (write_value c w t pfx sfx noesc).
Proof.
  intros H. unfold write_value.
  assert (A : exists w1, (match pfx with [] => (w, None) | _ => write_raw c w pfx end) = (w1, None)
                         /\ healthy w1 /\ ext w w1).
  { destruct pfx; [exists w; auto using ext_refl|]. rewrite (write_raw_push _ _ _ H).
    eexists; split; [reflexivity|]. auto using healthy_push, ext_push. }
  destruct A as (w1 & -> & H1 & E1). apply (Hfrom_trans _ w1 _ E1).
  assert (B : exists w2, (if noesc then let (w', ok) := wr_write w1 t in (w', if ok then None else Some EWriter)
                          else write_raw c w1 t) = (w2, None) /\ healthy w2 /\ ext w1 w2).
  { destruct noesc; [rewrite (wr_write_push _ _ H1)|rewrite (write_raw_push _ _ _ H1)];
      (eexists; split; [reflexivity|]); auto using healthy_push, ext_push. }
  destruct B as (w2 & -> & H2 & E2). apply (Hfrom_trans _ w2 _ E2).
  destruct sfx; [apply Hfrom_here, H2|]. rewrite (write_raw_push _ _ _ H2). apply Hfrom_push.
Qed.

Section WalkH.
  Variable f : node -> ctx -> wr -> outcome.
  Definition NodeH (n : node) : Prop := forall c w, healthy w -> Hfrom w (f n c w).

  Lemma walk_H l : Forall NodeH l -> forall c w lazy, healthy w -> Hfrom w (walk_with f l c w lazy).
  Proof.
    induction 1 as [|ch r Hch Hr IH]; intros c w lazy Hw; cbn [walk_with]; [apply Hfrom_here, Hw|].
    specialize (Hch c w Hw). destruct (f ch c w) as [c1 w1 e| |]; [|exact I|exact I].
    destruct Hch as [S1 S2].
    destruct e as [[]|]; try (apply (Hfrom_trans _ w1); [exact S2|apply IH; exact S1]); (split; assumption).
  Qed.

  Lemma body_H l : Forall NodeH l -> forall c w lazy, healthy w -> Hit w (body_with f l c w lazy).
  Proof.
    induction 1 as [|ch r Hch Hr IH]; intros c w lazy Hw; cbn [body_with].
    - destruct lazy; (split; [exact Hw|apply ext_refl]).
    - specialize (Hch c w Hw). destruct (f ch c w) as [c1 w1 e| |]; [|exact I|exact I].
      destruct Hch as [S1 S2].
      destruct e as [[]|]; try (apply (Hit_trans _ w1); [exact S2|apply IH; exact S1]);
        try destruct lazy; (split; assumption).
  Qed.

  Lemma else_H l : Forall NodeH l -> forall c w, healthy w -> Hfrom w (else_with f l c w).
  Proof.
    induction 1 as [|ch r Hch Hr IH]; intros c w Hw; cbn [else_with]; [apply Hfrom_here, Hw|].
    specialize (Hch c w Hw). destruct (f ch c w) as [c1 w1 e| |]; [|exact I|exact I].
    destruct Hch as [S1 S2].
    destruct e as [e|]; [split; assumption|]. apply (Hfrom_trans _ w1); [exact S2|apply IH; exact S1].
  Qed.

  Lemma default_H l : Forall NodeH l -> forall c w, healthy w -> Hfrom w (default_with f l c w).
  Proof.
    induction 1 as [|ch r Hch Hr IH]; intros c w Hw; cbn [default_with]; [apply Hfrom_here, Hw|].
    destruct ch; try (apply IH; exact Hw).
    destruct k; try (apply IH; exact Hw). apply Hch, Hw.
  Qed.

  Lemma cases_H hit chk all l : Forall NodeH all -> Forall NodeH l ->
    forall c w, healthy w -> Hfrom w (cases_with f hit chk all l c w).
  Proof.
    intros Hall. induction 1 as [|ch r Hch Hr IH]; intros c w Hw; cbn [cases_with].
    - apply default_H; assumption.
    - destruct ch; try (apply IH; exact Hw).
      destruct k; try (apply IH; exact Hw).
      destruct (hit ci c) as [[c1 h] e]. destruct e; [apply Hfrom_here, Hw|].
      destruct (if chk then cerr c1 else None); [apply Hfrom_here, Hw|].
      destruct h; [apply Hch, Hw|apply IH, Hw].
  Qed.
End WalkH.

Section LoopsH.
  Variable bodyf : ctx -> wr -> iterres.
  Variable elsef : ctx -> wr -> outcome.
  Hypothesis Hbody : forall c w, healthy w -> Hit w (bodyf c w).
  Hypothesis Helse : forall c w, healthy w -> Hfrom w (elsef c w).

  Lemma cloop_finish_H has_else cnt idx saved c w trips :
    healthy w -> Hfrom w (cloop_finish elsef has_else cnt idx saved c w trips).
  Proof.
    intros Hw. unfold cloop_finish.
    destruct trips; [destruct has_else|]; try (apply Hfrom_here, Hw).
    match goal with |- context [elsef ?c0 w] => pose proof (Helse c0 w Hw) as E; destruct (elsef c0 w) end;
      try exact I. exact E.
  Qed.

  Lemma cloop_after_H has_else cnt sep condOp cntOp limv idx saved fuel' :
    (forall c w trips cur, healthy w ->
       Hfrom w (cloop_iter bodyf elsef has_else cnt sep condOp cntOp limv idx saved fuel' c w trips cur)) ->
    forall q trips cur w r, Hit w r ->
      Hfrom w (cloop_after bodyf elsef has_else cnt sep condOp cntOp limv idx saved fuel' q trips cur r).
  Proof.
    intros IH q trips cur w r Hr. destruct r as [c' w'|c' w'|c' w' e| |]; cbn [cloop_after Hit] in *; try exact I.
    - destruct Hr as [H1 H2]. destruct (cloop_step _ _ _ _) as [[c'' nxt]|]; [|exact I].
      apply (Hfrom_trans _ w'); [exact H2|apply IH, H1].
    - destruct Hr as [H1 H2].
      destruct (cloop_step _ _ _ _) as [[c'' nxt]|]; (apply (Hfrom_trans _ w'); [exact H2|apply cloop_finish_H, H1]).
    - exact Hr.
  Qed.

  Lemma cloop_iter_H has_else cnt sep condOp cntOp limv idx saved fuel :
    forall c w trips cur, healthy w ->
    Hfrom w (cloop_iter bodyf elsef has_else cnt sep condOp cntOp limv idx saved fuel c w trips cur).
  Proof.
    induction fuel as [|fuel IH]; intros c w trips cur Hw; [rewrite cloop_iter_O|rewrite cloop_iter_S];
      (destruct (cloop_allows condOp cur limv) as [allow|]; [|apply cloop_finish_H, Hw]);
      (destruct (allow && (brkD c =? 0)); [|apply cloop_finish_H, Hw]); [exact I|].
    cbv zeta. match goal with |- context [sepw sep ?x w trips] => set (out := x) end.
    pose proof (sepw_H sep out w trips Hw) as (S1 & S2 & S3).
    destruct (sepw sep out w trips) as [w1 sepe]. cbn [fst snd] in *. subst sepe.
    apply (Hfrom_trans _ w1); [exact S3|]. apply cloop_after_H; [exact IH|]. apply Hbody, S2.
  Qed.

  Lemma rloop_finish_H has_else saved c w calls :
    healthy w -> Hfrom w (rloop_finish elsef has_else saved c w calls).
  Proof.
    intros Hw. unfold rloop_finish.
    destruct calls; [destruct has_else|]; try (apply Hfrom_here, Hw).
    match goal with |- context [elsef ?c0 w] => pose proof (Helse c0 w Hw) as E; destruct (elsef c0 w) end;
      try exact I. exact E.
  Qed.

  Lemma rloop_after_H has_else key val sep saved r0 :
    (forall c w calls trips, healthy w ->
       Hfrom w (rloop_each bodyf elsef has_else key val sep saved r0 c w calls trips)) ->
    forall calls trips w r, Hit w r ->
      Hfrom w (rloop_after bodyf elsef has_else key val sep saved r0 calls trips r).
  Proof.
    intros IH calls trips w r Hr. destruct r as [c' w'|c' w'|c' w' e| |]; cbn [rloop_after Hit] in *; try exact I.
    - destruct Hr as [H1 H2]. apply (Hfrom_trans _ w'); [exact H2|apply IH, H1].
    - destruct Hr as [H1 H2]. apply (Hfrom_trans _ w'); [exact H2|apply rloop_finish_H, H1].
    - exact Hr.
  Qed.

  Lemma rloop_each_H has_else key val sep saved els :
    forall c w calls trips, healthy w ->
    Hfrom w (rloop_each bodyf elsef has_else key val sep saved els c w calls trips).
  Proof.
    induction els as [|[kb ev] r IH]; intros c w calls trips Hw.
    - apply rloop_finish_H, Hw.
    - rewrite rloop_each_cons. cbv zeta.
      destruct (0 <? brkD _); [apply rloop_finish_H, Hw|].
      match goal with |- context [sepw sep ?x w trips] => set (out := x) end.
      pose proof (sepw_H sep out w trips Hw) as (S1 & S2 & S3).
      destruct (sepw sep out w trips) as [w1 sepe]. cbn [fst snd] in *. subst sepe.
      apply (Hfrom_trans _ w1); [exact S3|]. apply rloop_after_H; [exact IH|]. apply Hbody, S2.
  Qed.
End LoopsH.

Ltac brkH :=
  match goal with
  | |- Hfrom _ (match ?x with _ => _ end) => destruct x eqn:?
  end.

Section NodeHSec.
  Variable flits : list (bytes * Z).
  Variable lookup : list bytes -> option tree.
  Variable budget : nat.
  Variable inc : tree -> ctx -> option (ctx * bytes * option err).
  Notation wn := (write_node flits lookup budget inc).
  Notation rn := (run_nodes flits lookup budget inc).

  Lemma node_H : forall n, NodeH wn n.
  Proof.
    apply node_deep_ind. intros n IH c w Hw.
    pose proof (fun c e => Hfrom_here c w e Hw) as Hhere.
    destruct n; cbn [children] in IH; cbn [write_node]; try (first [exact I|apply Hhere]).
    - (* NRaw *) rewrite (write_raw_push _ _ _ Hw). apply Hfrom_push.
    - (* NTpl *) repeat brkH; try (first [exact I|apply Hhere]); apply write_value_H, Hw.
    - (* NCond *)
      pose proof (Deep_Forall _ _ IH) as IH'.
      destruct child as [|ch1 [|ch2 rest]];
        repeat match goal with H : Forall _ (_ :: _) |- _ => inversion H; clear H; subst end;
        repeat brkH; try (first [exact I|apply Hhere]);
        match goal with H : NodeH _ ?ch |- Hfrom _ (wn ?ch _ _) => apply H, Hw end.
    - (* NCondOK *)
      pose proof (Deep_Forall _ _ IH) as IH'.
      destruct child as [|ch1 [|ch2 rest]];
        repeat match goal with H : Forall _ (_ :: _) |- _ => inversion H; clear H; subst end;
        repeat brkH; try (first [exact I|apply Hhere]);
        match goal with H : NodeH _ ?ch |- Hfrom _ (wn ?ch _ _) => apply H, Hw end.
    - (* NBlock *) apply walk_H; [apply Deep_Forall, IH|exact Hw].
    - (* NLoopRange *)
      pose proof (deep_loop_body _ _ IH) as Hb. pose proof (deep_loop_else _ _ IH) as He.
      destruct (split_dot src) as [|k rest]; [apply Hhere|].
      destruct (find_var k _) as [s|].
      + destruct (if s_static s then _ else _) as [els|]; [|exact I].
        apply rloop_each_H; [intros; apply body_H; assumption|intros; apply else_H; assumption|exact Hw].
      + destruct (loop_has_else child); [|apply Hhere].
        match goal with |- context [else_with wn ?l ?c0 w] =>
          pose proof (else_H wn l He c0 w Hw) as E; destruct (else_with wn l c0 w) end; try exact I.
        exact E.
    - (* NLoopCount *)
      pose proof (deep_loop_body _ _ IH) as Hb. pose proof (deep_loop_else _ _ IH) as He.
      repeat brkH; try (first [exact I|apply Hhere]).
      apply cloop_iter_H; [intros; apply body_H; assumption|intros; apply else_H; assumption|exact Hw].
    - (* NCtx *) repeat brkH; first [exact I|apply Hhere].
    - (* NCounter *) repeat brkH; first [exact I|apply Hhere].
    - (* NSwitch *)
      pose proof (Deep_Forall _ _ IH) as IH'.
      destruct arg; apply cases_H; assumption.
    - (* NInclude *)
      destruct (lookup tpls) as [t|]; [|apply Hhere].
      destruct (inc t _) as [[[c1 out] [e|]]|]; try (first [exact I|apply Hhere]).
      rewrite (wr_write_push _ _ Hw). apply Hfrom_push.
  Qed.

  Lemma run_nodes_H l : forall c w, healthy w -> Hfrom w (rn l c w).
  Proof.
    induction l as [|n r IH]; intros c w Hw; cbn [run_nodes]; [apply Hfrom_here, Hw|].
    pose proof (node_H n c w Hw) as H. destruct (wn n c w) as [c1 w1 e| |]; [|exact I|exact I].
    destruct H as [H1 H2]. destruct e; [split; assumption|]. apply (Hfrom_trans _ w1); [exact H2|apply IH, H1].
  Qed.
End NodeHSec.

(* ---- 2b: a failing run and a healthy run move in lock step up to the fault ---- *)

(* same accepted chunks, same number of calls, nothing failed yet; the fault position and the
   short-write length of the first writer are arbitrary *)
Definition sync (wf wh : wr) : Prop :=
  w_failed wf = false /\ healthy wh /\ w_out wf = w_out wh /\ w_n wf = w_n wh.
(* what the first writer accepted is a prefix of what the second holds *)
Definition pre (wf wh : wr) : Prop := exists rest, wr_bytes wh = wr_bytes wf ++ rest.

Definition Pfrom (wf : wr) (o : outcome) : Prop :=
  match o with Out _ wh _ => pre wf wh | _ => True end.
Definition Pit (wf : wr) (r : iterres) : Prop :=
  match r with ItNext _ wh | ItStop _ wh | ItAbort _ wh _ => pre wf wh | _ => True end.

Definition SimOut (of oh : outcome) : Prop :=
  match of with
  | Out cf wf' ef =>
    if w_failed wf' then ef = Some EWriter /\ Pfrom wf' oh
    else exists wh', oh = Out cf wh' ef /\ sync wf' wh'
  | Unsupported => oh = Unsupported
  | OutOfFuel => oh = OutOfFuel
  end.
Definition SimIt (rf rh : iterres) : Prop :=
  match rf with
  | ItNext cf wf' => exists wh', rh = ItNext cf wh' /\ sync wf' wh'
  | ItStop cf wf' => exists wh', rh = ItStop cf wh' /\ sync wf' wh'
  | ItAbort cf wf' e =>
    if w_failed wf' then e = EWriter /\ Pit wf' rh
    else exists wh', rh = ItAbort cf wh' e /\ sync wf' wh'
  | ItUnsupported => rh = ItUnsupported
  | ItFuel => rh = ItFuel
  end.
Definition SimElse (of oh : outcome) : Prop :=
  match of with
  | Out cf wf' ef =>
    if w_failed wf' then cerr cf = Some EWriter /\ Pfrom wf' oh
    else exists wh', oh = Out cf wh' ef /\ sync wf' wh'
  | Unsupported => oh = Unsupported
  | OutOfFuel => oh = OutOfFuel
  end.

Lemma sync_healthy wf wh : sync wf wh -> healthy wh.
Proof. intros (_ & H & _). exact H. Qed.
Lemma sync_okw wf wh : sync wf wh -> w_failed wf = false.
Proof. intros (H & _). exact H. Qed.
Lemma sync_n wf wh : sync wf wh -> w_n wf = w_n wh.
Proof. intros (_ & _ & _ & H). exact H. Qed.
Lemma sync_bytes wf wh : sync wf wh -> wr_bytes wf = wr_bytes wh.
Proof. intros (_ & _ & H & _). unfold wr_bytes. rewrite H. reflexivity. Qed.
Lemma sync_pre wf wh : sync wf wh -> pre wf wh.
Proof. intros H. exists []. rewrite (sync_bytes _ _ H), app_nil_r. reflexivity. Qed.

Lemma pre_ext wf w1 w2 : pre wf w1 -> ext w1 w2 -> pre wf w2.
Proof. intros [r1 H1] [r2 H2]. exists (r1 ++ r2). rewrite H2, H1, app_assoc. reflexivity. Qed.
Lemma Pfrom_of_H wf w1 o : pre wf w1 -> Hfrom w1 o -> Pfrom wf o.
Proof. intros P. destruct o; cbn; auto. intros [_ E]. eapply pre_ext; eassumption. Qed.

Lemma simout_sync c wf wh e : sync wf wh -> SimOut (Out c wf e) (Out c wh e).
Proof. intros H. cbn. rewrite (sync_okw _ _ H). exists wh. split; [reflexivity|exact H]. Qed.
Lemma simout_failed c wf e oh : w_failed wf = true -> e = Some EWriter -> Pfrom wf oh -> SimOut (Out c wf e) oh.
Proof. intros H1 H2 H3. cbn. rewrite H1. split; assumption. Qed.
Lemma simelse_sync c wf wh e : sync wf wh -> SimElse (Out c wf e) (Out c wh e).
Proof. intros H. cbn. rewrite (sync_okw _ _ H). exists wh. split; [reflexivity|exact H]. Qed.

(* one Write call on both sides *)
Lemma wr_write_sim wf wh b : sync wf wh ->
  (snd (wr_write wf b) = true /\ sync (fst (wr_write wf b)) (wpush wh b)) \/
  (snd (wr_write wf b) = false /\ w_failed (fst (wr_write wf b)) = true /\ pre (fst (wr_write wf b)) (wpush wh b)).
Proof.
  intros (H1 & H2 & H3 & H4).
  assert (G : sync (mkWr (b :: w_out wf) (S (w_n wf)) (w_fail wf) (w_short wf) (w_failed wf)) (wpush wh b)).
  { repeat split; cbn; [exact H1|congruence|congruence]. }
  assert (Eb : wr_bytes wf = wr_bytes wh) by (unfold wr_bytes; rewrite H3; reflexivity).
  unfold wr_write. destruct (w_fail wf) as [k|] eqn:Ek.
  - destruct (Nat.ltb _ _); [left; cbn [fst snd]; split; [reflexivity|exact G]|].
    destruct (Nat.eqb _ _); right; cbn [fst snd w_failed]; (split; [reflexivity|split; [reflexivity|]]).
    + exists (skipn (w_short wf) b). rewrite wr_bytes_push. unfold wr_bytes at 2. cbn [w_out].
      cbn [rev]. rewrite concat_app. cbn [concat]. rewrite app_nil_r. fold (wr_bytes wf).
      rewrite Eb, <- app_assoc, firstn_skipn. reflexivity.
    + exists b. rewrite wr_bytes_push. unfold wr_bytes at 2. cbn [w_out]. fold (wr_bytes wf).
      rewrite Eb. reflexivity.
  - left; cbn [fst snd]; split; [reflexivity|]. try rewrite Ek in G. exact G.
Qed.

(* result of a write step: both went through in sync, or the first failed here *)
Definition SimW (pf ph : wr * option err) : Prop :=
  snd ph = None /\ healthy (fst ph) /\
  ((snd pf = None /\ sync (fst pf) (fst ph)) \/
   (snd pf = Some EWriter /\ w_failed (fst pf) = true /\ pre (fst pf) (fst ph))).

Lemma wrw_sim wf wh b : sync wf wh ->
  SimW (let (w', ok) := wr_write wf b in (w', if ok then None else Some EWriter))
       (let (w', ok) := wr_write wh b in (w', if ok then None else Some EWriter)).
Proof.
  intros H. rewrite (wr_write_push _ _ (sync_healthy _ _ H)).
  pose proof (wr_write_sim wf wh b H) as S. destruct (wr_write wf b) as [wf1 ok]. cbn [fst snd] in *.
  split; [reflexivity|]. split; [apply healthy_push|].
  destruct S as [[-> S]|(-> & S1 & S2)]; [left|right]; auto.
Qed.

Lemma write_raw_sim c wf wh p : sync wf wh -> SimW (write_raw c wf p) (write_raw c wh p).
Proof. intros H. unfold write_raw. apply wrw_sim, H. Qed.

Lemma sepw_sim sep out wf wh trips : sync wf wh -> SimW (sepw sep out wf trips) (sepw sep out wh trips).
Proof.
  intros H. unfold sepw.
  assert (G : SimW (wf, None) (wh, None)).
  { split; [reflexivity|]. split; [exact (sync_healthy _ _ H)|]. left. split; [reflexivity|exact H]. }
  destruct trips; [exact G|]. destruct sep; [exact G|]. apply wrw_sim, H.
Qed.

Lemma write_value_sim c wf wh t pfx sfx noesc :
  sync wf wh -> SimOut (write_value c wf t pfx sfx noesc) (write_value c wh t pfx sfx noesc).
Proof.
  intros H.
  pose proof (write_value_H c wh t pfx sfx noesc (sync_healthy _ _ H)) as HH. revert HH.
  unfold write_value.
  assert (A : SimW (match pfx with [] => (wf, None) | _ => write_raw c wf pfx end)
                   (match pfx with [] => (wh, None) | _ => write_raw c wh pfx end)).
  { destruct pfx; [|apply write_raw_sim, H].
    split; [reflexivity|]. split; [exact (sync_healthy _ _ H)|]. left. split; [reflexivity|exact H]. }
  destruct (match pfx with [] => (wf, None) | _ => write_raw c wf pfx end) as [wf1 ef1].
  destruct (match pfx with [] => (wh, None) | _ => write_raw c wh pfx end) as [wh1 eh1].
  destruct A as (A1 & A2 & A3). cbn [fst snd] in *. subst eh1.
  destruct A3 as [[-> A3]|(-> & A3 & A4)].
  2:{ (* the prefix write failed: the healthy run goes on alone *)
      intros _. apply simout_failed; [exact A3|reflexivity|].
      apply (Pfrom_of_H _ wh1); [exact A4|].
      exact (write_value_H c wh1 t [] sfx noesc A2). }
  assert (B : SimW (if noesc then let (w', ok) := wr_write wf1 t in (w', if ok then None else Some EWriter)
                    else write_raw c wf1 t)
                   (if noesc then let (w', ok) := wr_write wh1 t in (w', if ok then None else Some EWriter)
                    else write_raw c wh1 t)).
  { destruct noesc; [apply wrw_sim, A3|apply write_raw_sim, A3]. }
  destruct (if noesc then let (w', ok) := wr_write wf1 t in _ else write_raw c wf1 t) as [wf2 ef2].
  destruct (if noesc then let (w', ok) := wr_write wh1 t in _ else write_raw c wh1 t) as [wh2 eh2].
  destruct B as (B1 & B2 & B3). cbn [fst snd] in *. subst eh2.
  destruct B3 as [[-> B3]|(-> & B3 & B4)].
  2:{ intros _. apply simout_failed; [exact B3|reflexivity|].
      destruct sfx; [exact B4|]. rewrite (write_raw_push _ _ _ B2). cbn [Pfrom].
      eapply pre_ext; [exact B4|apply ext_push]. }
  intros _. destruct sfx as [|s0 sfx]; [apply simout_sync, B3|].
  pose proof (write_raw_sim c wf2 wh2 (s0 :: sfx) B3) as C.
  destruct (write_raw c wf2 (s0 :: sfx)) as [wf3 ef3]. destruct (write_raw c wh2 (s0 :: sfx)) as [wh3 eh3].
  destruct C as (C1 & C2 & C3). cbn [fst snd] in *. subst eh3.
  destruct C3 as [[-> C3]|(-> & C3 & C4)]; [apply simout_sync, C3|].
  apply simout_failed; [exact C3|reflexivity|exact C4].
Qed.

Lemma all_Forall {A} (P : A -> Prop) (l : list A) : (forall x, P x) -> Forall P l.
Proof. intros H. induction l; constructor; auto. Qed.

Section WalkS.
  Variable f : node -> ctx -> wr -> outcome.
  Hypothesis HfH : forall n, NodeH f n.
  Definition NodeS (n : node) : Prop := forall c wf wh, sync wf wh -> SimOut (f n c wf) (f n c wh).

  Lemma walk_sim l : Forall NodeS l ->
    forall c wf wh lazy, sync wf wh -> SimOut (walk_with f l c wf lazy) (walk_with f l c wh lazy).
  Proof.
    induction 1 as [|ch r Hch Hr IH]; intros c wf wh lazy Hs; cbn [walk_with]; [apply simout_sync, Hs|].
    pose proof (Hch c wf wh Hs) as S. pose proof (HfH ch c wh (sync_healthy _ _ Hs)) as HH.
    destruct (f ch c wf) as [c1 wf1 e| |]; cbn [SimOut] in S.
    - destruct (w_failed wf1) eqn:Hf.
      + destruct S as [-> P]. apply simout_failed; [exact Hf|reflexivity|].
        destruct (f ch c wh) as [c1h wh1 eh| |]; cbn [Pfrom Hfrom] in *; try exact I.
        destruct HH as [HH1 HH2].
        destruct eh as [[]|]; cbn [Pfrom]; try exact P;
          (apply (Pfrom_of_H _ wh1); [exact P|apply walk_H; [apply all_Forall, HfH|exact HH1]]).
      + destruct S as (wh1 & E & Hs1). rewrite E.
        destruct e as [[]|]; try (apply IH; exact Hs1); apply simout_sync, Hs1.
    - rewrite S. reflexivity.
    - rewrite S. reflexivity.
  Qed.

  Lemma body_sim l : Forall NodeS l ->
    forall c wf wh lazy, sync wf wh -> SimIt (body_with f l c wf lazy) (body_with f l c wh lazy).
  Proof.
    induction 1 as [|ch r Hch Hr IH]; intros c wf wh lazy Hs; cbn [body_with].
    - destruct lazy; cbn [SimIt]; exists wh; (split; [reflexivity|exact Hs]).
    - pose proof (Hch c wf wh Hs) as S. pose proof (HfH ch c wh (sync_healthy _ _ Hs)) as HH.
      destruct (f ch c wf) as [c1 wf1 e| |]; cbn [SimOut] in S.
      + destruct (w_failed wf1) eqn:Hf.
        * destruct S as [-> P]. cbn [SimIt]. rewrite Hf. split; [reflexivity|].
          destruct (f ch c wh) as [c1h wh1 eh| |]; cbn [Pfrom Hfrom] in *; try exact I.
          destruct HH as [HH1 HH2].
          assert (G : forall lz, Pit wf1 (body_with f r c1h wh1 lz)).
          { intros lz. pose proof (body_H f r (all_Forall _ _ HfH) c1h wh1 lz HH1) as B.
            destruct (body_with f r c1h wh1 lz); cbn [Pit Hit] in *; try exact I;
              (eapply pre_ext; [exact P|apply B]). }
          destruct eh as [[]|]; cbn [Pit]; try exact P; try apply G; destruct lazy; exact P.
        * destruct S as (wh1 & E & Hs1). rewrite E.
          destruct e as [[]|]; try (apply IH; exact Hs1); try destruct lazy; cbn [SimIt]; try rewrite Hf;
            exists wh1; (split; [reflexivity|exact Hs1]).
      + rewrite S. reflexivity.
      + rewrite S. reflexivity.
  Qed.

  Lemma else_sim l : Forall NodeS l ->
    forall c wf wh, sync wf wh -> SimElse (else_with f l c wf) (else_with f l c wh).
  Proof.
    induction 1 as [|ch r Hch Hr IH]; intros c wf wh Hs; cbn [else_with]; [apply simelse_sync, Hs|].
    pose proof (Hch c wf wh Hs) as S. pose proof (HfH ch c wh (sync_healthy _ _ Hs)) as HH.
    destruct (f ch c wf) as [c1 wf1 e| |]; cbn [SimOut] in S.
    - destruct (w_failed wf1) eqn:Hf.
      + destruct S as [-> P]. cbn [SimElse]. rewrite Hf. split; [reflexivity|].
        destruct (f ch c wh) as [c1h wh1 eh| |]; cbn [Pfrom Hfrom] in *; try exact I.
        destruct HH as [HH1 HH2].
        destruct eh as [eh|]; cbn [Pfrom]; [exact P|].
        apply (Pfrom_of_H _ wh1); [exact P|apply else_H; [apply all_Forall, HfH|exact HH1]].
      + destruct S as (wh1 & E & Hs1). rewrite E.
        destruct e as [e|]; [apply simelse_sync, Hs1|apply IH, Hs1].
    - rewrite S. reflexivity.
    - rewrite S. reflexivity.
  Qed.

  Lemma default_sim l : Forall NodeS l ->
    forall c wf wh, sync wf wh -> SimOut (default_with f l c wf) (default_with f l c wh).
  Proof.
    induction 1 as [|ch r Hch Hr IH]; intros c wf wh Hs; cbn [default_with]; [apply simout_sync, Hs|].
    destruct ch; try (apply IH; exact Hs).
    destruct k; try (apply IH; exact Hs). apply Hch, Hs.
  Qed.

  Lemma cases_sim hit chk all l : Forall NodeS all -> Forall NodeS l ->
    forall c wf wh, sync wf wh -> SimOut (cases_with f hit chk all l c wf) (cases_with f hit chk all l c wh).
  Proof.
    intros Hall. induction 1 as [|ch r Hch Hr IH]; intros c wf wh Hs; cbn [cases_with].
    - apply default_sim; assumption.
    - destruct ch; try (apply IH; exact Hs).
      destruct k; try (apply IH; exact Hs).
      destruct (hit ci c) as [[c1 h] e]. destruct e; [apply simout_sync, Hs|].
      destruct (if chk then cerr c1 else None); [apply simout_sync, Hs|].
      destruct h; [apply Hch, Hs|apply IH, Hs].
  Qed.
End WalkS.

Section LoopsS.
  Variable bodyf : ctx -> wr -> iterres.
  Variable elsef : ctx -> wr -> outcome.
  Hypothesis HbodyH : forall c w, healthy w -> Hit w (bodyf c w).
  Hypothesis HelseH : forall c w, healthy w -> Hfrom w (elsef c w).
  Hypothesis Hbody : forall c wf wh, sync wf wh -> SimIt (bodyf c wf) (bodyf c wh).
  Hypothesis Helse : forall c wf wh, sync wf wh -> SimElse (elsef c wf) (elsef c wh).

  Lemma cloop_finish_sim has_else cnt idx saved c wf wh trips :
    sync wf wh ->
    SimOut (cloop_finish elsef has_else cnt idx saved c wf trips)
           (cloop_finish elsef has_else cnt idx saved c wh trips).
  Proof.
    intros Hs. unfold cloop_finish.
    destruct trips; [destruct has_else|]; try (apply simout_sync, Hs).
    match goal with |- context [elsef ?c0 wf] => pose proof (Helse c0 wf wh Hs) as E; destruct (elsef c0 wf) as [c' wf' e'| |] end;
      cbn [SimElse] in E; try (rewrite E; reflexivity).
    destruct (w_failed wf') eqn:Hf.
    - destruct E as [E1 E2]. apply simout_failed; [exact Hf|exact E1|].
      destruct (elsef _ wh); cbn [Pfrom] in *; try exact I. exact E2.
    - destruct E as (wh' & -> & Hs'). apply simout_sync, Hs'.
  Qed.

  Lemma cloop_after_sim has_else cnt sep condOp cntOp limv idx saved fuel' :
    (forall c wf wh trips cur, sync wf wh ->
       SimOut (cloop_iter bodyf elsef has_else cnt sep condOp cntOp limv idx saved fuel' c wf trips cur)
              (cloop_iter bodyf elsef has_else cnt sep condOp cntOp limv idx saved fuel' c wh trips cur)) ->
    forall q trips cur wh0 rf rh, Hit wh0 rh -> SimIt rf rh ->
      SimOut (cloop_after bodyf elsef has_else cnt sep condOp cntOp limv idx saved fuel' q trips cur rf)
             (cloop_after bodyf elsef has_else cnt sep condOp cntOp limv idx saved fuel' q trips cur rh).
  Proof.
    intros IH q trips cur wh0 rf rh HH S.
    destruct rf as [c' wf'|c' wf'|c' wf' e| |]; cbn [SimIt] in S.
    - destruct S as (wh' & -> & Hs). cbn [cloop_after].
      destruct (cloop_step _ _ _ _) as [[c'' nxt]|]; [apply IH, Hs|reflexivity].
    - destruct S as (wh' & -> & Hs). cbn [cloop_after].
      destruct (cloop_step _ _ _ _) as [[c'' nxt]|]; apply cloop_finish_sim, Hs.
    - destruct (w_failed wf') eqn:Hf.
      + destruct S as [-> P]. cbn [cloop_after]. apply simout_failed; [exact Hf|reflexivity|].
        assert (G : Hfrom wh0 (cloop_after bodyf elsef has_else cnt sep condOp cntOp limv idx saved fuel' q trips cur rh)).
        { apply cloop_after_H; try assumption. intros; apply cloop_iter_H; assumption. }
        (* the healthy remainder extends the healthy result of this iteration *)
        destruct rh as [ch wh1|ch wh1|ch wh1 eh| |]; cbn [Pit Hit cloop_after] in *; try exact I.
        * destruct HH as [HH1 HH2]. destruct (cloop_step _ _ _ _) as [[c'' nxt]|]; [|exact I].
          apply (Pfrom_of_H _ wh1); [exact P|apply cloop_iter_H; assumption].
        * destruct HH as [HH1 HH2].
          destruct (cloop_step _ _ _ _) as [[c'' nxt]|];
            (apply (Pfrom_of_H _ wh1); [exact P|apply cloop_finish_H; assumption]).
        * exact P.
      + destruct S as (wh' & -> & Hs). cbn [cloop_after]. apply simout_sync, Hs.
    - subst rh. reflexivity.
    - subst rh. reflexivity.
  Qed.

  Lemma cloop_iter_sim has_else cnt sep condOp cntOp limv idx saved fuel :
    forall c wf wh trips cur, sync wf wh ->
    SimOut (cloop_iter bodyf elsef has_else cnt sep condOp cntOp limv idx saved fuel c wf trips cur)
           (cloop_iter bodyf elsef has_else cnt sep condOp cntOp limv idx saved fuel c wh trips cur).
  Proof.
    induction fuel as [|fuel IH]; intros c wf wh trips cur Hs; [rewrite !cloop_iter_O|rewrite !cloop_iter_S];
      (destruct (cloop_allows condOp cur limv) as [allow|]; [|apply cloop_finish_sim, Hs]);
      (destruct (allow && (brkD c =? 0)); [|apply cloop_finish_sim, Hs]); [reflexivity|].
    cbv zeta. match goal with |- context [sepw sep ?x wf trips] => set (out := x) end.
    pose proof (sepw_sim sep out wf wh trips Hs) as S.
    destruct (sepw sep out wf trips) as [wf1 ef]. destruct (sepw sep out wh trips) as [wh1 eh].
    destruct S as (S1 & S2 & S3). cbn [fst snd] in *. subst eh.
    destruct S3 as [[-> S3]|(-> & S3 & S4)].
    - apply (cloop_after_sim _ _ _ _ _ _ _ _ _ IH _ _ _ wh1); [apply HbodyH, S2|apply Hbody, S3].
    - apply simout_failed; [exact S3|reflexivity|].
      apply (Pfrom_of_H _ wh1); [exact S4|].
      apply cloop_after_H; try assumption; [intros; apply cloop_iter_H; assumption|apply HbodyH, S2].
  Qed.

  Lemma rloop_finish_sim has_else saved c wf wh calls :
    sync wf wh ->
    SimOut (rloop_finish elsef has_else saved c wf calls) (rloop_finish elsef has_else saved c wh calls).
  Proof.
    intros Hs. unfold rloop_finish.
    destruct calls; [destruct has_else|]; try (apply simout_sync, Hs).
    match goal with |- context [elsef ?c0 wf] => pose proof (Helse c0 wf wh Hs) as E; destruct (elsef c0 wf) as [c' wf' e'| |] end;
      cbn [SimElse] in E; try (rewrite E; reflexivity).
    destruct (w_failed wf') eqn:Hf.
    - destruct E as [E1 E2]. apply simout_failed; [exact Hf|exact E1|].
      destruct (elsef _ wh); cbn [Pfrom] in *; try exact I. exact E2.
    - destruct E as (wh' & -> & Hs'). apply simout_sync, Hs'.
  Qed.

  Lemma rloop_after_sim has_else key val sep saved r0 :
    (forall c wf wh calls trips, sync wf wh ->
       SimOut (rloop_each bodyf elsef has_else key val sep saved r0 c wf calls trips)
              (rloop_each bodyf elsef has_else key val sep saved r0 c wh calls trips)) ->
    forall calls trips wh0 rf rh, Hit wh0 rh -> SimIt rf rh ->
      SimOut (rloop_after bodyf elsef has_else key val sep saved r0 calls trips rf)
             (rloop_after bodyf elsef has_else key val sep saved r0 calls trips rh).
  Proof.
    intros IH calls trips wh0 rf rh HH S.
    destruct rf as [c' wf'|c' wf'|c' wf' e| |]; cbn [SimIt] in S.
    - destruct S as (wh' & -> & Hs). cbn [rloop_after]. apply IH, Hs.
    - destruct S as (wh' & -> & Hs). cbn [rloop_after]. apply rloop_finish_sim, Hs.
    - destruct (w_failed wf') eqn:Hf.
      + destruct S as [-> P]. cbn [rloop_after]. apply simout_failed; [exact Hf|reflexivity|].
        destruct rh as [ch wh1|ch wh1|ch wh1 eh| |]; cbn [Pit Hit rloop_after] in *; try exact I.
        * destruct HH as [HH1 HH2]. apply (Pfrom_of_H _ wh1); [exact P|apply rloop_each_H; assumption].
        * destruct HH as [HH1 HH2]. apply (Pfrom_of_H _ wh1); [exact P|apply rloop_finish_H; assumption].
        * exact P.
      + destruct S as (wh' & -> & Hs). cbn [rloop_after]. apply simout_sync, Hs.
    - subst rh. reflexivity.
    - subst rh. reflexivity.
  Qed.

  Lemma rloop_each_sim has_else key val sep saved els :
    forall c wf wh calls trips, sync wf wh ->
    SimOut (rloop_each bodyf elsef has_else key val sep saved els c wf calls trips)
           (rloop_each bodyf elsef has_else key val sep saved els c wh calls trips).
  Proof.
    induction els as [|[kb ev] r IH]; intros c wf wh calls trips Hs.
    - apply rloop_finish_sim, Hs.
    - rewrite !rloop_each_cons. cbv zeta.
      destruct (0 <? brkD _); [apply rloop_finish_sim, Hs|].
      match goal with |- context [sepw sep ?x wf trips] => set (out := x) end.
      pose proof (sepw_sim sep out wf wh trips Hs) as S.
      destruct (sepw sep out wf trips) as [wf1 ef]. destruct (sepw sep out wh trips) as [wh1 eh].
      destruct S as (S1 & S2 & S3). cbn [fst snd] in *. subst eh.
      destruct S3 as [[-> S3]|(-> & S3 & S4)].
      + apply (rloop_after_sim _ _ _ _ _ _ IH _ _ wh1); [apply HbodyH, S2|apply Hbody, S3].
      + apply simout_failed; [exact S3|reflexivity|].
        apply (Pfrom_of_H _ wh1); [exact S4|].
        apply rloop_after_H; try assumption; [intros; apply rloop_each_H; assumption|apply HbodyH, S2].
  Qed.
End LoopsS.

Ltac brkS :=
  match goal with
  | |- SimOut (match ?x with _ => _ end) _ => destruct x eqn:?
  end.

Section NodeSSec.
  Variable flits : list (bytes * Z).
  Variable lookup : list bytes -> option tree.
  Variable budget : nat.
  Variable inc : tree -> ctx -> option (ctx * bytes * option err).
  Notation wn := (write_node flits lookup budget inc).
  Notation rn := (run_nodes flits lookup budget inc).
  Notation nH := (node_H flits lookup budget inc).

  Lemma node_sim : forall n, NodeS wn n.
  Proof.
    apply node_deep_ind. intros n IH c wf wh Hs.
    pose proof (fun c e => simout_sync c wf wh e Hs) as Hhere.
    pose proof (sync_healthy _ _ Hs) as Hh.
    assert (HbH : forall l c w, healthy w -> Hit w (body_with wn l c w false))
      by (intros; apply body_H; [apply all_Forall, nH|assumption]).
    assert (HeH : forall l c w, healthy w -> Hfrom w (else_with wn l c w))
      by (intros; apply else_H; [apply all_Forall, nH|assumption]).
    destruct n; cbn [children] in IH; cbn [write_node]; try (first [reflexivity|apply Hhere]).
    - (* NRaw *)
      pose proof (write_raw_sim (set_cerr None c) wf wh raw Hs) as A.
      destruct (write_raw _ wf raw) as [wf1 ef]. destruct (write_raw _ wh raw) as [wh1 eh].
      destruct A as (A1 & A2 & A3). cbn [fst snd] in *. subst eh.
      destruct A3 as [[-> A3]|(-> & A3 & A4)]; [apply simout_sync, A3|].
      apply simout_failed; [exact A3|reflexivity|exact A4].
    - (* NTpl *)
      rewrite (sync_n _ _ Hs).
      repeat brkS; try (first [reflexivity|apply Hhere]); apply write_value_sim, Hs.
    - (* NCond *)
      pose proof (Deep_Forall _ _ IH) as IH'.
      destruct child as [|ch1 [|ch2 rest]];
        repeat match goal with H : Forall _ (_ :: _) |- _ => inversion H; clear H; subst end;
        repeat brkS; try (first [reflexivity|apply Hhere]);
        match goal with H : NodeS _ ?ch |- SimOut (wn ?ch _ _) _ => apply H, Hs end.
    - (* NCondOK *)
      pose proof (Deep_Forall _ _ IH) as IH'.
      destruct child as [|ch1 [|ch2 rest]];
        repeat match goal with H : Forall _ (_ :: _) |- _ => inversion H; clear H; subst end;
        repeat brkS; try (first [reflexivity|apply Hhere]);
        match goal with H : NodeS _ ?ch |- SimOut (wn ?ch _ _) _ => apply H, Hs end.
    - (* NBlock *) apply walk_sim; [exact nH|apply Deep_Forall, IH|exact Hs].
    - (* NLoopRange *)
      pose proof (deep_loop_body _ _ IH) as Hb. pose proof (deep_loop_else _ _ IH) as He.
      destruct (split_dot src) as [|k rest]; [apply Hhere|].
      destruct (find_var k _) as [s|].
      + destruct (if s_static s then _ else _) as [els|]; [|reflexivity].
        apply rloop_each_sim; try (intros; first [apply HbH|apply HeH]; assumption);
          [intros; apply body_sim; [exact nH|assumption|assumption]
          |intros; apply else_sim; [exact nH|assumption|assumption]|exact Hs].
      + destruct (loop_has_else child); [|apply Hhere].
        match goal with |- context [else_with wn ?l ?c0 wf] =>
          pose proof (else_sim wn nH l He c0 wf wh Hs) as E;
          destruct (else_with wn l c0 wf) as [c' wf' e'| |] end;
          cbn [SimElse] in E; try (rewrite E; reflexivity).
        destruct (w_failed wf') eqn:Hf.
        * destruct E as [E1 E2]. apply simout_failed; [exact Hf|exact E1|].
          destruct (else_with wn _ _ wh); cbn [Pfrom] in *; try exact I. exact E2.
        * destruct E as (wh' & -> & Hs'). apply simout_sync, Hs'.
    - (* NLoopCount *)
      pose proof (deep_loop_body _ _ IH) as Hb. pose proof (deep_loop_else _ _ IH) as He.
      repeat brkS; try (first [reflexivity|apply Hhere]).
      apply cloop_iter_sim; try (intros; first [apply HbH|apply HeH]; assumption);
        [intros; apply body_sim; [exact nH|assumption|assumption]
        |intros; apply else_sim; [exact nH|assumption|assumption]|exact Hs].
    - (* NCtx *) rewrite (sync_n _ _ Hs). repeat brkS; first [reflexivity|apply Hhere].
    - (* NCounter *) repeat brkS; first [reflexivity|apply Hhere].
    - (* NSwitch *)
      pose proof (Deep_Forall _ _ IH) as IH'.
      destruct arg; apply cases_sim; assumption.
    - (* NInclude *)
      destruct (lookup tpls) as [t|]; [|apply Hhere].
      destruct (inc t _) as [[[c1 out] [e|]]|]; try (first [reflexivity|apply Hhere]).
      pose proof (wr_write_sim wf wh out Hs) as A. rewrite (wr_write_push _ _ Hh).
      destruct (wr_write wf out) as [wf1 ok]. cbn [fst snd] in A.
      destruct A as [[-> A]|(-> & A1 & A2)]; [apply simout_sync, A|].
      apply simout_failed; [exact A1|reflexivity|exact A2].
  Qed.

  Lemma run_nodes_sim l : forall c wf wh, sync wf wh -> SimOut (rn l c wf) (rn l c wh).
  Proof.
    induction l as [|n r IH]; intros c wf wh Hs; cbn [run_nodes]; [apply simout_sync, Hs|].
    pose proof (node_sim n c wf wh Hs) as S. pose proof (nH n c wh (sync_healthy _ _ Hs)) as HH.
    destruct (wn n c wf) as [c1 wf1 e| |]; cbn [SimOut] in S.
    - destruct (w_failed wf1) eqn:Hf.
      + destruct S as [-> P]. apply simout_failed; [exact Hf|reflexivity|].
        destruct (wn n c wh) as [c1h wh1 eh| |]; cbn [Pfrom Hfrom] in *; try exact I.
        destruct HH as [HH1 HH2]. destruct eh; [exact P|].
        apply (Pfrom_of_H _ wh1); [exact P|apply run_nodes_H, HH1].
      + destruct S as (wh1 & -> & Hs1). destruct e; [apply simout_sync, Hs1|apply IH, Hs1].
    - rewrite S. reflexivity.
    - rewrite S. reflexivity.
  Qed.

  Lemma write_tpl_sim t c wf wh : sync wf wh ->
    SimOut (write_tpl flits lookup budget inc t c wf) (write_tpl flits lookup budget inc t c wh).
  Proof.
    intros Hs. unfold write_tpl.
    match goal with |- context [rn t ?c0 wf] =>
      pose proof (run_nodes_sim t c0 wf wh Hs) as S; destruct (rn t c0 wf) as [c1 wf1 e| |] end;
      cbn [SimOut] in S; try (rewrite S; reflexivity).
    destruct (w_failed wf1) eqn:Hf.
    - destruct S as [-> P]. apply simout_failed; [exact Hf|reflexivity|].
      destruct (rn t _ wh) as [c1h wh1 eh| |]; cbn [Pfrom] in *; try exact I.
      destruct eh as [[]|]; cbn [wd set_wd]; try (destruct (Nat.pred (wd c1h))); exact P.
    - destruct S as (wh1 & -> & Hs1). rewrite (sync_n _ _ Hs1).
      destruct e as [[]|]; cbn [wd set_wd]; try (destruct (Nat.pred (wd c1))); apply simout_sync, Hs1.
  Qed.
End NodeSSec.

Lemma render_sim flits lookup budget depth t c wf wh : sync wf wh ->
  SimOut (render flits lookup budget depth t c wf) (render flits lookup budget depth t c wh).
Proof. unfold render. apply write_tpl_sim. Qed.

(* the prefix property, from any pair of writers that are in step *)
Theorem prefix_render_sync flits lookup budget depth t c wf0 wh0 cf wf ef ch wh eh :
  sync wf0 wh0 ->
  render flits lookup budget depth t c wf0 = Out cf wf ef ->
  render flits lookup budget depth t c wh0 = Out ch wh eh ->
  exists rest, wr_bytes wh = wr_bytes wf ++ rest.
Proof.
  intros Hs Ef Eh. pose proof (render_sim flits lookup budget depth t c wf0 wh0 Hs) as S.
  rewrite Ef, Eh in S. cbn [SimOut] in S. destruct (w_failed wf).
  - destruct S as [_ P]. exact P.
  - destruct S as (wh' & E & Hs'). inversion E; subst. apply sync_pre, Hs'.
Qed.

Theorem prefix_render flits lookup budget depth t c k s cf wf ef ch wh eh :
  render flits lookup budget depth t c (wr_new (Some k) s) = Out cf wf ef ->
  render flits lookup budget depth t c (wr_new None 0) = Out ch wh eh ->
  exists rest, wr_bytes wh = wr_bytes wf ++ rest.
Proof.
  apply prefix_render_sync. repeat split.
Qed.

(* the same at the level of one node and of one template *)
Theorem prefix_node flits lookup budget inc n c wf0 wh0 cf wf ef ch wh eh :
  sync wf0 wh0 ->
  write_node flits lookup budget inc n c wf0 = Out cf wf ef ->
  write_node flits lookup budget inc n c wh0 = Out ch wh eh ->
  exists rest, wr_bytes wh = wr_bytes wf ++ rest.
Proof.
  intros Hs Ef Eh. pose proof (node_sim flits lookup budget inc n c wf0 wh0 Hs) as S.
  rewrite Ef, Eh in S. cbn [SimOut] in S. destruct (w_failed wf).
  - destruct S as [_ P]. exact P.
  - destruct S as (wh' & E & Hs'). inversion E; subst. apply sync_pre, Hs'.
Qed.

(* when the failing run never reaches its fault the two runs end in the same state *)
Theorem no_fault_same flits lookup budget depth t c wf0 wh0 cf wf ef :
  sync wf0 wh0 ->
  render flits lookup budget depth t c wf0 = Out cf wf ef -> w_failed wf = false ->
  exists wh, render flits lookup budget depth t c wh0 = Out cf wh ef /\ wr_bytes wh = wr_bytes wf.
Proof.
  intros Hs Ef Hf. pose proof (render_sim flits lookup budget depth t c wf0 wh0 Hs) as S.
  rewrite Ef in S. cbn [SimOut] in S. rewrite Hf in S. destruct S as (wh' & E & Hs').
  exists wh'. split; [exact E|symmetry; apply sync_bytes, Hs'].
Qed.

(* the weaker readings "some error is returned" *)
Lemma fault_node_reported flits lookup budget inc n c w c' w' e :
  (forall t c0 r, inc t c0 = Some r -> True) ->
  w_failed w = false -> write_node flits lookup budget inc n c w = Out c' w' e ->
  w_failed w' = true -> e <> None.
Proof. intros _ Hw E Hf. rewrite (fault_node _ _ _ _ _ _ _ _ _ _ Hw E Hf). discriminate. Qed.
Lemma fault_nodes_reported flits lookup budget inc l c w c' w' e :
  w_failed w = false -> run_nodes flits lookup budget inc l c w = Out c' w' e ->
  w_failed w' = true -> e <> None.
Proof. intros Hw E Hf. rewrite (fault_nodes _ _ _ _ _ _ _ _ _ _ Hw E Hf). discriminate. Qed.
Lemma fault_tpl_reported flits lookup budget inc t c w c' w' e :
  w_failed w = false -> write_tpl flits lookup budget inc t c w = Out c' w' e ->
  w_failed w' = true -> e <> None.
Proof. intros Hw E Hf. rewrite (fault_tpl _ _ _ _ _ _ _ _ _ _ Hw E Hf). discriminate. Qed.
Lemma fault_render_reported flits lookup budget depth t c w c' w' e :
  w_failed w = false -> render flits lookup budget depth t c w = Out c' w' e ->
  w_failed w' = true -> e <> None.
Proof. intros Hw E Hf. rewrite (fault_render _ _ _ _ _ _ _ _ _ _ Hw E Hf). discriminate. Qed.

(* a healthy writer never fails, so a healthy render is never blamed on the writer *)
Lemma healthy_render flits lookup budget depth t c w c' w' e :
  w_fail w = None -> w_failed w = false ->
  render flits lookup budget depth t c w = Out c' w' e ->
  w_failed w' = false /\ exists rest, wr_bytes w' = wr_bytes w ++ rest.
Proof.
  intros H1 H2 E. assert (Hw : healthy w) by (split; assumption).
  unfold render, write_tpl in E.
  match type of E with context [run_nodes _ _ _ ?i t ?c0 w] =>
    pose proof (run_nodes_H flits lookup budget i t c0 w Hw) as H; destruct (run_nodes _ _ _ i t c0 w) as [c1 w1 e1| |] end;
    try discriminate.
  destruct H as [[_ Ha] Hb].
  assert (w' = w1).
  { destruct (match e1 with Some EInterrupt => None | _ => e1 end);
      [|destruct (wd (set_wd _ _))]; inversion E; reflexivity. }
  subst w'. split; assumption.
Qed.
