(* The backtracking matcher of Model/Regex.v against a declarative match relation:
   every answer of [m] is a match (soundness), every match is found by [m] (completeness:
   the search never returns None when a match exists), and [re_find] returns a match at
   the leftmost start position. *)
From DT Require Import Model.Bytes Model.Regex.

(* ------------------------------------------------------------------ *)
(* The declarative semantics                                           *)
(* ------------------------------------------------------------------ *)

(* [Mt r pos x rest]: x, found at offset pos of the subject and followed by rest, belongs to r *)
Inductive Mt : re -> nat -> bytes -> bytes -> Prop :=
| MtEmpty pos rest : Mt REmpty pos [] rest
| MtCls c b pos rest : in_cls c b = true -> Mt (RCls c) pos [b] rest
| MtCat a b pos x1 x2 rest :
    Mt a pos x1 (x2 ++ rest) -> Mt b (pos + length x1) x2 rest -> Mt (RCat a b) pos (x1 ++ x2) rest
| MtAltL a b pos x rest : Mt a pos x rest -> Mt (RAlt a b) pos x rest
| MtAltR a b pos x rest : Mt b pos x rest -> Mt (RAlt a b) pos x rest
| MtStar0 a g pos rest : Mt (RStar a g) pos [] rest
| MtStarS a g pos x1 x2 rest :
    x1 <> [] -> Mt a pos x1 (x2 ++ rest) -> Mt (RStar a g) (pos + length x1) x2 rest ->
    Mt (RStar a g) pos (x1 ++ x2) rest
| MtPlus a g pos x1 x2 rest :
    Mt a pos x1 (x2 ++ rest) -> Mt (RStar a g) (pos + length x1) x2 rest ->
    Mt (RPlus a g) pos (x1 ++ x2) rest
| MtQuest0 a g pos rest : Mt (RQuest a g) pos [] rest
| MtQuest1 a g pos x rest : Mt a pos x rest -> Mt (RQuest a g) pos x rest
| MtGroup n a pos x rest : Mt a pos x rest -> Mt (RGroup n a) pos x rest
| MtBol rest : Mt RBol 0 [] rest
| MtEol pos : Mt REol pos [] [].

(* ---- inversion, one lemma per constructor of [re] ---- *)

Lemma Mt_empty_inv pos x rest : Mt REmpty pos x rest -> x = [].
Proof. intros H. inversion H; subst. reflexivity. Qed.

Lemma Mt_fail_inv pos x rest : Mt RFail pos x rest -> False.
Proof. intros H. inversion H. Qed.

Lemma Mt_cls_inv c pos x rest : Mt (RCls c) pos x rest -> exists b, x = [b] /\ in_cls c b = true.
Proof. intros H. inversion H; subst. eexists. split; [reflexivity|assumption]. Qed.

Lemma Mt_cat_inv a b pos x rest : Mt (RCat a b) pos x rest ->
  exists x1 x2, x = x1 ++ x2 /\ Mt a pos x1 (x2 ++ rest) /\ Mt b (pos + length x1) x2 rest.
Proof. intros H. inversion H; subst. eexists _, _. split; [reflexivity|]. split; assumption. Qed.

Lemma Mt_alt_inv a b pos x rest : Mt (RAlt a b) pos x rest -> Mt a pos x rest \/ Mt b pos x rest.
Proof. intros H. inversion H; subst; [left|right]; assumption. Qed.

Lemma Mt_star_inv a g pos x rest : Mt (RStar a g) pos x rest ->
  x = [] \/
  exists x1 x2, x = x1 ++ x2 /\ x1 <> [] /\ Mt a pos x1 (x2 ++ rest)
                /\ Mt (RStar a g) (pos + length x1) x2 rest.
Proof.
  intros H. inversion H; subst; [left; reflexivity|right].
  eexists _, _. split; [reflexivity|]. split; [assumption|]. split; assumption.
Qed.

Lemma Mt_plus_inv a g pos x rest : Mt (RPlus a g) pos x rest ->
  exists x1 x2, x = x1 ++ x2 /\ Mt a pos x1 (x2 ++ rest)
                /\ Mt (RStar a g) (pos + length x1) x2 rest.
Proof. intros H. inversion H; subst. eexists _, _. split; [reflexivity|]. split; assumption. Qed.

Lemma Mt_quest_inv a g pos x rest : Mt (RQuest a g) pos x rest -> x = [] \/ Mt a pos x rest.
Proof. intros H. inversion H; subst; [left; reflexivity|right; assumption]. Qed.

Lemma Mt_group_inv n a pos x rest : Mt (RGroup n a) pos x rest -> Mt a pos x rest.
Proof. intros H. inversion H; subst. assumption. Qed.

Lemma Mt_bol_inv pos x rest : Mt RBol pos x rest -> x = [] /\ pos = 0.
Proof. intros H. inversion H; subst. split; reflexivity. Qed.

Lemma Mt_eol_inv pos x rest : Mt REol pos x rest -> x = [] /\ rest = [].
Proof. intros H. inversion H; subst. split; reflexivity. Qed.

(* an expression that matches the empty string is [nullable] *)
Lemma Mt_nil_nullable : forall r pos rest, Mt r pos [] rest -> nullable r = true.
Proof.
  induction r as [| |c|a IHa b IHb|a IHa b IHb|a IHa g|a IHa g|a IHa g|n a IHa| |];
    intros pos rest H; cbn [nullable]; try reflexivity.
  - exfalso. eapply Mt_fail_inv. exact H.
  - apply Mt_cls_inv in H. destruct H as [b [Hx _]]. discriminate.
  - apply Mt_cat_inv in H. destruct H as (x1 & x2 & Hx & H1 & H2).
    symmetry in Hx. apply app_eq_nil in Hx. destruct Hx as [-> ->].
    rewrite (IHa _ _ H1), (IHb _ _ H2). reflexivity.
  - apply Mt_alt_inv in H. destruct H as [H|H].
    + rewrite (IHa _ _ H). reflexivity.
    + rewrite (IHb _ _ H). apply orb_true_r.
  - apply Mt_plus_inv in H. destruct H as (x1 & x2 & Hx & H1 & H2).
    symmetry in Hx. apply app_eq_nil in Hx. destruct Hx as [-> ->].
    exact (IHa _ _ H1).
  - apply Mt_group_inv in H. exact (IHa _ _ H).
Qed.

(* ------------------------------------------------------------------ *)
(* Unfolding the matcher                                               *)
(* ------------------------------------------------------------------ *)

(* the inner loop of RStar / RPlus, named *)
Definition starf (a : re) (g : bool) (k : kont) : nat -> bytes -> nat -> caps -> option caps :=
  fix star (fuel : nat) (s : bytes) (pos : nat) (cs : caps) {struct fuel} : option caps :=
    match fuel with
    | O => k s pos cs
    | S f =>
      let more := m a s pos cs (fun s' pos' cs' =>
                     if Nat.ltb (length s') (length s) then star f s' pos' cs' else None) in
      if g then orelse more (k s pos cs) else orelse (k s pos cs) more
    end.

(* the continuation handed to one iteration: go on only after progress *)
Definition starK (a : re) (g : bool) (k : kont) (f : nat) (s : bytes) : kont :=
  fun s' pos' cs' => if Nat.ltb (length s') (length s) then starf a g k f s' pos' cs' else None.

Lemma starf_O a g k s pos cs : starf a g k O s pos cs = k s pos cs.
Proof. reflexivity. Qed.

Lemma starf_S a g k f s pos cs :
  starf a g k (S f) s pos cs =
  if g then orelse (m a s pos cs (starK a g k f s)) (k s pos cs)
  else orelse (k s pos cs) (m a s pos cs (starK a g k f s)).
Proof. reflexivity. Qed.

Lemma m_star_unfold a g s pos cs k :
  m (RStar a g) s pos cs k = starf a g k (S (length s)) s pos cs.
Proof. reflexivity. Qed.

Lemma m_plus_unfold a g s pos cs k :
  m (RPlus a g) s pos cs k =
  m a s pos cs (fun s1 pos1 cs1 => starf a g k (S (length s1)) s1 pos1 cs1).
Proof. reflexivity. Qed.

Lemma m_cat_unfold a b s pos cs k :
  m (RCat a b) s pos cs k = m a s pos cs (fun s' pos' cs' => m b s' pos' cs' k).
Proof. reflexivity. Qed.

Lemma m_alt_unfold a b s pos cs k :
  m (RAlt a b) s pos cs k = orelse (m a s pos cs k) (m b s pos cs k).
Proof. reflexivity. Qed.

Lemma m_quest_unfold a g s pos cs k :
  m (RQuest a g) s pos cs k =
  if g then orelse (m a s pos cs k) (k s pos cs) else orelse (k s pos cs) (m a s pos cs k).
Proof. reflexivity. Qed.

Lemma m_group_unfold n a s pos cs k :
  m (RGroup n a) s pos cs k = m a s pos cs (fun s' pos' cs' => k s' pos' ((n, (pos, pos')) :: cs')).
Proof. reflexivity. Qed.

Lemma m_empty_unfold s pos cs k : m REmpty s pos cs k = k s pos cs.
Proof. reflexivity. Qed.

Lemma m_cls_unfold c s pos cs k :
  m (RCls c) s pos cs k =
  match s with b :: s' => if in_cls c b then k s' (S pos) cs else None | [] => None end.
Proof. reflexivity. Qed.

Lemma m_bol_unfold s pos cs k : m RBol s pos cs k = if Nat.eqb pos 0 then k s pos cs else None.
Proof. reflexivity. Qed.

Lemma m_eol_unfold s pos cs k :
  m REol s pos cs k = match s with [] => k s pos cs | _ => None end.
Proof. reflexivity. Qed.

Lemma orelse_some {A} (a b : option A) r : orelse a b = Some r -> a = Some r \/ b = Some r.
Proof. destruct a as [x|]; cbn [orelse]; intros H; [left|right]; exact H. Qed.

Lemma orelse_not_none_l {A} (a b : option A) : a <> None -> orelse a b <> None.
Proof. destruct a as [x|]; cbn [orelse]; intros H; [discriminate|contradiction]. Qed.

Lemma orelse_not_none_r {A} (a b : option A) : b <> None -> orelse a b <> None.
Proof. destruct a as [x|]; cbn [orelse]; intros H; [discriminate|exact H]. Qed.

(* ------------------------------------------------------------------ *)
(* 1. Soundness                                                        *)
(* ------------------------------------------------------------------ *)

Definition sound_for (r : re) : Prop :=
  forall s pos cs k res, m r s pos cs k = Some res ->
    exists x rest cs', s = x ++ rest /\ Mt r pos x rest /\ k rest (pos + length x) cs' = Some res.

Lemma starf_sound a g k : sound_for a ->
  forall fuel s pos cs res, starf a g k fuel s pos cs = Some res ->
    exists x rest cs', s = x ++ rest /\ Mt (RStar a g) pos x rest
                       /\ k rest (pos + length x) cs' = Some res.
Proof.
  intros Ha. induction fuel as [|f IH]; intros s pos cs res H.
  - rewrite starf_O in H. exists [], s, cs. split; [reflexivity|]. split; [constructor|].
    cbn [length]. rewrite Nat.add_0_r. exact H.
  - rewrite starf_S in H.
    assert (Hcases : m a s pos cs (starK a g k f s) = Some res \/ k s pos cs = Some res).
    { destruct g; apply orelse_some in H; tauto. }
    destruct Hcases as [Hm|Hk].
    + apply Ha in Hm. destruct Hm as (x1 & rest1 & cs1 & Hs & HM & HK).
      unfold starK in HK.
      destruct (Nat.ltb (length rest1) (length s)) eqn:Hlt; [|discriminate].
      apply Nat.ltb_lt in Hlt.
      apply IH in HK. destruct HK as (x2 & rest & cs2 & Hs2 & HM2 & Hk2).
      exists (x1 ++ x2), rest, cs2.
      split; [rewrite Hs, Hs2, app_assoc; reflexivity|].
      split.
      * apply MtStarS.
        -- intros Hnil. subst x1 s. cbn [app] in Hlt. lia.
        -- rewrite <- Hs2. exact HM.
        -- exact HM2.
      * rewrite app_length, Nat.add_assoc. exact Hk2.
    + exists [], s, cs. split; [reflexivity|]. split; [constructor|].
      cbn [length]. rewrite Nat.add_0_r. exact Hk.
Qed.

Theorem m_sound : forall r s pos cs k res, m r s pos cs k = Some res ->
  exists x rest cs', s = x ++ rest /\ Mt r pos x rest /\ k rest (pos + length x) cs' = Some res.
Proof.
  induction r as [| |c|a IHa b IHb|a IHa b IHb|a IHa g|a IHa g|a IHa g|n a IHa| |];
    intros s pos cs k res H.
  - (* REmpty *)
    rewrite m_empty_unfold in H. exists [], s, cs. split; [reflexivity|]. split; [constructor|].
    cbn [length]. rewrite Nat.add_0_r. exact H.
  - (* RFail *) discriminate.
  - (* RCls *)
    rewrite m_cls_unfold in H. destruct s as [|b s']; [discriminate|].
    destruct (in_cls c b) eqn:Hin; [|discriminate].
    exists [b], s', cs. split; [reflexivity|]. split; [constructor; exact Hin|].
    cbn [length]. replace (pos + 1) with (S pos) by lia. exact H.
  - (* RCat *)
    rewrite m_cat_unfold in H. apply IHa in H. destruct H as (x1 & rest1 & cs1 & Hs & HM1 & Hk).
    apply IHb in Hk. destruct Hk as (x2 & rest & cs2 & Hs2 & HM2 & Hk2).
    exists (x1 ++ x2), rest, cs2.
    split; [rewrite Hs, Hs2, app_assoc; reflexivity|].
    split.
    + apply MtCat; [rewrite <- Hs2; exact HM1|exact HM2].
    + rewrite app_length, Nat.add_assoc. exact Hk2.
  - (* RAlt *)
    rewrite m_alt_unfold in H. apply orelse_some in H. destruct H as [H|H].
    + apply IHa in H. destruct H as (x & rest & cs' & Hs & HM & Hk).
      exists x, rest, cs'. split; [exact Hs|]. split; [apply MtAltL; exact HM|exact Hk].
    + apply IHb in H. destruct H as (x & rest & cs' & Hs & HM & Hk).
      exists x, rest, cs'. split; [exact Hs|]. split; [apply MtAltR; exact HM|exact Hk].
  - (* RStar *)
    rewrite m_star_unfold in H. eapply starf_sound; [exact IHa|exact H].
  - (* RPlus *)
    rewrite m_plus_unfold in H. apply IHa in H. destruct H as (x1 & rest1 & cs1 & Hs & HM1 & Hk).
    apply (starf_sound a g k IHa) in Hk. destruct Hk as (x2 & rest & cs2 & Hs2 & HM2 & Hk2).
    exists (x1 ++ x2), rest, cs2.
    split; [rewrite Hs, Hs2, app_assoc; reflexivity|].
    split.
    + apply MtPlus; [rewrite <- Hs2; exact HM1|exact HM2].
    + rewrite app_length, Nat.add_assoc. exact Hk2.
  - (* RQuest *)
    rewrite m_quest_unfold in H.
    assert (Hcases : m a s pos cs k = Some res \/ k s pos cs = Some res).
    { destruct g; apply orelse_some in H; tauto. }
    destruct Hcases as [Hm|Hk].
    + apply IHa in Hm. destruct Hm as (x & rest & cs' & Hs & HM & Hk).
      exists x, rest, cs'. split; [exact Hs|]. split; [apply MtQuest1; exact HM|exact Hk].
    + exists [], s, cs. split; [reflexivity|]. split; [constructor|].
      cbn [length]. rewrite Nat.add_0_r. exact Hk.
  - (* RGroup *)
    rewrite m_group_unfold in H. apply IHa in H. destruct H as (x & rest & cs' & Hs & HM & Hk).
    exists x, rest, ((n, (pos, pos + length x)) :: cs').
    split; [exact Hs|]. split; [apply MtGroup; exact HM|exact Hk].
  - (* RBol *)
    rewrite m_bol_unfold in H. destruct (Nat.eqb pos 0) eqn:Hp; [|discriminate].
    apply Nat.eqb_eq in Hp. subst pos.
    exists [], s, cs. split; [reflexivity|]. split; [constructor|]. exact H.
  - (* REol *)
    rewrite m_eol_unfold in H. destruct s as [|b s']; [|discriminate].
    exists [], [], cs. split; [reflexivity|]. split; [constructor|].
    cbn [length]. rewrite Nat.add_0_r. exact H.
Qed.

(* ------------------------------------------------------------------ *)
(* 2. Completeness                                                     *)
(* ------------------------------------------------------------------ *)

Definition complete_for (r : re) : Prop :=
  forall x rest pos, Mt r pos x rest ->
    forall cs k, (forall cs', k rest (pos + length x) cs' <> None) -> m r (x ++ rest) pos cs k <> None.

(* the fuel is never exhausted before the subject is: every iteration of the derivation
   consumes a byte, so fuel above the length of the match is enough *)
Lemma starf_complete a g k : complete_for a ->
  forall fuel x rest pos cs, length x < fuel -> Mt (RStar a g) pos x rest ->
    (forall cs', k rest (pos + length x) cs' <> None) ->
    starf a g k fuel (x ++ rest) pos cs <> None.
Proof.
  intros Ha. induction fuel as [|f IH]; intros x rest pos cs Hlen HM Hk; [lia|].
  rewrite starf_S.
  apply Mt_star_inv in HM. destruct HM as [Hx|(x1 & x2 & Hx & Hne & HM1 & HM2)].
  - subst x. cbn [app]. specialize (Hk cs). cbn [length] in Hk. rewrite Nat.add_0_r in Hk.
    destruct g; [apply orelse_not_none_r|apply orelse_not_none_l]; exact Hk.
  - subst x. rewrite <- app_assoc.
    assert (Hmore : m a (x1 ++ x2 ++ rest) pos cs (starK a g k f (x1 ++ x2 ++ rest)) <> None).
    { apply Ha; [exact HM1|]. intros cs'. unfold starK.
      assert (Hlt : Nat.ltb (length (x2 ++ rest)) (length (x1 ++ x2 ++ rest)) = true).
      { apply Nat.ltb_lt. rewrite (app_length x1). destruct x1 as [|b x1]; [contradiction|].
        cbn [length]. lia. }
      rewrite Hlt. apply IH.
      - rewrite app_length in Hlen. destruct x1 as [|b x1]; [contradiction|].
        cbn [length] in Hlen. lia.
      - exact HM2.
      - intros cs''. specialize (Hk cs''). rewrite app_length, Nat.add_assoc in Hk. exact Hk. }
    destruct g; [apply orelse_not_none_l|apply orelse_not_none_r]; exact Hmore.
Qed.

(* completeness holds for every expression: the declarative star only uses non-empty
   iterations, which is exactly what the matcher's progress cut allows *)
Theorem m_complete_gen : forall r, complete_for r.
Proof.
  induction r as [| |c|a IHa b IHb|a IHa b IHb|a IHa g|a IHa g|a IHa g|n a IHa| |];
    intros x rest pos HM cs k Hk.
  - (* REmpty *)
    apply Mt_empty_inv in HM. subst x. cbn [app]. rewrite m_empty_unfold.
    specialize (Hk cs). cbn [length] in Hk. rewrite Nat.add_0_r in Hk. exact Hk.
  - (* RFail *) exfalso. eapply Mt_fail_inv. exact HM.
  - (* RCls *)
    apply Mt_cls_inv in HM. destruct HM as [b [Hx Hin]]. subst x. cbn [app].
    rewrite m_cls_unfold, Hin. specialize (Hk cs). cbn [length] in Hk.
    replace (pos + 1) with (S pos) in Hk by lia. exact Hk.
  - (* RCat *)
    apply Mt_cat_inv in HM. destruct HM as (x1 & x2 & Hx & HM1 & HM2). subst x.
    rewrite <- app_assoc, m_cat_unfold. apply IHa; [exact HM1|]. intros cs'.
    apply IHb; [exact HM2|]. intros cs''. specialize (Hk cs'').
    rewrite app_length, Nat.add_assoc in Hk. exact Hk.
  - (* RAlt *)
    rewrite m_alt_unfold. apply Mt_alt_inv in HM. destruct HM as [HM|HM].
    + apply orelse_not_none_l. apply IHa; assumption.
    + apply orelse_not_none_r. apply IHb; assumption.
  - (* RStar *)
    rewrite m_star_unfold. apply starf_complete; [exact IHa| |exact HM|exact Hk].
    rewrite app_length. lia.
  - (* RPlus *)
    apply Mt_plus_inv in HM. destruct HM as (x1 & x2 & Hx & HM1 & HM2). subst x.
    rewrite <- app_assoc, m_plus_unfold. apply IHa; [exact HM1|]. intros cs'.
    apply starf_complete; [exact IHa| |exact HM2|].
    + rewrite app_length. lia.
    + intros cs''. specialize (Hk cs''). rewrite app_length, Nat.add_assoc in Hk. exact Hk.
  - (* RQuest *)
    rewrite m_quest_unfold. apply Mt_quest_inv in HM. destruct HM as [Hx|HM].
    + subst x. cbn [app]. specialize (Hk cs). cbn [length] in Hk. rewrite Nat.add_0_r in Hk.
      destruct g; [apply orelse_not_none_r|apply orelse_not_none_l]; exact Hk.
    + assert (Hm : m a (x ++ rest) pos cs k <> None) by (apply IHa; assumption).
      destruct g; [apply orelse_not_none_l|apply orelse_not_none_r]; exact Hm.
  - (* RGroup *)
    apply Mt_group_inv in HM. rewrite m_group_unfold. apply IHa; [exact HM|].
    intros cs'. apply Hk.
  - (* RBol *)
    apply Mt_bol_inv in HM. destruct HM as [Hx Hp]. subst x pos. cbn [app].
    rewrite m_bol_unfold. cbn [Nat.eqb]. specialize (Hk cs). exact Hk.
  - (* REol *)
    apply Mt_eol_inv in HM. destruct HM as [Hx Hr]. subst x rest. cbn [app].
    rewrite m_eol_unfold. specialize (Hk cs). cbn [length] in Hk. rewrite Nat.add_0_r in Hk.
    exact Hk.
Qed.

Theorem m_complete : forall r, re_ok r = true -> forall x rest pos, Mt r pos x rest ->
  forall cs k, (forall cs', k rest (pos + length x) cs' <> None) -> m r (x ++ rest) pos cs k <> None.
Proof. intros r _. exact (m_complete_gen r). Qed.

(* ------------------------------------------------------------------ *)
(* 3. re_match                                                         *)
(* ------------------------------------------------------------------ *)

Lemma match_at_unfold r s pos :
  match_at r s pos = m r s pos [] (fun _ pos' cs' => Some ((0, (pos, pos')) :: cs')).
Proof. reflexivity. Qed.

Lemma match_at_sound r s pos cs : match_at r s pos = Some cs ->
  exists x rest cs', s = x ++ rest /\ Mt r pos x rest /\ cs = (0, (pos, pos + length x)) :: cs'.
Proof.
  intros H. rewrite match_at_unfold in H. apply m_sound in H.
  destruct H as (x & rest & cs' & Hs & HM & Hk). inversion Hk; subst cs.
  exists x, rest, cs'. split; [exact Hs|]. split; [exact HM|reflexivity].
Qed.

Lemma match_at_complete r x rest pos : re_ok r = true -> Mt r pos x rest ->
  match_at r (x ++ rest) pos <> None.
Proof.
  intros Hok HM. rewrite match_at_unfold. apply (m_complete r Hok x rest pos HM).
  intros cs'. discriminate.
Qed.

Lemma search_unfold r s pos :
  search r s pos =
  match match_at r s pos with
  | Some cs => Some cs
  | None => match s with [] => None | _ :: s' => search r s' (S pos) end
  end.
Proof. destruct s; reflexivity. Qed.

Lemma search_sound r : forall s pos cs, search r s pos = Some cs ->
  exists a x b, s = a ++ x ++ b /\ Mt r (pos + length a) x b.
Proof.
  induction s as [|c s IH]; intros pos cs H; rewrite search_unfold in H.
  - destruct (match_at r [] pos) as [cs0|] eqn:Hm; [|discriminate].
    apply match_at_sound in Hm. destruct Hm as (x & rest & cs' & Hs & HM & _).
    exists [], x, rest. split; [exact Hs|]. cbn [length]. rewrite Nat.add_0_r. exact HM.
  - destruct (match_at r (c :: s) pos) as [cs0|] eqn:Hm.
    + apply match_at_sound in Hm. destruct Hm as (x & rest & cs' & Hs & HM & _).
      exists [], x, rest. split; [exact Hs|]. cbn [length]. rewrite Nat.add_0_r. exact HM.
    + apply IH in H. destruct H as (a & x & b & Hs & HM).
      exists (c :: a), x, b. split; [rewrite Hs; reflexivity|].
      cbn [length]. replace (pos + S (length a)) with (S pos + length a) by lia. exact HM.
Qed.

Lemma search_complete r : re_ok r = true ->
  forall a pos x b, Mt r (pos + length a) x b -> search r (a ++ x ++ b) pos <> None.
Proof.
  intros Hok. induction a as [|c a IH]; intros pos x b HM; rewrite search_unfold.
  - cbn [app]. cbn [length] in HM. rewrite Nat.add_0_r in HM.
    pose proof (match_at_complete r x b pos Hok HM) as Hm.
    destruct (match_at r (x ++ b) pos) as [cs0|]; [discriminate|contradiction].
  - cbn [app]. destruct (match_at r (c :: a ++ x ++ b) pos) as [cs0|]; [discriminate|].
    apply IH. cbn [length] in HM.
    replace (S pos + length a) with (pos + S (length a)) by lia. exact HM.
Qed.

Theorem re_match_spec : forall r s, re_ok r = true ->
  (re_match r s = true <-> exists a x b, s = a ++ x ++ b /\ Mt r (length a) x b).
Proof.
  intros r s Hok. unfold re_match, re_find. split.
  - destruct (search r s 0) as [cs|] eqn:Hs; [|discriminate]. intros _.
    apply search_sound in Hs. destruct Hs as (a & x & b & Hs & HM).
    exists a, x, b. split; [exact Hs|exact HM].
  - intros (a & x & b & Hs & HM). subst s.
    pose proof (search_complete r Hok a 0 x b HM) as Hc.
    destruct (search r (a ++ x ++ b) 0) as [cs|]; [reflexivity|contradiction].
Qed.

(* ------------------------------------------------------------------ *)
(* 4. re_find returns a match at the leftmost start                    *)
(* ------------------------------------------------------------------ *)

Lemma skipn_app_len {A} (p : list A) : forall s, skipn (length p) (p ++ s) = s.
Proof. induction p as [|c p IH]; intros s; [reflexivity|]. cbn [length app skipn]. apply IH. Qed.

Lemma firstn_app_len {A} (x : list A) : forall s, firstn (length x) (x ++ s) = x.
Proof.
  induction x as [|c x IH]; intros s; [reflexivity|]. cbn [length app firstn]. rewrite IH. reflexivity.
Qed.

Lemma search_leftmost r : re_ok r = true ->
  forall s pre cs, search r s (length pre) = Some cs ->
  exists a b, cap_get cs 0 = Some (a, b) /\ length pre <= a /\ a <= b /\ b <= length (pre ++ s) /\
              Mt r a (slice (pre ++ s) a b) (skipn b (pre ++ s)) /\
              (forall a' x rest, length pre <= a' -> a' < a -> skipn a' (pre ++ s) = x ++ rest ->
                                 ~ Mt r a' x rest).
Proof.
  intros Hok.
  assert (Hhere : forall s pre cs, match_at r s (length pre) = Some cs ->
    exists a b, cap_get cs 0 = Some (a, b) /\ length pre <= a /\ a <= b /\ b <= length (pre ++ s) /\
              Mt r a (slice (pre ++ s) a b) (skipn b (pre ++ s)) /\
              (forall a' x rest, length pre <= a' -> a' < a -> skipn a' (pre ++ s) = x ++ rest ->
                                 ~ Mt r a' x rest)).
  { intros s pre cs Hm. apply match_at_sound in Hm.
    destruct Hm as (x & rest & cs' & Hs & HM & Hcs). subst s cs.
    exists (length pre), (length pre + length x).
    split; [reflexivity|]. split; [lia|]. split; [lia|].
    split; [rewrite !app_length; lia|].
    split.
    - unfold slice. replace (length pre + length x - length pre) with (length x) by lia.
      rewrite skipn_app_len, firstn_app_len.
      rewrite (app_assoc pre x rest), <- app_length, skipn_app_len. exact HM.
    - intros a' x' rest' H1 H2. lia. }
  induction s as [|c s IH]; intros pre cs H; rewrite search_unfold in H.
  - destruct (match_at r [] (length pre)) as [cs0|] eqn:Hm; [|discriminate].
    inversion H; subst cs0. apply Hhere. exact Hm.
  - destruct (match_at r (c :: s) (length pre)) as [cs0|] eqn:Hm.
    + inversion H; subst cs0. apply Hhere. exact Hm.
    + replace (S (length pre)) with (length (pre ++ [c])) in H
        by (rewrite app_length; cbn [length]; lia).
      apply IH in H. destruct H as (a & b & Hcap & Hpa & Hab & Hb & HM & Hleft).
      rewrite <- app_assoc in Hb, HM, Hleft. cbn [app] in Hb, HM, Hleft.
      rewrite app_length in Hpa, Hleft. cbn [length] in Hpa, Hleft.
      exists a, b. split; [exact Hcap|]. split; [lia|]. split; [exact Hab|].
      split; [exact Hb|]. split; [exact HM|].
      intros a' x rest H1 H2 Hsk.
      destruct (Nat.eq_dec a' (length pre)) as [Heq|Hneq].
      * subst a'. rewrite skipn_app_len in Hsk. intros HMx.
        apply (match_at_complete r x rest (length pre) Hok) in HMx.
        rewrite <- Hsk in HMx. contradiction.
      * apply Hleft; [lia|exact H2|exact Hsk].
Qed.

Theorem re_find_leftmost : forall r s cs, re_ok r = true -> re_find r s = Some cs ->
  exists a b, cap_get cs 0 = Some (a, b) /\ a <= b /\ b <= length s /\
              Mt r a (slice s a b) (skipn b s) /\
              (forall a' x rest, a' < a -> skipn a' s = x ++ rest -> ~ Mt r a' x rest).
Proof.
  intros r s cs Hok H. unfold re_find in H.
  destruct (search_leftmost r Hok s [] cs H) as (a & b & Hcap & _ & Hab & Hb & HM & Hleft).
  cbn [app length] in *.
  exists a, b. split; [exact Hcap|]. split; [exact Hab|]. split; [exact Hb|]. split; [exact HM|].
  intros a' x rest H2 Hsk. apply Hleft; [lia|exact H2|exact Hsk].
Qed.

(* ------------------------------------------------------------------ *)
(* 5. Examples                                                         *)
(* ------------------------------------------------------------------ *)

Local Open Scope byte_scope.

Definition cls_a : re := RCls [(97, 97)]%N.
Definition cls_b : re := RCls [(98, 98)]%N.

(* a|ab on "ab": the first alternative wins although the second is longer (leftmost-first,
   not leftmost-longest) *)
Example first_alternative_preferred :
  re_find (RAlt cls_a (RCat cls_a cls_b)) ["a"; "b"] = Some [(0, (0, 1))]
  /\ re_find (RAlt (RCat cls_a cls_b) cls_a) ["a"; "b"] = Some [(0, (0, 2))].
Proof. split; vm_compute; reflexivity. Qed.

(* a* and a*? on "xaaab" anchored by a leading x: greedy takes all three, lazy takes none;
   a search for a+ finds the leftmost run and all of it *)
Example greedy_star_longest :
  re_find (RCat (RCls [(120, 120)]%N) (RGroup 1 (RStar cls_a true))) ["x"; "a"; "a"; "a"; "b"]
    = Some [(0, (0, 4)); (1, (1, 4))]
  /\ re_find (RCat (RCls [(120, 120)]%N) (RGroup 1 (RStar cls_a false))) ["x"; "a"; "a"; "a"; "b"]
    = Some [(0, (0, 1)); (1, (1, 1))]
  /\ re_find (RPlus cls_a true) ["x"; "a"; "a"; "a"; "b"; "a"] = Some [(0, (1, 4))].
Proof. repeat split; vm_compute; reflexivity. Qed.

Example star_of_a_ok : re_ok (RStar (RCls [(97, 97)]%N) true) = true.
Proof. reflexivity. Qed.
