(* C01, the parser's clean-up of the source (Model/Preproc.v): comments `{#[^#]*#}` and, unless
   formatting is kept, line breaks with the indentation after them are removed -- and nothing
   else is removed, nothing is added, nothing is reordered. *)
From DT Require Import Model.Bytes Proofs.BytesFacts Model.Preproc.

(* ------------------------------------------------------------------ bytes *)

Lemma beqb_refl x : beqb x x = true.
Proof. apply byte_eqb_eq. reflexivity. Qed.

Lemma beqb_true x y : beqb x y = true -> x = y.
Proof. apply byte_eqb_eq. Qed.

Lemma beqb_false_ne x y : beqb x y = false -> x <> y.
Proof. intros H E. subst. rewrite beqb_refl in H. discriminate. Qed.

Lemma beqb_ne_false x y : x <> y -> beqb x y = false.
Proof. intros H. destruct (beqb x y) eqn:E; [|reflexivity]. apply beqb_true in E. contradiction. Qed.

(* ------------------------------------------------------------------ after_hash *)

Lemma after_hash_some : forall s r,
  after_hash s = Some r -> exists p, s = p ++ b_hash :: r /\ forallb (fun x => negb (beqb x b_hash)) p = true.
Proof.
  induction s as [|c s IH]; intros r H; [discriminate|]. cbn [after_hash] in H.
  destruct (beqb c b_hash) eqn:E.
  - inversion H; subst. apply beqb_true in E. subst c. exists []. split; reflexivity.
  - destruct (IH r H) as (p & -> & F). exists (c :: p). split; [reflexivity|]. cbn [forallb]. rewrite E, F. reflexivity.
Qed.

Lemma after_hash_app : forall p r,
  forallb (fun x => negb (beqb x b_hash)) p = true -> after_hash (p ++ b_hash :: r) = Some r.
Proof.
  induction p as [|c p IH]; intros r H; cbn [app after_hash]; [rewrite beqb_refl; reflexivity|].
  cbn [forallb] in H. apply andb_true_iff in H. destruct H as [H1 H2].
  destruct (beqb c b_hash); [discriminate H1|]. apply IH, H2.
Qed.

Lemma after_hash_shorter s r : after_hash s = Some r -> length r < length s.
Proof. intros H. destruct (after_hash_some s r H) as (p & -> & _). rewrite app_length. cbn [length]. lia. Qed.

(* ------------------------------------------------------------------ comments: the fuel is enough *)

Lemma ccf_indep : forall n m s, length s < n -> length s < m -> cut_comments_fuel n s = cut_comments_fuel m s.
Proof.
  induction n as [|n IH]; intros m s Hn Hm; [lia|]. destruct m as [|m]; [lia|].
  cbn [cut_comments_fuel]. destruct s as [|c r]; [reflexivity|]. cbn [length] in Hn, Hm.
  assert (R : cut_comments_fuel n r = cut_comments_fuel m r) by (apply IH; lia).
  destruct (beqb c b_lbrace); [|rewrite R; reflexivity].
  destruct r as [|h r1]; [reflexivity|]. destruct (beqb h b_hash); [|rewrite R; reflexivity].
  destruct (after_hash r1) as [[|e r2]|] eqn:A; try (rewrite R; reflexivity).
  destruct (beqb e b_rbrace); [|rewrite R; reflexivity].
  pose proof (after_hash_shorter _ _ A) as L. cbn [length] in *. apply IH; lia.
Qed.

Theorem comments_fuel_suffices s n : length s < n -> cut_comments_fuel n s = cut_comments s.
Proof. intros H. unfold cut_comments. apply ccf_indep; lia. Qed.

(* the definition, read without fuel *)
Lemma cut_comments_nil : cut_comments [] = [].
Proof. reflexivity. Qed.

Lemma cut_comments_cons c r :
  cut_comments (c :: r) =
  if beqb c b_lbrace then
    match r with
    | h :: r1 =>
      if beqb h b_hash then
        match after_hash r1 with
        | Some (e :: r2) => if beqb e b_rbrace then cut_comments r2 else c :: cut_comments r
        | _ => c :: cut_comments r
        end
      else c :: cut_comments r
    | [] => [c]
    end
  else c :: cut_comments r.
Proof.
  unfold cut_comments at 1. cbn [length]. generalize (Nat.lt_succ_diag_r (length r)).
  generalize (S (length r)) as n. intros n Hn. cbn [cut_comments_fuel].
  assert (R : cut_comments_fuel n r = cut_comments r) by (apply comments_fuel_suffices, Hn).
  destruct (beqb c b_lbrace); [|rewrite R; reflexivity].
  destruct r as [|h r1]; [reflexivity|]. destruct (beqb h b_hash); [|rewrite R; reflexivity].
  destruct (after_hash r1) as [[|e r2]|] eqn:A; try (rewrite R; reflexivity).
  destruct (beqb e b_rbrace); [|rewrite R; reflexivity].
  apply comments_fuel_suffices. pose proof (after_hash_shorter _ _ A) as L. cbn [length] in *. lia.
Qed.

(* ------------------------------------------------------------------ no opener, no change *)

(* no byte '{' immediately followed by '#' *)
Fixpoint no_opener (s : bytes) : bool :=
  match s with
  | c :: r => match r with
              | h :: _ => negb (beqb c b_lbrace && beqb h b_hash) && no_opener r
              | [] => true
              end
  | [] => true
  end.

(* a prefix without opener (also none across the seam) is copied *)
Lemma cut_comments_prefix : forall a y r,
  no_opener (a ++ [y]) = true -> cut_comments (a ++ y :: r) = a ++ cut_comments (y :: r).
Proof.
  induction a as [|x a IH]; intros y r H; [reflexivity|].
  cbn [app]. rewrite cut_comments_cons.
  assert (T : no_opener (a ++ [y]) = true /\
              (beqb x b_lbrace = true -> match a ++ y :: r with h :: _ => beqb h b_hash = false | [] => True end)).
  { cbn [app no_opener] in H. destruct a as [|h a]; cbn [app] in *.
    - apply andb_true_iff in H. destruct H as [H1 _]. split; [reflexivity|]. intros E. rewrite E in H1.
      destruct (beqb y b_hash); [discriminate H1|reflexivity].
    - apply andb_true_iff in H. destruct H as [H1 H2]. split; [exact H2|]. intros E. rewrite E in H1.
      destruct (beqb h b_hash); [discriminate H1|reflexivity]. }
  destruct T as [T1 T2].
  destruct (beqb x b_lbrace); [|rewrite (IH y r T1); reflexivity]. specialize (T2 eq_refl).
  remember (a ++ y :: r) as z eqn:Ez. destruct z as [|h t]; [destruct a; discriminate Ez|].
  rewrite T2, Ez, (IH y r T1). reflexivity.
Qed.

Theorem no_opener_identity : forall s, no_opener s = true -> cut_comments s = s.
Proof.
  induction s as [|c r IH]; intros H; [reflexivity|]. rewrite cut_comments_cons.
  destruct r as [|h r1]; [destruct (beqb c b_lbrace); reflexivity|].
  cbn [no_opener] in H. apply andb_true_iff in H. destruct H as [H1 H2]. rewrite (IH H2).
  destruct (beqb c b_lbrace); [|reflexivity]. destruct (beqb h b_hash); [discriminate H1|reflexivity].
Qed.

Theorem keep_fmt_without_opener s : no_opener s = true -> preprocess true s = s.
Proof. intros H. unfold preprocess. apply no_opener_identity, H. Qed.

Lemma no_opener_snoc : forall a x, no_opener a = true -> beqb x b_hash = false -> no_opener (a ++ [x]) = true.
Proof.
  induction a as [|c a IH]; intros x H E; [reflexivity|].
  cbn [app]. destruct a as [|h a]; cbn [app no_opener] in *.
  - rewrite E, andb_false_r. reflexivity.
  - apply andb_true_iff in H. destruct H as [H1 H2]. rewrite H1. cbn [andb]. apply (IH x H2 E).
Qed.

(* ------------------------------------------------------------------ a comment is removed *)

Theorem comment_removed a c b :
  no_opener a = true -> forallb (fun x => negb (beqb x b_hash)) c = true ->
  cut_comments (a ++ [b_lbrace; b_hash] ++ c ++ [b_hash; b_rbrace] ++ b) = a ++ cut_comments b.
Proof.
  intros Ha Hc. cbn [app].
  rewrite cut_comments_prefix by (apply no_opener_snoc; [exact Ha|reflexivity]).
  f_equal. rewrite cut_comments_cons. rewrite !beqb_refl.
  rewrite (after_hash_app c (b_rbrace :: b) Hc), beqb_refl. reflexivity.
Qed.

(* in particular when there is no '{' in front at all *)
Lemma no_lbrace_no_opener : forall a, forallb (fun x => negb (beqb x b_lbrace)) a = true -> no_opener a = true.
Proof.
  induction a as [|c a IH]; intros H; [reflexivity|]. cbn [forallb] in H. apply andb_true_iff in H. destruct H as [H1 H2].
  cbn [no_opener]. destruct a; [reflexivity|]. rewrite (IH H2). destruct (beqb c b_lbrace); [discriminate H1|reflexivity].
Qed.

(* ------------------------------------------------------------------ no match at an opener *)

(* "{#" whose first '#' afterwards is missing, is the last byte, or is not followed by '}': the
   '{' is kept and the scan resumes one byte later *)
Theorem unterminated_comment_kept r1 :
  match after_hash r1 with
  | Some (e :: _) => beqb e b_rbrace = false
  | _ => True
  end ->
  cut_comments (b_lbrace :: b_hash :: r1) = b_lbrace :: cut_comments (b_hash :: r1).
Proof.
  intros H. rewrite cut_comments_cons, !beqb_refl.
  destruct (after_hash r1) as [[|e r2]|]; try reflexivity. rewrite H. reflexivity.
Qed.

Definition s_unterminated : bytes := ["{";"#";"a";"{";"#";"b";"#";"}";"c"]%byte.
Example unterminated_example : cut_comments s_unterminated = ["{";"#";"a";"c"]%byte.
Proof. vm_compute. reflexivity. Qed.

(* ------------------------------------------------------------------ one pass only *)

Definition s_nested : bytes := ["{";"{";"#";"a";"#";"}";"#";"x";"#";"}"]%byte.
Example not_idempotent_example :
  cut_comments s_nested = ["{";"#";"x";"#";"}"]%byte /\ cut_comments (cut_comments s_nested) = [].
Proof. vm_compute. split; reflexivity. Qed.

Definition cut_comments_idempotent_full_statement : Prop := forall s, cut_comments (cut_comments s) = cut_comments s.

Theorem cut_comments_idempotent_refuted : ~ cut_comments_idempotent_full_statement.
Proof. intros H. specialize (H s_nested). vm_compute in H. discriminate H. Qed.

(* ------------------------------------------------------------------ line breaks and indentation *)

Lemma lf_is_space : is_re_space b_lf = true.
Proof. reflexivity. Qed.

Theorem cut_fmt_go_no_lf : forall s k, ~ In b_lf (cut_fmt_go k s).
Proof.
  induction s as [|c r IH]; intros k; cbn [cut_fmt_go]; [intros []|].
  destruct (beqb c b_lf) eqn:E; [apply IH|].
  destruct (k && is_re_space c); [apply IH|].
  intros [H|H]; [subst c; rewrite beqb_refl in E; discriminate|exact (IH false H)].
Qed.

Theorem cut_fmt_go_identity : forall s, ~ In b_lf s -> cut_fmt_go false s = s.
Proof.
  induction s as [|c r IH]; intros H; [reflexivity|]. cbn [cut_fmt_go andb].
  rewrite beqb_ne_false by (intros E; apply H; left; exact E).
  rewrite IH; [reflexivity|]. intros G. apply H. right. exact G.
Qed.

Lemma cut_fmt_go_prefix : forall a x, ~ In b_lf a -> cut_fmt_go false (a ++ x) = a ++ cut_fmt_go false x.
Proof.
  induction a as [|c a IH]; intros x H; [reflexivity|]. cbn [app cut_fmt_go andb].
  rewrite beqb_ne_false by (intros E; apply H; left; exact E).
  rewrite IH; [reflexivity|]. intros G. apply H. right. exact G.
Qed.

Lemma cut_fmt_go_spaces : forall ws x, Forall (fun y => is_re_space y = true) ws ->
  cut_fmt_go true (ws ++ x) = cut_fmt_go true x.
Proof.
  induction 1 as [|y ws Hy _ IH]; [reflexivity|]. cbn [app cut_fmt_go]. rewrite Hy. cbn [andb].
  destruct (beqb y b_lf); exact IH.
Qed.

Theorem cut_fmt_line_break_and_indentation a ws c r :
  ~ In b_lf a -> Forall (fun x => is_re_space x = true) ws -> is_re_space c = false ->
  cut_fmt_go false (a ++ b_lf :: ws ++ c :: r) = a ++ c :: cut_fmt_go false r.
Proof.
  intros Ha Hws Hc. rewrite cut_fmt_go_prefix by exact Ha. f_equal.
  cbn [cut_fmt_go]. rewrite beqb_refl. rewrite cut_fmt_go_spaces by exact Hws.
  cbn [cut_fmt_go]. rewrite Hc, andb_false_r.
  destruct (beqb c b_lf) eqn:E; [|reflexivity]. apply beqb_true in E. subst c. discriminate Hc.
Qed.

(* ------------------------------------------------------------------ trim *)

Definition all_trim (p : bytes) : Prop := Forall (fun x => is_trim x = true) p.
Definition starts_ok (s : bytes) : bool := match s with [] => true | x :: _ => negb (is_trim x) end.

Lemma trim_left_split : forall s, exists p, s = p ++ trim_left s /\ all_trim p.
Proof.
  induction s as [|c r IH]; [exists []; split; [reflexivity|constructor]|].
  cbn [trim_left]. destruct (is_trim c) eqn:E.
  - destruct IH as (p & E1 & A). exists (c :: p). split; [cbn [app]; rewrite <- E1; reflexivity|constructor; assumption].
  - exists []. split; [reflexivity|constructor].
Qed.

Lemma trim_left_starts : forall s, starts_ok (trim_left s) = true.
Proof.
  induction s as [|c r IH]; [reflexivity|]. cbn [trim_left]. destruct (is_trim c) eqn:E; [exact IH|].
  cbn [starts_ok]. rewrite E. reflexivity.
Qed.

Lemma trim_left_fix s : starts_ok s = true -> trim_left s = s.
Proof. destruct s as [|c r]; [reflexivity|]. cbn [starts_ok trim_left]. destruct (is_trim c); [discriminate|reflexivity]. Qed.

Lemma all_trim_rev p : all_trim p -> all_trim (rev p).
Proof. unfold all_trim. rewrite !Forall_forall. intros H x Hx. apply H, in_rev, Hx. Qed.

(* the text is its trimmed part between two runs of space / tab / line feed, and the trimmed part
   neither starts nor ends with such a byte *)
Theorem trim_is_infix s :
  exists p q, s = p ++ trim s ++ q /\ all_trim p /\ all_trim q /\
              starts_ok (trim s) = true /\ starts_ok (rev (trim s)) = true.
Proof.
  unfold trim. destruct (trim_left_split s) as (p & E1 & A1).
  set (u := trim_left s) in *. destruct (trim_left_split (rev u)) as (q' & E2 & A2).
  set (v := trim_left (rev u)) in *.
  assert (EU : u = rev v ++ rev q') by (rewrite <- (rev_involutive u), E2, rev_app_distr; reflexivity).
  exists p, (rev q'). split; [rewrite E1 at 1; rewrite EU at 1; reflexivity|].
  split; [exact A1|]. split; [apply all_trim_rev, A2|]. split.
  - pose proof (trim_left_starts s) as S. fold u in S. rewrite EU in S.
    destruct (rev v) as [|x t]; [reflexivity|exact S].
  - rewrite rev_involutive. apply trim_left_starts.
Qed.

Theorem trim_idempotent s : trim (trim s) = trim s.
Proof.
  destruct (trim_is_infix s) as (p & q & _ & _ & _ & S1 & S2).
  unfold trim at 1. rewrite (trim_left_fix _ S1), (trim_left_fix _ S2), rev_involutive. reflexivity.
Qed.

(* ------------------------------------------------------------------ nothing added, nothing reordered *)

Inductive subseq : bytes -> bytes -> Prop :=
| sub_nil : subseq [] []
| sub_skip x a b : subseq a b -> subseq a (x :: b)
| sub_keep x a b : subseq a b -> subseq (x :: a) (x :: b).

Lemma subseq_refl : forall s, subseq s s.
Proof. induction s; constructor; assumption. Qed.

Lemma subseq_nil_l : forall s, subseq [] s.
Proof. induction s; constructor; assumption. Qed.

Lemma subseq_trans : forall b c, subseq b c -> forall a, subseq a b -> subseq a c.
Proof.
  induction 1 as [|x b c Hbc IH|x b c Hbc IH]; intros a Hab.
  - exact Hab.
  - apply sub_skip, IH, Hab.
  - inversion Hab; subst; [apply sub_skip, IH; assumption|apply sub_keep, IH; assumption].
Qed.

Lemma subseq_drop_prefix : forall p s, subseq s (p ++ s).
Proof. induction p as [|x p IH]; intros s; [apply subseq_refl|]. cbn [app]. apply sub_skip, IH. Qed.

Lemma subseq_app_l : forall a q, subseq a (a ++ q).
Proof. induction a as [|x a IH]; intros q; [apply subseq_nil_l|]. cbn [app]. apply sub_keep, IH. Qed.

Lemma subseq_mid p m q : subseq m (p ++ m ++ q).
Proof. eapply subseq_trans; [apply subseq_drop_prefix|apply subseq_app_l]. Qed.

Lemma subseq_In a b : subseq a b -> forall x, In x a -> In x b.
Proof.
  induction 1 as [|y a b H IH|y a b H IH]; intros x Hx; [exact Hx|right; apply IH, Hx|].
  destruct Hx as [->|Hx]; [left; reflexivity|right; apply IH, Hx].
Qed.

Lemma ccf_subseq : forall n s, subseq (cut_comments_fuel n s) s.
Proof.
  induction n as [|n IH]; intros s; [apply subseq_refl|]. cbn [cut_comments_fuel].
  destruct s as [|c r]; [constructor|].
  assert (K : subseq (c :: cut_comments_fuel n r) (c :: r)) by apply sub_keep, IH.
  destruct (beqb c b_lbrace); [|exact K]. destruct r as [|h r1]; [apply subseq_refl|].
  destruct (beqb h b_hash); [|exact K]. destruct (after_hash r1) as [[|e r2]|] eqn:A; try exact K.
  destruct (beqb e b_rbrace); [|exact K].
  destruct (after_hash_some _ _ A) as (p & -> & _).
  eapply subseq_trans; [|apply IH].
  replace (c :: h :: p ++ b_hash :: e :: r2) with ((c :: h :: p ++ [b_hash; e]) ++ r2)
    by (cbn [app]; rewrite <- app_assoc; reflexivity).
  apply subseq_drop_prefix.
Qed.

Theorem cut_comments_subseq s : subseq (cut_comments s) s.
Proof. apply ccf_subseq. Qed.

Theorem cut_fmt_go_subseq : forall s k, subseq (cut_fmt_go k s) s.
Proof.
  induction s as [|c r IH]; intros k; cbn [cut_fmt_go]; [constructor|].
  destruct (beqb c b_lf); [apply sub_skip, IH|]. destruct (k && is_re_space c); [apply sub_skip, IH|apply sub_keep, IH].
Qed.

Theorem trim_subseq s : subseq (trim s) s.
Proof. destruct (trim_is_infix s) as (p & q & E & _). rewrite E at 2. apply subseq_mid. Qed.

Theorem cut_fmt_subseq s : subseq (cut_fmt s) s.
Proof. unfold cut_fmt. eapply subseq_trans; [apply cut_fmt_go_subseq|apply trim_subseq]. Qed.

Theorem preprocess_subseq k s : subseq (preprocess k s) s.
Proof.
  unfold preprocess. destruct k; [apply cut_comments_subseq|].
  eapply subseq_trans; [apply cut_comments_subseq|apply cut_fmt_subseq].
Qed.

Theorem text_view_subseq k t : subseq (text_view k t) t.
Proof. unfold text_view. destruct k; [apply subseq_refl|apply cut_fmt_go_subseq]. Qed.

(* ------------------------------------------------------------------ cut_fmt as a whole *)

Theorem cut_fmt_no_lf s : ~ In b_lf (cut_fmt s).
Proof. intros H. apply (cut_fmt_go_no_lf s false). exact (subseq_In _ _ (trim_subseq _) _ H). Qed.

Theorem cut_fmt_go_idempotent k s : cut_fmt_go false (cut_fmt_go k s) = cut_fmt_go k s.
Proof. apply cut_fmt_go_identity, cut_fmt_go_no_lf. Qed.

Theorem cut_fmt_idempotent s : cut_fmt (cut_fmt s) = cut_fmt s.
Proof.
  unfold cut_fmt at 1. rewrite cut_fmt_go_identity by apply cut_fmt_no_lf.
  unfold cut_fmt. apply trim_idempotent.
Qed.
