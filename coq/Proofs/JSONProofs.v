From Coq Require Import ZifyN ZifyBool.
From DT Require Import Model.Bytes Proofs.BytesFacts Model.Utf8 Model.Hex Proofs.Utf8Facts
  Model.EscURL Model.EscJSON Spec.DecJSON.
Local Open Scope byte_scope.
Ltac Zify.zify_post_hook ::= Z.div_mod_to_equations.

Lemma beqb_true a b : beqb a b = true -> a = b.
Proof. apply byte_eqb_eq. Qed.

(* ---- the shape of a token ---- *)
(* what a token denotes for the lexer: the byte itself, or the code unit b *)
Definition tok_item (b : byte) : jitem :=
  if beqb b x0c then JUnit (b2n b)
  else if beqb b x08 then JUnit (b2n b)
  else if beqb b "<" then JUnit (b2n b)
  else if beqb b "'" then JUnit (b2n b)
  else if beqb b x00 then JUnit (b2n b)
  else if beqb b """" then JRaw b
  else if beqb b "\" then JRaw b
  else if beqb b x0a then JRaw b
  else if beqb b x0d then JRaw b
  else if beqb b x09 then JRaw b
  else if (b2n b <? 32)%N then JUnit (b2n b)
  else JRaw b.

(* ---- closed per-byte sweeps ---- *)

(* a byte that is copied is not a quote, not a control, not a backslash *)
Definition raw_ok (b : byte) : bool :=
  negb (beqb b """") && negb (b2n b <? 32)%N && negb (beqb b "\").

Lemma sweep_raw :
  forall b, (if bytes_eqb (json_tok b) [b] then raw_ok b else true) = true.
Proof. apply byte_forall. vm_compute. reflexivity. Qed.

(* the generic control escape: its two digits are hex digits and spell the byte *)
Lemma sweep_ctl_hex :
  forall b,
    (if (b2n b <? 32)%N then
       match hex4 "0" "0" (hex_lo_digit (N.shiftr (b2n b) 4)) (hex_lo_digit (N.land (b2n b) 15)) with
       | Some u => (u =? b2n b)%N
       | None => false
       end
     else true) = true.
Proof. apply byte_forall. vm_compute. reflexivity. Qed.

Lemma sweep_ctl_is_hex :
  forall b, is_hex (hex_lo_digit (N.shiftr (b2n b) 4)) && is_hex (hex_lo_digit (N.land (b2n b) 15)) = true.
Proof. apply byte_forall. vm_compute. reflexivity. Qed.

(* every token is the byte itself or printable ASCII *)
Definition tok_ascii (b : byte) : bool :=
  bytes_eqb (json_tok b) [b] || forallb (in_range 32 126) (json_tok b).

Lemma tok_ascii_ok : forall b, tok_ascii b = true.
Proof. apply byte_forall. vm_compute. reflexivity. Qed.

(* ---- the lexer on the three shapes, tail symbolic ---- *)
Lemma lex_raw c rest :
  raw_ok c = true -> json_lex (c :: rest) = option_map (cons (JRaw c)) (json_lex rest).
Proof.
  unfold raw_ok. intros H.
  apply andb_true_iff in H. destruct H as [H H3].
  apply andb_true_iff in H. destruct H as [H1 H2].
  apply negb_true_iff in H1. apply negb_true_iff in H2. apply negb_true_iff in H3.
  cbn [json_lex]. rewrite H1, H2, H3. reflexivity.
Qed.

Lemma lex_simple e b rest :
  beqb e "u" = false -> simple_escape e = Some b ->
  json_lex ("\" :: e :: rest) = option_map (cons (JRaw b)) (json_lex rest).
Proof.
  intros Hu Hs. cbn [json_lex].
  replace (beqb "\" """") with false by reflexivity.
  replace (b2n "\" <? 32)%N with false by reflexivity.
  replace (beqb "\" "\") with true by reflexivity.
  rewrite Hu, Hs. reflexivity.
Qed.

Lemma lex_unit h1 h2 h3 h4 u rest :
  hex4 h1 h2 h3 h4 = Some u ->
  json_lex ("\" :: "u" :: h1 :: h2 :: h3 :: h4 :: rest) = option_map (cons (JUnit u)) (json_lex rest).
Proof.
  intros Hh. cbn [json_lex].
  replace (beqb "\" """") with false by reflexivity.
  replace (b2n "\" <? 32)%N with false by reflexivity.
  replace (beqb "\" "\") with true by reflexivity.
  replace (beqb "u" "u") with true by reflexivity.
  rewrite Hh. reflexivity.
Qed.

Lemma bytes_eqb_true a b : bytes_eqb a b = true -> a = b.
Proof. apply bytes_eqb_eq. Qed.

(* ---- token lemma for the lexer ---- *)
Lemma lex_tok b rest :
  json_lex (json_tok b ++ rest) = option_map (cons (tok_item b)) (json_lex rest).
Proof.
  unfold json_tok, tok_item.
  destruct (beqb b """") eqn:H1.
  { apply beqb_true in H1. subst b. reflexivity. }
  destruct (beqb b "\") eqn:H2.
  { apply beqb_true in H2. subst b. reflexivity. }
  destruct (beqb b x0a) eqn:H3.
  { apply beqb_true in H3. subst b. reflexivity. }
  destruct (beqb b x0d) eqn:H4.
  { apply beqb_true in H4. subst b. reflexivity. }
  destruct (beqb b x09) eqn:H5.
  { apply beqb_true in H5. subst b. reflexivity. }
  destruct (beqb b x0c) eqn:H6.
  { apply beqb_true in H6. subst b. reflexivity. }
  destruct (beqb b x08) eqn:H7.
  { apply beqb_true in H7. subst b. reflexivity. }
  destruct (beqb b "<") eqn:H8.
  { apply beqb_true in H8. subst b. reflexivity. }
  destruct (beqb b "'") eqn:H9.
  { apply beqb_true in H9. subst b. reflexivity. }
  destruct (beqb b x00) eqn:H10.
  { apply beqb_true in H10. subst b. reflexivity. }
  destruct (b2n b <? 32)%N eqn:H11.
  - (* the generic control escape *)
    pose proof (sweep_ctl_hex b) as Hh. rewrite H11 in Hh.
    unfold json_ctl_tok, json_u00. cbn [app].
    destruct (hex4 "0" "0" (hex_lo_digit (N.shiftr (b2n b) 4)) (hex_lo_digit (N.land (b2n b) 15))) as [u|] eqn:Hu;
      [|discriminate].
    apply N.eqb_eq in Hh. subst u.
    apply lex_unit. exact Hu.
  - (* copied *)
    pose proof (sweep_raw b) as Hr. unfold json_tok in Hr.
    rewrite H1, H2, H3, H4, H5, H6, H7, H8, H9, H10, H11 in Hr.
    cbn [bytes_eqb] in Hr.
    replace (Byte.eqb b b) with true in Hr by (symmetry; apply byte_eqb_eq; reflexivity).
    cbn [andb] in Hr.
    cbn [app]. apply lex_raw. exact Hr.
Qed.

(* ---- token lemma for the UTF-16 layer ---- *)
Arguments N.div : simpl never.
Arguments N.modulo : simpl never.
Arguments N.mul : simpl never.
Arguments N.add : simpl never.
Arguments N.sub : simpl never.
Arguments N.ltb : simpl never.
Arguments N.leb : simpl never.
Arguments N.eqb : simpl never.

Lemma render_unit_ascii u r :
  (u < 128)%N -> json_render (JUnit u :: r) = n2b u :: json_render r.
Proof.
  intros Hu. cbn [json_render].
  destruct (is_high_surrogate u) eqn:Hh.
  { unfold is_high_surrogate, btw in Hh. lia. }
  destruct (is_low_surrogate u) eqn:Hl.
  { unfold is_low_surrogate, btw in Hl. lia. }
  unfold utf8_encode.
  replace (u <? 128)%N with true by lia.
  reflexivity.
Qed.

Lemma sweep_item_small :
  forall b, match tok_item b with JRaw c => beqb c b | JUnit u => (u =? b2n b)%N && (u <? 128)%N end = true.
Proof. apply byte_forall. vm_compute. reflexivity. Qed.

Lemma render_tok b r : json_render (tok_item b :: r) = b :: json_render r.
Proof.
  pose proof (sweep_item_small b) as H.
  destruct (tok_item b) as [c|u] eqn:Hi.
  - apply beqb_true in H. subst c. reflexivity.
  - apply andb_true_iff in H. destruct H as [H1 H2].
    apply N.eqb_eq in H1. apply N.ltb_lt in H2.
    rewrite render_unit_ascii by exact H2.
    subst u. rewrite n2b_b2n. reflexivity.
Qed.

Lemma body_tok b rest :
  json_body (json_tok b ++ rest) = option_map (cons b) (json_body rest).
Proof.
  unfold json_body. rewrite lex_tok.
  destruct (json_lex rest) as [items|]; [|reflexivity].
  cbn [option_map]. rewrite render_tok. reflexivity.
Qed.

Lemma body_escape s : json_body (json_escape s ++ [""""]) = Some s.
Proof.
  induction s as [|b s IH]; [reflexivity|].
  unfold json_escape in *. cbn [flat_map]. rewrite <- app_assoc.
  rewrite body_tok, IH. reflexivity.
Qed.

Theorem json_roundtrip : forall s, json_unquote (json_quote s) = Some s.
Proof.
  intros s. unfold json_quote. cbn [json_unquote].
  replace (beqb """" """") with true by reflexivity.
  apply body_escape.
Qed.

Theorem json_quote_shape : forall s, mod_json_quote s = """" :: json_escape s ++ [""""].
Proof. reflexivity. Qed.

(* ---- alphabet ---- *)
Lemma sweep_raw_safe :
  forall b, (if raw_ok b then negb (beqb b "\") && negb (beqb b """") && negb (b2n b <? 32)%N else true) = true.
Proof. apply byte_forall. vm_compute. reflexivity. Qed.

Lemma safe_raw c rest : raw_ok c = true -> json_body_safe (c :: rest) = json_body_safe rest.
Proof.
  intros H. pose proof (sweep_raw_safe c) as S. rewrite H in S.
  apply andb_true_iff in S. destruct S as [S S3].
  apply andb_true_iff in S. destruct S as [S1 S2].
  apply negb_true_iff in S1.
  cbn [json_body_safe]. rewrite S1, S2, S3. reflexivity.
Qed.

Lemma safe_unit h1 h2 h3 h4 rest :
  is_hex h1 && is_hex h2 && is_hex h3 && is_hex h4 = true ->
  json_body_safe ("\" :: "u" :: h1 :: h2 :: h3 :: h4 :: rest) = json_body_safe rest.
Proof.
  intros H. cbn [json_body_safe].
  replace (beqb "\" "\") with true by reflexivity.
  replace (beqb "u" "u") with true by reflexivity.
  rewrite H. reflexivity.
Qed.

Lemma safe_tok b rest : json_body_safe (json_tok b ++ rest) = json_body_safe rest.
Proof.
  unfold json_tok.
  destruct (beqb b """") eqn:H1; [reflexivity|].
  destruct (beqb b "\") eqn:H2; [reflexivity|].
  destruct (beqb b x0a) eqn:H3; [reflexivity|].
  destruct (beqb b x0d) eqn:H4; [reflexivity|].
  destruct (beqb b x09) eqn:H5; [reflexivity|].
  destruct (beqb b x0c) eqn:H6; [reflexivity|].
  destruct (beqb b x08) eqn:H7; [reflexivity|].
  destruct (beqb b "<") eqn:H8; [reflexivity|].
  destruct (beqb b "'") eqn:H9; [reflexivity|].
  destruct (beqb b x00) eqn:H10; [reflexivity|].
  destruct (b2n b <? 32)%N eqn:H11.
  - unfold json_ctl_tok, json_u00. cbn [app]. apply safe_unit.
    pose proof (sweep_ctl_is_hex b) as Hh.
    replace (is_hex "0") with true by reflexivity. cbn [andb]. exact Hh.
  - pose proof (sweep_raw b) as Hr. unfold json_tok in Hr.
    rewrite H1, H2, H3, H4, H5, H6, H7, H8, H9, H10, H11 in Hr.
    cbn [bytes_eqb] in Hr.
    replace (Byte.eqb b b) with true in Hr by (symmetry; apply byte_eqb_eq; reflexivity).
    cbn [andb] in Hr.
    cbn [app]. apply safe_raw. exact Hr.
Qed.

Theorem json_escape_safe : forall s, json_body_safe (json_escape s) = true.
Proof.
  induction s as [|b s IH]; [reflexivity|].
  unfold json_escape in *. cbn [flat_map]. rewrite safe_tok. exact IH.
Qed.

(* ---- iteration ---- *)
Lemma repeat_app_S {A} (f : A -> A) n x : repeat_app f (S n) x = f (repeat_app f n x).
Proof. revert x; induction n as [|n IH]; intros x; [reflexivity|]. cbn [repeat_app] in *. rewrite <- IH. reflexivity. Qed.

Lemma unquote_layer s : json_unquote ("""" :: json_escape s ++ [""""]) = Some s.
Proof. exact (json_roundtrip s). Qed.

Theorem json_iter_roundtrip : forall n s, unquote_n n (repeat_app json_escape n s) = Some s.
Proof.
  induction n as [|n IH]; intros s; [reflexivity|].
  rewrite repeat_app_S. cbn [unquote_n]. rewrite unquote_layer. apply IH.
Qed.

Lemma unquote_n_nil n : unquote_n n [] = Some [].
Proof. induction n as [|n IH]; [reflexivity|]. cbn [unquote_n]. exact IH. Qed.

Theorem mod_json_roundtrip : forall itr s, (0 <= itr)%Z ->
  unquote_n (Z.to_nat itr) (mod_json_escape itr s) = Some s.
Proof.
  intros itr s _. unfold mod_json_escape, esc_iter. destruct s as [|b s].
  - apply unquote_n_nil.
  - apply json_iter_roundtrip.
Qed.
