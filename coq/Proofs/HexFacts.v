From Coq Require Import ZifyN ZifyBool.
From DT Require Import Model.Bytes Proofs.BytesFacts Model.Hex.
Local Open Scope N_scope.
Ltac Zify.zify_post_hook ::= Z.div_mod_to_equations.

Lemma lt16_cases d : d < 16 -> In d (map N.of_nat (seq 0 16)).
Proof. intros H. apply in_map_iff. exists (N.to_nat d). split; [lia|]. apply in_seq. lia. Qed.

Lemma hex_val_lo_digit d : d < 16 -> hex_val (hex_lo_digit d) = Some d.
Proof.
  intros H. apply lt16_cases in H.
  assert (F : forallb (fun d => match hex_val (hex_lo_digit d) with Some v => v =? d | None => false end) (map N.of_nat (seq 0 16)) = true) by (vm_compute; reflexivity).
  rewrite forallb_forall in F. specialize (F d H).
  destruct (hex_val (hex_lo_digit d)) as [v|]; [|discriminate]. f_equal. lia.
Qed.

Lemma hex_val_up_digit d : d < 16 -> hex_val (hex_up_digit d) = Some d.
Proof.
  intros H. apply lt16_cases in H.
  assert (F : forallb (fun d => match hex_val (hex_up_digit d) with Some v => v =? d | None => false end) (map N.of_nat (seq 0 16)) = true) by (vm_compute; reflexivity).
  rewrite forallb_forall in F. specialize (F d H).
  destruct (hex_val (hex_up_digit d)) as [v|]; [|discriminate]. f_equal. lia.
Qed.

Lemma is_lo_hex_digit d : d < 16 -> is_lo_hex (hex_lo_digit d) = true.
Proof.
  intros H. apply lt16_cases in H.
  assert (F : forallb (fun d => is_lo_hex (hex_lo_digit d)) (map N.of_nat (seq 0 16)) = true) by (vm_compute; reflexivity).
  rewrite forallb_forall in F. exact (F d H).
Qed.

Lemma hex_val_hexd n k : hex_val (hexd n k) = Some ((n / 16 ^ k) mod 16).
Proof. unfold hexd. apply hex_val_lo_digit. apply N.mod_lt. discriminate. Qed.

Lemma is_lo_hex_hexd n k : is_lo_hex (hexd n k) = true.
Proof. unfold hexd. apply is_lo_hex_digit. apply N.mod_lt. discriminate. Qed.

Arguments N.div : simpl never.
Arguments N.modulo : simpl never.
Arguments N.mul : simpl never.
Arguments N.add : simpl never.
Arguments N.pow : simpl never.
Arguments N.ltb : simpl never.

(* parsing the digits of [hex_lo n] followed by anything that is not consumed here *)
Lemma parse_hex_acc_app acc s t :
  parse_hex_acc acc (s ++ t) = match parse_hex_acc acc s with Some a => parse_hex_acc a t | None => None end.
Proof.
  revert acc; induction s as [|c s IH]; intros acc; [reflexivity|].
  cbn [app parse_hex_acc]. destruct (hex_val c); [apply IH|reflexivity].
Qed.

Lemma pow16 : 16^0 = 1 /\ 16^1 = 16 /\ 16^2 = 256 /\ 16^3 = 4096 /\ 16^4 = 65536 /\ 16^5 = 1048576.
Proof. repeat split; reflexivity. Qed.

Theorem parse_hex_acc_hex_lo n : n < 16777216 -> parse_hex_acc 0 (hex_lo n) = Some n.
Proof.
  intros H. unfold hex_lo. destruct pow16 as (P0 & P1 & P2 & P3 & P4 & P5).
  destruct (n <? 16) eqn:E1; [|destruct (n <? 256) eqn:E2; [|destruct (n <? 4096) eqn:E3; [|destruct (n <? 65536) eqn:E4; [|destruct (n <? 1048576) eqn:E5]]]];
    cbn [parse_hex_acc]; rewrite ?hex_val_hexd; rewrite ?P0, ?P1, ?P2, ?P3, ?P4, ?P5; f_equal; lia.
Qed.

Theorem parse_hex_hex_lo n : n < 16777216 -> parse_hex (hex_lo n) = Some n.
Proof.
  intros H. unfold parse_hex. pose proof (parse_hex_acc_hex_lo n H) as P.
  destruct (hex_lo n) eqn:E; [|exact P].
  unfold hex_lo in E. repeat match type of E with (if ?c then _ else _) = _ => destruct c end; discriminate.
Qed.

Lemma hex_lo_all_lo_hex n : forallb is_lo_hex (hex_lo n) = true.
Proof.
  unfold hex_lo. repeat match goal with |- forallb _ (if ?c then _ else _) = _ => destruct c end;
    cbn [forallb]; rewrite ?is_lo_hex_hexd; reflexivity.
Qed.

Lemma hex_lo_length n :
  length (hex_lo n) = if n <? 16 then 1%nat else if n <? 256 then 2%nat else if n <? 4096 then 3%nat
                      else if n <? 65536 then 4%nat else if n <? 1048576 then 5%nat else 6%nat.
Proof. unfold hex_lo. repeat match goal with |- context [if ?c then _ else _] => destruct c end; reflexivity. Qed.
