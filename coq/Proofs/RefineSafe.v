(* Side condition of the refinement, discharged syntactically: items that never hand a lazybreak
   to the enclosing list ([lazy_free] gives [no_lazy]).
   (An earlier side condition on assignments inside counter loops is gone: the ctx node now
   copies a counter cell as a number instead of storing the pointer.) *)
From DT Require Import Model.Bytes Proofs.BytesFacts Model.Value Model.Tree Model.Mods Model.Interp
  Spec.Ast Spec.RefEval Spec.Compile Proofs.InterpFacts Proofs.FlatProofs Proofs.RefineBase
  Proofs.RefineCond Proofs.RefineList Proofs.RefineMods Proofs.RefineNodes.
Local Open Scope Z_scope.

(* ------------------------------------------------------------------ who can hand out a lazybreak *)

(* (a control instruction in a for-else branch is handed on by the loop: a lazybreak there is a
   lazybreak of the loop item) *)
Lemma run_else_not_lazy elsef he saved e acc trips :
  (forall e0, snd (elsef e0) <> SLazy) -> snd (run_else elsef he saved e acc trips) <> SLazy.
Proof.
  intros He. unfold run_else. destruct trips; [|discriminate]. destruct he; [|discriminate].
  specialize (He e). destruct (elsef e) as [[o e1] s]. cbn [snd] in He. destruct s; try discriminate. congruence.
Qed.

Lemma cloop_ref_not_lazy bodyf elsef he saved sep var cop step limv :
  (forall e0, snd (elsef e0) <> SLazy) ->
  forall fuel e acc trips cur, snd (cloop_ref bodyf elsef he saved sep var cop step limv fuel e acc trips cur) <> SLazy.
Proof.
  intros He.
  assert (FIN : forall e acc trips cur,
    snd (let e1 := loop_done e 0 in
         let e2 := match trips with O => e1 | _ => env_set var (VInt cur) true e1 end in
         let '(o, e3, s) := run_else elsef he saved (set_ebrk (e_brk e2) e2) acc trips in
         (o, set_ebrk (Z.max (e_brk e3) saved) e3, s)) <> SLazy).
  { intros e acc trips cur. cbv zeta.
    match goal with |- context [run_else ?a ?b ?c ?d ?f ?g] => pose proof (run_else_not_lazy a b c d f g He) as R;
      destruct (run_else a b c d f g) as [[o e3] s] end. exact R. }
  induction fuel as [|fuel IH]; intros e acc trips cur; cbn [cloop_ref];
    (destruct (cloop_allows cop cur limv) as [allow|]; [|discriminate]);
    (destruct (allow && (e_brk e =? 0)); [|apply FIN]).
  - discriminate.
  - destruct (bodyf _) as [[o e1] s].
    destruct (match step with OpInc => Some (cur + 1) | OpDec => Some (cur - 1) | _ => None end); [|discriminate].
    destruct s; try apply IH; discriminate.
Qed.

Lemma rloop_ref_not_lazy bodyf elsef he saved sep key val :
  (forall e0, snd (elsef e0) <> SLazy) ->
  forall elems e acc calls trips, snd (rloop_ref bodyf elsef he saved sep key val elems e acc calls trips) <> SLazy.
Proof.
  intros He. induction elems as [|[kb x] r IH]; intros e acc calls trips; cbn [rloop_ref].
  - match goal with |- context [run_else ?a ?b ?c ?d ?f ?g] => pose proof (run_else_not_lazy a b c d f g He) as R;
      destruct (run_else a b c d f g) as [[o e3] s] end. exact R.
  - match goal with |- context [if ?b then _ else _] => destruct b end; [discriminate|].
    destruct (bodyf _) as [[o e1] s]. destruct s; try apply IH; discriminate.
Qed.

Fixpoint lazy_free (a : ast) : bool :=
  match a with
  | ABreak lz _ _ _ => negb lz
  | AIf _ th el _ => forallb lazy_free th && forallb lazy_free el
  | AIfOK _ _ _ _ _ th el _ => forallb lazy_free th && forallb lazy_free el
  | ASwitch _ cases dflt _ => forallb lazy_free cases && forallb lazy_free dflt
  | ACase _ body => forallb lazy_free body
  | ARegion _ body => forallb lazy_free body
  | ACLoop _ _ _ _ _ _ _ _ _ els _ => forallb lazy_free els
  | ARLoop _ _ _ _ _ els _ => forallb lazy_free els
  | _ => true
  end.

Section Lazy.
  Variable flits : list (bytes * Z).
  Variable rlookup : list bytes -> option (list ast).
  Variable budget : nat.
  Variable rinc : list ast -> env -> option res.
  Notation re := (ref_eval flits rlookup budget rinc).

  Definition never_lazy (a : ast) : Prop := forall e, snd (re a e) <> SLazy.

  (* a list without lazybreaks is walked alike as a template and as a block *)
  Lemma gseq_no_lazy : forall l, Forall never_lazy l ->
    forall e acc, gseq re false l e acc false = gseq re true l e acc false /\
                  snd (gseq re true l e acc false) <> SLazy.
  Proof.
    induction 1 as [|a l Ha _ IH]; intros e acc; [split; [reflexivity|discriminate]|].
    cbn [gseq]. specialize (Ha e). destruct (re a e) as [[o e1] s]. cbn [snd] in Ha.
    destruct s; try (split; [reflexivity|discriminate]); [apply IH|congruence].
  Qed.

  Lemma seq_no_lazy l : Forall never_lazy l -> forall e acc, snd (seq_with re l e acc false) <> SLazy.
  Proof.
    intros H e acc. rewrite seq_with_gseq. destruct (gseq_no_lazy l H e acc) as [E N]. rewrite E. exact N.
  Qed.

  Lemma top_no_lazy l : Forall never_lazy l -> forall e acc, snd (top_with re l e acc) <> SLazy.
  Proof. intros H e acc. rewrite top_with_gseq. exact (proj2 (gseq_no_lazy l H e acc)). Qed.

  Lemma print_not_lazy e letters path mods pfx sfx raw : snd (ref_print e letters path mods pfx sfx raw) <> SLazy.
  Proof.
    pose proof (ref_print_sig e letters path mods pfx sfx raw) as S.
    destruct (snd (ref_print e letters path mods pfx sfx raw)); try contradiction; discriminate.
  Qed.

  Lemma cases_not_lazy test dflt hd : Forall never_lazy dflt ->
    forall cases, Forall (fun a => match a with ACase _ body => Forall never_lazy body | _ => True end) cases ->
    forall e, snd (cases_ref re test dflt hd cases e) <> SLazy.
  Proof.
    intros Hd. induction 1 as [|a cases Ha _ IH]; intros e.
    - cbn [cases_ref]. destruct hd; [apply seq_no_lazy, Hd|discriminate].
    - destruct a; try apply IH. cbn [cases_ref].
      destruct (test c e) as [[|]| |]; [apply seq_no_lazy, Ha|apply IH|discriminate|discriminate].
  Qed.

  Lemma lazy_free_ok : forall a, lazy_free a = true ->
    never_lazy a /\ (forall c body, a = ACase c body -> Forall never_lazy body).
  Proof.
    assert (ALL : forall l, Forall (fun a => lazy_free a = true -> never_lazy a /\
                                             (forall c body, a = ACase c body -> Forall never_lazy body)) l ->
                            forallb lazy_free l = true -> Forall never_lazy l).
    { induction 1 as [|a l Ha _ IH]; intros H; [constructor|].
      cbn [forallb] in H. apply andb_true_iff in H. destruct H as [H1 H2].
      constructor; [apply Ha, H1|apply IH, H2]. }
    apply (ast_ind' (fun a => lazy_free a = true -> never_lazy a /\
                              (forall c body, a = ACase c body -> Forall never_lazy body)));
      intros; (split; [|intros c0 body0 E0; try discriminate E0]).
    - intros e. cbn. discriminate.
    - intros e. cbn. discriminate.
    - intros e. cbn [ref_eval]. apply print_not_lazy.
    - intros e. cbn [ref_eval]. destruct (ref_cond flits e c) as [[|]| |]; try discriminate; apply print_not_lazy.
    - cbn [lazy_free] in H1. apply andb_true_iff in H1. destruct H1 as [H1 H2].
      intros e. cbn [ref_eval]. destruct (ref_cond flits e c) as [[|]| |]; try discriminate.
      + apply seq_no_lazy, ALL; assumption.
      + destruct he; [apply seq_no_lazy, ALL; assumption|discriminate].
    - cbn [lazy_free] in H1. apply andb_true_iff in H1. destruct H1 as [H1 H2].
      intros e. cbn [ref_eval].
      destruct (if al then Some (VBytes arg) else env_get e arg) as [x|]; [|discriminate].
      destruct (text_of [] x) as [[|b0 t0]|]; cbv beta iota;
        (destruct (xorb ng _); [apply seq_no_lazy, ALL; assumption|]);
        (destruct he; [apply seq_no_lazy, ALL; assumption|discriminate]).
    - cbn [lazy_free] in H1. apply andb_true_iff in H1. destruct H1 as [H1 H2].
      intros e. cbn [ref_eval].
      assert (CS : Forall (fun a => match a with ACase _ body => Forall never_lazy body | _ => True end) cases).
      { clear - H H1. induction H as [|a l Ha _ IH]; [constructor|].
        cbn [forallb] in H1. apply andb_true_iff in H1. destruct H1 as [H1 H2].
        constructor; [|apply IH, H2]. destruct a; try exact I. destruct (Ha H1) as [_ Hc]. eapply Hc. reflexivity. }
      destruct arg; apply cases_not_lazy; try assumption; apply ALL; assumption.
    - intros e. cbn. discriminate.
    - inversion E0; subst. apply ALL; assumption.
    - cbn [lazy_free] in H1. pose proof (top_no_lazy els (ALL _ H0 H1)) as TE.
      intros e. cbn [ref_eval].
      destruct (bound_of _ il init) as [[v0|]|x]; try discriminate;
        destruct (bound_of _ ll lim) as [[lv|]|y]; try discriminate.
      apply cloop_ref_not_lazy. intros ee. apply TE.
    - cbn [lazy_free] in H1. pose proof (top_no_lazy els (ALL _ H0 H1)) as TE.
      intros e. cbn [ref_eval]. destruct (split_dot src); [discriminate|].
      destruct (env_find _ _); [|apply rloop_ref_not_lazy; intros ee; apply TE].
      match goal with |- context [match ?x with Some _ => _ | None => _ end] => destruct x end;
        [apply rloop_ref_not_lazy; intros ee; apply TE|discriminate].
    - cbn [lazy_free] in H. intros e. cbn [ref_eval]. destruct lz; [discriminate H|].
      destruct hc; [|discriminate]. destruct (ref_cond flits e c) as [[|]| |]; discriminate.
    - intros e. cbn [ref_eval]. destruct hc; [|discriminate]. destruct (ref_cond flits e c) as [[|]| |]; discriminate.
    - intros e. cbn [ref_eval]. destruct lit; [discriminate|]. destruct (env_get e src); [|discriminate].
      destruct (apply_mods e mods v); try discriminate.
      destruct (is_void v0); discriminate.
    - intros e. cbn [ref_eval]. destruct ii; [discriminate|]. destruct (env_get e var); discriminate.
    - intros e. cbn [ref_eval]. destruct (rlookup names); [|discriminate].
      destruct (rinc l e) as [[[o e1] s]|]; [|discriminate]. destruct s; discriminate.
    - intros e. cbn. discriminate.
    - cbn [lazy_free] in H0. intros e. cbn [ref_eval].
      pose proof (seq_no_lazy body (ALL _ H H0) (set_eflag f true e) []) as N.
      destruct (seq_with re body (set_eflag f true e) [] false) as [[o e1] s]. cbn [snd] in N.
      destruct s; try discriminate. congruence.
  Qed.

  Lemma lazy_free_no_lazy body : forallb lazy_free body = true ->
    forall e acc, gseq re false body e acc false = gseq re true body e acc false /\
                  snd (gseq re true body e acc false) <> SLazy.
  Proof.
    intros H. apply gseq_no_lazy. apply Forall_forall. intros a Hin.
    rewrite forallb_forall in H. apply (lazy_free_ok a (H a Hin)).
  Qed.
End Lazy.
