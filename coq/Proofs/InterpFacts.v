(* First facts about the interpreter model: writer, static text, comparison scratch-freedom,
   variable setters. *)
From DT Require Import Model.Bytes Proofs.BytesFacts Model.Value Model.Tree Model.Mods Model.Interp.
Local Open Scope Z_scope.

(* ---- writer ---- *)
Lemma wr_write_healthy w b :
  w_fail w = None ->
  snd (wr_write w b) = true /\ w_fail (fst (wr_write w b)) = None /\
  wr_bytes (fst (wr_write w b)) = wr_bytes w ++ b /\ w_n (fst (wr_write w b)) = S (w_n w).
Proof.
  intros H. unfold wr_write. rewrite H. cbn. repeat split.
  unfold wr_bytes. cbn. rewrite concat_app. cbn. rewrite app_nil_r. reflexivity.
Qed.

(* once a write has failed every later one fails *)
Lemma wr_write_failed_sticky w b k :
  w_fail w = Some k -> (k <= w_n w)%nat -> snd (wr_write w b) = false /\ w_failed (fst (wr_write w b)) = true.
Proof.
  intros H Hk. unfold wr_write. rewrite H.
  destruct (Nat.ltb (S (w_n w)) k) eqn:E1.
  - apply Nat.ltb_lt in E1. lia.
  - destruct (Nat.eqb (S (w_n w)) k) eqn:E2; cbn; split; reflexivity.
Qed.

(* a failing Write call is reported as not-ok, and marks the writer *)
Lemma wr_write_reports w b :
  snd (wr_write w b) = false -> w_failed (fst (wr_write w b)) = true.
Proof.
  unfold wr_write. destruct (w_fail w) as [k|]; [|cbn; discriminate].
  destruct (Nat.ltb (S (w_n w)) k); [cbn; discriminate|].
  destruct (Nat.eqb (S (w_n w)) k); cbn; reflexivity.
Qed.

Section WithEnv.
  Variable flits : list (bytes * Z).
  Variable lookup : list bytes -> option tree.
  Variable budget : nat.
  Variable inc : tree -> ctx -> option (ctx * bytes * option err).
  Notation wn := (write_node flits lookup budget inc).

  (* static text outside any bound tag reaches a healthy writer byte for byte, as one write *)
  Lemma raw_verbatim raw c w :
    w_fail w = None -> chJQ c = false -> chHE c = false -> chUE c = false ->
    exists w', wn (NRaw raw) c w = Out (set_cerr None c) w' None /\
               wr_bytes w' = wr_bytes w ++ raw /\ w_n w' = S (w_n w) /\ w_fail w' = None.
  Proof.
    intros Hw Hj Hh Hu. cbn [write_node]. unfold write_raw, region_text. cbn [chJQ chHE chUE set_cerr].
    rewrite Hj, Hh, Hu.
    destruct (wr_write w raw) as [w1 ok] eqn:E.
    pose proof (wr_write_healthy w raw Hw) as (H1 & H2 & H3 & H4). rewrite E in *. cbn in *. subst ok.
    exists w1. repeat split; assumption.
  Qed.

  (* static text inside a bound tag is escaped by that tag's escaper *)
  Lemma raw_in_region raw c w :
    w_fail w = None ->
    exists w', wn (NRaw raw) c w = Out (set_cerr None c) w' None /\
               wr_bytes w' = wr_bytes w ++ region_text c raw.
  Proof.
    intros Hw. cbn [write_node]. unfold write_raw.
    replace (region_text (set_cerr None c) raw) with (region_text c raw) by reflexivity.
    destruct (wr_write w (region_text c raw)) as [w1 ok] eqn:E.
    pose proof (wr_write_healthy w (region_text c raw) Hw) as (H1 & H2 & H3 & H4). rewrite E in *. cbn in *. subst ok.
    exists w1. split; [reflexivity|assumption].
  Qed.
End WithEnv.

(* ---- comparisons do not read the scratch result buffer or the error register ---- *)
Lemma ctx_cmp_scratch_free flits c p o l b e :
  snd (ctx_cmp flits (set_bufB b (set_cerr e c)) p o l) = snd (ctx_cmp flits c p o l).
Proof.
  unfold ctx_cmp. destruct (split_dot p) as [|k rest]; [reflexivity|].
  cbn [vars set_bufB set_cerr bufLC].
  destruct (find_var k (vars c)) as [s|]; [|reflexivity].
  destruct (leaf_cmp _ _ _ _ _ _); reflexivity.
Qed.

(* ---- setters: a variable reads back what was assigned last, whatever it held before ---- *)
Lemma find_var_put k f fresh c :
  (forall s, s_key (f s) = s_key s) -> s_key fresh = k ->
  exists s', find_var k (vars (put_slot k f fresh c)) = Some s' /\
             (s' = fresh \/ exists s, find_var k (vars c) = Some s /\ s' = f s).
Proof.
  intros Hf Hk. unfold put_slot.
  assert (G : forall l, match upd_slot k f l with
                        | Some l' => exists s, find_var k l = Some s /\ find_var k l' = Some (f s)
                        | None => find_var k l = None
                        end).
  { induction l as [|s l IH]; [reflexivity|]. cbn [upd_slot find_var].
    destruct (bytes_eqb (s_key s) k) eqn:E.
    - exists s. split; [reflexivity|]. cbn [find_var]. rewrite Hf, E. reflexivity.
    - destruct (upd_slot k f l) as [l'|].
      + destruct IH as (s0 & H1 & H2). exists s0. split; [exact H1|]. cbn [find_var]. rewrite E. exact H2.
      + exact IH. }
  specialize (G (vars c)). destruct (upd_slot k f (vars c)) as [l'|].
  - destruct G as (s & H1 & H2). exists (f s). split; [exact H2|]. right. exists s. split; [exact H1|reflexivity].
  - exists fresh. split; [|left; reflexivity]. cbn [vars set_vars].
    assert (A : forall l, find_var k l = None -> find_var k (l ++ [fresh]) = Some fresh).
    { induction l as [|s l IH]; cbn [find_var app]; intros H.
      - subst k. rewrite (proj2 (bytes_eqb_eq _ _) eq_refl). reflexivity.
      - destruct (bytes_eqb (s_key s) k); [discriminate|]. apply IH, H. }
    apply A, G.
Qed.


(* ---- template level: exit ends the template with the output so far, successfully ---- *)
Section Tpl.
  Variable flits : list (bytes * Z).
  Variable lookup : list bytes -> option tree.
  Variable budget : nat.
  Variable inc : tree -> ctx -> option (ctx * bytes * option err).
  Notation wn := (write_node flits lookup budget inc).
  Notation rn := (run_nodes flits lookup budget inc).

  Lemma run_nodes_app pre post c w :
    rn (pre ++ post) c w =
    match rn pre c w with
    | Out c1 w1 None => rn post c1 w1
    | o => o
    end.
  Proof.
    revert c w; induction pre as [|n pre IH]; intros c w; [reflexivity|].
    cbn [app run_nodes]. destruct (wn n c w) as [c1 w1 [e|]| |]; try reflexivity. apply IH.
  Qed.

  (* whatever follows an exit is not evaluated *)
  Lemma exit_cuts pre post c w c1 w1 :
    rn pre c w = Out c1 w1 None ->
    rn (pre ++ NExit :: post) c w = Out (set_cerr None c1) w1 (Some EInterrupt).
  Proof.
    intros H. rewrite run_nodes_app, H. reflexivity.
  Qed.

  (* ... and the template reports success with exactly the output produced before it *)
  Lemma exit_is_success pre post c w c1 w1 :
    rn pre (set_wd (S (wd c)) c) w = Out c1 w1 None ->
    exists c2, write_tpl flits lookup budget inc (pre ++ NExit :: post) c w = Out c2 w1 None.
  Proof.
    intros H. unfold write_tpl. rewrite (exit_cuts _ post _ _ _ _ H).
    cbn [wd set_cerr set_wd].
    destruct (Nat.pred (wd c1)) eqn:E; eexists; reflexivity.
  Qed.
End Tpl.

(* the control instructions are pure signals that record the requested depth *)
Lemma break_signal flits lookup budget inc d c w :
  write_node flits lookup budget inc (NBreak d) c w = Out (set_brkD (Z.max d (brkD c)) (set_cerr None c)) w (Some EBreak).
Proof. reflexivity. Qed.
Lemma lazybreak_signal flits lookup budget inc d c w :
  write_node flits lookup budget inc (NLBreak d) c w = Out (set_brkD (Z.max d (brkD c)) (set_cerr None c)) w (Some ELBreak).
Proof. reflexivity. Qed.
Lemma continue_signal flits lookup budget inc c w :
  write_node flits lookup budget inc NContinue c w = Out (set_cerr None c) w (Some ECont).
Proof. reflexivity. Qed.

(* a counter loop whose condition fails at once performs no iteration: only its else branch *)
Lemma cloop_no_iteration bodyf elsef has_else cnt sep condOp cntOp limv idx saved fuel c w cur :
  cloop_allows condOp cur limv = Some false ->
  cloop_iter bodyf elsef has_else cnt sep condOp cntOp limv idx saved fuel c w 0 cur
  = cloop_finish elsef has_else cnt idx saved c w 0.
Proof. intros H. destruct fuel; cbn [cloop_iter]; rewrite H; reflexivity. Qed.

(* a range loop over no elements performs no iteration: only its else branch *)
Lemma rloop_no_elements bodyf elsef has_else key val sep saved c w :
  rloop_each bodyf elsef has_else key val sep saved [] c w 0 0 = rloop_finish elsef has_else saved c w 0.
Proof. reflexivity. Qed.
