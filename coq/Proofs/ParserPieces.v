(* The pieces of the parser model (Model/Parser.v) build what the specification-side compiler
   (Spec/Compile.v, Spec/RefEval.v) says: escape letters, argument lists, divider splitting,
   switch roll-up.  For every input of the stated shape, every table T and registry content E. *)
From DT Require Import Model.Bytes Model.Value Model.Tree Model.Regex Model.ParserRe
  Model.ParserSkel Model.Parser Spec.Ast Spec.RefEval Spec.Compile Proofs.BytesFacts.
From DT Require Gen.RegexTable.
Local Open Scope byte_scope.

Lemma pp_beqb_refl b : beqb b b = true.
Proof. apply byte_eqb_eq. reflexivity. Qed.

Lemma pp_beqb_eq a b : beqb a b = true -> a = b.
Proof. apply byte_eqb_eq. Qed.

Lemma pp_beqb_neq a b : a <> b -> beqb a b = false.
Proof.
  intros H. destruct (beqb a b) eqn:Hb; [|reflexivity]. apply pp_beqb_eq in Hb. contradiction.
Qed.

Lemma pp_beqb_sym a b : beqb a b = beqb b a.
Proof.
  destruct (beqb a b) eqn:H1.
  - apply pp_beqb_eq in H1. subst b. symmetry. apply pp_beqb_refl.
  - destruct (beqb b a) eqn:H2; [|reflexivity]. apply pp_beqb_eq in H2. subst b.
    rewrite pp_beqb_refl in H1. discriminate.
Qed.

(* ================================================================== *)
(* 1. Escape letters                                                   *)
(* ================================================================== *)

Definition simple_letters (s : bytes) : bool :=
  forallb (fun c => match letter_mod c with Some _ => true | None => false end) s.

Definition opt_bytes_eqb (a b : option bytes) : bool :=
  match a, b with
  | Some x, Some y => bytes_eqb x y
  | None, None => true
  | _, _ => false
  end.

(* the parser's letter table and the specification's are the same function: all 256 bytes *)
Lemma letter_id_is_letter_mod : forall c, letter_id c = letter_mod c.
Proof.
  intros c.
  assert (H : opt_bytes_eqb (letter_id c) (letter_mod c) = true).
  { revert c. apply byte_forall. vm_compute. reflexivity. }
  destruct (letter_id c) as [x|], (letter_mod c) as [y|]; cbn [opt_bytes_eqb] in H;
    try discriminate; [|reflexivity].
  apply bytes_eqb_eq in H. subst y. reflexivity.
Qed.

Lemma letter_runs_cons c r :
  letter_runs (c :: r) =
  match letter_runs r with
  | (c', n) :: t => if beqb c c' then (c, (n + 1)%Z) :: t else (c, 1%Z) :: (c', n) :: t
  | [] => [(c, 1%Z)]
  end.
Proof. reflexivity. Qed.

Lemma run_len_cons c x r : run_len c (x :: r) = if beqb x c then S (run_len c r) else O.
Proof. reflexivity. Qed.

(* the first run: its letter, its length, and the runs of what follows it *)
Lemma letter_runs_first : forall r c,
  letter_runs (c :: r) = (c, Z.of_nat (S (run_len c r))) :: letter_runs (skipn (run_len c r) r).
Proof.
  induction r as [|d r IH]; intros c.
  - reflexivity.
  - rewrite letter_runs_cons, (IH d), run_len_cons, (pp_beqb_sym d c).
    destruct (beqb c d) eqn:Hcd.
    + apply pp_beqb_eq in Hcd. subst d. cbn [skipn]. f_equal. f_equal. lia.
    + cbn [skipn]. rewrite (IH d). reflexivity.
Qed.

Lemma letter_runs_repeat : forall c n rest,
  match rest with x :: _ => beqb x c = false | [] => True end ->
  letter_runs (repeat c (S n) ++ rest) = (c, Z.of_nat (S n)) :: letter_runs rest.
Proof.
  intros c n rest Hrest. cbn [repeat app]. rewrite letter_runs_first.
  assert (Hrl : run_len c (repeat c n ++ rest) = n).
  { induction n as [|n IHn]; cbn [repeat app].
    - destruct rest as [|x rest']; [reflexivity|]. rewrite run_len_cons, Hrest. reflexivity.
    - rewrite run_len_cons, pp_beqb_refl, IHn. reflexivity. }
  rewrite Hrl. f_equal.
  assert (Hsk : skipn n (repeat c n ++ rest) = rest).
  { clear Hrl. induction n as [|n IHn]; [reflexivity|]. cbn [repeat app skipn]. exact IHn. }
  rewrite Hsk. reflexivity.
Qed.

Lemma letter_mods_letter T f c r id : letter_id c = Some id ->
  letter_mods T (S f) (c :: r) =
  mkMod id [mkArg [] (print_Z (Z.of_nat (run_len c (c :: r)))) true false]
  :: letter_mods T f (skipn (run_len c (c :: r)) (c :: r)).
Proof. intros H. cbn [letter_mods]. rewrite H. reflexivity. Qed.

Lemma letter_mods_nil T f : letter_mods T f [] = [].
Proof. destruct f; reflexivity. Qed.

Lemma simple_letters_skipn n : forall s, simple_letters s = true -> simple_letters (skipn n s) = true.
Proof.
  induction n as [|n IH]; intros s H; [exact H|].
  destruct s as [|c r]; [exact H|]. cbn [skipn]. apply IH.
  unfold simple_letters in H. cbn [forallb] in H. apply andb_true_iff in H. apply H.
Qed.

Lemma skipn_length_le {A} n : forall l : list A, (length (skipn n l) <= length l)%nat.
Proof.
  induction n as [|n IH]; intros l; [cbn [skipn]; lia|].
  destruct l as [|c r]; cbn [skipn length]; [lia|]. specialize (IH r). lia.
Qed.

(* one modifier per run of equal letters, in order, the run length as its literal argument *)
Theorem letter_mods_runs : forall T s fuel, simple_letters s = true -> (length s < fuel)%nat ->
  letter_mods T fuel s = c_letters (letter_runs s).
Proof.
  intros T s fuel. revert s.
  induction fuel as [|f IH]; intros s Hs Hlen; [lia|].
  destruct s as [|c r]; [reflexivity|].
  pose proof Hs as Hs'. unfold simple_letters in Hs'. cbn [forallb] in Hs'.
  apply andb_true_iff in Hs'. destruct Hs' as [Hc Hr].
  destruct (letter_mod c) as [name|] eqn:Hlm; [|discriminate].
  rewrite (letter_mods_letter T f c r name) by (rewrite letter_id_is_letter_mod; exact Hlm).
  rewrite run_len_cons, pp_beqb_refl. cbn [skipn].
  rewrite letter_runs_first. cbn [c_letters]. rewrite Hlm.
  rewrite IH.
  - reflexivity.
  - apply simple_letters_skipn. exact Hr.
  - pose proof (skipn_length_le (run_len c r) r) as Hl. cbn [length] in Hlen. lia.
Qed.

(* the count, separately: the literal of the first modifier is the length of the first run *)
Lemma run_len_repeat c n rest :
  match rest with x :: _ => beqb x c = false | [] => True end ->
  run_len c (repeat c n ++ rest) = n.
Proof.
  intros Hrest. induction n as [|n IHn]; cbn [repeat app].
  - destruct rest as [|x rest']; [reflexivity|]. rewrite run_len_cons, Hrest. reflexivity.
  - rewrite run_len_cons, pp_beqb_refl, IHn. reflexivity.
Qed.

Lemma letter_runs_nil_inv s : letter_runs s = [] -> s = [].
Proof.
  destruct s as [|c r]; [reflexivity|]. rewrite letter_runs_first. discriminate.
Qed.

(* the last letter of s1 differs from the first of s2 *)
Definition boundary_distinct (s1 s2 : bytes) : Prop :=
  forall p x y q, s1 = p ++ [x] -> s2 = y :: q -> x <> y.

Lemma letter_runs_app : forall s1 s2, boundary_distinct s1 s2 ->
  letter_runs (s1 ++ s2) = letter_runs s1 ++ letter_runs s2.
Proof.
  induction s1 as [|c r IH]; intros s2 Hb; [reflexivity|].
  cbn [app]. rewrite !letter_runs_cons.
  destruct r as [|d r'].
  - cbn [app letter_runs]. destruct s2 as [|y q]; [reflexivity|].
    rewrite letter_runs_first.
    rewrite (pp_beqb_neq c y); [reflexivity|].
    apply (Hb [] c y q); reflexivity.
  - rewrite IH.
    + rewrite (letter_runs_first r' d). cbn [app]. destruct (beqb c d); reflexivity.
    + intros p x y q Hp Hq. apply (Hb (c :: p) x y q); [rewrite Hp; reflexivity|exact Hq].
Qed.

Lemma c_letters_app : forall a b, c_letters (a ++ b) = c_letters a ++ c_letters b.
Proof.
  induction a as [|[l n] a IH]; intros b; [reflexivity|].
  cbn [app c_letters]. rewrite IH. destruct (letter_mod l); reflexivity.
Qed.

Lemma simple_letters_app s1 s2 :
  simple_letters (s1 ++ s2) = simple_letters s1 && simple_letters s2.
Proof. unfold simple_letters. apply forallb_app. Qed.

(* composition left to right *)
Theorem letter_mods_app_distinct : forall T s1 s2 f f1 f2,
  simple_letters s1 = true -> simple_letters s2 = true -> boundary_distinct s1 s2 ->
  (length (s1 ++ s2) < f)%nat -> (length s1 < f1)%nat -> (length s2 < f2)%nat ->
  letter_mods T f (s1 ++ s2) = letter_mods T f1 s1 ++ letter_mods T f2 s2.
Proof.
  intros T s1 s2 f f1 f2 H1 H2 Hb Hf Hf1 Hf2.
  rewrite !letter_mods_runs; try assumption.
  - rewrite letter_runs_app by exact Hb. apply c_letters_app.
  - rewrite simple_letters_app, H1, H2. reflexivity.
Qed.

(* what extract_mods appends for the letters in front of "=" *)
Corollary extract_mods_letters : forall T s, simple_letters s = true ->
  letter_mods T (S (length s)) s = c_letters (letter_runs s).
Proof. intros T s Hs. apply letter_mods_runs; [exact Hs|lia]. Qed.

(* ================================================================== *)
(* 3. Divider splitting                                                *)
(* ================================================================== *)

Definition no_div (l : list node) : bool := forallb (fun n => negb (is_div n)) l.

Lemma split_nodes_go_nil seen cur :
  split_nodes_go seen cur [] =
  match cur with [] => if seen then [[]] else [] | _ => [rev cur] end.
Proof. reflexivity. Qed.

Lemma split_nodes_go_div seen cur r :
  split_nodes_go seen cur (NOther 16 :: r) = rev cur :: split_nodes_go true [] r.
Proof. reflexivity. Qed.

Lemma split_nodes_go_run : forall a seen cur rest, no_div a = true ->
  split_nodes_go seen cur (a ++ rest) = split_nodes_go seen (rev a ++ cur) rest.
Proof.
  induction a as [|n a IH]; intros seen cur rest Ha; [reflexivity|].
  unfold no_div in Ha. cbn [forallb] in Ha. apply andb_true_iff in Ha. destruct Ha as [Hn Ha].
  apply negb_true_iff in Hn.
  cbn [app split_nodes_go]. rewrite Hn. rewrite (IH seen (n :: cur) rest Ha).
  cbn [rev]. rewrite <- app_assoc. reflexivity.
Qed.

(* a divider-free list read to its end *)
Lemma split_nodes_go_all seen a : no_div a = true ->
  split_nodes_go seen [] a = match a with [] => if seen then [[]] else [] | _ => [a] end.
Proof.
  intros Ha. rewrite <- (app_nil_r a) at 1.
  rewrite (split_nodes_go_run a seen [] [] Ha), app_nil_r, split_nodes_go_nil.
  destruct a as [|n a']; [reflexivity|].
  destruct (rev (n :: a')) as [|x l] eqn:Hr.
  - apply (f_equal (@rev node)) in Hr. rewrite rev_involutive in Hr. discriminate.
  - rewrite <- Hr, rev_involutive. reflexivity.
Qed.

Lemma split_nodes_no_div a : no_div a = true ->
  split_nodes a = match a with [] => [] | _ => [a] end.
Proof. intros Ha. unfold split_nodes. exact (split_nodes_go_all false a Ha). Qed.

(* after a divider there is always a last group, possibly empty *)
Lemma split_nodes_div a b : no_div a = true -> no_div b = true ->
  split_nodes (a ++ NOther 16 :: b) = [a; b].
Proof.
  intros Ha Hb. unfold split_nodes.
  rewrite (split_nodes_go_run a false [] _ Ha), app_nil_r, split_nodes_go_div, rev_involutive.
  f_equal. rewrite (split_nodes_go_all true b Hb). destruct b; reflexivity.
Qed.

Theorem cond_children_empty : cond_children [] = [].
Proof. reflexivity. Qed.

Theorem cond_children_no_else : forall a, no_div a = true -> a <> [] ->
  cond_children a = [NBlock BTrue no_case a].
Proof.
  intros a Ha Hne. unfold cond_children. rewrite (split_nodes_no_div a Ha).
  destruct a as [|n a']; [contradiction|reflexivity].
Qed.

(* either branch may be empty: an empty then-branch stays the then-branch, an empty else-branch
   stays the else-branch *)
Theorem cond_children_else : forall a b, no_div a = true -> no_div b = true ->
  cond_children (a ++ NOther 16 :: b) = [NBlock BTrue no_case a; NBlock BFalse no_case b].
Proof.
  intros a b Ha Hb. unfold cond_children. rewrite (split_nodes_div a b Ha Hb). reflexivity.
Qed.

(* a trailing else (nothing after it): an empty false-branch *)
Theorem cond_children_trailing_else : forall a, no_div a = true ->
  cond_children (a ++ [NOther 16]) = [NBlock BTrue no_case a; NBlock BFalse no_case []].
Proof. intros a Ha. exact (cond_children_else a [] Ha eq_refl). Qed.

Theorem loop_children_p_else : forall a b, no_div a = true -> no_div b = true ->
  loop_children_p (a ++ NOther 16 :: b) = Spec.Compile.loop_children a b true.
Proof.
  intros a b Ha Hb. unfold loop_children_p, loop_children.
  rewrite (split_nodes_div a b Ha Hb). reflexivity.
Qed.

Theorem loop_children_p_no_else : forall a, no_div a = true ->
  loop_children_p a = Spec.Compile.loop_children a [] false.
Proof.
  intros a Ha. unfold loop_children_p, loop_children. rewrite (split_nodes_no_div a Ha).
  destruct a; reflexivity.
Qed.

Theorem loop_children_p_spec : forall a b, no_div a = true -> no_div b = true ->
  loop_children_p (a ++ NOther 16 :: b) = Spec.Compile.loop_children a b true
  /\ (forall a, no_div a = true -> loop_children_p a = Spec.Compile.loop_children a [] false).
Proof.
  intros a b Ha Hb. split; [apply loop_children_p_else; assumption|].
  exact loop_children_p_no_else.
Qed.

(* a trailing else in a loop: the else-branch is there and empty, the divider is gone *)
Theorem loop_children_p_trailing_else : forall a, no_div a = true ->
  loop_children_p (a ++ [NOther 16]) = Spec.Compile.loop_children a [] true.
Proof. intros a Ha. exact (loop_children_p_else a [] Ha eq_refl). Qed.

(* ================================================================== *)
(* 2. Argument lists                                                   *)
(* ================================================================== *)

(* ---- bytealg.Trim ---- *)

Lemma in_set_cons cut c b : in_set (c :: cut) b = beqb b c || in_set cut b.
Proof. reflexivity. Qed.

Lemma trim_l_all cut : forall s t, forallb (in_set cut) s = true -> trim_l cut (s ++ t) = trim_l cut t.
Proof.
  induction s as [|c s IH]; intros t H; [reflexivity|].
  cbn [forallb] in H. apply andb_true_iff in H. destruct H as [Hc Hs].
  cbn [app trim_l]. rewrite Hc. apply IH. exact Hs.
Qed.

Lemma trim_l_stop cut c r : in_set cut c = false -> trim_l cut (c :: r) = c :: r.
Proof. intros H. cbn [trim_l]. rewrite H. reflexivity. Qed.

Lemma forallb_rev {A} (P : A -> bool) : forall l, forallb P (rev l) = forallb P l.
Proof.
  induction l as [|c l IH]; [reflexivity|].
  cbn [rev forallb]. rewrite forallb_app, IH. cbn [forallb]. rewrite andb_true_r. apply andb_comm.
Qed.

Lemma rev_cons_not_nil {A} (c : A) l : rev (c :: l) <> [].
Proof.
  intros H. apply (f_equal (@rev A)) in H. rewrite rev_involutive in H. discriminate.
Qed.

(* neither the first nor the last byte is in the cut set (vacuous for the empty string) *)
Definition edges_out (cut a : bytes) : bool :=
  match a with
  | [] => true
  | c0 :: _ => negb (in_set cut c0) && match rev a with x :: _ => negb (in_set cut x) | [] => true end
  end.

Lemma trim_b_strip cut pre a post :
  forallb (in_set cut) pre = true -> forallb (in_set cut) post = true -> edges_out cut a = true ->
  trim_b cut (pre ++ a ++ post) = a.
Proof.
  intros Hpre Hpost Ha. unfold trim_b. rewrite (trim_l_all cut pre _ Hpre).
  destruct a as [|c0 a'].
  - cbn [app]. rewrite <- (app_nil_r post), (trim_l_all cut post [] Hpost). reflexivity.
  - cbn [edges_out] in Ha. apply andb_true_iff in Ha. destruct Ha as [Hc0 Hlast].
    apply negb_true_iff in Hc0.
    change ((c0 :: a') ++ post) with (c0 :: (a' ++ post)). rewrite (trim_l_stop cut c0 _ Hc0).
    change (c0 :: (a' ++ post)) with ((c0 :: a') ++ post).
    rewrite rev_app_distr, trim_l_all by (rewrite forallb_rev; exact Hpost).
    revert Hlast. destruct (rev (c0 :: a')) as [|x l] eqn:Hr; intros Hlast.
    + exfalso. exact (rev_cons_not_nil c0 a' Hr).
    + apply negb_true_iff in Hlast. rewrite (trim_l_stop cut x l Hlast).
      rewrite <- Hr. apply rev_involutive.
Qed.

(* ---- bytes.Split ---- *)

Lemma split_on_cons sep : forall s, exists h t, split_on sep s = h :: t.
Proof.
  induction s as [|c s IH]; cbn [split_on]; [eexists _, _; reflexivity|].
  destruct IH as (h & t & Hs). rewrite Hs. destruct (beqb c sep); eexists _, _; reflexivity.
Qed.

Definition free_of (sep : byte) (a : bytes) : bool := forallb (fun c => negb (beqb c sep)) a.

Lemma split_on_free sep : forall a, free_of sep a = true -> split_on sep a = [a].
Proof.
  induction a as [|c a IH]; intros H; [reflexivity|].
  unfold free_of in H. cbn [forallb] in H. apply andb_true_iff in H. destruct H as [Hc Ha].
  apply negb_true_iff in Hc. cbn [split_on]. rewrite (IH Ha), Hc. reflexivity.
Qed.

Lemma split_on_app sep rest : forall a, free_of sep a = true ->
  split_on sep (a ++ sep :: rest) = a :: split_on sep rest.
Proof.
  induction a as [|c a IH]; intros H.
  - cbn [app split_on]. destruct (split_on_cons sep rest) as (h & t & Hs). rewrite Hs, pp_beqb_refl.
    reflexivity.
  - unfold free_of in H. cbn [forallb] in H. apply andb_true_iff in H. destruct H as [Hc Ha].
    apply negb_true_iff in Hc. cbn [app split_on]. rewrite (IH Ha), Hc. reflexivity.
Qed.

Lemma free_of_app sep a b : free_of sep (a ++ b) = free_of sep a && free_of sep b.
Proof. unfold free_of. apply forallb_app. Qed.

(* ---- plain arguments ---- *)

Definition arg_stop : bytes := [","; "{"; "}"; ":"].
Definition edge_stop : bytes := " " :: quotes.

(* non-empty, none of , { } : inside, no blank or quote character at either end *)
Definition plain_arg (a : bytes) : bool :=
  match a with
  | [] => false
  | c0 :: _ =>
    forallb (fun c => negb (in_set arg_stop c)) a
    && negb (in_set edge_stop c0)
    && match rev a with x :: _ => negb (in_set edge_stop x) | [] => false end
  end.

(* a1 ++ "," ++ sep ++ a2 ++ "," ++ sep ++ ... *)
Fixpoint join_args (sep : bytes) (l : list bytes) : bytes :=
  match l with
  | [] => []
  | a :: r => match r with [] => a | _ :: _ => a ++ "," :: sep ++ join_args sep r end
  end.

Definition blanks (sep : bytes) : bool := forallb (fun c => beqb c " ") sep.

Lemma join_args_one sep a : join_args sep [a] = a.
Proof. reflexivity. Qed.

Lemma join_args_more sep a b r :
  join_args sep (a :: b :: r) = a ++ "," :: sep ++ join_args sep (b :: r).
Proof. reflexivity. Qed.

Lemma arg_stop_inv c : in_set arg_stop c = false ->
  beqb c "," = false /\ beqb c "{" = false /\ beqb c "}" = false /\ beqb c ":" = false.
Proof.
  unfold arg_stop. rewrite !in_set_cons. intros H.
  apply orb_false_iff in H. destruct H as [H1 H]. apply orb_false_iff in H. destruct H as [H2 H].
  apply orb_false_iff in H. destruct H as [H3 H]. apply orb_false_iff in H. destruct H as [H4 _].
  repeat split; assumption.
Qed.

Lemma edge_stop_inv c : in_set edge_stop c = false -> in_set sp c = false /\ in_set quotes c = false.
Proof.
  unfold edge_stop. rewrite in_set_cons. intros H. apply orb_false_iff in H. destruct H as [H1 H2].
  split; [|exact H2]. unfold sp. rewrite in_set_cons, H1. reflexivity.
Qed.

Lemma plain_arg_inv a : plain_arg a = true ->
  a <> [] /\ (forall c, In c a -> in_set arg_stop c = false)
  /\ edges_out sp a = true /\ edges_out quotes a = true.
Proof.
  intros H. destruct a as [|c0 a1]; [discriminate|].
  cbn [plain_arg] in H. apply andb_true_iff in H. destruct H as [H Hlast].
  apply andb_true_iff in H. destruct H as [Hall Hc0].
  apply negb_true_iff in Hc0. destruct (edge_stop_inv c0 Hc0) as [Hs0 Hq0].
  split; [discriminate|]. split.
  - intros c Hin. rewrite forallb_forall in Hall. apply negb_true_iff. apply Hall. exact Hin.
  - cbn [edges_out]. rewrite Hs0, Hq0. cbn [negb andb].
    revert Hlast. destruct (rev (c0 :: a1)) as [|x l]; intros Hlast; [discriminate|].
    apply negb_true_iff in Hlast. destruct (edge_stop_inv x Hlast) as [Hs Hq].
    rewrite Hs, Hq. split; reflexivity.
Qed.

Lemma plain_arg_free a : plain_arg a = true -> free_of "," a = true.
Proof.
  intros H. destruct (plain_arg_inv a H) as (_ & Hall & _).
  unfold free_of. apply forallb_forall. intros c Hin. apply negb_true_iff.
  destruct (arg_stop_inv c (Hall c Hin)) as [Hc _]. exact Hc.
Qed.

Lemma blanks_free sep : blanks sep = true -> free_of "," sep = true.
Proof.
  intros H. unfold blanks in H. unfold free_of. rewrite forallb_forall in *.
  intros c Hin. apply H in Hin. apply pp_beqb_eq in Hin. subst c. reflexivity.
Qed.

Lemma blanks_in_sp sep : blanks sep = true -> forallb (in_set sp) sep = true.
Proof.
  intros H. unfold blanks in H. rewrite forallb_forall in *.
  intros c Hin. apply H in Hin. unfold sp. rewrite in_set_cons, Hin. reflexivity.
Qed.

Lemma last_is_in c a : last_is c a = true -> In c a.
Proof.
  unfold last_is. destruct (rev a) as [|x l] eqn:Hr; [discriminate|].
  intros H. apply pp_beqb_eq in H. subst x. apply in_rev. rewrite Hr. left. reflexivity.
Qed.

(* one chunk: blanks, then a plain argument *)
Lemma arg_of_chunk_plain T E sep a : blanks sep = true -> plain_arg a = true ->
  arg_of_chunk T E false (sep ++ a) = ([mkArg [] a (is_static T a) (mem_b a (pe_globals E))], false).
Proof.
  intros Hsep Ha. destruct (plain_arg_inv a Ha) as (Hne & Hall & Hesp & Heq).
  assert (Htrim : trim_b sp (sep ++ a) = a).
  { rewrite <- (app_nil_r a) at 1. apply trim_b_strip; [apply blanks_in_sp; exact Hsep|reflexivity|exact Hesp]. }
  assert (Htq : trim_b quotes a = a).
  { rewrite <- (app_nil_r a) at 1. apply (trim_b_strip quotes [] a []); [reflexivity|reflexivity|exact Heq]. }
  assert (Hlast : last_is "}" a = false).
  { destruct (last_is "}" a) eqn:Hl; [|reflexivity]. apply last_is_in in Hl.
    destruct (arg_stop_inv _ (Hall _ Hl)) as (_ & _ & H3 & _). discriminate. }
  unfold arg_of_chunk. rewrite Htrim.
  destruct a as [|c0 a1]; [contradiction|].
  assert (Hbrace : beqb c0 "{" = false).
  { destruct (arg_stop_inv c0 (Hall c0 (or_introl eq_refl))) as (_ & H2 & _). exact H2. }
  assert (Hdq : bytes_eqb (c0 :: a1) [x22; x22] = false).
  { cbn [edges_out] in Heq. apply andb_true_iff in Heq. destruct Heq as [Hq0 _].
    apply negb_true_iff in Hq0. unfold quotes in Hq0. rewrite in_set_cons in Hq0.
    apply orb_false_iff in Hq0. destruct Hq0 as [Hq0 _].
    cbn [bytes_eqb]. change (Byte.eqb c0 x22) with (beqb c0 x22). rewrite Hq0. reflexivity. }
  rewrite Hbrace. cbv beta iota zeta. rewrite Htq, Hdq, Hlast. reflexivity.
Qed.

Lemma args_of_chunks_cons T E n c r :
  args_of_chunks T E n (c :: r) =
  let '(out, n') := arg_of_chunk T E n c in out ++ args_of_chunks T E n' r.
Proof. reflexivity. Qed.

Lemma extract_args_alt T E raw :
  extract_args T E raw = args_of_chunks T E false (split_on "," raw).
Proof. destruct raw; reflexivity. Qed.

Lemma split_join sep : free_of "," sep = true ->
  forall r a pre, free_of "," pre = true -> free_of "," a = true -> forallb (free_of ",") r = true ->
  split_on "," (pre ++ join_args sep (a :: r)) = (pre ++ a) :: map (app sep) r.
Proof.
  intros Hsep. induction r as [|b r IH]; intros a pre Hpre Ha Hr.
  - rewrite join_args_one. cbn [map]. apply split_on_free. rewrite free_of_app, Hpre, Ha. reflexivity.
  - cbn [forallb] in Hr. apply andb_true_iff in Hr. destruct Hr as [Hb Hr].
    rewrite join_args_more, app_assoc, split_on_app by (rewrite free_of_app, Hpre, Ha; reflexivity).
    rewrite (IH b sep Hsep Hb Hr). reflexivity.
Qed.

Definition plain_targ (T : retab) (E : penv) (a : bytes) : targ :=
  mkArg [] a (is_static T a) (mem_b a (pe_globals E)).

Lemma args_of_chunks_plain T E sep : blanks sep = true ->
  forall l, forallb plain_arg l = true ->
  args_of_chunks T E false (map (app sep) l) = map (plain_targ T E) l.
Proof.
  intros Hsep. induction l as [|a l IH]; intros Hl; [reflexivity|].
  cbn [forallb] in Hl. apply andb_true_iff in Hl. destruct Hl as [Ha Hl].
  cbn [map]. rewrite args_of_chunks_cons, (arg_of_chunk_plain T E sep a Hsep Ha).
  cbv beta iota. rewrite (IH Hl). reflexivity.
Qed.

Theorem extract_args_plain : forall T E l sep,
  forallb plain_arg l = true -> forallb (fun c => beqb c " ") sep = true ->
  extract_args T E (join_args sep l)
  = map (fun a => mkArg [] a (is_static T a) (mem_b a (pe_globals E))) l.
Proof.
  intros T E l sep Hl Hsep. rewrite extract_args_alt.
  destruct l as [|a r]; [reflexivity|].
  cbn [forallb] in Hl. apply andb_true_iff in Hl. destruct Hl as [Ha Hr].
  rewrite <- (app_nil_l (join_args sep (a :: r))).
  rewrite (split_join sep (blanks_free sep Hsep) r a [] eq_refl (plain_arg_free a Ha)).
  2:{ apply forallb_forall. intros x Hin. apply plain_arg_free.
      rewrite forallb_forall in Hr. apply Hr. exact Hin. }
  pose proof (arg_of_chunk_plain T E [] a eq_refl Ha) as Hc0. cbn [app] in Hc0.
  cbn [app]. rewrite args_of_chunks_cons, Hc0.
  cbv beta iota. rewrite (args_of_chunks_plain T E sep Hsep r Hr). reflexivity.
Qed.

(* ---- a quoted argument ---- *)

Definition quoted_body (a : bytes) : bool :=
  forallb (fun c => negb (in_set arg_stop c) && negb (in_set quotes c)) a.

Lemma quote_cases q : in_set quotes q = true -> q = x22 \/ q = "'" \/ q = "`".
Proof.
  unfold quotes. rewrite !in_set_cons. intros H.
  apply orb_true_iff in H. destruct H as [H|H]; [left; apply pp_beqb_eq; exact H|].
  apply orb_true_iff in H. destruct H as [H|H]; [right; left; apply pp_beqb_eq; exact H|].
  apply orb_true_iff in H. destruct H as [H|H]; [right; right; apply pp_beqb_eq; exact H|discriminate].
Qed.

Lemma rev_quoted (q : byte) (a : bytes) : rev (q :: a ++ [q]) = q :: rev a ++ [q].
Proof. cbn [rev]. rewrite rev_unit. reflexivity. Qed.

Lemma quoted_body_edges a : quoted_body a = true -> edges_out quotes a = true.
Proof.
  intros H. unfold quoted_body in H. rewrite forallb_forall in H.
  destruct a as [|c0 a1]; [reflexivity|]. cbn [edges_out].
  assert (H0 : negb (in_set quotes c0) = true).
  { specialize (H c0 (or_introl eq_refl)). apply andb_true_iff in H. apply H. }
  rewrite H0. cbn [andb].
  destruct (rev (c0 :: a1)) as [|x l] eqn:Hr; [reflexivity|].
  assert (Hin : In x (c0 :: a1)). { apply in_rev. rewrite Hr. left. reflexivity. }
  specialize (H x Hin). apply andb_true_iff in H. apply H.
Qed.

(* q a q, after blanks: stored without the quotes; the static flag is asked of the quoted text *)
Lemma arg_of_chunk_quoted T E sep q a :
  blanks sep = true -> in_set quotes q = true -> quoted_body a = true ->
  arg_of_chunk T E false (sep ++ q :: a ++ [q])
  = ([mkArg [] a (is_static T (q :: a ++ [q])) (mem_b a (pe_globals E))], false).
Proof.
  intros Hsep Hq Ha.
  assert (Hqf : in_set sp q = false /\ beqb q "{" = false /\ beqb q "}" = false).
  { destruct (quote_cases q Hq) as [-> | [-> | ->]]; repeat split; reflexivity. }
  destruct Hqf as (Hqsp & Hqb & Hqe).
  assert (Htrim : trim_b sp (sep ++ q :: a ++ [q]) = q :: a ++ [q]).
  { rewrite <- (app_nil_r (q :: a ++ [q])) at 1.
    apply trim_b_strip; [apply blanks_in_sp; exact Hsep|reflexivity|].
    cbn [edges_out]. rewrite rev_quoted, Hqsp. reflexivity. }
  assert (Htq : trim_b quotes (q :: a ++ [q]) = a).
  { apply (trim_b_strip quotes [q] a [q]).
    - cbn [forallb]. rewrite Hq. reflexivity.
    - cbn [forallb]. rewrite Hq. reflexivity.
    - apply quoted_body_edges. exact Ha. }
  assert (Hdq : bytes_eqb a [x22; x22] = false).
  { destruct a as [|c0 a1]; [reflexivity|].
    unfold quoted_body in Ha. cbn [forallb] in Ha. apply andb_true_iff in Ha. destruct Ha as [H0 _].
    apply andb_true_iff in H0. destruct H0 as [_ H0]. apply negb_true_iff in H0.
    unfold quotes in H0. rewrite in_set_cons in H0. apply orb_false_iff in H0. destruct H0 as [H0 _].
    cbn [bytes_eqb]. change (Byte.eqb c0 x22) with (beqb c0 x22). rewrite H0. reflexivity. }
  assert (Hlast : last_is "}" (q :: a ++ [q]) = false).
  { unfold last_is. rewrite rev_quoted. exact Hqe. }
  unfold arg_of_chunk. rewrite Htrim. cbv beta iota zeta. rewrite Hqb. cbv beta iota zeta.
  rewrite Htq, Hdq, Hlast. reflexivity.
Qed.

Theorem extract_args_quoted_one : forall T E q a,
  in_set quotes q = true -> quoted_body a = true ->
  extract_args T E (q :: a ++ [q])
  = [mkArg [] a (is_static T (q :: a ++ [q])) (mem_b a (pe_globals E))].
Proof.
  intros T E q a Hq Ha. rewrite extract_args_alt.
  assert (Hfree : free_of "," (q :: a ++ [q]) = true).
  { assert (Hqc : beqb q "," = false) by (destruct (quote_cases q Hq) as [-> | [-> | ->]]; reflexivity).
    unfold free_of. cbn [forallb]. rewrite Hqc. cbn [negb andb].
    rewrite forallb_app. cbn [forallb]. rewrite Hqc. cbn [negb andb]. rewrite andb_true_r.
    unfold quoted_body in Ha. rewrite forallb_forall in *. intros c Hin. specialize (Ha c Hin).
    apply andb_true_iff in Ha. destruct Ha as [Hs _]. apply negb_true_iff in Hs.
    destruct (arg_stop_inv c Hs) as [Hc _]. rewrite Hc. reflexivity. }
  rewrite (split_on_free "," _ Hfree), args_of_chunks_cons.
  pose proof (arg_of_chunk_quoted T E [] q a eq_refl Hq Ha) as Hc0. cbn [app] in Hc0.
  rewrite Hc0. reflexivity.
Qed.

(* plain and quoted arguments mixed: a plain one, then a quoted one (the shape  a, "x y") *)
Theorem extract_args_plain_then_quoted : forall T E a sep q b,
  plain_arg a = true -> blanks sep = true -> in_set quotes q = true -> quoted_body b = true ->
  extract_args T E (a ++ "," :: sep ++ q :: b ++ [q])
  = [mkArg [] a (is_static T a) (mem_b a (pe_globals E));
     mkArg [] b (is_static T (q :: b ++ [q])) (mem_b b (pe_globals E))].
Proof.
  intros T E a sep q b Ha Hsep Hq Hb. rewrite extract_args_alt.
  rewrite (split_on_app "," _ a (plain_arg_free a Ha)).
  assert (Hfree : free_of "," (sep ++ q :: b ++ [q]) = true).
  { assert (Hqc : beqb q "," = false) by (destruct (quote_cases q Hq) as [-> | [-> | ->]]; reflexivity).
    rewrite free_of_app, (blanks_free sep Hsep). cbn [andb].
    unfold free_of. cbn [forallb]. rewrite Hqc. cbn [negb andb].
    rewrite forallb_app. cbn [forallb]. rewrite Hqc. cbn [negb andb]. rewrite andb_true_r.
    unfold quoted_body in Hb. rewrite forallb_forall in *. intros c Hin. specialize (Hb c Hin).
    apply andb_true_iff in Hb. destruct Hb as [Hs _]. apply negb_true_iff in Hs.
    destruct (arg_stop_inv c Hs) as [Hc _]. rewrite Hc. reflexivity. }
  rewrite (split_on_free "," _ Hfree), args_of_chunks_cons.
  pose proof (arg_of_chunk_plain T E [] a eq_refl Ha) as Hc0. cbn [app] in Hc0. rewrite Hc0.
  cbv beta iota. rewrite args_of_chunks_cons, (arg_of_chunk_quoted T E sep q b Hsep Hq Hb).
  reflexivity.
Qed.

(* ================================================================== *)
(* 4. Switch roll-up                                                   *)
(* ================================================================== *)

(* a case or default node as processCtl adds it: no children yet *)
Definition head_ok (n : node) : bool :=
  match n with
  | NBlock BCase _ [] | NBlock BDefault _ [] => true
  | _ => false
  end.

Definition no_heads (l : list node) : bool := forallb (fun n => negb (is_group_head n)) l.

Definition groups_ok (groups : list (node * list node)) : bool :=
  forallb (fun g => head_ok (fst g) && no_heads (snd g)) groups.

(* the body becomes the head's child list *)
Definition add_children (g : node) (body : list node) : node :=
  match g with NBlock k ci ch => NBlock k ci (ch ++ body) | _ => g end.

Definition is_block (n : node) : bool := match n with NBlock _ _ _ => true | _ => false end.

Lemma head_ok_inv h : head_ok h = true ->
  exists k ci, h = NBlock k ci [] /\ is_group_head h = true.
Proof.
  intros H. destruct h as [| | | |k ci ch| | | | | | | | | | | |]; try discriminate.
  destruct k; try discriminate; destruct ch as [|x ch]; try discriminate;
    eexists _, _; split; reflexivity.
Qed.

Lemma rollup_go_cons_head g n r : is_group_head n = true ->
  rollup_go g (n :: r) =
  match g with Some g0 => g0 :: rollup_go (Some n) r | None => rollup_go (Some n) r end.
Proof. intros H. cbn [rollup_go]. rewrite H. reflexivity. Qed.

Lemma rollup_go_cons_other g n r : is_group_head n = false ->
  rollup_go g (n :: r) =
  match g with Some g0 => rollup_go (Some (add_child g0 n)) r | None => rollup_go None r end.
Proof. intros H. cbn [rollup_go]. rewrite H. reflexivity. Qed.

(* text before the first case is dropped *)
Lemma rollup_go_none_skip : forall pre rest, no_heads pre = true ->
  rollup_go None (pre ++ rest) = rollup_go None rest.
Proof.
  induction pre as [|n pre IH]; intros rest H; [reflexivity|].
  unfold no_heads in H. cbn [forallb] in H. apply andb_true_iff in H. destruct H as [Hn Hp].
  apply negb_true_iff in Hn. cbn [app]. rewrite (rollup_go_cons_other None n _ Hn). apply IH. exact Hp.
Qed.

Lemma add_children_child g n body :
  add_children (add_child g n) body = add_children g (n :: body).
Proof.
  destruct g as [| | | |k ci ch| | | | | | | | | | | |]; try reflexivity.
  cbn [add_child add_children]. rewrite <- app_assoc. reflexivity.
Qed.

Lemma add_children_nil g : add_children g [] = g.
Proof.
  destruct g as [| | | |k ci ch| | | | | | | | | | | |]; try reflexivity.
  cbn [add_children]. rewrite app_nil_r. reflexivity.
Qed.

(* the body of a group is collected into the open group *)
Lemma rollup_go_body : forall body g rest, no_heads body = true ->
  rollup_go (Some g) (body ++ rest) = rollup_go (Some (add_children g body)) rest.
Proof.
  induction body as [|n body IH]; intros g rest H.
  - cbn [app]. rewrite add_children_nil. reflexivity.
  - unfold no_heads in H. cbn [forallb] in H. apply andb_true_iff in H. destruct H as [Hn Hb].
    apply negb_true_iff in Hn. cbn [app]. rewrite (rollup_go_cons_other (Some g) n _ Hn).
    rewrite (IH (add_child g n) rest Hb), add_children_child. reflexivity.
Qed.

Definition flat_groups (groups : list (node * list node)) : list node :=
  flat_map (fun g => fst g :: snd g) groups.
Definition built_groups (groups : list (node * list node)) : list node :=
  map (fun g => add_children (fst g) (snd g)) groups.

(* what comes out with [cur] as the open group *)
Fixpoint emit (cur : node) (built : list node) : list node :=
  match built with
  | [] => if has_children cur then [cur] else []
  | g :: r => cur :: emit g r
  end.

Lemma rollup_go_groups : forall groups cur, groups_ok groups = true ->
  rollup_go (Some cur) (flat_groups groups) = emit cur (built_groups groups).
Proof.
  induction groups as [|[h body] groups IH]; intros cur H; [reflexivity|].
  unfold groups_ok in H. cbn [forallb fst snd] in H. apply andb_true_iff in H.
  destruct H as [Hg Hrest]. apply andb_true_iff in Hg. destruct Hg as [Hh Hbody].
  destruct (head_ok_inv h Hh) as (k & ci & _ & Hhead).
  unfold flat_groups, built_groups. cbn [flat_map map fst snd app emit].
  rewrite (rollup_go_cons_head (Some cur) h _ Hhead).
  rewrite (rollup_go_body body h _ Hbody).
  f_equal. apply IH. exact Hrest.
Qed.

Lemma drop_empty_tail_snoc l x :
  drop_empty_tail (l ++ [x]) = match x with NBlock _ _ [] => l | _ => l ++ [x] end.
Proof.
  unfold drop_empty_tail. rewrite rev_unit.
  destruct x as [| | | |k ci ch| | | | | | | | | | | |]; try reflexivity.
  destruct ch; [apply rev_involutive|reflexivity].
Qed.

Lemma drop_empty_tail_cons c l : l <> [] -> drop_empty_tail (c :: l) = c :: drop_empty_tail l.
Proof.
  intros H. destruct (exists_last H) as (l' & x & Hl). subst l.
  change (c :: l' ++ [x]) with ((c :: l') ++ [x]). rewrite !drop_empty_tail_snoc.
  destruct x as [| | | |k ci ch| | | | | | | | | | | |]; try reflexivity.
  destruct ch; reflexivity.
Qed.

Lemma emit_drop : forall built cur, is_block cur = true -> forallb is_block built = true ->
  emit cur built = drop_empty_tail (cur :: built).
Proof.
  induction built as [|g r IH]; intros cur Hc Hb.
  - cbn [emit]. change [cur] with ([] ++ [cur]). rewrite drop_empty_tail_snoc.
    destruct cur as [| | | |k ci ch| | | | | | | | | | | |]; try discriminate.
    destruct ch; reflexivity.
  - cbn [forallb] in Hb. apply andb_true_iff in Hb. destruct Hb as [Hg Hr].
    cbn [emit]. rewrite (IH g Hg Hr). rewrite (drop_empty_tail_cons cur (g :: r)); [reflexivity|discriminate].
Qed.

Lemma built_groups_blocks : forall groups, groups_ok groups = true ->
  forallb is_block (built_groups groups) = true.
Proof.
  induction groups as [|[h body] groups IH]; intros H; [reflexivity|].
  unfold groups_ok in H. cbn [forallb fst snd] in H. apply andb_true_iff in H.
  destruct H as [Hg Hrest]. apply andb_true_iff in Hg. destruct Hg as [Hh _].
  destruct (head_ok_inv h Hh) as (k & ci & Hk & _). subst h.
  unfold built_groups. cbn [map forallb fst snd add_children is_block andb]. apply IH. exact Hrest.
Qed.

(* rollupSwitchNodes on  text, head, body, head, body, ... : text before the first case is dropped,
   every group is its head with the body as children, and the LAST group is left out iff its
   body is empty -- Spec.Compile.drop_empty_tail on the groups *)
Theorem rollup_groups : forall pre groups, no_heads pre = true -> groups_ok groups = true ->
  rollup (pre ++ flat_map (fun g => fst g :: snd g) groups)
  = drop_empty_tail (map (fun g => add_children (fst g) (snd g)) groups).
Proof.
  intros pre groups Hpre Hg. unfold rollup. rewrite (rollup_go_none_skip pre _ Hpre).
  pose proof (built_groups_blocks groups Hg) as Hblocks.
  destruct groups as [|[h body] groups]; [reflexivity|].
  unfold groups_ok in Hg. cbn [forallb fst snd] in Hg. apply andb_true_iff in Hg.
  destruct Hg as [Hhb Hrest]. apply andb_true_iff in Hhb. destruct Hhb as [Hh Hbody].
  destruct (head_ok_inv h Hh) as (k & ci & _ & Hhead).
  unfold built_groups in Hblocks. cbn [map forallb fst snd] in Hblocks.
  apply andb_true_iff in Hblocks. destruct Hblocks as [Hb1 Hb2].
  cbn [flat_map map fst snd app].
  rewrite (rollup_go_cons_head None h _ Hhead), (rollup_go_body body h _ Hbody).
  change (flat_map (fun g => fst g :: snd g) groups) with (flat_groups groups).
  rewrite (rollup_go_groups groups _ Hrest).
  apply emit_drop; [exact Hb1|exact Hb2].
Qed.

(* the same, read off the groups: the last group has a body -> every group is kept *)
Corollary rollup_groups_last_full : forall pre groups h body,
  no_heads pre = true -> groups_ok (groups ++ [(h, body)]) = true -> body <> [] ->
  rollup (pre ++ flat_groups (groups ++ [(h, body)]))
  = built_groups groups ++ [add_children h body].
Proof.
  intros pre groups h body Hpre Hg Hne. unfold flat_groups. rewrite (rollup_groups pre _ Hpre Hg).
  change (map (fun g => add_children (fst g) (snd g)) (groups ++ [(h, body)]))
    with (built_groups (groups ++ [(h, body)])).
  unfold built_groups. rewrite map_app. cbn [map fst snd]. rewrite drop_empty_tail_snoc.
  unfold groups_ok in Hg. rewrite forallb_app in Hg. apply andb_true_iff in Hg. destruct Hg as [_ Hl].
  cbn [forallb fst snd] in Hl. rewrite andb_true_r in Hl. apply andb_true_iff in Hl. destruct Hl as [Hh _].
  destruct (head_ok_inv h Hh) as (k & ci & Hk & _). subst h. cbn [add_children app].
  destruct body; [contradiction|reflexivity].
Qed.

(* ... and a last case/default with nothing after it leaves no node *)
Corollary rollup_groups_last_empty : forall pre groups h,
  no_heads pre = true -> groups_ok (groups ++ [(h, [])]) = true ->
  rollup (pre ++ flat_groups (groups ++ [(h, [])])) = built_groups groups.
Proof.
  intros pre groups h Hpre Hg. unfold flat_groups. rewrite (rollup_groups pre _ Hpre Hg).
  change (map (fun g => add_children (fst g) (snd g)) (groups ++ [(h, [])]))
    with (built_groups (groups ++ [(h, [])])).
  unfold built_groups. rewrite map_app. cbn [map fst snd]. rewrite drop_empty_tail_snoc.
  unfold groups_ok in Hg. rewrite forallb_app in Hg. apply andb_true_iff in Hg. destruct Hg as [_ Hl].
  cbn [forallb fst snd] in Hl. rewrite andb_true_r in Hl. apply andb_true_iff in Hl. destruct Hl as [Hh _].
  destruct (head_ok_inv h Hh) as (k & ci & Hk & _). subst h. reflexivity.
Qed.

(* ================================================================== *)
(* 5. The committed table                                              *)
(* ================================================================== *)

Definition ex_env : penv := mkPenv [["d"; "e"; "f"; "a"; "u"; "l"; "t"]] [] [].
Definition ex_lit (s : bytes) : targ := mkArg [] s true false.
Definition ex_var (s : bytes) : targ := mkArg [] s false false.
Definition ex_json : bytes := ["j"; "s"; "o"; "n"; "E"; "s"; "c"; "a"; "p"; "e"].
Definition ex_html : bytes := ["h"; "t"; "m"; "l"; "E"; "s"; "c"; "a"; "p"; "e"].

(* "jjh": jsonEscape twice (one modifier, argument 2), then htmlEscape once *)
Example ex_letter_mods :
  letter_mods DT.Gen.RegexTable.pinned 4 ["j"; "j"; "h"]
  = [mkMod ex_json [ex_lit ["2"]]; mkMod ex_html [ex_lit ["1"]]].
Proof. vm_compute. reflexivity. Qed.

(* ... which is what the general theorem says *)
Example ex_letter_mods_by_theorem :
  letter_mods DT.Gen.RegexTable.pinned 4 ["j"; "j"; "h"] = c_letters (letter_runs ["j"; "j"; "h"]).
Proof. apply letter_mods_runs; [reflexivity|cbn [length]; lia]. Qed.

(* a,b : two variables *)
Example ex_extract_args_plain :
  extract_args DT.Gen.RegexTable.pinned ex_env ["a"; ","; "b"] = [ex_var ["a"]; ex_var ["b"]].
Proof. vm_compute. reflexivity. Qed.

(* a, "x y" : a variable and a quoted literal, stored without its quotes *)
Example ex_extract_args_quoted :
  extract_args DT.Gen.RegexTable.pinned ex_env ["a"; ","; " "; x22; "x"; " "; "y"; x22]
  = [ex_var ["a"]; ex_lit ["x"; " "; "y"]].
Proof. vm_compute. reflexivity. Qed.

(* {%jh= x|default(1,2) %} : the named modifier first, then the letters left to right *)
Example ex_print_tag :
  process_tag DT.Gen.RegexTable.pinned ex_env
    ["{"; "%"; "j"; "h"; "="; " "; "x"; "|"; "d"; "e"; "f"; "a"; "u"; "l"; "t"; "(";
     "1"; ","; "2"; ")"; " "; "%"; "}"]
  = CLeaf (NTpl ["x"] [] [] false
             [mkMod ["d"; "e"; "f"; "a"; "u"; "l"; "t"] [ex_lit ["1"]; ex_lit ["2"]];
              mkMod ex_json [ex_lit ["1"]]; mkMod ex_html [ex_lit ["1"]]]).
Proof. vm_compute. reflexivity. Qed.

(* a trailing else: an empty else-branch, for the if and for the loop alike *)
Example ex_trailing_else :
  cond_children [NRaw ["a"]; NOther 16]
    = [NBlock BTrue no_case [NRaw ["a"]]; NBlock BFalse no_case []]
  /\ loop_children_p [NRaw ["a"]; NOther 16]
    = [NBlock BTrue no_case [NRaw ["a"]]; NBlock BFalse no_case []].
Proof. split; reflexivity. Qed.
