(* Node-level refinement, construct by construct: conditions (if, ternary, conditional
   break/continue), switch, assignments, include/exit, control signals. *)
From DT Require Import Model.Bytes Proofs.BytesFacts Model.Value Model.Tree Model.Mods Model.Interp
  Spec.Ast Spec.RefEval Spec.Compile Proofs.InterpFacts Proofs.FlatProofs Proofs.RefineBase
  Proofs.RefineCond Proofs.RefineList Proofs.RefineMods.
Local Open Scope Z_scope.

(* a both-literal comparison: the interpreter reports ErrSenselessCond only when it has no
   branch to fall into *)
Definition senseless (c : acond) : bool :=
  match ac_helper c with [] => ac_llit c && ac_rlit c | _ => false end.

Lemma ref_cond_err_cases flits e c x :
  ref_cond flits e c = CErr x ->
  (x = ESenseless /\ senseless c = true) \/ (x = ECondHlpNotFound /\ senseless c = false).
Proof.
  destruct (ac_helper c) as [|h0 h] eqn:H.
  - rewrite ref_cond_plain by exact H. unfold plain_ref, senseless. rewrite H.
    destruct (ac_llit c), (ac_rlit c); cbn [andb].
    + intros E. inversion E. left. split; reflexivity.
    + intros E. exfalso. exact (cmp_path_not_err _ _ _ _ _ _ E).
    + intros E. exfalso. exact (cmp_path_not_err _ _ _ _ _ _ E).
    + intros E. exfalso. destruct (env_get _ _); [|discriminate]. destruct (text_of _ _); [|discriminate].
      exact (cmp_path_not_err _ _ _ _ _ _ E).
  - assert (NE : ac_helper c <> []) by (rewrite H; discriminate).
    assert (SF : senseless c = false) by (unfold senseless; rewrite H; reflexivity). rewrite SF.
    destruct (is_lc (ac_helper c)) eqn:L.
    + rewrite ref_cond_lc by assumption. intros E. exfalso. destruct (e_qb _); [discriminate|].
      unfold lc_ref in E. destruct (split_dot _); [discriminate|]. destruct (env_find _ _); [|discriminate].
      destruct (leaf_len _); [discriminate|]. destruct (en_static _); discriminate.
    + rewrite ref_cond_helper by assumption. destruct (cond_known (ac_helper c)).
      * intros E. destruct (env_get _ _); discriminate.
      * intros E. inversion E. right. split; reflexivity.
Qed.

Lemma write_value_gen c w t pfx sfx noesc :
  w_fail w = None ->
  exists w', write_value c w t pfx sfx noesc = Out c w' None /\
             wr_bytes w' = wr_bytes w ++ region_text c pfx ++ (if noesc then t else region_text c t) ++ region_text c sfx /\
             w_fail w' = None.
Proof.
  intros Hw. unfold write_value.
  assert (P : exists w1, (match pfx with [] => (w, None) | _ :: _ => write_raw c w pfx end) = (w1, None) /\
                         wr_bytes w1 = wr_bytes w ++ region_text c pfx /\ w_fail w1 = None).
  { destruct pfx as [|p0 pfx].
    - exists w. rewrite region_text_nil, app_nil_r. repeat split; assumption.
    - apply write_raw_healthy, Hw. }
  destruct P as (w1 & E1 & B1 & F1). rewrite E1.
  assert (T : exists w2, (if noesc then let (w', ok) := wr_write w1 t in (w', if ok then None else Some EWriter)
                          else write_raw c w1 t) = (w2, None) /\
                         wr_bytes w2 = wr_bytes w1 ++ (if noesc then t else region_text c t) /\ w_fail w2 = None).
  { destruct noesc.
    - pose proof (wr_write_healthy w1 t F1) as (H1 & H2 & H3 & H4).
      destruct (wr_write w1 t) as [w2 ok]. cbn [fst snd] in *. subst ok. exists w2. repeat split; assumption.
    - apply write_raw_healthy, F1. }
  destruct T as (w2 & E2 & B2 & F2). rewrite E2.
  destruct sfx as [|s0 sfx].
  - exists w2. split; [reflexivity|]. split; [|exact F2].
    rewrite B2, B1, region_text_nil, app_nil_r, <- app_assoc. reflexivity.
  - destruct (write_raw_healthy c w2 (s0 :: sfx) F2) as (w3 & E3 & B3 & F3). rewrite E3.
    exists w3. split; [reflexivity|]. split; [|exact F3].
    rewrite B3, B2, B1, <- !app_assoc. reflexivity.
Qed.

Lemma ceq_cerr2 e e' c : ceq (set_cerr e (set_cerr e' c)) c.
Proof. repeat split. Qed.

Lemma region_text_ceq c1 c p : ceq c1 c -> region_text c1 p = region_text c p.
Proof. intros (_&_&_&A&B&C&_). unfold region_text. rewrite A, B, C. reflexivity. Qed.

Section Nodes.
  Variable flits : list (bytes * Z).
  Variable lookup : list bytes -> option tree.
  Variable budget : nat.
  Variable inc : tree -> ctx -> option (ctx * bytes * option err).
  Variable rlookup : list bytes -> option (list ast).
  Variable rinc : list ast -> env -> option res.
  Notation wn := (write_node flits lookup budget inc).
  Notation re := (ref_eval flits rlookup budget rinc).
  Notation node_ref := (node_ref flits lookup budget inc rlookup rinc).
  Notation items_ok := (items_ok flits lookup budget inc rlookup rinc).

  Lemma wn_block k ki items c w : wn (NBlock k ki items) c w = walk_with wn items (set_cerr None c) w false.
  Proof. reflexivity. Qed.

  (* a block node over compiled items *)
  Lemma nblock_ref L k ki items c w :
    items_ok false L items -> Inv L c -> w_fail w = None ->
    forall o e' s, seq_with re items (abs c) [] false = (o, e', s) -> sig_dom s ->
    exists c' w' eo, wn (NBlock k ki (merge_raws (c_list compile items))) c w = Out c' w' eo /\
                     wr_bytes w' = wr_bytes w ++ o /\ w_fail w' = None /\
                     post L s c' e' /\ sig_rel s eo.
  Proof.
    intros H HI Hw o e' s E D. rewrite wn_block.
    apply (block_ref flits lookup budget inc rlookup rinc L items H (set_cerr None c) w); assumption.
  Qed.

  (* ---------------------------------------------------------------- if *)

  Theorem if_ref L cnd th el he :
    items_ok false L th -> items_ok false L el -> he && senseless cnd = false ->
    node_ref L (NCond (c_cond cnd) (NBlock BTrue no_case (merge_raws (c_list compile th)) ::
                                    (if he then [NBlock BFalse no_case (merge_raws (c_list compile el))] else [])))
             (AIf cnd th el he).
  Proof.
    intros Hth Hel Hse c w HI Hw o e' s E D. cbn [ref_eval] in E.
    destruct (ref_cond flits (abs c) cnd) as [b|x|] eqn:RC.
    - destruct (ncond_ref flits lookup budget inc cnd c b (Inv_slots L c HI) RC) as (c1 & Q1 & C1 & W).
      rewrite W. pose proof (ceq_Inv L c1 c Q1 HI) as I1. rewrite <- (ceq_abs c1 c Q1) in E.
      destruct b.
      + cbn [pick]. apply nblock_ref; assumption.
      + destruct he; cbn [pick].
        * apply nblock_ref; assumption.
        * inversion E; subst. exists c1, w, None. rewrite app_nil_r. splits; done.
    - inversion E; subst. rewrite (ncond_err flits lookup budget inc cnd c x RC).
      + exists (set_cerr None c), w, (Some x). rewrite app_nil_r. splits; done.
      + intros ->. destruct (ref_cond_err_cases _ _ _ _ RC) as [[_ S]|[X _]]; [|discriminate X].
        rewrite S, andb_true_r in Hse. subst he. reflexivity.
    - inversion E; subst. contradiction.
  Qed.

  (* ---------------------------------------------------------------- break / lazybreak / continue *)

  Lemma signal_node_ref L (n : node) (a : ast) (f : ctx -> ctx) (g : env -> env) x s0 :
    (forall c w, wn n c w = Out (f (set_cerr None c)) w (Some x)) ->
    (forall e, re a e = ([], g e, s0)) ->
    (forall c, abs (f c) = g (abs c)) -> (forall c, Inv L c -> Inv L (f c)) ->
    sig_rel s0 (Some x) -> node_ref L n a.
  Proof.
    intros Hn Hr Ha Hi Hs c w HI Hw o e' s E D. rewrite Hr in E. inversion E; subst.
    exists (f (set_cerr None c)), w, (Some x). rewrite Hn, app_nil_r. splits; try done;
      [exact (Ha (set_cerr None c))|apply Hi; exact HI].
  Qed.

  Lemma Inv_set_brkD L n c : 0 <= n -> Inv L c -> Inv L (set_brkD n c).
  Proof. intros Hn (I1 & I2 & I3 & _). split; [exact I1|]. split; [exact I2|]. split; [exact I3|exact Hn]. Qed.

  (* a break never lowers a depth that is still pending (from an earlier lazybreak) *)
  Lemma Inv_break L n c : Inv L c -> Inv L (set_brkD (Z.max n (brkD c)) c).
  Proof. intros HI. apply Inv_set_brkD; [|exact HI]. destruct HI as (_&_&_&N). lia. Qed.

  Theorem break_ref L (lz : bool) n cnd : node_ref L (if lz then NLBreak n else NBreak n) (ABreak lz n false cnd).
  Proof.
    destruct lz.
    - apply (signal_node_ref L _ _ (fun c => set_brkD (Z.max n (brkD c)) c) (fun e => set_ebrk (Z.max n (e_brk e)) e) ELBreak SLazy);
        try reflexivity. intros c; apply Inv_break.
    - apply (signal_node_ref L _ _ (fun c => set_brkD (Z.max n (brkD c)) c) (fun e => set_ebrk (Z.max n (e_brk e)) e) EBreak SBrk);
        try reflexivity. intros c; apply Inv_break.
  Qed.

  Theorem continue_ref L cnd : node_ref L NContinue (AContinue false cnd).
  Proof.
    apply (signal_node_ref L _ _ (fun c => c) (fun e => e) ECont SCont); try reflexivity. intros c H; exact H.
  Qed.

  (* a control instruction under a condition: a cond node whose only child is the bare instruction *)
  Lemma cond_signal_ref L cnd (n : node) (a : ast) (f : ctx -> ctx) (g : env -> env) x s0 :
    (forall c w, wn n c w = Out (f (set_cerr None c)) w (Some x)) ->
    (forall e, re a e = match ref_cond flits e cnd with
                        | CB true => ([], g e, s0)
                        | CB false => ([], e, SNone)
                        | CErr y => ([], e, SErr y)
                        | CNA => ([], e, SNA)
                        end) ->
    (forall c, abs (f c) = g (abs c)) -> (forall c, Inv L c -> Inv L (f c)) ->
    sig_rel s0 (Some x) -> node_ref L (NCond (c_cond cnd) [n]) a.
  Proof.
    intros Hn Hr Ha Hi Hs c w HI Hw o e' s E D. rewrite Hr in E.
    destruct (ref_cond flits (abs c) cnd) as [b|y|] eqn:RC.
    - destruct (ncond_ref flits lookup budget inc cnd c b (Inv_slots L c HI) RC) as (c1 & Q1 & C1 & W).
      rewrite W. pose proof (ceq_Inv L c1 c Q1 HI) as I1.
      destruct b; cbn [pick]; inversion E; subst.
      + rewrite Hn. exists (f (set_cerr None c1)), w, (Some x). rewrite app_nil_r. splits; try done;
          [|apply Hi; exact I1].
        rewrite Ha. f_equal. apply ceq_abs. eapply ceq_trans; [apply ceq_cerr|exact Q1].
      + exists c1, w, None. rewrite app_nil_r. splits; try done. apply ceq_abs, Q1.
    - inversion E; subst. rewrite (ncond_err flits lookup budget inc cnd c y RC) by reflexivity.
      exists (set_cerr None c), w, (Some y). rewrite app_nil_r. splits; done.
    - inversion E; subst. contradiction.
  Qed.

  Theorem break_if_ref L (lz : bool) n cnd :
    node_ref L (NCond (c_cond cnd) [if lz then NLBreak n else NBreak n]) (ABreak lz n true cnd).
  Proof.
    destruct lz.
    - apply (cond_signal_ref L cnd _ _ (fun c => set_brkD (Z.max n (brkD c)) c) (fun e => set_ebrk (Z.max n (e_brk e)) e) ELBreak SLazy);
        try reflexivity. intros c; apply Inv_break.
    - apply (cond_signal_ref L cnd _ _ (fun c => set_brkD (Z.max n (brkD c)) c) (fun e => set_ebrk (Z.max n (e_brk e)) e) EBreak SBrk);
        try reflexivity. intros c; apply Inv_break.
  Qed.

  Theorem continue_if_ref L cnd : node_ref L (NCond (c_cond cnd) [NContinue]) (AContinue true cnd).
  Proof.
    apply (cond_signal_ref L cnd _ _ (fun c => c) (fun e => e) ECont SCont); try reflexivity. intros c H; exact H.
  Qed.

  Theorem exit_ref L : node_ref L NExit AExit.
  Proof.
    apply (signal_node_ref L _ _ (fun c => c) (fun e => e) EInterrupt SExit); try reflexivity. intros c H; exact H.
  Qed.

  (* ---------------------------------------------------------------- print *)

  Theorem print_ref L letters path mods pfx sfx raw :
    node_ref L (c_print letters path mods pfx sfx raw) (APrint letters path mods pfx sfx raw).
  Proof.
    intros c w HI Hw o e' s E D. cbn [ref_eval] in E. unfold ref_print in E.
    destruct (env_get (abs c) path) as [v'|] eqn:G; [|inversion E; subst; contradiction].
    change (abs c) with (abs (set_cerr None c)) in G.
    destruct (ctx_get_ref (set_cerr None c) path v' G) as (v0 & EG & ->). cbn [bufLC set_cerr] in E.
    pose proof (ctx_get_val_ok (set_cerr None c) path (Inv_slots L c HI)) as VO. rewrite EG in VO. cbn [snd bufLC set_cerr] in VO.
    rewrite c_print_amods. cbn [write_node]. rewrite EG. cbn [cerr set_cerr].
    destruct (print_value (abs c) letters mods (deref (bufLC c) v0)) as [v1|x|] eqn:PV;
      [| |inversion E; subst; contradiction].
    - rewrite <- print_value_amods in PV by (rewrite PV; discriminate).
      pose proof (run_mods_ref (mods ++ letter_amods (letter_runs letters)) (set_cerr None (set_cerr None c)) v0 (w_n w)
                               (Inv_slots L c HI) eq_refl VO) as RM.
      change (abs (set_cerr None (set_cerr None c))) with (abs c) in RM. cbn [bufLC set_cerr] in RM. rewrite PV in RM.
      destruct RM as (c2 & v2 & E2 & Q2 & C2 & -> & V2). rewrite E2, C2.
      assert (Q : ceq c2 c) by (eapply ceq_trans; [exact Q2|apply ceq_cerr2]).
      pose proof (ceq_Inv L c2 c Q HI) as I2.
      assert (BL : bufLC c2 = bufLC c) by (destruct Q as (_&QL&_); exact QL).
      unfold emit_value in E. rewrite text_of_deref in E. rewrite BL.
      assert (NE : forall X Y : outcome, match v2 with VNil => X | _ => Y end =
                                         match deref (bufLC c) v2 with VNil => X | _ => Y end)
        by (intros; destruct v2; reflexivity).
      destruct v2; cbn [deref text_of] in E |- *;
        try (inversion E; subst; eexists c2, w, _; rewrite app_nil_r; splits; first [done | apply ceq_abs, Q]);
        match type of E with
        | context [match ?t with [] => _ | _ :: _ => _ end] =>
          destruct t as [|b0 t0] eqn:Et;
          [ inversion E; subst; eexists c2, w, _; rewrite app_nil_r; splits; first [done | apply ceq_abs, Q]
          | destruct (write_value_gen c2 w (b0 :: t0) pfx sfx raw Hw) as (w' & W & B & F); rewrite W;
            inversion E; subst; exists c2, w', None; rewrite B, !(region_text_ceq c2 c _ Q);
            splits; first [done | apply ceq_abs, Q] ]
        end.
    - rewrite <- print_value_amods in PV by (rewrite PV; discriminate).
      pose proof (run_mods_ref (mods ++ letter_amods (letter_runs letters)) (set_cerr None (set_cerr None c)) v0 (w_n w)
                               (Inv_slots L c HI) eq_refl VO) as RM.
      change (abs (set_cerr None (set_cerr None c))) with (abs c) in RM. cbn [bufLC set_cerr] in RM. rewrite PV in RM.
      destruct RM as (c2 & v2 & E2 & Q2 & C2). rewrite E2, C2.
      assert (Q : ceq (set_cerr None c2) c) by (eapply ceq_trans; [apply ceq_cerr|]; eapply ceq_trans; [exact Q2|apply ceq_cerr2]).
      inversion E; subst. exists (set_cerr None c2), w, None. rewrite app_nil_r.
      splits; try done. { apply ceq_abs, Q. } { apply (ceq_Inv L _ c Q HI). }
  Qed.

  Lemma node_ref_ext L n a a' : (forall e, re a e = re a' e) -> node_ref L n a' -> node_ref L n a.
  Proof. intros H H' c w HI Hw o e' s E D. rewrite H in E. exact (H' c w HI Hw o e' s E D). Qed.

  Lemma print_item_ok top L letters path mods pfx sfx raw :
    items_ok top L [APrint letters path mods pfx sfx raw].
  Proof. eapply item_ok_node; [reflexivity|reflexivity|apply print_ref]. Qed.

  (* ---------------------------------------------------------------- ternary *)

  Lemma ref_print_sig e letters path mods pfx sfx raw :
    match snd (ref_print e letters path mods pfx sfx raw) with SNone | SErr _ | SNA => True | _ => False end.
  Proof.
    unfold ref_print. destruct (env_get e path); [|exact I].
    destruct (print_value e letters mods v); try exact I.
    unfold emit_value. destruct v0; try exact I; cbn [text_of];
      match goal with |- context [match ?t with [] => _ | _ :: _ => _ end] => destruct t; exact I end.
  Qed.

  Lemma ternary_as_if cnd p1 p2 e :
    re (ATernary cnd p1 p2) e =
    re (AIf cnd [APrint [] p1 [] [] [] false] [APrint [] p2 [] [] [] false] true) e.
  Proof.
    cbn [ref_eval seq_with].
    assert (P : forall p, ref_print e [] p [] [] [] false =
                          (let '(o, e1, s) := ref_print e [] p [] [] [] false in
                           match s with
                           | SNone => ([] ++ o, e1, SNone)
                           | SLazy => ([] ++ o, e1, SLazy)
                           | SCont => ([] ++ o, e1, SCont)
                           | x => ([] ++ o, e1, x)
                           end)).
    { intros p. pose proof (ref_print_sig e [] p [] [] [] false) as S.
      destruct (ref_print e [] p [] [] [] false) as [[o e1] s]. cbn [snd] in S. destruct s; try contradiction; reflexivity. }
    destruct (ref_cond flits e cnd) as [[|]| |]; try reflexivity; apply P.
  Qed.

  Theorem ternary_ref L cnd p1 p2 :
    senseless cnd = false ->
    node_ref L (NCond (c_cond cnd) [NBlock BTrue no_case [NTpl p1 [] [] false []];
                                    NBlock BFalse no_case [NTpl p2 [] [] false []]])
             (ATernary cnd p1 p2).
  Proof.
    intros Hs. eapply node_ref_ext; [apply ternary_as_if|].
    apply (if_ref L cnd [APrint [] p1 [] [] [] false] [APrint [] p2 [] [] [] false] true);
      [apply print_item_ok|apply print_item_ok|rewrite Hs; reflexivity].
  Qed.

  (* ---------------------------------------------------------------- assignments *)

  Lemma is_void_deref lc v : is_void (deref lc v) = is_void v.
  Proof. destruct v; reflexivity. Qed.

  Lemma b_static_is : bytes_eqb b_static n_static = true.
  Proof. reflexivity. Qed.

  (* a value without cells is stored as it is; a counter-loop cell is copied as a number *)
  Lemma not_cell_match (v : value) (A : nat -> outcome) (X : outcome) :
    cell_free v -> match v with VCell i => A i | _ => X end = X.
  Proof.
    intros CF. destruct v; try reflexivity. specialize (CF [1]). destruct idx as [|[|n]]; cbn in CF; discriminate.
  Qed.

  Theorem ctx_ref L var src ok lit mods :
    (lit = true -> src <> []) ->
    node_ref L (NCtx var src ok b_static lit (if lit then [] else map c_mod mods)) (ACtx var src ok lit mods).
  Proof.
    intros Hlit c w HI Hw o e' s E D. cbn [ref_eval] in E. cbn [write_node].
    destruct lit.
    { inversion E; subst. eexists _, w, None. split; [reflexivity|]. rewrite app_nil_r. splits; try done.
      - rewrite abs_ctx_set_bytes by (apply Hlit; reflexivity). reflexivity.
      - apply Inv_ctx_set_bytes. exact HI. }
    destruct (env_get (abs c) src) as [v'|] eqn:G; [|inversion E; subst; contradiction].
    change (abs c) with (abs (set_cerr None c)) in G.
    destruct (ctx_get_ref (set_cerr None c) src v' G) as (v0 & EG & ->). cbn [bufLC set_cerr] in E.
    pose proof (ctx_get_val_ok (set_cerr None c) src (Inv_slots L c HI)) as VO. rewrite EG in VO. cbn [snd bufLC set_cerr] in VO.
    rewrite EG. cbn [cerr set_cerr].
    pose proof (run_mods_ref mods (set_cerr None (set_cerr None c)) v0 (w_n w) (Inv_slots L c HI) eq_refl VO) as RM.
    change (abs (set_cerr None (set_cerr None c))) with (abs c) in RM. cbn [bufLC set_cerr] in RM.
    destruct (apply_mods (abs c) mods (deref (bufLC c) v0)) as [v1|x|]; [| |inversion E; subst; contradiction].
    - destruct RM as (c2 & v2 & E2 & Q2 & C2 & -> & V2). rewrite E2, C2.
      assert (Q : ceq c2 c) by (eapply ceq_trans; [exact Q2|apply ceq_cerr2]).
      pose proof (ceq_Inv L c2 c Q HI) as I2.
      assert (BL : bufLC c2 = bufLC c) by (destruct Q as (_&QL&_); exact QL).
      rewrite is_void_deref in E.
      set (c3 := match ok with [] => c2 | _ :: _ => ctx_set_static ok (VBool (negb (is_void v2))) c2 end).
      assert (A3 : abs c3 = match ok with [] => abs c | _ :: _ => env_set ok (VBool (negb (is_void v2))) true (abs c) end).
      { unfold c3. destruct ok; [apply ceq_abs, Q|]. unfold ctx_set_static. rewrite abs_ctx_set, (ceq_abs _ _ Q). reflexivity. }
      assert (I3 : Inv L c3).
      { unfold c3. destruct ok; [exact I2|]. apply Inv_ctx_set; [left; apply cell_free_bool|apply not_live_cell_free, cell_free_bool|exact I2]. }
      assert (B3 : bufLC c3 = bufLC c).
      { unfold c3. destruct ok; [exact BL|]. unfold ctx_set_static, ctx_set, put_slot. destruct (upd_slot _ _ _); exact BL. }
      destruct (is_void v2) eqn:N.
      + inversion E; subst. exists c3, w, None. rewrite app_nil_r. splits; done.
      + inversion E; subst.
        destruct V2 as [CF|(i & -> & Hi)].
        * (* no cell inside: stored as it is *)
          assert (G2 : forall b, conv_bytes v2 = Some b -> v2 = VBytes b) by (intros b Hb; destruct v2; inversion Hb; reflexivity).
          destruct (conv_bytes v2) as [[|b0 b]|] eqn:CB.
          -- rewrite (not_cell_match v2 _ _ CF).
             eexists _, w, None. split; [reflexivity|]. rewrite app_nil_r. splits; try done.
             ++ rewrite b_static_is. cbn [orb]. rewrite abs_ctx_set, B3, A3. reflexivity.
             ++ apply Inv_ctx_set; [left; exact CF|apply not_live_cell_free, CF|exact I3].
          -- eexists _, w, None. split; [reflexivity|]. rewrite app_nil_r. splits; try done.
             ++ rewrite abs_ctx_set_bytes by discriminate. rewrite A3, (G2 _ eq_refl). reflexivity.
             ++ apply Inv_ctx_set_bytes, I3.
          -- rewrite (not_cell_match v2 _ _ CF).
             eexists _, w, None. split; [reflexivity|]. rewrite app_nil_r. splits; try done.
             ++ rewrite b_static_is. cbn [orb]. rewrite abs_ctx_set, B3, A3. reflexivity.
             ++ apply Inv_ctx_set; [left; exact CF|apply not_live_cell_free, CF|exact I3].
        * (* the live counter of a loop: the variable gets a copy of the number *)
          cbn [conv_bytes].
          eexists _, w, None. split; [reflexivity|]. rewrite app_nil_r. splits; try done.
          -- rewrite abs_ctx_set_counter, B3, A3. reflexivity.
          -- apply Inv_ctx_set_counter, I3.
    - destruct RM as (c2 & v2 & E2 & Q2 & C2). rewrite E2, C2.
      assert (Q : ceq c2 c) by (eapply ceq_trans; [exact Q2|apply ceq_cerr2]).
      inversion E; subst. exists c2, w, (Some (err_of_merr x)). rewrite app_nil_r.
      splits; try done. { apply ceq_abs, Q. } { apply (ceq_Inv L _ c Q HI). }
  Qed.

  Theorem counter_ref L var is_init cop arg :
    node_ref L (NCounter var is_init (if is_init then arg else 0) (if is_init then OpUnk else cop) (if is_init then 0 else arg))
             (ACounter var is_init cop arg).
  Proof.
    intros c w HI Hw o e' s E D. cbn [ref_eval] in E. cbn [write_node].
    destruct is_init.
    { inversion E; subst. eexists _, w, None. split; [reflexivity|]. rewrite app_nil_r. splits; try done.
      - exact (abs_ctx_set_counter var arg (set_cerr None c)).
      - apply Inv_ctx_set_counter. exact HI. }
    destruct (env_get (abs c) var) as [v'|] eqn:G; [|inversion E; subst; contradiction].
    change (abs c) with (abs (set_cerr None c)) in G.
    destruct (ctx_get_ref (set_cerr None c) var v' G) as (v0 & EG & ->). cbn [bufLC set_cerr] in E.
    rewrite EG. cbn [cerr set_cerr bufLC]. rewrite conv_int_deref in E.
    inversion E; subst. eexists _, w, None. split; [reflexivity|]. rewrite app_nil_r. splits; try done.
    - rewrite abs_ctx_set_counter. reflexivity.
    - apply Inv_ctx_set_counter. exact HI.
  Qed.

  (* ---------------------------------------------------------------- include *)

  (* the registry and the rendering of included templates on both sides *)
  Definition lookup_ok : Prop := forall names, lookup names = option_map compile_tpl (rlookup names).

  Definition inc_ok (L : list (nat * bytes)) : Prop :=
    forall names t, rlookup names = Some t ->
    forall c, Inv L c -> forall o e' s, rinc t (abs c) = Some (o, e', s) ->
      match s with
      | SNone | SExit => exists c', inc (compile_tpl t) c = Some (c', o, None) /\ abs c' = e' /\ Inv L c'
      | SErr x => is_ctl x = false ->
                  exists c' o', inc (compile_tpl t) c = Some (c', o', Some x) /\ abs c' = e' /\ Inv L c'
      | _ => True
      end.

  Theorem include_ref L names : lookup_ok -> inc_ok L -> node_ref L (NInclude names) (AInclude names).
  Proof.
    intros Hl Hi c w HI Hw o e' s E D. cbn [ref_eval] in E. cbn [write_node]. rewrite Hl.
    destruct (rlookup names) as [t|] eqn:RL; cbn [option_map].
    2:{ inversion E; subst. exists (set_cerr None c), w, (Some ETplNotFound). rewrite app_nil_r. splits; done. }
    destruct (rinc t (abs c)) as [[[o1 e1] s1]|] eqn:R; [|inversion E; subst; contradiction].
    specialize (Hi names t RL (set_cerr None c) HI o1 e1 s1 R).
    destruct s1; try (inversion E; subst; contradiction).
    - destruct Hi as (c' & EI & A & I'). rewrite EI. inversion E; subst.
      pose proof (wr_write_healthy w o Hw) as (H1 & H2 & H3 & H4).
      destruct (wr_write w o) as [w1 ok]. cbn [fst snd] in *. subst ok.
      exists c', w1, None. splits; done.
    - destruct Hi as (c' & EI & A & I'). rewrite EI. inversion E; subst.
      pose proof (wr_write_healthy w o Hw) as (H1 & H2 & H3 & H4).
      destruct (wr_write w o) as [w1 ok]. cbn [fst snd] in *. subst ok.
      exists c', w1, None. splits; done.
    - inversion E; subst. cbn [sig_dom] in D. destruct (Hi D) as (c' & o' & EI & A & I'). rewrite EI.
      exists c', w, (Some e). rewrite app_nil_r. splits; done.
  Qed.

  (* ---------------------------------------------------------------- switch *)

  Definition classic_test (arg : bytes) (c : acond) (e : env) : cres :=
    if ac_llit c then cmp_path flits e arg OpEq (ac_l c)
    else match env_get e (ac_l c) with
         | None => CNA
         | Some v => match text_of [] v with
                     | Some t => cmp_path flits e arg OpEq t
                     | None => CNA
                     end
         end.

  Lemma hit_classic_ref arg cnd c b :
    slots_ok c -> cerr c = None -> classic_test arg cnd (abs c) = CB b ->
    exists c1, hit_classic flits arg (c_case_classic cnd) c = (c1, b, None) /\ ceq c1 c /\ cerr c1 = None.
  Proof.
    intros Hs Hc. unfold classic_test, hit_classic. cbn [c_case_classic kSL kL].
    destruct (ac_llit cnd).
    { intros E. destruct (ctx_cmp_ref flits c arg OpEq (ac_l cnd) b Hs Hc E) as (c1 & E1 & Q1 & C1).
      rewrite E1. exists c1. split; [reflexivity|split; assumption]. }
    destruct (env_get (abs c) (ac_l cnd)) as [v'|] eqn:G; [|discriminate].
    destruct (ctx_get_ref c (ac_l cnd) v' G) as (v & E0 & ->). rewrite E0. cbn [cerr set_cerr bufLC].
    rewrite text_of_deref. destruct (text_of (bufLC c) v) as [t|]; [|discriminate].
    intros E.
    assert (Hs' : slots_ok (set_cerr None c)) by exact Hs.
    destruct (ctx_cmp_ref flits (set_cerr None c) arg OpEq t b Hs' eq_refl E) as (c1 & E1 & Q1 & C1).
    rewrite E1. exists c1. split; [reflexivity|]. split; [|exact C1].
    eapply ceq_trans; [exact Q1|apply ceq_cerr].
  Qed.

  Lemma classic_test_not_err arg cnd e x : classic_test arg cnd e <> CErr x.
  Proof.
    unfold classic_test. destruct (ac_llit cnd); [apply cmp_path_not_err|].
    destruct (env_get e (ac_l cnd)); [|discriminate]. destruct (text_of [] v); [apply cmp_path_not_err|discriminate].
  Qed.

  Lemma c_case_free_plain c : ac_helper c = [] ->
    c_case_free c = mkCase (ac_l c) (ac_r c) (ac_llit c) (ac_rlit c) (ac_op c) [] [].
  Proof. intros H. unfold c_case_free. rewrite H. reflexivity. Qed.

  Lemma c_case_free_helper c : ac_helper c <> [] ->
    c_case_free c = mkCase [] [] false false OpUnk (ac_helper c) (harg_of c).
  Proof. intros H. unfold c_case_free. destruct (ac_helper c); [congruence|reflexivity]. Qed.

  Lemma hit_free_ref cnd c b :
    slots_ok c -> cerr c = None -> is_lc (ac_helper cnd) = false ->
    ref_cond flits (abs c) cnd = CB b ->
    exists c1, hit_free flits (c_case_free cnd) c = (c1, b, None) /\ ceq c1 c /\ cerr c1 = None.
  Proof.
    intros Hs Hc L.
    destruct (ac_helper cnd) as [|h0 h] eqn:H.
    - rewrite ref_cond_plain by exact H. rewrite (c_case_free_plain cnd H).
      unfold hit_free. cbn [kHlp kL kR kSL kSR kOp]. apply node_cmp_ref; assumption.
    - assert (NE : ac_helper cnd <> []) by (rewrite H; discriminate).
      rewrite <- H in L. rewrite ref_cond_helper by assumption. rewrite (c_case_free_helper cnd NE).
      unfold hit_free. cbn [kHlp kHlpArg]. rewrite H.
      destruct (cond_known (h0 :: h)) eqn:K; [|discriminate].
      destruct (env_get (abs c) (ac_harg cnd)) as [v'|] eqn:G; [|discriminate].
      destruct (ctx_get_ref c _ v' G) as (v & E0 & ->).
      rewrite cond_helper_deref. intros E. inversion E as [Eb].
      unfold harg_of. cbn [collect_args a_static a_val a_name]. rewrite E0.
      eexists. split; [reflexivity|]. split; [apply ceq_cerr|reflexivity].
  Qed.

  Lemma hit_free_err cnd c x :
    is_lc (ac_helper cnd) = false -> ref_cond flits (abs c) cnd = CErr x ->
    exists b, hit_free flits (c_case_free cnd) c = (c, b, Some x).
  Proof.
    intros L.
    destruct (ac_helper cnd) as [|h0 h] eqn:H.
    - rewrite ref_cond_plain by exact H. rewrite (c_case_free_plain cnd H).
      unfold plain_ref, hit_free. cbn [kHlp kL kR kSL kSR kOp].
      destruct (ac_llit cnd), (ac_rlit cnd); cbn [andb].
      + intros E. inversion E. exists false. reflexivity.
      + intros E. exfalso. exact (cmp_path_not_err _ _ _ _ _ _ E).
      + intros E. exfalso. exact (cmp_path_not_err _ _ _ _ _ _ E).
      + intros E. exfalso. destruct (env_get _ _); [|discriminate]. destruct (text_of _ _); [|discriminate].
        exact (cmp_path_not_err _ _ _ _ _ _ E).
    - assert (NE : ac_helper cnd <> []) by (rewrite H; discriminate).
      rewrite <- H in L. rewrite ref_cond_helper by assumption. rewrite (c_case_free_helper cnd NE).
      unfold hit_free. cbn [kHlp kHlpArg]. rewrite H.
      destruct (cond_known (h0 :: h)) eqn:K.
      + intros E. destruct (env_get _ _); discriminate.
      + intros E. inversion E. exists false. reflexivity.
  Qed.

  Section Cases.
    Variable L : list (nat * bytes).
    Variable test : acond -> env -> cres.
    Variable hit : caseinfo -> ctx -> ctx * bool * option err.
    Variable check : bool.
    Variable classic : bool.
    Variable okc : acond -> Prop.
    Variable all : list node.
    Variable dtail : list node.
    Variable dflt : list ast.
    Variable hd : bool.
    Let cc (cnd : acond) : caseinfo := if classic then c_case_classic cnd else c_case_free cnd.

    Hypothesis Hhit : forall cnd c b, okc cnd -> slots_ok c -> cerr c = None -> test cnd (abs c) = CB b ->
      exists c1, hit (cc cnd) c = (c1, b, None) /\ ceq c1 c /\ cerr c1 = None.
    Hypothesis Herr : forall cnd c x, okc cnd -> test cnd (abs c) = CErr x ->
      exists b, hit (cc cnd) c = (c, b, Some x).
    Hypothesis Hdtail : forall c w, cases_with wn hit check all dtail c w = default_with wn all c w.
    Hypothesis Hdef : forall c w, Inv L c -> w_fail w = None ->
      forall o e' s, (if hd then seq_with re dflt (abs c) [] false else ([], abs c, SNone)) = (o, e', s) -> sig_dom s ->
      exists c' w' eo, default_with wn all c w = Out c' w' eo /\ wr_bytes w' = wr_bytes w ++ o /\ w_fail w' = None /\
                       post L s c' e' /\ sig_rel s eo.

    Definition case_ok (a : ast) : Prop :=
      match a with ACase cnd body => okc cnd /\ items_ok false L body | _ => True end.

    Lemma cases_ok : forall cases, Forall case_ok cases ->
      forall c w, Inv L c -> cerr c = None -> w_fail w = None ->
      forall o e' s, cases_ref re test dflt hd cases (abs c) = (o, e', s) -> sig_dom s ->
      exists c' w' eo, cases_with wn hit check all (c_cases compile classic cases ++ dtail) c w = Out c' w' eo /\
                       wr_bytes w' = wr_bytes w ++ o /\ w_fail w' = None /\
                       post L s c' e' /\ sig_rel s eo.
    Proof.
      induction 1 as [|a cases Ha _ IH]; intros c w HI Hc Hw o e' s E D.
      - cbn [cases_ref] in E. cbn [c_cases app]. rewrite Hdtail. apply Hdef; assumption.
      - destruct a; try (cbn [cases_ref c_cases] in *; apply IH; assumption).
        destruct Ha as [Hok Hb]. cbn [cases_ref] in E. cbn [c_cases app cases_with].
        fold (cc c0).
        destruct (test c0 (abs c)) as [b|x|] eqn:T.
        + destruct (Hhit c0 c b Hok (Inv_slots L c HI) Hc T) as (c1 & E1 & Q1 & C1).
          rewrite E1. assert (CE : (if check then cerr c1 else None) = None) by (destruct check; [exact C1|reflexivity]).
          rewrite CE. pose proof (ceq_Inv L c1 c Q1 HI) as I1. rewrite <- (ceq_abs c1 c Q1) in E.
          destruct b.
          * apply nblock_ref; assumption.
          * apply IH; assumption.
        + destruct (Herr c0 c x Hok T) as (b & E1). rewrite E1. inversion E; subst.
          exists c, w, (Some x). rewrite app_nil_r. splits; done.
        + inversion E; subst. contradiction.
    Qed.
  End Cases.

  Lemma default_skip cl cases dtail : forall c w,
    default_with wn (c_cases compile cl cases ++ dtail) c w = default_with wn dtail c w.
  Proof.
    induction cases as [|a cases IH]; intros c w; [reflexivity|].
    destruct a; cbn [c_cases app default_with]; apply IH.
  Qed.

  (* ---- the last block of a switch is dropped by the parser when it has no children ---- *)

  Definition is_empty_block (n : node) : bool := match n with NBlock _ _ [] => true | _ => false end.

  Lemma drop_snoc l y : drop_empty_tail (l ++ [y]) = if is_empty_block y then l else l ++ [y].
  Proof.
    unfold drop_empty_tail. rewrite rev_app_distr. cbn [rev app].
    destruct y; try reflexivity. destruct child; [cbn [is_empty_block]; apply rev_involutive|reflexivity].
  Qed.

  Lemma drop_nil : drop_empty_tail [] = [].
  Proof. reflexivity. Qed.

  Lemma drop_cons x l : l <> [] -> drop_empty_tail (x :: l) = x :: drop_empty_tail l.
  Proof.
    intros H. destruct (exists_last H) as (l' & y & ->).
    change (x :: l' ++ [y]) with ((x :: l') ++ [y]). rewrite !drop_snoc. destruct (is_empty_block y); reflexivity.
  Qed.

  Lemma drop_prefix l : exists t, l = drop_empty_tail l ++ t.
  Proof.
    destruct l as [|x l0 _] using rev_ind; [exists []; reflexivity|].
    rewrite drop_snoc. destruct (is_empty_block x); [exists [x]; reflexivity|exists []; rewrite app_nil_r; reflexivity].
  Qed.

  Definition is_case_block (n : node) : bool := match n with NBlock BCase _ _ => true | _ => false end.

  Lemma c_cases_blocks cl : forall cases, forallb is_case_block (c_cases compile cl cases) = true.
  Proof. induction cases as [|a cases IH]; [reflexivity|]. destruct a; exact IH. Qed.

  Lemma default_with_cases : forall l c w, forallb is_case_block l = true -> default_with wn l c w = Out c w None.
  Proof.
    induction l as [|n l IH]; intros c w H; [reflexivity|]. cbn [forallb] in H. apply andb_true_iff in H. destruct H as [H1 H2].
    destruct n; try discriminate H1. destruct k; try discriminate H1. cbn [default_with]. apply IH, H2.
  Qed.

  Lemma default_with_dropped_cases cl cases c w :
    default_with wn (drop_empty_tail (c_cases compile cl cases)) c w = Out c w None.
  Proof.
    apply default_with_cases. pose proof (c_cases_blocks cl cases) as H.
    destruct (drop_prefix (c_cases compile cl cases)) as [t E]. rewrite E, forallb_app in H.
    apply andb_true_iff in H. exact (proj1 H).
  Qed.

  Lemma merge_raws_nil l : merge_raws l = [] -> l = [].
  Proof.
    destruct l as [|n l]; [reflexivity|]. destruct n; try discriminate. cbn [merge_raws].
    destruct (merge_raws l) as [|m r]; [discriminate|]. destruct m; discriminate.
  Qed.

  Section CasesDrop.
    Variable L : list (nat * bytes).
    Variable test : acond -> env -> cres.
    Variable hit : caseinfo -> ctx -> ctx * bool * option err.
    Variable check : bool.
    Variable classic : bool.
    Variable okc : acond -> Prop.
    Variable dflt : list ast.
    Let cc (cnd : acond) : caseinfo := if classic then c_case_classic cnd else c_case_free cnd.

    Hypothesis Hhit : forall cnd c b, okc cnd -> slots_ok c -> cerr c = None -> test cnd (abs c) = CB b ->
      exists c1, hit (cc cnd) c = (c1, b, None) /\ ceq c1 c /\ cerr c1 = None.
    Hypothesis Herr : forall cnd c x, okc cnd -> test cnd (abs c) = CErr x ->
      exists b, hit (cc cnd) c = (c, b, Some x).

    (* the last case of a switch without default: when its body compiles to nothing, the parser
       leaves no node for it, so its test is never evaluated: the test must not be an error, and
       the (empty) body must render nothing *)
    Fixpoint last_quiet (l : list ast) : Prop :=
      match l with
      | [] => True
      | ACase cnd body :: r =>
        (c_cases compile classic r = [] -> merge_raws (c_list compile body) = [] ->
         (forall e x, test cnd e <> CErr x) /\ (forall e, seq_with re body e [] false = ([], e, SNone))) /\
        last_quiet r
      | _ :: r => last_quiet r
      end.

    Lemma cases_ref_nocase : forall r e, c_cases compile classic r = [] -> cases_ref re test dflt false r e = ([], e, SNone).
    Proof.
      induction r as [|a r IH]; intros e H; [reflexivity|]. destruct a; try (cbn [cases_ref c_cases] in *; apply IH, H).
      discriminate H.
    Qed.

    Lemma cases_ok_drop : forall cases, Forall (case_ok L okc) cases -> last_quiet cases ->
      forall all, (forall c w, default_with wn all c w = Out c w None) ->
      forall c w, Inv L c -> cerr c = None -> w_fail w = None ->
      forall o e' s, cases_ref re test dflt false cases (abs c) = (o, e', s) -> sig_dom s ->
      exists c' w' eo, cases_with wn hit check all (drop_empty_tail (c_cases compile classic cases)) c w = Out c' w' eo /\
                       wr_bytes w' = wr_bytes w ++ o /\ w_fail w' = None /\
                       post L s c' e' /\ sig_rel s eo.
    Proof.
      induction 1 as [|a cases Ha _ IH]; intros Q all Hall c w HI Hc Hw o e' s E D.
      - cbn [cases_ref] in E. cbn [c_cases]. rewrite drop_nil. cbn [cases_with]. rewrite Hall.
        inversion E; subst. exists c, w, None. rewrite app_nil_r. splits; done.
      - destruct a; try (cbn [cases_ref c_cases last_quiet] in *; apply IH; assumption).
        destruct Ha as [Hok Hb]. cbn [last_quiet] in Q. destruct Q as [Q1 Q2].
        cbn [cases_ref] in E. cbn [c_cases]. fold (cc c0).
        set (NB := NBlock BCase (cc c0) (merge_raws (c_list compile body))).
        (* what evaluating this case's block does, whatever follows it *)
        assert (STEP : forall rest,
          (forall c1 w1, Inv L c1 -> cerr c1 = None -> w_fail w1 = None ->
             forall o1 e1 s1, cases_ref re test dflt false cases (abs c1) = (o1, e1, s1) -> sig_dom s1 ->
             exists c' w' eo, cases_with wn hit check all rest c1 w1 = Out c' w' eo /\
                              wr_bytes w' = wr_bytes w1 ++ o1 /\ w_fail w' = None /\ post L s1 c' e1 /\ sig_rel s1 eo) ->
          exists c' w' eo, cases_with wn hit check all (NB :: rest) c w = Out c' w' eo /\
                           wr_bytes w' = wr_bytes w ++ o /\ w_fail w' = None /\ post L s c' e' /\ sig_rel s eo).
        { intros rest HR. unfold NB. cbn [cases_with].
          destruct (test c0 (abs c)) as [b|x|] eqn:T.
          - destruct (Hhit c0 c b Hok (Inv_slots L c HI) Hc T) as (c1 & E1 & Qc & C1).
            rewrite E1. assert (CE : (if check then cerr c1 else None) = None) by (destruct check; [exact C1|reflexivity]).
            rewrite CE. pose proof (ceq_Inv L c1 c Qc HI) as I1. rewrite <- (ceq_abs c1 c Qc) in E.
            destruct b; [apply nblock_ref; assumption|apply HR; assumption].
          - destruct (Herr c0 c x Hok T) as (b & E1). rewrite E1. inversion E; subst.
            exists c, w, (Some x). rewrite app_nil_r. splits; done.
          - inversion E; subst. contradiction. }
        destruct (c_cases compile classic cases) as [|x l'] eqn:CC.
        + (* the last case *)
          change [NB] with ([] ++ [NB]). rewrite drop_snoc. unfold NB at 1. cbn [is_empty_block].
          destruct (merge_raws (c_list compile body)) as [|n0 B0] eqn:EB.
          * (* no children: no node; the reference evaluates the test and renders nothing *)
            destruct (Q1 eq_refl eq_refl) as [NE EM]. cbn [cases_with]. rewrite Hall.
            destruct (test c0 (abs c)) as [[|]|x|] eqn:T.
            -- rewrite EM in E. inversion E; subst. exists c, w, None. rewrite app_nil_r. splits; done.
            -- rewrite (cases_ref_nocase cases (abs c) CC) in E. inversion E; subst.
               exists c, w, None. rewrite app_nil_r. splits; done.
            -- exfalso. exact (NE _ _ T).
            -- inversion E; subst. contradiction.
          * cbn [app]. apply STEP.
            intros c1 w1 I1 C1 F1 o1 e1 s1 E1 D1. cbn [cases_with]. rewrite Hall.
            rewrite (cases_ref_nocase cases (abs c1) CC) in E1. inversion E1; subst.
            exists c1, w1, None. rewrite app_nil_r. splits; done.
        + rewrite drop_cons by discriminate. apply STEP.
          intros c1 w1 I1 C1 F1 o1 e1 s1 E1 D1. rewrite <- CC in *. apply IH; assumption.
    Qed.
  End CasesDrop.

  Definition switch_case_ok (L : list (nat * bytes)) (arg : bytes) (a : ast) : Prop :=
    match a with
    | ACase cnd body => (arg = [] -> is_lc (ac_helper cnd) = false) /\ items_ok false L body
    | _ => True
    end.

  (* the test of a case, by the form of the switch *)
  Definition switch_test (arg : bytes) : acond -> env -> cres :=
    match arg with [] => fun cnd e => ref_cond flits e cnd | _ => classic_test arg end.

  (* what the dropped last block must satisfy *)
  Definition switch_tail_ok (arg : bytes) (cases dflt : list ast) (hd : bool) : Prop :=
    if hd then merge_raws (c_list compile dflt) = [] -> forall e, seq_with re dflt e [] false = ([], e, SNone)
    else last_quiet (switch_test arg) (match arg with [] => false | _ => true end) cases.

  Theorem switch_ref L arg cases dflt (hd : bool) :
    Forall (switch_case_ok L arg) cases -> items_ok false L dflt -> switch_tail_ok arg cases dflt hd ->
    node_ref L (NSwitch arg (drop_empty_tail
                               (c_cases compile (match arg with [] => false | _ => true end) cases ++
                                (if hd then [NBlock BDefault no_case (merge_raws (c_list compile dflt))] else []))))
             (ASwitch arg cases dflt hd).
  Proof.
    intros Hcs Hd Ht c w HI Hw o e' s E D. cbn [ref_eval] in E.
    set (cl := match arg with [] => false | _ => true end) in *.
    assert (HI0 : Inv L (set_cerr None c)) by exact HI.
    (* the three shapes of the child list *)
    assert (SH : exists child (dropped : bool),
      drop_empty_tail (c_cases compile cl cases ++
                       (if hd then [NBlock BDefault no_case (merge_raws (c_list compile dflt))] else [])) = child /\
      forall (test : acond -> env -> cres) (hit : caseinfo -> ctx -> ctx * bool * option err) (check : bool) (okc : acond -> Prop),
        (forall cnd c b, okc cnd -> slots_ok c -> cerr c = None -> test cnd (abs c) = CB b ->
           exists c1, hit ((if cl then c_case_classic else c_case_free) cnd) c = (c1, b, None) /\ ceq c1 c /\ cerr c1 = None) ->
        (forall cnd c x, okc cnd -> test cnd (abs c) = CErr x ->
           exists b, hit ((if cl then c_case_classic else c_case_free) cnd) c = (c, b, Some x)) ->
        Forall (case_ok L okc) cases ->
        (hd = false -> last_quiet test cl cases) ->
        forall c w, Inv L c -> cerr c = None -> w_fail w = None ->
        forall o e' s, cases_ref re test dflt hd cases (abs c) = (o, e', s) -> sig_dom s ->
        exists c' w' eo, cases_with wn hit check child child c w = Out c' w' eo /\
                         wr_bytes w' = wr_bytes w ++ o /\ w_fail w' = None /\ post L s c' e' /\ sig_rel s eo).
    { destruct hd.
      - rewrite drop_snoc. cbn [is_empty_block].
        destruct (merge_raws (c_list compile dflt)) as [|n0 D0] eqn:ED.
        + (* an empty default leaves no node *)
          exists (c_cases compile cl cases), true. split; [reflexivity|].
          intros test hit check okc Hh He Hc _ c1 w1 I1 C1 F1 o1 e1 s1 E1 D1.
          assert (Hh' : forall cnd c b, okc cnd -> slots_ok c -> cerr c = None -> test cnd (abs c) = CB b ->
                    exists c1, hit ((if cl then c_case_classic cnd else c_case_free cnd)) c = (c1, b, None) /\ ceq c1 c /\ cerr c1 = None)
            by (destruct cl; assumption).
          assert (He' : forall cnd c x, okc cnd -> test cnd (abs c) = CErr x ->
                    exists b, hit ((if cl then c_case_classic cnd else c_case_free cnd)) c = (c, b, Some x))
            by (destruct cl; assumption).
          assert (Hdt : forall c w, cases_with wn hit check (c_cases compile cl cases) [] c w =
                                    default_with wn (c_cases compile cl cases) c w) by reflexivity.
          assert (Hdf : forall c w, Inv L c -> w_fail w = None ->
                    forall o e' s, (if true then seq_with re dflt (abs c) [] false else ([], abs c, SNone)) = (o, e', s) -> sig_dom s ->
                    exists c' w' eo, default_with wn (c_cases compile cl cases) c w = Out c' w' eo /\
                                     wr_bytes w' = wr_bytes w ++ o /\ w_fail w' = None /\ post L s c' e' /\ sig_rel s eo).
          { intros c2 w2 I2 F2 o2 e2 s2 E2 D2. rewrite (Ht ED) in E2. inversion E2; subst.
            rewrite default_with_cases by apply c_cases_blocks.
            exists c2, w2, None. rewrite app_nil_r. splits; done. }
          pose proof (cases_ok L test hit check cl okc (c_cases compile cl cases) [] dflt true Hh' He' Hdt Hdf
                               cases Hc c1 w1 I1 C1 F1 o1 e1 s1 E1 D1) as G.
          rewrite app_nil_r in G. exact G.
        + exists (c_cases compile cl cases ++ [NBlock BDefault no_case (n0 :: D0)]), false. split; [reflexivity|].
          intros test hit check okc Hh He Hc _ c1 w1 I1 C1 F1 o1 e1 s1 E1 D1.
          apply (cases_ok L test hit check cl okc _ [NBlock BDefault no_case (n0 :: D0)] dflt true); try assumption.
          * destruct cl; assumption.
          * destruct cl; assumption.
          * reflexivity.
          * intros c2 w2 I2 F2 o2 e2 s2 E2 D2. rewrite default_skip. cbn [default_with]. rewrite <- ED.
            apply nblock_ref; assumption.
      - rewrite app_nil_r. exists (drop_empty_tail (c_cases compile cl cases)), true. split; [reflexivity|].
        intros test hit check okc Hh He Hc Hq c1 w1 I1 C1 F1 o1 e1 s1 E1 D1.
        apply (cases_ok_drop L test hit check cl okc dflt); try assumption.
        + destruct cl; assumption.
        + destruct cl; assumption.
        + apply Hq. reflexivity.
        + intros. apply default_with_dropped_cases. }
    destruct SH as (child & dropped & -> & K).
    destruct arg as [|a0 ar].
    - cbn [write_node].
      apply (K (fun cnd e => ref_cond flits e cnd) (hit_free flits) true (fun cnd => is_lc (ac_helper cnd) = false));
        try assumption; try reflexivity.
      + intros cnd c0 b Hok Hs0 Hc0 T. apply hit_free_ref; assumption.
      + intros cnd c0 x Hok T. apply hit_free_err; assumption.
      + eapply Forall_impl; [|exact Hcs]. intros a Ha. destruct a; try exact I. destruct Ha as [H1 H2]. split; [apply H1; reflexivity|exact H2].
      + intros ->. exact Ht.
    - cbn [write_node].
      apply (K (classic_test (a0 :: ar)) (hit_classic flits (a0 :: ar)) false (fun _ => True));
        try assumption; try reflexivity.
      + intros cnd c0 b _ Hs0 Hc0 T. apply hit_classic_ref; assumption.
      + intros cnd c0 x _ T. exfalso. exact (classic_test_not_err _ _ _ _ T).
      + eapply Forall_impl; [|exact Hcs]. intros a Ha. destruct a; try exact I. destruct Ha as [H1 H2]. split; [exact I|exact H2].
      + intros ->. exact Ht.
  Qed.

  (* ---- the same on the interpreter side alone: what dropping the trailing empty block changes ---- *)

  Definition is_default_block (n : node) : bool := match n with NBlock BDefault _ _ => true | _ => false end.

  Lemma default_with_nodefault : forall l tl c w,
    forallb (fun n => negb (is_default_block n)) l = true -> default_with wn (l ++ tl) c w = default_with wn tl c w.
  Proof.
    induction l as [|n l IH]; intros tl c w H; [reflexivity|]. cbn [forallb] in H. apply andb_true_iff in H. destruct H as [H1 H2].
    cbn [app default_with]. destruct n; try (apply IH; exact H2). destruct k; try (apply IH; exact H2). discriminate H1.
  Qed.

  (* the walk over the cases before the trailing block is the same; when none of them hits, the
     dropped list ends there with no signal, the full list evaluates the trailing block *)
  Lemma cases_with_drop_empty_tail hit chk pre (B : node) :
    forallb (fun n => negb (is_default_block n)) pre = true ->
    forall l c w,
      cases_with wn hit chk (pre ++ [B]) (l ++ [B]) c w = cases_with wn hit chk pre l c w \/
      exists c_end, cases_with wn hit chk pre l c w = Out c_end w None /\
                    cases_with wn hit chk (pre ++ [B]) (l ++ [B]) c w = cases_with wn hit chk (pre ++ [B]) [B] c_end w.
  Proof.
    intros ND. induction l as [|n l IH]; intros c w.
    - right. exists c. split; [|reflexivity]. cbn [cases_with].
      rewrite <- (app_nil_r pre) at 1. rewrite default_with_nodefault by exact ND. reflexivity.
    - cbn [app cases_with]. destruct n; try apply IH. destruct k; try apply IH.
      destruct (hit ci c) as [[c1 h] e]. destruct e; [left; reflexivity|].
      destruct (if chk then cerr c1 else None); [left; reflexivity|].
      destruct h; [left; reflexivity|apply IH].
  Qed.

  (* ... and what evaluating a trailing block WITHOUT children amounts to: nothing is written; the
     context differs from the one the dropped list ends with only in what the test of a trailing
     case leaves in Ctx.Err / Ctx.BufB; but an error of that test (or the error register checked
     by the condition-less form) is returned -- the one observable difference *)
  Lemma trailing_empty_block hit chk pre k ki c w :
    forallb (fun n => negb (is_default_block n)) pre = true ->
    cases_with wn hit chk (pre ++ [NBlock k ki []]) [NBlock k ki []] c w =
    match k with
    | BCase =>
      let '(c1, h, e) := hit ki c in
      match e with
      | Some x => Out c1 w (Some x)
      | None => match (if chk then cerr c1 else None) with
                | Some x => Out c1 w (Some x)
                | None => if h then Out (set_cerr None c1) w None else Out c1 w None
                end
      end
    | BDefault => Out (set_cerr None c) w None
    | _ => Out c w None
    end.
  Proof.
    intros ND. cbn [cases_with].
    destruct k; try (rewrite default_with_nodefault by exact ND; reflexivity).
    destruct (hit ki c) as [[c1 h] e]. destruct e; [reflexivity|].
    destruct (if chk then cerr c1 else None); [reflexivity|]. destruct h; [reflexivity|].
    cbn [cases_with]. rewrite default_with_nodefault by exact ND. reflexivity.
  Qed.
End Nodes.

(* ------------------------------------------------------------------ a ctx node never stores a cell *)

Lemma put_slot_in k f fresh c s' :
  (forall s, s_key (f s) = s_key s) ->
  In s' (vars (put_slot k f fresh c)) -> In s' (vars c) \/ s' = fresh \/ exists s, s' = f s.
Proof.
  intros Hk. unfold put_slot. destruct (upd_slot k f (vars c)) as [l'|] eqn:U; cbn [vars set_vars].
  - destruct (upd_slot_spec k f _ _ U Hk) as [_ I']. intros H. destruct (I' s' H) as [H'|(s0 & _ & _ & ->)].
    + left; exact H'.
    + right; right; exists s0; reflexivity.
  - intros H. apply in_app_iff in H. destruct H as [H|[<-|[]]]; [left; exact H|right; left; reflexivity].
Qed.

Lemma ctx_get_vars c path : vars (fst (ctx_get c path)) = vars c.
Proof. destruct (ctx_get_shape c path) as (eo & v & E & _). rewrite E. reflexivity. Qed.

Lemma ctx_get_bufLC c path : bufLC (fst (ctx_get c path)) = bufLC c.
Proof. destruct (ctx_get_shape c path) as (eo & v & E & _). rewrite E. reflexivity. Qed.

Lemma collect_args_vars : forall args c, vars (fst (collect_args c args)) = vars c.
Proof.
  induction args as [|a r IH]; intros c; [reflexivity|]. cbn [collect_args].
  destruct (a_static a).
  - specialize (IH c). destruct (collect_args c r) as [c2 vs]. exact IH.
  - pose proof (ctx_get_vars c (a_val a)) as G. destruct (ctx_get c (a_val a)) as [c1 v]. cbn [fst] in G.
    specialize (IH c1). destruct (collect_args c1 r) as [c2 vs]. cbn [fst] in *. congruence.
Qed.

Lemma run_mods_vars : forall mods n c v c2 v2, run_mods n c mods v = ChOk c2 v2 -> vars c2 = vars c.
Proof.
  induction mods as [|m r IH]; intros n c v c2 v2 E.
  - inversion E; reflexivity.
  - cbn [run_mods] in E. pose proof (collect_args_vars (m_args m) c) as CV.
    destruct (collect_args c (m_args m)) as [c1 args]. cbn [fst] in CV.
    destruct (existsb a_global (m_args m)); [discriminate|].
    unfold apply_mod in E. destruct (pure_mod (bufLC c1) (m_id m) v args) as [v1|x|].
    + rewrite (IH _ _ _ _ _ E). exact CV.
    + inversion E; subst. exact CV.
    + destruct (name_is (m_id m) n_vdefer).
      { destruct args as [|a0 args0]; [inversion E; subst; exact CV|]. rewrite (IH _ _ _ _ _ E). exact CV. }
      destruct (name_is (m_id m) n_vacquire).
      { destruct args as [|a0 args0]; [inversion E; subst; exact CV|]. rewrite (IH _ _ _ _ _ E). exact CV. }
      destruct (name_is (m_id m) n_vfail); [inversion E; subst; exact CV|discriminate].
Qed.

(* whatever a ctx node assigns, every slot that holds a counter cell afterwards held it before:
   the node never stores a cell (a loop counter is copied as a number) *)
Theorem ctx_node_no_new_cell flits lookup budget inc var src ok ins st mods c w c' w' e :
  write_node flits lookup budget inc (NCtx var src ok ins st mods) c w = Out c' w' e ->
  forall s' j, In s' (vars c') -> s_val s' = VCell j -> In s' (vars c).
Proof.
  cbn [write_node]. intros E s' j Hin Hc.
  assert (SET : forall k v stt c0, In s' (vars (ctx_set k v stt c0)) -> (forall i, v <> VCell i) -> In s' (vars c0)).
  { intros k v stt c0 H NV. unfold ctx_set in H. apply put_slot_in in H; [|reflexivity].
    destruct H as [H|[->|(s0 & ->)]]; [exact H| |]; cbn [s_val] in Hc; exfalso; exact (NV j Hc). }
  assert (SETB : forall k b c0, In s' (vars (ctx_set_bytes k b c0)) -> In s' (vars c0)).
  { intros k b c0 H. unfold ctx_set_bytes in H. apply put_slot_in in H; [|reflexivity].
    destruct H as [H|[->|(s0 & ->)]]; [exact H| |]; cbn [s_val] in Hc; discriminate Hc. }
  assert (SETC : forall k n c0, In s' (vars (ctx_set_counter k n c0)) -> In s' (vars c0)).
  { intros k n c0 H. unfold ctx_set_counter in H. apply put_slot_in in H; [|reflexivity].
    destruct H as [H|[->|(s0 & ->)]]; [exact H| |]; cbn [s_val] in Hc; discriminate Hc. }
  destruct st.
  { inversion E; subst. apply SETB in Hin. exact Hin. }
  pose proof (ctx_get_vars (set_cerr None c) src) as GV.
  destruct (ctx_get (set_cerr None c) src) as [c1 v]. cbn [fst] in GV. change (vars (set_cerr None c)) with (vars c) in GV.
  destruct (cerr c1); [inversion E; subst; rewrite GV in Hin; exact Hin|].
  destruct (run_mods (w_n w) c1 mods v) as [c2 v2|] eqn:RM; [|discriminate].
  pose proof (run_mods_vars _ _ _ _ _ _ RM) as MV. rewrite GV in MV.
  destruct (cerr c2); [inversion E; subst; rewrite MV in Hin; exact Hin|].
  set (c3 := match ok with [] => c2 | _ :: _ => ctx_set_static ok (VBool (negb (is_void v2))) c2 end) in *.
  assert (IN3 : In s' (vars c3) -> In s' (vars c)).
  { unfold c3. destruct ok; [rewrite MV; exact (fun H => H)|]. intros H. unfold ctx_set_static in H.
    apply SET in H; [rewrite MV in H; exact H|discriminate]. }
  destruct (is_void v2); [inversion E; subst; apply IN3, Hin|].
  destruct (conv_bytes v2) as [[|b0 b]|].
  - destruct v2; inversion E; subst;
      try (apply IN3; eapply SET; [exact Hin|discriminate]); apply IN3, (SETC _ _ _ Hin).
  - inversion E; subst. apply IN3, (SETB _ _ _ Hin).
  - destruct v2; inversion E; subst;
      try (apply IN3; eapply SET; [exact Hin|discriminate]); apply IN3, (SETC _ _ _ Hin).
Qed.

(* {% ctx x = i %} with i the live counter of a loop: x becomes a counter holding the number *)
Theorem ctx_copies_loop_cell flits lookup budget inc var src ins c w i :
  ctx_get (set_cerr None c) src = (set_cerr None c, VCell i) ->
  exists c' s,
    write_node flits lookup budget inc (NCtx var src [] ins false []) c w = Out c' w None /\
    find_var var (vars c') = Some s /\
    s_val s = VNil /\ s_buf s = [] /\ s_cntrF s = true /\ s_cntr s = nth i (bufLC c) 0 /\
    var_value s [] = VInt (nth i (bufLC c) 0) /\
    forall s' j, In s' (vars c') -> s_val s' = VCell j -> In s' (vars c).
Proof.
  intros G.
  assert (W : write_node flits lookup budget inc (NCtx var src [] ins false []) c w =
              Out (ctx_set_counter var (nth i (bufLC c) 0) (set_cerr None c)) w None).
  { cbn [write_node]. rewrite G. reflexivity. }
  unfold ctx_set_counter in W.
  destruct (find_var_put var (fun s => mkSlot (s_key s) VNil [] true (nth i (bufLC c) 0) true)
                         (mkSlot var VNil [] true (nth i (bufLC c) 0) true) (set_cerr None c))
    as (s & F & Hs); [reflexivity|reflexivity|].
  eexists _, s. split; [exact W|]. split; [exact F|].
  assert (SH : s_val s = VNil /\ s_buf s = [] /\ s_cntrF s = true /\ s_cntr s = nth i (bufLC c) 0 /\
               var_value s [] = VInt (nth i (bufLC c) 0)).
  { destruct Hs as [->|(s0 & _ & ->)]; repeat split. }
  destruct SH as (S1 & S2 & S3 & S4 & S5). repeat (split; [assumption|]).
  intros s' j Hin Hc.
  eapply (ctx_node_no_new_cell flits lookup budget inc var src [] ins false [] c w _ w None); [|exact Hin|exact Hc].
  exact W.
Qed.

(* ------------------------------------------------------------------ the if-ok block *)

(* a name that is one path segment: what a variable of an if-ok header must be for the
   extended condition (!ok) to find it again *)
Definition simple_name (k : bytes) : bool :=
  nonempty k && forallb (fun x => negb (beqb x "."%byte)) k.

Lemma split_on_nosep sep : forall s cur,
  forallb (fun x => negb (beqb x sep)) s = true -> split_on sep s cur = [rev cur ++ s].
Proof.
  induction s as [|x s IH]; intros cur H; [cbn; rewrite app_nil_r; reflexivity|].
  cbn [forallb] in H. apply andb_true_iff in H. destruct H as [Hx Hs].
  cbn [split_on]. destruct (beqb x sep); [discriminate Hx|].
  rewrite (IH (x :: cur) Hs). cbn [rev]. rewrite <- app_assoc. reflexivity.
Qed.

Lemma split_dot_simple k : simple_name k = true -> split_dot k = [k].
Proof.
  unfold simple_name, split_dot. intros H. apply andb_true_iff in H. destruct H as [H1 H2].
  destruct k as [|x k]; [discriminate H1|]. exact (split_on_nosep _ _ [] H2).
Qed.

Lemma n_vok_same : Compile.n_vok = Interp.n_vok.
Proof. reflexivity. Qed.

Section IfOK.
  Variable flits : list (bytes * Z).
  Variable lookup : list bytes -> option tree.
  Variable budget : nat.
  Variable inc : tree -> ctx -> option (ctx * bytes * option err).
  Variable rlookup : list bytes -> option (list ast).
  Variable rinc : list ast -> env -> option res.
  Notation wn := (write_node flits lookup budget inc).
  Notation re := (ref_eval flits rlookup budget rinc).
  Notation node_ref := (node_ref flits lookup budget inc rlookup rinc).
  Notation items_ok := (items_ok flits lookup budget inc rlookup rinc).

  (* the node of a compiled if-ok header, unfolded once *)
  Lemma wn_condok v okv arg arglit ci child c w :
    cHlp ci = Compile.n_vok -> cHlpArg ci = [mkArg [] arg arglit false] ->
    wn (NCondOK (mkOk v okv b_static) ci child) c w =
    (let (c1, args) := collect_args (set_cerr None c) [mkArg [] arg arglit false] in
     let (val, okb) := vok_result (bufLC c1) args in
     let c2 := set_bufB okb (ctx_set_static okv (VBool okb) (ctx_set v val true c1)) in
     let '(c3, r, e) := match cR ci with
                        | [] => (c2, okb, None)
                        | _ :: _ => node_cmp flits c2 (cL ci) (cR ci) (cSL ci) (cSR ci) (cOp ci)
                        end in
     if r then match child with ch :: _ => wn ch c3 w | [] => Out c3 w e end
     else match child with _ :: ch :: _ => wn ch c3 w | _ => Out c3 w e end).
  Proof. intros H1 H2. cbn [write_node]. rewrite H1, H2. reflexivity. Qed.

  (* the two assignments of the header *)
  Lemma ifok_assign L v okv val okb c1 :
    Inv L c1 -> cell_free val ->
    let c2 := set_bufB okb (ctx_set_static okv (VBool okb) (ctx_set v val true c1)) in
    abs c2 = env_set okv (VBool okb) true (env_set v val true (abs c1)) /\ Inv L c2.
  Proof.
    intros HI CF c2. split.
    - unfold c2, ctx_set_static. change (abs (set_bufB okb ?x)) with (abs x).
      rewrite !abs_ctx_set. cbn [deref]. rewrite (CF _). reflexivity.
    - unfold c2, ctx_set_static. apply (ceq_Inv L _ _ (ceq_bufB _ _)).
      apply Inv_ctx_set; [left; apply cell_free_bool|apply not_live_cell_free, cell_free_bool|].
      apply Inv_ctx_set; [left; exact CF|apply not_live_cell_free, CF|exact HI].
  Qed.

  (* the extended condition "okv != true" reads the flag just assigned *)
  Lemma ifok_neg_cmp okv okb cx :
    simple_name okv = true ->
    let c2 := set_bufB okb (ctx_set_static okv (VBool okb) cx) in
    exists c3, node_cmp flits c2 okv b_true false true OpNq = (c3, negb okb, None) /\ ceq c3 c2.
  Proof.
    intros Hs c2. unfold node_cmp. cbn [andb]. unfold ctx_cmp. rewrite (split_dot_simple okv Hs).
    unfold c2, ctx_set_static, ctx_set. change (vars (set_bufB okb ?x)) with (vars x).
    destruct (find_var_put okv (fun s => mkSlot (s_key s) (VBool okb) [] false (s_cntr s) true)
                           (mkSlot okv (VBool okb) [] false 0 true) cx) as (s & F & Hsl); [reflexivity|reflexivity|].
    rewrite F.
    assert (SV : var_value s [] = VBool okb /\ s_static s = true).
    { destruct Hsl as [->|(s0 & _ & ->)]; split; reflexivity. }
    destruct SV as [SV ST]. rewrite SV, ST. cbn [leaf_cmp cmp_of_op].
    change (parse_bool b_true) with (Some true). cbn [option_map].
    eexists. split; [destruct okb; reflexivity|].
    eapply ceq_trans; [apply ceq_bufB|apply ceq_cerr].
  Qed.

  Theorem ifok_ref L v okv arg (arglit neg : bool) th el (he : bool) :
    items_ok false L th -> items_ok false L el -> (neg = true -> simple_name okv = true) ->
    node_ref L
      (NCondOK (mkOk v okv b_static)
         (if neg then mkCond okv b_true false true OpNq Compile.n_vok [mkArg [] arg arglit false] LcNone
          else mkCond okv [] false false OpUnk Compile.n_vok [mkArg [] arg arglit false] LcNone)
         (NBlock BTrue no_case (merge_raws (c_list compile th)) ::
          (if he then [NBlock BFalse no_case (merge_raws (c_list compile el))] else [])))
      (AIfOK v okv arg arglit neg th el he).
  Proof.
    intros Hth Hel Hneg c w HI Hw o e' s E D. cbn [ref_eval] in E.
    rewrite (wn_condok v okv arg arglit) by (destruct neg; reflexivity).
    (* the argument *)
    assert (EA : eval_args (abs (set_cerr None c)) [mkAArg arglit arg []] =
                 match (if arglit then Some (VBytes arg) else env_get (abs c) arg) with
                 | Some x => Some [AVal x] | None => None end).
    { cbn [eval_args aa_lit aa_text aa_kv]. destruct arglit; [reflexivity|].
      change (abs (set_cerr None c)) with (abs c). destruct (env_get (abs c) arg); reflexivity. }
    destruct (if arglit then Some (VBytes arg) else env_get (abs c) arg) as [x|]; [|inversion E; subst; contradiction].
    destruct (collect_args_ref [mkAArg arglit arg []] (set_cerr None c) [AVal x] (Inv_slots L c HI) EA)
      as (c1 & vs & EC & Q1 & EV & _).
    change (map c_arg [mkAArg arglit arg []]) with [mkArg [] arg arglit false] in EC. rewrite EC.
    destruct vs as [|a0 [|a1 vs]]; try discriminate EV. destruct a0 as [v0|k0 v0]; [|discriminate EV].
    cbn [map deref_arg bufLC set_cerr] in EV. inversion EV as [EX]. clear EV. subst x.
    assert (Q : ceq c1 c) by (eapply ceq_trans; [exact Q1|apply ceq_cerr]).
    pose proof (ceq_Inv L _ _ Q HI) as I1.
    assert (BL : bufLC c1 = bufLC c) by (destruct Q as (_&QL&_); exact QL).
    rewrite text_of_deref in E. unfold vok_result. cbn [arg_value]. rewrite BL.
    (* the value handed out and the flag *)
    assert (G : exists val okb,
      (match text_of (bufLC c) v0 with Some ((_ :: _) as t) => (VBytes t, true) | _ => (VNil, false) end) = (val, okb) /\
      cell_free val).
    { destruct (text_of (bufLC c) v0) as [[|b0 t0]|]; eexists _, _; (split; [reflexivity|]);
        first [apply cell_free_nil|apply cell_free_bytes]. }
    destruct G as (val & okb & EG & CF). rewrite EG in E |- *.
    destruct (ifok_assign L v okv val okb c1 I1 CF) as [A2 I2]. cbv zeta in A2, I2.
    rewrite (ceq_abs _ _ Q) in A2.
    set (c2 := set_bufB okb (ctx_set_static okv (VBool okb) (ctx_set v val true c1))) in *.
    (* the condition *)
    assert (R : exists c3, (match cR (if neg then mkCond okv b_true false true OpNq Compile.n_vok [mkArg [] arg arglit false] LcNone
                                      else mkCond okv [] false false OpUnk Compile.n_vok [mkArg [] arg arglit false] LcNone) with
                            | [] => (c2, okb, None)
                            | _ :: _ => node_cmp flits c2
                                 (cL (if neg then mkCond okv b_true false true OpNq Compile.n_vok [mkArg [] arg arglit false] LcNone
                                      else mkCond okv [] false false OpUnk Compile.n_vok [mkArg [] arg arglit false] LcNone))
                                 (cR (if neg then mkCond okv b_true false true OpNq Compile.n_vok [mkArg [] arg arglit false] LcNone
                                      else mkCond okv [] false false OpUnk Compile.n_vok [mkArg [] arg arglit false] LcNone))
                                 (cSL (if neg then mkCond okv b_true false true OpNq Compile.n_vok [mkArg [] arg arglit false] LcNone
                                       else mkCond okv [] false false OpUnk Compile.n_vok [mkArg [] arg arglit false] LcNone))
                                 (cSR (if neg then mkCond okv b_true false true OpNq Compile.n_vok [mkArg [] arg arglit false] LcNone
                                       else mkCond okv [] false false OpUnk Compile.n_vok [mkArg [] arg arglit false] LcNone))
                                 (cOp (if neg then mkCond okv b_true false true OpNq Compile.n_vok [mkArg [] arg arglit false] LcNone
                                       else mkCond okv [] false false OpUnk Compile.n_vok [mkArg [] arg arglit false] LcNone))
                            end) = (c3, xorb neg okb, None) /\ ceq c3 c2).
    { destruct neg.
      - cbn [cR cL cSL cSR cOp]. change b_true with (["t";"r";"u";"e"]%byte) at 1. cbv iota.
        destruct (ifok_neg_cmp okv okb (ctx_set v val true c1) (Hneg eq_refl)) as (c3 & EC3 & Q3).
        exists c3. split; [exact EC3|exact Q3].
      - cbn [cR]. exists c2. split; [destruct okb; reflexivity|apply ceq_refl]. }
    destruct R as (c3 & ER & Q3). rewrite ER.
    pose proof (ceq_Inv L _ _ Q3 I2) as I3. rewrite <- A2, <- (ceq_abs _ _ Q3) in E.
    destruct (xorb neg okb).
    - apply (nblock_ref flits lookup budget inc rlookup rinc); assumption.
    - destruct he.
      + apply (nblock_ref flits lookup budget inc rlookup rinc); assumption.
      + inversion E; subst. exists c3, w, None. rewrite app_nil_r. splits; done.
  Qed.
End IfOK.

(* ------------------------------------------------------------------ signals leave an if-ok block *)

(* the result of an if-ok node IS the result of the branch it chooses: whatever that branch
   raises (exit, break, a writer error ...) is what the node returns -- nothing is swallowed *)
Theorem condok_runs_child flits lookup budget inc k (ci : condinfo) ch1 ch2 rest c w :
  cHlp ci = Interp.n_vok -> oIns k = n_static ->
  exists c3 (b : bool),
    write_node flits lookup budget inc (NCondOK k ci (ch1 :: ch2 :: rest)) c w =
    write_node flits lookup budget inc (if b then ch1 else ch2) c3 w.
Proof.
  intros H1 H2. cbn [write_node]. rewrite H1, H2. cbn [bytes_eqb].
  change (bytes_eqb Interp.n_vok Interp.n_vok) with true. change (bytes_eqb n_static n_static) with true.
  cbv iota. unfold Interp.n_vok at 1. cbv iota.
  destruct (collect_args (set_cerr None c) (cHlpArg ci)) as [c1 args].
  destruct (vok_result (bufLC c1) args) as [v okb].
  destruct (cR ci) as [|r0 rr].
  - eexists _, okb. destruct okb; reflexivity.
  - destruct (node_cmp flits _ (cL ci) (r0 :: rr) (cSL ci) (cSR ci) (cOp ci)) as [[c3 r] e].
    exists c3, r. destruct r; reflexivity.
Qed.

Lemma block_exit flits lookup budget inc kd ki r c w :
  write_node flits lookup budget inc (NBlock kd ki (NExit :: r)) c w = Out (set_cerr None c) w (Some EInterrupt).
Proof. reflexivity. Qed.

Lemma block_break flits lookup budget inc kd ki d r c w :
  write_node flits lookup budget inc (NBlock kd ki (NBreak d :: r)) c w =
  Out (set_brkD (Z.max d (brkD c)) (set_cerr None c)) w (Some EBreak).
Proof. reflexivity. Qed.

(* exit inside an if-ok block (in either branch) ends the template: the node returns the signal *)
Theorem exit_inside_ifok flits lookup budget inc k (ci : condinfo) ki1 ki2 r1 r2 rest c w :
  cHlp ci = Interp.n_vok -> oIns k = n_static ->
  exists c',
    write_node flits lookup budget inc
      (NCondOK k ci (NBlock BTrue ki1 (NExit :: r1) :: NBlock BFalse ki2 (NExit :: r2) :: rest)) c w =
    Out c' w (Some EInterrupt).
Proof.
  intros H1 H2.
  destruct (condok_runs_child flits lookup budget inc k ci (NBlock BTrue ki1 (NExit :: r1)) (NBlock BFalse ki2 (NExit :: r2))
                              rest c w H1 H2) as (c3 & b & E).
  rewrite E. exists (set_cerr None c3). destruct b; apply block_exit.
Qed.

(* break inside an if-ok block reaches the enclosing loop, with its depth recorded *)
Theorem break_inside_ifok flits lookup budget inc k (ci : condinfo) ki1 ki2 d r1 r2 rest c w :
  cHlp ci = Interp.n_vok -> oIns k = n_static ->
  exists c',
    write_node flits lookup budget inc
      (NCondOK k ci (NBlock BTrue ki1 (NBreak d :: r1) :: NBlock BFalse ki2 (NBreak d :: r2) :: rest)) c w =
    Out c' w (Some EBreak) /\ d <= brkD c'.
Proof.
  intros H1 H2.
  destruct (condok_runs_child flits lookup budget inc k ci (NBlock BTrue ki1 (NBreak d :: r1)) (NBlock BFalse ki2 (NBreak d :: r2))
                              rest c w H1 H2) as (c3 & b & E).
  rewrite E. exists (set_brkD (Z.max d (brkD c3)) (set_cerr None c3)).
  split; [destruct b; apply block_break|cbn [brkD set_brkD]; lia].
Qed.

(* ------------------------------------------------------------------ the ok flag of a ctx assignment *)

Lemma find_var_upd_other k k' f : forall l l',
  (forall s, s_key (f s) = s_key s) -> k <> k' -> upd_slot k' f l = Some l' -> find_var k l' = find_var k l.
Proof.
  induction l as [|s l IH]; intros l' Hk Hne E; [discriminate|]. cbn [upd_slot] in E.
  destruct (bytes_eqb (s_key s) k') eqn:K.
  - inversion E; subst. cbn [find_var]. rewrite Hk. apply bytes_eqb_eq in K.
    assert (F : bytes_eqb (s_key s) k = false).
    { destruct (bytes_eqb (s_key s) k) eqn:K2; [|reflexivity]. apply bytes_eqb_eq in K2. congruence. }
    rewrite F. reflexivity.
  - destruct (upd_slot k' f l) as [r|] eqn:U; [|discriminate]. inversion E; subst. cbn [find_var].
    destruct (bytes_eqb (s_key s) k); [reflexivity|]. apply (IH r Hk Hne eq_refl).
Qed.

Lemma find_var_put_other k k' f fresh c :
  (forall s, s_key (f s) = s_key s) -> s_key fresh = k' -> k <> k' ->
  find_var k (vars (put_slot k' f fresh c)) = find_var k (vars c).
Proof.
  intros Hk Hf Hne. unfold put_slot. destruct (upd_slot k' f (vars c)) as [l'|] eqn:U; cbn [vars set_vars].
  - exact (find_var_upd_other k k' f _ _ Hk Hne U).
  - induction (vars c) as [|s l IH]; cbn [app find_var].
    + assert (F : bytes_eqb (s_key fresh) k = false).
      { destruct (bytes_eqb (s_key fresh) k) eqn:K2; [|reflexivity]. apply bytes_eqb_eq in K2. congruence. }
      rewrite F. reflexivity.
    + destruct (bytes_eqb (s_key s) k); [reflexivity|]. apply IH.
      cbn [upd_slot] in U. destruct (bytes_eqb (s_key s) k'); [discriminate|]. destruct (upd_slot k' f l); [discriminate|reflexivity].
Qed.

(* a non-literal assignment with an ok variable whose source and modifier chain evaluate: the ok
   variable receives "the value is not void" (not nil and not an empty string / byte value); when
   the value is void nothing else is assigned -- the target variable is untouched *)
Theorem ctx_ok_flag flits lookup budget inc var src ok ins mods c w c1 v c2 v2 :
  ok <> [] ->
  ctx_get (set_cerr None c) src = (c1, v) -> cerr c1 = None ->
  run_mods (w_n w) c1 mods v = ChOk c2 v2 -> cerr c2 = None ->
  exists c',
    write_node flits lookup budget inc (NCtx var src ok ins false mods) c w = Out c' w None /\
    (var <> ok \/ is_void v2 = true ->
     exists s, find_var ok (vars c') = Some s /\ s_val s = VBool (negb (is_void v2)) /\ s_static s = true /\
               var_value s [] = VBool (negb (is_void v2))) /\
    (is_void v2 = true -> forall k, k <> ok -> find_var k (vars c') = find_var k (vars c)).
Proof.
  intros Hok G C1 RM C2. cbn [write_node]. rewrite G, C1, RM, C2.
  destruct ok as [|o0 ok0]; [congruence|]. set (ok := o0 :: ok0) in *.
  set (c3 := ctx_set_static ok (VBool (negb (is_void v2))) c2).
  assert (V3 : forall k, k <> ok -> find_var k (vars c3) = find_var k (vars c)).
  { intros k Hk. unfold c3, ctx_set_static, ctx_set. rewrite find_var_put_other by (try reflexivity; exact Hk).
    rewrite (run_mods_vars _ _ _ _ _ _ RM). pose proof (ctx_get_vars (set_cerr None c) src) as GV. rewrite G in GV. cbn [fst] in GV. rewrite GV. reflexivity. }
  assert (O3 : exists s, find_var ok (vars c3) = Some s /\ s_val s = VBool (negb (is_void v2)) /\ s_static s = true /\
                         var_value s [] = VBool (negb (is_void v2))).
  { unfold c3, ctx_set_static, ctx_set.
    destruct (find_var_put ok (fun s => mkSlot (s_key s) (VBool (negb (is_void v2))) [] false (s_cntr s) true)
                           (mkSlot ok (VBool (negb (is_void v2))) [] false 0 true) c2) as (s & F & Hs); [reflexivity|reflexivity|].
    exists s. split; [exact F|]. destruct Hs as [->|(s0 & _ & ->)]; repeat split. }
  assert (KEEP : forall c', (var <> ok -> find_var ok (vars c') = find_var ok (vars c3)) ->
            is_void v2 = false ->
            (var <> ok \/ is_void v2 = true ->
             exists s, find_var ok (vars c') = Some s /\ s_val s = VBool (negb (is_void v2)) /\ s_static s = true /\
                       var_value s [] = VBool (negb (is_void v2))) /\
            (is_void v2 = true -> forall k, k <> ok -> find_var k (vars c') = find_var k (vars c))).
  { intros c' H N. split; [|rewrite N; discriminate]. intros [Hv|Hv]; [rewrite (H Hv); exact O3|rewrite N in Hv; discriminate]. }
  destruct (is_void v2) eqn:N.
  - exists c3. split; [reflexivity|]. split; [intros _; exact O3|intros _; exact V3].
  - destruct (conv_bytes v2) as [[|b0 b]|].
    + destruct v2; eexists; (split; [reflexivity|]); apply KEEP; try reflexivity; intros Hv;
        first [apply find_var_put_other; [reflexivity|reflexivity|congruence]].
    + eexists. split; [reflexivity|]. apply KEEP; [|reflexivity]. intros Hv.
      apply find_var_put_other; [reflexivity|reflexivity|congruence].
    + destruct v2; eexists; (split; [reflexivity|]); apply KEEP; try reflexivity; intros Hv;
        first [apply find_var_put_other; [reflexivity|reflexivity|congruence]].
Qed.

(* the reference side: the same two assignments *)
Theorem ref_ctx_ok_flag flits rlookup budget rinc var src ok mods e v v2 :
  env_get e src = Some v -> apply_mods e mods v = ChV v2 ->
  ref_eval flits rlookup budget rinc (ACtx var src ok false mods) e =
  (let e1 := match ok with [] => e | _ :: _ => env_set ok (VBool (negb (is_void v2))) true e end in
   ([], if is_void v2 then e1 else env_set var v2 true e1, SNone)).
Proof. intros G M. cbn [ref_eval]. rewrite G, M. destruct (is_void v2); reflexivity. Qed.
