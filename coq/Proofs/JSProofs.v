(* Proofs for C10: JS and CSS escaping. *)
From Coq Require Import ZifyN ZifyBool.
From DT Require Import Model.Bytes Proofs.BytesFacts Model.Utf8 Model.Hex
  Proofs.Utf8Facts Proofs.HexFacts Model.EscJS Spec.DecJS.
Local Open Scope N_scope.
Ltac Zify.zify_post_hook ::= Z.div_mod_to_equations.

Arguments N.div : simpl never.
Arguments N.modulo : simpl never.
Arguments N.mul : simpl never.
Arguments N.add : simpl never.
Arguments N.sub : simpl never.
Arguments N.pow : simpl never.
Arguments N.ltb : simpl never.
Arguments N.leb : simpl never.
Arguments N.eqb : simpl never.

(* ------------------------------------------------------------------ *)
(* ASCII output: utf8_decode of it is the list of byte values          *)
(* ------------------------------------------------------------------ *)

(* a non-NUL ASCII byte *)
Definition ascii_nz (b : byte) : bool := (0 <? b2n b) && (b2n b <? 128).
Definition nonzero (r : rune) : bool := negb (r =? 0).

Lemma utf8_decode_ascii s : forallb ascii_nz s = true -> utf8_decode s = map b2n s.
Proof.
  induction s as [|b s IH]; intros H; [reflexivity|].
  cbn [forallb] in H. apply andb_true_iff in H. destruct H as [Hb Hs].
  unfold ascii_nz in Hb. apply andb_true_iff in Hb. destruct Hb as [_ Hb].
  cbn [utf8_decode map]. rewrite Hb. rewrite IH by exact Hs. reflexivity.
Qed.

Lemma ascii_runes_scalar s :
  forallb ascii_nz s = true -> forallb is_scalar (map b2n s) = true.
Proof.
  induction s as [|b s IH]; intros H; [reflexivity|].
  cbn [forallb] in H. apply andb_true_iff in H. destruct H as [Hb Hs].
  cbn [map forallb]. rewrite IH by exact Hs.
  unfold ascii_nz in Hb. unfold is_scalar. lia.
Qed.

Lemma ascii_runes_nonzero s :
  forallb ascii_nz s = true -> forallb nonzero (map b2n s) = true.
Proof.
  induction s as [|b s IH]; intros H; [reflexivity|].
  cbn [forallb] in H. apply andb_true_iff in H. destruct H as [Hb Hs].
  cbn [map forallb]. rewrite IH by exact Hs.
  unfold ascii_nz in Hb. unfold nonzero. lia.
Qed.

Lemma forallb_flat_map {A B} (P : B -> bool) (f : A -> list B) l :
  (forall a, forallb P (f a) = true) -> forallb P (flat_map f l) = true.
Proof.
  intros H. induction l as [|a l IH]; [reflexivity|].
  cbn [flat_map]. rewrite forallb_app, H, IH. reflexivity.
Qed.

Lemma forallb_impl {A} (P Q : A -> bool) l :
  (forall a, P a = true -> Q a = true) -> forallb P l = true -> forallb Q l = true.
Proof.
  intros H. induction l as [|a l IH]; intros Hl; [reflexivity|].
  cbn [forallb] in *. apply andb_true_iff in Hl. destruct Hl as [Ha Hl].
  rewrite (H a Ha), (IH Hl). reflexivity.
Qed.

(* ---- closed per-byte sweeps ---- *)
Lemma sweep_lo_hex_ascii : forall b, implb (is_lo_hex b) (ascii_nz b) = true.
Proof. apply byte_forall. vm_compute. reflexivity. Qed.

Lemma sweep_lo_hex_is_hex : forall b, implb (is_lo_hex b) (is_hex b) = true.
Proof. apply byte_forall. vm_compute. reflexivity. Qed.

Lemma sweep_js_plain :
  forall b, implb (js_plain (b2n b)) (negb (beqb b x5c) && js_safe_char b) = true.
Proof. apply byte_forall. vm_compute. reflexivity. Qed.

Lemma sweep_css_plain :
  forall b, implb (is_alnum_r (b2n b)) (negb (beqb b x5c) && is_alnum b) = true.
Proof. apply byte_forall. vm_compute. reflexivity. Qed.

Lemma lo_hex_ascii b : is_lo_hex b = true -> ascii_nz b = true.
Proof. intros H. pose proof (sweep_lo_hex_ascii b) as S. rewrite H in S. exact S. Qed.

Lemma lo_hex_is_hex b : is_lo_hex b = true -> is_hex b = true.
Proof. intros H. pose proof (sweep_lo_hex_is_hex b) as S. rewrite H in S. exact S. Qed.

(* ---- hex digits of the tokens ---- *)
Lemma forallb_repeat {A} (P : A -> bool) a n : P a = true -> forallb P (repeat a n) = true.
Proof. intros H. induction n as [|n IH]; [reflexivity|]. cbn [repeat forallb]. rewrite H, IH. reflexivity. Qed.

Lemma hex4_all_lo_hex n : forallb is_lo_hex (hex4 n) = true.
Proof.
  unfold hex4, pad0. rewrite forallb_app, hex_lo_all_lo_hex, forallb_repeat; reflexivity.
Qed.

Lemma hexd_zero n k : n < 16 ^ k -> hexd n k = "0"%byte.
Proof. intros H. unfold hexd. rewrite N.div_small by exact H. reflexivity. Qed.

Lemma hex4_shape n : n < 65536 -> hex4 n = [hexd n 3; hexd n 2; hexd n 1; hexd n 0].
Proof.
  intros H. unfold hex4, pad0, hex_lo. destruct pow16 as (P0 & P1 & P2 & P3 & P4 & P5).
  destruct (n <? 16) eqn:E1.
  { rewrite (hexd_zero n 3), (hexd_zero n 2), (hexd_zero n 1) by (rewrite ?P1, ?P2, ?P3; lia). reflexivity. }
  destruct (n <? 256) eqn:E2.
  { rewrite (hexd_zero n 3), (hexd_zero n 2) by (rewrite ?P1, ?P2, ?P3; lia). reflexivity. }
  destruct (n <? 4096) eqn:E3.
  { rewrite (hexd_zero n 3) by (rewrite ?P1, ?P2, ?P3; lia). reflexivity. }
  destruct (n <? 65536) eqn:E4; [reflexivity|lia].
Qed.

Lemma hexv_b2n b : hexv (b2n b) = hex_val b.
Proof. reflexivity. Qed.

Lemma hex4v_hexd n :
  n < 65536 ->
  hex4v (b2n (hexd n 3)) (b2n (hexd n 2)) (b2n (hexd n 1)) (b2n (hexd n 0)) = Some n.
Proof.
  intros H. unfold hex4v. rewrite !hexv_b2n, !hex_val_hexd.
  destruct pow16 as (P0 & P1 & P2 & P3 & P4 & P5). rewrite P0, P1, P2, P3.
  f_equal. lia.
Qed.

Lemma js_u_runes n :
  n < 65536 ->
  map b2n (js_u n) =
  [92; 117; b2n (hexd n 3); b2n (hexd n 2); b2n (hexd n 1); b2n (hexd n 0)].
Proof. intros H. unfold js_u. rewrite hex4_shape by exact H. reflexivity. Qed.

(* ------------------------------------------------------------------ *)
(* JS: every token is ASCII                                             *)
(* ------------------------------------------------------------------ *)

Lemma js_plain_lt r : js_plain r = true -> 0 < r /\ r < 128.
Proof. unfold js_plain, is_alnum_r, btw. lia. Qed.

Lemma js_u_ascii n : forallb ascii_nz (js_u n) = true.
Proof.
  unfold js_u. cbn [forallb].
  rewrite (forallb_impl _ _ _ lo_hex_ascii (hex4_all_lo_hex n)). reflexivity.
Qed.

Lemma js_tok_ascii r : forallb ascii_nz (js_tok r) = true.
Proof.
  unfold js_tok.
  destruct (r =? 92); [reflexivity|]. destruct (r =? 47); [reflexivity|].
  destruct (r =? 8); [reflexivity|]. destruct (r =? 12); [reflexivity|].
  destruct (r =? 10); [reflexivity|]. destruct (r =? 13); [reflexivity|].
  destruct (r =? 9); [reflexivity|].
  destruct (js_plain r) eqn:Hp.
  { apply js_plain_lt in Hp. cbn [forallb]. unfold ascii_nz. rewrite b2n_n2b by lia. lia. }
  destruct (r <? 65536); [apply js_u_ascii|].
  cbv zeta. rewrite forallb_app, !js_u_ascii. reflexivity.
Qed.

Lemma js_escape_ascii rs : forallb ascii_nz (js_escape rs) = true.
Proof. apply forallb_flat_map, js_tok_ascii. Qed.

(* ------------------------------------------------------------------ *)
(* JS: decoder steps, by token shape                                    *)
(* ------------------------------------------------------------------ *)

Lemma js_dec_single e v rest :
  (e =? 117) = false -> (e =? 120) = false -> (e =? 48) = false -> btw 49 57 e = false ->
  js_single e = Some v ->
  js_unescape_runes (92 :: e :: rest) = option_map (cons v) (js_unescape_runes rest).
Proof.
  intros H1 H2 H3 H4 H5. cbn [js_unescape_runes].
  change (92 =? 92) with true. cbv iota.
  rewrite H1, H2, H3, H4, H5. reflexivity.
Qed.

Lemma js_dec_raw c rest :
  (c =? 92) = false -> (c =? 34) = false -> (c =? 39) = false ->
  (c =? 10) = false -> (c =? 13) = false ->
  js_unescape_runes (c :: rest) = option_map (cons c) (js_unescape_runes rest).
Proof.
  intros H1 H2 H3 H4 H5. cbn [js_unescape_runes].
  rewrite H1, H2, H3, H4, H5. reflexivity.
Qed.

Lemma js_dec_u h1 h2 h3 h4 v rest :
  hex4v h1 h2 h3 h4 = Some v -> is_hi_surr v = false ->
  js_unescape_runes (92 :: 117 :: h1 :: h2 :: h3 :: h4 :: rest)
  = option_map (cons v) (js_unescape_runes rest).
Proof.
  intros H1 H2. cbn [js_unescape_runes].
  change (92 =? 92) with true. change (117 =? 117) with true. cbv iota.
  rewrite H1, H2. reflexivity.
Qed.

Lemma js_dec_pair h1 h2 h3 h4 l1 l2 l3 l4 hi lo rest :
  hex4v h1 h2 h3 h4 = Some hi -> hex4v l1 l2 l3 l4 = Some lo ->
  is_hi_surr hi = true -> is_lo_surr lo = true ->
  js_unescape_runes (92 :: 117 :: h1 :: h2 :: h3 :: h4 :: 92 :: 117 :: l1 :: l2 :: l3 :: l4 :: rest)
  = option_map (cons (surr_pair hi lo)) (js_unescape_runes rest).
Proof.
  intros H1 H2 H3 H4.
  remember (92 :: 117 :: l1 :: l2 :: l3 :: l4 :: rest) as tail eqn:Etail.
  cbn [js_unescape_runes].
  change (92 =? 92) with true. change (117 =? 117) with true. cbv iota.
  rewrite H1, H3. subst tail.
  change (92 =? 92) with true. change (117 =? 117) with true. cbn [andb].
  rewrite H2, H4. reflexivity.
Qed.

(* the token lemma *)
Lemma js_tok_dec r rest :
  is_scalar r = true ->
  js_unescape_runes (map b2n (js_tok r) ++ rest) = option_map (cons r) (js_unescape_runes rest).
Proof.
  intros Hs. unfold js_tok.
  destruct (r =? 92) eqn:E1.
  { apply N.eqb_eq in E1. subst r. change (map b2n [BSL; BSL] ++ rest) with (92 :: 92 :: rest).
    apply js_dec_single; reflexivity. }
  destruct (r =? 47) eqn:E2.
  { apply N.eqb_eq in E2. subst r. change (map b2n [BSL; "/"%byte] ++ rest) with (92 :: 47 :: rest).
    apply js_dec_single; reflexivity. }
  destruct (r =? 8) eqn:E3.
  { apply N.eqb_eq in E3. subst r. change (map b2n [BSL; "b"%byte] ++ rest) with (92 :: 98 :: rest).
    apply js_dec_single; reflexivity. }
  destruct (r =? 12) eqn:E4.
  { apply N.eqb_eq in E4. subst r. change (map b2n [BSL; "f"%byte] ++ rest) with (92 :: 102 :: rest).
    apply js_dec_single; reflexivity. }
  destruct (r =? 10) eqn:E5.
  { apply N.eqb_eq in E5. subst r. change (map b2n [BSL; "n"%byte] ++ rest) with (92 :: 110 :: rest).
    apply js_dec_single; reflexivity. }
  destruct (r =? 13) eqn:E6.
  { apply N.eqb_eq in E6. subst r. change (map b2n [BSL; "r"%byte] ++ rest) with (92 :: 114 :: rest).
    apply js_dec_single; reflexivity. }
  destruct (r =? 9) eqn:E7.
  { apply N.eqb_eq in E7. subst r. change (map b2n [BSL; "t"%byte] ++ rest) with (92 :: 116 :: rest).
    apply js_dec_single; reflexivity. }
  destruct (js_plain r) eqn:Hp.
  { cbn [map app]. pose proof (js_plain_lt r Hp) as [Hlo Hhi].
    rewrite b2n_n2b by lia.
    unfold js_plain, is_alnum_r, btw in Hp.
    apply js_dec_raw; lia. }
  unfold is_scalar in Hs.
  destruct (r <? 65536) eqn:E8.
  { rewrite js_u_runes by lia. cbn [app].
    apply js_dec_u; [apply hex4v_hexd; lia|].
    unfold is_hi_surr, btw. lia. }
  cbv zeta. rewrite map_app, !js_u_runes by lia. cbn [app].
  rewrite (js_dec_pair _ _ _ _ _ _ _ _ (55296 + (r - 65536) / 1024) (56320 + (r - 65536) mod 1024)).
  - f_equal. f_equal. unfold surr_pair. lia.
  - apply hex4v_hexd. lia.
  - apply hex4v_hexd. lia.
  - unfold is_hi_surr, btw. lia.
  - unfold is_lo_surr, btw. lia.
Qed.

Theorem js_runes_roundtrip rs :
  forallb is_scalar rs = true -> js_unescape_runes (map b2n (js_escape rs)) = Some rs.
Proof.
  induction rs as [|r rs IH]; intros H; [reflexivity|].
  cbn [forallb] in H. apply andb_true_iff in H. destruct H as [Hr Hrs].
  unfold js_escape in *. cbn [flat_map]. rewrite map_app, js_tok_dec by exact Hr.
  rewrite IH by exact Hrs. reflexivity.
Qed.

Theorem js_roundtrip rs :
  forallb is_scalar rs = true -> js_unescape (js_escape rs) = Some rs.
Proof.
  intros H. unfold js_unescape. rewrite utf8_decode_ascii by apply js_escape_ascii.
  apply js_runes_roundtrip, H.
Qed.

(* ------------------------------------------------------------------ *)
(* JS: alphabet                                                         *)
(* ------------------------------------------------------------------ *)

Lemma js_u_alpha n rest : n < 65536 -> js_alphabet (js_u n ++ rest) = js_alphabet rest.
Proof.
  intros H. unfold js_u. rewrite hex4_shape by exact H.
  cbn [app js_alphabet]. change (beqb BSL x5c) with true. change (beqb "u"%byte "u"%byte) with true.
  cbv iota. rewrite !is_lo_hex_hexd. reflexivity.
Qed.

Lemma js_tok_alpha r rest :
  is_scalar r = true -> js_alphabet (js_tok r ++ rest) = js_alphabet rest.
Proof.
  intros Hs. unfold js_tok.
  destruct (r =? 92); [reflexivity|]. destruct (r =? 47); [reflexivity|].
  destruct (r =? 8); [reflexivity|]. destruct (r =? 12); [reflexivity|].
  destruct (r =? 10); [reflexivity|]. destruct (r =? 13); [reflexivity|].
  destruct (r =? 9); [reflexivity|].
  destruct (js_plain r) eqn:Hp.
  { pose proof (js_plain_lt r Hp) as [Hlo Hhi].
    pose proof (sweep_js_plain (n2b r)) as S. rewrite b2n_n2b in S by lia. rewrite Hp in S.
    cbn [implb] in S. apply andb_true_iff in S. destruct S as [S1 S2]. apply negb_true_iff in S1.
    cbn [app js_alphabet]. rewrite S1, S2. reflexivity. }
  unfold is_scalar in Hs.
  destruct (r <? 65536) eqn:E8; [apply js_u_alpha; lia|].
  cbv zeta. rewrite <- app_assoc, !js_u_alpha by lia. reflexivity.
Qed.

Theorem js_alphabet_ok rs :
  forallb is_scalar rs = true -> js_alphabet (js_escape rs) = true.
Proof.
  induction rs as [|r rs IH]; intros H; [reflexivity|].
  cbn [forallb] in H. apply andb_true_iff in H. destruct H as [Hr Hrs].
  unfold js_escape in *. cbn [flat_map]. rewrite js_tok_alpha by exact Hr. exact (IH Hrs).
Qed.
