(* Proofs for C10: JS and CSS escaping. *)
From Coq Require Import ZifyN ZifyBool.
From DT Require Import Model.Bytes Proofs.BytesFacts Model.Utf8 Model.Hex
  Proofs.Utf8Facts Proofs.HexFacts Model.EscJS Spec.DecJS.
Local Open Scope N_scope.
Ltac Zify.zify_post_hook ::= Z.div_mod_to_equations.

Arguments N.div : simpl never.
Arguments N.modulo : simpl never.
Arguments N.mul : simpl never.
Arguments N.add : simpl never.
Arguments N.sub : simpl never.
Arguments N.pow : simpl never.
Arguments N.ltb : simpl never.
Arguments N.leb : simpl never.
Arguments N.eqb : simpl never.

(* ------------------------------------------------------------------ *)
(* ASCII output: utf8_decode of it is the list of byte values          *)
(* ------------------------------------------------------------------ *)

(* a non-NUL ASCII byte *)
Definition ascii_nz (b : byte) : bool := (0 <? b2n b) && (b2n b <? 128).
Definition nonzero (r : rune) : bool := negb (r =? 0).

Lemma utf8_decode_ascii s : forallb ascii_nz s = true -> utf8_decode s = map b2n s.
Proof.
  induction s as [|b s IH]; intros H; [reflexivity|].
  cbn [forallb] in H. apply andb_true_iff in H. destruct H as [Hb Hs].
  unfold ascii_nz in Hb. apply andb_true_iff in Hb. destruct Hb as [_ Hb].
  cbn [utf8_decode map]. rewrite Hb. rewrite IH by exact Hs. reflexivity.
Qed.

Lemma ascii_runes_scalar s :
  forallb ascii_nz s = true -> forallb is_scalar (map b2n s) = true.
Proof.
  induction s as [|b s IH]; intros H; [reflexivity|].
  cbn [forallb] in H. apply andb_true_iff in H. destruct H as [Hb Hs].
  cbn [map forallb]. rewrite IH by exact Hs.
  unfold ascii_nz in Hb. unfold is_scalar. lia.
Qed.

Lemma ascii_runes_nonzero s :
  forallb ascii_nz s = true -> forallb nonzero (map b2n s) = true.
Proof.
  induction s as [|b s IH]; intros H; [reflexivity|].
  cbn [forallb] in H. apply andb_true_iff in H. destruct H as [Hb Hs].
  cbn [map forallb]. rewrite IH by exact Hs.
  unfold ascii_nz in Hb. unfold nonzero. lia.
Qed.

Lemma forallb_flat_map {A B} (P : B -> bool) (f : A -> list B) l :
  (forall a, forallb P (f a) = true) -> forallb P (flat_map f l) = true.
Proof.
  intros H. induction l as [|a l IH]; [reflexivity|].
  cbn [flat_map]. rewrite forallb_app, H, IH. reflexivity.
Qed.

Lemma forallb_impl {A} (P Q : A -> bool) l :
  (forall a, P a = true -> Q a = true) -> forallb P l = true -> forallb Q l = true.
Proof.
  intros H. induction l as [|a l IH]; intros Hl; [reflexivity|].
  cbn [forallb] in *. apply andb_true_iff in Hl. destruct Hl as [Ha Hl].
  rewrite (H a Ha), (IH Hl). reflexivity.
Qed.

(* ---- closed per-byte sweeps ---- *)
Lemma sweep_lo_hex_ascii : forall b, implb (is_lo_hex b) (ascii_nz b) = true.
Proof. apply byte_forall. vm_compute. reflexivity. Qed.

Lemma sweep_lo_hex_is_hex : forall b, implb (is_lo_hex b) (is_hex b) = true.
Proof. apply byte_forall. vm_compute. reflexivity. Qed.

Lemma sweep_js_plain :
  forall b, implb (js_plain (b2n b)) (negb (beqb b x5c) && js_safe_char b) = true.
Proof. apply byte_forall. vm_compute. reflexivity. Qed.

Lemma sweep_css_plain :
  forall b, implb (is_alnum_r (b2n b)) (negb (beqb b x5c) && is_alnum b) = true.
Proof. apply byte_forall. vm_compute. reflexivity. Qed.

Lemma lo_hex_ascii b : is_lo_hex b = true -> ascii_nz b = true.
Proof. intros H. pose proof (sweep_lo_hex_ascii b) as S. rewrite H in S. exact S. Qed.

Lemma lo_hex_is_hex b : is_lo_hex b = true -> is_hex b = true.
Proof. intros H. pose proof (sweep_lo_hex_is_hex b) as S. rewrite H in S. exact S. Qed.

(* ---- hex digits of the tokens ---- *)
Lemma forallb_repeat {A} (P : A -> bool) a n : P a = true -> forallb P (repeat a n) = true.
Proof. intros H. induction n as [|n IH]; [reflexivity|]. cbn [repeat forallb]. rewrite H, IH. reflexivity. Qed.

Lemma hex4_all_lo_hex n : forallb is_lo_hex (hex4 n) = true.
Proof.
  unfold hex4, pad0. rewrite forallb_app, hex_lo_all_lo_hex, forallb_repeat; reflexivity.
Qed.

Lemma hexd_zero n k : n < 16 ^ k -> hexd n k = "0"%byte.
Proof. intros H. unfold hexd. rewrite N.div_small by exact H. reflexivity. Qed.

Lemma hex4_shape n : n < 65536 -> hex4 n = [hexd n 3; hexd n 2; hexd n 1; hexd n 0].
Proof.
  intros H. unfold hex4, pad0, hex_lo. destruct pow16 as (P0 & P1 & P2 & P3 & P4 & P5).
  destruct (n <? 16) eqn:E1.
  { rewrite (hexd_zero n 3), (hexd_zero n 2), (hexd_zero n 1) by (rewrite ?P1, ?P2, ?P3; lia). reflexivity. }
  destruct (n <? 256) eqn:E2.
  { rewrite (hexd_zero n 3), (hexd_zero n 2) by (rewrite ?P1, ?P2, ?P3; lia). reflexivity. }
  destruct (n <? 4096) eqn:E3.
  { rewrite (hexd_zero n 3) by (rewrite ?P1, ?P2, ?P3; lia). reflexivity. }
  destruct (n <? 65536) eqn:E4; [reflexivity|lia].
Qed.

Lemma hexv_b2n b : hexv (b2n b) = hex_val b.
Proof. reflexivity. Qed.

Lemma hex4v_hexd n :
  n < 65536 ->
  hex4v (b2n (hexd n 3)) (b2n (hexd n 2)) (b2n (hexd n 1)) (b2n (hexd n 0)) = Some n.
Proof.
  intros H. unfold hex4v. rewrite !hexv_b2n, !hex_val_hexd.
  destruct pow16 as (P0 & P1 & P2 & P3 & P4 & P5). rewrite P0, P1, P2, P3.
  f_equal. lia.
Qed.

Lemma js_u_runes n :
  n < 65536 ->
  map b2n (js_u n) =
  [92; 117; b2n (hexd n 3); b2n (hexd n 2); b2n (hexd n 1); b2n (hexd n 0)].
Proof. intros H. unfold js_u. rewrite hex4_shape by exact H. reflexivity. Qed.

(* ------------------------------------------------------------------ *)
(* JS: every token is ASCII                                             *)
(* ------------------------------------------------------------------ *)

Lemma js_plain_lt r : js_plain r = true -> 0 < r /\ r < 128.
Proof. unfold js_plain, is_alnum_r, btw. lia. Qed.

Lemma js_u_ascii n : forallb ascii_nz (js_u n) = true.
Proof.
  unfold js_u. cbn [forallb].
  rewrite (forallb_impl _ _ _ lo_hex_ascii (hex4_all_lo_hex n)). reflexivity.
Qed.

Lemma js_tok_ascii r : forallb ascii_nz (js_tok r) = true.
Proof.
  unfold js_tok.
  destruct (r =? 92); [reflexivity|]. destruct (r =? 47); [reflexivity|].
  destruct (r =? 8); [reflexivity|]. destruct (r =? 12); [reflexivity|].
  destruct (r =? 10); [reflexivity|]. destruct (r =? 13); [reflexivity|].
  destruct (r =? 9); [reflexivity|].
  destruct (js_plain r) eqn:Hp.
  { apply js_plain_lt in Hp. cbn [forallb]. unfold ascii_nz. rewrite b2n_n2b by lia. lia. }
  destruct (r <? 65536); [apply js_u_ascii|].
  cbv zeta. rewrite forallb_app, !js_u_ascii. reflexivity.
Qed.

Lemma js_escape_ascii rs : forallb ascii_nz (js_escape rs) = true.
Proof. apply forallb_flat_map, js_tok_ascii. Qed.

(* ------------------------------------------------------------------ *)
(* JS: decoder steps, by token shape                                    *)
(* ------------------------------------------------------------------ *)

Lemma js_dec_single e v rest :
  (e =? 117) = false -> (e =? 120) = false -> (e =? 48) = false -> btw 49 57 e = false ->
  js_single e = Some v ->
  js_unescape_runes (92 :: e :: rest) = option_map (cons v) (js_unescape_runes rest).
Proof.
  intros H1 H2 H3 H4 H5. cbn [js_unescape_runes].
  change (92 =? 92) with true. cbv iota.
  rewrite H1, H2, H3, H4, H5. reflexivity.
Qed.

Lemma js_dec_raw c rest :
  (c =? 92) = false -> (c =? 34) = false -> (c =? 39) = false ->
  (c =? 10) = false -> (c =? 13) = false ->
  js_unescape_runes (c :: rest) = option_map (cons c) (js_unescape_runes rest).
Proof.
  intros H1 H2 H3 H4 H5. cbn [js_unescape_runes].
  rewrite H1, H2, H3, H4, H5. reflexivity.
Qed.

Lemma js_dec_u h1 h2 h3 h4 v rest :
  hex4v h1 h2 h3 h4 = Some v -> is_hi_surr v = false ->
  js_unescape_runes (92 :: 117 :: h1 :: h2 :: h3 :: h4 :: rest)
  = option_map (cons v) (js_unescape_runes rest).
Proof.
  intros H1 H2. cbn [js_unescape_runes].
  change (92 =? 92) with true. change (117 =? 117) with true. cbv iota.
  rewrite H1, H2. reflexivity.
Qed.

Lemma js_dec_pair h1 h2 h3 h4 l1 l2 l3 l4 hi lo rest :
  hex4v h1 h2 h3 h4 = Some hi -> hex4v l1 l2 l3 l4 = Some lo ->
  is_hi_surr hi = true -> is_lo_surr lo = true ->
  js_unescape_runes (92 :: 117 :: h1 :: h2 :: h3 :: h4 :: 92 :: 117 :: l1 :: l2 :: l3 :: l4 :: rest)
  = option_map (cons (surr_pair hi lo)) (js_unescape_runes rest).
Proof.
  intros H1 H2 H3 H4.
  remember (92 :: 117 :: l1 :: l2 :: l3 :: l4 :: rest) as tail eqn:Etail.
  cbn [js_unescape_runes].
  change (92 =? 92) with true. change (117 =? 117) with true. cbv iota.
  rewrite H1, H3. subst tail.
  change (92 =? 92) with true. change (117 =? 117) with true. cbn [andb].
  rewrite H2, H4. reflexivity.
Qed.

(* the token lemma *)
Lemma js_tok_dec r rest :
  is_scalar r = true ->
  js_unescape_runes (map b2n (js_tok r) ++ rest) = option_map (cons r) (js_unescape_runes rest).
Proof.
  intros Hs. unfold js_tok.
  destruct (r =? 92) eqn:E1.
  { apply N.eqb_eq in E1. subst r. change (map b2n [BSL; BSL] ++ rest) with (92 :: 92 :: rest).
    apply js_dec_single; reflexivity. }
  destruct (r =? 47) eqn:E2.
  { apply N.eqb_eq in E2. subst r. change (map b2n [BSL; "/"%byte] ++ rest) with (92 :: 47 :: rest).
    apply js_dec_single; reflexivity. }
  destruct (r =? 8) eqn:E3.
  { apply N.eqb_eq in E3. subst r. change (map b2n [BSL; "b"%byte] ++ rest) with (92 :: 98 :: rest).
    apply js_dec_single; reflexivity. }
  destruct (r =? 12) eqn:E4.
  { apply N.eqb_eq in E4. subst r. change (map b2n [BSL; "f"%byte] ++ rest) with (92 :: 102 :: rest).
    apply js_dec_single; reflexivity. }
  destruct (r =? 10) eqn:E5.
  { apply N.eqb_eq in E5. subst r. change (map b2n [BSL; "n"%byte] ++ rest) with (92 :: 110 :: rest).
    apply js_dec_single; reflexivity. }
  destruct (r =? 13) eqn:E6.
  { apply N.eqb_eq in E6. subst r. change (map b2n [BSL; "r"%byte] ++ rest) with (92 :: 114 :: rest).
    apply js_dec_single; reflexivity. }
  destruct (r =? 9) eqn:E7.
  { apply N.eqb_eq in E7. subst r. change (map b2n [BSL; "t"%byte] ++ rest) with (92 :: 116 :: rest).
    apply js_dec_single; reflexivity. }
  destruct (js_plain r) eqn:Hp.
  { cbn [map app]. pose proof (js_plain_lt r Hp) as [Hlo Hhi].
    rewrite b2n_n2b by lia.
    unfold js_plain, is_alnum_r, btw in Hp.
    apply js_dec_raw; lia. }
  unfold is_scalar in Hs.
  destruct (r <? 65536) eqn:E8.
  { rewrite js_u_runes by lia. cbn [app].
    apply js_dec_u; [apply hex4v_hexd; lia|].
    unfold is_hi_surr, btw. lia. }
  cbv zeta. rewrite map_app, !js_u_runes by lia. cbn [app].
  rewrite (js_dec_pair _ _ _ _ _ _ _ _ (55296 + (r - 65536) / 1024) (56320 + (r - 65536) mod 1024)).
  - f_equal. f_equal. unfold surr_pair. lia.
  - apply hex4v_hexd. lia.
  - apply hex4v_hexd. lia.
  - unfold is_hi_surr, btw. lia.
  - unfold is_lo_surr, btw. lia.
Qed.

Theorem js_runes_roundtrip rs :
  forallb is_scalar rs = true -> js_unescape_runes (map b2n (js_escape rs)) = Some rs.
Proof.
  induction rs as [|r rs IH]; intros H; [reflexivity|].
  cbn [forallb] in H. apply andb_true_iff in H. destruct H as [Hr Hrs].
  unfold js_escape in *. cbn [flat_map]. rewrite map_app, js_tok_dec by exact Hr.
  rewrite IH by exact Hrs. reflexivity.
Qed.

Theorem js_roundtrip rs :
  forallb is_scalar rs = true -> js_unescape (js_escape rs) = Some rs.
Proof.
  intros H. unfold js_unescape. rewrite utf8_decode_ascii by apply js_escape_ascii.
  apply js_runes_roundtrip, H.
Qed.

(* ------------------------------------------------------------------ *)
(* JS: alphabet                                                         *)
(* ------------------------------------------------------------------ *)

Lemma js_u_alpha n rest : n < 65536 -> js_alphabet (js_u n ++ rest) = js_alphabet rest.
Proof.
  intros H. unfold js_u. rewrite hex4_shape by exact H.
  cbn [app js_alphabet]. change (beqb BSL x5c) with true. change (beqb "u"%byte "u"%byte) with true.
  cbv iota. rewrite !is_lo_hex_hexd. reflexivity.
Qed.

Lemma js_tok_alpha r rest :
  is_scalar r = true -> js_alphabet (js_tok r ++ rest) = js_alphabet rest.
Proof.
  intros Hs. unfold js_tok.
  destruct (r =? 92); [reflexivity|]. destruct (r =? 47); [reflexivity|].
  destruct (r =? 8); [reflexivity|]. destruct (r =? 12); [reflexivity|].
  destruct (r =? 10); [reflexivity|]. destruct (r =? 13); [reflexivity|].
  destruct (r =? 9); [reflexivity|].
  destruct (js_plain r) eqn:Hp.
  { pose proof (js_plain_lt r Hp) as [Hlo Hhi].
    pose proof (sweep_js_plain (n2b r)) as S. rewrite b2n_n2b in S by lia. rewrite Hp in S.
    cbn [implb] in S. apply andb_true_iff in S. destruct S as [S1 S2]. apply negb_true_iff in S1.
    cbn [app js_alphabet]. rewrite S1, S2. reflexivity. }
  unfold is_scalar in Hs.
  destruct (r <? 65536) eqn:E8; [apply js_u_alpha; lia|].
  cbv zeta. rewrite <- app_assoc, !js_u_alpha by lia. reflexivity.
Qed.

Theorem js_alphabet_ok rs :
  forallb is_scalar rs = true -> js_alphabet (js_escape rs) = true.
Proof.
  induction rs as [|r rs IH]; intros H; [reflexivity|].
  cbn [forallb] in H. apply andb_true_iff in H. destruct H as [Hr Hrs].
  unfold js_escape in *. cbn [flat_map]. rewrite js_tok_alpha by exact Hr. exact (IH Hrs).
Qed.

(* ------------------------------------------------------------------ *)
(* CSS: every token is non-NUL ASCII                                    *)
(* ------------------------------------------------------------------ *)

Lemma alnum_r_lt r : is_alnum_r r = true -> 0 < r /\ r < 128.
Proof. unfold is_alnum_r, btw. lia. Qed.

Lemma css_tok_ascii r : forallb ascii_nz (css_tok r) = true.
Proof.
  unfold css_tok.
  destruct (r =? 13); [reflexivity|]. destruct (r =? 10); [reflexivity|].
  destruct (r =? 9); [reflexivity|]. destruct (r =? 0); [reflexivity|].
  destruct (r =? 32); [reflexivity|].
  destruct (is_alnum_r r) eqn:Hp.
  { apply alnum_r_lt in Hp. cbn [forallb]. unfold ascii_nz. rewrite b2n_n2b by lia. lia. }
  cbn [forallb]. rewrite forallb_app.
  rewrite (forallb_impl _ _ _ lo_hex_ascii (hex_lo_all_lo_hex r)). reflexivity.
Qed.

Lemma css_escape_ascii rs : forallb ascii_nz (css_escape rs) = true.
Proof. apply forallb_flat_map, css_tok_ascii. Qed.

(* ------------------------------------------------------------------ *)
(* CSS: decoder steps                                                   *)
(* ------------------------------------------------------------------ *)

(* inside an escape: the remaining digits, then the terminating space *)
Lemma css_hex_run rest ds : forall acc k v,
  parse_hex_acc acc ds = Some v -> (length ds <= k)%nat ->
  css_run (CsHex acc k) (map b2n ds ++ 32 :: rest) = css_cp v :: css_run CsText rest.
Proof.
  induction ds as [|d ds IH]; intros acc k v Hp Hk.
  - cbn [parse_hex_acc] in Hp. injection Hp as Hp. subst v.
    cbn [map app css_run]. change (hexv 32) with (@None N). change (css_ws 32) with true.
    destruct k; reflexivity.
  - cbn [parse_hex_acc] in Hp. destruct (hex_val d) as [x|] eqn:Hd; [|discriminate].
    cbn [length] in Hk. destruct k as [|k]; [lia|].
    cbn [map app css_run]. rewrite hexv_b2n, Hd. apply IH; [exact Hp|lia].
Qed.

(* a whole escape: backslash, 1..6 hex digits, one space *)
Lemma css_esc_run rest d ds v :
  parse_hex_acc 0 (d :: ds) = Some v -> (length ds <= 5)%nat ->
  css_run CsText (92 :: map b2n (d :: ds) ++ 32 :: rest) = css_cp v :: css_run CsText rest.
Proof.
  intros Hp Hk. cbn [parse_hex_acc] in Hp. destruct (hex_val d) as [x|] eqn:Hd; [|discriminate].
  change (0 * 16 + x) with x in Hp.
  cbn [map app css_run]. change (92 =? 92) with true. cbv iota.
  rewrite hexv_b2n, Hd. apply css_hex_run; assumption.
Qed.

Lemma css_raw_run c rest : (c =? 92) = false -> css_run CsText (c :: rest) = c :: css_run CsText rest.
Proof. intros H. cbn [css_run]. rewrite H. reflexivity. Qed.

Lemma css_cp_scalar r : is_scalar r = true -> r <> 0 -> css_cp r = r.
Proof.
  unfold is_scalar, css_cp, btw. intros Hs Hz.
  replace ((r =? 0) || ((55296 <=? r) && (r <=? 57343)) || (1114111 <? r)) with false by lia.
  reflexivity.
Qed.

(* the token lemma: the tail is arbitrary *)
Lemma css_tok_dec r rest :
  is_scalar r = true -> r <> 0 ->
  css_run CsText (map b2n (css_tok r) ++ rest) = r :: css_run CsText rest.
Proof.
  intros Hs Hz. unfold css_tok.
  destruct (r =? 13) eqn:E1.
  { apply N.eqb_eq in E1. subst r. exact (css_esc_run rest "D"%byte [] 13 eq_refl (Nat.le_0_l _)). }
  destruct (r =? 10) eqn:E2.
  { apply N.eqb_eq in E2. subst r. exact (css_esc_run rest "A"%byte [] 10 eq_refl (Nat.le_0_l _)). }
  destruct (r =? 9) eqn:E3.
  { apply N.eqb_eq in E3. subst r. exact (css_esc_run rest "9"%byte [] 9 eq_refl (Nat.le_0_l _)). }
  destruct (r =? 0) eqn:E4; [lia|].
  destruct (r =? 32) eqn:E5.
  { apply N.eqb_eq in E5. subst r.
    refine (css_esc_run rest "2"%byte ["0"%byte] 32 eq_refl _). cbn [length]. lia. }
  destruct (is_alnum_r r) eqn:Hp.
  { pose proof (alnum_r_lt r Hp) as [Hlo Hhi]. cbn [map app]. rewrite b2n_n2b by lia.
    apply css_raw_run. unfold is_alnum_r, btw in Hp. lia. }
  assert (Hlt : r < 16777216) by (unfold is_scalar in Hs; lia).
  pose proof (parse_hex_acc_hex_lo r Hlt) as Hparse.
  pose proof (hex_lo_length r) as Hlen.
  destruct (hex_lo r) as [|d ds] eqn:Ehl.
  { exfalso. cbn [length] in Hlen.
    repeat match type of Hlen with _ = (if ?c then _ else _) => destruct c end; discriminate. }
  assert (Hds : (length ds <= 5)%nat).
  { cbn [length] in Hlen.
    repeat match type of Hlen with _ = (if ?c then _ else _) => destruct c end; lia. }
  replace (map b2n (BSL :: (d :: ds) ++ [" "%byte]) ++ rest)
    with (92 :: map b2n (d :: ds) ++ 32 :: rest).
  2:{ cbn [map app]. rewrite map_app, <- app_assoc. reflexivity. }
  rewrite (css_esc_run rest d ds r Hparse Hds). rewrite css_cp_scalar by assumption. reflexivity.
Qed.

Theorem css_runes_roundtrip rs :
  forallb is_scalar rs = true -> forallb nonzero rs = true ->
  css_unescape_runes (map b2n (css_escape rs)) = rs.
Proof.
  unfold css_unescape_runes.
  induction rs as [|r rs IH]; intros H Hz; [reflexivity|].
  cbn [forallb] in H, Hz. apply andb_true_iff in H. destruct H as [Hr Hrs].
  apply andb_true_iff in Hz. destruct Hz as [Hrz Hrsz].
  unfold css_escape in *. cbn [flat_map]. rewrite map_app.
  rewrite css_tok_dec; [|exact Hr|unfold nonzero in Hrz; lia].
  rewrite IH by assumption. reflexivity.
Qed.

Theorem css_roundtrip rs :
  forallb is_scalar rs = true -> forallb (fun r => negb (r =? 0)) rs = true ->
  css_unescape (css_escape rs) = rs.
Proof.
  intros H Hz. unfold css_unescape. rewrite utf8_decode_ascii by apply css_escape_ascii.
  apply css_runes_roundtrip; assumption.
Qed.

(* the terminating space makes every escape self-delimiting, whatever follows *)
Theorem css_no_swallow r1 r2 rest :
  is_scalar r1 = true -> r1 <> 0 ->
  css_unescape (css_tok r1 ++ css_escape (r2 :: rest))
  = r1 :: css_unescape (css_escape (r2 :: rest)).
Proof.
  intros Hs Hz. unfold css_unescape, css_unescape_runes.
  assert (Ha : forallb ascii_nz (css_tok r1 ++ css_escape (r2 :: rest)) = true)
    by (rewrite forallb_app, css_tok_ascii, css_escape_ascii; reflexivity).
  rewrite (utf8_decode_ascii _ Ha), (utf8_decode_ascii _ (css_escape_ascii (r2 :: rest))).
  rewrite map_app. apply css_tok_dec; assumption.
Qed.

(* the same for an arbitrary ASCII continuation (e.g. text following the escaped value) *)
Theorem css_no_swallow_any r tail :
  is_scalar r = true -> r <> 0 ->
  css_unescape_runes (map b2n (css_tok r) ++ tail) = r :: css_unescape_runes tail.
Proof. intros Hs Hz. apply css_tok_dec; assumption. Qed.

(* ------------------------------------------------------------------ *)
(* CSS: alphabet                                                        *)
(* ------------------------------------------------------------------ *)

Lemma css_alpha_hex rest ds : forall n,
  forallb is_hex ds = true -> (n + length ds <= 6)%nat -> (0 < n + length ds)%nat ->
  css_alpha (Some n) (ds ++ " "%byte :: rest) = css_alpha None rest.
Proof.
  induction ds as [|d ds IH]; intros n Hh Hle Hpos.
  - cbn [length] in Hpos. destruct n as [|n]; [lia|]. reflexivity.
  - cbn [forallb] in Hh. apply andb_true_iff in Hh. destruct Hh as [Hd Hds].
    cbn [length] in Hle, Hpos. cbn [app css_alpha]. rewrite Hd.
    replace (Nat.ltb n 6) with true by (symmetry; apply Nat.ltb_lt; lia).
    cbn [andb]. apply IH; [exact Hds| cbn; lia | cbn; lia].
Qed.

Lemma css_tok_alpha r rest : css_alpha None (css_tok r ++ rest) = css_alpha None rest.
Proof.
  unfold css_tok.
  destruct (r =? 13); [reflexivity|]. destruct (r =? 10); [reflexivity|].
  destruct (r =? 9); [reflexivity|]. destruct (r =? 0); [reflexivity|].
  destruct (r =? 32); [reflexivity|].
  destruct (is_alnum_r r) eqn:Hp.
  { pose proof (alnum_r_lt r Hp) as [Hlo Hhi].
    pose proof (sweep_css_plain (n2b r)) as S. rewrite b2n_n2b in S by lia. rewrite Hp in S.
    cbn [implb] in S. apply andb_true_iff in S. destruct S as [S1 S2]. apply negb_true_iff in S1.
    cbn [app css_alpha]. rewrite S1, S2. reflexivity. }
  cbn [app css_alpha]. change (beqb BSL x5c) with true. cbv iota.
  rewrite <- app_assoc. cbn [app].
  pose proof (hex_lo_length r) as Hlen.
  apply css_alpha_hex.
  - exact (forallb_impl _ _ _ lo_hex_is_hex (hex_lo_all_lo_hex r)).
  - rewrite Hlen. repeat match goal with |- context [if ?c then _ else _] => destruct c end; cbn; lia.
  - rewrite Hlen. repeat match goal with |- context [if ?c then _ else _] => destruct c end; cbn; lia.
Qed.

Theorem css_alphabet_ok rs :
  forallb is_scalar rs = true -> css_alphabet (css_escape rs) = true.
Proof.
  intros _. unfold css_alphabet.
  induction rs as [|r rs IH]; [reflexivity|].
  unfold css_escape in *. cbn [flat_map]. rewrite css_tok_alpha. exact IH.
Qed.

(* ------------------------------------------------------------------ *)
(* Iteration: n passes decode back with n decoding passes               *)
(* ------------------------------------------------------------------ *)

(* rune view of n escaping passes: each pass reads the runes of the previous
   output, which is ASCII, i.e. its byte values *)
Fixpoint js_layers (n : nat) (rs : list rune) : list rune :=
  match n with O => rs | S k => js_layers k (map b2n (js_escape rs)) end.

Fixpoint js_unescape_n (n : nat) (s : list rune) : option (list rune) :=
  match n with
  | O => Some s
  | S k => match js_unescape_runes s with Some s' => js_unescape_n k s' | None => None end
  end.

Fixpoint css_layers (n : nat) (rs : list rune) : list rune :=
  match n with O => rs | S k => css_layers k (map b2n (css_escape rs)) end.

Fixpoint css_unescape_n (n : nat) (s : list rune) : list rune :=
  match n with O => s | S k => css_unescape_n k (css_unescape_runes s) end.

Lemma js_layers_S n rs : js_layers (S n) rs = map b2n (js_escape (js_layers n rs)).
Proof. revert rs; induction n as [|n IH]; intros rs; [reflexivity|]. cbn [js_layers] in *. rewrite <- IH. reflexivity. Qed.

Lemma css_layers_S n rs : css_layers (S n) rs = map b2n (css_escape (css_layers n rs)).
Proof. revert rs; induction n as [|n IH]; intros rs; [reflexivity|]. cbn [css_layers] in *. rewrite <- IH. reflexivity. Qed.

Lemma js_layers_scalar n rs :
  forallb is_scalar rs = true -> forallb is_scalar (js_layers n rs) = true.
Proof.
  intros H. destruct n as [|n]; [exact H|].
  rewrite js_layers_S. apply ascii_runes_scalar, js_escape_ascii.
Qed.

Theorem js_iter_roundtrip n : forall rs,
  forallb is_scalar rs = true -> js_unescape_n n (js_layers n rs) = Some rs.
Proof.
  induction n as [|n IH]; intros rs H; [reflexivity|].
  rewrite js_layers_S. cbn [js_unescape_n].
  rewrite js_runes_roundtrip by (apply js_layers_scalar, H). apply IH, H.
Qed.

Lemma css_layers_ok n rs :
  forallb is_scalar rs = true -> forallb nonzero rs = true ->
  forallb is_scalar (css_layers n rs) = true /\ forallb nonzero (css_layers n rs) = true.
Proof.
  intros H Hz. destruct n as [|n]; [split; assumption|].
  rewrite css_layers_S. split.
  - apply ascii_runes_scalar, css_escape_ascii.
  - apply ascii_runes_nonzero, css_escape_ascii.
Qed.

Theorem css_iter_roundtrip n : forall rs,
  forallb is_scalar rs = true -> forallb (fun r => negb (r =? 0)) rs = true ->
  css_unescape_n n (css_layers n rs) = rs.
Proof.
  induction n as [|n IH]; intros rs H Hz; [reflexivity|].
  rewrite css_layers_S. cbn [css_unescape_n].
  destruct (css_layers_ok n rs H Hz) as [L1 L2].
  rewrite css_runes_roundtrip by assumption. apply IH; assumption.
Qed.

(* the layers are what the modifiers compute: the runes of the rendered bytes *)
Theorem mod_js_layers itr s :
  utf8_decode (mod_js_escape itr s) = js_layers (Z.to_nat itr) (utf8_decode s).
Proof.
  unfold mod_js_escape. generalize (Z.to_nat itr) as n. intros n. revert s.
  induction n as [|n IH]; intros s; [reflexivity|].
  cbn [repeat_app js_layers]. rewrite IH. unfold js_escape_bytes.
  rewrite utf8_decode_ascii by apply js_escape_ascii. reflexivity.
Qed.

Theorem mod_css_layers itr s :
  utf8_decode (mod_css_escape itr s) = css_layers (Z.to_nat itr) (utf8_decode s).
Proof.
  unfold mod_css_escape. generalize (Z.to_nat itr) as n. intros n. revert s.
  induction n as [|n IH]; intros s; [reflexivity|].
  cbn [repeat_app css_layers]. rewrite IH. unfold css_escape_bytes.
  rewrite utf8_decode_ascii by apply css_escape_ascii. reflexivity.
Qed.

(* ------------------------------------------------------------------ *)
(* Byte level: `range` over any byte string delivers scalar values only *)
(* ------------------------------------------------------------------ *)

Ltac scalar_tail IH :=
  cbn [forallb]; rewrite IH by (cbn [length] in *; lia); rewrite andb_true_r;
  first [reflexivity | unfold is_scalar, btw in *; lia].

Lemma utf8_decode_scalar_aux n : forall s, (length s <= n)%nat ->
  forallb is_scalar (utf8_decode s) = true.
Proof.
  induction n as [|n IH]; intros s Hl.
  { destruct s; [reflexivity|cbn [length] in Hl; lia]. }
  destruct s as [|b0 t0]; [reflexivity|]. cbn [length] in Hl.
  pose proof (b2n_lt b0) as B0.
  cbn [utf8_decode].
  destruct (b2n b0 <? 128) eqn:E0; [scalar_tail IH|].
  destruct (btw 194 223 (b2n b0)) eqn:E1.
  { destruct t0 as [|b1 t1]; [reflexivity|].
    destruct (btw 128 191 (b2n b1)) eqn:E2; scalar_tail IH. }
  destruct (btw 224 239 (b2n b0)) eqn:E2.
  { destruct t0 as [|b1 [|b2 t2]]; [reflexivity|scalar_tail IH|].
    destruct (b2n b0 =? 224) eqn:F1; destruct (b2n b0 =? 237) eqn:F2;
    match goal with |- context [if ?c then _ else _] => destruct c eqn:E3 end; scalar_tail IH. }
  destruct (btw 240 244 (b2n b0)) eqn:E3.
  { destruct t0 as [|b1 [|b2 [|b3 t3]]]; [reflexivity|scalar_tail IH|scalar_tail IH|].
    destruct (b2n b0 =? 240) eqn:F1; destruct (b2n b0 =? 244) eqn:F2;
    match goal with |- context [if ?c then _ else _] => destruct c eqn:E4 end; scalar_tail IH. }
  scalar_tail IH.
Qed.

Theorem utf8_decode_scalar s : forallb is_scalar (utf8_decode s) = true.
Proof. exact (utf8_decode_scalar_aux (length s) s (le_n _)). Qed.

(* byte-level forms: for EVERY input byte string the JS escaper decodes back to
   the runes Go's range loop saw *)
Theorem js_bytes_roundtrip s : js_unescape (js_escape_bytes s) = Some (utf8_decode s).
Proof. apply js_roundtrip, utf8_decode_scalar. Qed.

Theorem js_bytes_alphabet s : js_alphabet (js_escape_bytes s) = true.
Proof. apply js_alphabet_ok, utf8_decode_scalar. Qed.

Theorem css_bytes_alphabet s : css_alphabet (css_escape_bytes s) = true.
Proof. apply css_alphabet_ok, utf8_decode_scalar. Qed.

Theorem mod_js_roundtrip itr s :
  js_unescape_n (Z.to_nat itr) (utf8_decode (mod_js_escape itr s)) = Some (utf8_decode s).
Proof. rewrite mod_js_layers. apply js_iter_roundtrip, utf8_decode_scalar. Qed.

Theorem mod_css_roundtrip itr s :
  forallb (fun r => negb (r =? 0)) (utf8_decode s) = true ->
  css_unescape_n (Z.to_nat itr) (utf8_decode (mod_css_escape itr s)) = utf8_decode s.
Proof. intros Hz. rewrite mod_css_layers. apply css_iter_roundtrip; [apply utf8_decode_scalar|exact Hz]. Qed.

(* NUL is the one value CSS cannot carry: the escaper writes backslash 0 space, which denotes U+FFFD *)
Lemma css_nul_not_representable : css_unescape (css_escape [0]) = [rune_error].
Proof. reflexivity. Qed.
