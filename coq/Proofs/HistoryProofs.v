(* C05 / C18 over histories: sequences of setter / render / reset steps on one context.
   Part A: reset, and what follows a reset in a history.
   Part B: what a render leaves in the bookkeeping fields (include depth, deferred list, pooled
           objects, event log): a frame property of every node, generic in the relation.
   Part C: the event log is never read: a render commutes with a suffix of the log. *)
From Coq Require Import String.
From DT Require Import Model.Bytes Proofs.BytesFacts Model.Value Model.Tree Model.Mods Model.Interp
  Model.VCase Proofs.InterpFacts Proofs.StateFacts Proofs.FaultProofs.
Local Open Scope Z_scope.

(* ================================================================== Part A *)

Lemma reset_then_clear_is_new c : clear_log (ctx_reset (clear_log c)) = ctx_new.
Proof. reflexivity. Qed.

Lemma clear_reset_any c : clear_log (ctx_reset c) = ctx_new.
Proof. reflexivity. Qed.

(* the context a history prefix leaves behind; None: a render left the model (the harness sets
   the rest of the history aside) *)
Fixpoint final_ctx (hc : hcase) (steps : list hstep) (c : ctx) : option ctx :=
  match steps with
  | [] => Some c
  | HSet k v st :: r => final_ctx hc r (ctx_set k v st c)
  | HSetBytes k b :: r => final_ctx hc r (ctx_set_bytes k b c)
  | HSetCounter k n :: r => final_ctx hc r (ctx_set_counter k n c)
  | HReset _ :: r => final_ctx hc r (clear_log (ctx_reset (clear_log c)))
  | HRender t _ _ _ :: r =>
    match render (hc_flits hc) (reg_lookup (hc_reg hc)) (hc_budget hc) 8 t (clear_log c) (wr_new None 0) with
    | Out c1 _ _ => final_ctx hc r c1
    | _ => None
    end
  | HRenderF t fail short _ _ _ :: r =>
    match render (hc_flits hc) (reg_lookup (hc_reg hc)) (hc_budget hc) 8 t (clear_log c) (wr_new (Some fail) short) with
    | Out c1 _ _ => final_ctx hc r c1
    | _ => None
    end
  end.

Lemma check_history_app hc : forall pre rest c,
  check_history hc (pre ++ rest) c =
  check_history hc pre c ++ match final_ctx hc pre c with Some c' => check_history hc rest c' | None => [] end.
Proof.
  induction pre as [|s pre IH]; intros rest c; [reflexivity|].
  destruct s; cbn [app check_history final_ctx]; try apply IH.
  - destruct (render _ _ _ _ _ _ _) as [c1 w1 e1| |]; try reflexivity. cbn [app]. f_equal. apply IH.
  - destruct (render _ _ _ _ _ _ _) as [c1 w1 e1| |]; try reflexivity. cbn [app]. f_equal. apply IH.
  - cbn [app]. f_equal. apply IH.
Qed.

(* the verdict of a reset step on the context the prefix left *)
Definition reset_verdict (c : ctx) (evs : list event) : hverdict :=
  let c1 := ctx_reset (clear_log c) in
  if events_eqb (rev (elog c1)) evs then HOk else HBad EmptyString 0 (length (elog c1)).

(* whatever happened before a reset, the steps after it are judged exactly as on a new context *)
Theorem history_after_reset hc pre evs post c c' :
  final_ctx hc pre c = Some c' ->
  check_history hc (pre ++ HReset evs :: post) c =
  check_history hc pre c ++ [reset_verdict c' evs] ++ check_history hc post ctx_new.
Proof. intros F. rewrite check_history_app, F. reflexivity. Qed.

(* ... and when a render of the prefix is outside the model, nothing after it is judged *)
Theorem history_set_aside hc pre rest c :
  final_ctx hc pre c = None -> check_history hc (pre ++ rest) c = check_history hc pre c.
Proof. intros F. rewrite check_history_app, F, app_nil_r. reflexivity. Qed.

(* the unconditional form is false only for that reason: a tree the model does not describe *)
Definition history_after_reset_full_statement : Prop :=
  forall hc pre evs post c, exists v,
    check_history hc (pre ++ HReset evs :: post) c = check_history hc pre c ++ [v] ++ check_history hc post ctx_new.

Definition t_outside : tree :=
  [NCondOK (mkOk [] [] []) (mkCond [] [] false false OpUnk n_vok [] LcNone) []].

Theorem history_after_reset_refuted : ~ history_after_reset_full_statement.
Proof.
  intros H.
  destruct (H (mkHCase [] [] 10 []) [HRender t_outside [] 0%N []] [] [] ctx_new) as [v E].
  vm_compute in E. discriminate E.
Qed.

(* the state part of the conclusion: after any prefix and a reset, the context IS a new one *)
Theorem final_ctx_after_reset hc pre evs c c' :
  final_ctx hc pre c = Some c' -> final_ctx hc (pre ++ [HReset evs]) c = Some ctx_new.
Proof.
  revert c. induction pre as [|s pre IH]; intros c F.
  - reflexivity.
  - destruct s; cbn [app final_ctx] in *; try (apply IH; exact F);
      (destruct (render _ _ _ _ _ _ _) as [c1 w1 e1| |]; try discriminate F; apply IH, F).
Qed.

(* ================================================================== Part B *)

(* the bookkeeping fields *)
Definition same_frame (c c' : ctx) : Prop :=
  wd c' = wd c /\ dfr c' = dfr c /\ ipv c' = ipv c /\ elog c' = elog c.

Lemma sf_refl c : same_frame c c.
Proof. repeat split. Qed.
Lemma sf_trans a b c : same_frame a b -> same_frame b c -> same_frame a c.
Proof. unfold same_frame. intros (A1&A2&A3&A4) (B1&B2&B3&B4). repeat split; congruence. Qed.

Lemma sf_put_slot k f fresh c : same_frame c (put_slot k f fresh c).
Proof. unfold put_slot. destruct (upd_slot k f (vars c)); repeat split. Qed.
Lemma sf_ctx_set k v st c : same_frame c (ctx_set k v st c).
Proof. apply sf_put_slot. Qed.
Lemma sf_ctx_set_bytes k b c : same_frame c (ctx_set_bytes k b c).
Proof. apply sf_put_slot. Qed.
Lemma sf_ctx_set_counter k n c : same_frame c (ctx_set_counter k n c).
Proof. apply sf_put_slot. Qed.

Lemma sf_get_plain c p : same_frame c (fst (get_plain c p)).
Proof. unfold get_plain. destruct (split_dot p); [repeat split|]. destruct (find_var _ _); repeat split. Qed.

Lemma sf_replace_qb c p : same_frame c (fst (replace_qb c p)).
Proof.
  unfold replace_qb. destruct (index_of _ p 0); [|apply sf_refl]. destruct (index_of _ p 0); [|apply sf_refl].
  destruct (Nat.ltb _ _); [|apply sf_refl].
  pose proof (sf_get_plain c (firstn (n0 - S n) (skipn (S n) p))) as G.
  destruct (get_plain c _) as [c1 v]. cbn [fst] in *.
  destruct v; try exact G; destruct (text_of (bufLC c1) _); try exact G;
    (eapply sf_trans; [exact G|repeat split]).
Qed.

Lemma sf_ctx_get c p : same_frame c (fst (ctx_get c p)).
Proof.
  unfold ctx_get. destruct (chQB c); [|apply sf_get_plain].
  pose proof (sf_replace_qb (set_cerr None c) p) as Q.
  destruct (replace_qb (set_cerr None c) p) as [c1 p1]. cbn [fst] in Q.
  assert (G : same_frame c (fst (let e := cerr c1 in let (c2, v) := get_plain c1 p1 in (set_cerr e c2, v)))).
  { cbv zeta. pose proof (sf_get_plain c1 p1) as G. destruct (get_plain c1 p1) as [c2 v]. cbn [fst] in *.
    eapply sf_trans; [exact Q|]. eapply sf_trans; [exact G|repeat split]. }
  destruct (cerr c1); [destruct p1; [exact Q|exact G]|exact G].
Qed.

Lemma sf_ctx_cmp flits c p o l : same_frame c (fst (ctx_cmp flits c p o l)).
Proof.
  unfold ctx_cmp. destruct (split_dot p); [apply sf_refl|]. destruct (find_var _ _); [|apply sf_refl].
  destruct (leaf_cmp _ _ _ _ _ _); repeat split.
Qed.

Lemma sf_ctx_cmp_lc c m p o l : same_frame c (fst (ctx_cmp_lc c m p o l)).
Proof.
  unfold ctx_cmp_lc.
  assert (Q : same_frame c (fst (if chQB (set_cerr None c) then replace_qb (set_cerr None c) p else (set_cerr None c, p)))).
  { destruct (chQB (set_cerr None c)); [|repeat split]. eapply sf_trans; [|apply sf_replace_qb]. repeat split. }
  destruct (if chQB (set_cerr None c) then replace_qb (set_cerr None c) p else (set_cerr None c, p)) as [c1 p1].
  cbn [fst] in Q. destruct (split_dot p1); [exact Q|]. destruct (find_var _ _); [|exact Q].
  destruct m; [exact Q| |];
    (destruct (match leaf_len _ with Some n => Some n | None => _ end);
     [destruct (option_map _ _)|]; (eapply sf_trans; [exact Q|repeat split])).
Qed.

Lemma sf_node_cmp flits c l r sl sr o : same_frame c (fst (fst (node_cmp flits c l r sl sr o))).
Proof.
  unfold node_cmp. destruct (sl && sr); [apply sf_refl|].
  destruct sr.
  { pose proof (sf_ctx_cmp flits c l o r) as G. destruct (ctx_cmp flits c l o r). exact G. }
  destruct sl.
  { pose proof (sf_ctx_cmp flits c r (op_swap o) l) as G. destruct (ctx_cmp flits c r (op_swap o) l). exact G. }
  pose proof (sf_ctx_get c r) as G. destruct (ctx_get c r) as [c1 v]. cbn [fst] in G.
  destruct (cerr c1); [exact G|]. destruct (text_of _ _); [|exact G].
  pose proof (sf_ctx_cmp flits c1 l o b) as G2. destruct (ctx_cmp flits c1 l o b). cbn [fst] in *.
  eapply sf_trans; eassumption.
Qed.

Lemma sf_collect_args : forall args c, same_frame c (fst (collect_args c args)).
Proof.
  induction args as [|a r IH]; intros c; [apply sf_refl|]. cbn [collect_args].
  destruct (a_static a).
  - specialize (IH c). destruct (collect_args c r) as [c2 vs]. exact IH.
  - pose proof (sf_ctx_get c (a_val a)) as G. destruct (ctx_get c (a_val a)) as [c1 v]. cbn [fst] in G.
    specialize (IH c1). destruct (collect_args c1 r) as [c2 vs]. cbn [fst] in *. eapply sf_trans; eassumption.
Qed.

Lemma sf_cloop_range c st b : same_frame c (fst (cloop_range c st b)).
Proof.
  unfold cloop_range. destruct st; [destruct (parse_Z b); repeat split|].
  pose proof (sf_ctx_get c b) as G. destruct (ctx_get c b) as [c1 v]. cbn [fst] in G.
  destruct (cerr c1); [exact G|]. destruct (if2int _ _); [exact G|]. eapply sf_trans; [exact G|repeat split].
Qed.

Section Frame.
  (* a relation between the context a node starts from and the one it leaves *)
  Variable R : ctx -> ctx -> Prop.
  Hypothesis Rrefl : forall c, R c c.
  Hypothesis Rtrans : forall a b c, R a b -> R b c -> R a c.
  Hypothesis Rsame : forall c c', same_frame c c' -> R c c'.
  Hypothesis Rdefer : forall c t, R c (log_ev (EvDefer t) (set_dfr (dfr c ++ [t]) c)).
  Hypothesis Racq : forall c p n, R c (log_ev (EvAcquire p n) (set_ipv (ipv c ++ [p]) c)).

  Definition OutR (c : ctx) (o : outcome) : Prop := match o with Out c' _ _ => R c c' | _ => True end.
  Definition ItR (c : ctx) (r : iterres) : Prop :=
    match r with ItNext c' _ | ItStop c' _ | ItAbort c' _ _ => R c c' | _ => True end.

  Lemma OutR_trans c c1 o : R c c1 -> OutR c1 o -> OutR c o.
  Proof. intros H. destruct o; cbn; try exact (fun x => x). apply Rtrans, H. Qed.
  Lemma OutR_sf c c1 o : same_frame c c1 -> OutR c1 o -> OutR c o.
  Proof. intros H. apply OutR_trans, Rsame, H. Qed.
  Lemma ItR_trans c c1 r : R c c1 -> ItR c1 r -> ItR c r.
  Proof. intros H. destruct r; cbn; try exact (fun x => x); apply Rtrans, H. Qed.

  Lemma run_mods_R : forall mods n c v, match run_mods n c mods v with ChOk c2 _ => R c c2 | ChUnsupported => True end.
  Proof.
    induction mods as [|m r IH]; intros n c v; cbn [run_mods]; [apply Rrefl|].
    pose proof (sf_collect_args (m_args m) c) as G. destruct (collect_args c (m_args m)) as [c1 args]. cbn [fst] in G.
    destruct (existsb a_global (m_args m)); [exact I|].
    assert (K : forall c2 v2, R c1 c2 ->
              match run_mods n (set_cerr None c2) r v2 with ChOk c3 _ => R c c3 | ChUnsupported => True end).
    { intros c2 v2 H. specialize (IH n (set_cerr None c2) v2). destruct (run_mods n (set_cerr None c2) r v2); [|exact I].
      eapply Rtrans; [apply Rsame, G|]. eapply Rtrans; [exact H|]. eapply Rtrans; [|exact IH]. apply Rsame. repeat split. }
    assert (E : forall c2, R c1 c2 -> forall x, R c (set_cerr (Some x) c2)).
    { intros c2 H x. eapply Rtrans; [apply Rsame, G|]. eapply Rtrans; [exact H|]. apply Rsame. repeat split. }
    unfold apply_mod. destruct (pure_mod (bufLC c1) (m_id m) v args).
    - apply K, Rrefl.
    - apply E, Rrefl.
    - destruct (name_is (m_id m) n_vdefer).
      { destruct args; [apply E, Rrefl|apply K, Rdefer]. }
      destruct (name_is (m_id m) n_vacquire).
      { destruct args; [apply E, Rrefl|apply K, Racq]. }
      destruct (name_is (m_id m) n_vfail); [apply E, Rrefl|exact I].
  Qed.

  Section WalkR.
    Variable f : node -> ctx -> wr -> outcome.
    Definition NodeR (n : node) : Prop := forall c w, OutR c (f n c w).

    Lemma walk_R l : Forall NodeR l -> forall c w lazy, OutR c (walk_with f l c w lazy).
    Proof.
      induction 1 as [|ch r Hch Hr IH]; intros c w lazy; cbn [walk_with]; [apply Rrefl|].
      specialize (Hch c w). destruct (f ch c w) as [c1 w1 e| |]; [|exact I|exact I]. cbn [OutR] in Hch.
      destruct e as [[]|]; try exact Hch; eapply OutR_trans; try exact Hch; apply IH.
    Qed.

    Lemma body_R l : Forall NodeR l -> forall c w lazy, ItR c (body_with f l c w lazy).
    Proof.
      induction 1 as [|ch r Hch Hr IH]; intros c w lazy; cbn [body_with]; [destruct lazy; apply Rrefl|].
      specialize (Hch c w). destruct (f ch c w) as [c1 w1 e| |]; [|exact I|exact I]. cbn [OutR] in Hch.
      destruct e as [[]|]; try exact Hch; try (destruct lazy; exact Hch); eapply ItR_trans; try exact Hch; apply IH.
    Qed.

    Lemma else_R l : Forall NodeR l -> forall c w, OutR c (else_with f l c w).
    Proof.
      induction 1 as [|ch r Hch Hr IH]; intros c w; cbn [else_with]; [apply Rrefl|].
      specialize (Hch c w). destruct (f ch c w) as [c1 w1 e| |]; [|exact I|exact I]. cbn [OutR] in Hch.
      destruct e as [e|].
      - cbn [OutR]. eapply Rtrans; [exact Hch|apply Rsame; repeat split].
      - eapply OutR_trans; [exact Hch|]. eapply OutR_sf; [|apply IH]. repeat split.
    Qed.

    Lemma default_R l : Forall NodeR l -> forall c w, OutR c (default_with f l c w).
    Proof.
      induction 1 as [|ch r Hch Hr IH]; intros c w; cbn [default_with]; [apply Rrefl|].
      destruct ch; try apply IH. destruct k; try apply IH. apply Hch.
    Qed.

    Lemma cases_R hit chk all l :
      (forall ki c, same_frame c (fst (fst (hit ki c)))) ->
      Forall NodeR all -> Forall NodeR l -> forall c w, OutR c (cases_with f hit chk all l c w).
    Proof.
      intros Hhit Hall. induction 1 as [|ch r Hch Hr IH]; intros c w; cbn [cases_with].
      - apply default_R, Hall.
      - destruct ch; try apply IH. destruct k; try apply IH.
        pose proof (Hhit ci c) as G. destruct (hit ci c) as [[c1 h] e]. cbn [fst] in G.
        destruct e; [apply Rsame, G|]. destruct (if chk then cerr c1 else None); [apply Rsame, G|].
        eapply OutR_sf; [exact G|]. destruct h; [apply Hch|apply IH].
    Qed.
  End WalkR.

  Section LoopsR.
    Variable bodyf : ctx -> wr -> iterres.
    Variable elsef : ctx -> wr -> outcome.
    Hypothesis Hbody : forall c w, ItR c (bodyf c w).
    Hypothesis Helse : forall c w, OutR c (elsef c w).

    Lemma cloop_finish_R has_else cnt idx saved c w trips :
      OutR c (cloop_finish elsef has_else cnt idx saved c w trips).
    Proof.
      unfold cloop_finish.
      set (c1 := if 0 <? brkD c then set_brkD (brkD c - 1) c else c).
      assert (S1 : same_frame c c1) by (unfold c1; destruct (0 <? brkD c); repeat split).
      set (c2 := match trips with O => c1 | S _ => ctx_set_static cnt (VCell idx) c1 end).
      assert (S2 : same_frame c c2).
      { unfold c2. destruct trips; [exact S1|]. eapply sf_trans; [exact S1|apply sf_ctx_set]. }
      assert (FIN : OutR c (Out (set_brkD (Z.max (brkD c2) saved) c2) w (cerr c2))).
      { cbn [OutR]. apply Rsame. eapply sf_trans; [exact S2|repeat split]. }
      destruct trips; [destruct has_else|]; try exact FIN.
      pose proof (Helse c2 w) as E. destruct (elsef c2 w) as [c' w' e'| |]; try exact I.
      cbn [OutR] in *. eapply Rtrans; [apply Rsame, S2|]. eapply Rtrans; [exact E|apply Rsame; repeat split].
    Qed.

    Lemma cloop_step_sf cntOp idx c cur c' nxt : cloop_step cntOp idx c cur = Some (c', nxt) -> same_frame c c'.
    Proof. unfold cloop_step. destruct cntOp; intros E; inversion E; repeat split. Qed.

    Lemma cloop_iter_R has_else cnt sep condOp cntOp limv idx saved fuel :
      forall c w trips cur, OutR c (cloop_iter bodyf elsef has_else cnt sep condOp cntOp limv idx saved fuel c w trips cur).
    Proof.
      induction fuel as [|fuel IH]; intros c w trips cur; cbn [cloop_iter];
        (destruct (cloop_allows condOp cur limv) as [allow|];
         [|eapply OutR_sf; [|apply cloop_finish_R]; repeat split]);
        (destruct (allow && (brkD c =? 0)); [|apply cloop_finish_R]); [exact I|].
      set (ca := ctx_set_static cnt (VCell idx) c).
      assert (Sa : same_frame c ca) by apply sf_ctx_set.
      destruct (match trips, sep with
                | O, _ | _, [] => (w, None)
                | _, _ => let (w', ok) := wr_write w (region_text ca sep) in (w', if ok then None else Some EWriter)
                end) as [w1 sepe].
      destruct sepe; [cbn [OutR]; apply Rsame; eapply sf_trans; [exact Sa|repeat split]|].
      pose proof (Hbody (set_chQB true ca) w1) as B.
      assert (Sq : same_frame c (set_chQB true ca)) by (eapply sf_trans; [exact Sa|repeat split]).
      destruct (bodyf (set_chQB true ca) w1) as [c' w'|c' w'|c' w' e| |]; cbn [ItR] in B; try exact I.
      - destruct (cloop_step cntOp idx (set_chQB (chQB ca) (set_cerr None c')) cur) as [[c'' nxt]|] eqn:ST; [|exact I].
        eapply OutR_trans; [|apply IH].
        eapply Rtrans; [apply Rsame, Sq|]. eapply Rtrans; [exact B|]. apply Rsame.
        eapply sf_trans; [|exact (cloop_step_sf _ _ _ _ _ _ ST)]. repeat split.
      - destruct (cloop_step cntOp idx (set_chQB (chQB ca) (set_cerr None c')) cur) as [[c'' nxt]|] eqn:ST.
        + eapply OutR_trans; [|apply cloop_finish_R].
          eapply Rtrans; [apply Rsame, Sq|]. eapply Rtrans; [exact B|]. apply Rsame.
          eapply sf_trans; [|exact (cloop_step_sf _ _ _ _ _ _ ST)]. repeat split.
        + eapply OutR_trans; [|apply cloop_finish_R].
          eapply Rtrans; [apply Rsame, Sq|]. eapply Rtrans; [exact B|]. apply Rsame. repeat split.
      - cbn [OutR]. eapply Rtrans; [apply Rsame, Sq|]. eapply Rtrans; [exact B|]. apply Rsame. repeat split.
    Qed.

    Lemma rloop_finish_R has_else saved c w calls : OutR c (rloop_finish elsef has_else saved c w calls).
    Proof.
      unfold rloop_finish.
      set (c1 := if 0 <? brkD c then set_brkD (brkD c - 1) c else c).
      assert (S1 : same_frame c c1) by (unfold c1; destruct (0 <? brkD c); repeat split).
      assert (FIN : OutR c (Out (set_brkD (Z.max (brkD c1) saved) (set_cerr None c1)) w None)).
      { cbn [OutR]. apply Rsame. eapply sf_trans; [exact S1|repeat split]. }
      destruct calls; [destruct has_else|]; try exact FIN.
      pose proof (Helse (set_cerr None c1) w) as E. destruct (elsef (set_cerr None c1) w) as [c' w' e'| |]; try exact I.
      cbn [OutR] in *. apply (Rtrans _ (set_cerr None c1)); [apply Rsame; eapply sf_trans; [exact S1|repeat split]|].
      eapply Rtrans; [exact E|apply Rsame; repeat split].
    Qed.

    Lemma rloop_each_R has_else key val sep saved els :
      forall c w calls trips, OutR c (rloop_each bodyf elsef has_else key val sep saved els c w calls trips).
    Proof.
      induction els as [|[kb ev] r IH]; intros c w calls trips; cbn [rloop_each]; [apply rloop_finish_R|].
      match goal with |- context [0 <? brkD ?c0] => set (cc := c0) end.
      assert (Sc : same_frame c cc).
      { unfold cc. eapply sf_trans; [|apply sf_ctx_set]. destruct key; [apply sf_refl|]. destruct kb; [apply sf_ctx_set|apply sf_ctx_set_bytes]. }
      destruct (0 <? brkD cc); [eapply OutR_sf; [exact Sc|apply rloop_finish_R]|].
      destruct (match trips, sep with
                | O, _ | _, [] => (w, None)
                | _, _ => let (w', ok) := wr_write w (region_text cc sep) in (w', if ok then None else Some EWriter)
                end) as [w1 sepe].
      destruct sepe; [cbn [OutR]; apply Rsame; eapply sf_trans; [exact Sc|repeat split]|].
      pose proof (Hbody cc w1) as B. destruct (bodyf cc w1) as [c' w'|c' w'|c' w' e| |]; cbn [ItR] in B; try exact I.
      - eapply OutR_trans; [|apply IH]. eapply Rtrans; [apply Rsame, Sc|exact B].
      - eapply OutR_trans; [|apply rloop_finish_R]. eapply Rtrans; [apply Rsame, Sc|exact B].
      - cbn [OutR]. eapply Rtrans; [apply Rsame, Sc|]. eapply Rtrans; [exact B|apply Rsame; repeat split].
    Qed.
  End LoopsR.

  Section NodeR.
    Variable flits : list (bytes * Z).
    Variable lookup : list bytes -> option tree.
    Variable budget : nat.
    Variable inc : tree -> ctx -> option (ctx * bytes * option err).
    Hypothesis Hinc : forall t c c' o e, inc t c = Some (c', o, e) -> R c c'.
    Notation wn := (write_node flits lookup budget inc).
    Notation rn := (run_nodes flits lookup budget inc).

    Ltac brkR :=
      match goal with
      | |- OutR _ (match ?x with _ => _ end) => destruct x eqn:?
      | |- OutR _ (if ?x then _ else _) => destruct x eqn:?
      end.
    Ltac sfin := cbn [OutR]; apply Rsame; repeat split.

    Lemma write_value_R c w t pfx sfx noesc : OutR c (write_value c w t pfx sfx noesc).
    Proof.
      unfold write_value.
      destruct (match pfx with [] => (w, None) | _ :: _ => write_raw c w pfx end) as [w1 [e1|]]; [apply Rrefl|].
      destruct (if noesc then let (w', ok) := wr_write w1 t in (w', if ok then None else Some EWriter) else write_raw c w1 t)
        as [w2 [e2|]]; [apply Rrefl|].
      destruct sfx; [apply Rrefl|]. destruct (write_raw c w2 (b :: sfx)). apply Rrefl.
    Qed.

    Lemma hit_classic_sf arg ki c : same_frame c (fst (fst (hit_classic flits arg ki c))).
    Proof.
      unfold hit_classic. destruct (kSL ki).
      { pose proof (sf_ctx_cmp flits c arg OpEq (kL ki)) as G. destruct (ctx_cmp flits c arg OpEq (kL ki)). exact G. }
      pose proof (sf_ctx_get c (kL ki)) as G. destruct (ctx_get c (kL ki)) as [c1 v]. cbn [fst] in G.
      destruct (cerr c1); [exact G|]. destruct (text_of _ _); [|exact G].
      pose proof (sf_ctx_cmp flits c1 arg OpEq b) as G2. destruct (ctx_cmp flits c1 arg OpEq b). cbn [fst] in *.
      eapply sf_trans; eassumption.
    Qed.

    Lemma hit_free_sf ki c : same_frame c (fst (fst (hit_free flits ki c))).
    Proof.
      unfold hit_free. destruct (kHlp ki); [apply sf_node_cmp|].
      destruct (cond_known _); [|apply sf_refl].
      pose proof (sf_collect_args (kHlpArg ki) c) as G. destruct (collect_args c (kHlpArg ki)). exact G.
    Qed.

    Lemma node_R : forall n, NodeR wn n.
    Proof.
      apply node_deep_ind. intros n IH c w.
      assert (S0 : same_frame c (set_cerr None c)) by (repeat split).
      destruct n; cbn [children] in IH; cbn [write_node].
      - (* NRaw *) destruct (write_raw (set_cerr None c) w raw). sfin.
      - (* NTpl *)
        pose proof (sf_ctx_get (set_cerr None c) raw) as G. destruct (ctx_get (set_cerr None c) raw) as [c1 v]. cbn [fst] in G.
        destruct (cerr c1); [cbn [OutR]; apply Rsame; exact G|].
        pose proof (run_mods_R mods (w_n w) c1 v) as M. destruct (run_mods (w_n w) c1 mods v) as [c2 v2|]; [|exact I].
        assert (R2 : R c c2) by (eapply Rtrans; [apply Rsame; exact G|exact M]).
        destruct (cerr c2); [cbn [OutR]; eapply Rtrans; [exact R2|apply Rsame; repeat split]|].
        destruct v2; try exact R2; (destruct (text_of (bufLC c2) _) as [[|b0 t0]|]; try exact R2);
          (eapply OutR_trans; [exact R2|apply write_value_R]).
      - (* NCond *)
        pose proof (Deep_Forall _ _ IH) as IH'.
        assert (TK : forall c1 (r : bool) (e : option err), same_frame c c1 ->
                  OutR c (match cerr c1 with
                          | Some x => Out c1 w (Some x)
                          | None => if r then match child with ch :: _ => wn ch c1 w | [] => Out c1 w e end
                                    else match child with _ :: ch :: _ => wn ch c1 w | _ => Out c1 w e end
                          end)).
        { intros c1 r e G. destruct (cerr c1); [apply Rsame, G|].
          destruct child as [|ch1 [|ch2 rest]];
            repeat match goal with H : Forall _ (_ :: _) |- _ => inversion H; clear H; subst end;
            destruct r; try (apply Rsame, G); (eapply OutR_sf; [exact G|]);
            match goal with H : NodeR _ ?ch |- OutR _ (wn ?ch _ _) => apply H end. }
        destruct (cHlp c0).
        + pose proof (sf_node_cmp flits (set_cerr None c) (cL c0) (cR c0) (cSL c0) (cSR c0) (cOp c0)) as G.
          destruct (node_cmp flits (set_cerr None c) (cL c0) (cR c0) (cSL c0) (cSR c0) (cOp c0)) as [[c1 b] e]. cbn [fst] in G.
          apply TK. exact G.
        + destruct (cLC c0).
          * destruct (cond_known _); [|sfin].
            pose proof (sf_collect_args (cHlpArg c0) (set_cerr None c)) as G.
            destruct (collect_args (set_cerr None c) (cHlpArg c0)) as [c1 args]. cbn [fst] in G.
            apply TK. exact G.
          * destruct (cHlpArg c0); [sfin|].
            pose proof (sf_ctx_cmp_lc (set_cerr None c) LcLen (a_val t) (cOp c0) (cR c0)) as G.
            destruct (ctx_cmp_lc (set_cerr None c) LcLen (a_val t) (cOp c0) (cR c0)) as [c1 b']. cbn [fst] in G.
            apply TK. exact G.
          * destruct (cHlpArg c0); [sfin|].
            pose proof (sf_ctx_cmp_lc (set_cerr None c) LcCap (a_val t) (cOp c0) (cR c0)) as G.
            destruct (ctx_cmp_lc (set_cerr None c) LcCap (a_val t) (cOp c0) (cR c0)) as [c1 b']. cbn [fst] in G.
            apply TK. exact G.
      - (* NCondOK *)
        pose proof (Deep_Forall _ _ IH) as IH'.
        destruct (cHlp c0); [sfin|]. destruct (bytes_eqb _ n_vok); [|sfin]. destruct (bytes_eqb _ n_static); [|exact I].
        pose proof (sf_collect_args (cHlpArg c0) (set_cerr None c)) as G.
        destruct (collect_args (set_cerr None c) (cHlpArg c0)) as [c1 args]. cbn [fst] in G.
        destruct (vok_result (bufLC c1) args) as [v okb].
        set (c2 := set_bufB okb (ctx_set_static (oR k) (VBool okb) (ctx_set (oL k) v true c1))).
        assert (S2 : same_frame c c2).
        { unfold c2. eapply sf_trans; [exact S0|]. eapply sf_trans; [exact G|].
          eapply sf_trans; [apply sf_ctx_set|]. eapply sf_trans; [apply sf_ctx_set|repeat split]. }
        assert (S3 : same_frame c (fst (fst (match cR c0 with
                                               | [] => (c2, okb, None)
                                               | _ :: _ => node_cmp flits c2 (cL c0) (cR c0) (cSL c0) (cSR c0) (cOp c0)
                                               end)))).
        { destruct (cR c0); [exact S2|]. eapply sf_trans; [exact S2|apply sf_node_cmp]. }
        destruct (match cR c0 with [] => (c2, okb, None) | _ :: _ => node_cmp flits c2 (cL c0) (cR c0) (cSL c0) (cSR c0) (cOp c0) end)
          as [[c3 r] e]. cbn [fst] in S3.
        destruct child as [|ch1 [|ch2 rest]];
          repeat match goal with H : Forall _ (_ :: _) |- _ => inversion H; clear H; subst end;
          destruct r; try (apply Rsame, S3); (eapply OutR_sf; [exact S3|]);
          match goal with H : NodeR _ ?ch |- OutR _ (wn ?ch _ _) => apply H end.
      - (* NBlock *) eapply OutR_sf; [exact S0|]. apply walk_R, Deep_Forall, IH.
      - (* NLoopRange *)
        pose proof (deep_loop_body _ _ IH) as Hb. pose proof (deep_loop_else _ _ IH) as He.
        set (cz := set_brkD 0 (set_cerr None c)).
        assert (Sz : same_frame c cz) by (repeat split).
        destruct (split_dot src) as [|k rest]; [sfin|].
        destruct (find_var k _) as [s|].
        + destruct (if s_static s then _ else _) as [els|]; [|exact I].
          eapply OutR_sf; [exact Sz|].
          apply rloop_each_R; [intros; apply body_R; assumption|intros; apply else_R; assumption].
        + destruct (loop_has_else child); [|sfin].
          pose proof (else_R wn _ He cz w) as E. destruct (else_with wn _ cz w) as [c' w' e'| |]; try exact I.
          cbn [OutR] in *. eapply Rtrans; [apply Rsame, Sz|]. eapply Rtrans; [exact E|apply Rsame; repeat split].
      - (* NLoopCount *)
        pose proof (deep_loop_body _ _ IH) as Hb. pose proof (deep_loop_else _ _ IH) as He.
        set (cz := set_brkD 0 (set_cerr None c)).
        assert (Sz : same_frame c cz) by (repeat split).
        pose proof (sf_cloop_range cz initS init) as G1. destruct (cloop_range cz initS init) as [c1 v0]. cbn [fst] in G1.
        destruct (cerr c1); [cbn [OutR]; apply Rsame; eapply sf_trans; [exact Sz|]; eapply sf_trans; [exact G1|repeat split]|].
        pose proof (sf_cloop_range c1 limS lim) as G2. destruct (cloop_range c1 limS lim) as [c2 limv]. cbn [fst] in G2.
        assert (S2 : same_frame c c2) by (eapply sf_trans; [exact Sz|]; eapply sf_trans; eassumption).
        destruct (cerr c2); [cbn [OutR]; apply Rsame; eapply sf_trans; [exact S2|repeat split]|].
        eapply OutR_sf; [eapply sf_trans; [exact S2|]|
                         apply cloop_iter_R; [intros; apply body_R; assumption|intros; apply else_R; assumption]].
        repeat split.
      - sfin.
      - sfin.
      - sfin.
      - (* NCtx *)
        destruct srcStatic; [cbn [OutR]; apply Rsame; eapply sf_trans; [exact S0|apply sf_ctx_set_bytes]|].
        pose proof (sf_ctx_get (set_cerr None c) src) as G. destruct (ctx_get (set_cerr None c) src) as [c1 v]. cbn [fst] in G.
        destruct (cerr c1); [cbn [OutR]; apply Rsame; exact G|].
        pose proof (run_mods_R mods (w_n w) c1 v) as M. destruct (run_mods (w_n w) c1 mods v) as [c2 v2|]; [|exact I].
        assert (R2 : R c c2) by (eapply Rtrans; [apply Rsame; exact G|exact M]).
        destruct (cerr c2); [exact R2|].
        set (c3 := match ok with [] => c2 | _ :: _ => ctx_set_static ok (VBool (negb (is_void v2))) c2 end).
        assert (R3 : R c c3).
        { unfold c3. destruct ok; [exact R2|]. eapply Rtrans; [exact R2|apply Rsame, sf_ctx_set]. }
        destruct (is_void v2); [exact R3|].
        assert (K1 : forall b, R c (ctx_set_bytes var b c3)) by (intros; eapply Rtrans; [exact R3|apply Rsame, sf_ctx_set_bytes]).
        assert (K2 : forall n, R c (ctx_set_counter var n c3)) by (intros; eapply Rtrans; [exact R3|apply Rsame, sf_ctx_set_counter]).
        assert (K3 : forall v st, R c (ctx_set var v st c3)) by (intros; eapply Rtrans; [exact R3|apply Rsame, sf_ctx_set]).
        destruct (conv_bytes v2) as [[|b0 b]|]; try apply K1; destruct v2; cbn [OutR]; first [apply K2|apply K3].
      - (* NCounter *)
        destruct initF; [cbn [OutR]; apply Rsame; eapply sf_trans; [exact S0|apply sf_ctx_set_counter]|].
        pose proof (sf_ctx_get (set_cerr None c) var) as G. destruct (ctx_get (set_cerr None c) var) as [c1 v]. cbn [fst] in G.
        destruct (cerr c1); cbn [OutR]; apply Rsame; (eapply sf_trans; [exact S0|]);
          [exact G|eapply sf_trans; [exact G|apply sf_ctx_set_counter]].
      - (* NSwitch *)
        pose proof (Deep_Forall _ _ IH) as IH'.
        eapply OutR_sf; [exact S0|].
        destruct arg; apply cases_R; try assumption; intros; first [apply hit_free_sf|apply hit_classic_sf].
      - (* NFlag *) cbn [OutR]. apply Rsame. destruct f; repeat split.
      - (* NInclude *)
        destruct (lookup tpls) as [t|]; [|sfin].
        destruct (inc t (set_cerr None c)) as [[[c1 out] [e|]]|] eqn:EI; [| |exact I].
        + cbn [OutR]. eapply Rtrans; [apply Rsame, S0|exact (Hinc _ _ _ _ _ EI)].
        + destruct (wr_write w out). cbn [OutR]. eapply Rtrans; [apply Rsame, S0|exact (Hinc _ _ _ _ _ EI)].
      - sfin.
      - sfin.
    Qed.

    Lemma run_nodes_R : forall l c w, OutR c (rn l c w).
    Proof.
      induction l as [|n r IH]; intros c w; cbn [run_nodes]; [apply Rrefl|].
      pose proof (node_R n c w) as H. destruct (wn n c w) as [c1 w1 [e|]| |]; try exact H; try exact I.
      eapply OutR_trans; [exact H|apply IH].
    Qed.
  End NodeR.
End Frame.

(* ------------------------------------------------------------------ the frame of a render *)

(* events are logged most recent first *)
Definition defers (evs : list event) : list bytes :=
  flat_map (fun e => match e with EvDefer t => [t] | _ => [] end) (rev evs).
Definition acquires (evs : list event) : list bytes :=
  flat_map (fun e => match e with EvAcquire p _ => [p] | _ => [] end) (rev evs).
Definition no_run (evs : list event) : Prop :=
  forallb (fun e => match e with EvRun _ _ => false | _ => true end) evs = true.

(* what evaluation below the outermost template does to the bookkeeping: the include depth is
   restored, events are only added and none of them is a deferred function running, the deferred
   list and the pooled objects grow by exactly what the new events say *)
Definition Frame (c c' : ctx) : Prop :=
  wd c' = wd c /\
  exists evs, elog c' = evs ++ elog c /\ no_run evs /\
              dfr c' = dfr c ++ defers evs /\ ipv c' = ipv c ++ acquires evs.

Definition FrameIn (c c' : ctx) : Prop := (0 < wd c)%nat -> Frame c c'.

Lemma defers_app a b : defers (a ++ b) = defers b ++ defers a.
Proof. unfold defers. rewrite rev_app_distr, flat_map_app. reflexivity. Qed.
Lemma acquires_app a b : acquires (a ++ b) = acquires b ++ acquires a.
Proof. unfold acquires. rewrite rev_app_distr, flat_map_app. reflexivity. Qed.

Lemma Frame_refl c : Frame c c.
Proof. split; [reflexivity|]. exists []. cbn. rewrite !app_nil_r. repeat split. Qed.

Lemma Frame_trans a b c : Frame a b -> Frame b c -> Frame a c.
Proof.
  intros (W1 & e1 & L1 & N1 & D1 & P1) (W2 & e2 & L2 & N2 & D2 & P2). split; [congruence|].
  exists (e2 ++ e1). rewrite L2, L1, D2, D1, P2, P1, defers_app, acquires_app, <- !app_assoc.
  repeat split. unfold no_run in *. rewrite forallb_app, N1, N2. reflexivity.
Qed.

Lemma Frame_same c c' : same_frame c c' -> Frame c c'.
Proof.
  intros (W & D & P & L). split; [exact W|]. exists []. cbn. rewrite !app_nil_r. repeat split; assumption.
Qed.

Lemma FrameIn_refl c : FrameIn c c. Proof. intros _. apply Frame_refl. Qed.
Lemma FrameIn_trans a b c : FrameIn a b -> FrameIn b c -> FrameIn a c.
Proof.
  intros H1 H2 W. specialize (H1 W). apply (Frame_trans _ _ _ H1), H2. destruct H1 as [E _]. rewrite E. exact W.
Qed.
Lemma FrameIn_same c c' : same_frame c c' -> FrameIn c c'.
Proof. intros H _. apply Frame_same, H. Qed.
Lemma FrameIn_defer c t : FrameIn c (log_ev (EvDefer t) (set_dfr (dfr c ++ [t]) c)).
Proof. intros _. split; [reflexivity|]. exists [EvDefer t]. cbn. rewrite app_nil_r. repeat split. Qed.
Lemma FrameIn_acq c p n : FrameIn c (log_ev (EvAcquire p n) (set_ipv (ipv c ++ [p]) c)).
Proof. intros _. split; [reflexivity|]. exists [EvAcquire p n]. cbn. rewrite app_nil_r. repeat split. Qed.

Lemma run_deferred_fields c n : wd (run_deferred c n) = wd c /\ ipv (run_deferred c n) = ipv c.
Proof.
  unfold run_deferred. cbn [wd ipv set_dfr].
  assert (G : forall l c0, wd (fold_left (fun c t => log_ev (EvRun t n) c) l c0) = wd c0 /\
                           ipv (fold_left (fun c t => log_ev (EvRun t n) c) l c0) = ipv c0).
  { induction l as [|t l IH]; intros c0; [split; reflexivity|].
    cbn [fold_left]. destruct (IH (log_ev (EvRun t n) c0)) as [H1 H2]. split; [exact H1|exact H2]. }
  apply G.
Qed.

Section FrameTpl.
  Variable flits : list (bytes * Z).
  Variable lookup : list bytes -> option tree.
  Variable budget : nat.
  Variable inc : tree -> ctx -> option (ctx * bytes * option err).
  Hypothesis Hinc : forall t c c' o e, inc t c = Some (c', o, e) -> FrameIn c c'.

  Lemma run_nodes_frame l c w c' w' e :
    (0 < wd c)%nat -> run_nodes flits lookup budget inc l c w = Out c' w' e -> Frame c c'.
  Proof.
    intros W E.
    pose proof (run_nodes_R FrameIn FrameIn_refl FrameIn_trans FrameIn_same FrameIn_defer FrameIn_acq
                            flits lookup budget inc Hinc l c w) as H.
    rewrite E in H. exact (H W).
  Qed.

  (* below the outermost template (an included template): deferred functions never run *)
  Theorem write_tpl_inner t c w c' w' e :
    (0 < wd c)%nat -> write_tpl flits lookup budget inc t c w = Out c' w' e -> Frame c c'.
  Proof.
    intros W E. unfold write_tpl in E.
    destruct (run_nodes flits lookup budget inc t (set_wd (S (wd c)) c) w) as [c1 w1 e1| |] eqn:RN; try discriminate E.
    assert (F1 : Frame (set_wd (S (wd c)) c) c1) by (eapply run_nodes_frame; [|exact RN]; cbn; lia).
    destruct F1 as (W1 & evs & L1 & N1 & D1 & P1). cbn [wd set_wd elog dfr ipv] in *.
    assert (PR : Nat.pred (wd c1) = wd c) by (rewrite W1; reflexivity).
    assert (Fc : Frame c (set_wd (wd c) c1)).
    { split; [reflexivity|]. exists evs. repeat split; assumption. }
    revert E. cbn [wd set_wd]. rewrite PR.
    destruct (match e1 with Some EInterrupt => None | _ => e1 end).
    - intros E. inversion E; subst. exact Fc.
    - destruct (wd c) eqn:WC; [lia|]. intros E. inversion E; subst. exact Fc.
  Qed.

  (* the outermost template: on success every deferred function -- pending from before or
     registered during the render, at any include depth -- runs exactly once, in registration
     order, after the last node; on an error none runs and all stay registered *)
  Theorem write_tpl_outer t c w c' w' e :
    wd c = O -> write_tpl flits lookup budget inc t c w = Out c' w' e ->
    exists evs, no_run evs /\ wd c' = O /\ ipv c' = ipv c ++ acquires evs /\
      match e with
      | None => elog c' = rev (map (fun t => EvRun t (w_n w')) (dfr c ++ defers evs)) ++ evs ++ elog c /\ dfr c' = []
      | Some _ => elog c' = evs ++ elog c /\ dfr c' = dfr c ++ defers evs
      end.
  Proof.
    intros W E. unfold write_tpl in E.
    destruct (run_nodes flits lookup budget inc t (set_wd (S (wd c)) c) w) as [c1 w1 e1| |] eqn:RN; try discriminate E.
    assert (F1 : Frame (set_wd (S (wd c)) c) c1) by (eapply run_nodes_frame; [|exact RN]; cbn; lia).
    destruct F1 as (W1 & evs & L1 & N1 & D1 & P1). cbn [wd set_wd elog dfr ipv] in *.
    exists evs. split; [exact N1|].
    set (c2 := set_wd (Nat.pred (wd c1)) c1) in *.
    assert (W2 : wd c2 = O) by (unfold c2; cbn [wd set_wd]; rewrite W1, W; reflexivity).
    destruct (match e1 with Some EInterrupt => None | _ => e1 end) as [x|].
    - inversion E; subst. repeat split; assumption.
    - change (wd c2) with (Nat.pred (wd c1)) in W2. cbn [wd set_wd] in E. rewrite W2 in E. inversion E; subst.
      destruct (run_deferred_spec c2 (w_n w')) as [RL RD]. destruct (run_deferred_fields c2 (w_n w')) as [RW RP].
      split; [rewrite RW; exact W2|]. split; [rewrite RP; exact P1|]. split; [|exact RD].
      rewrite RL. unfold c2. cbn [dfr elog set_wd]. rewrite D1, L1. reflexivity.
  Qed.
End FrameTpl.

Lemma render_inc_frame flits lookup budget : forall depth t c c' o e,
  render_inc flits lookup budget depth t c = Some (c', o, e) -> FrameIn c c'.
Proof.
  induction depth as [|d IH]; intros t c c' o e E; [discriminate E|].
  cbn [render_inc] in E.
  destruct (write_tpl flits lookup budget (render_inc flits lookup budget d) t c (wr_new None 0)) as [c1 w1 e1| |] eqn:WT;
    try discriminate E.
  inversion E; subst. intros W. eapply write_tpl_inner; [exact IH|exact W|exact WT].
Qed.

(* an included template, at any depth: no deferred function runs, the deferred list only grows *)
Theorem included_never_runs_deferred flits lookup budget depth t c c' o e :
  (0 < wd c)%nat -> render_inc flits lookup budget depth t c = Some (c', o, e) -> Frame c c'.
Proof. intros W E. exact (render_inc_frame flits lookup budget depth t c c' o e E W). Qed.

Theorem render_deferred flits lookup budget depth t c w c' w' e :
  wd c = O -> render flits lookup budget depth t c w = Out c' w' e ->
  exists evs, no_run evs /\ wd c' = O /\ ipv c' = ipv c ++ acquires evs /\
    match e with
    | None => elog c' = rev (map (fun t => EvRun t (w_n w')) (dfr c ++ defers evs)) ++ evs ++ elog c /\ dfr c' = []
    | Some _ => elog c' = evs ++ elog c /\ dfr c' = dfr c ++ defers evs
    end.
Proof. unfold render. apply write_tpl_outer. apply render_inc_frame. Qed.

(* ------------------------------------------------------------------ pooled objects over a history *)

Definition is_reset (s : hstep) : bool := match s with HReset _ => true | _ => false end.

(* the pools acquired by the renders of a history segment, read off the event logs the renders
   leave (each render starts with an empty log), in chronological order *)
Fixpoint hist_pools (hc : hcase) (steps : list hstep) (c : ctx) : list bytes :=
  match steps with
  | [] => []
  | HSet k v st :: r => hist_pools hc r (ctx_set k v st c)
  | HSetBytes k b :: r => hist_pools hc r (ctx_set_bytes k b c)
  | HSetCounter k n :: r => hist_pools hc r (ctx_set_counter k n c)
  | HReset _ :: _ => []
  | HRender t _ _ _ :: r =>
    match render (hc_flits hc) (reg_lookup (hc_reg hc)) (hc_budget hc) 8 t (clear_log c) (wr_new None 0) with
    | Out c1 _ _ => acquires (elog c1) ++ hist_pools hc r c1
    | _ => []
    end
  | HRenderF t fail short _ _ _ :: r =>
    match render (hc_flits hc) (reg_lookup (hc_reg hc)) (hc_budget hc) 8 t (clear_log c) (wr_new (Some fail) short) with
    | Out c1 _ _ => acquires (elog c1) ++ hist_pools hc r c1
    | _ => []
    end
  end.

Lemma acquires_runs n l : acquires (rev (map (fun t => EvRun t n) l)) = [].
Proof.
  unfold acquires. rewrite rev_involutive. induction l as [|t l IH]; [reflexivity|exact IH].
Qed.

(* between two resets: the context holds exactly the pooled objects its renders acquired *)
Theorem pools_held hc : forall steps c c',
  forallb (fun s => negb (is_reset s)) steps = true -> wd c = O ->
  final_ctx hc steps c = Some c' ->
  ipv c' = ipv c ++ hist_pools hc steps c /\ wd c' = O.
Proof.
  induction steps as [|s r IH]; intros c c' NR W F.
  - inversion F; subst. cbn. rewrite app_nil_r. split; [reflexivity|exact W].
  - cbn [forallb] in NR. apply andb_true_iff in NR. destruct NR as [Ns NR].
    destruct s; cbn [final_ctx hist_pools is_reset negb] in *; try discriminate Ns.
    + destruct (sf_ctx_set k v static c) as (S1 & _ & S3 & _). rewrite <- S3.
      apply IH; [exact NR|rewrite S1; exact W|exact F].
    + destruct (sf_ctx_set_bytes k b c) as (S1 & _ & S3 & _). rewrite <- S3.
      apply IH; [exact NR|rewrite S1; exact W|exact F].
    + destruct (sf_ctx_set_counter k n c) as (S1 & _ & S3 & _). rewrite <- S3.
      apply IH; [exact NR|rewrite S1; exact W|exact F].
    + destruct (render _ _ _ _ _ _ _) as [c1 w1 e1| |] eqn:RD; try discriminate F.
      assert (Wc : wd (clear_log c) = O) by exact W.
      destruct (render_deferred _ _ _ _ _ _ _ _ _ _ Wc RD) as (evs & N & W1 & P1 & L).
      destruct (IH c1 c' NR W1 F) as [IP IW]. split; [|exact IW].
      rewrite IP, P1. cbn [ipv clear_log]. rewrite <- app_assoc. f_equal. f_equal.
      destruct e1; destruct L as [L _]; rewrite L; cbn [elog clear_log]; rewrite !app_nil_r; [reflexivity|].
      rewrite acquires_app, acquires_runs, app_nil_r. reflexivity.
    + (* a render through a failing writer: the same bookkeeping *)
      destruct (render _ _ _ _ _ _ _) as [c1 w1 e1| |] eqn:RD; try discriminate F.
      assert (Wc : wd (clear_log c) = O) by exact W.
      destruct (render_deferred _ _ _ _ _ _ _ _ _ _ Wc RD) as (evs & N & W1 & P1 & L).
      destruct (IH c1 c' NR W1 F) as [IP IW]. split; [|exact IW].
      rewrite IP, P1. cbn [ipv clear_log]. rewrite <- app_assoc. f_equal. f_equal.
      destruct e1; destruct L as [L _]; rewrite L; cbn [elog clear_log]; rewrite !app_nil_r; [reflexivity|].
      rewrite acquires_app, acquires_runs, app_nil_r. reflexivity.
Qed.

(* ... and the reset that ends the segment gives each of them back exactly once, in acquisition
   order, and nothing else; afterwards nothing is held *)
Theorem acquired_released_at_reset hc mid c' :
  forallb (fun s => negb (is_reset s)) mid = true ->
  final_ctx hc mid ctx_new = Some c' ->
  rev (elog (ctx_reset (clear_log c'))) = map EvRelease (hist_pools hc mid ctx_new) /\
  ipv (ctx_reset (clear_log c')) = [].
Proof.
  intros NR F. destruct (pools_held hc mid ctx_new c' NR eq_refl F) as [IP _]. cbn [ipv ctx_new app] in IP.
  split; [|reflexivity]. rewrite reset_state. cbn [elog clear_log ipv]. rewrite app_nil_r, rev_involutive, IP. reflexivity.
Qed.

(* ================================================================== Part C *)

(* the same context with [l] below the events logged so far *)
Definition push (l : list event) (c : ctx) : ctx :=
  mkCtx (vars c) (chQB c) (chJQ c) (chHE c) (chUE c) (bufLC c) (brkD c) (cerr c) (bufB c) (dfr c) (ipv c) (wd c) (elog c ++ l).
Definition pushP {A} (l : list event) (p : ctx * A) : ctx * A := (push l (fst p), snd p).
Definition pushO (l : list event) (o : outcome) : outcome :=
  match o with Out c w e => Out (push l c) w e | o => o end.
Definition pushI (l : list event) (r : iterres) : iterres :=
  match r with
  | ItNext c w => ItNext (push l c) w
  | ItStop c w => ItStop (push l c) w
  | ItAbort c w e => ItAbort (push l c) w e
  | r => r
  end.
Definition pushC (l : list event) (r : chainres) : chainres :=
  match r with ChOk c v => ChOk (push l c) v | r => r end.

Lemma push_clear c : push (elog c) (clear_log c) = c.
Proof. destruct c; reflexivity. Qed.

(* observers do not see the log *)
Lemma vars_push l c : vars (push l c) = vars c. Proof. reflexivity. Qed.
Lemma cerr_push l c : cerr (push l c) = cerr c. Proof. reflexivity. Qed.
Lemma bufLC_push l c : bufLC (push l c) = bufLC c. Proof. reflexivity. Qed.
Lemma brkD_push l c : brkD (push l c) = brkD c. Proof. reflexivity. Qed.
Lemma chQB_push l c : chQB (push l c) = chQB c. Proof. reflexivity. Qed.
Lemma wd_push l c : wd (push l c) = wd c. Proof. reflexivity. Qed.
Lemma dfr_push l c : dfr (push l c) = dfr c. Proof. reflexivity. Qed.
Lemma ipv_push l c : ipv (push l c) = ipv c. Proof. reflexivity. Qed.
Lemma region_text_push l c p : region_text (push l c) p = region_text c p. Proof. reflexivity. Qed.
Lemma write_raw_push' l c w p : write_raw (push l c) w p = write_raw c w p. Proof. reflexivity. Qed.

(* updates commute with it *)
Lemma set_cerr_push l x c : set_cerr x (push l c) = push l (set_cerr x c). Proof. reflexivity. Qed.
Lemma set_brkD_push l x c : set_brkD x (push l c) = push l (set_brkD x c). Proof. reflexivity. Qed.
Lemma set_chQB_push l x c : set_chQB x (push l c) = push l (set_chQB x c). Proof. reflexivity. Qed.
Lemma set_bufLC_push l x c : set_bufLC x (push l c) = push l (set_bufLC x c). Proof. reflexivity. Qed.
Lemma set_bufB_push l x c : set_bufB x (push l c) = push l (set_bufB x c). Proof. reflexivity. Qed.
Lemma set_wd_push l x c : set_wd x (push l c) = push l (set_wd x c). Proof. reflexivity. Qed.
Lemma set_dfr_push l x c : set_dfr x (push l c) = push l (set_dfr x c). Proof. reflexivity. Qed.
Lemma set_ipv_push l x c : set_ipv x (push l c) = push l (set_ipv x c). Proof. reflexivity. Qed.
Lemma set_flag_push l f x c : set_flag f x (push l c) = push l (set_flag f x c). Proof. destruct f; reflexivity. Qed.
Lemma log_ev_push l e c : log_ev e (push l c) = push l (log_ev e c). Proof. reflexivity. Qed.

Lemma put_slot_push l k f fresh c : put_slot k f fresh (push l c) = push l (put_slot k f fresh c).
Proof. unfold put_slot. rewrite vars_push. destruct (upd_slot k f (vars c)); reflexivity. Qed.
Lemma ctx_set_push l k v st c : ctx_set k v st (push l c) = push l (ctx_set k v st c).
Proof. apply put_slot_push. Qed.
Lemma ctx_set_bytes_push l k b c : ctx_set_bytes k b (push l c) = push l (ctx_set_bytes k b c).
Proof. apply put_slot_push. Qed.
Lemma ctx_set_counter_push l k n c : ctx_set_counter k n (push l c) = push l (ctx_set_counter k n c).
Proof. apply put_slot_push. Qed.
Lemma ctx_set_static_push l k v c : ctx_set_static k v (push l c) = push l (ctx_set_static k v c).
Proof. apply put_slot_push. Qed.

Lemma get_plain_push l c p : get_plain (push l c) p = pushP l (get_plain c p).
Proof.
  unfold get_plain. destruct (split_dot p); [reflexivity|]. cbn [vars set_cerr push].
  destruct (find_var _ (vars c)); reflexivity.
Qed.

Lemma replace_qb_push l c p : replace_qb (push l c) p = pushP l (replace_qb c p).
Proof.
  unfold replace_qb. destruct (index_of _ p 0); [|reflexivity]. destruct (index_of _ p 0); [|reflexivity].
  destruct (Nat.ltb _ _); [|reflexivity]. rewrite get_plain_push.
  destruct (get_plain c _) as [c1 v]. cbn [pushP fst snd].
  destruct v; try reflexivity; rewrite bufLC_push; destruct (text_of (bufLC c1) _); reflexivity.
Qed.

Lemma ctx_get_push l c p : ctx_get (push l c) p = pushP l (ctx_get c p).
Proof.
  unfold ctx_get. rewrite chQB_push. destruct (chQB c); [|apply get_plain_push].
  rewrite set_cerr_push, replace_qb_push. destruct (replace_qb (set_cerr None c) p) as [c1 p1]. cbn [pushP fst snd].
  rewrite cerr_push.
  assert (G : (let e := cerr c1 in let (c2, v) := get_plain (push l c1) p1 in (set_cerr e c2, v)) =
              pushP l (let e := cerr c1 in let (c2, v) := get_plain c1 p1 in (set_cerr e c2, v))).
  { cbv zeta. rewrite get_plain_push. destruct (get_plain c1 p1) as [c2 v]. reflexivity. }
  destruct (cerr c1); [destruct p1; [reflexivity|exact G]|exact G].
Qed.

Lemma ctx_cmp_push flits l c p o lit : ctx_cmp flits (push l c) p o lit = pushP l (ctx_cmp flits c p o lit).
Proof.
  unfold ctx_cmp. destruct (split_dot p); [reflexivity|]. rewrite vars_push. destruct (find_var _ _); [|reflexivity].
  rewrite bufLC_push. destruct (leaf_cmp _ _ _ _ _ _); reflexivity.
Qed.

Lemma ctx_cmp_lc_push l c m p o lit : ctx_cmp_lc (push l c) m p o lit = pushP l (ctx_cmp_lc c m p o lit).
Proof.
  unfold ctx_cmp_lc. rewrite set_cerr_push, chQB_push.
  set (X := if chQB (set_cerr None c) then replace_qb (set_cerr None c) p else (set_cerr None c, p)).
  assert (Q : (if chQB (set_cerr None c) then replace_qb (push l (set_cerr None c)) p else (push l (set_cerr None c), p)) =
              pushP l X).
  { unfold X. destruct (chQB (set_cerr None c)); [apply replace_qb_push|reflexivity]. }
  rewrite Q. destruct X as [c1 p1]. cbn [pushP fst snd].
  destruct (split_dot p1); [reflexivity|]. rewrite vars_push. destruct (find_var _ _); [|reflexivity].
  destruct m; [reflexivity| |];
    (destruct (match leaf_len _ with Some n => Some n | None => _ end); [destruct (option_map _ _)|]; reflexivity).
Qed.

Lemma node_cmp_push flits l c a b sl sr o :
  node_cmp flits (push l c) a b sl sr o =
  (let '(c1, r, e) := node_cmp flits c a b sl sr o in (push l c1, r, e)).
Proof.
  unfold node_cmp. destruct (sl && sr); [reflexivity|].
  destruct sr. { rewrite ctx_cmp_push. destruct (ctx_cmp flits c a o b). reflexivity. }
  destruct sl. { rewrite ctx_cmp_push. destruct (ctx_cmp flits c b (op_swap o) a). reflexivity. }
  rewrite ctx_get_push. destruct (ctx_get c b) as [c1 v]. cbn [pushP fst snd]. rewrite cerr_push, bufLC_push.
  destruct (cerr c1); [reflexivity|]. destruct (text_of _ _); [|reflexivity].
  rewrite ctx_cmp_push. destruct (ctx_cmp flits c1 a o b0). reflexivity.
Qed.

Lemma collect_args_push l : forall args c, collect_args (push l c) args = pushP l (collect_args c args).
Proof.
  induction args as [|a r IH]; intros c; [reflexivity|]. cbn [collect_args].
  destruct (a_static a).
  - rewrite IH. destruct (collect_args c r). reflexivity.
  - rewrite ctx_get_push. destruct (ctx_get c (a_val a)) as [c1 v]. cbn [pushP fst snd].
    rewrite IH. destruct (collect_args c1 r). reflexivity.
Qed.

Lemma cloop_range_push l c st b : cloop_range (push l c) st b = pushP l (cloop_range c st b).
Proof.
  unfold cloop_range. destruct st; [destruct (parse_Z b); reflexivity|].
  rewrite ctx_get_push. destruct (ctx_get c b) as [c1 v]. cbn [pushP fst snd]. rewrite cerr_push, bufLC_push.
  destruct (cerr c1); [reflexivity|]. destruct (if2int _ _); reflexivity.
Qed.

Lemma run_mods_push l : forall mods n c v, run_mods n (push l c) mods v = pushC l (run_mods n c mods v).
Proof.
  induction mods as [|m r IH]; intros n c v; [reflexivity|]. cbn [run_mods].
  rewrite collect_args_push. destruct (collect_args c (m_args m)) as [c1 args]. cbn [pushP fst snd].
  destruct (existsb a_global (m_args m)); [reflexivity|].
  unfold apply_mod. rewrite bufLC_push, dfr_push, ipv_push.
  destruct (pure_mod (bufLC c1) (m_id m) v args).
  - rewrite set_cerr_push. apply IH.
  - reflexivity.
  - destruct (name_is (m_id m) n_vdefer).
    { destruct args; [reflexivity|]. rewrite set_dfr_push, log_ev_push, set_cerr_push. apply IH. }
    destruct (name_is (m_id m) n_vacquire).
    { destruct args; [reflexivity|]. rewrite set_ipv_push, log_ev_push, set_cerr_push. apply IH. }
    destruct (name_is (m_id m) n_vfail); reflexivity.
Qed.

Lemma write_value_push l c w t pfx sfx noesc :
  write_value (push l c) w t pfx sfx noesc = pushO l (write_value c w t pfx sfx noesc).
Proof.
  unfold write_value. change (write_raw (push l c)) with (write_raw c).
  destruct (match pfx with [] => (w, None) | _ :: _ => write_raw c w pfx end) as [w1 [e1|]]; [reflexivity|].
  destruct (if noesc then let (w', ok) := wr_write w1 t in (w', if ok then None else Some EWriter) else write_raw c w1 t)
    as [w2 [e2|]]; [reflexivity|].
  destruct sfx; [reflexivity|]. destruct (write_raw c w2 (b :: sfx)). reflexivity.
Qed.

Definition pushT (l : list event) (p : ctx * bool * option err) : ctx * bool * option err :=
  let '(c, b, e) := p in (push l c, b, e).

Section WalkP.
  Variable f : node -> ctx -> wr -> outcome.
  Definition NodeP (n : node) : Prop := forall l c w, f n (push l c) w = pushO l (f n c w).

  Lemma walk_P ls : Forall NodeP ls ->
    forall l c w lazy, walk_with f ls (push l c) w lazy = pushO l (walk_with f ls c w lazy).
  Proof.
    induction 1 as [|ch r Hch Hr IH]; intros l c w lazy; cbn [walk_with]; [reflexivity|].
    rewrite Hch. destruct (f ch c w) as [c1 w1 [e|]| |]; cbn [pushO]; try reflexivity; [|apply IH].
    destruct e; try reflexivity. apply IH.
  Qed.

  Lemma body_P ls : Forall NodeP ls ->
    forall l c w lazy, body_with f ls (push l c) w lazy = pushI l (body_with f ls c w lazy).
  Proof.
    induction 1 as [|ch r Hch Hr IH]; intros l c w lazy; cbn [body_with]; [destruct lazy; reflexivity|].
    rewrite Hch. destruct (f ch c w) as [c1 w1 [e|]| |]; cbn [pushO]; try reflexivity; [|apply IH].
    destruct e; try reflexivity; try apply IH. destruct lazy; reflexivity.
  Qed.

  Lemma else_P ls : Forall NodeP ls ->
    forall l c w, else_with f ls (push l c) w = pushO l (else_with f ls c w).
  Proof.
    induction 1 as [|ch r Hch Hr IH]; intros l c w; cbn [else_with]; [reflexivity|].
    rewrite Hch. destruct (f ch c w) as [c1 w1 [e|]| |]; cbn [pushO]; try reflexivity.
    rewrite set_cerr_push. apply IH.
  Qed.

  Lemma default_P ls : Forall NodeP ls ->
    forall l c w, default_with f ls (push l c) w = pushO l (default_with f ls c w).
  Proof.
    induction 1 as [|ch r Hch Hr IH]; intros l c w; cbn [default_with]; [reflexivity|].
    destruct ch; try apply IH. destruct k; try apply IH. apply Hch.
  Qed.

  Lemma cases_P hit chk all ls :
    (forall ki l c, hit ki (push l c) = pushT l (hit ki c)) ->
    Forall NodeP all -> Forall NodeP ls ->
    forall l c w, cases_with f hit chk all ls (push l c) w = pushO l (cases_with f hit chk all ls c w).
  Proof.
    intros Hhit Hall. induction 1 as [|ch r Hch Hr IH]; intros l c w; cbn [cases_with].
    - apply default_P, Hall.
    - destruct ch; try apply IH. destruct k; try apply IH.
      rewrite Hhit. destruct (hit ci c) as [[c1 h] e]. cbn [pushT].
      destruct e; [reflexivity|]. rewrite cerr_push. destruct (if chk then cerr c1 else None); [reflexivity|].
      destruct h; [apply Hch|apply IH].
  Qed.
End WalkP.

Section LoopsP.
  Variable bodyf : ctx -> wr -> iterres.
  Variable elsef : ctx -> wr -> outcome.
  Hypothesis Hbody : forall l c w, bodyf (push l c) w = pushI l (bodyf c w).
  Hypothesis Helse : forall l c w, elsef (push l c) w = pushO l (elsef c w).

  Lemma cloop_finish_P has_else cnt idx saved l c w trips :
    cloop_finish elsef has_else cnt idx saved (push l c) w trips =
    pushO l (cloop_finish elsef has_else cnt idx saved c w trips).
  Proof.
    unfold cloop_finish. rewrite brkD_push.
    assert (E1 : (if 0 <? brkD c then set_brkD (brkD c - 1) (push l c) else push l c) =
                 push l (if 0 <? brkD c then set_brkD (brkD c - 1) c else c)) by (destruct (0 <? brkD c); reflexivity).
    rewrite E1. set (c1 := if 0 <? brkD c then set_brkD (brkD c - 1) c else c).
    assert (E2 : match trips with O => push l c1 | S _ => ctx_set_static cnt (VCell idx) (push l c1) end =
                 push l (match trips with O => c1 | S _ => ctx_set_static cnt (VCell idx) c1 end))
      by (destruct trips; [reflexivity|apply ctx_set_static_push]).
    rewrite E2. set (c2 := match trips with O => c1 | S _ => ctx_set_static cnt (VCell idx) c1 end).
    destruct trips; [destruct has_else|]; try reflexivity.
    rewrite Helse. destruct (elsef c2 w); reflexivity.
  Qed.

  Lemma cloop_step_P cntOp idx l c cur :
    cloop_step cntOp idx (push l c) cur =
    match cloop_step cntOp idx c cur with Some (c', n) => Some (push l c', n) | None => None end.
  Proof. unfold cloop_step. destruct cntOp; reflexivity. Qed.

  Lemma cloop_iter_P has_else cnt sep condOp cntOp limv idx saved fuel :
    forall l c w trips cur,
      cloop_iter bodyf elsef has_else cnt sep condOp cntOp limv idx saved fuel (push l c) w trips cur =
      pushO l (cloop_iter bodyf elsef has_else cnt sep condOp cntOp limv idx saved fuel c w trips cur).
  Proof.
    induction fuel as [|fuel IH]; intros l c w trips cur; cbn [cloop_iter];
      (destruct (cloop_allows condOp cur limv) as [allow|]; [|rewrite set_cerr_push; apply cloop_finish_P]);
      rewrite brkD_push; (destruct (allow && (brkD c =? 0)); [|apply cloop_finish_P]); [reflexivity|].
    rewrite ctx_set_static_push. set (ca := ctx_set_static cnt (VCell idx) c).
    rewrite region_text_push.
    destruct (match trips, sep with
              | O, _ | _, [] => (w, None)
              | _, _ => let (w', ok) := wr_write w (region_text ca sep) in (w', if ok then None else Some EWriter)
              end) as [w1 sepe].
    destruct sepe; [reflexivity|].
    rewrite chQB_push, set_chQB_push, Hbody.
    destruct (bodyf (set_chQB true ca) w1) as [c' w'|c' w'|c' w' e| |]; cbn [pushI]; try reflexivity.
    - rewrite set_cerr_push, set_chQB_push, cloop_step_P.
      destruct (cloop_step cntOp idx (set_chQB (chQB ca) (set_cerr None c')) cur) as [[c'' nxt]|]; [apply IH|reflexivity].
    - rewrite set_cerr_push, set_chQB_push, cloop_step_P.
      destruct (cloop_step cntOp idx (set_chQB (chQB ca) (set_cerr None c')) cur) as [[c'' nxt]|]; [apply cloop_finish_P|].
      rewrite set_cerr_push. apply cloop_finish_P.
  Qed.

  Lemma rloop_finish_P has_else saved l c w calls :
    rloop_finish elsef has_else saved (push l c) w calls = pushO l (rloop_finish elsef has_else saved c w calls).
  Proof.
    unfold rloop_finish. rewrite brkD_push.
    assert (E1 : (if 0 <? brkD c then set_brkD (brkD c - 1) (push l c) else push l c) =
                 push l (if 0 <? brkD c then set_brkD (brkD c - 1) c else c)) by (destruct (0 <? brkD c); reflexivity).
    rewrite E1. set (c1 := if 0 <? brkD c then set_brkD (brkD c - 1) c else c).
    destruct calls; [destruct has_else|]; try reflexivity.
    rewrite set_cerr_push, Helse. destruct (elsef (set_cerr None c1) w); reflexivity.
  Qed.

  Lemma rloop_each_P has_else key val sep saved els :
    forall l c w calls trips,
      rloop_each bodyf elsef has_else key val sep saved els (push l c) w calls trips =
      pushO l (rloop_each bodyf elsef has_else key val sep saved els c w calls trips).
  Proof.
    induction els as [|[kb ev] r IH]; intros l c w calls trips; cbn [rloop_each]; [apply rloop_finish_P|].
    assert (E1 : match key with
                 | [] => push l c
                 | _ :: _ => match kb with [] => ctx_set key (VBytes []) true (push l c) | _ :: _ => ctx_set_bytes key kb (push l c) end
                 end =
                 push l (match key with
                         | [] => c
                         | _ :: _ => match kb with [] => ctx_set key (VBytes []) true c | _ :: _ => ctx_set_bytes key kb c end
                         end)).
    { destruct key; [reflexivity|]. destruct kb; [apply ctx_set_push|apply ctx_set_bytes_push]. }
    rewrite E1, ctx_set_push.
    match goal with |- context [0 <? brkD (push l ?c0)] => set (cc := c0) end.
    rewrite brkD_push. destruct (0 <? brkD cc); [apply rloop_finish_P|].
    rewrite region_text_push.
    destruct (match trips, sep with
              | O, _ | _, [] => (w, None)
              | _, _ => let (w', ok) := wr_write w (region_text cc sep) in (w', if ok then None else Some EWriter)
              end) as [w1 sepe].
    destruct sepe; [reflexivity|]. rewrite Hbody.
    destruct (bodyf cc w1) as [c' w'|c' w'|c' w' e| |]; cbn [pushI]; try reflexivity; [apply IH|apply rloop_finish_P].
  Qed.
End LoopsP.

Definition pushInc (l : list event) (r : option (ctx * bytes * option err)) : option (ctx * bytes * option err) :=
  match r with Some (c, o, e) => Some (push l c, o, e) | None => None end.

Section NodeP.
  Variable flits : list (bytes * Z).
  Variable lookup : list bytes -> option tree.
  Variable budget : nat.
  Variable inc : tree -> ctx -> option (ctx * bytes * option err).
  Hypothesis Hinc : forall t l c, inc t (push l c) = pushInc l (inc t c).
  Notation wn := (write_node flits lookup budget inc).
  Notation rn := (run_nodes flits lookup budget inc).

  Lemma hit_classic_push arg ki l c : hit_classic flits arg ki (push l c) = pushT l (hit_classic flits arg ki c).
  Proof.
    unfold hit_classic. destruct (kSL ki).
    { rewrite ctx_cmp_push. destruct (ctx_cmp flits c arg OpEq (kL ki)). reflexivity. }
    rewrite ctx_get_push. destruct (ctx_get c (kL ki)) as [c1 v]. cbn [pushP fst snd]. rewrite cerr_push, bufLC_push.
    destruct (cerr c1); [reflexivity|]. destruct (text_of _ _); [|reflexivity].
    rewrite ctx_cmp_push. destruct (ctx_cmp flits c1 arg OpEq b). reflexivity.
  Qed.

  Lemma hit_free_push ki l c : hit_free flits ki (push l c) = pushT l (hit_free flits ki c).
  Proof.
    unfold hit_free. destruct (kHlp ki).
    { rewrite node_cmp_push. destruct (node_cmp flits c (kL ki) (kR ki) (kSL ki) (kSR ki) (kOp ki)) as [[c1 r] e]. reflexivity. }
    destruct (cond_known _); [|reflexivity].
    rewrite collect_args_push. destruct (collect_args c (kHlpArg ki)). reflexivity.
  Qed.

  Lemma node_P : forall n, NodeP wn n.
  Proof.
    apply node_deep_ind. intros n IH l c w.
    destruct n; cbn [children] in IH; cbn [write_node]; rewrite ?set_cerr_push.
    - (* NRaw *) rewrite write_raw_push'. destruct (write_raw (set_cerr None c) w raw). reflexivity.
    - (* NTpl *)
      rewrite ctx_get_push. destruct (ctx_get (set_cerr None c) raw) as [c1 v]. cbn [pushP fst snd]. rewrite cerr_push.
      destruct (cerr c1); [reflexivity|].
      rewrite run_mods_push. destruct (run_mods (w_n w) c1 mods v) as [c2 v2|]; cbn [pushC]; [|reflexivity].
      rewrite cerr_push, bufLC_push. destruct (cerr c2); [reflexivity|].
      destruct v2; try reflexivity; (destruct (text_of (bufLC c2) _) as [[|b0 t0]|]; try reflexivity); apply write_value_push.
    - (* NCond *)
      pose proof (Deep_Forall _ _ IH) as IH'.
      assert (TK : forall c1 (r : bool) (e : option err),
                (match cerr (push l c1) with
                 | Some x => Out (push l c1) w (Some x)
                 | None => if r then match child with ch :: _ => wn ch (push l c1) w | [] => Out (push l c1) w e end
                           else match child with _ :: ch :: _ => wn ch (push l c1) w | _ => Out (push l c1) w e end
                 end) =
                pushO l (match cerr c1 with
                         | Some x => Out c1 w (Some x)
                         | None => if r then match child with ch :: _ => wn ch c1 w | [] => Out c1 w e end
                                   else match child with _ :: ch :: _ => wn ch c1 w | _ => Out c1 w e end
                         end)).
      { intros c1 r e. rewrite cerr_push. destruct (cerr c1); [reflexivity|].
        destruct child as [|ch1 [|ch2 rest]];
          repeat match goal with H : Forall _ (_ :: _) |- _ => inversion H; clear H; subst end;
          destruct r; try reflexivity;
          match goal with H : NodeP _ ?ch |- wn ?ch _ _ = _ => apply H end. }
      destruct (cHlp c0).
      + rewrite node_cmp_push.
        destruct (node_cmp flits (set_cerr None c) (cL c0) (cR c0) (cSL c0) (cSR c0) (cOp c0)) as [[c1 b] e]. apply TK.
      + destruct (cLC c0).
        * destruct (cond_known _); [|reflexivity].
          rewrite collect_args_push. destruct (collect_args (set_cerr None c) (cHlpArg c0)) as [c1 args]. cbn [pushP fst snd].
          apply TK.
        * destruct (cHlpArg c0); [reflexivity|]. rewrite ctx_cmp_lc_push.
          destruct (ctx_cmp_lc (set_cerr None c) LcLen (a_val t) (cOp c0) (cR c0)) as [c1 b']. cbn [pushP fst snd]. apply TK.
        * destruct (cHlpArg c0); [reflexivity|]. rewrite ctx_cmp_lc_push.
          destruct (ctx_cmp_lc (set_cerr None c) LcCap (a_val t) (cOp c0) (cR c0)) as [c1 b']. cbn [pushP fst snd]. apply TK.
    - (* NCondOK *)
      pose proof (Deep_Forall _ _ IH) as IH'.
      destruct (cHlp c0); [reflexivity|]. destruct (bytes_eqb _ n_vok); [|reflexivity]. destruct (bytes_eqb _ n_static); [|reflexivity].
      rewrite collect_args_push. destruct (collect_args (set_cerr None c) (cHlpArg c0)) as [c1 args]. cbn [pushP fst snd].
      rewrite bufLC_push. destruct (vok_result (bufLC c1) args) as [v okb].
      rewrite ctx_set_push, ctx_set_static_push, set_bufB_push.
      set (c2 := set_bufB okb (ctx_set_static (oR k) (VBool okb) (ctx_set (oL k) v true c1))).
      assert (E3 : match cR c0 with
                   | [] => (push l c2, okb, None)
                   | _ :: _ => node_cmp flits (push l c2) (cL c0) (cR c0) (cSL c0) (cSR c0) (cOp c0)
                   end =
                   pushT l (match cR c0 with
                            | [] => (c2, okb, None)
                            | _ :: _ => node_cmp flits c2 (cL c0) (cR c0) (cSL c0) (cSR c0) (cOp c0)
                            end)).
      { destruct (cR c0) as [|r0 rr]; [reflexivity|]. rewrite node_cmp_push.
        destruct (node_cmp flits c2 (cL c0) (r0 :: rr) (cSL c0) (cSR c0) (cOp c0)) as [[c3 r] e]. reflexivity. }
      rewrite E3.
      destruct (match cR c0 with [] => (c2, okb, None) | _ :: _ => node_cmp flits c2 (cL c0) (cR c0) (cSL c0) (cSR c0) (cOp c0) end)
        as [[c3 r] e]. cbn [pushT].
      destruct child as [|ch1 [|ch2 rest]];
        repeat match goal with H : Forall _ (_ :: _) |- _ => inversion H; clear H; subst end;
        destruct r; try reflexivity;
        match goal with H : NodeP _ ?ch |- wn ?ch _ _ = _ => apply H end.
    - (* NBlock *) apply walk_P, Deep_Forall, IH.
    - (* NLoopRange *)
      pose proof (deep_loop_body _ _ IH) as Hb. pose proof (deep_loop_else _ _ IH) as He.
      rewrite brkD_push, set_brkD_push. set (cz := set_brkD 0 (set_cerr None c)).
      destruct (split_dot src) as [|k rest]; [reflexivity|].
      rewrite vars_push. destruct (find_var k _) as [s|].
      + destruct (if s_static s then _ else _) as [els|]; [|reflexivity].
        apply rloop_each_P; [intros; apply body_P; assumption|intros; apply else_P; assumption].
      + destruct (loop_has_else child); [|reflexivity].
        rewrite (else_P wn _ He). destruct (else_with wn _ cz w); reflexivity.
    - (* NLoopCount *)
      pose proof (deep_loop_body _ _ IH) as Hb. pose proof (deep_loop_else _ _ IH) as He.
      rewrite brkD_push, set_brkD_push. set (cz := set_brkD 0 (set_cerr None c)).
      rewrite cloop_range_push. destruct (cloop_range cz initS init) as [c1 v0]. cbn [pushP fst snd]. rewrite cerr_push.
      destruct (cerr c1); [reflexivity|].
      rewrite cloop_range_push. destruct (cloop_range c1 limS lim) as [c2 limv]. cbn [pushP fst snd]. rewrite cerr_push.
      destruct (cerr c2); [reflexivity|].
      rewrite bufLC_push, set_bufLC_push.
      apply cloop_iter_P; [intros; apply body_P; assumption|intros; apply else_P; assumption].
    - rewrite brkD_push. reflexivity.
    - rewrite brkD_push. reflexivity.
    - reflexivity.
    - (* NCtx *)
      destruct srcStatic; [rewrite ctx_set_bytes_push; reflexivity|].
      rewrite ctx_get_push. destruct (ctx_get (set_cerr None c) src) as [c1 v]. cbn [pushP fst snd]. rewrite cerr_push.
      destruct (cerr c1); [reflexivity|].
      rewrite run_mods_push. destruct (run_mods (w_n w) c1 mods v) as [c2 v2|]; cbn [pushC]; [|reflexivity].
      rewrite cerr_push. destruct (cerr c2); [reflexivity|].
      assert (E3 : match ok with [] => push l c2 | _ :: _ => ctx_set_static ok (VBool (negb (is_void v2))) (push l c2) end =
                   push l (match ok with [] => c2 | _ :: _ => ctx_set_static ok (VBool (negb (is_void v2))) c2 end))
        by (destruct ok; [reflexivity|apply ctx_set_static_push]).
      rewrite E3. set (c3 := match ok with [] => c2 | _ :: _ => ctx_set_static ok (VBool (negb (is_void v2))) c2 end).
      destruct (is_void v2); [reflexivity|].
      rewrite bufLC_push.
      destruct (conv_bytes v2) as [[|b0 b]|]; try (rewrite ctx_set_bytes_push; reflexivity);
        destruct v2; rewrite ?ctx_set_counter_push, ?ctx_set_push; reflexivity.
    - (* NCounter *)
      destruct initF; [rewrite ctx_set_counter_push; reflexivity|].
      rewrite ctx_get_push. destruct (ctx_get (set_cerr None c) var) as [c1 v]. cbn [pushP fst snd]. rewrite cerr_push, bufLC_push.
      destruct (cerr c1); [reflexivity|]. rewrite ctx_set_counter_push. reflexivity.
    - (* NSwitch *)
      pose proof (Deep_Forall _ _ IH) as IH'.
      destruct arg; apply cases_P; try assumption; intros; first [apply hit_free_push|apply hit_classic_push].
    - (* NFlag *) rewrite set_flag_push. reflexivity.
    - (* NInclude *)
      destruct (lookup tpls) as [t|]; [|reflexivity].
      rewrite Hinc. destruct (inc t (set_cerr None c)) as [[[c1 out] [e|]]|]; cbn [pushInc]; try reflexivity.
      destruct (wr_write w out). reflexivity.
    - reflexivity.
    - reflexivity.
  Qed.

  Lemma run_nodes_P : forall ls l c w, rn ls (push l c) w = pushO l (rn ls c w).
  Proof.
    induction ls as [|n r IH]; intros l c w; cbn [run_nodes]; [reflexivity|].
    rewrite node_P. destruct (wn n c w) as [c1 w1 [e|]| |]; cbn [pushO]; try reflexivity. apply IH.
  Qed.

  Lemma run_deferred_push l c n : run_deferred (push l c) n = push l (run_deferred c n).
  Proof.
    unfold run_deferred. rewrite dfr_push.
    assert (G : forall ts c0, fold_left (fun c t => log_ev (EvRun t n) c) ts (push l c0) =
                              push l (fold_left (fun c t => log_ev (EvRun t n) c) ts c0)).
    { induction ts as [|t ts IH]; intros c0; [reflexivity|]. cbn [fold_left]. rewrite log_ev_push. apply IH. }
    rewrite G. reflexivity.
  Qed.

  Lemma write_tpl_P t l c w :
    write_tpl flits lookup budget inc t (push l c) w = pushO l (write_tpl flits lookup budget inc t c w).
  Proof.
    unfold write_tpl. rewrite wd_push, set_wd_push, run_nodes_P.
    destruct (rn t (set_wd (S (wd c)) c) w) as [c1 w1 e1| |]; cbn [pushO]; try reflexivity.
    rewrite wd_push, set_wd_push, wd_push.
    destruct (match e1 with Some EInterrupt => None | _ => e1 end); [reflexivity|].
    destruct (wd (set_wd (Nat.pred (wd c1)) c1)); [rewrite run_deferred_push|]; reflexivity.
  Qed.
End NodeP.

Lemma render_inc_push flits lookup budget : forall depth t l c,
  render_inc flits lookup budget depth t (push l c) = pushInc l (render_inc flits lookup budget depth t c).
Proof.
  induction depth as [|d IH]; intros t l c; [reflexivity|].
  cbn [render_inc]. rewrite (write_tpl_P flits lookup budget _ IH).
  destruct (write_tpl flits lookup budget (render_inc flits lookup budget d) t c (wr_new None 0)); reflexivity.
Qed.

(* a render never reads the event log: with more events below, everything is the same, and the
   resulting log is the same with those events below *)
Theorem render_push flits lookup budget depth t l c w :
  render flits lookup budget depth t (push l c) w = pushO l (render flits lookup budget depth t c w).
Proof. unfold render. apply write_tpl_P. intros. apply render_inc_push. Qed.

(* stated for two contexts that differ in the log only *)
Definition same_but_log (c1 c2 : ctx) : Prop := clear_log c1 = clear_log c2.

(* the outcomes of two runs: same output, same error, resulting contexts again equal but for the
   log; what each run added to its log is the same *)
Definition out_same_but_log (c1 c2 : ctx) (o1 o2 : outcome) : Prop :=
  match o1, o2 with
  | Out c1' w1 e1, Out c2' w2 e2 =>
    w1 = w2 /\ e1 = e2 /\ same_but_log c1' c2' /\
    exists evs, elog c1' = evs ++ elog c1 /\ elog c2' = evs ++ elog c2
  | Unsupported, Unsupported | OutOfFuel, OutOfFuel => True
  | _, _ => False
  end.

Lemma clear_push l c : clear_log (push l c) = clear_log c.
Proof. reflexivity. Qed.

Theorem log_does_not_influence_rendering flits lookup budget depth t c1 c2 w :
  same_but_log c1 c2 ->
  out_same_but_log c1 c2 (render flits lookup budget depth t c1 w) (render flits lookup budget depth t c2 w).
Proof.
  intros H. unfold same_but_log in H.
  replace (render flits lookup budget depth t c1 w) with (pushO (elog c1) (render flits lookup budget depth t (clear_log c1) w))
    by (rewrite <- render_push, push_clear; reflexivity).
  replace (render flits lookup budget depth t c2 w) with (pushO (elog c2) (render flits lookup budget depth t (clear_log c1) w))
    by (rewrite <- render_push, H, push_clear; reflexivity).
  destruct (render flits lookup budget depth t (clear_log c1) w) as [c' w' e| |]; cbn [pushO out_same_but_log]; try exact I.
  split; [reflexivity|]. split; [reflexivity|]. split; [unfold same_but_log; rewrite !clear_push; reflexivity|].
  exists (elog c'). split; reflexivity.
Qed.

Theorem log_does_not_influence_nodes flits lookup budget inc ls c1 c2 w :
  (forall t l c, inc t (push l c) = pushInc l (inc t c)) ->
  same_but_log c1 c2 ->
  out_same_but_log c1 c2 (run_nodes flits lookup budget inc ls c1 w) (run_nodes flits lookup budget inc ls c2 w).
Proof.
  intros Hinc H. unfold same_but_log in H.
  replace (run_nodes flits lookup budget inc ls c1 w)
    with (pushO (elog c1) (run_nodes flits lookup budget inc ls (clear_log c1) w))
    by (rewrite <- (run_nodes_P flits lookup budget inc Hinc), push_clear; reflexivity).
  replace (run_nodes flits lookup budget inc ls c2 w)
    with (pushO (elog c2) (run_nodes flits lookup budget inc ls (clear_log c1) w))
    by (rewrite <- (run_nodes_P flits lookup budget inc Hinc), H, push_clear; reflexivity).
  destruct (run_nodes flits lookup budget inc ls (clear_log c1) w) as [c' w' e| |]; cbn [pushO out_same_but_log]; try exact I.
  split; [reflexivity|]. split; [reflexivity|]. split; [unfold same_but_log; rewrite !clear_push; reflexivity|].
  exists (elog c'). split; reflexivity.
Qed.

(* ================================================================== examples *)

Definition Bs (s : string) : bytes := list_byte_of_string s.

(* a history with a failing render, an exit inside an open jsonquote tag, and a reset: the render
   after the reset is judged as on a new context (raw quotes, the variable is gone); without the
   reset the same render shows the state left behind (escaped output, the old variable) *)
Definition t_fail : tree := [NRaw (Bs "a"); NTpl (Bs "s") [] [] false []; NRaw (Bs "never")].
Definition t_exit_open : tree := [NFlag FJson true; NRaw (Bs """x"); NExit; NFlag FJson false].
Definition t_quotes : tree := [NRaw (Bs """q"""); NTpl (Bs "s") [] [] false []].
Definition hc_ex : hcase := mkHCase [] [] 10 [].
Definition pre_ex : list hstep :=
  [HSet (Bs "s") (VStruct []) false; HRender t_fail (Bs "a") 15 []; HRender t_exit_open (Bs "\""x") 0 []].

Example history_reset_example :
  check_history hc_ex (pre_ex ++ [HReset []; HRender t_quotes (Bs """q""") 0 []]) ctx_new = [HOk; HOk; HOk; HOk] /\
  check_history hc_ex (pre_ex ++ [HRender t_quotes (Bs """q""") 0 []]) ctx_new = [HOk; HOk; HBad "5c22715c22" 15 0] /\
  (match final_ctx hc_ex pre_ex ctx_new with Some c => chJQ c = true /\ length (vars c) = 1%nat | None => False end) /\
  final_ctx hc_ex (pre_ex ++ [HReset []]) ctx_new = Some ctx_new /\
  render [] (reg_lookup []) 10 8 t_quotes ctx_new (wr_new None 0) =
  render [] (reg_lookup []) 10 8 t_quotes (clear_log (ctx_reset (clear_log ctx_new))) (wr_new None 0).
Proof. vm_compute. repeat split. Qed.

(* a deferred function and a pooled object: registered and acquired during the render, run once
   after it, released once at the reset *)
Definition t_bookkeeping : tree :=
  [NTpl (Bs "x") [] [] false [mkMod (Bs "vdefer") [mkArg [] (Bs "d1") true false];
                              mkMod (Bs "vacquire") [mkArg [] (Bs "p1") true false]]].
Definition steps_bk : list hstep :=
  [HSet (Bs "x") (VStr (Bs "v")) false;
   HRender t_bookkeeping (Bs "v") 0 [EvDefer (Bs "d1"); EvAcquire (Bs "p1") 0; EvRun (Bs "d1") 1];
   HReset [EvRelease (Bs "p1")];
   HRender t_bookkeeping [] 0 [EvDefer (Bs "d1"); EvAcquire (Bs "p1") 0; EvRun (Bs "d1") 0];
   HReset [EvRelease (Bs "p1")]].

Example history_bookkeeping_example :
  check_history hc_ex steps_bk ctx_new = [HOk; HOk; HOk; HOk] /\
  hist_pools hc_ex (firstn 2 steps_bk) ctx_new = [Bs "p1"].
Proof. vm_compute. split; reflexivity. Qed.

(* ================================================================== renders through a failing writer *)

(* All history theorems above quantify over histories with HRenderF steps too ([final_ctx],
   [hist_pools] and the inductions have the case).  What is specific to a faulted render: *)

(* a render during which the writer fails returns the writer error, runs NO deferred function, and
   leaves the functions it registered pending (with those pending before); what it acquired from
   pools stays held *)
Theorem faulted_render_keeps_deferred flits lookup budget depth t c w c' w' e :
  wd c = O -> w_failed w = false ->
  render flits lookup budget depth t c w = Out c' w' e -> w_failed w' = true ->
  e = Some EWriter /\
  exists evs, no_run evs /\ elog c' = evs ++ elog c /\ dfr c' = dfr c ++ defers evs /\
              ipv c' = ipv c ++ acquires evs /\ wd c' = O.
Proof.
  intros W Hw E F. pose proof (fault_render flits lookup budget depth t c w c' w' e Hw E F) as He. subst e.
  split; [reflexivity|].
  destruct (render_deferred flits lookup budget depth t c w c' w' _ W E) as (evs & N & W' & P & L & D).
  exists evs. repeat split; assumption.
Qed.

(* any error, not only the writer's: nothing deferred runs *)
Theorem failed_render_runs_no_deferred flits lookup budget depth t c w c' w' x :
  wd c = O -> render flits lookup budget depth t c w = Out c' w' (Some x) ->
  exists evs, no_run evs /\ elog c' = evs ++ elog c /\ dfr c' = dfr c ++ defers evs /\ ipv c' = ipv c ++ acquires evs.
Proof.
  intros W E. destruct (render_deferred flits lookup budget depth t c w c' w' _ W E) as (evs & N & W' & P & L & D).
  exists evs. repeat split; assumption.
Qed.

(* the Reset after it: the pending functions are dropped without running (the log gains releases
   only), every pooled object still held goes back exactly once, and the context is a new one *)
Theorem reset_after_failed_render c :
  dfr (ctx_reset (clear_log c)) = [] /\ ipv (ctx_reset (clear_log c)) = [] /\
  rev (elog (ctx_reset (clear_log c))) = map EvRelease (ipv c) /\
  clear_log (ctx_reset (clear_log c)) = ctx_new.
Proof.
  split; [reflexivity|]. split; [reflexivity|]. split; [|reflexivity].
  rewrite reset_state. cbn [elog clear_log ipv]. rewrite app_nil_r. apply rev_involutive.
Qed.

(* example: "a", a print that registers d1 and acquires p1, "b" -- through a writer that refuses
   its third write: d1 never runs (the fault-free render runs it), p1 is released by the Reset,
   and the render after the Reset is judged as on a new context (x is gone: the modifiers still run
   on nil, nothing is printed for it); the last Reset gives back the two objects acquired since *)
Definition t_bk_text : tree :=
  [NRaw (Bs "a");
   NTpl (Bs "x") [] [] false [mkMod (Bs "vdefer") [mkArg [] (Bs "d1") true false];
                              mkMod (Bs "vacquire") [mkArg [] (Bs "p1") true false]];
   NRaw (Bs "b")].
Definition steps_fault : list hstep :=
  [HSet (Bs "x") (VStr (Bs "v")) false;
   HRenderF t_bk_text 3 0 (Bs "av") 16 [EvDefer (Bs "d1"); EvAcquire (Bs "p1") 1];
   HReset [EvRelease (Bs "p1")];
   HRender t_bk_text (Bs "ab") 0 [EvDefer (Bs "d1"); EvAcquire (Bs "p1") 1; EvRun (Bs "d1") 2];
   HSet (Bs "x") (VStr (Bs "v")) false;
   HRender t_bk_text (Bs "avb") 0 [EvDefer (Bs "d1"); EvAcquire (Bs "p1") 1; EvRun (Bs "d1") 3];
   HReset [EvRelease (Bs "p1"); EvRelease (Bs "p1")]].

Example history_fault_example :
  check_history hc_ex steps_fault ctx_new = [HOk; HOk; HOk; HOk; HOk] /\
  (match final_ctx hc_ex (firstn 2 steps_fault) ctx_new with
   | Some c => dfr c = [Bs "d1"] /\ ipv c = [Bs "p1"] /\ forallb (fun ev => match ev with EvRun _ _ => false | _ => true end) (elog c) = true
   | None => False
   end) /\
  hist_pools hc_ex (firstn 2 steps_fault) ctx_new = [Bs "p1"] /\
  final_ctx hc_ex (firstn 3 steps_fault) ctx_new = Some ctx_new.
Proof. vm_compute. repeat split. Qed.
