(* Where the interpreter model and the reference semantics DISAGREE: concrete witnesses,
   evaluated by vm_compute.  Each one is excluded from the refinement theorem by a hypothesis
   ([Inv], [sig_dom]) or by [wf_supported]; the unrestricted statement is refuted. *)
From Coq Require Import String.
From DT Require Import Model.Bytes Model.Value Model.Tree Model.Mods Model.Interp
  Spec.Ast Spec.RefEval Spec.Compile Proofs.FlatProofs Proofs.RefineBase Proofs.RefineMain.
Local Open Scope Z_scope.

Definition B (s : string) : bytes := list_byte_of_string s.
Definition cnd l r ll rl o := mkACond (B l) (B r) ll rl o [] [].
Definition nolook : list bytes -> option tree := fun _ => None.
Definition noinc : tree -> ctx -> option (ctx * bytes * option err) := fun _ _ => None.
Definition rnolook : list bytes -> option (list ast) := fun _ => None.
Definition rnoinc : list ast -> env -> option res := fun _ _ => None.

(* output and error of the model / output and signal of the reference semantics *)
Definition mout (t : list ast) (c : ctx) : option (bytes * option err) :=
  match run_nodes [] nolook 100 noinc (compile_tpl t) c (wr_new None 0) with
  | Out c' w' e => Some (wr_bytes w', e)
  | _ => None
  end.
Definition rout (t : list ast) (c : ctx) : bytes * sig :=
  let '(o, _, s) := ref_items [] rnolook 100 rnoinc t (abs c) in (o, s).
(* the value of a variable after the run, on both sides *)
Definition mvar (t : list ast) (c : ctx) (k : string) : option entry :=
  match run_nodes [] nolook 100 noinc (compile_tpl t) c (wr_new None 0) with
  | Out c' _ _ => env_find (B k) (ev (abs c'))
  | _ => None
  end.
Definition rvar (t : list ast) (c : ctx) (k : string) : option entry :=
  let '(_, e, _) := ref_items [] rnolook 100 rnoinc t (abs c) in env_find (B k) (ev e).

(* (F1, withdrawn.)  {% ctx x = i %} inside a counter loop used to store the POINTER to the live
   counter, so that x followed the counter afterwards; the ctx node now copies the number, and the
   two sides agree: x keeps the value the counter had when it was assigned. *)
Definition t_alias := [ACLoop (B "i") (B "0") (B "3") true true OpLt OpInc []
                         [ACtx (B "x") (B "i") [] false []] [] false;
                       APrint [] (B "x") [] [] [] false].
Example ctx_copies_loop_counter :
  mout t_alias ctx_new = Some (B "2", None) /\ rout t_alias ctx_new = (B "2", SNone) /\
  mvar t_alias ctx_new "x" = Some (mkEntry (VInt 2) true) /\ rvar t_alias ctx_new "x" = Some (mkEntry (VInt 2) true).
Proof. vm_compute. repeat split. Qed.

(* F2. a lazybreak directly inside a bound tag at template level: the interpreter stops at the
   lazybreak (tag still open), the reference semantics finishes the tag's body first. *)
Definition t_lazy_region := [ARegion FJson [ABreak true 0 false no_cond; AText (B "A")]].
Example F2_lazybreak_in_region_at_top :
  mout t_lazy_region ctx_new = Some ([], Some ELBreak) /\ rout t_lazy_region ctx_new = (B "A", SLazy).
Proof. vm_compute. split; reflexivity. Qed.

(* (F3, withdrawn.)  break inside a for-else branch, inside an outer loop: the instruction is
   lexically inside the enclosing loops and names them; the interpreter hands the signal on through
   the inner loop, and so does the reference semantics now (it used to report an error). *)
Definition t_break_in_else :=
  [ACLoop (B "i") (B "0") (B "2") true true OpLt OpInc []
     [AText (B "a");
      ACLoop (B "j") (B "0") (B "0") true true OpLt OpInc [] [] [ABreak false 0 false no_cond] true;
      AText (B "b")] [] false;
   AText (B "c")].
Example break_in_for_else_agrees :
  mout t_break_in_else ctx_new = Some (B "ac", None) /\ rout t_break_in_else ctx_new = (B "ac", SNone).
Proof. vm_compute. split; reflexivity. Qed.

(* the depth form: break 2 in the else branch of an inner loop without iterations ends the two
   enclosing loops: the middle loop at once, the outer one at its next iteration check (so the rest
   "z" of the outer body is still rendered, as with any break 2); the text behind the break and
   the rest "y" of the middle body are not rendered, the text after the outermost loop is *)
Definition t_break2_in_else :=
  [ACLoop (B "i") (B "0") (B "3") true true OpLt OpInc []
     [AText (B "a");
      ACLoop (B "j") (B "0") (B "3") true true OpLt OpInc []
        [AText (B "b");
         ACLoop (B "k") (B "0") (B "0") true true OpLt OpInc [] [] [ABreak false 2 false no_cond; AText (B "x")] true;
         AText (B "y")] [] false;
      AText (B "z")] [] false;
   AText (B "!")].
Example break2_in_for_else_agrees :
  mout t_break2_in_else ctx_new = Some (B "abz!", None) /\ rout t_break2_in_else ctx_new = (B "abz!", SNone).
Proof. vm_compute. split; reflexivity. Qed.

(* both are inside the supported sub-language: the refinement theorem covers control instructions
   in for-else branches (they used to fall outside [sig_dom], as errors of the reference) *)
Example for_else_control_supported :
  forallb (wf_supported true) t_break_in_else = true /\ forallb (wf_supported true) t_break2_in_else = true.
Proof. vm_compute. split; reflexivity. Qed.

(* F4. a comparison of two literals with an else branch: the interpreter falls into the else
   branch and drops ErrSenselessCond; the reference semantics reports it. *)
Definition t_senseless := [AIf (cnd "a" "b" true true OpEq) [AText (B "X")] [AText (B "Y")] true].
Example F4_senseless_with_else :
  mout t_senseless ctx_new = Some (B "Y", None) /\ rout t_senseless ctx_new = ([], SErr ESenseless).
Proof. vm_compute. split; reflexivity. Qed.

(* F5. len() as the test of a case of a condition-less switch: the interpreter looks for a
   condition helper named "len"; the reference semantics compares the length. *)
Definition c_str := ctx_set (B "x") (VStr (B "abc")) false ctx_new.
Definition t_len_case := [ASwitch [] [ACase (mkACond [] (B "0") false true OpGt (B "len") (B "x")) [AText (B "L")]] [] false].
Example F5_len_in_free_switch :
  mout t_len_case c_str = Some ([], Some ECondHlpNotFound) /\ rout t_len_case c_str = (B "L", SNone).
Proof. vm_compute. split; reflexivity. Qed.

(* F6. {% ctx x = "" %}: SetBytes with an empty buffer leaves no live representation (x reads
   as nil); the reference semantics stores the empty byte string. *)
Definition t_empty_lit := [ACtx (B "x") [] [] true [];
                           AIf (cnd "x" "" false true OpEq) [AText (B "Y")] [AText (B "N")] true].
Example F6_empty_literal_assignment :
  mout t_empty_lit ctx_new = Some (B "N", None) /\ rout t_empty_lit ctx_new = (B "Y", SNone).
Proof. vm_compute. split; reflexivity. Qed.

(* F7. a case outside a switch: compiled to nothing; the reference semantics reports it. *)
Definition t_stray_case := [ACase no_cond [AText (B "X")]; AText (B "Y")].
Example F7_stray_case :
  mout t_stray_case ctx_new = Some (B "Y", None) /\ rout t_stray_case ctx_new = ([], SErr EUnknownCtl).
Proof. vm_compute. split; reflexivity. Qed.

(* F8. why [Inv] asks that a slot whose byte buffer (or counter) is live be static: a context no
   setter can build, on which [abs] and the interpreter read the slot differently. *)
Definition c_odd := set_vars [mkSlot (B "x") VNil (B "abc") false 0 false] ctx_new.
Definition t_odd := [AIf (cnd "x" "abd" false true OpLt) [AText (B "X")] [AText (B "Y")] true].
Example F8_unreachable_context :
  mout t_odd c_odd = Some (B "X", None) /\ rout t_odd c_odd = (B "Y", SNone).
Proof. vm_compute. split; reflexivity. Qed.

(* F9. why [Inv] asks for a non-negative pending break depth: a context no run can build (a
   break never lowers the pending depth, which starts at 0), on which a loop that fails on its
   bound leaves different depths behind (the interpreter restores max(0, saved), the reference
   semantics the saved depth).  (Before break/lazybreak took the maximum with the pending depth,
   a negative depth on a break tag could produce such a context.) *)
Definition c_neg := set_brkD (-1) (ctx_set (B "s") (VStruct []) false ctx_new).
Definition t_neg := [ACLoop (B "j") (B "0") (B "s") true false OpLt OpInc [] [] [] false].
Definition mbrk (t : list ast) (c : ctx) : option (Z * option err) :=
  match run_nodes [] nolook 100 noinc (compile_tpl t) c (wr_new None 0) with
  | Out c' _ e => Some (brkD c', e)
  | _ => None
  end.
Definition rbrk (t : list ast) (c : ctx) : Z * sig :=
  let '(_, e, s) := ref_items [] rnolook 100 rnoinc t (abs c) in (e_brk e, s).
Example F9_negative_pending_depth :
  mbrk t_neg c_neg = Some (0, Some EWrongLoopLim) /\ rbrk t_neg c_neg = (-1, SErr EWrongLoopLim).
Proof. vm_compute. split; reflexivity. Qed.

(* a break with a smaller (even negative) depth does not cancel a pending one, on both sides *)
Definition t_lazy_then_break :=
  [ACLoop (B "i") (B "0") (B "3") true true OpLt OpInc []
     [AText (B "a");
      ACLoop (B "j") (B "0") (B "3") true true OpLt OpInc []
        [AText (B "b"); ABreak true 2 false no_cond; ABreak false (-1) false no_cond] [] false] [] false;
   AText (B "z")].
Example break_keeps_pending_depth :
  mout t_lazy_then_break ctx_new = Some (B "abz", None) /\ rout t_lazy_then_break ctx_new = (B "abz", SNone).
Proof. vm_compute. split; reflexivity. Qed.

(* F10. an if-ok block in the negated form (!ok) whose flag variable is not a plain name: the
   extended condition looks the flag up again AS A PATH (first segment "o" of "o.k"; nothing for
   the empty name), so it does not see the flag it has just set; the reference semantics
   branches on the flag itself.  (The parser takes the names from the header as written; whether
   it can produce such names is a question for the real code.) *)
Definition c_ifok := ctx_set (B "u") (VStr (B "bob")) false (ctx_set (B "e") (VStr []) false ctx_new).
Definition t_ifok_dotted := [AIfOK (B "v") (B "o.k") (B "e") false true [AText (B "T")] [AText (B "F")] true].
Definition t_ifok_noname := [AIfOK (B "v") [] (B "e") false true [AText (B "T")] [AText (B "F")] true].
Example F10_ifok_negated_flag_not_a_name :
  mout t_ifok_dotted c_ifok = Some (B "F", None) /\ rout t_ifok_dotted c_ifok = (B "T", SNone) /\
  mout t_ifok_noname c_ifok = Some (B "F", None) /\ rout t_ifok_noname c_ifok = (B "T", SNone).
Proof. vm_compute. repeat split. Qed.

(* F11. the last case of a condition-less switch without default, with an empty body and a test
   that is an error (two literals, or an unknown helper): the parser leaves no node for a trailing
   group without children, so the test is never evaluated and the switch renders nothing without
   error; the reference semantics evaluates the test and reports the error.  (A case with an
   empty body that is NOT last is evaluated on both sides and agrees.) *)
Definition t_switch_empty_last := [AText (B "a"); ASwitch [] [ACase (cnd "a" "b" true true OpEq) []] [] false; AText (B "z")].
Definition t_switch_empty_mid :=
  [AText (B "a"); ASwitch [] [ACase (cnd "a" "b" true true OpEq) []; ACase (cnd "x" "1" false true OpEq) [AText (B "X")]] [] false; AText (B "z")].
Example F11_dropped_last_case_test_not_evaluated :
  mout t_switch_empty_last ctx_new = Some (B "az", None) /\ rout t_switch_empty_last ctx_new = (B "a", SErr ESenseless) /\
  mout t_switch_empty_mid ctx_new = Some (B "a", Some ESenseless) /\ rout t_switch_empty_mid ctx_new = (B "a", SErr ESenseless).
Proof. vm_compute. repeat split. Qed.

(* ------------------------------------------------------------------ the unrestricted statement *)

Definition sig_rel0 (s : sig) (eo : option err) : Prop :=
  match s with
  | SNone => eo = None | SBrk => eo = Some EBreak | SLazy => eo = Some ELBreak | SCont => eo = Some ECont
  | SExit => eo = Some EInterrupt | SErr x => eo = Some x | SNA => False
  end.

Definition refines_full_statement : Prop :=
  forall flits lookup budget inc rlookup rinc a c w,
    w_fail w = None ->
    forall o e' s, ref_eval flits rlookup budget rinc a (abs c) = (o, e', s) -> s <> SNA ->
    exists c' w' eo, run_nodes flits lookup budget inc (compile_tpl [a]) c w = Out c' w' eo /\
                     wr_bytes w' = wr_bytes w ++ o /\ w_fail w' = None /\ abs c' = e' /\ sig_rel0 s eo.

Theorem refines_refuted : ~ refines_full_statement.
Proof.
  intros H.
  specialize (H [] nolook 100%nat noinc rnolook rnoinc
                (AIf (cnd "a" "b" true true OpEq) [AText (B "X")] [AText (B "Y")] true)
                ctx_new (wr_new None 0) eq_refl [] (abs ctx_new) (SErr ESenseless)).
  destruct H as (c' & w' & eo & R & Bw & _); [vm_compute; reflexivity|discriminate|].
  vm_compute in R. inversion R; subst. vm_compute in Bw. discriminate Bw.
Qed.

(* the strongest variant that holds: [interp_refines_ref] / [tpl_refines_ref] / [render_refines]
   (RefineMain, RefineRender): the same conclusion, for [wf_supported] items, on contexts
   satisfying [Inv], for reference results in [sig_dom]. *)
Definition refines_partial := interp_refines_ref.

(* ------------------------------------------------------------------ non-vacuity *)

Lemma Inv_ctx_new : Inv [] ctx_new.
Proof. repeat split; try constructor. cbn. lia. Qed.

Definition c_sample : ctx :=
  ctx_set (B "user") (VStruct [(B "name", VStr (B "bob"));
                               (B "tags", VSlice [VStr (B "a"); VStr (B "b<")]);
                               (B "age", VInt 42)]) false ctx_new.

Lemma Inv_c_sample : Inv [] c_sample.
Proof.
  unfold c_sample. apply Inv_ctx_set; [left; intros lc; reflexivity|intros p []|apply Inv_ctx_new].
Qed.

(* a template that uses every supported construct *)
Definition t_sample : list ast :=
  [ AText (B "Hi "); APrint (B "h") (B "user.name") [mkAMod (B "vup") []] [] [] false; AText (B ": ");
    ACLoop (B "i") (B "0") (B "5") true true OpLt OpInc (B ",")
      [ APrint [] (B "i") [] [] [] false;
        ABreak false 1 true (cnd "i" "2" false true OpEq) ] [] false;
    AText (B " ");
    ARLoop (B "k") (B "v") (B "user.tags") (B "|")
      [ ARegion FHtml [APrint [] (B "v") [] [] [] false]; AContinue false no_cond; AText (B "never") ]
      [ AText (B "empty") ] true;
    AIf (cnd "user.age" "18" false true OpGtq) [AText (B " adult")] [AText (B " minor")] true;
    ASwitch (B "user.name") [ACase (cnd "alice" "" true false OpUnk) [AText (B " A")];
                             ACase (cnd "bob" "" true false OpUnk) [AText (B " B")]] [AText (B " ?")] true;
    AIfOK (B "nm") (B "has") (B "user.name") false false [AText (B " "); APrint [] (B "nm") [] [] [] false] [AText (B " anon")] true;
    AIfOK (B "nm") (B "has") (B "user.nick") false true [AText (B " nonick")] [] false;
    ACtx (B "x") (B "user.age") [] false []; ACounter (B "n") true OpUnk 5; ACounter (B "n") false OpInc 2;
    AText (B " "); APrint [] (B "x") [] [] [] false; APrint [] (B "n") [] (B "/") [] false;
    AExit; AText (B "unreached") ].

Example sample_supported : forallb (wf_supported true) t_sample = true.
Proof. vm_compute. reflexivity. Qed.

Example sample_agrees :
  mout t_sample c_sample = Some (B "Hi BOB: 0,1,2 a|b&lt; adult B bob nonick 42/7", Some EInterrupt) /\
  rout t_sample c_sample = (B "Hi BOB: 0,1,2 a|b&lt; adult B bob nonick 42/7", SExit).
Proof. vm_compute. split; reflexivity. Qed.

(* separators are escaped by the bound tag in effect, like static text, on both sides *)
Definition t_sep_region :=
  [ARegion FHtml [ACLoop (B "i") (B "0") (B "3") true true OpLt OpInc (B "<") [APrint [] (B "i") [] [] [] false] [] false]].
Example separator_in_region_agrees :
  mout t_sep_region ctx_new = Some (B "0&lt;1&lt;2", None) /\ rout t_sep_region ctx_new = (B "0&lt;1&lt;2", SNone).
Proof. vm_compute. split; reflexivity. Qed.

(* signals and writer faults leave an if-ok block (the defect fixed in the engine was that errors
   raised inside the block were swallowed) *)
Definition t_exit_in_ifok :=
  [AIfOK (B "v") (B "ok") (B "u") false false [APrint [] (B "v") [] [] [] false; AExit] [AText (B "F")] true; AText (B "after")].
Example exit_in_ifok_agrees :
  mout t_exit_in_ifok c_ifok = Some (B "bob", Some EInterrupt) /\ rout t_exit_in_ifok c_ifok = (B "bob", SExit).
Proof. vm_compute. split; reflexivity. Qed.

Definition t_break_in_ifok :=
  [ACLoop (B "i") (B "0") (B "3") true true OpLt OpInc []
     [AText (B "a"); AIfOK (B "v") (B "ok") (B "e") false true [ABreak false 1 false no_cond] [] false; AText (B "b")] [] false;
   AText (B "z")].
Example break_in_ifok_agrees :
  mout t_break_in_ifok c_ifok = Some (B "az", None) /\ rout t_break_in_ifok c_ifok = (B "az", SNone).
Proof. vm_compute. split; reflexivity. Qed.

Example writer_fault_in_ifok_reported :
  match run_nodes [] nolook 100 noinc (compile_tpl t_exit_in_ifok) c_ifok (wr_new (Some 1%nat) 0) with
  | Out _ w e => (wr_bytes w, e, w_failed w) = ([], Some EWriter, true)
  | _ => False
  end.
Proof. vm_compute. reflexivity. Qed.

(* a case with an empty body wins over later cases and the default, and renders nothing; a
   trailing empty case / empty default is dropped by the parser and changes nothing *)
Definition c_x1 := ctx_set (B "x") (VInt 1) false ctx_new.
Definition t_switch_empty_cases :=
  [ASwitch (B "x") [ACase (cnd "1" "" true false OpUnk) []; ACase (cnd "1" "" true false OpUnk) [AText (B "late")]] [AText (B "dflt")] true;
   AText (B "|");
   ASwitch (B "x") [ACase (cnd "2" "" true false OpUnk) [AText (B "two")]; ACase (cnd "1" "" true false OpUnk) []] [] false;
   AText (B "|");
   ASwitch (B "x") [ACase (cnd "2" "" true false OpUnk) [AText (B "two")]] [AComment (B "nothing")] true].
Example switch_empty_bodies_agree :
  forallb (wf_supported true) t_switch_empty_cases = true /\
  mout t_switch_empty_cases c_x1 = Some (B "||", None) /\ rout t_switch_empty_cases c_x1 = (B "||", SNone).
Proof. vm_compute. repeat split. Qed.

(* a void source (nil, or an empty string / byte value) assigns nothing: the ok flag is false and
   the target keeps its old value, on both sides *)
Definition c_void := ctx_set (B "s") (VStr []) false ctx_new.
Definition t_void_source :=
  [ACtx (B "x") (B "pre") [] true []; ACtx (B "x") (B "s") (B "ok") false [];
   APrint [] (B "x") [] [] [] false; APrint [] (B "ok") [] [] [] false].
Example void_source_assigns_nothing :
  forallb (wf_supported true) t_void_source = true /\
  mout t_void_source c_void = Some (B "prefalse", None) /\ rout t_void_source c_void = (B "prefalse", SNone).
Proof. vm_compute. repeat split. Qed.
