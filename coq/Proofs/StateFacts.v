(* Context state: reset, deferred functions, pooled objects. *)
From DT Require Import Model.Bytes Model.Value Model.Tree Model.Interp.

(* Reset: every piece of logical state is that of a new context; the log gains one release per
   pooled object, in acquisition order *)
Lemma reset_state c :
  ctx_reset c = mkCtx [] false false false false [] 0%Z None false [] [] 0
                      (rev (map EvRelease (ipv c)) ++ elog c).
Proof.
  unfold ctx_reset. f_equal.
  generalize (elog c). induction (ipv c) as [|p l IH]; intros lg; [reflexivity|].
  cbn [fold_left map rev]. rewrite IH. rewrite <- app_assoc. reflexivity.
Qed.

Lemma reset_forgets c1 c2 :
  ipv c1 = ipv c2 -> elog c1 = elog c2 -> ctx_reset c1 = ctx_reset c2.
Proof. intros H1 H2. rewrite !reset_state, H1, H2. reflexivity. Qed.

(* a reset context differs from a new one in the event log only *)
Lemma reset_is_new_modulo_log c :
  let r := ctx_reset c in
  vars r = vars ctx_new /\ chQB r = chQB ctx_new /\ chJQ r = chJQ ctx_new /\ chHE r = chHE ctx_new /\
  chUE r = chUE ctx_new /\ bufLC r = bufLC ctx_new /\ brkD r = brkD ctx_new /\ cerr r = cerr ctx_new /\
  bufB r = bufB ctx_new /\ dfr r = dfr ctx_new /\ ipv r = ipv ctx_new /\ wd r = wd ctx_new.
Proof. cbn. repeat split; reflexivity. Qed.

(* deferred functions: each registered one runs exactly once, in registration order, and the list is emptied *)
Lemma fold_log l : forall c n,
  elog (fold_left (fun c t => log_ev (EvRun t n) c) l c) = rev (map (fun t => EvRun t n) l) ++ elog c /\
  dfr (fold_left (fun c t => log_ev (EvRun t n) c) l c) = dfr c.
Proof.
  induction l as [|t l IH]; intros c n; [split; reflexivity|].
  cbn [fold_left map rev]. destruct (IH (log_ev (EvRun t n) c) n) as [H1 H2]. split.
  - rewrite H1. cbn [elog log_ev]. rewrite <- app_assoc. reflexivity.
  - rewrite H2. reflexivity.
Qed.

Lemma run_deferred_spec c n :
  elog (run_deferred c n) = rev (map (fun t => EvRun t n) (dfr c)) ++ elog c /\ dfr (run_deferred c n) = [].
Proof.
  unfold run_deferred. split; [|reflexivity].
  destruct (fold_log (dfr c) c n) as [H _]. exact H.
Qed.
