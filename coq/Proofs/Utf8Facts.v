From Coq Require Import ZifyN ZifyBool.
From DT Require Import Model.Bytes Proofs.BytesFacts Model.Utf8.
Local Open Scope N_scope.
Ltac Zify.zify_post_hook ::= Z.div_mod_to_equations.

Lemma b2n_n2b x : x < 256 -> b2n (n2b x) = x.
Proof.
  intros H. unfold b2n, n2b.
  destruct (Byte.of_N x) as [b|] eqn:E.
  - apply Byte.to_of_N in E. exact E.
  - apply Byte.of_N_None_iff in E. lia.
Qed.

Lemma n2b_b2n b : n2b (b2n b) = b.
Proof. unfold n2b, b2n. rewrite Byte.of_to_N. reflexivity. Qed.

Lemma b2n_lt b : b2n b < 256.
Proof. pose proof (Byte.to_N_bounded b). unfold b2n. lia. Qed.

Arguments N.div : simpl never.
Arguments N.modulo : simpl never.
Arguments N.mul : simpl never.
Arguments N.add : simpl never.
Arguments N.sub : simpl never.
Arguments N.ltb : simpl never.
Arguments N.leb : simpl never.
Arguments N.eqb : simpl never.

Lemma decode_encode_one r rest :
  is_scalar r = true -> utf8_decode (utf8_encode r ++ rest) = r :: utf8_decode rest.
Proof.
  unfold is_scalar, utf8_encode. intros Hs.
  destruct (r <? 128) eqn:H1.
  { cbn [app utf8_decode]. rewrite b2n_n2b by lia. rewrite H1. reflexivity. }
  destruct (r <? 2048) eqn:H2.
  { cbn [app utf8_decode]. rewrite !b2n_n2b by lia. unfold btw.
    replace (192 + r / 64 <? 128) with false by lia.
    replace ((194 <=? 192 + r / 64) && (192 + r / 64 <=? 223)) with true by lia.
    replace ((128 <=? 128 + r mod 64) && (128 + r mod 64 <=? 191)) with true by lia.
    f_equal. lia. }
  destruct (r <? 65536) eqn:H3.
  { cbn [app utf8_decode]. rewrite !b2n_n2b by lia. unfold btw.
    replace (224 + r / 4096 <? 128) with false by lia.
    replace ((194 <=? 224 + r / 4096) && (224 + r / 4096 <=? 223)) with false by lia.
    replace ((224 <=? 224 + r / 4096) && (224 + r / 4096 <=? 239)) with true by lia.
    match goal with |- (if ?c then _ else _) = _ => replace c with true end.
    - f_equal. lia.
    - destruct (224 + r / 4096 =? 224) eqn:E1; destruct (224 + r / 4096 =? 237) eqn:E2; lia. }
  { cbn [app utf8_decode]. rewrite !b2n_n2b by lia. unfold btw.
    replace (240 + r / 262144 <? 128) with false by lia.
    replace ((194 <=? 240 + r / 262144) && (240 + r / 262144 <=? 223)) with false by lia.
    replace ((224 <=? 240 + r / 262144) && (240 + r / 262144 <=? 239)) with false by lia.
    replace ((240 <=? 240 + r / 262144) && (240 + r / 262144 <=? 244)) with true by lia.
    match goal with |- (if ?c then _ else _) = _ => replace c with true end.
    - f_equal. lia.
    - destruct (240 + r / 262144 =? 240) eqn:E1; destruct (240 + r / 262144 =? 244) eqn:E2; lia. }
Qed.

Theorem utf8_decode_encode rs :
  forallb is_scalar rs = true -> utf8_decode (utf8_encode_all rs) = rs.
Proof.
  induction rs as [|r rs IH]; intros H; [reflexivity|].
  cbn [forallb] in H. apply andb_true_iff in H. destruct H as [Hr Hrs].
  unfold utf8_encode_all in *. cbn [flat_map]. rewrite decode_encode_one by exact Hr.
  rewrite IH by exact Hrs. reflexivity.
Qed.
