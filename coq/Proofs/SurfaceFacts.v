(* C13: conditions that must surface as a returned error (never as a crash): unknown node
   type, unknown condition helper, missing template, missing helper argument. *)
From DT Require Import Model.Bytes Model.Value Model.Tree Model.Mods Model.Interp.
Local Open Scope Z_scope.

Section S.
  Variable flits : list (bytes * Z).
  Variable lookup : list bytes -> option tree.
  Variable budget : nat.
  Variable inc : tree -> ctx -> option (ctx * bytes * option err).
  Notation wn := (write_node flits lookup budget inc).

  Lemma unknown_node_is_error t c w : wn (NOther t) c w = Out (set_cerr None c) w (Some EUnknownCtl).
  Proof. reflexivity. Qed.

  (* an if-ok block whose helper is not registered *)
  Lemma unknown_ok_helper_is_error k ci child c w :
    cHlp ci <> [] -> bytes_eqb (cHlp ci) n_vok = false ->
    wn (NCondOK k ci child) c w = Out (set_cerr None c) w (Some ECondHlpNotFound).
  Proof.
    intros H1 H2. cbn [write_node]. destruct (cHlp ci) as [|b l] eqn:E; [congruence|]. rewrite H2. reflexivity.
  Qed.

  Lemma missing_template_is_error names c w :
    lookup names = None -> wn (NInclude names) c w = Out (set_cerr None c) w (Some ETplNotFound).
  Proof. intros H. cbn [write_node]. rewrite H. reflexivity. Qed.

  Lemma unknown_helper_is_error ci child c w :
    cHlp ci <> [] -> cLC ci = LcNone -> cond_known (cHlp ci) = false ->
    wn (NCond ci child) c w = Out (set_cerr None c) w (Some ECondHlpNotFound).
  Proof.
    intros H1 H2 H3. cbn [write_node]. destruct (cHlp ci) as [|b l] eqn:E; [congruence|].
    rewrite H2, H3. reflexivity.
  Qed.

  Lemma len_without_argument_is_error ci child c w :
    cHlp ci <> [] -> cLC ci <> LcNone -> cHlpArg ci = [] ->
    wn (NCond ci child) c w = Out (set_cerr None c) w (Some EModNoArgs).
  Proof.
    intros H1 H2 H3. cbn [write_node]. destruct (cHlp ci) as [|b l] eqn:E; [congruence|].
    destruct (cLC ci) eqn:E2; [congruence| |]; rewrite H3; reflexivity.
  Qed.

  (* a value that cannot be converted to text is an error of the print, not a crash *)
  Lemma write_value_total c w t pfx sfx noesc : exists c' w' e, write_value c w t pfx sfx noesc = Out c' w' e.
  Proof.
    unfold write_value.
    destruct (match pfx with [] => (w, None) | _ :: _ => write_raw c w pfx end) as [w1 [e1|]]; [eauto|].
    destruct (if noesc then let (w', ok) := wr_write w1 t in (w', if ok then None else Some EWriter) else write_raw c w1 t) as [w2 [e2|]]; [eauto|].
    destruct sfx; [eauto|]. destruct (write_raw c w2 (b :: sfx)). eauto.
  Qed.
End S.

(* every pure built-in modifier answers for every value and every argument list (totality is by
   construction; this states the shape: a value, one of four errors, or "not a pure modifier") *)
Lemma pure_mod_cases bl id v args :
  (exists v', pure_mod bl id v args = POk v') \/ (exists e, pure_mod bl id v args = PErr e) \/ pure_mod bl id v args = PImpure.
Proof. destruct (pure_mod bl id v args); eauto. Qed.
