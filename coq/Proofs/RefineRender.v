(* Whole renders: with the include hypothesis discharged by induction on the include depth,
   Write() on the compiled template agrees with ref_render. *)
From DT Require Import Model.Bytes Proofs.BytesFacts Model.Value Model.Tree Model.Mods Model.Interp
  Spec.Ast Spec.RefEval Spec.Compile Proofs.InterpFacts Proofs.FlatProofs Proofs.RefineBase
  Proofs.RefineCond Proofs.RefineList Proofs.RefineMods Proofs.RefineNodes Proofs.RefineLoops
  Proofs.RefineSafe Proofs.RefineMain.
Local Open Scope Z_scope.

Section Render.
  Variable flits : list (bytes * Z).
  Variable lookup : list bytes -> option tree.
  Variable budget : nat.
  Variable rlookup : list bytes -> option (list ast).

  Hypothesis Hlookup : lookup_ok lookup rlookup.
  (* every registered template is in the supported sub-language *)
  Hypothesis Hreg : forall names t, rlookup names = Some t -> forallb (wf_supported true) t = true.

  Lemma run_deferred_ceq c n : ceq (run_deferred c n) c.
  Proof.
    unfold run_deferred.
    assert (G : forall l c0, ceq (fold_left (fun c t => log_ev (EvRun t n) c) l c0) c0).
    { induction l as [|t l IH]; intros c0; [apply ceq_refl|]. cbn [fold_left].
      eapply ceq_trans; [apply IH|]. repeat split. }
    eapply ceq_trans; [|apply G]. repeat split.
  Qed.

  (* write() around the nodes of a template: exit is success, deferred functions do not show *)
  Lemma write_tpl_out inc t c w c1 w1 e :
    run_nodes flits lookup budget inc t (set_wd (S (wd c)) c) w = Out c1 w1 e ->
    exists c2, write_tpl flits lookup budget inc t c w =
               Out c2 w1 (match e with Some EInterrupt => None | _ => e end) /\ ceq c2 c1.
  Proof.
    intros H. unfold write_tpl. rewrite H.
    set (c1' := set_wd (Nat.pred (wd c1)) c1).
    assert (Q : ceq c1' c1) by (repeat split).
    destruct (match e with Some EInterrupt => None | _ => e end) as [x|] eqn:EE.
    - exists c1'. split; [reflexivity|exact Q].
    - destruct (wd c1').
      + eexists. split; [reflexivity|]. eapply ceq_trans; [apply run_deferred_ceq|exact Q].
      + exists c1'. split; [reflexivity|exact Q].
  Qed.

  Lemma inc_ok_depth : forall depth L,
    inc_ok (render_inc flits lookup budget depth) rlookup (ref_inc flits rlookup budget depth) L.
  Proof.
    induction depth as [|d IH]; intros L names t Hn c HI o e' s E; [discriminate E|].
    cbn [ref_inc] in E. inversion E as [E']. clear E.
    cbn [render_inc].
    assert (HIw : Inv L (set_wd (S (wd c)) c)) by exact HI.
    assert (Hw : w_fail (wr_new None 0) = None) by reflexivity.
    assert (TR : sig_dom s ->
      exists c' w' eo, run_nodes flits lookup budget (render_inc flits lookup budget d) (compile_tpl t)
                         (set_wd (S (wd c)) c) (wr_new None 0) = Out c' w' eo /\
                       wr_bytes w' = wr_bytes (wr_new None 0) ++ o /\ w_fail w' = None /\
                       post L s c' e' /\ sig_rel s eo).
    { intros D.
      apply (tpl_refines_ref flits lookup budget (render_inc flits lookup budget d) rlookup
                             (ref_inc flits rlookup budget d) Hlookup IH t L (Hreg names t Hn)
                             (set_wd (S (wd c)) c) (wr_new None 0) HIw Hw o e' s); [exact E'|exact D]. }
    destruct s; try exact I.
    - destruct (TR I) as (c' & w' & eo & R & B & F & [A I'] & S). cbn [sig_rel] in S. subst eo.
      destruct (write_tpl_out _ _ _ _ _ _ _ R) as (c2 & W & Q). rewrite W.
      exists c2. split; [rewrite B; reflexivity|]. split; [rewrite (ceq_abs _ _ Q); exact A|exact (ceq_Inv L _ _ Q I')].
    - destruct (TR I) as (c' & w' & eo & R & B & F & [A I'] & S). cbn [sig_rel] in S. subst eo.
      destruct (write_tpl_out _ _ _ _ _ _ _ R) as (c2 & W & Q). rewrite W.
      exists c2. split; [rewrite B; reflexivity|]. split; [rewrite (ceq_abs _ _ Q); exact A|exact (ceq_Inv L _ _ Q I')].
    - intros D. destruct (TR D) as (c' & w' & eo & R & B & F & [A I'] & S). cbn [sig_rel] in S. subst eo.
      destruct (write_tpl_out _ _ _ _ _ _ _ R) as (c2 & W & Q). rewrite W.
      exists c2, (wr_bytes w'). split; [destruct e; try reflexivity; discriminate D|].
      split; [rewrite (ceq_abs _ _ Q); exact A|exact (ceq_Inv L _ _ Q I')].
  Qed.

  (* the error Write() returns for a reference signal at template level *)
  Definition ref_err (s : sig) : option err :=
    match s with
    | SNone | SExit => None
    | SBrk => Some EBreak
    | SLazy => Some ELBreak
    | SCont => Some ECont
    | SErr x => Some x
    | SNA => None
    end.

  Lemma ref_render_items depth items e :
    let '(o, e1, s) := ref_items flits rlookup budget (ref_inc flits rlookup budget depth) items e in
    ref_render flits rlookup budget depth items e = (o, e1, ref_err s, match s with SNA => false | _ => true end).
  Proof.
    unfold ref_render. destruct (ref_items _ _ _ _ items e) as [[o e1] s]. destruct s; reflexivity.
  Qed.

  (* Write(w, key, ctx) on the outermost level *)
  Theorem render_refines : forall depth items c w,
    forallb (wf_supported true) items = true -> Inv [] c -> w_fail w = None ->
    forall o e1 s,
      ref_items flits rlookup budget (ref_inc flits rlookup budget depth) items (abs c) = (o, e1, s) -> sig_dom s ->
    exists c' w',
      render flits lookup budget depth (compile_tpl items) c w = Out c' w' (ref_err s) /\
      wr_bytes w' = wr_bytes w ++ o /\ w_fail w' = None /\ post [] s c' e1.
  Proof.
    intros depth items c w W HI Hw o e1 s E D. unfold render.
    assert (HIw : Inv [] (set_wd (S (wd c)) c)) by exact HI.
    destruct (tpl_refines_ref flits lookup budget (render_inc flits lookup budget depth) rlookup
                (ref_inc flits rlookup budget depth) Hlookup (inc_ok_depth depth) items [] W
                (set_wd (S (wd c)) c) w HIw Hw o e1 s E D) as (c' & w' & eo & R & B & F & P & S).
    destruct (write_tpl_out _ _ _ _ _ _ _ R) as (c2 & Wt & Q). rewrite Wt.
    exists c2, w'. split; [|split; [exact B|split; [exact F|]]].
    - f_equal. destruct s; cbn [sig_rel sig_dom] in S, D; try subst eo; try reflexivity; try contradiction.
      destruct e; try reflexivity; discriminate D.
    - destruct P as [A I']. split; [rewrite (ceq_abs _ _ Q); exact A|exact (ceq_Inv [] _ _ Q I')].
  Qed.
End Render.
