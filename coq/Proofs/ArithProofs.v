(* C20 — proofs about the arithmetic modifiers (Model/Arith.v against the real operations,
   through the one rounding real -> binary64 of Spec/RoundSpec.v). *)
From Coq Require Import ZArith Reals Bool Lia Lra SpecFloat.
From Flocq Require Import Core.Core IEEE754.BinarySingleNaN.
From DT Require Import Model.Round Model.Arith Spec.RoundSpec Proofs.RoundProofs.
Local Open Scope R_scope.

Local Notation fin := (@is_finite 53 1024).
Local Notation val := (@B2R 53 1024).
Local Notation top := (bpow radix2 1024).

(* the rounding of the specification is, literally, Flocq's rounding to nearest even in the
   binary64 format (53 bits, least exponent 3 - 1024 - 53 = -1074) *)
Lemma round_NE_flocq : forall r : R,
  round_NE r = round radix2 (FLT_exp (3 - 1024 - 53) 53) (round_mode mode_NE) r.
Proof. reflexivity. Qed.

Lemma round_NE_fexp : forall r : R,
  round radix2 (SpecFloat.fexp 53 1024) (round_mode mode_NE) r = round_NE r.
Proof. reflexivity. Qed.

Lemma overflow_NE : forall s : bool, binary_overflow 53 1024 mode_NE s = S754_infinity s.
Proof. reflexivity. Qed.

Lemma B2SF_infinity : forall (z : f64) (s : bool), B2SF z = S754_infinity s -> z = B754_infinity s.
Proof. intros [s' | s' | | s' m e H] s E; cbn [B2SF] in E; try discriminate E. injection E as ->. reflexivity. Qed.

(* ------------------------------------------------------------------ *)
(* + - * / sqrt: correctly rounded                                     *)
(* ------------------------------------------------------------------ *)

Lemma add_correct : forall x y : f64, fin x = true -> fin y = true ->
  Rabs (round_NE (val x + val y)) < top ->
  val (fadd x y) = round_NE (val x + val y) /\ fin (fadd x y) = true.
Proof.
  intros x y Hx Hy Hlt.
  pose proof (Bplus_correct 53 1024 Hprec53 Hemax1024 mode_NE x y Hx Hy) as H.
  rewrite round_NE_fexp in H. rewrite Rlt_bool_true in H by exact Hlt.
  destruct H as [Hv [Hf _]]. split; [exact Hv | exact Hf].
Qed.

Lemma sub_correct : forall x y : f64, fin x = true -> fin y = true ->
  Rabs (round_NE (val x - val y)) < top ->
  val (fsub x y) = round_NE (val x - val y) /\ fin (fsub x y) = true.
Proof.
  intros x y Hx Hy Hlt.
  pose proof (Bminus_correct 53 1024 Hprec53 Hemax1024 mode_NE x y Hx Hy) as H.
  rewrite round_NE_fexp in H. rewrite Rlt_bool_true in H by exact Hlt.
  destruct H as [Hv [Hf _]]. split; [exact Hv | exact Hf].
Qed.

Lemma mul_correct : forall x y : f64, fin x = true -> fin y = true ->
  Rabs (round_NE (val x * val y)) < top ->
  val (fmul x y) = round_NE (val x * val y) /\ fin (fmul x y) = true.
Proof.
  intros x y Hx Hy Hlt.
  pose proof (Bmult_correct 53 1024 Hprec53 Hemax1024 mode_NE x y) as H.
  rewrite round_NE_fexp in H. rewrite Rlt_bool_true in H by exact Hlt.
  destruct H as [Hv [Hf _]]. split; [exact Hv |].
  unfold fmul. rewrite Hf, Hx, Hy. reflexivity.
Qed.

Lemma div_correct : forall x y : f64, fin x = true -> val y <> 0 ->
  Rabs (round_NE (val x / val y)) < top ->
  val (fdiv x y) = round_NE (val x / val y) /\ fin (fdiv x y) = true.
Proof.
  intros x y Hx Hy Hlt.
  pose proof (Bdiv_correct 53 1024 Hprec53 Hemax1024 mode_NE x y Hy) as H.
  rewrite round_NE_fexp in H. rewrite Rlt_bool_true in H by exact Hlt.
  destruct H as [Hv [Hf _]]. split; [exact Hv |].
  unfold fdiv. rewrite Hf. exact Hx.
Qed.

(* sqrt never overflows; for negative x (real sqrt = 0 by convention) the float is NaN, whose
   B2R is 0: the value equation holds for every x, the finiteness clause says when it means
   something *)
Lemma sqrt_correct : forall x : f64,
  val (fsqrt x) = round_NE (sqrt (val x)) /\
  (fin x = true -> Bsign x = false -> fin (fsqrt x) = true) /\
  (is_nan (fsqrt x) = false -> Bsign (fsqrt x) = Bsign x).
Proof.
  intros x.
  destruct (Bsqrt_correct 53 1024 Hprec53 Hemax1024 mode_NE x) as [Hv [Hf Hs]].
  split; [exact Hv |]. split; [| exact Hs].
  intros Hx Hsg. unfold fsqrt. rewrite Hf.
  destruct x as [s | s | | s m e H]; try reflexivity; try discriminate Hx.
  cbn [Bsign] in Hsg. rewrite Hsg. reflexivity.
Qed.

(* the square root of a negative number (and of -Inf) is NaN; of -0 it is -0 *)
Lemma sqrt_negative : forall x : f64, fin x = true -> val x < 0 -> fsqrt x = B754_nan.
Proof.
  intros [s | s | | s m e Hb] Hx Hv; try discriminate Hx.
  - cbn [B2R] in Hv. lra.
  - destruct s; [reflexivity |]. exfalso. cbn [B2R cond_Zopp] in Hv.
    pose proof (F2R_gt_0 radix2 (Float radix2 (Z.pos m) e) ltac:(reflexivity)). lra.
Qed.

Lemma sqrt_closed :
  fsqrt (B754_zero true) = B754_zero true /\ fsqrt (B754_zero false) = B754_zero false /\
  fsqrt (B754_infinity false) = B754_infinity false /\ fsqrt (B754_infinity true) = B754_nan /\
  fsqrt B754_nan = B754_nan.
Proof. repeat split. Qed.

(* ------------------------------------------------------------------ *)
(* overflow: the infinity of the right sign                            *)
(* ------------------------------------------------------------------ *)

Lemma add_overflow : forall x y : f64, fin x = true -> fin y = true ->
  top <= Rabs (round_NE (val x + val y)) ->
  fadd x y = B754_infinity (Bsign x) /\ Bsign x = Bsign y.
Proof.
  intros x y Hx Hy Hge.
  pose proof (Bplus_correct 53 1024 Hprec53 Hemax1024 mode_NE x y Hx Hy) as H.
  rewrite round_NE_fexp in H. rewrite Rlt_bool_false in H by exact Hge.
  destruct H as [H1 H2]. split; [| exact H2].
  apply B2SF_infinity. exact H1.
Qed.

Lemma sub_overflow : forall x y : f64, fin x = true -> fin y = true ->
  top <= Rabs (round_NE (val x - val y)) ->
  fsub x y = B754_infinity (Bsign x) /\ Bsign x = negb (Bsign y).
Proof.
  intros x y Hx Hy Hge.
  pose proof (Bminus_correct 53 1024 Hprec53 Hemax1024 mode_NE x y Hx Hy) as H.
  rewrite round_NE_fexp in H. rewrite Rlt_bool_false in H by exact Hge.
  destruct H as [H1 H2]. split; [| exact H2].
  apply B2SF_infinity. exact H1.
Qed.

Lemma mul_overflow : forall x y : f64,
  top <= Rabs (round_NE (val x * val y)) ->
  fmul x y = B754_infinity (xorb (Bsign x) (Bsign y)).
Proof.
  intros x y Hge.
  pose proof (Bmult_correct 53 1024 Hprec53 Hemax1024 mode_NE x y) as H.
  rewrite round_NE_fexp in H. rewrite Rlt_bool_false in H by exact Hge.
  apply B2SF_infinity. exact H.
Qed.

Lemma div_overflow : forall x y : f64, val y <> 0 ->
  top <= Rabs (round_NE (val x / val y)) ->
  fdiv x y = B754_infinity (xorb (Bsign x) (Bsign y)).
Proof.
  intros x y Hy Hge.
  pose proof (Bdiv_correct 53 1024 Hprec53 Hemax1024 mode_NE x y Hy) as H.
  rewrite round_NE_fexp in H. rewrite Rlt_bool_false in H by exact Hge.
  apply B2SF_infinity. exact H.
Qed.

(* the weaker reading: not finite, and not NaN *)
Lemma add_overflow_weak : forall x y : f64, fin x = true -> fin y = true ->
  top <= Rabs (round_NE (val x + val y)) ->
  fin (fadd x y) = false /\ is_nan (fadd x y) = false.
Proof.
  intros x y Hx Hy Hge. rewrite (proj1 (add_overflow x y Hx Hy Hge)). split; reflexivity.
Qed.

(* division by a zero: x / +-0 is the infinity of the combined sign for finite non-zero x *)
Lemma div_by_zero : forall (x : f64) (s : bool), fin x = true -> val x <> 0 ->
  fdiv x (B754_zero s) = B754_infinity (xorb (Bsign x) s).
Proof.
  intros [sx | sx | | sx m e H] s Hx Hv; try discriminate Hx.
  - exfalso. apply Hv. reflexivity.
  - reflexivity.
Qed.

(* ------------------------------------------------------------------ *)
(* integer operands                                                    *)
(* ------------------------------------------------------------------ *)

Lemma IZR_is_f64 : forall z : Z, (Z.abs z <= 2 ^ 53)%Z -> is_f64 (IZR z).
Proof.
  intros z Hz. unfold is_f64, f64_exp.
  destruct (Z.eq_dec (Z.abs z) (2 ^ 53)) as [E | NE].
  - assert (Hb : is_f64 (bpow radix2 53)).
    { apply generic_format_bpow. unfold f64_exp, FLT_exp. lia. }
    assert (Hp : IZR (2 ^ 53) = bpow radix2 53) by (rewrite <- IZR_Zpower by lia; reflexivity).
    assert (Hc : (z = 2 ^ 53 \/ z = - 2 ^ 53)%Z) by lia.
    destruct Hc as [-> | ->].
    + rewrite Hp. exact Hb.
    + rewrite opp_IZR, Hp. apply generic_format_opp. exact Hb.
  - apply generic_format_FLT.
    apply (FLT_spec radix2 (-1074) 53 (IZR z) (Float radix2 z 0)).
    + unfold F2R. cbn [Fnum Fexp bpow]. ring.
    + cbn [Fnum]. change (Zpower radix2 53) with (2 ^ 53)%Z. lia.
    + cbn [Fexp]. lia.
Qed.

Lemma IZR_lt_top : forall (z : Z) (e : Z), (0 <= e < 1024)%Z -> (Z.abs z <= 2 ^ e)%Z ->
  Rabs (IZR z) < top.
Proof.
  intros z e He Hz. rewrite <- abs_IZR.
  apply Rle_lt_trans with (IZR (2 ^ e)).
  - apply IZR_le. exact Hz.
  - change 2%Z with (radix_val radix2). rewrite IZR_Zpower by lia. apply bpow_lt. lia.
Qed.

Lemma conv_int_exact : forall z : Z, (Z.abs z <= 2 ^ 53)%Z ->
  val (conv_int z) = IZR z /\ fin (conv_int z) = true.
Proof.
  intros z Hz. unfold conv_int. apply of_Z_exact.
  - apply IZR_is_f64. exact Hz.
  - apply (IZR_lt_top z 53); [lia | exact Hz].
Qed.

(* every integer below 2^1023 in magnitude (so every int64 and uint64) converts to the
   nearest binary64 *)
Lemma of_Z_rounds : forall (z : Z) (e : Z), (0 <= e < 1024)%Z -> (Z.abs z <= 2 ^ e)%Z ->
  val (of_Z z) = round_NE (IZR z) /\ fin (of_Z z) = true.
Proof.
  intros z e He Hz.
  pose proof (binary_normalize_correct 53 1024 Hprec53 Hemax1024 mode_NE z 0 false) as H.
  cbv zeta in H.
  assert (HF : F2R (Float radix2 z 0) = IZR z).
  { unfold F2R. cbn [Fnum Fexp bpow]. ring. }
  rewrite HF, round_NE_fexp in H.
  rewrite Rlt_bool_true in H.
  - destruct H as [Hv [Hf _]]. split; [exact Hv | exact Hf].
  - apply Rle_lt_trans with (bpow radix2 e); [| apply bpow_lt; lia].
    unfold round_NE. apply abs_round_le_generic.
    + apply FLT_exp_valid. reflexivity.
    + apply valid_rnd_N.
    + apply generic_format_bpow. unfold f64_exp, FLT_exp. lia.
    + rewrite <- abs_IZR, <- IZR_Zpower by lia. apply IZR_le. exact Hz.
Qed.

Lemma conv_int_rounds : forall z : Z, (Z.abs z < 2 ^ 64)%Z ->
  val (conv_int z) = round_NE (IZR z) /\ fin (conv_int z) = true.
Proof. intros z Hz. apply (of_Z_rounds z 64); lia. Qed.

(* ------------------------------------------------------------------ *)
(* inc / dec                                                           *)
(* ------------------------------------------------------------------ *)

Lemma one_value : val (of_Z 1) = 1 /\ fin (of_Z 1) = true.
Proof. apply (conv_int_exact 1). vm_compute. discriminate. Qed.

Lemma inc_dec : forall x y : f64,
  math_op AInc x y = fadd x (of_Z 1) /\ math_op ADec x y = fsub x (of_Z 1) /\
  val (of_Z 1) = 1 /\ fin (of_Z 1) = true.
Proof. intros x y. split; [reflexivity |]. split; [reflexivity |]. exact one_value. Qed.

(* adding a float to a finite float moves the result at most twice that float away: x itself
   is a candidate for the rounding of x + d.  Hence +1 / -1 never overflow. *)
Lemma round_near_operand : forall (x : f64) (d : R),
  Rabs (round_NE (val x + d) - (val x + d)) <= Rabs d.
Proof.
  intros x d.
  assert (Hv : Valid_exp f64_exp) by (apply FLT_exp_valid; reflexivity).
  pose proof (round_N_pt radix2 f64_exp (fun t => negb (Z.even t)) (val x + d)) as [_ Hn].
  specialize (Hn (val x) (val_is_f64 x)).
  replace (val x - (val x + d)) with (- d) in Hn by ring. rewrite Rabs_Ropp in Hn. exact Hn.
Qed.

Lemma small_step_no_overflow : forall (x : f64) (d : R), Rabs d <= 1 ->
  Rabs (round_NE (val x + d)) < top.
Proof.
  intros x d Hd.
  pose proof (round_near_operand x d) as Hn.
  pose proof (abs_B2R_le_emax_minus_prec 53 1024 Hprec53 x) as Hx.
  assert (H2 : 2 < bpow radix2 (1024 - 53)).
  { change 2 with (bpow radix2 1). apply bpow_lt. lia. }
  apply Rabs_le_inv in Hx. apply Rabs_le_inv in Hd.
  assert (Hn' : Rabs (round_NE (val x + d) - (val x + d)) <= 1).
  { eapply Rle_trans; [exact Hn |]. apply Rabs_le. exact Hd. }
  apply Rabs_le_inv in Hn'.
  apply Rabs_lt. lra.
Qed.

Lemma inc_correct : forall x y : f64, fin x = true ->
  val (math_op AInc x y) = round_NE (val x + 1) /\ fin (math_op AInc x y) = true.
Proof.
  intros x y Hx. destruct one_value as [H1 Hf].
  pose proof (small_step_no_overflow x 1 ltac:(unfold Rabs; destruct Rcase_abs; lra)) as Hlt.
  cbn [math_op]. unfold fone. rewrite <- H1 in *. apply add_correct; assumption.
Qed.

Lemma dec_correct : forall x y : f64, fin x = true ->
  val (math_op ADec x y) = round_NE (val x - 1) /\ fin (math_op ADec x y) = true.
Proof.
  intros x y Hx. destruct one_value as [H1 Hf].
  pose proof (small_step_no_overflow x (-1) ltac:(unfold Rabs; destruct Rcase_abs; lra)) as Hlt.
  replace (val x + -1) with (val x - 1) in Hlt by lra.
  cbn [math_op]. unfold fone. rewrite <- H1 in *. apply sub_correct; assumption.
Qed.

(* ------------------------------------------------------------------ *)
(* abs                                                                 *)
(* ------------------------------------------------------------------ *)

(* go_abs is IEEE abs except on -0, which the test f < 0 leaves alone *)
Lemma abs_is_Babs : forall x : f64, x <> B754_zero true -> go_abs x = Babs x.
Proof.
  intros [s | s | | s m e H] Hx.
  - destruct s; [exfalso; apply Hx; reflexivity | reflexivity].
  - destruct s; reflexivity.
  - reflexivity.
  - destruct s; reflexivity.
Qed.

Lemma abs_exact : forall x : f64, is_nan_b x = false -> val (go_abs x) = Rabs (val x).
Proof.
  intros x _.
  destruct x as [s | s | | s m e H].
  - destruct s; cbn; rewrite Rabs_R0; reflexivity.
  - rewrite abs_is_Babs by discriminate. apply B2R_Babs.
  - rewrite abs_is_Babs by discriminate. apply B2R_Babs.
  - rewrite abs_is_Babs by discriminate. apply B2R_Babs.
Qed.

Lemma abs_nan : go_abs B754_nan = B754_nan.
Proof. reflexivity. Qed.
Lemma abs_neg_zero : go_abs (B754_zero true) = B754_zero true.
Proof. reflexivity. Qed.
Lemma abs_neg_inf : go_abs (B754_infinity true) = B754_infinity false.
Proof. reflexivity. Qed.

Lemma abs_closed : go_abs B754_nan = B754_nan /\ go_abs (B754_zero true) = B754_zero true /\
  go_abs (B754_zero false) = B754_zero false /\
  go_abs (B754_infinity true) = B754_infinity false /\
  go_abs (B754_infinity false) = B754_infinity false.
Proof. repeat split. Qed.

(* finiteness is kept, and the sign of the result is + except for -0 *)
Lemma abs_total : forall x : f64,
  fin (go_abs x) = fin x /\ is_nan (go_abs x) = is_nan x /\
  (x <> B754_zero true -> Bsign (go_abs x) = false).
Proof.
  intros x. destruct x as [[|] | [|] | | [|] m e H]; cbn; repeat split; try reflexivity;
    intros Hx; exfalso; apply Hx; reflexivity.
Qed.

(* ------------------------------------------------------------------ *)
(* max / min                                                           *)
(* ------------------------------------------------------------------ *)

Lemma max_value : forall x y : f64, fin x = true -> fin y = true ->
  val (go_max x y) = Rmax (val x) (val y).
Proof.
  intros x y Hx Hy. unfold go_max.
  replace (is_pos_inf x || is_pos_inf y) with false
    by (destruct x, y; try discriminate Hx; try discriminate Hy; reflexivity).
  replace (is_nan_b x || is_nan_b y) with false
    by (destruct x, y; try discriminate Hx; try discriminate Hy; reflexivity).
  destruct (is_zero_b x && is_zero_b y) eqn:Ez.
  - apply andb_prop in Ez. destruct Ez as [Zx Zy].
    destruct x as [sx | | |]; try discriminate Zx. destruct y as [sy | | |]; try discriminate Zy.
    cbn [B2R]. rewrite Rmax_left by lra. destruct sx; reflexivity.
  - rewrite (Bcompare_correct 53 1024 x y Hx Hy).
    destruct (Rcompare_spec (val x) (val y)) as [Hc | Hc | Hc].
    + rewrite Rmax_right by lra. reflexivity.
    + rewrite Rmax_right by lra. reflexivity.
    + rewrite Rmax_left by lra. reflexivity.
Qed.

Lemma min_value : forall x y : f64, fin x = true -> fin y = true ->
  val (go_min x y) = Rmin (val x) (val y).
Proof.
  intros x y Hx Hy. unfold go_min.
  replace (is_neg_inf x || is_neg_inf y) with false
    by (destruct x, y; try discriminate Hx; try discriminate Hy; reflexivity).
  replace (is_nan_b x || is_nan_b y) with false
    by (destruct x, y; try discriminate Hx; try discriminate Hy; reflexivity).
  destruct (is_zero_b x && is_zero_b y) eqn:Ez.
  - apply andb_prop in Ez. destruct Ez as [Zx Zy].
    destruct x as [sx | | |]; try discriminate Zx. destruct y as [sy | | |]; try discriminate Zy.
    cbn [B2R]. rewrite Rmin_left by lra. destruct sx; reflexivity.
  - rewrite (Bcompare_correct 53 1024 x y Hx Hy).
    destruct (Rcompare_spec (val x) (val y)) as [Hc | Hc | Hc].
    + rewrite Rmin_left by lra. reflexivity.
    + rewrite Rmin_right by lra. reflexivity.
    + rewrite Rmin_right by lra. reflexivity.
Qed.

Lemma max_min_value : forall x y : f64, fin x = true -> fin y = true ->
  val (go_max x y) = Rmax (val x) (val y) /\ val (go_min x y) = Rmin (val x) (val y) /\
  fin (go_max x y) = true /\ fin (go_min x y) = true /\
  (go_max x y = x \/ go_max x y = y) /\ (go_min x y = x \/ go_min x y = y).
Proof.
  intros x y Hx Hy.
  assert (Hsel : (go_max x y = x \/ go_max x y = y) /\ (go_min x y = x \/ go_min x y = y)).
  { unfold go_max, go_min.
    replace (is_pos_inf x || is_pos_inf y) with false
      by (destruct x, y; try discriminate Hx; try discriminate Hy; reflexivity).
    replace (is_neg_inf x || is_neg_inf y) with false
      by (destruct x, y; try discriminate Hx; try discriminate Hy; reflexivity).
    replace (is_nan_b x || is_nan_b y) with false
      by (destruct x, y; try discriminate Hx; try discriminate Hy; reflexivity).
    destruct (is_zero_b x && is_zero_b y); [destruct (is_neg_zero x); auto |].
    destruct (Bcompare x y) as [[ | | ] |]; auto. }
  destruct Hsel as [Hmax Hmin].
  repeat split; try assumption.
  - apply max_value; assumption.
  - apply min_value; assumption.
  - destruct Hmax as [-> | ->]; assumption.
  - destruct Hmin as [-> | ->]; assumption.
Qed.

(* the signed zeros: max prefers +0, min prefers -0 *)
Lemma max_min_zeros :
  go_max (B754_zero false) (B754_zero true) = B754_zero false /\
  go_max (B754_zero true) (B754_zero false) = B754_zero false /\
  go_max (B754_zero true) (B754_zero true) = B754_zero true /\
  go_max (B754_zero false) (B754_zero false) = B754_zero false /\
  go_min (B754_zero false) (B754_zero true) = B754_zero true /\
  go_min (B754_zero true) (B754_zero false) = B754_zero true /\
  go_min (B754_zero true) (B754_zero true) = B754_zero true /\
  go_min (B754_zero false) (B754_zero false) = B754_zero false.
Proof. repeat split. Qed.

(* infinities and NaN: +Inf wins max even against NaN, -Inf wins min even against NaN,
   otherwise NaN propagates *)
Lemma max_min_special : forall x : f64,
  go_max (B754_infinity false) x = B754_infinity false /\
  go_max x (B754_infinity false) = B754_infinity false /\
  go_min (B754_infinity true) x = B754_infinity true /\
  go_min x (B754_infinity true) = B754_infinity true /\
  (is_pos_inf x = false -> go_max B754_nan x = B754_nan /\ go_max x B754_nan = B754_nan) /\
  (is_neg_inf x = false -> go_min B754_nan x = B754_nan /\ go_min x B754_nan = B754_nan).
Proof.
  intros x. destruct x as [[|] | [|] | | [|] m e Hb]; repeat split; try reflexivity; discriminate.
Qed.

(* the opposite infinity loses: max(-Inf, y) = y and min(+Inf, y) = y for every non-NaN y *)
Lemma max_min_losing_inf : forall y : f64, is_nan_b y = false ->
  go_max (B754_infinity true) y = y /\ go_max y (B754_infinity true) = y /\
  go_min (B754_infinity false) y = y /\ go_min y (B754_infinity false) = y.
Proof.
  intros y Hy. destruct y as [[|] | [|] | | [|] m e H]; try discriminate Hy; repeat split.
Qed.

(* ------------------------------------------------------------------ *)
(* commutativity, as equality of floats (hence of bit patterns)        *)
(* ------------------------------------------------------------------ *)

Lemma fadd_comm : forall x y : f64, fadd x y = fadd y x.
Proof.
  intros x y. unfold fadd.
  destruct x as [sx | sx | | sx mx ex Hx]; destruct y as [sy | sy | | sy my ey Hy];
    try reflexivity; try (destruct sx, sy; reflexivity).
  cbn [Bplus]. cbv zeta. unfold Fplus_naive.
  rewrite (Z.min_comm ey ex).
  rewrite (Z.add_comm (cond_Zopp sy _)). reflexivity.
Qed.

Lemma fmul_comm : forall x y : f64, fmul x y = fmul y x.
Proof.
  intros x y. unfold fmul.
  destruct x as [sx | sx | | sx mx ex Hx]; destruct y as [sy | sy | | sy my ey Hy];
    try reflexivity; try (destruct sx, sy; reflexivity).
  apply B2SF_inj. cbn [Bmult]. rewrite !B2SF_SF2B.
  rewrite (xorb_comm sy sx), (Pos.mul_comm my mx), (Z.add_comm ey ex). reflexivity.
Qed.

Lemma fadd_comm_bits : forall x y : f64, to_bits (fadd x y) = to_bits (fadd y x).
Proof. intros x y. rewrite (fadd_comm x y). reflexivity. Qed.

Lemma fmul_comm_bits : forall x y : f64, to_bits (fmul x y) = to_bits (fmul y x).
Proof. intros x y. rewrite (fmul_comm x y). reflexivity. Qed.
