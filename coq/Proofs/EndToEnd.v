(* From the bytes of a template to the bytes of its output: the parser model composed with the
   interpreter model.  (The refinement theorems of Proofs/Refine*.v start from a tree; these
   start from source text.) *)
From DT Require Import Model.Bytes Model.Value Model.Tree Model.Interp Model.Regex Model.ParserRe
  Model.ParserSkel Model.Parser Proofs.InterpFacts Proofs.ParserModelProofs.
Local Open Scope byte_scope.

Section EndToEnd.
  Variable T : retab.
  Variable E : penv.
  Variable flits : list (bytes * Z).
  Variable lookup : list bytes -> option tree.
  Variable budget : nat.
  Variable inc : tree -> ctx -> option (ctx * bytes * option err).

  (* a (cleaned) source without tags is accepted, and rendering the tree the parser builds for it
     hands a healthy writer exactly the bytes of the source *)
  Theorem static_source_renders_itself : forall s c w,
    find2 "{" "%" s = None ->
    w_fail w = None -> chJQ c = false -> chHE c = false -> chUE c = false ->
    exists tree,
      parse_clean T E s = POk tree /\
      exists c' w', run_nodes flits lookup budget inc tree c w = Out c' w' None /\
                    wr_bytes w' = wr_bytes w ++ s /\ w_fail w' = None.
  Proof.
    intros s c w Hf Hw Hj Hh Hu.
    rewrite (parse_static_text T E s Hf).
    destruct s as [|b s'].
    - exists []. split; [reflexivity|]. exists c, w. cbn [run_nodes].
      rewrite app_nil_r. auto.
    - exists [NRaw (b :: s')]. split; [reflexivity|].
      destruct (raw_verbatim flits lookup budget inc (b :: s') c w Hw Hj Hh Hu) as [w' [Hr [Hb [_ Hfw]]]].
      exists (set_cerr None c), w'. cbn [run_nodes]. rewrite Hr. cbn [run_nodes]. auto.
  Qed.
End EndToEnd.
