(* The source clean-up of the parser model: deleting every match of an expression
   (Model/Regex.v delete_all), the two passes of Parse (Model/Parser.v preprocess_re), and the
   byte helpers that transcribe bytes.Split / bytealg.Trim (split_on, trim_l, trim_b).
   [subseq] is the relation of Proofs/PreprocProofs.v (C01). *)
From DT Require Import Model.Bytes Model.Tree Model.Regex Model.ParserRe Model.ParserSkel
  Model.Parser Proofs.BytesFacts Proofs.PreprocProofs Proofs.RegexProofs
  Proofs.ParserModelProofs Proofs.ParserPieces.
From DT Require Gen.RegexTable.
Local Open Scope byte_scope.

(* ================================================================== *)
(* C. The helpers                                                      *)
(* ================================================================== *)

(* ---- 8. bytes.Split with a one-byte separator ---- *)

(* a1 ++ sep :: a2 ++ sep :: ... *)
Fixpoint join_with (sep : byte) (l : list bytes) : bytes :=
  match l with
  | [] => []
  | a :: r => match r with [] => a | _ :: _ => a ++ sep :: join_with sep r end
  end.

Lemma join_with_cons sep a b r : join_with sep (a :: b :: r) = a ++ sep :: join_with sep (b :: r).
Proof. reflexivity. Qed.

Theorem split_on_nonempty : forall sep s, split_on sep s <> [].
Proof. intros sep s. destruct (split_on_cons sep s) as (h & t & H). rewrite H. discriminate. Qed.

Lemma split_on_step sep c r :
  split_on sep (c :: r) =
  match split_on sep r with
  | h :: t => if beqb c sep then [] :: h :: t else (c :: h) :: t
  | [] => [[c]]
  end.
Proof. reflexivity. Qed.

(* the chunks, joined with the separator, are the text *)
Theorem split_on_join : forall sep s, join_with sep (split_on sep s) = s.
Proof.
  intros sep. induction s as [|c r IH]; [reflexivity|].
  rewrite split_on_step. destruct (split_on_cons sep r) as (h & t & Hs). rewrite Hs in *.
  destruct (beqb c sep) eqn:Hc.
  - apply pp_beqb_eq in Hc. subst c. rewrite join_with_cons, IH. reflexivity.
  - destruct t as [|b t].
    + cbn [join_with] in *. rewrite IH. reflexivity.
    + rewrite join_with_cons in *. cbn [app]. rewrite IH. reflexivity.
Qed.

(* no chunk contains the separator *)
Theorem split_on_chunks_free : forall sep s, forallb (free_of sep) (split_on sep s) = true.
Proof.
  intros sep. induction s as [|c r IH]; [reflexivity|].
  rewrite split_on_step. destruct (split_on_cons sep r) as (h & t & Hs). rewrite Hs in *.
  cbn [forallb] in IH. apply andb_true_iff in IH. destruct IH as [Hh Ht].
  destruct (beqb c sep) eqn:Hc.
  - cbn [forallb]. rewrite Hh, Ht. reflexivity.
  - cbn [forallb]. rewrite Ht. unfold free_of in *. cbn [forallb]. rewrite Hc, Hh. reflexivity.
Qed.

(* ... and the split is the only such decomposition *)
Theorem split_on_of_join : forall sep l, l <> [] -> forallb (free_of sep) l = true ->
  split_on sep (join_with sep l) = l.
Proof.
  intros sep. induction l as [|a r IH]; intros Hne Hl; [contradiction|].
  cbn [forallb] in Hl. apply andb_true_iff in Hl. destruct Hl as [Ha Hr].
  destruct r as [|b r].
  - cbn [join_with]. apply split_on_free. exact Ha.
  - rewrite join_with_cons, (split_on_app sep _ a Ha), IH; [reflexivity|discriminate|exact Hr].
Qed.

(* ---- 9. bytealg.Trim ---- *)

Lemma trim_l_prefix cut : forall s,
  exists p, s = p ++ trim_l cut s /\ forallb (in_set cut) p = true.
Proof.
  induction s as [|c r IH].
  - exists []. split; reflexivity.
  - cbn [trim_l]. destruct (in_set cut c) eqn:Hc.
    + destruct IH as (p & Hs & Hp). exists (c :: p). split.
      * cbn [app]. rewrite <- Hs. reflexivity.
      * cbn [forallb]. rewrite Hc, Hp. reflexivity.
    + exists []. split; reflexivity.
Qed.

Lemma trim_l_head cut : forall s,
  match trim_l cut s with c :: _ => in_set cut c = false | [] => True end.
Proof.
  induction s as [|c r IH]; [exact I|].
  cbn [trim_l]. destruct (in_set cut c) eqn:Hc; [exact IH|exact Hc].
Qed.

(* the result is a middle piece of the text, and only bytes of the cut set are left out *)
Theorem trim_b_infix : forall cut s,
  exists p q, s = p ++ trim_b cut s ++ q
              /\ forallb (in_set cut) p = true /\ forallb (in_set cut) q = true.
Proof.
  intros cut s. unfold trim_b.
  destruct (trim_l_prefix cut s) as (p & Hs & Hp).
  destruct (trim_l_prefix cut (rev (trim_l cut s))) as (q' & Hu & Hq).
  exists p, (rev q'). split; [|split; [exact Hp|rewrite forallb_rev; exact Hq]].
  rewrite <- rev_app_distr, <- Hu, rev_involutive. exact Hs.
Qed.

Theorem trim_b_sublist : forall cut s, subseq (trim_b cut s) s.
Proof.
  intros cut s. destruct (trim_b_infix cut s) as (p & q & Hs & _).
  rewrite Hs at 2. apply subseq_mid.
Qed.

(* the result neither starts nor ends with a byte of the cut set *)
Theorem trim_b_edges : forall cut s, edges_out cut (trim_b cut s) = true.
Proof.
  intros cut s. unfold trim_b.
  pose proof (trim_l_head cut s) as Hu.
  pose proof (trim_l_head cut (rev (trim_l cut s))) as Hw.
  destruct (trim_l_prefix cut (rev (trim_l cut s))) as (q' & Hq & _).
  set (u := trim_l cut s) in *. set (w := trim_l cut (rev u)) in *.
  assert (Eu : u = rev w ++ rev q').
  { rewrite <- rev_app_distr, <- Hq, rev_involutive. reflexivity. }
  destruct (rev w) as [|c0 t] eqn:Hr; [reflexivity|].
  cbn [edges_out]. rewrite <- Hr, rev_involutive.
  rewrite Eu in Hu. cbn [app] in Hu. rewrite Hu. cbn [negb andb].
  destruct w as [|x w']; [reflexivity|]. rewrite Hw. reflexivity.
Qed.

Theorem trim_b_idempotent : forall cut s, trim_b cut (trim_b cut s) = trim_b cut s.
Proof.
  intros cut s.
  pose proof (trim_b_strip cut [] (trim_b cut s) [] eq_refl eq_refl (trim_b_edges cut s)) as H.
  cbn [app] in H. rewrite app_nil_r in H. exact H.
Qed.

(* ================================================================== *)
(* A. Deleting matches                                                 *)
(* ================================================================== *)

Lemma dag_S f r s pos :
  delete_all_go (S f) r s pos =
  match search r s pos with
  | None => s
  | Some cs =>
    match cap_get cs 0 with
    | Some (a, b) =>
      if Nat.ltb a b then firstn (a - pos) s ++ delete_all_go f r (skipn (b - pos) s) b
      else match skipn (a - pos) s with
           | [] => firstn (a - pos) s
           | c :: rest => firstn (a - pos) s ++ c :: delete_all_go f r rest (S a)
           end
    | None => s
    end
  end.
Proof. reflexivity. Qed.

(* ---- sublists ---- *)

Lemma subseq_app_pre : forall p x y, subseq x y -> subseq (p ++ x) (p ++ y).
Proof. induction p as [|c p IH]; intros x y H; [exact H|]. cbn [app]. apply sub_keep, IH, H. Qed.

Lemma subseq_skipn : forall n s, subseq (skipn n s) s.
Proof.
  induction n as [|n IH]; intros s; [apply subseq_refl|].
  destruct s as [|c r]; [apply subseq_refl|]. cbn [skipn]. apply sub_skip, IH.
Qed.

Lemma subseq_skipn_le : forall n m s, n <= m -> subseq (skipn m s) (skipn n s).
Proof.
  induction n as [|n IH]; intros m s Hle; [apply subseq_skipn|].
  destruct m as [|m]; [lia|]. destruct s as [|c r]; [apply subseq_refl|].
  cbn [skipn]. apply IH. lia.
Qed.

Lemma subseq_firstn_app n s x : subseq x (skipn n s) -> subseq (firstn n s ++ x) s.
Proof.
  intros H. pose proof (firstn_skipn n s) as E. rewrite <- E at 2. apply subseq_app_pre. exact H.
Qed.

Lemma delete_all_go_sublist r : forall f s pos, subseq (delete_all_go f r s pos) s.
Proof.
  induction f as [|f IH]; intros s pos; [apply subseq_refl|].
  rewrite dag_S.
  destruct (search r s pos) as [cs|]; [|apply subseq_refl].
  destruct (cap_get cs 0) as [[a b]|]; [|apply subseq_refl].
  destruct (Nat.ltb a b) eqn:Hlt.
  - apply Nat.ltb_lt in Hlt. apply subseq_firstn_app.
    eapply subseq_trans; [apply (subseq_skipn_le (a - pos) (b - pos)); lia|apply IH].
  - destruct (skipn (a - pos) s) as [|c rest] eqn:Hsk.
    + rewrite <- (app_nil_r (firstn (a - pos) s)). apply subseq_firstn_app. rewrite Hsk. constructor.
    + apply subseq_firstn_app. rewrite Hsk. apply sub_keep, IH.
Qed.

(* 1. the clean-up only ever deletes bytes *)
Theorem delete_all_sublist : forall r s, subseq (delete_all r s) s.
Proof. intros r s. apply delete_all_go_sublist. Qed.

(* 2. nothing matches: nothing changes *)
Theorem delete_all_no_match : forall r s, re_find r s = None -> delete_all r s = s.
Proof.
  intros r s H. unfold delete_all. rewrite dag_S. unfold re_find in H. rewrite H. reflexivity.
Qed.

(* ---- where a search that starts at pos can report its match ---- *)

Lemma search_bounds r : forall s pos cs, search r s pos = Some cs ->
  exists a b, cap_get cs 0 = Some (a, b) /\ pos <= a /\ a <= b /\ b <= pos + length s.
Proof.
  assert (Hhere : forall s pos cs, match_at r s pos = Some cs ->
    exists a b, cap_get cs 0 = Some (a, b) /\ pos <= a /\ a <= b /\ b <= pos + length s).
  { intros s pos cs Hm. apply match_at_sound in Hm.
    destruct Hm as (x & rest & cs' & Hs & _ & Hcs). subst s cs.
    exists pos, (pos + length x). split; [reflexivity|]. rewrite app_length. lia. }
  induction s as [|c s IH]; intros pos cs H; rewrite search_unfold in H.
  - destruct (match_at r [] pos) as [cs0|] eqn:Hm; [|discriminate].
    inversion H; subst cs0. apply Hhere. exact Hm.
  - destruct (match_at r (c :: s) pos) as [cs0|] eqn:Hm.
    + inversion H; subst cs0. apply Hhere. exact Hm.
    + apply IH in H. destruct H as (a & b & Hc & H1 & H2 & H3).
      exists a, b. split; [exact Hc|]. cbn [length]. lia.
Qed.

Lemma skipn_cons_length {A} n (s : list A) c rest : skipn n s = c :: rest -> length rest < length s.
Proof.
  intros H. apply (f_equal (@length A)) in H. rewrite skipn_length in H. cbn [length] in H. lia.
Qed.

(* 3. any two fuels above the length of the text give the same result *)
Lemma delete_all_go_fuel r : forall f1 f2 s pos, length s < f1 -> length s < f2 ->
  delete_all_go f1 r s pos = delete_all_go f2 r s pos.
Proof.
  induction f1 as [|f1 IH]; intros f2 s pos H1 H2; [lia|].
  destruct f2 as [|f2]; [lia|].
  rewrite !dag_S.
  destruct (search r s pos) as [cs|] eqn:Hs; [|reflexivity].
  destruct (search_bounds r s pos cs Hs) as (a & b & Hc & Hpa & Hab & Hb).
  rewrite Hc.
  destruct (Nat.ltb a b) eqn:Hlt.
  - apply Nat.ltb_lt in Hlt. f_equal. apply IH; rewrite skipn_length; lia.
  - destruct (skipn (a - pos) s) as [|c rest] eqn:Hsk; [reflexivity|].
    pose proof (skipn_cons_length _ _ _ _ Hsk) as Hl.
    f_equal. f_equal. apply IH; lia.
Qed.

Theorem delete_all_fuel : forall r s f pos, (length s < f)%nat ->
  delete_all_go f r s pos = delete_all_go (S (length s)) r s pos.
Proof. intros r s f pos H. apply delete_all_go_fuel; [exact H|lia]. Qed.

(* the branch "no group 0" of delete_all_go is never taken *)
Lemma search_has_group0 r s pos cs : search r s pos = Some cs -> cap_get cs 0 <> None.
Proof.
  intros H. destruct (search_bounds r s pos cs H) as (a & b & Hc & _). rewrite Hc. discriminate.
Qed.

(* 4. one step of the scan: the text before the first match is kept, the match is dropped, the
      scan goes on behind it *)
Theorem delete_all_first_match : forall r s cs a b,
  re_find r s = Some cs -> cap_get cs 0 = Some (a, b) -> a < b ->
  delete_all r s = firstn a s ++ delete_all_go (length s) r (skipn b s) b.
Proof.
  intros r s cs a b Hf Hc Hlt. unfold delete_all. rewrite dag_S.
  unfold re_find in Hf. rewrite Hf, Hc.
  apply Nat.ltb_lt in Hlt. rewrite Hlt, !Nat.sub_0_r. reflexivity.
Qed.

(* the same with the rest of the scan written as a clean-up of its own (position b for ^) *)
Corollary delete_all_first_match' : forall r s cs a b,
  re_find r s = Some cs -> cap_get cs 0 = Some (a, b) -> a < b ->
  delete_all r s = firstn a s ++ delete_all_go (S (length (skipn b s))) r (skipn b s) b.
Proof.
  intros r s cs a b Hf Hc Hlt. rewrite (delete_all_first_match r s cs a b Hf Hc Hlt).
  f_equal. apply delete_all_fuel.
  unfold re_find in Hf. destruct (search_bounds r s 0 cs Hf) as (a' & b' & Hc' & _ & _ & Hb).
  rewrite Hc in Hc'. inversion Hc'; subst a' b'. rewrite skipn_length. lia.
Qed.

(* an empty first match deletes nothing: the byte behind it is kept and the scan goes on *)
Theorem delete_all_empty_match : forall r s cs a,
  re_find r s = Some cs -> cap_get cs 0 = Some (a, a) ->
  delete_all r s =
  match skipn a s with
  | [] => s
  | c :: rest => firstn a s ++ c :: delete_all_go (length s) r rest (S a)
  end.
Proof.
  intros r s cs a Hf Hc. unfold delete_all. rewrite dag_S.
  unfold re_find in Hf. rewrite Hf, Hc, Nat.ltb_irrefl, !Nat.sub_0_r.
  destruct (skipn a s) as [|c rest] eqn:Hsk; [|reflexivity].
  rewrite <- (firstn_skipn a s) at 2. rewrite Hsk, app_nil_r. reflexivity.
Qed.

(* ================================================================== *)
(* B. The whole clean-up                                               *)
(* ================================================================== *)

(* 5. *)
Theorem preprocess_re_sublist : forall T keep s, subseq (preprocess_re T keep s) s.
Proof.
  intros T keep s. unfold preprocess_re. destruct keep; [apply delete_all_sublist|].
  eapply subseq_trans; [apply delete_all_sublist|].
  eapply subseq_trans; [apply delete_all_sublist|apply trim_b_sublist].
Qed.

(* 6. *)
Theorem preprocess_re_identity : forall T s,
  re_find (t_reCutComments T) s = None -> preprocess_re T true s = s.
Proof. intros T s H. unfold preprocess_re. apply delete_all_no_match. exact H. Qed.

(* 7. *)
Theorem parse_keepfmt_static : forall T E s,
  re_find (t_reCutComments T) s = None -> find2 "{" "%" s = None ->
  parse T E true s = POk (match s with [] => [] | _ => [NRaw s] end).
Proof.
  intros T E s Hc Hf. unfold parse. rewrite (preprocess_re_identity T s Hc).
  apply parse_static_text. exact Hf.
Qed.

(* ================================================================== *)
(* 10. The committed table                                             *)
(* ================================================================== *)

(* "  a{# c #}<LF><TAB> b  " : the comment, the line break with its indentation and the blanks
   around the text go; with the format kept only the comment goes *)
Example ex_preprocess_re :
  preprocess_re DT.Gen.RegexTable.pinned false
    [" "; " "; "a"; "{"; "#"; " "; "c"; " "; "#"; "}"; x0a; x09; " "; "b"; " "; " "] = ["a"; "b"]
  /\ preprocess_re DT.Gen.RegexTable.pinned true
    [" "; " "; "a"; "{"; "#"; " "; "c"; " "; "#"; "}"; x0a; x09; " "; "b"; " "; " "]
     = [" "; " "; "a"; x0a; x09; " "; "b"; " "; " "].
Proof. split; vm_compute; reflexivity. Qed.

(* a{#b#}c{#d : the closed comment goes, the unclosed one stays;
   {#a#b#} is not a comment (no '#' inside one) *)
Example ex_delete_comments :
  delete_all (t_reCutComments DT.Gen.RegexTable.pinned)
    ["a"; "{"; "#"; "b"; "#"; "}"; "c"; "{"; "#"; "d"] = ["a"; "c"; "{"; "#"; "d"]
  /\ delete_all (t_reCutComments DT.Gen.RegexTable.pinned)
    ["{"; "#"; "a"; "#"; "b"; "#"; "}"] = ["{"; "#"; "a"; "#"; "b"; "#"; "}"].
Proof. split; vm_compute; reflexivity. Qed.

(* what the format pass leaves: blanks BEFORE a line break stay ("a  <LF><LF> b" -> "a  b"),
   and so does the carriage return of a CR LF source ("a<CR><LF>  b<CR><LF>" -> "a<CR>b<CR>":
   the expression starts at the line feed and the final trim knows blank, tab and line feed only) *)
Example ex_format_leftovers :
  preprocess_re DT.Gen.RegexTable.pinned false ["a"; " "; " "; x0a; x0a; " "; "b"] = ["a"; " "; " "; "b"]
  /\ preprocess_re DT.Gen.RegexTable.pinned false ["a"; x0d; x0a; " "; " "; "b"; x0d; x0a]
     = ["a"; x0d; "b"; x0d].
Proof. split; vm_compute; reflexivity. Qed.

(* expressions that can match the empty string: a* on "baab" deletes the run and nothing else,
   the lazy a*? deletes nothing; ^a on "aab" deletes the first byte only (the second scan
   starts at offset 1, where ^ does not hold) *)
Example ex_delete_empty_matches :
  delete_all (RStar (RCls [(97, 97)]%N) true) ["b"; "a"; "a"; "b"] = ["b"; "b"]
  /\ delete_all (RStar (RCls [(97, 97)]%N) false) ["b"; "a"; "a"; "b"] = ["b"; "a"; "a"; "b"]
  /\ delete_all (RCat RBol (RCls [(97, 97)]%N)) ["a"; "a"; "b"] = ["a"; "b"].
Proof. repeat split; vm_compute; reflexivity. Qed.
