(* Canonical decimal text of integers: print_Z / parse_Z round trip and shape of print_Z. *)
From Coq Require Import Decimal DecimalFacts DecimalPos.
From DT Require Import Model.Bytes Model.Value Proofs.BytesFacts.
Local Open Scope N_scope.

(* ---- the value of a digit string read left to right with an accumulator ---- *)
Fixpoint uval (acc : N) (u : Decimal.uint) : N :=
  match u with
  | Nil => acc
  | D0 r => uval (acc * 10 + 0) r | D1 r => uval (acc * 10 + 1) r
  | D2 r => uval (acc * 10 + 2) r | D3 r => uval (acc * 10 + 3) r
  | D4 r => uval (acc * 10 + 4) r | D5 r => uval (acc * 10 + 5) r
  | D6 r => uval (acc * 10 + 6) r | D7 r => uval (acc * 10 + 7) r
  | D8 r => uval (acc * 10 + 8) r | D9 r => uval (acc * 10 + 9) r
  end.

Lemma parse_digits_uint : forall u acc,
  parse_digits (Z.of_N acc) (uint_bytes u) = Some (Z.of_N (uval acc u)).
Proof.
  induction u as [|r IH|r IH|r IH|r IH|r IH|r IH|r IH|r IH|r IH|r IH]; intros acc;
    [reflexivity | ..];
    cbn [uint_bytes parse_digits uval];
    match goal with |- context [is_digit ?c] => change (is_digit c) with true end;
    cbv iota;
    rewrite <- IH; f_equal;
    match goal with |- context [b2n ?c] =>
      let v := eval vm_compute in (b2n c - 48) in change (b2n c - 48) with v end;
    lia.
Qed.

Lemma uval_of_lu : forall u acc,
  uval acc u = DecimalPos.Unsigned.of_lu (Decimal.rev u) + acc * 10 ^ DecimalPos.Unsigned.usize u.
Proof.
  induction u as [|r IH|r IH|r IH|r IH|r IH|r IH|r IH|r IH|r IH|r IH]; intros acc;
    cbn [uval DecimalPos.Unsigned.usize];
    [ cbn; lia | .. ];
    rewrite N.pow_succ_r';
    unfold Decimal.rev; cbn [Decimal.revapp]; rewrite DecimalPos.Unsigned.of_lu_revapp; cbn [DecimalPos.Unsigned.of_lu];
    rewrite IH; fold (Decimal.rev r); ring.
Qed.

Lemma uval_of_uint : forall u, uval 0 u = Pos.of_uint u.
Proof.
  intros u. rewrite uval_of_lu, DecimalPos.Unsigned.of_uint_alt. ring.
Qed.

Lemma parse_digits_to_uint : forall p,
  parse_digits 0 (uint_bytes (Pos.to_uint p)) = Some (Zpos p).
Proof.
  intros p. change 0%Z with (Z.of_N 0).
  rewrite parse_digits_uint, uval_of_uint, DecimalPos.Unsigned.of_to. reflexivity.
Qed.

(* ---- shape of Pos.to_uint: never empty, never a leading zero ---- *)
Definition head_nonzero (u : Decimal.uint) : bool :=
  match u with Nil | D0 _ => false | _ => true end.

Lemma to_uint_head_nonzero : forall p, head_nonzero (Pos.to_uint p) = true.
Proof.
  intros p.
  assert (Hn : unorm (Pos.to_uint p) = Pos.to_uint p).
  { pose proof (DecimalPos.Unsigned.to_of (Pos.to_uint p)) as H. rewrite DecimalPos.Unsigned.of_to in H.
    symmetry. exact H. }
  assert (Hz : nzhead (Pos.to_uint p) = Pos.to_uint p).
  { unfold unorm in Hn. destruct (nzhead (Pos.to_uint p)) eqn:E; try exact Hn.
    exfalso. apply (DecimalPos.Unsigned.to_uint_nonzero p). symmetry. exact Hn. }
  destruct (Pos.to_uint p) as [|r|r|r|r|r|r|r|r|r|r] eqn:E; try reflexivity.
  - exfalso. apply (DecimalPos.Unsigned.to_uint_nonnil p). exact E.
  - exfalso. apply (nzhead_nonzero (D0 r) r). exact Hz.
Qed.

Definition is_digit19 (c : byte) : bool := in_range 49 57 c.

Lemma uint_bytes_digits : forall u, forallb is_digit (uint_bytes u) = true.
Proof.
  induction u; cbn [uint_bytes forallb]; try reflexivity;
    match goal with |- context [is_digit ?c] => change (is_digit c) with true end; exact IHu.
Qed.

(* first byte of the text of a uint without leading zero is 1..9, the rest are digits *)
Definition lead19 (s : bytes) : bool :=
  match s with [] => false | d :: r => is_digit19 d && forallb is_digit r end.

Lemma uint_bytes_lead19 : forall u, head_nonzero u = true -> lead19 (uint_bytes u) = true.
Proof.
  intros u H. destruct u; try discriminate H; cbn [uint_bytes lead19];
    match goal with |- context [is_digit19 ?c] => change (is_digit19 c) with true end;
    apply uint_bytes_digits.
Qed.

Lemma uint_bytes_head_not_sign : forall u c r, uint_bytes u = c :: r ->
  beqb c "-"%byte = false /\ beqb c "+"%byte = false.
Proof.
  intros u c r H. destruct u; cbn [uint_bytes] in H; try discriminate H;
    injection H as Hc _; subst c; split; reflexivity.
Qed.

(* ---- (1a) round trip ---- *)
Theorem print_parse_Z : forall z, parse_Z (print_Z z) = Some z.
Proof.
  intros [|p|p]; [reflexivity | | ].
  - unfold print_Z, parse_Z.
    destruct (uint_bytes (Pos.to_uint p)) as [|c r] eqn:E.
    + pose proof (uint_bytes_lead19 _ (to_uint_head_nonzero p)) as H. rewrite E in H. discriminate H.
    + destruct (uint_bytes_head_not_sign _ _ _ E) as [H1 H2]. rewrite H1, H2.
      rewrite <- E. apply parse_digits_to_uint.
  - unfold print_Z, parse_Z. change (beqb "-"%byte "-"%byte) with true. cbv iota.
    destruct (uint_bytes (Pos.to_uint p)) as [|c r] eqn:E.
    + pose proof (uint_bytes_lead19 _ (to_uint_head_nonzero p)) as H. rewrite E in H. discriminate H.
    + rewrite <- E, parse_digits_to_uint. reflexivity.
Qed.

(* ---- (1b) canonical shape ---- *)
(* "0", or an optional '-' followed by a digit 1..9 and then digits only *)
Definition canonical_int_text (s : bytes) : bool :=
  match s with
  | [] => false
  | c :: r => if beqb c "-"%byte then lead19 r else bytes_eqb s ["0"%byte] || lead19 s
  end.

Theorem print_Z_canonical_b : forall z, canonical_int_text (print_Z z) = true.
Proof.
  intros [|p|p]; [reflexivity | | ].
  - unfold print_Z, canonical_int_text.
    pose proof (uint_bytes_lead19 _ (to_uint_head_nonzero p)) as H.
    destruct (uint_bytes (Pos.to_uint p)) as [|c r] eqn:E; [discriminate H|].
    destruct (uint_bytes_head_not_sign _ _ _ E) as [H1 _]. rewrite H1, H. apply orb_true_r.
  - unfold print_Z, canonical_int_text. change (beqb "-"%byte "-"%byte) with true. cbv iota.
    apply uint_bytes_lead19, to_uint_head_nonzero.
Qed.

(* the same, spelled out: sign exactly when negative, "0" exactly for zero *)
Theorem print_Z_canonical : forall z,
  (z = 0%Z /\ print_Z z = ["0"%byte]) \/
  (exists d r, print_Z z = (if (z <? 0)%Z then ["-"%byte] else []) ++ d :: r /\
               is_digit19 d = true /\ forallb is_digit r = true).
Proof.
  intros [|p|p]; [left; split; reflexivity | right | right].
  - pose proof (uint_bytes_lead19 _ (to_uint_head_nonzero p)) as H.
    unfold print_Z. destruct (uint_bytes (Pos.to_uint p)) as [|c r]; [discriminate H|].
    cbn [lead19] in H. apply andb_true_iff in H. destruct H as [H1 H2].
    exists c, r. split; [reflexivity | split; assumption].
  - pose proof (uint_bytes_lead19 _ (to_uint_head_nonzero p)) as H.
    unfold print_Z. destruct (uint_bytes (Pos.to_uint p)) as [|c r]; [discriminate H|].
    cbn [lead19] in H. apply andb_true_iff in H. destruct H as [H1 H2].
    exists c, r. split; [reflexivity | split; assumption].
Qed.

(* consequence: the text determines the integer *)
Corollary print_Z_inj : forall a b, print_Z a = print_Z b -> a = b.
Proof.
  intros a b H. pose proof (print_parse_Z a) as Ha. rewrite H, print_parse_Z in Ha. congruence.
Qed.
