From Coq Require Import ZifyN ZifyBool.
From DT Require Import Model.Bytes Model.Utf8 Model.Hex Model.EscURL Model.EscHTML Spec.DecHTML.
From DT Require Import Proofs.BytesFacts Proofs.Utf8Facts Proofs.HexFacts Proofs.URLProofs.
Local Open Scope byte_scope.
Ltac Zify.zify_post_hook ::= Z.div_mod_to_equations.

(* ================================================================== *)
(* 1. The decoders consume input: fuel [length s] is enough            *)

Lemma strip_prefix_length p : forall s r, strip_prefix p s = Some r -> (length r <= length s)%nat.
Proof.
  induction p as [|a p IH]; intros s r H.
  - cbn [strip_prefix] in H. inversion H; subst. lia.
  - destruct s as [|b s]; cbn [strip_prefix] in H; [discriminate|].
    destruct (beqb a b); [|discriminate].
    apply IH in H. cbn [length]. lia.
Qed.

Lemma scan_num_length hex s : forall acc nd,
  (length (snd (scan_num hex acc nd s)) <= length s)%nat.
Proof.
  induction s as [|c s IH]; intros acc nd; cbn [scan_num].
  - cbn. lia.
  - destruct (digit_val hex c) as [v|].
    + specialize (IH (acc * (if hex then 16 else 10) + v)%N (S nd)). cbn [length]. lia.
    + cbn [snd]. lia.
Qed.

Lemma numeric_ref_length t o r : numeric_ref t = Some (o, r) -> (length r <= length t)%nat.
Proof.
  unfold numeric_ref. destruct t as [|c [|c2 t2]]; try discriminate.
  cbv zeta.
  set (hex := beqb c "x" || beqb c "X").
  match goal with |- context [scan_num hex 0%N O ?t] =>
    assert (Ht1 : (length t <= length (c :: c2 :: t2))%nat)
      by (destruct hex; cbn [tl length]; lia);
    pose proof (scan_num_length hex t 0%N O) as Hs;
    destruct (scan_num hex 0%N O t) as [[v nd] rem]
  end.
  cbn [snd] in Hs.
  match goal with |- context [Nat.leb ?x 1] => destruct (Nat.leb x 1) end; [discriminate|].
  intros H. inversion H; subst. clear H.
  destruct rem as [|c' rem']; [cbn [length] in *; lia|].
  destruct (beqb c' ";"); cbn [tl length] in *; lia.
Qed.

Lemma named_ref_in_length tbl : forall s o r,
  named_ref_in tbl s = Some (o, r) -> (length r <= length s)%nat.
Proof.
  induction tbl as [|[name v] tbl IH]; intros s o r H; cbn [named_ref_in] in H; [discriminate|].
  destruct (strip_prefix name s) as [rem|] eqn:E.
  - inversion H; subst. eapply strip_prefix_length; exact E.
  - eapply IH; exact H.
Qed.

Lemma char_ref_length s o r : char_ref s = Some (o, r) -> (length r <= length s)%nat.
Proof.
  unfold char_ref. destruct s as [|c t]; [discriminate|].
  destruct (beqb c "#").
  - intros H. apply numeric_ref_length in H. cbn [length]. lia.
  - apply named_ref_in_length.
Qed.

Lemma unescape_fuel_enough : forall f1 f2 s,
  (length s <= f1)%nat -> (length s <= f2)%nat -> unescape_fuel f1 s = unescape_fuel f2 s.
Proof.
  induction f1 as [|f1 IH]; intros f2 s H1 H2.
  - destruct s; [|cbn [length] in H1; lia]. destruct f2; reflexivity.
  - destruct f2 as [|f2].
    + destruct s; [reflexivity|cbn [length] in H2; lia].
    + destruct s as [|c rest]; [reflexivity|].
      cbn [unescape_fuel]. cbn [length] in H1, H2.
      destruct (beqb c "&").
      * destruct (char_ref rest) as [[o r]|] eqn:E.
        -- apply char_ref_length in E. f_equal. apply IH; lia.
        -- f_equal. apply IH; lia.
      * f_equal. apply IH; lia.
Qed.

(* the unfolding equation of the decoder *)
Lemma html_unescape_nil : html_unescape [] = [].
Proof. reflexivity. Qed.

Lemma html_unescape_cons c rest :
  html_unescape (c :: rest) =
  if beqb c "&" then
    match char_ref rest with
    | Some (o, r) => o ++ html_unescape r
    | None => c :: html_unescape rest
    end
  else c :: html_unescape rest.
Proof.
  unfold html_unescape. cbn [length unescape_fuel].
  destruct (beqb c "&"); [|reflexivity].
  destruct (char_ref rest) as [[o r]|] eqn:E; [|reflexivity].
  apply char_ref_length in E. f_equal. apply unescape_fuel_enough; lia.
Qed.

Lemma html_unescape_ref body o rest :
  char_ref (body ++ rest) = Some (o, rest) ->
  html_unescape ("&" :: body ++ rest) = o ++ html_unescape rest.
Proof.
  intros H. rewrite html_unescape_cons.
  change (beqb "&" "&") with true. cbv iota. rewrite H. reflexivity.
Qed.

Lemma html_unescape_raw c rest :
  beqb c "&" = false -> html_unescape (c :: rest) = c :: html_unescape rest.
Proof. intros H. rewrite html_unescape_cons, H. reflexivity. Qed.

(* same for the attribute alphabet *)
Lemma first_prefix_length ps : forall s r, first_prefix ps s = Some r -> (length r <= length s)%nat.
Proof.
  induction ps as [|p ps IH]; intros s r H; cbn [first_prefix] in H; [discriminate|].
  destruct (strip_prefix p s) as [rem|] eqn:E.
  - inversion H; subst. eapply strip_prefix_length; exact E.
  - eapply IH; exact H.
Qed.

Lemma attr_ref_length s r : attr_ref s = Some r -> (length r <= length s)%nat.
Proof.
  unfold attr_ref.
  destruct (strip_prefix ["#"; "x"] s) as [t|] eqn:E.
  - apply strip_prefix_length in E.
    pose proof (scan_num_length true t 0%N O) as Hs.
    destruct (scan_num true 0%N O t) as [[v nd] rem]. cbn [snd] in Hs.
    destruct nd as [|nd]; [discriminate|].
    destruct rem as [|c rem']; [discriminate|].
    destruct (beqb c ";"); [|discriminate].
    intros H. inversion H; subst. cbn [length] in Hs. lia.
  - apply first_prefix_length.
Qed.

Lemma attr_alphabet_fuel_enough : forall f1 f2 s,
  (length s <= f1)%nat -> (length s <= f2)%nat -> attr_alphabet_fuel f1 s = attr_alphabet_fuel f2 s.
Proof.
  induction f1 as [|f1 IH]; intros f2 s H1 H2.
  - destruct s; [|cbn [length] in H1; lia]. destruct f2; reflexivity.
  - destruct s as [|c rest]; [destruct f2; reflexivity|].
    destruct f2 as [|f2]; [cbn [length] in H2; lia|].
    cbn [attr_alphabet_fuel]. cbn [length] in H1, H2.
    destruct (beqb c "&").
    + destruct (attr_ref rest) as [r|] eqn:E; [|reflexivity].
      apply attr_ref_length in E. apply IH; lia.
    + f_equal. apply IH; lia.
Qed.

Lemma attr_alphabet_cons c rest :
  attr_alphabet (c :: rest) =
  if beqb c "&" then
    match attr_ref rest with
    | Some r => attr_alphabet r
    | None => false
    end
  else attr_safe_char c && attr_alphabet rest.
Proof.
  unfold attr_alphabet. cbn [length attr_alphabet_fuel].
  destruct (beqb c "&"); [|reflexivity].
  destruct (attr_ref rest) as [r|] eqn:E; [|reflexivity].
  apply attr_ref_length in E. apply attr_alphabet_fuel_enough; lia.
Qed.

Lemma attr_alphabet_ref body rest :
  attr_ref (body ++ rest) = Some rest ->
  attr_alphabet ("&" :: body ++ rest) = attr_alphabet rest.
Proof.
  intros H. rewrite attr_alphabet_cons.
  change (beqb "&" "&") with true. cbv iota. rewrite H. reflexivity.
Qed.

(* ================================================================== *)
(* 2. HTML escaper                                                      *)

(* closed tokens followed by an arbitrary tail: the decoder never looks into the tail *)
Lemma char_ref_lt rest : char_ref (["l"; "t"; ";"] ++ rest) = Some (["<"], rest).
Proof. reflexivity. Qed.
Lemma char_ref_gt rest : char_ref (["g"; "t"; ";"] ++ rest) = Some ([">"], rest).
Proof. reflexivity. Qed.
Lemma char_ref_quot rest : char_ref (["q"; "u"; "o"; "t"; ";"] ++ rest) = Some ([""""], rest).
Proof. reflexivity. Qed.
Lemma char_ref_amp rest : char_ref (["a"; "m"; "p"; ";"] ++ rest) = Some (["&"], rest).
Proof. reflexivity. Qed.
Lemma char_ref_apos rest : char_ref (["#"; "3"; "9"; ";"] ++ rest) = Some (["'"], rest).
Proof. vm_compute. reflexivity. Qed.

Lemma unescape_ref_lt rest : html_unescape (ref_lt ++ rest) = "<" :: html_unescape rest.
Proof. exact (html_unescape_ref _ _ _ (char_ref_lt rest)). Qed.
Lemma unescape_ref_gt rest : html_unescape (ref_gt ++ rest) = ">" :: html_unescape rest.
Proof. exact (html_unescape_ref _ _ _ (char_ref_gt rest)). Qed.
Lemma unescape_ref_quot rest : html_unescape (ref_quot ++ rest) = """" :: html_unescape rest.
Proof. exact (html_unescape_ref _ _ _ (char_ref_quot rest)). Qed.
Lemma unescape_ref_amp rest : html_unescape (ref_amp ++ rest) = "&" :: html_unescape rest.
Proof. exact (html_unescape_ref _ _ _ (char_ref_amp rest)). Qed.
Lemma unescape_ref_apos rest : html_unescape (ref_apos ++ rest) = "'" :: html_unescape rest.
Proof. exact (html_unescape_ref _ _ _ (char_ref_apos rest)). Qed.

Lemma unescape_html_tok b rest :
  html_unescape (html_tok b ++ rest) = b :: html_unescape rest.
Proof.
  unfold html_tok.
  destruct (beqb b "<") eqn:E1; [apply beqb_true in E1; subst b; apply unescape_ref_lt|].
  destruct (beqb b ">") eqn:E2; [apply beqb_true in E2; subst b; apply unescape_ref_gt|].
  destruct (beqb b """") eqn:E3; [apply beqb_true in E3; subst b; apply unescape_ref_quot|].
  destruct (beqb b "'") eqn:E4; [apply beqb_true in E4; subst b; apply unescape_ref_apos|].
  destruct (beqb b "&") eqn:E5; [apply beqb_true in E5; subst b; apply unescape_ref_amp|].
  cbn [app]. apply html_unescape_raw. exact E5.
Qed.

Theorem html_roundtrip : forall s, html_unescape (html_escape s) = s.
Proof.
  induction s as [|b s IH]; [reflexivity|].
  unfold html_escape in *. cbn [flat_map]. rewrite unescape_html_tok, IH. reflexivity.
Qed.

Lemma html_alphabet_tok b rest :
  html_alphabet (html_tok b ++ rest) = html_alphabet rest.
Proof.
  unfold html_tok.
  destruct (beqb b "<") eqn:E1; [reflexivity|].
  destruct (beqb b ">") eqn:E2; [reflexivity|].
  destruct (beqb b """") eqn:E3; [reflexivity|].
  destruct (beqb b "'") eqn:E4; [reflexivity|].
  destruct (beqb b "&") eqn:E5; [reflexivity|].
  cbn [app html_alphabet]. rewrite E1, E2, E3, E4, E5. reflexivity.
Qed.

Theorem html_alphabet_ok : forall s, html_alphabet (html_escape s) = true.
Proof.
  induction s as [|b s IH]; [reflexivity|].
  unfold html_escape in *. cbn [flat_map]. rewrite html_alphabet_tok. exact IH.
Qed.

Theorem html_iter_roundtrip : forall n s,
  Nat.iter n html_unescape (repeat_app html_escape n s) = s.
Proof.
  induction n as [|n IH]; intros s; [reflexivity|].
  cbn [repeat_app].
  change (html_unescape (Nat.iter n html_unescape (repeat_app html_escape n (html_escape s))) = s).
  rewrite IH. apply html_roundtrip.
Qed.

Theorem html_iter_alphabet : forall n s, html_alphabet (repeat_app html_escape (S n) s) = true.
Proof. intros. rewrite repeat_app_S. apply html_alphabet_ok. Qed.

Lemma iter_unescape_nil n : Nat.iter n html_unescape [] = [].
Proof.
  induction n as [|n IH]; [reflexivity|].
  change (Nat.iter (S n) html_unescape []) with (html_unescape (Nat.iter n html_unescape [])).
  rewrite IH. reflexivity.
Qed.

(* the modifier exactly as rendered (empty input, repeat count) *)
Theorem mod_html_roundtrip : forall itr s,
  Nat.iter (Z.to_nat itr) html_unescape (mod_html_escape itr s) = s.
Proof.
  intros itr s. unfold mod_html_escape, esc_iter. destruct s as [|b s].
  - apply iter_unescape_nil.
  - apply html_iter_roundtrip.
Qed.
