From Coq Require Import ZifyN ZifyBool.
From DT Require Import Model.Bytes Model.Utf8 Model.Hex Model.EscURL Model.EscHTML Spec.DecHTML.
From DT Require Import Proofs.BytesFacts Proofs.Utf8Facts Proofs.HexFacts Proofs.URLProofs.
Local Open Scope byte_scope.
Ltac Zify.zify_post_hook ::= Z.div_mod_to_equations.

(* ================================================================== *)
(* 1. The decoders consume input: fuel [length s] is enough            *)

Lemma strip_prefix_length p : forall s r, strip_prefix p s = Some r -> (length r <= length s)%nat.
Proof.
  induction p as [|a p IH]; intros s r H.
  - cbn [strip_prefix] in H. inversion H; subst. lia.
  - destruct s as [|b s]; cbn [strip_prefix] in H; [discriminate|].
    destruct (beqb a b); [|discriminate].
    apply IH in H. cbn [length]. lia.
Qed.

Lemma scan_num_length hex s : forall acc nd,
  (length (snd (scan_num hex acc nd s)) <= length s)%nat.
Proof.
  induction s as [|c s IH]; intros acc nd; cbn [scan_num].
  - cbn. lia.
  - destruct (digit_val hex c) as [v|].
    + specialize (IH (acc * (if hex then 16 else 10) + v)%N (S nd)). cbn [length]. lia.
    + cbn [snd]. lia.
Qed.

Lemma numeric_ref_length t o r : numeric_ref t = Some (o, r) -> (length r <= length t)%nat.
Proof.
  unfold numeric_ref. destruct t as [|c [|c2 t2]]; try discriminate.
  cbv zeta.
  set (hex := beqb c "x" || beqb c "X").
  match goal with |- context [scan_num hex 0%N O ?t] =>
    assert (Ht1 : (length t <= length (c :: c2 :: t2))%nat)
      by (destruct hex; cbn [tl length]; lia);
    pose proof (scan_num_length hex t 0%N O) as Hs;
    destruct (scan_num hex 0%N O t) as [[v nd] rem]
  end.
  cbn [snd] in Hs.
  match goal with |- context [Nat.leb ?x 1] => destruct (Nat.leb x 1) end; [discriminate|].
  intros H. inversion H; subst. clear H.
  destruct rem as [|c' rem']; [cbn [length] in *; lia|].
  destruct (beqb c' ";"); cbn [tl length] in *; lia.
Qed.

Lemma named_ref_in_length tbl : forall s o r,
  named_ref_in tbl s = Some (o, r) -> (length r <= length s)%nat.
Proof.
  induction tbl as [|[name v] tbl IH]; intros s o r H; cbn [named_ref_in] in H; [discriminate|].
  destruct (strip_prefix name s) as [rem|] eqn:E.
  - inversion H; subst. eapply strip_prefix_length; exact E.
  - eapply IH; exact H.
Qed.

Lemma char_ref_length s o r : char_ref s = Some (o, r) -> (length r <= length s)%nat.
Proof.
  unfold char_ref. destruct s as [|c t]; [discriminate|].
  destruct (beqb c "#").
  - intros H. apply numeric_ref_length in H. cbn [length]. lia.
  - apply named_ref_in_length.
Qed.

Lemma unescape_fuel_enough : forall f1 f2 s,
  (length s <= f1)%nat -> (length s <= f2)%nat -> unescape_fuel f1 s = unescape_fuel f2 s.
Proof.
  induction f1 as [|f1 IH]; intros f2 s H1 H2.
  - destruct s; [|cbn [length] in H1; lia]. destruct f2; reflexivity.
  - destruct f2 as [|f2].
    + destruct s; [reflexivity|cbn [length] in H2; lia].
    + destruct s as [|c rest]; [reflexivity|].
      cbn [unescape_fuel]. cbn [length] in H1, H2.
      destruct (beqb c "&").
      * destruct (char_ref rest) as [[o r]|] eqn:E.
        -- apply char_ref_length in E. f_equal. apply IH; lia.
        -- f_equal. apply IH; lia.
      * f_equal. apply IH; lia.
Qed.

(* the unfolding equation of the decoder *)
Lemma html_unescape_nil : html_unescape [] = [].
Proof. reflexivity. Qed.

Lemma html_unescape_cons c rest :
  html_unescape (c :: rest) =
  if beqb c "&" then
    match char_ref rest with
    | Some (o, r) => o ++ html_unescape r
    | None => c :: html_unescape rest
    end
  else c :: html_unescape rest.
Proof.
  unfold html_unescape. cbn [length unescape_fuel].
  destruct (beqb c "&"); [|reflexivity].
  destruct (char_ref rest) as [[o r]|] eqn:E; [|reflexivity].
  apply char_ref_length in E. f_equal. apply unescape_fuel_enough; lia.
Qed.

Lemma html_unescape_ref body o rest :
  char_ref (body ++ rest) = Some (o, rest) ->
  html_unescape ("&" :: body ++ rest) = o ++ html_unescape rest.
Proof.
  intros H. rewrite html_unescape_cons.
  change (beqb "&" "&") with true. cbv iota. rewrite H. reflexivity.
Qed.

Lemma html_unescape_raw c rest :
  beqb c "&" = false -> html_unescape (c :: rest) = c :: html_unescape rest.
Proof. intros H. rewrite html_unescape_cons, H. reflexivity. Qed.

(* same for the attribute alphabet *)
Lemma first_prefix_length ps : forall s r, first_prefix ps s = Some r -> (length r <= length s)%nat.
Proof.
  induction ps as [|p ps IH]; intros s r H; cbn [first_prefix] in H; [discriminate|].
  destruct (strip_prefix p s) as [rem|] eqn:E.
  - inversion H; subst. eapply strip_prefix_length; exact E.
  - eapply IH; exact H.
Qed.

Lemma attr_ref_length s r : attr_ref s = Some r -> (length r <= length s)%nat.
Proof.
  unfold attr_ref.
  destruct (strip_prefix ["#"; "x"] s) as [t|] eqn:E.
  - apply strip_prefix_length in E.
    pose proof (scan_num_length true t 0%N O) as Hs.
    destruct (scan_num true 0%N O t) as [[v nd] rem]. cbn [snd] in Hs.
    destruct nd as [|nd]; [discriminate|].
    destruct rem as [|c rem']; [discriminate|].
    destruct (beqb c ";"); [|discriminate].
    intros H. inversion H; subst. cbn [length] in Hs. lia.
  - apply first_prefix_length.
Qed.

Lemma attr_alphabet_fuel_enough : forall f1 f2 s,
  (length s <= f1)%nat -> (length s <= f2)%nat -> attr_alphabet_fuel f1 s = attr_alphabet_fuel f2 s.
Proof.
  induction f1 as [|f1 IH]; intros f2 s H1 H2.
  - destruct s; [|cbn [length] in H1; lia]. destruct f2; reflexivity.
  - destruct s as [|c rest]; [destruct f2; reflexivity|].
    destruct f2 as [|f2]; [cbn [length] in H2; lia|].
    cbn [attr_alphabet_fuel]. cbn [length] in H1, H2.
    destruct (beqb c "&").
    + destruct (attr_ref rest) as [r|] eqn:E; [|reflexivity].
      apply attr_ref_length in E. apply IH; lia.
    + f_equal. apply IH; lia.
Qed.

Lemma attr_alphabet_cons c rest :
  attr_alphabet (c :: rest) =
  if beqb c "&" then
    match attr_ref rest with
    | Some r => attr_alphabet r
    | None => false
    end
  else attr_safe_char c && attr_alphabet rest.
Proof.
  unfold attr_alphabet. cbn [length attr_alphabet_fuel].
  destruct (beqb c "&"); [|reflexivity].
  destruct (attr_ref rest) as [r|] eqn:E; [|reflexivity].
  apply attr_ref_length in E. apply attr_alphabet_fuel_enough; lia.
Qed.

Lemma attr_alphabet_ref body rest :
  attr_ref (body ++ rest) = Some rest ->
  attr_alphabet ("&" :: body ++ rest) = attr_alphabet rest.
Proof.
  intros H. rewrite attr_alphabet_cons.
  change (beqb "&" "&") with true. cbv iota. rewrite H. reflexivity.
Qed.

(* ================================================================== *)
(* 2. HTML escaper                                                      *)

(* closed tokens followed by an arbitrary tail: the decoder never looks into the tail *)
Lemma char_ref_lt rest : char_ref (["l"; "t"; ";"] ++ rest) = Some (["<"], rest).
Proof. reflexivity. Qed.
Lemma char_ref_gt rest : char_ref (["g"; "t"; ";"] ++ rest) = Some ([">"], rest).
Proof. reflexivity. Qed.
Lemma char_ref_quot rest : char_ref (["q"; "u"; "o"; "t"; ";"] ++ rest) = Some ([""""], rest).
Proof. reflexivity. Qed.
Lemma char_ref_amp rest : char_ref (["a"; "m"; "p"; ";"] ++ rest) = Some (["&"], rest).
Proof. reflexivity. Qed.
Lemma char_ref_apos rest : char_ref (["#"; "3"; "9"; ";"] ++ rest) = Some (["'"], rest).
Proof. vm_compute. reflexivity. Qed.

Lemma unescape_ref_lt rest : html_unescape (ref_lt ++ rest) = "<" :: html_unescape rest.
Proof. exact (html_unescape_ref _ _ _ (char_ref_lt rest)). Qed.
Lemma unescape_ref_gt rest : html_unescape (ref_gt ++ rest) = ">" :: html_unescape rest.
Proof. exact (html_unescape_ref _ _ _ (char_ref_gt rest)). Qed.
Lemma unescape_ref_quot rest : html_unescape (ref_quot ++ rest) = """" :: html_unescape rest.
Proof. exact (html_unescape_ref _ _ _ (char_ref_quot rest)). Qed.
Lemma unescape_ref_amp rest : html_unescape (ref_amp ++ rest) = "&" :: html_unescape rest.
Proof. exact (html_unescape_ref _ _ _ (char_ref_amp rest)). Qed.
Lemma unescape_ref_apos rest : html_unescape (ref_apos ++ rest) = "'" :: html_unescape rest.
Proof. exact (html_unescape_ref _ _ _ (char_ref_apos rest)). Qed.

Lemma unescape_html_tok b rest :
  html_unescape (html_tok b ++ rest) = b :: html_unescape rest.
Proof.
  unfold html_tok.
  destruct (beqb b "<") eqn:E1; [apply beqb_true in E1; subst b; apply unescape_ref_lt|].
  destruct (beqb b ">") eqn:E2; [apply beqb_true in E2; subst b; apply unescape_ref_gt|].
  destruct (beqb b """") eqn:E3; [apply beqb_true in E3; subst b; apply unescape_ref_quot|].
  destruct (beqb b "'") eqn:E4; [apply beqb_true in E4; subst b; apply unescape_ref_apos|].
  destruct (beqb b "&") eqn:E5; [apply beqb_true in E5; subst b; apply unescape_ref_amp|].
  cbn [app]. apply html_unescape_raw. exact E5.
Qed.

Theorem html_roundtrip : forall s, html_unescape (html_escape s) = s.
Proof.
  induction s as [|b s IH]; [reflexivity|].
  unfold html_escape in *. cbn [flat_map]. rewrite unescape_html_tok, IH. reflexivity.
Qed.

Lemma html_alphabet_tok b rest :
  html_alphabet (html_tok b ++ rest) = html_alphabet rest.
Proof.
  unfold html_tok.
  destruct (beqb b "<") eqn:E1; [reflexivity|].
  destruct (beqb b ">") eqn:E2; [reflexivity|].
  destruct (beqb b """") eqn:E3; [reflexivity|].
  destruct (beqb b "'") eqn:E4; [reflexivity|].
  destruct (beqb b "&") eqn:E5; [reflexivity|].
  cbn [app html_alphabet]. rewrite E1, E2, E3, E4, E5. reflexivity.
Qed.

Theorem html_alphabet_ok : forall s, html_alphabet (html_escape s) = true.
Proof.
  induction s as [|b s IH]; [reflexivity|].
  unfold html_escape in *. cbn [flat_map]. rewrite html_alphabet_tok. exact IH.
Qed.

Theorem html_iter_roundtrip : forall n s,
  Nat.iter n html_unescape (repeat_app html_escape n s) = s.
Proof.
  induction n as [|n IH]; intros s; [reflexivity|].
  cbn [repeat_app].
  change (html_unescape (Nat.iter n html_unescape (repeat_app html_escape n (html_escape s))) = s).
  rewrite IH. apply html_roundtrip.
Qed.

Theorem html_iter_alphabet : forall n s, html_alphabet (repeat_app html_escape (S n) s) = true.
Proof. intros. rewrite repeat_app_S. apply html_alphabet_ok. Qed.

Lemma iter_unescape_nil n : Nat.iter n html_unescape [] = [].
Proof.
  induction n as [|n IH]; [reflexivity|].
  change (Nat.iter (S n) html_unescape []) with (html_unescape (Nat.iter n html_unescape [])).
  rewrite IH. reflexivity.
Qed.

(* the modifier exactly as rendered (empty input, repeat count) *)
Theorem mod_html_roundtrip : forall itr s,
  Nat.iter (Z.to_nat itr) html_unescape (mod_html_escape itr s) = s.
Proof.
  intros itr s. unfold mod_html_escape, esc_iter. destruct s as [|b s].
  - apply iter_unescape_nil.
  - apply html_iter_roundtrip.
Qed.

(* ================================================================== *)
(* 3. Attribute escaper                                                 *)
Local Open Scope N_scope.

(* ---- numeric references with symbolic digits ---- *)
Lemma scan_num_hex_digits ds : forall acc nd v rest,
  parse_hex_acc acc ds = Some v ->
  scan_num true acc nd (ds ++ ";"%byte :: rest) = (v, (nd + length ds)%nat, ";"%byte :: rest).
Proof.
  induction ds as [|d ds IH]; intros acc nd v rest H.
  - cbn [app parse_hex_acc length] in *. inversion H; subst.
    cbn [scan_num]. change (digit_val true ";") with (@None N). cbv iota.
    rewrite Nat.add_0_r. reflexivity.
  - cbn [app parse_hex_acc length scan_num] in *. unfold digit_val.
    destruct (hex_val d) as [x|]; [|discriminate].
    rewrite (IH _ (S nd) _ rest H). f_equal. f_equal. lia.
Qed.

Lemma char_ref_hex_digits ds v rest :
  ds <> [] -> parse_hex_acc 0 ds = Some v ->
  char_ref ("#"%byte :: "x"%byte :: ds ++ ";"%byte :: rest) = Some (utf8_encode (ref_value v), rest).
Proof.
  intros Hne Hp. destruct ds as [|d ds']; [congruence|].
  unfold char_ref. change (beqb "#" "#") with true. cbv iota.
  unfold numeric_ref. cbn [app]. cbv zeta.
  change (beqb "x" "x" || beqb "x" "X")%bool with true. cbv iota. cbn [tl].
  change (d :: ds' ++ ";"%byte :: rest) with ((d :: ds') ++ ";"%byte :: rest).
  rewrite (scan_num_hex_digits (d :: ds') 0 O v rest Hp).
  change (beqb ";" ";") with true. cbv iota. cbn [tl length].
  reflexivity.
Qed.

Lemma attr_ref_hex_digits ds v rest :
  ds <> [] -> parse_hex_acc 0 ds = Some v ->
  attr_ref ("#"%byte :: "x"%byte :: ds ++ ";"%byte :: rest) = Some rest.
Proof.
  intros Hne Hp. destruct ds as [|d ds']; [congruence|].
  unfold attr_ref. cbn [strip_prefix].
  change (beqb "#" "#") with true. change (beqb "x" "x") with true. cbv iota.
  change (d :: ds' ++ ";"%byte :: rest) with ((d :: ds') ++ ";"%byte :: rest).
  rewrite (scan_num_hex_digits (d :: ds') 0 O v rest Hp).
  cbn [length Nat.add]. change (beqb ";" ";") with true. reflexivity.
Qed.

(* ---- the digits written by the escaper ---- *)
Lemma parse_hex_acc_zeros k : parse_hex_acc 0 (repeat "0"%byte k) = Some 0.
Proof.
  induction k as [|k IH]; [reflexivity|].
  cbn [repeat parse_hex_acc]. change (hex_val "0") with (Some 0). cbv iota.
  change (0 * 16 + 0) with 0. exact IH.
Qed.

Lemma parse_hex_pad0 w r : r < 16777216 -> parse_hex_acc 0 (pad0 w (hex_lo r)) = Some r.
Proof.
  intros H. unfold pad0. rewrite parse_hex_acc_app, parse_hex_acc_zeros.
  apply parse_hex_acc_hex_lo. exact H.
Qed.

Lemma hex_lo_nonempty r : hex_lo r <> [].
Proof.
  intros E. unfold hex_lo in E.
  repeat match type of E with (if ?c then _ else _) = _ => destruct c end; discriminate.
Qed.

Lemma pad0_nonempty w r : pad0 w (hex_lo r) <> [].
Proof.
  unfold pad0. intros E. apply app_eq_nil in E. destruct E as [_ E].
  exact (hex_lo_nonempty r E).
Qed.

Lemma sweep_lo_hex_is_hex : forall b, (if is_lo_hex b then is_hex b else true) = true.
Proof. apply byte_forall. vm_compute. reflexivity. Qed.

Lemma parse_hex_acc_total ds : forall acc,
  forallb is_hex ds = true -> exists v, parse_hex_acc acc ds = Some v.
Proof.
  induction ds as [|d ds IH]; intros acc H.
  - exists acc. reflexivity.
  - cbn [forallb] in H. apply andb_true_iff in H. destruct H as [H1 H2].
    cbn [parse_hex_acc]. unfold is_hex in H1.
    destruct (hex_val d) as [x|]; [|discriminate]. apply IH. exact H2.
Qed.

Lemma forallb_repeat {A} (P : A -> bool) x k : P x = true -> forallb P (repeat x k) = true.
Proof. intros H. induction k as [|k IH]; [reflexivity|]. cbn [repeat forallb]. rewrite H, IH. reflexivity. Qed.

Lemma pad0_all_hex w r : forallb is_hex (pad0 w (hex_lo r)) = true.
Proof.
  unfold pad0. rewrite forallb_app. apply andb_true_iff. split.
  - apply forallb_repeat. reflexivity.
  - pose proof (hex_lo_all_lo_hex r) as H. rewrite forallb_forall in H.
    apply forallb_forall. intros b Hb. specialize (H b Hb).
    pose proof (sweep_lo_hex_is_hex b) as S. rewrite H in S. exact S.
Qed.

(* ---- the escaper's hex token ---- *)
Lemma attr_hex_shape w r rest :
  attr_hex w r ++ rest = "&"%byte :: "#"%byte :: "x"%byte :: pad0 w (hex_lo r) ++ ";"%byte :: rest.
Proof. unfold attr_hex. rewrite <- !app_assoc. reflexivity. Qed.

Lemma unescape_attr_hex w r rest :
  r < 16777216 ->
  html_unescape (attr_hex w r ++ rest) = utf8_encode (ref_value r) ++ html_unescape rest.
Proof.
  intros H. rewrite attr_hex_shape, html_unescape_cons.
  change (beqb "&" "&") with true. cbv iota.
  rewrite (char_ref_hex_digits _ r rest (pad0_nonempty w r) (parse_hex_pad0 w r H)).
  reflexivity.
Qed.

Lemma alphabet_attr_hex w r rest :
  attr_alphabet (attr_hex w r ++ rest) = attr_alphabet rest.
Proof.
  rewrite attr_hex_shape, attr_alphabet_cons.
  change (beqb "&" "&") with true. cbv iota.
  destruct (parse_hex_acc_total _ 0 (pad0_all_hex w r)) as [v Hv].
  rewrite (attr_ref_hex_digits _ v rest (pad0_nonempty w r) Hv).
  reflexivity.
Qed.

(* ---- closed tokens ---- *)
Lemma char_ref_fffd rest :
  char_ref (["#"; "x"; "F"; "F"; "F"; "D"; ";"]%byte ++ rest) = Some (utf8_encode 65533, rest).
Proof. vm_compute. reflexivity. Qed.

Lemma unescape_ref_fffd rest :
  html_unescape (ref_fffd ++ rest) = utf8_encode 65533 ++ html_unescape rest.
Proof. exact (html_unescape_ref _ _ _ (char_ref_fffd rest)). Qed.

Lemma attr_ref_amp rest : attr_ref (["a"; "m"; "p"; ";"]%byte ++ rest) = Some rest.
Proof. reflexivity. Qed.
Lemma attr_ref_lt rest : attr_ref (["l"; "t"; ";"]%byte ++ rest) = Some rest.
Proof. reflexivity. Qed.
Lemma attr_ref_gt rest : attr_ref (["g"; "t"; ";"]%byte ++ rest) = Some rest.
Proof. reflexivity. Qed.
Lemma attr_ref_quot rest : attr_ref (["q"; "u"; "o"; "t"; ";"]%byte ++ rest) = Some rest.
Proof. reflexivity. Qed.
Lemma attr_ref_fffd rest : attr_ref (["#"; "x"; "F"; "F"; "F"; "D"; ";"]%byte ++ rest) = Some rest.
Proof. vm_compute. reflexivity. Qed.

(* ---- rune classes ---- *)
Lemma rune_len_1 r : (rune_len r =? 1) = (r <? 128).
Proof.
  unfold rune_len. destruct (r <? 128); [reflexivity|].
  destruct (r <? 2048); [reflexivity|]. destruct (r <? 65536); reflexivity.
Qed.

Lemma attr_norm_id r : attr_ctrl r = false -> attr_norm r = r.
Proof.
  unfold attr_ctrl, attr_norm, btw. intros H.
  match goal with |- (if ?c then _ else _) = _ => destruct c eqn:E end; [lia|reflexivity].
Qed.

Lemma attr_norm_ctrl r : attr_ctrl r = true -> attr_norm r = 65533.
Proof.
  unfold attr_ctrl, attr_norm, btw. intros H.
  match goal with |- (if ?c then _ else _) = _ => destruct c eqn:E end; [reflexivity|lia].
Qed.

Lemma ref_value_id r :
  is_scalar r = true -> r <> 0 -> (r < 128 \/ 160 <= r) -> ref_value r = r.
Proof.
  unfold is_scalar, ref_value. intros Hs H0 Hr.
  rewrite N.mod_small by lia.
  destruct (2147483648 <=? r) eqn:E1; [lia|].
  destruct ((128 <=? r) && (r <=? 159))%bool eqn:E2; [lia|].
  match goal with |- (if ?c then _ else _) = _ => destruct c eqn:E3 end; [lia|reflexivity].
Qed.

Lemma sweep_attr_plain :
  forall b, (if attr_plain (b2n b) then negb (beqb b "&") && attr_safe_char b else true)%bool = true.
Proof. apply byte_forall. vm_compute. reflexivity. Qed.

Lemma attr_plain_small r : attr_plain r = true -> r < 128 /\ attr_ctrl r = false.
Proof. unfold attr_plain, attr_ctrl, btw. intros H. split; lia. Qed.

Lemma utf8_encode_ascii r : r < 128 -> utf8_encode r = [n2b r].
Proof. intros H. unfold utf8_encode. replace (r <? 128) with true by lia. reflexivity. Qed.

(* ---- token lemmas ---- *)
Lemma unescape_attr_tok r rest :
  is_scalar r = true ->
  html_unescape (attr_tok r ++ rest) = utf8_encode (attr_norm r) ++ html_unescape rest.
Proof.
  intros Hs. unfold attr_tok.
  destruct (r =? 38) eqn:E1; [apply N.eqb_eq in E1; subst r; apply unescape_ref_amp|].
  destruct (r =? 60) eqn:E2; [apply N.eqb_eq in E2; subst r; apply unescape_ref_lt|].
  destruct (r =? 62) eqn:E3; [apply N.eqb_eq in E3; subst r; apply unescape_ref_gt|].
  destruct (r =? 34) eqn:E4; [apply N.eqb_eq in E4; subst r; apply unescape_ref_quot|].
  destruct (attr_plain r) eqn:Ep.
  { destruct (attr_plain_small r Ep) as [Hlt Hc].
    rewrite (attr_norm_id r Hc), (utf8_encode_ascii r Hlt).
    pose proof (sweep_attr_plain (n2b r)) as S.
    rewrite b2n_n2b, Ep in S by lia.
    apply andb_true_iff in S. destruct S as [S _]. apply negb_true_iff in S.
    cbn [app]. apply html_unescape_raw. exact S. }
  destruct (attr_ctrl r) eqn:Ec.
  { rewrite (attr_norm_ctrl r Ec). apply unescape_ref_fffd. }
  rewrite (attr_norm_id r Ec).
  assert (Hb : r < 16777216) by (unfold is_scalar in Hs; lia).
  assert (Hv : ref_value r = r).
  { apply ref_value_id; [exact Hs| |]; unfold attr_ctrl, btw in Ec; lia. }
  rewrite rune_len_1.
  destruct (r <? 128); rewrite unescape_attr_hex by exact Hb; rewrite Hv; reflexivity.
Qed.

Theorem attr_roundtrip : forall rs,
  forallb is_scalar rs = true ->
  html_unescape (attr_escape rs) = utf8_encode_all (map attr_norm rs).
Proof.
  induction rs as [|r rs IH]; intros H; [reflexivity|].
  cbn [forallb] in H. apply andb_true_iff in H. destruct H as [Hr Hrs].
  unfold attr_escape, utf8_encode_all in *. cbn [flat_map map].
  rewrite unescape_attr_tok by exact Hr. rewrite IH by exact Hrs. reflexivity.
Qed.

Lemma alphabet_attr_tok r rest :
  attr_alphabet (attr_tok r ++ rest) = attr_alphabet rest.
Proof.
  unfold attr_tok.
  destruct (r =? 38); [exact (attr_alphabet_ref _ _ (attr_ref_amp rest))|].
  destruct (r =? 60); [exact (attr_alphabet_ref _ _ (attr_ref_lt rest))|].
  destruct (r =? 62); [exact (attr_alphabet_ref _ _ (attr_ref_gt rest))|].
  destruct (r =? 34); [exact (attr_alphabet_ref _ _ (attr_ref_quot rest))|].
  destruct (attr_plain r) eqn:Ep.
  { destruct (attr_plain_small r Ep) as [Hlt _].
    pose proof (sweep_attr_plain (n2b r)) as S.
    rewrite b2n_n2b, Ep in S by lia.
    apply andb_true_iff in S. destruct S as [S1 S2]. apply negb_true_iff in S1.
    cbn [app]. rewrite attr_alphabet_cons, S1, S2. reflexivity. }
  destruct (attr_ctrl r); [exact (attr_alphabet_ref _ _ (attr_ref_fffd rest))|].
  destruct (rune_len r =? 1); apply alphabet_attr_hex.
Qed.

Theorem attr_alphabet_ok : forall rs, attr_alphabet (attr_escape rs) = true.
Proof.
  induction rs as [|r rs IH]; [reflexivity|].
  unfold attr_escape in *. cbn [flat_map]. rewrite alphabet_attr_tok. exact IH.
Qed.

(* ================================================================== *)
(* 4. From bytes: the rune sequence Go delivers consists of scalar values *)

Lemma utf8_decode_scalar_n : forall n s,
  (length s <= n)%nat -> forallb is_scalar (utf8_decode s) = true.
Proof.
  induction n as [|n IH]; intros s Hl.
  - destruct s; [reflexivity|cbn [length] in Hl; lia].
  - destruct s as [|b0 t0]; [reflexivity|].
    cbn [length] in Hl.
    assert (IH0 : forallb is_scalar (utf8_decode t0) = true) by (apply IH; lia).
    assert (ERR : forallb is_scalar (rune_error :: utf8_decode t0) = true)
      by (cbn [forallb]; rewrite IH0; reflexivity).
    pose proof (b2n_lt b0) as B0.
    cbn [utf8_decode].
    destruct (b2n b0 <? 128) eqn:H1.
    { cbn [forallb]. rewrite IH0. apply andb_true_iff. split; [|reflexivity].
      unfold is_scalar. lia. }
    destruct (btw 194 223 (b2n b0)) eqn:H2.
    { destruct t0 as [|b1 t1]; [reflexivity|].
      destruct (btw 128 191 (b2n b1)) eqn:H3; [|exact ERR].
      cbn [forallb]. rewrite (IH t1) by (cbn [length] in Hl; lia).
      apply andb_true_iff. split; [|reflexivity].
      unfold btw, is_scalar in *. lia. }
    destruct (btw 224 239 (b2n b0)) eqn:H3.
    { destruct t0 as [|b1 [|b2 t2]]; try exact ERR.
      match goal with |- forallb _ (if ?c then _ else _) = _ => destruct c eqn:H4 end; [|exact ERR].
      cbn [forallb]. rewrite (IH t2) by (cbn [length] in Hl; lia).
      apply andb_true_iff. split; [|reflexivity].
      pose proof (b2n_lt b1) as B1. pose proof (b2n_lt b2) as B2.
      destruct (b2n b0 =? 224) eqn:H5; destruct (b2n b0 =? 237) eqn:H6;
        unfold btw, is_scalar in *; lia. }
    destruct (btw 240 244 (b2n b0)) eqn:H4.
    { destruct t0 as [|b1 [|b2 [|b3 t3]]]; try exact ERR.
      match goal with |- forallb _ (if ?c then _ else _) = _ => destruct c eqn:H5 end; [|exact ERR].
      cbn [forallb]. rewrite (IH t3) by (cbn [length] in Hl; lia).
      apply andb_true_iff. split; [|reflexivity].
      pose proof (b2n_lt b1) as B1. pose proof (b2n_lt b2) as B2. pose proof (b2n_lt b3) as B3.
      destruct (b2n b0 =? 240) eqn:H6; destruct (b2n b0 =? 244) eqn:H7;
        unfold btw, is_scalar in *; lia. }
    exact ERR.
Qed.

Theorem utf8_decode_scalar : forall s, forallb is_scalar (utf8_decode s) = true.
Proof. intros s. apply (utf8_decode_scalar_n (length s)). lia. Qed.

Theorem attr_bytes_roundtrip : forall s,
  html_unescape (attr_escape_bytes s) = utf8_encode_all (map attr_norm (utf8_decode s)).
Proof. intros s. unfold attr_escape_bytes. apply attr_roundtrip. apply utf8_decode_scalar. Qed.

Theorem attr_bytes_alphabet : forall s, attr_alphabet (attr_escape_bytes s) = true.
Proof. intros s. apply attr_alphabet_ok. Qed.

(* valid UTF-8 without the replaced control characters comes back unchanged *)
Lemma map_attr_norm_id rs :
  forallb (fun r => attr_norm r =? r) rs = true -> map attr_norm rs = rs.
Proof.
  induction rs as [|r rs IH]; intros H; [reflexivity|].
  cbn [forallb] in H. apply andb_true_iff in H. destruct H as [H1 H2].
  cbn [map]. apply N.eqb_eq in H1. rewrite H1, IH by exact H2. reflexivity.
Qed.

Theorem attr_bytes_clean : forall s,
  valid_utf8 s = true ->
  forallb (fun r => attr_norm r =? r) (utf8_decode s) = true ->
  html_unescape (attr_escape_bytes s) = s.
Proof.
  intros s Hv Hc. rewrite attr_bytes_roundtrip, map_attr_norm_id by exact Hc.
  unfold valid_utf8 in Hv. apply bytes_eqb_eq in Hv. exact Hv.
Qed.

(* ================================================================== *)
(* 5. Repeated attribute escaping (aa=, aaa= ...): the output of a pass is printable
      ASCII, which the next pass and its unescaping carry through unchanged *)

Definition printable (b : byte) : bool := in_range 32 126 b.

Lemma printable_decode t : forallb printable t = true -> utf8_decode t = map b2n t.
Proof.
  induction t as [|a t IH]; intros H; [reflexivity|].
  cbn [forallb] in H. apply andb_true_iff in H. destruct H as [H1 H2].
  cbn [utf8_decode map]. unfold printable, in_range in H1.
  replace (b2n a <? 128) with true by lia. rewrite IH by exact H2. reflexivity.
Qed.

Lemma printable_norm_encode t :
  forallb printable t = true -> utf8_encode_all (map attr_norm (map b2n t)) = t.
Proof.
  induction t as [|a t IH]; intros H; [reflexivity|].
  cbn [forallb] in H. apply andb_true_iff in H. destruct H as [H1 H2].
  unfold utf8_encode_all in *. cbn [map flat_map]. rewrite IH by exact H2.
  unfold printable, in_range in H1.
  rewrite attr_norm_id by (unfold attr_ctrl, btw; lia).
  rewrite utf8_encode_ascii by lia. rewrite n2b_b2n. reflexivity.
Qed.

Lemma printable_attr_roundtrip t :
  forallb printable t = true -> html_unescape (attr_escape_bytes t) = t.
Proof.
  intros H. rewrite attr_bytes_roundtrip, printable_decode by exact H.
  apply printable_norm_encode. exact H.
Qed.

Lemma sweep_plain_printable : forall b, (if attr_plain (b2n b) then printable b else true) = true.
Proof. apply byte_forall. vm_compute. reflexivity. Qed.

Lemma sweep_lo_hex_printable : forall b, (if is_lo_hex b then printable b else true) = true.
Proof. apply byte_forall. vm_compute. reflexivity. Qed.

Lemma attr_hex_printable w r : forallb printable (attr_hex w r) = true.
Proof.
  unfold attr_hex, pad0. rewrite !forallb_app.
  rewrite forallb_repeat by reflexivity.
  assert (H : forallb printable (hex_lo r) = true).
  { pose proof (hex_lo_all_lo_hex r) as H. rewrite forallb_forall in H.
    apply forallb_forall. intros b Hb. specialize (H b Hb).
    pose proof (sweep_lo_hex_printable b) as S. rewrite H in S. exact S. }
  rewrite H. reflexivity.
Qed.

Lemma attr_tok_printable r : forallb printable (attr_tok r) = true.
Proof.
  unfold attr_tok.
  destruct (r =? 38); [reflexivity|].
  destruct (r =? 60); [reflexivity|].
  destruct (r =? 62); [reflexivity|].
  destruct (r =? 34); [reflexivity|].
  destruct (attr_plain r) eqn:Ep.
  { destruct (attr_plain_small r Ep) as [Hlt _].
    pose proof (sweep_plain_printable (n2b r)) as S.
    rewrite b2n_n2b, Ep in S by lia. cbn [forallb]. rewrite S. reflexivity. }
  destruct (attr_ctrl r); [reflexivity|].
  destruct (rune_len r =? 1); apply attr_hex_printable.
Qed.

Lemma attr_escape_printable rs : forallb printable (attr_escape rs) = true.
Proof.
  induction rs as [|r rs IH]; [reflexivity|].
  unfold attr_escape in *. cbn [flat_map]. rewrite forallb_app, attr_tok_printable, IH. reflexivity.
Qed.

Lemma attr_iter_printable n : forall t,
  forallb printable t = true ->
  Nat.iter n html_unescape (repeat_app attr_escape_bytes n t) = t.
Proof.
  induction n as [|n IH]; intros t H; [reflexivity|].
  cbn [repeat_app].
  change (html_unescape (Nat.iter n html_unescape (repeat_app attr_escape_bytes n (attr_escape_bytes t))) = t).
  rewrite IH by apply attr_escape_printable.
  apply printable_attr_roundtrip. exact H.
Qed.

Theorem attr_iter_roundtrip : forall n s,
  Nat.iter (S n) html_unescape (repeat_app attr_escape_bytes (S n) s)
  = utf8_encode_all (map attr_norm (utf8_decode s)).
Proof.
  intros n s. cbn [repeat_app].
  change (html_unescape (Nat.iter n html_unescape (repeat_app attr_escape_bytes n (attr_escape_bytes s)))
          = utf8_encode_all (map attr_norm (utf8_decode s))).
  rewrite attr_iter_printable by apply attr_escape_printable.
  apply attr_bytes_roundtrip.
Qed.

Theorem attr_iter_alphabet : forall n s, attr_alphabet (repeat_app attr_escape_bytes (S n) s) = true.
Proof. intros. rewrite repeat_app_S. apply attr_bytes_alphabet. Qed.

(* the modifier as rendered, for a positive repeat count *)
Theorem mod_attr_roundtrip : forall itr s, (0 < itr)%Z ->
  Nat.iter (Z.to_nat itr) html_unescape (mod_attr_escape itr s)
  = utf8_encode_all (map attr_norm (utf8_decode s)).
Proof.
  intros itr s H. unfold mod_attr_escape.
  destruct (Z.to_nat itr) as [|n] eqn:E; [lia|]. apply attr_iter_roundtrip.
Qed.
