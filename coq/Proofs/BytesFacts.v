From DT Require Import Model.Bytes.

Lemma all_bytes_complete : forall b : byte, In b all_bytes.
Proof.
  intros b. unfold all_bytes.
  apply in_map_iff. exists (N.to_nat (Byte.to_N b)). split.
  - rewrite N2Nat.id. rewrite Byte.of_to_N. reflexivity.
  - apply in_seq. pose proof (Byte.to_N_bounded b). lia.
Qed.

Lemma byte_forall (P : byte -> bool) :
  forallb P all_bytes = true -> forall b, P b = true.
Proof.
  intros H b. rewrite forallb_forall in H. apply H, all_bytes_complete.
Qed.

Lemma byte_forall2 (P : byte -> byte -> bool) :
  forallb (fun a => forallb (P a) all_bytes) all_bytes = true -> forall a b, P a b = true.
Proof.
  intros H a b.
  pose proof (byte_forall _ H a) as Ha. cbv beta in Ha.
  exact (byte_forall _ Ha b).
Qed.

Lemma byte_eqb_eq a b : Byte.eqb a b = true <-> a = b.
Proof. apply Byte.byte_dec_bl || (split; [apply Byte.byte_dec_bl | apply Byte.byte_dec_lb]). Qed.

Lemma bytes_eqb_eq a : forall b, bytes_eqb a b = true <-> a = b.
Proof.
  induction a as [|x a IH]; intros [|y b]; simpl; split; intros H; try congruence; try discriminate.
  - apply andb_true_iff in H. destruct H as [H1 H2]. apply byte_eqb_eq in H1. apply IH in H2. congruence.
  - inversion H; subst. apply andb_true_iff. split. apply byte_eqb_eq; reflexivity. apply IH; reflexivity.
Qed.
